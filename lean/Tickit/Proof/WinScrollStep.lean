import Tickit.Proof.WinVisible
import Tickit.Proof.WinScroll
/-
  The invariant step of `_scroll` (`tickit_window_scroll`, `tickit_window_scrollrect`): for every rectangle of the visible
  region — whose cells all belong to the scrolled window (`Proof/WinVisible.lean`) — either the whole rectangle is
  exposed (shift too large, or the terminal refuses), or the terminal moves its cells, the pending damage moves with
  them (`shiftDamage_spec`) and the vacated strips are exposed.  Induction over the rectangles of the visible region,
  which are pairwise disjoint (C05's `Inv`).
-/
namespace Tickit
namespace WinFlush
open WinTree WinRB WinSpec

def stripV (t : Tree) (fuel : Nat) (win : Id) (o : Rect) (cols d : Int) : Res Tree :=
  if d > 0 then expose t fuel win (some ⟨o.bottom - d, o.left, d, cols⟩)
  else if d < 0 then expose t fuel win (some ⟨o.top, o.left, -d, cols⟩) else .ok t

def stripH (t : Tree) (fuel : Nat) (win : Id) (o : Rect) (lines r : Int) : Res Tree :=
  if r > 0 then expose t fuel win (some ⟨o.top, o.right - r, lines, r⟩)
  else if r < 0 then expose t fuel win (some ⟨o.top, o.left, lines, -r⟩) else .ok t

/-- `scrollOne` with the two strip exposes named. -/
def scrollOne' (oracle : Oracle) (win : Id) (absTop absLeft d r : Int) (pen : Pen)
    (acc : St × Bool × Bool) (ρ : Rect) : Res (St × Bool × Bool) :=
  if (d.natAbs : Int) ≥ ρ.lines ∨ (r.natAbs : Int) ≥ ρ.cols then do
    let t ← expose acc.1.tree acc.1.fuel win (some (ρ.translate (-absTop) (-absLeft)))
    pure ({ acc.1 with tree := t }, acc.2.1, acc.2.2)
  else do
    let dmg ← shiftDamage ρ d r acc.1.tree.root.damage []
    if oracle acc.1.tlines acc.1.tcols ρ d r then do
      let t2 ← stripV { acc.1.tree with root := { acc.1.tree.root with damage := dmg } } acc.1.fuel win
            (ρ.translate (-absTop) (-absLeft)) ρ.cols d
      let t3 ← stripH t2 acc.1.fuel win (ρ.translate (-absTop) (-absLeft)) ρ.lines r
      pure ({ acc.1 with tree := t3, screen := termScroll acc.1.tlines acc.1.tcols acc.1.screen ρ d r (Cell.blank pen) },
              acc.2.1, true)
    else do
      let t ← expose { acc.1.tree with root := { acc.1.tree.root with damage := dmg } } acc.1.fuel win
            (some (ρ.translate (-absTop) (-absLeft)))
      pure ({ acc.1 with tree := t }, false, true)

theorem scrollOne_eq (oracle : Oracle) (win : Id) (absTop absLeft d r : Int) (pen : Pen)
    (acc : St × Bool × Bool) (ρ : Rect) :
    scrollOne oracle win absTop absLeft d r pen acc ρ = scrollOne' oracle win absTop absLeft d r pen acc ρ := by
  unfold scrollOne scrollOne' stripV stripH
  simp only [bind, Bind.bind, pure, Pure.pure, St.fuel]
  by_cases h0 : (d.natAbs : Int) ≥ ρ.lines ∨ (r.natAbs : Int) ≥ ρ.cols
  · simp only [h0, if_true]
  · simp only [h0, if_false]
    cases shiftDamage ρ d r acc.1.tree.root.damage [] with
    | ub e => rfl
    | ok dmg =>
      simp only
      by_cases ho : oracle acc.1.tlines acc.1.tcols ρ d r = true
      · simp only [ho, if_true]
        by_cases hd1 : d > 0 <;> by_cases hd2 : d < 0 <;> by_cases hr1 : r > 0 <;> by_cases hr2 : r < 0 <;>
          simp only [hd1, hd2, hr1, hr2, if_true, if_false]
      · simp only [ho, if_false, Bool.false_eq_true]


/-! ### exposes that only add damage -/

theorem expose_grow (t t' : Tree) (fuel : Nat) (id : Id) (e : Rect) (h : expose t fuel id (some e) = .ok t')
    (hne : ∀ x ∈ t.root.damage, x.Nonempty) (hpos : RootsPositive t) :
    t'.wins = t.wins ∧ (∀ x ∈ t'.root.damage, x.Nonempty) ∧ (RectSet.Inv t.root.damage → RectSet.Inv t'.root.damage) ∧
    RootStep t t' ∧ (∀ L C, Covered t.root.damage L C → Covered t'.root.damage L C) ∧
    (∀ L C l c, e.Mem l c → ExposedAt t fuel id l c L C → Covered t'.root.damage L C) := by
  obtain ⟨h1, h2, h3, h4, h5⟩ := expose_spec fuel t id _ t' h hne hpos
  refine ⟨h1, h2, h3, ?_, fun L C hc => (h5 L C).2 (Or.inl hc), fun L C l c hm hex => (h5 L C).2 (Or.inr ⟨l, c, ?_, hex⟩)⟩
  · rcases h4 with rfl | h4
    · exact RootStep.refl _
    · exact Or.inr h4
  · intro r hr; cases hr; exact hm

theorem rootsPositive_wins {t t' : Tree} (h : t'.wins = t.wins) (hp : RootsPositive t) : RootsPositive t' := by
  intro x w hx hr; rw [h] at hx; exact hp x w hx hr

/-- One optional strip expose (`if c1 then expose A else if c2 then expose B else nothing`). -/
theorem strip_step (t t' : Tree) (fuel : Nat) (win : Id) (c1 c2 : Prop) [Decidable c1] [Decidable c2] (A B : Rect)
    (h : (if c1 then expose t fuel win (some A) else if c2 then expose t fuel win (some B) else .ok t) = .ok t')
    (hne : ∀ x ∈ t.root.damage, x.Nonempty) (hpos : RootsPositive t) :
    t'.wins = t.wins ∧ (∀ x ∈ t'.root.damage, x.Nonempty) ∧ (RectSet.Inv t.root.damage → RectSet.Inv t'.root.damage) ∧
    RootStep t t' ∧ (∀ L C, Covered t.root.damage L C → Covered t'.root.damage L C) ∧
    (c1 → ∀ L C l c, A.Mem l c → ExposedAt t fuel win l c L C → Covered t'.root.damage L C) ∧
    (¬ c1 → c2 → ∀ L C l c, B.Mem l c → ExposedAt t fuel win l c L C → Covered t'.root.damage L C) := by
  by_cases h1 : c1
  · rw [if_pos h1] at h
    obtain ⟨a1, a2, a3, a4, a5, a6⟩ := expose_grow t t' fuel win A h hne hpos
    exact ⟨a1, a2, a3, a4, a5, fun _ => a6, fun hn => absurd h1 hn⟩
  · rw [if_neg h1] at h
    by_cases h2 : c2
    · rw [if_pos h2] at h
      obtain ⟨a1, a2, a3, a4, a5, a6⟩ := expose_grow t t' fuel win B h hne hpos
      exact ⟨a1, a2, a3, a4, a5, fun hx => absurd hx h1, fun _ _ => a6⟩
    · rw [if_neg h2] at h
      cases h
      exact ⟨rfl, hne, fun hi => hi, RootStep.refl _, fun _ _ hc => hc, fun hx => absurd hx h1, fun _ hx => absurd hx h2⟩

/-! ### the terminal scroll on the grid -/

theorem termScroll_outside (tl tc : Int) (g : Int → Int → Cell) (ρ : Rect) (d r : Int) (fill : Cell) (L C : Int)
    (h : ¬ ρ.Mem L C) : termScroll tl tc g ρ d r fill L C = g L C := by
  unfold termScroll
  have : ρ.memb L C = false := (memb_false_iff _ _ _).2 h
  simp [this]

theorem termScroll_inside (tl tc : Int) (g : Int → Int → Cell) (ρ : Rect) (d r : Int) (fill : Cell) (L C : Int)
    (h1 : ρ.Mem L C) (b1 : 0 ≤ L ∧ L < tl ∧ 0 ≤ C ∧ C < tc)
    (h2 : ρ.Mem (L + d) (C + r)) (b2 : 0 ≤ L + d ∧ L + d < tl ∧ 0 ≤ C + r ∧ C + r < tc) :
    termScroll tl tc g ρ d r fill L C = g (L + d) (C + r) := by
  unfold termScroll
  have e1 : ρ.memb L C = true := (memb_true_iff _ _ _).2 h1
  have e2 : ρ.memb (L + d) (C + r) = true := (memb_true_iff _ _ _).2 h2
  simp [e1, e2, b1.1, b1.2.1, b1.2.2.1, b1.2.2.2, b2.1, b2.2.1, b2.2.2.1, b2.2.2.2]

theorem shiftDamage_nil (ρ : Rect) (d r : Int) (acc : List Rect) : shiftDamage ρ d r [] acc = .ok acc := rfl

/-! ### the loop invariant -/

/-- What the loop keeps of the state. -/
structure SLoopOk (t0 : Tree) (st0 st : St) : Prop where
  wins : st.tree.wins = t0.wins
  changes : st.tree.root.changes = st0.tree.root.changes
  tl : st.tlines = st0.tlines
  tc : st.tcols = st0.tcols
  pens : st.pens = st0.pens
  nonempty : ∀ x ∈ st.tree.root.damage, x.Nonempty
  dinv : RectSet.Inv st.tree.root.damage
  flags : Flags st.tree
  later : st0.tree.root.needsLater = true → st.tree.root.needsLater = true

/-- "Damaged or already right", with the new content inside the region `D` scrolled so far and the old one elsewhere. -/
def Mixed (content content' : Id → Int → Int → Cell) (t0 : Tree) (D : Int → Int → Prop) (st : St) : Prop :=
  ∀ L C w l c, ownerAt t0 L C = some (w, l, c) →
    Covered st.tree.root.damage L C ∨ (D L C ∧ st.screen L C = content' w l c) ∨ (¬ D L C ∧ st.screen L C = content w l c)

theorem sLoopOk_expose {t0 : Tree} {st0 st : St} {t' : Tree} (hl : SLoopOk t0 st0 st) (hw : t'.wins = st.tree.wins)
    (hne : ∀ x ∈ t'.root.damage, x.Nonempty) (hdi : RectSet.Inv t'.root.damage) (hs : RootStep st.tree t')
    (scr : Int → Int → Cell) : SLoopOk t0 st0 { st with tree := t', screen := scr } :=
  { wins := hw.trans hl.wins
    changes := hs.changes.trans hl.changes
    tl := hl.tl, tc := hl.tc, pens := hl.pens
    nonempty := hne
    dinv := hdi
    flags := hs.flags hl.flags
    later := fun h => by
      have := hl.later h
      rcases hs with hs | ⟨_, y, _⟩
      · show t'.root.needsLater = true
        rw [hs]; exact this
      · exact y }

theorem mixed_grow (content content' : Id → Int → Int → Cell) (t0 : Tree) (D : Int → Int → Prop) (ρ : Rect) (st st' : St)
    (hM : Mixed content content' t0 D st)
    (hscr : ∀ L C, ¬ ρ.Mem L C → st'.screen L C = st.screen L C)
    (hgrow : ∀ L C, ¬ ρ.Mem L C → Covered st.tree.root.damage L C → Covered st'.tree.root.damage L C)
    (hin : ∀ L C w l c, ρ.Mem L C → ownerAt t0 L C = some (w, l, c) →
      Covered st'.tree.root.damage L C ∨ st'.screen L C = content' w l c) :
    Mixed content content' t0 (fun L C => ρ.Mem L C ∨ D L C) st' := by
  intro L C w l c ho
  by_cases hm : ρ.Mem L C
  · rcases hin L C w l c hm ho with h1 | h1
    · exact Or.inl h1
    · exact Or.inr (Or.inl ⟨Or.inl hm, h1⟩)
  · rcases hM L C w l c ho with h1 | ⟨h1, h2⟩ | ⟨h1, h2⟩
    · exact Or.inl (hgrow L C hm h1)
    · exact Or.inr (Or.inl ⟨Or.inr h1, by rw [hscr L C hm]; exact h2⟩)
    · exact Or.inr (Or.inr ⟨fun hx => by rcases hx with hx | hx; exact hm hx; exact h1 hx, by rw [hscr L C hm]; exact h2⟩)

/-- **One rectangle of the visible region**: whichever way `_scrollrectset` deals with it, the invariant moves on with
    the new content inside it. -/
theorem scrollOne_step (oracle : Oracle) (content content' : Id → Int → Int → Cell) (t0 : Tree) (st0 : St) (win : Id)
    (T' L' d r : Int) (pen : Pen) (D : Int → Int → Prop) (acc acc' : St × Bool × Bool) (ρ : Rect)
    (h : scrollOne oracle win T' L' d r pen acc ρ = .ok acc')
    (hok : TreeOk t0) (hpos : RootsPositive t0) (hl : SLoopOk t0 st0 acc.1) (hρ : ρ.Nonempty)
    (hown : ∀ L C, ρ.Mem L C → ownerAt t0 L C = some (win, L - T', C - L') ∧ ¬ D L C ∧
      0 ≤ L ∧ L < st0.tlines ∧ 0 ≤ C ∧ C < st0.tcols)
    (hca : ∀ L C, ρ.Mem L C → content' win (L - T') (C - L') = content win (L - T' + d) (C - L' + r))
    (hM : Mixed content content' t0 D acc.1) :
    SLoopOk t0 st0 acc'.1 ∧ Mixed content content' t0 (fun L C => ρ.Mem L C ∨ D L C) acc'.1 := by
  rw [scrollOne_eq] at h
  unfold scrollOne' at h
  simp only [bind, Bind.bind, pure, Pure.pure, St.fuel] at h
  have hfuel : acc.1.tree.wins.size + 1 = t0.wins.size + 1 := by rw [hl.wins]
  -- every cell of the rectangle is exposed from the scrolled window, in any tree with this store
  have hex : ∀ L C, ρ.Mem L C → ∀ t : Tree, t.wins = t0.wins → ExposedAt t (t0.wins.size + 1) win (L - T') (C - L') L C := by
    intro L C hm t ht
    exact exposedAt_congr ht _ _ _ _ _ _ (owner_exposedAt t0 hok L C win _ _ (hown L C hm).1)
  have hom : ∀ L C, ρ.Mem L C → (ρ.translate (-T') (-L')).Mem (L - T') (C - L') := by
    intro L C hm
    simp only [Rect.translate, Rect.Mem, Rect.bottom, Rect.right] at hm ⊢
    omega
  -- the whole rectangle exposed: common to "shift too large" and "terminal refuses"
  have whole : ∀ (st1 : St) (t' : Tree) (ret' dp' : Bool), SLoopOk t0 st0 st1 → st1.screen = acc.1.screen →
      (∀ L C, ¬ ρ.Mem L C → Covered acc.1.tree.root.damage L C → Covered st1.tree.root.damage L C) →
      expose st1.tree (t0.wins.size + 1) win (some (ρ.translate (-T') (-L'))) = .ok t' →
      SLoopOk t0 st0 ({ st1 with tree := t' }, ret', dp').1 ∧
        Mixed content content' t0 (fun L C => ρ.Mem L C ∨ D L C) ({ st1 with tree := t' }, ret', dp').1 := by
    intro st1 t' ret' dp' hl1 hscr hout he
    obtain ⟨a1, a2, a3, a4, a5, a6⟩ := expose_grow st1.tree t' _ win _ he hl1.nonempty (rootsPositive_wins hl1.wins hpos)
    have := sLoopOk_expose hl1 a1 a2 (a3 hl1.dinv) a4 st1.screen
    refine ⟨this, mixed_grow content content' t0 D ρ acc.1 _ hM (fun L C _ => by show st1.screen L C = _; rw [hscr])
      (fun L C hm hc => a5 L C (hout L C hm hc)) (fun L C w l c hm _ => Or.inl ?_)⟩
    exact a6 L C _ _ (hom L C hm) (hex L C hm st1.tree hl1.wins)
  split at h
  · -- shift too large
    rw [hfuel] at h
    cases he : expose acc.1.tree (t0.wins.size + 1) win (some (ρ.translate (-T') (-L'))) with
    | ub e => rw [he] at h; cases h
    | ok t' =>
      rw [he] at h
      simp only [Res.ok.injEq] at h
      subst h
      exact whole acc.1 t' _ _ hl rfl (fun _ _ _ hc => hc) he
  · cases hsd : shiftDamage ρ d r acc.1.tree.root.damage [] with
    | ub e => rw [hsd] at h; cases h
    | ok dmg1 =>
      rw [hsd] at h
      simp only at h
      obtain ⟨s1, s2⟩ := shiftDamage_spec ρ d r hρ _ [] dmg1 hsd hl.nonempty RectSet.invS_nil
      generalize ht1 : ({ acc.1.tree with root := { acc.1.tree.root with damage := dmg1 } } : Tree) = t1 at h
      have h1w : t1.wins = acc.1.tree.wins := by rw [← ht1]
      have h1d : t1.root.damage = dmg1 := by rw [← ht1]
      have hl1 : SLoopOk t0 st0 { acc.1 with tree := t1 } :=
        { wins := h1w.trans hl.wins
          changes := by rw [← ht1]; exact hl.changes
          tl := hl.tl, tc := hl.tc, pens := hl.pens
          nonempty := by rw [h1d]; exact s1.1
          dinv := by rw [h1d]; exact (RectSet.inv_iff _).2 s1
          flags := by
            intro hd
            rw [h1d] at hd
            have hne0 : acc.1.tree.root.damage ≠ [] := by
              intro h0
              rw [h0, shiftDamage_nil] at hsd
              cases hsd
              exact hd rfl
            have := hl.flags hne0
            rw [← ht1]
            exact this
          later := by rw [← ht1]; exact hl.later }
      have hout : ∀ L C, ¬ ρ.Mem L C → Covered acc.1.tree.root.damage L C → Covered t1.root.damage L C := by
        intro L C hm hc
        rw [h1d]
        obtain ⟨rj, hrj, hmem⟩ := hc
        exact (s2 L C).2 (Or.inr ⟨rj, hrj, Or.inl ⟨hmem, hm⟩⟩)
      rw [hfuel] at h
      split at h
      · -- the terminal scrolls
        cases hv : stripV t1 (t0.wins.size + 1) win (ρ.translate (-T') (-L')) ρ.cols d with
        | ub e => rw [hv] at h; cases h
        | ok t2 =>
          rw [hv] at h
          simp only at h
          cases hh : stripH t2 (t0.wins.size + 1) win (ρ.translate (-T') (-L')) ρ.lines r with
          | ub e => rw [hh] at h; cases h
          | ok t3 =>
            rw [hh] at h
            simp only [Res.ok.injEq] at h
            subst h
            unfold stripV at hv
            unfold stripH at hh
            obtain ⟨a1, a2, a3, a4, a5, a6, a7⟩ := strip_step t1 t2 _ win _ _ _ _ hv hl1.nonempty (rootsPositive_wins hl1.wins hpos)
            have hw2 : t2.wins = t0.wins := a1.trans hl1.wins
            obtain ⟨b1, b2, b3, b4, b5, b6, b7⟩ := strip_step t2 t3 _ win _ _ _ _ hh a2 (rootsPositive_wins hw2 hpos)
            have hl2 := sLoopOk_expose hl1 a1 a2 (a3 hl1.dinv) a4 acc.1.screen
            have hl3 := sLoopOk_expose hl2 b1 b2 (b3 (a3 hl1.dinv)) b4
              (termScroll acc.1.tlines acc.1.tcols acc.1.screen ρ d r (Cell.blank pen))
            refine ⟨hl3, mixed_grow content content' t0 D ρ acc.1 _ hM
              (fun L C hm => termScroll_outside _ _ _ _ _ _ _ L C hm)
              (fun L C hm hc => b5 L C (a5 L C (hout L C hm hc))) ?_⟩
            intro L C w l c hm ho
            obtain ⟨ho', hnd, q1, q2, q3, q4⟩ := hown L C hm
            rw [ho'] at ho
            simp only [Option.some.injEq, Prod.mk.injEq] at ho
            obtain ⟨rfl, rfl, rfl⟩ := ho
            have hmm := hm
            simp only [Rect.Mem, Rect.bottom, Rect.right] at hmm
            by_cases hin : ρ.Mem (L + d) (C + r)
            · -- the cell receives the cell `(d, r)` away, which belongs to the window too
              obtain ⟨ho2, hnd2, p1, p2, p3, p4⟩ := hown _ _ hin
              have hscr : termScroll acc.1.tlines acc.1.tcols acc.1.screen ρ d r (Cell.blank pen) L C =
                  acc.1.screen (L + d) (C + r) :=
                termScroll_inside _ _ _ _ _ _ _ L C hm (by rw [hl.tl, hl.tc]; exact ⟨q1, q2, q3, q4⟩) hin
                  (by rw [hl.tl, hl.tc]; exact ⟨p1, p2, p3, p4⟩)
              rcases hM _ _ _ _ _ ho2 with hc | ⟨hd', _⟩ | ⟨_, hs⟩
              · left
                apply b5; apply a5
                rw [h1d]
                obtain ⟨rj, hrj, hmem⟩ := hc
                exact (s2 L C).2 (Or.inr ⟨rj, hrj, Or.inr ⟨hm, hmem, hin⟩⟩)
              · exact absurd hd' hnd2
              · right
                show termScroll acc.1.tlines acc.1.tcols acc.1.screen ρ d r (Cell.blank pen) L C = _
                rw [hscr, hs, hca L C hm]
                have e1 : L + d - T' = L - T' + d := by omega
                have e2 : C + r - L' = C - L' + r := by omega
                rw [e1, e2]
            · -- a vacated cell: inside one of the exposed strips
              left
              have hex1 := hex L C hm t1 hl1.wins
              have hex2 := hex L C hm t2 hw2
              simp only [Rect.Mem, Rect.bottom, Rect.right] at hin
              by_cases hv1 : L + d ≥ ρ.top + ρ.lines
              · apply b5
                refine a6 (by omega) L C _ _ ?_ hex1
                simp only [Rect.translate, Rect.Mem, Rect.bottom, Rect.right]
                omega
              · by_cases hv2 : L + d < ρ.top
                · apply b5
                  refine a7 (by omega) (by omega) L C _ _ ?_ hex1
                  simp only [Rect.translate, Rect.Mem, Rect.bottom, Rect.right]
                  omega
                · by_cases hh1 : C + r ≥ ρ.left + ρ.cols
                  · refine b6 (by omega) L C _ _ ?_ hex2
                    simp only [Rect.translate, Rect.Mem, Rect.bottom, Rect.right]
                    omega
                  · refine b7 (by omega) (by omega) L C _ _ ?_ hex2
                    simp only [Rect.translate, Rect.Mem, Rect.bottom, Rect.right]
                    omega
      · -- the terminal refuses: the whole rectangle is exposed
        cases he : expose t1 (t0.wins.size + 1) win (some (ρ.translate (-T') (-L'))) with
        | ub e => rw [he] at h; cases h
        | ok t' =>
          rw [he] at h
          simp only [Res.ok.injEq] at h
          subst h
          exact whole { acc.1 with tree := t1 } t' _ _ hl1 rfl hout he

theorem mixed_congr (content content' : Id → Int → Int → Cell) (t0 : Tree) (D D' : Int → Int → Prop) (st : St)
    (h : ∀ L C, D L C ↔ D' L C) (hM : Mixed content content' t0 D st) : Mixed content content' t0 D' st := by
  intro L C w l c ho
  rcases hM L C w l c ho with h1 | ⟨h1, h2⟩ | ⟨h1, h2⟩
  · exact Or.inl h1
  · exact Or.inr (Or.inl ⟨(h L C).1 h1, h2⟩)
  · exact Or.inr (Or.inr ⟨fun hx => h1 ((h L C).2 hx), h2⟩)

/-- **The loop over the visible region.** -/
theorem scrollLoop_step (oracle : Oracle) (content content' : Id → Int → Int → Cell) (t0 : Tree) (st0 : St) (win : Id)
    (T' L' d r : Int) (pen : Pen) (hok : TreeOk t0) (hpos : RootsPositive t0) :
    ∀ (rest : List Rect) (D : Int → Int → Prop) (acc acc' : St × Bool × Bool),
    scrollLoop oracle win T' L' d r pen rest acc = .ok acc' →
    SLoopOk t0 st0 acc.1 → (∀ ρ ∈ rest, ρ.Nonempty) → rest.Pairwise Rect.Disjoint →
    (∀ ρ ∈ rest, ∀ L C, ρ.Mem L C → ownerAt t0 L C = some (win, L - T', C - L') ∧ ¬ D L C ∧
      0 ≤ L ∧ L < st0.tlines ∧ 0 ≤ C ∧ C < st0.tcols) →
    (∀ ρ ∈ rest, ∀ L C, ρ.Mem L C → content' win (L - T') (C - L') = content win (L - T' + d) (C - L' + r)) →
    Mixed content content' t0 D acc.1 →
    SLoopOk t0 st0 acc'.1 ∧ Mixed content content' t0 (fun L C => Covered rest L C ∨ D L C) acc'.1 := by
  intro rest
  induction rest with
  | nil =>
    intro D acc acc' h hl _ _ _ _ hM
    simp only [scrollLoop] at h
    cases h
    exact ⟨hl, mixed_congr content content' t0 D _ _ (fun L C => ⟨Or.inr, fun hx => by
      rcases hx with hx | hx
      · exact absurd hx (RectSet.covered_nil L C)
      · exact hx⟩) hM⟩
  | cons ρ rest ih =>
    intro D acc acc' h hl hne hdis hown hca hM
    simp only [scrollLoop, bind, Bind.bind] at h
    cases h1 : scrollOne oracle win T' L' d r pen acc ρ with
    | ub e => rw [h1] at h; cases h
    | ok acc1 =>
      rw [h1] at h
      simp only at h
      obtain ⟨a1, a2⟩ := scrollOne_step oracle content content' t0 st0 win T' L' d r pen D acc acc1 ρ h1 hok hpos hl
        (hne ρ List.mem_cons_self) (hown ρ List.mem_cons_self) (hca ρ List.mem_cons_self) hM
      have hdis' := List.pairwise_cons.1 hdis
      obtain ⟨b1, b2⟩ := ih (fun L C => ρ.Mem L C ∨ D L C) acc1 acc' h a1 (fun q hq => hne q (List.mem_cons_of_mem _ hq)) hdis'.2
        (fun q hq L C hm => by
          obtain ⟨c1, c2, c3⟩ := hown q (List.mem_cons_of_mem _ hq) L C hm
          refine ⟨c1, ?_, c3⟩
          rintro (hx | hx)
          · exact hdis'.1 q hq L C ⟨hx, hm⟩
          · exact c2 hx)
        (fun q hq => hca q (List.mem_cons_of_mem _ hq)) a2
      refine ⟨b1, mixed_congr content content' t0 _ _ _ (fun L C => ?_) b2⟩
      rw [RectSet.covered_cons]
      constructor
      · rintro (hx | hx | hx)
        · exact Or.inl (Or.inr hx)
        · exact Or.inl (Or.inl hx)
        · exact Or.inr hx
      · rintro ((hx | hx) | hx)
        · exact Or.inr (Or.inl hx)
        · exact Or.inl hx
        · exact Or.inr (Or.inr hx)

/-! ### the visible region is what the window owns inside the rectangle -/

theorem clip_nonempty (t : Tree) : ∀ (k : Nat) (a : Id) (aT aL : Int) (r r' : Rect),
    clipToAncestors t k a aT aL r = .ok (some r') → r.Nonempty → r'.Nonempty := by
  intro k
  induction k with
  | zero => intro a aT aL r r' h; simp [clipToAncestors] at h
  | succ n ih =>
    intro a aT aL r r' h hr
    simp only [clipToAncestors, bind, Bind.bind] at h
    cases hg : WinTree.get t a with
    | ub e => rw [hg] at h; cases h
    | ok aw =>
      rw [hg] at h
      simp only at h
      cases hp : aw.parent with
      | none =>
        simp only [hp, pure, Pure.pure, Res.ok.injEq, Option.some.injEq] at h
        subst h; exact hr
      | some p =>
        simp only [hp] at h
        cases hgp : WinTree.get t p with
        | ub e => rw [hgp] at h; cases h
        | ok pw =>
          rw [hgp] at h
          simp only at h
          cases hi : Rect.intersect r ⟨-(aT + aw.rect.top), -(aL + aw.rect.left), pw.rect.lines, pw.rect.cols⟩ with
          | none => rw [hi] at h; simp only [pure, Pure.pure] at h; cases h
          | some r1 =>
            rw [hi] at h
            simp only at h
            exact ih p _ _ r1 r' h (Props.C06.intersect_some _ _ _ hi).1

theorem visible_spec (t : Tree) (pens : Array (Option Pen)) (hok : TreeOk t) (ho : Ordered t) (hpl : ParentListed t)
    (win : Id) (w : Win) (hw : t.wins[win]? = some w) (origrect rect0 rect : Rect)
    (h0 : Rect.intersect ⟨0, 0, w.rect.lines, w.rect.cols⟩ origrect = some rect0)
    (h1 : clipToAncestors t (t.wins.size + 1) win 0 0 rect0 = .ok (some rect))
    (vis0 vis1 : List Rect) (h2 : rsAdd [] rect = .ok vis0) (h3 : subtractChildren t w.children vis0 = .ok vis1)
    (pen : Pen) (top : Id) (vis' : List Rect) (T' L' : Int) (pen' : Pen)
    (h4 : scrollWalk t pens (t.wins.size + 1) win vis1 0 0 pen = .ok (some (top, vis', T', L', pen')))
    (tw : Win) (htw : t.wins[top]? = some tw) (hroot : tw.isRoot = true) :
    RectSet.Inv vis' ∧
    (∀ L C, Covered vis' L C → ownerAt t L C = some (win, L - T', C - L') ∧ origrect.Mem (L - T') (C - L')) ∧
    (∀ L C l c, ownerAt t L C = some (win, l, c) → origrect.Mem l c → Covered vis' L C) := by
  obtain ⟨hne0, hm0⟩ := Props.C06.intersect_some _ _ _ h0
  have hrne := clip_nonempty t _ win 0 0 rect0 rect h1 hne0
  have hinvnil : RectSet.Inv ([] : List Rect) := (RectSet.inv_iff _).2 RectSet.invS_nil
  have hinv0 := Props.C05.add_inv rsFuel [] vis0 rect (rsAdd_ok h2) hrne hinvnil
  have hcov0 := (Props.C05.add_spec rsFuel [] vis0 rect (rsAdd_ok h2) hrne (fun _ h => by cases h)).2
  obtain ⟨hinv1, hlive, hcov1⟩ := subtractChildren_spec t w.children vis0 vis1 h3 hinv0
  have hclip := clip_sub t _ win 0 0 rect0 rect h1
  -- the level of the scrolled window itself
  have hall_none : ∀ x y, NoneCovers t w.children x y → w.children.findSome? (fun ch => own t ch x y) = none :=
    fun x y hn => List.findSome?_eq_none_iff.2 (own_none_of_noneCovers t ho w.children x y hn)
  obtain ⟨hinv', tw', htw', htp, htv, htf, hbt, hv1, hv2⟩ := scrollWalk_spec t pens hok ho hpl win (fun l c => rect.Mem l c)
    _ win vis1 0 0 pen top vis' T' L' pen' h4 hinv1 (Anc.refl win)
    (fun l c ht => (hclip l c ht).2)
    (fun l c ht aw haw => by
      rw [hw] at haw; cases haw
      have := ((hm0 l c).1 (hclip l c ht).1).1
      simp only [Rect.Mem, Rect.bottom, Rect.right] at this
      omega)
    (fun x y hc aw haw => by
      rw [hw] at haw; cases haw
      obtain ⟨c1, c2⟩ := (hcov1 x y).1 hc
      have hr : rect.Mem x y := by
        rcases (hcov0 x y).1 c1 with hx | hx
        · exact absurd hx (RectSet.covered_nil x y)
        · exact hx
      simp only [Int.sub_zero]
      refine ⟨hr, ?_⟩
      unfold subOwn
      rw [hall_none x y c2])
    (fun x y l c aw haw hs ht => by
      rw [hw] at haw; cases haw
      unfold subOwn at hs
      cases hfs : w.children.findSome? (fun ch => own t ch x y) with
      | none =>
        rw [hfs] at hs
        simp only [Prod.mk.injEq] at hs
        obtain ⟨_, rfl, rfl⟩ := hs
        refine ⟨(hcov1 x y).2 ⟨(hcov0 x y).2 (Or.inr ht), ?_⟩, by omega, by omega⟩
        intro ch hch cw hcw hv
        exact not_mem_of_own_none t ho ch x y (hlive ch hch) (List.findSome?_eq_none_iff.1 hfs ch hch) cw hcw hv
      | some o =>
        rw [hfs] at hs
        simp only at hs
        subst hs
        obtain ⟨ch, hch, hown⟩ := List.exists_of_findSome?_eq_some hfs
        have h1' := anc_le t ho hpl (ownerLoc_anc t hok.wf _ ch x y win l c hown)
        have h2' : @LT.lt Nat _ win ch := ho win w hw ch hch
        omega)
  rw [htw] at htw'; cases htw'
  have htop0 : top = 0 := hok.onlyRoot top tw htw hroot
  subst htop0
  obtain ⟨rw0, hrw0, _, _, _, hrt, hrl⟩ := hok.rootWin.ex
  rw [htw] at hrw0; cases hrw0
  have hown0 : ∀ L C, 0 ≤ L → L < tw.rect.lines → 0 ≤ C → C < tw.rect.cols →
      ownerAt t L C = some (subOwn t 0 tw.children L C) := by
    intro L C b1 b2 b3 b4
    rw [ownerAt_own, own_eq_sub t ho 0 tw htw, if_pos, hrt, hrl]
    · simp only [Int.sub_zero]
    · refine ⟨htv, htf, (memb_true_iff _ _ _).2 ?_⟩
      simp only [Rect.Mem, Rect.bottom, Rect.right]
      omega
  refine ⟨hinv', ?_, ?_⟩
  · intro L C hc
    obtain ⟨ht, hs⟩ := hv1 L C hc
    have hb := hbt _ _ ht
    rw [hown0 L C (by omega) (by omega) (by omega) (by omega), hs]
    exact ⟨rfl, ((hm0 _ _).1 (hclip _ _ ht).1).2⟩
  · intro L C l c hown horig
    have hex := owner_exposedAt t hok L C win l c hown
    -- the cell is inside the window, hence in `rect0`, and inside every ancestor, hence in `rect`
    have hself : (⟨0, 0, w.rect.lines, w.rect.cols⟩ : Rect).Mem l c := by
      simp only [ExposedAt] at hex
      obtain ⟨w', hw', _, b1, b2, b3, b4, _⟩ := hex
      rw [hw] at hw'; cases hw'
      simp only [Rect.Mem, Rect.bottom, Rect.right]
      omega
    have hr0 : rect0.Mem l c := (hm0 l c).2 ⟨hself, horig⟩
    obtain ⟨r', hr', hmr⟩ := clip_keep t hok _ win 0 0 rect0 (some rect) (t.wins.size + 1) l c L C h1 hr0
      (by simpa using hex)
    cases hr'
    obtain ⟨wr, hwr, b1, b2, b3, b4⟩ := ownerAt_some_memb t ⟨⟨tw, htw, htf, htv, hrt, hrl⟩⟩ L C _ hown
    rw [htw] at hwr; cases hwr
    rw [hown0 L C b1 b2 b3 b4] at hown
    simp only [Option.some.injEq] at hown
    exact (hv2 L C l c hown hmr).1

end WinFlush
end Tickit
