import Tickit.Proof.LifeTree
/-
  C08 proofs, part 2: `_purge_hierarchy_changes` and `tickit_window_close` after the repairs.
  The point of the repair: once a window is unlinked, nothing the root still holds (queued restacking requests,
  the drag source) names it or a window below it.
-/
namespace Tickit.Life
open WinTree (Id Win Req Change Tree)

/-! ## the ancestor chain is a chain -/

theorem Reach.linear {t : Tree} {i a b : Nat} (h1 : Reach t i a) (h2 : Reach t i b) : Reach t a b ∨ Reach t b a := by
  induction h1 with
  | refl => exact .inl h2
  | step hw hp hr ih =>
    cases h2 with
    | refl => exact .inr (.step hw hp hr)
    | step hw' hp' hr' =>
      rw [hw] at hw'; cases hw'
      rw [hp] at hp'; cases hp'
      exact ih hr'

theorem Reach.from_root {t : Tree} (inv : TInv t) {b : Nat} (h : Reach t 0 b) : b = 0 := by
  obtain ⟨r, h0, _, hp⟩ := inv.root_ex
  exact (h.eq_of_no_parent h0 hp).symm

/-- A window below the root and below `x` — then `x` is below the root. -/
theorem Reach.through {t : Tree} (inv : TInv t) {i x : Nat} (h0 : Reach t i 0) (hx : Reach t i x) : Reach t x 0 := by
  rcases hx.linear h0 with h | h
  · exact h
  · have := Reach.from_root inv h
    subst this
    exact .refl 0

/-! ## purge -/

theorem purgeFilter_spec {t : Tree} (inv : TInv t) (win : Nat) :
    ∀ (reqs : List Req), (∀ r ∈ reqs, ∃ w, LiveW t r.win w) →
      ∃ out, purgeFilter t win reqs = .ok out ∧ ∀ r, r ∈ out ↔ (r ∈ reqs ∧ ¬ Reach t r.win win)
  | [], _ => ⟨[], rfl, by simp⟩
  | r :: rest, h => by
    obtain ⟨w, hl⟩ := h r (by simp)
    obtain ⟨b, hb, hiff⟩ := within_spec inv win r.win w hl _ (chainFuel_gt hl)
    obtain ⟨out, ho, hmem⟩ := purgeFilter_spec inv win rest (fun r' hr' => h r' (by simp [hr']))
    unfold purgeFilter
    simp only [hb, ho, bind_ok, pure_ok]
    refine ⟨_, rfl, ?_⟩
    intro q
    by_cases hbt : b = true
    · simp only [hbt, if_true, hmem, List.mem_cons]
      constructor
      · intro ⟨h1, h2⟩; exact ⟨.inr h1, h2⟩
      · intro ⟨h1, h2⟩
        rcases h1 with rfl | h1
        · exact absurd (hiff.1 hbt) h2
        · exact ⟨h1, h2⟩
    · simp only [hbt, Bool.false_eq_true, if_false, List.mem_cons, hmem]
      constructor
      · intro h1
        rcases h1 with rfl | ⟨h1, h2⟩
        · exact ⟨.inl rfl, fun hr => hbt (hiff.2 hr)⟩
        · exact ⟨.inr h1, h2⟩
      · intro ⟨h1, h2⟩
        rcases h1 with rfl | h1
        · exact .inl rfl
        · exact .inr ⟨h1, h2⟩

/-- What the repaired purge guarantees: the windows are untouched, and neither a queued request nor the drag
    source names `win` or a window below it any more. -/
structure Purged (t t' : Tree) (win : Nat) : Prop where
  wins_eq : t'.wins = t.wins
  inv : TInv t'
  req_sub : ∀ r ∈ t'.root.changes, r ∈ t.root.changes ∧ ¬ Reach t r.win win
  drag_sub : ∀ (s : Nat), t'.root.dragSource = some s → t.root.dragSource = some s ∧ ¬ Reach t s win

@[simp] theorem setChanges_wins (t : Tree) (cs : List Req) : (setChanges t cs).wins = t.wins := rfl
@[simp] theorem setChanges_changes (t : Tree) (cs : List Req) : (setChanges t cs).root.changes = cs := rfl
@[simp] theorem setChanges_drag (t : Tree) (cs : List Req) : (setChanges t cs).root.dragSource = t.root.dragSource := rfl
@[simp] theorem clearDrag_wins (t : Tree) : (clearDrag t).wins = t.wins := rfl
@[simp] theorem clearDrag_changes (t : Tree) : (clearDrag t).root.changes = t.root.changes := rfl
@[simp] theorem clearDrag_drag (t : Tree) : (clearDrag t).root.dragSource = none := rfl

/-- Trees with the same windows: identical as far as the windows go. -/
theorem trel_of_wins {t t' : Tree} (h : t'.wins = t.wins) : TRel t t' :=
  ⟨by rw [h], fun i w hw => ⟨w, by rw [h]; exact hw, WRel.refl w⟩⟩

theorem reach_of_wins {t t' : Tree} (h : t'.wins = t.wins) {i a : Nat} : Reach t i a ↔ Reach t' i a :=
  ⟨fun hr => (trel_of_wins h).reach hr, fun hr => (trel_of_wins (t := t') (t' := t) h.symm).reach hr⟩

theorem live_of_wins {t t' : Tree} (h : t'.wins = t.wins) {i : Nat} {w : Win} : LiveW t i w ↔ LiveW t' i w := by
  unfold LiveW; rw [h]

theorem forgetDrag_ok {t : Tree} (inv : TInv t) {win : Nat} :
    ∃ t', forgetDrag t win = .ok t' ∧ t'.wins = t.wins ∧ t'.root.changes = t.root.changes ∧
      ∀ (s : Nat), t'.root.dragSource = some s → t.root.dragSource = some s ∧ ¬ Reach t s win := by
  unfold forgetDrag
  split
  · rename_i src hd
    obtain ⟨sw, hsl, _⟩ := inv.drag_ok src hd
    obtain ⟨b, hb, hiff⟩ := within_spec inv win src sw hsl (chainFuel t) (chainFuel_gt hsl)
    simp only [hb, bind_ok, pure_ok]
    refine ⟨_, rfl, ?_, ?_, ?_⟩
    · split <;> rfl
    · split <;> rfl
    · intro s hs
      by_cases hbt : b = true
      · simp [hbt] at hs
      · simp only [hbt, Bool.false_eq_true, if_false] at hs
        rw [hd] at hs ⊢
        cases hs
        exact ⟨rfl, fun hr => hbt (hiff.2 hr)⟩
  · rename_i hd
    refine ⟨t, rfl, rfl, rfl, ?_⟩
    intro s hs; rw [hd] at hs; cases hs

theorem purge_ok {cfg : Cfg} (h1 : cfg.closePurges = true) (h2 : cfg.dragForgottenOnClose = true)
    {t : Tree} (inv : TInv t) {win : Nat} {ww : Win} (hw : LiveW t win ww) :
    ∃ t', purge cfg t win = .ok t' ∧ Purged t t' win := by
  unfold purge
  simp only [h1, if_true]
  rcases findRoot_spec inv win ww hw _ (chainFuel_gt hw) with ⟨hreach, hf⟩ | ⟨hreach, hf⟩
  · simp only [hf, bind_ok]
    obtain ⟨out, ho, hmem⟩ := purgeFilter_spec inv win t.root.changes (fun r hr => by
      obtain ⟨_, w, hl, _⟩ := inv.req_ok r hr; exact ⟨w, hl⟩)
    simp only [ho, bind_ok, h2, if_true]
    have inv1 : TInv (setChanges t out) :=
      inv.of_rel (trel_of_wins rfl) (fun r hr => ((hmem r).1 hr).1) (fun s hs => hs)
    obtain ⟨t', hf', hwins, hch, hdrag⟩ := forgetDrag_ok inv1 (win := win)
    refine ⟨t', hf', hwins, ?_, ?_, ?_⟩
    · exact inv1.of_rel (trel_of_wins hwins) (fun r hr => by rw [hch] at hr; exact hr) (fun s hs => (hdrag s hs).1)
    · intro r hr
      rw [hch] at hr
      exact (hmem r).1 hr
    · intro s hs
      obtain ⟨h3, h4⟩ := hdrag s hs
      exact ⟨h3, fun hr => h4 ((reach_of_wins (t := t) (t' := setChanges t out) rfl).1 hr)⟩
  · -- the chain does not end in the root: nothing the root holds lies below `win`
    simp only [hf, bind_ok, pure_ok]
    refine ⟨t, rfl, rfl, inv, ?_, ?_⟩
    · intro r hr
      obtain ⟨_, w, _, _, hr0⟩ := inv.req_ok r hr
      exact ⟨hr, fun hx => hreach (Reach.through inv hr0 hx)⟩
    · intro s hs
      obtain ⟨w, _, hr0⟩ := inv.drag_ok s hs
      exact ⟨hs, fun hx => hreach (Reach.through inv hr0 hx)⟩

end Tickit.Life

namespace Tickit.Life
open WinTree (Id Win Req Change Tree)

/-! ## unlinking a window (`TICKIT_HIERARCHY_REMOVE`) -/

/-- The parent after REMOVE of `win`. -/
def unlinkedParent (pw : Win) (win : Nat) : Win :=
  { pw with children := pw.children.erase win,
            focusedChild := if pw.focusedChild = some win then none else pw.focusedChild }

/-- The tree after REMOVE of `win` from `p`. -/
def unlinked (t : Tree) (p win : Nat) (pw ww : Win) : Tree :=
  WinTree.set (WinTree.set t p (unlinkedParent pw win)) win { ww with parent := none }

theorem unlinked_get {t : Tree} {p win : Nat} {pw ww : Win} (hw : LiveW t win ww) (hpl : LiveW t p pw)
    (hne : p ≠ win) (i : Nat) :
    (unlinked t p win pw ww).wins[i]? =
      if i = win then some { ww with parent := none } else if i = p then some (unlinkedParent pw win) else t.wins[i]? := by
  unfold unlinked
  rw [set_get]
  by_cases h1 : win = i
  · subst h1
    have := hw.lt
    simp [this]
  · have h1' : ¬ i = win := fun h => h1 h.symm
    simp only [h1, h1', if_false]
    rw [set_get]
    by_cases h2 : p = i
    · subst h2
      have := hpl.lt
      simp [this]
    · have h2' : ¬ i = p := fun h => h2 h.symm
      simp [h2, h2']

@[simp] theorem unlinked_root (t : Tree) (p win : Nat) (pw ww : Win) : (unlinked t p win pw ww).root = t.root := rfl

@[simp] theorem unlinked_size (t : Tree) (p win : Nat) (pw ww : Win) :
    (unlinked t p win pw ww).wins.size = t.wins.size := by simp [unlinked]

theorem unlinked_parent_same {t : Tree} {p win : Nat} {pw ww : Win} (hw : LiveW t win ww) (hpl : LiveW t p pw)
    (hne : p ≠ win) {i : Nat} {w : Win} (hiw : i ≠ win) (hwi : t.wins[i]? = some w) :
    ∃ w2, (unlinked t p win pw ww).wins[i]? = some w2 ∧ w2.parent = w.parent := by
  by_cases hip : i = p
  · subst hip
    rw [hpl.1] at hwi; cases hwi
    exact ⟨unlinkedParent pw win, by rw [unlinked_get hw hpl hne]; simp [hiw], rfl⟩
  · exact ⟨w, by rw [unlinked_get hw hpl hne]; simp [hiw, hip]; exact hwi, rfl⟩

/-- Everything that does not pass through `win` keeps its chain. -/
theorem reach_unlinked {t : Tree} {p win : Nat} {pw ww : Win} (hw : LiveW t win ww) (hpl : LiveW t p pw)
    (hne : p ≠ win) {i a : Nat} (hn : ¬ Reach t i win) (hr : Reach t i a) : Reach (unlinked t p win pw ww) i a := by
  induction hr with
  | refl => exact .refl _
  | step hwi hpi hrest ih =>
    rename_i i0 q0 a0 w0
    have hiw : i0 ≠ win := by intro h; apply hn; rw [h]; exact .refl _
    have hq : ¬ Reach t q0 win := fun h => hn (Reach.step hwi hpi h)
    obtain ⟨w2, h2, hp2⟩ := unlinked_parent_same hw hpl hne hiw hwi
    exact .step h2 (by rw [hp2]; exact hpi) (ih hq)

/-- REMOVE keeps the invariant, provided nothing the root holds names the window or a window below it. -/
theorem TInv.unlink {t : Tree} (inv : TInv t) {win p : Nat} {ww pw : Win}
    (hw : LiveW t win ww) (hp : ww.parent = some p) (hpl : LiveW t p pw)
    (hreq : ∀ r ∈ t.root.changes, ¬ Reach t r.win win)
    (hdrag : ∀ (s : Nat), t.root.dragSource = some s → ¬ Reach t s win) :
    TInv (unlinked t p win pw ww) := by
  obtain ⟨hlt, pw0, hpl0, hmem⟩ := inv.parent_ok win ww hw p hp
  have hpw : pw0 = pw := LiveW.unique hpl0 hpl
  subst hpw
  have hne : p ≠ win := by omega
  have G := unlinked_get hw hpl hne
  have hnodup := inv.nodup p pw0 hpl
  -- every live window of the new tree comes from a live window of the old one
  have back : ∀ (i : Nat) (w2 : Win), LiveW (unlinked t p win pw0 ww) i w2 →
      ∃ w, LiveW t i w ∧ w2.freed = w.freed ∧ w2.isRoot = w.isRoot ∧ w2.isClosed = w.isClosed ∧
        (w2.parent = if i = win then none else w.parent) ∧
        (w2.children = if i = p then w.children.erase win else w.children) ∧
        (w2.focusedChild = if i = p then (if w.focusedChild = some win then none else w.focusedChild) else w.focusedChild) := by
    intro i w2 hl
    have h := hl.1
    rw [G] at h
    by_cases h1 : i = win
    · subst h1
      simp only [if_true, Option.some.injEq] at h
      subst h
      exact ⟨ww, hw, rfl, rfl, rfl, by simp, by simp [hne.symm], by simp [hne.symm]⟩
    · simp only [h1, if_false] at h
      by_cases h2 : i = p
      · subst h2
        simp only [if_true, Option.some.injEq] at h
        subst h
        exact ⟨pw0, hpl, rfl, rfl, rfl, by simp [h1, unlinkedParent], by simp [unlinkedParent], by simp [unlinkedParent]⟩
      · simp only [h2, if_false] at h
        exact ⟨w2, ⟨h, hl.2⟩, rfl, rfl, rfl, by simp [h1], by simp [h2], by simp [h2]⟩
  -- and every live window of the old tree is still live
  have fwd : ∀ (i : Nat) (w : Win), LiveW t i w → ∃ w2, LiveW (unlinked t p win pw0 ww) i w2 := by
    intro i w hl
    by_cases h1 : i = win
    · subst h1
      exact ⟨{ ww with parent := none }, by rw [G]; simp, hw.2⟩
    · by_cases h2 : i = p
      · subst h2
        exact ⟨unlinkedParent pw0 win, by rw [G]; simp [h1], hpl.2⟩
      · exact ⟨w, by rw [G]; simp [h1, h2]; exact hl.1, hl.2⟩
  refine ⟨?_, ?_, ?_, ?_, ?_, ?_, ?_, ?_, ?_⟩
  · -- root_ex
    obtain ⟨r, h0, hr, hpr⟩ := inv.root_ex
    have h0w : (0 : Nat) ≠ win := by omega
    by_cases h0p : (0 : Nat) = p
    · subst h0p
      have : r = pw0 := by rw [hpl.1] at h0; exact (Option.some.inj h0).symm
      subst this
      exact ⟨unlinkedParent r win, by rw [G]; simp [h0w], hr, hpr⟩
    · exact ⟨r, by rw [G]; simp [h0w, h0p]; exact h0, hr, hpr⟩
  · -- only_root
    intro i w2 h hr
    rw [G] at h
    by_cases h1 : i = win
    · subst h1
      simp only [if_true, Option.some.injEq] at h; subst h
      exact inv.only_root i ww hw.1 hr
    · simp only [h1, if_false] at h
      by_cases h2 : i = p
      · subst h2
        simp only [if_true, Option.some.injEq] at h; subst h
        exact inv.only_root i pw0 hpl.1 hr
      · simp only [h2, if_false] at h
        exact inv.only_root i w2 h hr
  · -- parent_ok
    intro c cw2 hl q hq
    obtain ⟨cw, hcl, _, _, _, hpar, _, _⟩ := back c cw2 hl
    by_cases h1 : c = win
    · subst h1; simp [hpar] at hq
    · simp only [h1, if_false] at hpar
      obtain ⟨hlt', qw, hql, hcm⟩ := inv.parent_ok c cw hcl q (by rw [← hpar]; exact hq)
      obtain ⟨qw2, hql2⟩ := fwd q qw hql
      obtain ⟨qw', hql', _, _, _, _, hch, _⟩ := back q qw2 hql2
      have : qw' = qw := LiveW.unique hql' hql
      subst this
      refine ⟨hlt', qw2, hql2, ?_⟩
      rw [hch]
      by_cases h2 : q = p
      · simp only [h2, if_true]
        exact (List.mem_erase_of_ne h1).2 hcm
      · simp only [h2, if_false]; exact hcm
  · -- child_ok
    intro q qw2 hl c hc
    obtain ⟨qw, hql, _, _, _, _, hch, _⟩ := back q qw2 hl
    have hc1 : c ∈ qw.children ∧ c ≠ win := by
      rw [hch] at hc
      by_cases h2 : q = p
      · simp only [h2, if_true] at hc
        subst h2
        have := LiveW.unique hql hpl; subst this
        exact ⟨List.mem_of_mem_erase hc, ((hnodup.mem_erase_iff).1 hc).1⟩
      · simp only [h2, if_false] at hc
        refine ⟨hc, ?_⟩
        intro hcw
        subst hcw
        obtain ⟨cw', hcl', hcp'⟩ := inv.child_ok q qw hql c hc
        have := LiveW.unique hcl' hw; subst this
        rw [hp] at hcp'; exact h2 (Option.some.inj hcp').symm
    obtain ⟨cw, hcl, hcp⟩ := inv.child_ok q qw hql c hc1.1
    obtain ⟨cw2, hcl2⟩ := fwd c cw hcl
    obtain ⟨cw', hcl', _, _, _, hpar, _, _⟩ := back c cw2 hcl2
    have : cw' = cw := LiveW.unique hcl' hcl
    subst this
    exact ⟨cw2, hcl2, by rw [hpar]; simp [hc1.2]; exact hcp⟩
  · -- nodup
    intro q qw2 hl
    obtain ⟨qw, hql, _, _, _, _, hch, _⟩ := back q qw2 hl
    rw [hch]
    split
    · exact (inv.nodup q qw hql).erase _
    · exact inv.nodup q qw hql
  · -- closed_ok
    intro i w2 hl hcl
    obtain ⟨w, hl0, _, _, hc, hpar, _, _⟩ := back i w2 hl
    rw [hpar]
    split
    · rfl
    · exact inv.closed_ok i w hl0 (by rw [← hc]; exact hcl)
  · -- req_ok
    intro r hr
    obtain ⟨hk, w, hl, hpr, hreach⟩ := inv.req_ok r hr
    have hn := hreq r hr
    have hrw : r.win ≠ win := fun h => hn (h ▸ .refl _)
    obtain ⟨w2, hl2⟩ := fwd r.win w hl
    obtain ⟨w', hl', _, _, _, hpar, _, _⟩ := back r.win w2 hl2
    have : w' = w := LiveW.unique hl' hl
    subst this
    exact ⟨hk, w2, hl2, by rw [hpar]; simp [hrw]; exact hpr, reach_unlinked hw hpl hne hn hreach⟩
  · -- focus_ok
    intro q qw2 hl c hf
    obtain ⟨qw, hql, _, _, _, _, hch, hfc⟩ := back q qw2 hl
    rw [hch]
    by_cases h2 : q = p
    · simp only [h2, if_true] at hfc ⊢
      subst h2
      have := LiveW.unique hql hpl; subst this
      rw [hfc] at hf
      by_cases h3 : qw.focusedChild = some win
      · simp [h3] at hf
      · simp only [h3, if_false] at hf
        have hcm := inv.focus_ok q qw hpl c hf
        have hcw : c ≠ win := fun h => h3 (h ▸ hf)
        exact (List.mem_erase_of_ne hcw).2 hcm
    · simp only [h2, if_false] at hfc ⊢
      exact inv.focus_ok q qw hql c (by rw [← hfc]; exact hf)
  · -- drag_ok
    intro s hs
    obtain ⟨w, hl, hreach⟩ := inv.drag_ok s hs
    obtain ⟨w2, hl2⟩ := fwd s w hl
    exact ⟨w2, hl2, reach_unlinked hw hpl hne (hdrag s hs) hreach⟩

end Tickit.Life

namespace Tickit.Life
open WinTree (Id Win Req Change Tree)

/-! ## `tickit_window_close` -/

theorem live_unlinked_parent {t : Tree} {p win : Nat} {pw ww : Win} (hw : LiveW t win ww) (hpl : LiveW t p pw)
    (hne : p ≠ win) : LiveW (unlinked t p win pw ww) p (unlinkedParent pw win) :=
  ⟨by rw [unlinked_get hw hpl hne]; simp [hne], hpl.2⟩

theorem live_unlinked_win {t : Tree} {p win : Nat} {pw ww : Win} (hw : LiveW t win ww) (hpl : LiveW t p pw)
    (hne : p ≠ win) : LiveW (unlinked t p win pw ww) win { ww with parent := none } :=
  ⟨by rw [unlinked_get hw hpl hne]; simp, hw.2⟩

/-- `_do_hierarchy_change(TICKIT_HIERARCHY_REMOVE, parent, win)` once the root has forgotten the subtree. -/
theorem doHC_remove_ok {t : Tree} (inv : TInv t) {win p : Nat} {ww pw : Win}
    (hw : LiveW t win ww) (hp : ww.parent = some p) (hpl : LiveW t p pw)
    (hreq : ∀ r ∈ t.root.changes, ¬ Reach t r.win win)
    (hdrag : ∀ (s : Nat), t.root.dragSource = some s → ¬ Reach t s win) :
    doHC t .remove p win = .ok (unlinked t p win pw ww) ∧ TInv (unlinked t p win pw ww) := by
  obtain ⟨hlt, pw0, hpl0, hmem⟩ := inv.parent_ok win ww hw p hp
  have := LiveW.unique hpl0 hpl; subst this
  have hne : p ≠ win := by omega
  have inv2 := inv.unlink hw hp hpl hreq hdrag
  refine ⟨?_, inv2⟩
  unfold doHC
  simp only [get_live hpl, get_live hw, bind_ok]
  simp only [listRemove_ok hmem, ofRes_ok, bind_ok, pure_ok, get_set_ne _ hne, get_live hw]
  have hpl2 := live_unlinked_parent hw hpl hne
  have hE := exposeWalk_ok inv2 p _ hpl2 _ (chainFuel_gt hpl2) (some ww.rect)
  unfold unlinked unlinkedParent at hE ⊢
  split
  · rw [hE]; rfl
  · rfl

/-- What `tickit_window_close(win)` does to the tree. -/
structure Closed (t t' : Tree) (win : Nat) (ww : Win) : Prop where
  inv : TInv t'
  size_eq : t'.wins.size = t.wins.size
  win_now : LiveW t' win { ww with parent := none, isClosed := true }
  /-- every other window is unchanged, except that the former parent has lost `win` from its list -/
  others : ∀ (i : Nat) (w : Win), i ≠ win → t.wins[i]? = some w →
    (ww.parent ≠ some i ∧ t'.wins[i]? = some w) ∨ (ww.parent = some i ∧ t'.wins[i]? = some (unlinkedParent w win))
  req_sub : ∀ r ∈ t'.root.changes, r ∈ t.root.changes
  drag_sub : ∀ (s : Nat), t'.root.dragSource = some s → t.root.dragSource = some s

theorem closeT_ok {cfg : Cfg} (h1 : cfg.closePurges = true) (h2 : cfg.dragForgottenOnClose = true)
    {t : Tree} (inv : TInv t) {win : Nat} {ww : Win} (hw : LiveW t win ww) :
    ∃ t', closeT cfg t win = .ok t' ∧ Closed t t' win ww := by
  unfold closeT
  simp only [get_live hw, bind_ok]
  cases hp : ww.parent with
  | none =>
    simp only [pure_ok, bind_ok, get_live hw]
    have hrel : TRel t (WinTree.set t win { ww with isClosed := true }) :=
      trel_set hw.1 ⟨rfl, List.Perm.refl _, rfl, rfl, .inr hp, .inl rfl⟩
    refine ⟨_, rfl, inv.of_rel hrel (fun r hr => hr) (fun s hs => hs), set_size _ _ _, ?_, ?_, fun r hr => hr, fun s hs => hs⟩
    · refine ⟨?_, hw.2⟩
      rw [set_get_self _ hw.lt]
      congr 1
      cases ww
      simp only at hp
      subst hp
      rfl
    · intro i w hi hwi
      exact .inl ⟨by rw [hp]; simp, by rw [set_get_ne _ (Ne.symm hi)]; exact hwi⟩
  | some p =>
    obtain ⟨hlt, pw, hpl, _⟩ := inv.parent_ok win ww hw p hp
    have hne : p ≠ win := Nat.ne_of_lt hlt
    obtain ⟨t1, hpurge, P⟩ := purge_ok h1 h2 inv hw
    simp only [h1, if_true, hpurge, bind_ok]
    have hw1 : LiveW t1 win ww := (live_of_wins P.wins_eq).1 hw
    have hpl1 : LiveW t1 p pw := (live_of_wins P.wins_eq).1 hpl
    obtain ⟨hrem, inv2⟩ := doHC_remove_ok P.inv hw1 hp hpl1
      (fun r hr hreach => (P.req_sub r hr).2 ((reach_of_wins P.wins_eq).2 hreach))
      (fun s hs hreach => (P.drag_sub s hs).2 ((reach_of_wins P.wins_eq).2 hreach))
    simp only [hrem, bind_ok]
    have hw2 := live_unlinked_win hw1 hpl1 hne
    simp only [get_live hw2, bind_ok, pure_ok]
    have hrel : TRel (unlinked t1 p win pw ww)
        (WinTree.set (unlinked t1 p win pw ww) win { ww with parent := none, isClosed := true }) :=
      trel_set hw2.1 ⟨rfl, List.Perm.refl _, rfl, rfl, .inr rfl, .inl rfl⟩
    refine ⟨_, rfl, inv2.of_rel hrel (fun r hr => hr) (fun s hs => hs), ?_, ?_, ?_, ?_, ?_⟩
    · simp [P.wins_eq]
    · exact ⟨by rw [set_get_self _ hw2.lt], hw.2⟩
    · intro i w hi hwi
      rw [set_get_ne _ (Ne.symm hi), unlinked_get hw1 hpl1 hne]
      simp only [hi, if_false]
      by_cases hip : i = p
      · subst hip
        have : w = pw := by rw [hpl.1] at hwi; exact (Option.some.inj hwi).symm
        subst this
        exact .inr ⟨hp, by simp⟩
      · refine .inl ⟨fun h => hip (by rw [hp] at h; exact (Option.some.inj h).symm), ?_⟩
        simp only [hip, if_false, P.wins_eq]
        exact hwi
    · intro r hr; exact (P.req_sub r hr).1
    · intro s hs; exact (P.drag_sub s hs).1

end Tickit.Life
