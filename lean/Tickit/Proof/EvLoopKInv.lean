import Tickit.Proof.EvLoopLog
/-
  The event loop's signal bookkeeping agrees with the list of signal watches (C18).

  `KInv`: the list holds distinct allocated watches (`SInv`); the number of every listed watch is in
  `watched_signals`; `signums[evi]` of a listed watch is its (non-zero) number; two listed watches have
  different slots.  `G3`: a step that extends the heap without touching slot / number of old watches, the
  list, `signums[]` or `watched_signals`.  `KStep st st' := KInv st → KInv st'`.  The families `g3_*` /
  `k_*` mirror `grow_*` / `pres_*` of Proof/EvLoop.lean.  Result: `kinv_runOps` (every reachable state
  whose status is ok) and `dispatch_reaches_logged` (the `for(signum …)` loop of `dispatch_signals`).
-/
namespace Tickit.EvLoop

structure HExt3 (st st' : St) : Prop where
  len : st.heap.length ≤ st'.heap.length
  same : ∀ x, x < st.heap.length → (st'.getW x).evi = (st.getW x).evi ∧ (st'.getW x).signum = (st.getW x).signum

theorem HExt3.refl (st : St) : HExt3 st st := ⟨Nat.le_refl _, fun _ _ => ⟨rfl, rfl⟩⟩
theorem HExt3.trans {a b c : St} (h1 : HExt3 a b) (h2 : HExt3 b c) : HExt3 a c :=
  ⟨Nat.le_trans h1.len h2.len, fun x hx => by
    have hx' := Nat.lt_of_lt_of_le hx h1.len
    exact ⟨(h2.same x hx').1.trans (h1.same x hx).1, (h2.same x hx').2.trans (h1.same x hx).2⟩⟩
theorem HExt3.of_heap_eq {st st' : St} (h : st'.heap = st.heap) : HExt3 st st' :=
  ⟨by rw [h]; exact Nat.le_refl _, fun x _ => by rw [getW_of_heap_eq h]; exact ⟨rfl, rfl⟩⟩

structure G3 (st st' : St) : Prop where
  ext : HExt3 st st'
  sigs : st'.signals = st.signals
  nums : st'.signums = st.signums
  watched : st'.watched = st.watched

theorem G3.refl (st : St) : G3 st st := ⟨HExt3.refl st, rfl, rfl, rfl⟩
theorem G3.trans {a b c : St} (h1 : G3 a b) (h2 : G3 b c) : G3 a c :=
  ⟨h1.ext.trans h2.ext, by rw [h2.sigs, h1.sigs], by rw [h2.nums, h1.nums], by rw [h2.watched, h1.watched]⟩
theorem G3.of_eq {st st' : St} (hh : st'.heap = st.heap) (hs : st'.signals = st.signals) (hn : st'.signums = st.signums)
    (hw : st'.watched = st.watched) : G3 st st' := ⟨HExt3.of_heap_eq hh, hs, hn, hw⟩

structure KInv (st : St) : Prop where
  sinv : SInv st
  watched : ∀ b ∈ st.signals, st.watched.contains (st.getW b).signum = true
  slot : ∀ b ∈ st.signals, st.signums.getD (st.getW b).evi 0 = (st.getW b).signum ∧ (st.getW b).signum ≠ 0 ∧
    (st.getW b).evi < st.signums.length
  inj : ∀ b ∈ st.signals, ∀ c ∈ st.signals, (st.getW b).evi = (st.getW c).evi → b = c

def KStep (st st' : St) : Prop := KInv st → KInv st'
theorem KStep.refl (st : St) : KStep st st := id
theorem KStep.trans {a b c : St} (h1 : KStep a b) (h2 : KStep b c) : KStep a c := fun k => h2 (h1 k)

theorem G3.kstep {st st' : St} (g : G3 st st') : KStep st st' := by
  intro k
  have hsame : ∀ b ∈ st.signals, (st'.getW b).evi = (st.getW b).evi ∧ (st'.getW b).signum = (st.getW b).signum :=
    fun b hb => g.ext.same b (k.sinv.alloc b hb)
  refine ⟨⟨by rw [g.sigs]; exact k.sinv.nodup, fun x hx => by rw [g.sigs] at hx; exact Nat.lt_of_lt_of_le (k.sinv.alloc x hx) g.ext.len⟩, ?_, ?_, ?_⟩
  · intro b hb; rw [g.sigs] at hb; rw [g.watched, (hsame b hb).2]; exact k.watched b hb
  · intro b hb; rw [g.sigs] at hb; rw [g.nums, (hsame b hb).1, (hsame b hb).2]; exact k.slot b hb
  · intro b hb c hc h; rw [g.sigs] at hb hc; rw [(hsame b hb).1, (hsame c hc).1] at h; exact k.inj b hb c hc h

/-! primitives -/
theorem g3_emit (st : St) (e : Ev) : G3 st (st.emit e) := G3.of_eq rfl rfl rfl rfl
theorem g3_fail (st : St) (w : Ub) : G3 st (st.fail w) := by
  unfold St.fail; split
  · exact G3.of_eq rfl rfl rfl rfl
  · exact G3.refl _
theorem g3_alloc (st : St) (w : Watch) : G3 st (st.alloc w).1 :=
  ⟨⟨by rw [alloc_len]; omega, fun x hx => by rw [getW_alloc_old st w x hx]; exact ⟨rfl, rfl⟩⟩, rfl, rfl, rfl⟩
theorem g3_setW (st : St) (a : Nat) (w : Watch) (h1 : w.evi = (st.getW a).evi) (h2 : w.signum = (st.getW a).signum) :
    G3 st (st.setW a w) := by
  refine ⟨⟨by rw [St.length_setW]; exact Nat.le_refl _, ?_⟩, rfl, rfl, rfl⟩
  intro x hx
  by_cases hax : a = x
  · subst hax; rw [St.getW_setW_self st a w hx]; exact ⟨h1, h2⟩
  · rw [St.getW_setW_ne st a x w hax]; exact ⟨rfl, rfl⟩
/-- overwriting an address that is not an old one -/
theorem g3_setW_new (st0 st : St) (a : Nat) (w : Watch) (g : G3 st0 st) (ha : st0.heap.length ≤ a) : G3 st0 (st.setW a w) := by
  refine ⟨⟨by rw [St.length_setW]; exact g.ext.len, ?_⟩, g.sigs, g.nums, g.watched⟩
  intro x hx
  have : a ≠ x := by omega
  rw [St.getW_setW_ne st a x w this]; exact g.ext.same x hx
theorem g3_free (st : St) (a : Nat) : G3 st (st.free a) := by
  unfold St.free; split
  · exact g3_setW st a _ rfl rfl
  · exact g3_fail st _
theorem g3_setWstatus (st : St) (a : Nat) (ws : Int) : G3 st (st.setW a { st.getW a with wstatus := ws }) := g3_setW st a _ rfl rfl
theorem g3_with_timers (st : St) (l : List Nat) : G3 st { st with timers := l } := G3.of_eq rfl rfl rfl rfl
theorem g3_setListOf_ne (st : St) (t : WType) (l : List Nat) (h : t ≠ .signal) : G3 st (setListOf st t l) := by
  cases t <;> first | exact G3.of_eq rfl rfl rfl rfl | exact absurd rfl h

theorem g3_raiseSig (st : St) (s : Int) : G3 st (raiseSig st s) := by
  unfold raiseSig
  split
  · exact G3.refl st
  · split
    · exact G3.of_eq rfl rfl rfl rfl
    · split
      · unfold sigRecord; split <;> first | exact G3.of_eq rfl rfl rfl rfl | exact G3.refl _
      · split
        · exact G3.of_eq rfl rfl rfl rfl
        · exact G3.refl st


theorem g3_evloopIo (st : St) (fd : Int) (cond : Nat) (w : Nat) : G3 st (evloopIo st fd cond w).1 := by
  unfold evloopIo
  split <;> exact G3.of_eq rfl rfl rfl rfl


theorem g3_evloopCancelIo (st : St) (idx : Nat) : G3 st (evloopCancelIo st idx) := G3.of_eq rfl rfl rfl rfl


theorem g3_insertWatch (st : St) (l : List Nat) (flags new : Nat) : G3 st (insertWatch st l flags new).1 := by
  unfold insertWatch
  split
  · exact G3.refl st
  · split
    · exact G3.refl st
    · exact g3_fail st _


theorem g3_notify (st : St) (a flags : Nat) : G3 st (notify st a flags) := by
  unfold notify
  simp only []
  split
  · exact g3_emit st _
  · exact G3.refl st


theorem g3_with_laters (st : St) (l : List Nat) : G3 st { st with laters := l } := G3.of_eq rfl rfl rfl rfl

theorem g3_with_iow (st : St) (l : List Nat) : G3 st { st with iow := l } := G3.of_eq rfl rfl rfl rfl

theorem g3_with_procs (st : St) (l : List Nat) : G3 st { st with procs := l } := G3.of_eq rfl rfl rfl rfl




theorem g3_watchLater (st : St) (flags : Nat) (slot : Int) (puser : Nat) :
    G3 st (watchLater st flags slot puser).1 := by
  unfold watchLater
  exact ((g3_alloc st _).trans (g3_insertWatch _ _ _ _)).trans (g3_with_laters _ _)


theorem g3_watchIo (st : St) (fd : Int) (cond flags : Nat) (slot : Int) : G3 st (watchIo st fd cond flags slot).1 := by
  unfold watchIo
  refine ((g3_setW_new st _ st.heap.length _ ((g3_alloc st _).trans (g3_evloopIo _ _ _ _)) (Nat.le_refl _)).trans
    (g3_insertWatch _ _ _ _)).trans (g3_with_iow _ _)

theorem g3_watchTimerAt (st : St) (due : TV) (flags : Nat) (slot : Int) : G3 st (watchTimerAt st due flags slot).1 := by
  unfold watchTimerAt
  simp only []
  split
  · exact (g3_alloc st _).trans (g3_with_timers _ _)
  · exact (g3_alloc st _).trans (g3_fail _ _)

theorem k_watchTimerAt (st : St) (due : TV) (flags : Nat) (slot : Int) : KStep st (watchTimerAt st due flags slot).1 :=
  (g3_watchTimerAt st due flags slot).kstep


/-! ### evloop_signal / evloop_cancel_signal -/

theorem findZero_spec : ∀ (l : List Int) (i j : Nat), findZero l i = some j → i ≤ j ∧ j < i + l.length ∧ l.getD (j - i) 0 = 0 := by
  intro l
  induction l with
  | nil => intro i j h; simp [findZero] at h
  | cons x xs ih =>
    intro i j h
    simp only [findZero] at h
    split at h
    · rename_i hx
      cases h
      simp [hx]
    · have := ih (i + 1) j h
      refine ⟨by omega, by simp only [List.length_cons]; omega, ?_⟩
      have hji : j - i = (j - (i + 1)) + 1 := by omega
      rw [hji, List.getD_cons_succ]
      exact this.2.2

theorem getD_set_ne (l : List Int) (i j : Nat) (v : Int) (h : i ≠ j) : (l.set i v).getD j 0 = l.getD j 0 := by
  simp only [List.getD_eq_getElem?_getD, List.getElem?_set, if_neg h]

theorem getD_set_self (l : List Int) (i : Nat) (v : Int) (h : i < l.length) : (l.set i v).getD i 0 = v := by
  simp only [List.getD_eq_getElem?_getD, List.getElem?_set, if_true, if_pos h, Option.getD_some]

theorem contains_of_getD (l : List Int) (i : Nat) (v : Int) (h : i < l.length) (hv : l.getD i 0 = v) : l.contains v = true := by
  simp only [List.contains_eq_mem, decide_eq_true_eq]
  have : l[i]? = some l[i] := List.getElem?_eq_getElem h
  simp only [List.getD_eq_getElem?_getD, this, Option.getD_some] at hv
  rw [← hv]; exact List.getElem_mem h

theorem contains_setInsert_self (s : Int) (l : List Int) : (setInsert s l).contains s = true := by
  unfold setInsert
  split
  · assumption
  · simp

theorem contains_setInsert_of (s x : Int) (l : List Int) (h : l.contains x = true) : (setInsert s l).contains x = true := by
  unfold setInsert
  split
  · exact h
  · simp only [List.contains_eq_mem, decide_eq_true_eq, List.mem_cons] at h ⊢; exact Or.inr h

/-- What `evloop_signal` does to the slot table and the watched set. -/
theorem evloopSignal_facts (st : St) (signum : Int) :
    (evloopSignal st signum).1.heap = st.heap ∧ (evloopSignal st signum).1.signals = st.signals ∧
    (evloopSignal st signum).1.signums.getD (evloopSignal st signum).2 0 = signum ∧
    (evloopSignal st signum).2 < (evloopSignal st signum).1.signums.length ∧
    st.signums.length ≤ (evloopSignal st signum).1.signums.length ∧
    (∀ j, j ≠ (evloopSignal st signum).2 → (evloopSignal st signum).1.signums.getD j 0 = st.signums.getD j 0) ∧
    ((evloopSignal st signum).2 < st.signums.length → st.signums.getD (evloopSignal st signum).2 0 = 0) ∧
    (evloopSignal st signum).1.watched.contains signum = true ∧
    (∀ x, st.watched.contains x = true → (evloopSignal st signum).1.watched.contains x = true) := by
  have hidx : ((findZero st.signums 0).getD st.signums.length < st.signums.length →
      st.signums.getD ((findZero st.signums 0).getD st.signums.length) 0 = 0) ∧
      (findZero st.signums 0).getD st.signums.length ≤ st.signums.length := by
    cases hf : findZero st.signums 0 with
    | none => simp
    | some j =>
      have := findZero_spec st.signums 0 j hf
      simp only [Option.getD_some]
      refine ⟨fun _ => by simpa using this.2.2, by omega⟩
  unfold evloopSignal
  simp only []
  generalize (findZero st.signums 0).getD st.signums.length = idx at hidx
  have hnums : (if idx < st.signums.length then st.signums.set idx signum else st.signums ++ [signum]).getD idx 0 = signum ∧
      idx < (if idx < st.signums.length then st.signums.set idx signum else st.signums ++ [signum]).length ∧
      st.signums.length ≤ (if idx < st.signums.length then st.signums.set idx signum else st.signums ++ [signum]).length ∧
      (∀ j, j ≠ idx → (if idx < st.signums.length then st.signums.set idx signum else st.signums ++ [signum]).getD j 0 = st.signums.getD j 0) := by
    split
    · rename_i h
      refine ⟨getD_set_self _ _ _ h, by rw [List.length_set]; exact h, by rw [List.length_set]; exact Nat.le_refl _, ?_⟩
      intro j hj; exact getD_set_ne _ _ _ _ (Ne.symm hj)
    · rename_i h
      have he : idx = st.signums.length := by omega
      subst he
      refine ⟨?_, by simp, by simp, ?_⟩
      · simp only [List.getD_eq_getElem?_getD]
        rw [List.getElem?_append_right (Nat.le_refl _)]; simp
      · intro j hj
        simp only [List.getD_eq_getElem?_getD]
        by_cases hjl : j < st.signums.length
        · rw [List.getElem?_append_left hjl]
        · have : st.signums.length < j := by omega
          rw [List.getElem?_eq_none (by simp; omega), List.getElem?_eq_none (by omega)]
  split
  · rename_i hc
    exact ⟨rfl, rfl, hnums.1, hnums.2.1, hnums.2.2.1, hnums.2.2.2, hidx.1, hc, fun x hx => hx⟩
  · exact ⟨rfl, rfl, hnums.1, hnums.2.1, hnums.2.2.1, hnums.2.2.2, hidx.1, contains_setInsert_self _ _,
      fun x hx => contains_setInsert_of _ _ _ hx⟩

theorem contains_setErase_of (s x : Int) (l : List Int) (h : l.contains x = true) (hne : x ≠ s) : (setErase s l).contains x = true := by
  unfold setErase
  simp only [List.contains_eq_mem, decide_eq_true_eq, List.mem_filter] at h ⊢
  exact ⟨h, by simpa using hne⟩

/-- What `evloop_cancel_signal` does to the slot table and the watched set. -/
theorem evloopCancelSignal_facts (st : St) (idx : Nat) :
    (evloopCancelSignal st idx).heap = st.heap ∧ (evloopCancelSignal st idx).signals = st.signals ∧
    (evloopCancelSignal st idx).signums = st.signums.set idx 0 ∧
    ((evloopCancelSignal st idx).watched = st.watched ∨
      (!(st.signums.set idx 0).contains (st.signums.getD idx 0) ∧
       (evloopCancelSignal st idx).watched = setErase (st.signums.getD idx 0) st.watched)) := by
  unfold evloopCancelSignal
  simp only []
  split
  · exact ⟨rfl, rfl, rfl, Or.inl rfl⟩
  · rename_i hc
    have hc' : (!(st.signums.set idx 0).contains (st.signums.getD idx 0)) = true := by simpa using hc
    split
    · split <;> exact ⟨rfl, rfl, rfl, Or.inr ⟨hc', rfl⟩⟩
    · exact ⟨rfl, rfl, rfl, Or.inr ⟨hc', rfl⟩⟩


/-! ### registering and cancelling a signal watch -/

theorem getW_alloc_new (st : St) (w : Watch) : (st.alloc w).1.getW st.heap.length = w := by
  simp only [St.getW, St.alloc, List.getD_eq_getElem?_getD]
  rw [List.getElem?_append_right (Nat.le_refl _)]
  simp

theorem heap_insertWatch (st : St) (l : List Nat) (flags new : Nat) : (insertWatch st l flags new).1.heap = st.heap := by
  unfold insertWatch
  split
  · rfl
  · split
    · rfl
    · exact St.heap_fail _ _

theorem snd_insertWatch (st : St) (l : List Nat) (flags new : Nat) :
    (insertWatch st l flags new).2 = new :: l ∨ (insertWatch st l flags new).2 = l ++ [new] ∨ (insertWatch st l flags new).2 = l := by
  unfold insertWatch
  split
  · exact Or.inl rfl
  · split
    · exact Or.inr (Or.inl rfl)
    · exact Or.inr (Or.inr rfl)

/-- The state `tickit_watch_signal` has built before it links the watch. -/
theorem watchSignalPre_facts (st : St) (signum : Int) (flags : Nat) (slot : Int) :
    ∃ idx : Nat,
      (watchSignalPre st signum flags slot).heap.length = st.heap.length + 1 ∧
      (∀ x, x < st.heap.length → (watchSignalPre st signum flags slot).getW x = st.getW x) ∧
      ((watchSignalPre st signum flags slot).getW st.heap.length).signum = signum ∧
      ((watchSignalPre st signum flags slot).getW st.heap.length).evi = idx ∧
      (watchSignalPre st signum flags slot).signals = st.signals ∧
      (watchSignalPre st signum flags slot).signums.getD idx 0 = signum ∧
      idx < (watchSignalPre st signum flags slot).signums.length ∧
      st.signums.length ≤ (watchSignalPre st signum flags slot).signums.length ∧
      (∀ j, j ≠ idx → (watchSignalPre st signum flags slot).signums.getD j 0 = st.signums.getD j 0) ∧
      (idx < st.signums.length → st.signums.getD idx 0 = 0) ∧
      (watchSignalPre st signum flags slot).watched.contains signum = true ∧
      (∀ x, st.watched.contains x = true → (watchSignalPre st signum flags slot).watched.contains x = true) := by
  unfold watchSignalPre
  have hA := alloc_len st { type := .signal, flags := flags &&& (BIND_UNBIND ||| BIND_DESTROY), slot := slot, signum := signum }
  have hAold := fun x hx => getW_alloc_old st { type := .signal, flags := flags &&& (BIND_UNBIND ||| BIND_DESTROY), slot := slot, signum := signum } x hx
  have hAnew := getW_alloc_new st { type := .signal, flags := flags &&& (BIND_UNBIND ||| BIND_DESTROY), slot := slot, signum := signum }
  have hF := evloopSignal_facts (st.alloc { type := .signal, flags := flags &&& (BIND_UNBIND ||| BIND_DESTROY), slot := slot, signum := signum }).1 signum
  have hsig0 : (st.alloc { type := .signal, flags := flags &&& (BIND_UNBIND ||| BIND_DESTROY), slot := slot, signum := signum }).1.signums = st.signums := rfl
  have hwat0 : (st.alloc { type := .signal, flags := flags &&& (BIND_UNBIND ||| BIND_DESTROY), slot := slot, signum := signum }).1.watched = st.watched := rfl
  have hsgl0 : (st.alloc { type := .signal, flags := flags &&& (BIND_UNBIND ||| BIND_DESTROY), slot := slot, signum := signum }).1.signals = st.signals := rfl
  rw [hsig0, hwat0, hsgl0] at hF
  generalize (st.alloc { type := .signal, flags := flags &&& (BIND_UNBIND ||| BIND_DESTROY), slot := slot, signum := signum }).1 = sA at *
  obtain ⟨hheap, hsgl, hget, hidxlt, hlenle, hother, hzero, hwnew, hwold⟩ := hF
  refine ⟨(evloopSignal sA signum).2, ?_, ?_, ?_, ?_, hsgl, hget, hidxlt, hlenle, hother, hzero, hwnew, hwold⟩
  · rw [St.length_setW, hheap]; exact hA
  · intro x hx
    rw [St.getW_setW_ne _ _ _ _ (by omega), getW_of_heap_eq hheap]; exact hAold x hx
  · rw [St.getW_setW_self _ _ _ (by rw [hheap]; omega), getW_of_heap_eq hheap, hAnew]
  · rw [St.getW_setW_self _ _ _ (by rw [hheap]; omega)]

/-- `tickit_watch_signal` for a non-zero signal number keeps the bookkeeping in step with the list. -/
theorem kstep_watchSignal (st : St) (signum : Int) (flags : Nat) (slot : Int) (h0 : signum ≠ 0) :
    KStep st (watchSignal st signum flags slot).1 := by
  intro k
  have hs := (step_watchSignal st signum flags slot k.sinv).inv
  obtain ⟨idx, hlen, hold, hnsig, hnevi, hsgl, hget, hidxlt, hlenle, hother, hzero, hwnew, hwold⟩ :=
    watchSignalPre_facts st signum flags slot
  unfold watchSignal at hs ⊢
  generalize watchSignalPre st signum flags slot = s1 at *
  have hheap := heap_insertWatch s1 s1.signals flags st.heap.length
  have hnums : (insertWatch s1 s1.signals flags st.heap.length).1.signums = s1.signums := (g3_insertWatch _ _ _ _).nums
  have hwat : (insertWatch s1 s1.signals flags st.heap.length).1.watched = s1.watched := (g3_insertWatch _ _ _ _).watched
  have hl := snd_insertWatch s1 s1.signals flags st.heap.length
  generalize (insertWatch s1 s1.signals flags st.heap.length).2 = l' at *
  generalize (insertWatch s1 s1.signals flags st.heap.length).1 = s2 at *
  rw [hsgl] at hl
  have hgw : ∀ x, ({ s2 with signals := l' } : St).getW x = s1.getW x := fun x => getW_of_heap_eq hheap x
  have hmem : ∀ b, b ∈ l' → b = st.heap.length ∨ b ∈ st.signals := by
    intro b hb
    rcases hl with h | h | h <;> rw [h] at hb
    · simpa using hb
    · simp only [List.mem_append, List.mem_singleton] at hb; exact hb.symm
    · exact Or.inr hb
  have hevi_old : ∀ b, b ∈ st.signals → (st.getW b).evi ≠ idx := by
    intro b hb he
    have hsl := k.slot b hb
    rw [he] at hsl
    have := hzero hsl.2.2
    rw [this] at hsl
    exact hsl.2.1 hsl.1.symm
  -- evi / signum of a member of the new list
  have hfacts : ∀ b, b ∈ l' →
      (b = st.heap.length ∧ (({ s2 with signals := l' } : St).getW b).signum = signum ∧ (({ s2 with signals := l' } : St).getW b).evi = idx) ∨
      (b ∈ st.signals ∧ ({ s2 with signals := l' } : St).getW b = st.getW b) := by
    intro b hb
    cases hmem b hb with
    | inl h => subst h; left; exact ⟨rfl, by rw [hgw]; exact hnsig, by rw [hgw]; exact hnevi⟩
    | inr h => right; exact ⟨h, by rw [hgw, hold b (k.sinv.alloc b h)]⟩
  refine ⟨hs, ?_, ?_, ?_⟩
  · intro b hb
    show s2.watched.contains _ = true
    rw [hwat]
    rcases hfacts b hb with ⟨_, h2, _⟩ | ⟨h1, h2⟩
    · rw [h2]; exact hwnew
    · rw [h2]; exact hwold _ (k.watched b h1)
  · intro b hb
    show s2.signums.getD _ 0 = _ ∧ _ ∧ _ < s2.signums.length
    rw [hnums]
    rcases hfacts b hb with ⟨_, h2, h3⟩ | ⟨h1, h2⟩
    · rw [h2, h3]; exact ⟨hget, h0, hidxlt⟩
    · rw [h2]
      have hsl := k.slot b h1
      refine ⟨?_, hsl.2.1, Nat.lt_of_lt_of_le hsl.2.2 hlenle⟩
      rw [hother _ (hevi_old b h1)]; exact hsl.1
  · intro b hb c hc he
    rcases hfacts b hb with ⟨hb1, _, hb3⟩ | ⟨hb1, hb2⟩ <;> rcases hfacts c hc with ⟨hc1, _, hc3⟩ | ⟨hc1, hc2⟩
    · rw [hb1, hc1]
    · rw [hb3, hc2] at he; exact absurd he.symm (hevi_old c hc1)
    · rw [hb2, hc3] at he; exact absurd he (hevi_old b hb1)
    · rw [hb2, hc2] at he; exact k.inj b hb1 c hc1 he



theorem g3_waitpid (st : St) (pid : Int) : G3 st (waitpid st pid).st := by
  unfold waitpid
  split
  · split
    · exact G3.of_eq rfl rfl rfl rfl
    · split <;> exact G3.of_eq rfl rfl rfl rfl
  · exact G3.refl st


theorem g3_setNotify (st : St) (a : Nat) (n : Option Nat) : G3 st (setNotify st a n) := by
  unfold setNotify
  exact g3_setW st a { st.getW a with notify := n } rfl rfl

theorem g3_linkNotified (r : St × Nat) (a : Nat) (flags : Nat) : G3 r.1 (linkNotified r a flags) := by
  unfold linkNotified
  exact ((g3_setNotify r.1 a (some r.2)).trans (g3_insertWatch _ _ _ _)).trans (g3_with_procs _ _)

theorem g3_clearNotify (st : St) (a : Nat) : G3 st (clearNotify st a) := by
  unfold clearNotify
  split
  · exact g3_setNotify st a none
  · exact G3.refl _

theorem g3_linkProcess (st : St) (a : Nat) (pid : Int) (flags : Nat) : G3 st (linkProcess st a pid flags) := by
  unfold linkProcess
  simp only []
  split
  · split
    · exact (((g3_waitpid _ _).trans (g3_setWstatus _ _ _)).trans (g3_watchLater _ _ _ _)).trans (g3_linkNotified _ _ _)
    · exact ((g3_waitpid _ _).trans (g3_setWstatus _ _ _)).trans (g3_watchLater _ _ _ _)
  · exact ((g3_waitpid _ _).trans (g3_insertWatch _ _ _ _)).trans (g3_with_procs _ _)


theorem k_watchTimerAfterMsec (st : St) (msec : Int) (flags : Nat) (slot : Int) :
    KStep st (watchTimerAfterMsec st msec flags slot).1 := by
  unfold watchTimerAfterMsec
  exact (g3_emit st _).kstep.trans (k_watchTimerAt _ _ _ _)


theorem g3_cancelNotify (st : St) (a : Nat) (w : Watch) : G3 st (cancelNotify st a w) := by
  unfold cancelNotify
  split
  · exact g3_notify _ _ _
  · exact G3.refl _


theorem g3_cancelRest (st : St) (rest : List Nat) : G3 st (cancelRest st rest) := by
  unfold cancelRest
  split
  · exact G3.refl _
  · split
    · exact g3_fail _ _
    · exact G3.refl _



theorem g3_cancelHook_ne (st : St) (t : WType) (evi : Nat) (h : t ≠ .signal) : G3 st (cancelHook st t evi) := by
  unfold cancelHook
  split
  · exact g3_evloopCancelIo _ _
  · exact absurd rfl h
  · exact G3.refl _

/-- `tickit_watch_cancel` once the watch is found keeps the bookkeeping in step with the list. -/
theorem kstep_cancelFound (st : St) (a : Nat) (ha : a ∈ listOf st (st.getW a).type) :
    KStep st (cancelFound st a (st.getW a) (listOf st (st.getW a).type)) := by
  by_cases ht : (st.getW a).type = .signal
  · intro k
    have hs := (step_cancelFound st a (st.getW a) _ rfl ha k.sinv).inv
    unfold cancelFound at hs ⊢
    rw [ht] at ha hs ⊢
    simp only [listOf] at ha hs ⊢
    have ha' : a ∈ st.signals := ha
    -- the state before the hook
    have gN : G3 { st with signals := st.signals.erase a } (cancelNotify { st with signals := st.signals.erase a } a (st.getW a)) :=
      g3_cancelNotify _ _ _
    show KInv (cancelRest ((cancelHook (cancelNotify { st with signals := st.signals.erase a } a (st.getW a)) WType.signal (st.getW a).evi).free a) _)
    have hs' : SInv (cancelRest ((cancelHook (cancelNotify { st with signals := st.signals.erase a } a (st.getW a)) WType.signal (st.getW a).evi).free a)
        (List.drop 1 (List.dropWhile (fun x => decide (x ≠ a)) st.signals))) := hs
    generalize hsN : cancelNotify { st with signals := st.signals.erase a } a (st.getW a) = sN at *
    have hNheap : ∀ x, sN.getW x = st.getW x := by
      intro x
      have h := gN.ext.same
      -- cancelNotify only logs
      have : sN.heap = st.heap := by
        rw [← hsN]; unfold cancelNotify; split
        · rw [heap_notify]
        · rfl
      exact getW_of_heap_eq this x
    have hF := evloopCancelSignal_facts sN (st.getW a).evi
    have hhook : cancelHook sN WType.signal (st.getW a).evi = evloopCancelSignal sN (st.getW a).evi := rfl
    rw [hhook] at hs' ⊢
    obtain ⟨hheap, hsgl, hnums, hwat⟩ := hF
    rw [gN.nums] at hnums hwat
    rw [gN.watched] at hwat
    have hsglN : sN.signals = st.signals.erase a := gN.sigs
    generalize evloopCancelSignal sN (st.getW a).evi = sC at *
    -- free and the tail of the walk do not touch slot table, watched set, list
    have gT := (g3_free sC a).trans (g3_cancelRest (sC.free a) (List.drop 1 (List.dropWhile (fun x => decide (x ≠ a)) st.signals)))
    have hTget : ∀ x, x ≠ a → (cancelRest (sC.free a) (List.drop 1 (List.dropWhile (fun x => decide (x ≠ a)) st.signals))).getW x = st.getW x := by
      intro x hx
      have h1 : (cancelRest (sC.free a) (List.drop 1 (List.dropWhile (fun x => decide (x ≠ a)) st.signals))).getW x = (sC.free a).getW x := by
        unfold cancelRest
        split
        · rfl
        · split
          · exact St.getW_fail _ _ _
          · rfl
      rw [h1, St.getW_free_ne _ _ _ (Ne.symm hx), getW_of_heap_eq hheap, hNheap]
    generalize cancelRest (sC.free a) (List.drop 1 (List.dropWhile (fun x => decide (x ≠ a)) st.signals)) = sF at *
    have hFsig : sF.signals = st.signals.erase a := by rw [gT.sigs, hsgl, hsglN]
    have hFnums : sF.signums = st.signums.set (st.getW a).evi 0 := by rw [gT.nums, hnums]
    have hmem : ∀ b, b ∈ sF.signals → b ∈ st.signals ∧ b ≠ a := by
      intro b hb
      rw [hFsig] at hb
      exact ⟨List.erase_sublist.subset hb, fun h => (List.Nodup.mem_erase_iff k.sinv.nodup).mp (h ▸ hb) |>.1 rfl⟩
    have hevi : ∀ b, b ∈ st.signals → b ≠ a → (st.getW b).evi ≠ (st.getW a).evi :=
      fun b hb hne he => hne (k.inj b hb a ha' he)
    have ksa := k.slot a ha'
    refine ⟨hs', ?_, ?_, ?_⟩
    · intro b hb
      obtain ⟨hb1, hb2⟩ := hmem b hb
      rw [hTget b hb2, gT.watched]
      cases hwat with
      | inl h => rw [h]; exact k.watched b hb1
      | inr h =>
        rw [h.2]
        apply contains_setErase_of _ _ _ (k.watched b hb1)
        intro heq
        -- then the slot of b still holds the number: contradiction with `!contains`
        have hsb := k.slot b hb1
        have : (st.signums.set (st.getW a).evi 0).contains (st.signums.getD (st.getW a).evi 0) = true := by
          apply contains_of_getD _ (st.getW b).evi _ (by rw [List.length_set]; exact hsb.2.2)
          rw [getD_set_ne _ _ _ _ (Ne.symm (hevi b hb1 hb2)), hsb.1, heq]
        rw [this] at h
        exact absurd h.1 (by simp)
    · intro b hb
      obtain ⟨hb1, hb2⟩ := hmem b hb
      have hsb := k.slot b hb1
      rw [hTget b hb2, hFnums, getD_set_ne _ _ _ _ (Ne.symm (hevi b hb1 hb2)), List.length_set]
      exact hsb
    · intro b hb c hc he
      obtain ⟨hb1, hb2⟩ := hmem b hb
      obtain ⟨hc1, hc2⟩ := hmem c hc
      rw [hTget b hb2, hTget c hc2] at he
      exact k.inj b hb1 c hc1 he
  · unfold cancelFound
    exact (((((g3_setListOf_ne st _ _ ht).trans (g3_cancelNotify _ a _)).trans (g3_cancelHook_ne _ _ _ ht)).trans (g3_free _ a)).trans
      (g3_cancelRest _ _)).kstep



theorem g3_cancelDetached (st : St) (a : Nat) : G3 st (cancelDetached st a) := by
  unfold cancelDetached
  exact (g3_cancelNotify st a _).trans (g3_setW _ a _ rfl rfl)

theorem g3_laterPre (st : St) (a : Nat) : G3 st (laterPre st a) := by
  unfold laterPre
  split
  · exact g3_setW _ a _ rfl rfl
  · exact G3.refl _

theorem k_watchCancel0 (st : St) (a : Nat) : KStep st (watchCancel0 st a) := by
  unfold watchCancel0
  split
  · exact KStep.refl st
  · split
    · exact (g3_fail st _).kstep
    · split
      · exact KStep.refl st
      · split
        · exact (g3_fail st _).kstep
        · split
          · split
            · exact (g3_cancelDetached st a).kstep
            · exact KStep.refl st
          · rename_i hc
            have : a ∈ listOf st (st.getW a).type := by simpa using hc
            exact kstep_cancelFound st a this

theorem k_watchCancel (st : St) (a : Nat) : KStep st (watchCancel st a) := by
  unfold watchCancel
  split
  · split
    · exact (k_watchCancel0 st a).trans (k_watchCancel0 _ _)
    · exact k_watchCancel0 st a
  · exact k_watchCancel0 st a

theorem validSig_ne_zero (s : Int) (h : validSig s = true) : s ≠ 0 := by
  intro h0; subst h0; revert h; decide

theorem kstep_ensureSigchld (st : St) : KStep st (ensureSigchld st) := by
  unfold ensureSigchld
  split
  · exact KStep.refl _
  · exact (kstep_watchSignal st SIGCHLD 0 (-3) (by decide)).trans
      (G3.of_eq rfl rfl rfl rfl : G3 (watchSignal st SIGCHLD 0 (-3)).1
        { (watchSignal st SIGCHLD 0 (-3)).1 with sigchldwatch := some (watchSignal st SIGCHLD 0 (-3)).2 }).kstep

theorem kstep_watchProcess (st : St) (pid : Int) (flags : Nat) (slot : Int) : KStep st (watchProcess st pid flags slot).1 := by
  unfold watchProcess
  exact ((g3_alloc st _).kstep.trans (kstep_ensureSigchld _)).trans (g3_linkProcess _ _ _ _).kstep

theorem g3_with_slots (st : St) (l : List SlotRec) : G3 st { st with slots := l } := G3.of_eq rfl rfl rfl rfl

theorem g3_with_errno (st : St) (e : Int) : G3 st { st with errno := e } := G3.of_eq rfl rfl rfl rfl

theorem g3_with_children (st : St) (l : List Proc) : G3 st { st with children := l } := G3.of_eq rfl rfl rfl rfl

theorem g3_with_stillRunning (st : St) (b : Bool) : G3 st { st with stillRunning := b } := G3.of_eq rfl rfl rfl rfl

theorem g3_with_inRun (st : St) (b : Bool) : G3 st { st with inRun := b } := G3.of_eq rfl rfl rfl rfl


theorem k_doRegister (st : St) (k : Int) (reg : St → St × Nat) (h : ∀ s, KStep s (reg s).1) :
    KStep st (doRegister st k reg) := by
  unfold doRegister
  split
  · exact (g3_emit _ _).kstep
  · split
    · exact (g3_emit _ _).kstep
    · exact (h st).trans (g3_with_slots _ _).kstep


theorem g3_with_cancelReq (st : St) (l : List Int) : G3 st { st with cancelReq := l } := G3.of_eq rfl rfl rfl rfl

theorem k_doCancel (st : St) (k : Int) : KStep st (doCancel st k) := by
  unfold doCancel
  split
  · exact (g3_emit _ _).kstep
  · exact (g3_with_cancelReq _ _).kstep.trans (k_watchCancel _ _)


theorem k_runAct (st : St) (act : Act) : KStep st (runAct st act) := by
  unfold runAct
  split
  · exact KStep.refl _
  · split
    · split
      · exact k_doRegister _ _ _ (fun s => k_watchTimerAfterMsec s _ _ _)
      · exact KStep.refl _
    · split
      · exact k_doRegister _ _ _ (fun s => k_watchTimerAt s _ _ _)
      · exact KStep.refl _
    · exact k_doRegister _ _ _ (fun s => (g3_watchLater s _ _ _).kstep)
    · exact k_doRegister _ _ _ (fun s => (g3_watchIo s _ _ _ _).kstep)
    · split
      · rename_i hv
        exact k_doRegister _ _ _ (fun s => kstep_watchSignal s _ _ _ (validSig_ne_zero _ hv))
      · exact KStep.refl _
    · split
      · exact k_doRegister _ _ _ (fun s => kstep_watchProcess s _ _ _)
      · exact KStep.refl _
    · exact k_doCancel _ _
    · exact (g3_with_errno _ _).kstep
    · split
      · exact (g3_raiseSig _ _).kstep
      · exact KStep.refl _
    · split
      · split
        · exact KStep.refl _
        · exact (g3_with_children _ _).kstep
      · exact KStep.refl _
    · exact (g3_with_stillRunning _ _).kstep
    · exact KStep.refl _

theorem k_runActs (acts : List Act) : ∀ st : St,
    KStep st (acts.foldl (fun st act => if st.isOk then runAct (st.emit .a) act else st) st) := by
  induction acts with
  | nil => intro st; exact KStep.refl st
  | cons a rest ih =>
    intro st
    simp only [List.foldl_cons]
    refine KStep.trans ?_ (ih _)
    split
    · exact (g3_emit _ _).kstep.trans (k_runAct _ _)
    · exact KStep.refl _


theorem k_fireUser (st : St) (k : Int) (flags : Nat) (info : Info) : KStep st (fireUser st k flags info) := by
  unfold fireUser
  simp only []
  split
  · exact (g3_emit _ _).kstep
  · split
    · exact (g3_emit _ _).kstep.trans (g3_with_slots _ _).kstep
    · exact ((g3_emit _ _).kstep.trans (g3_with_slots _ _).kstep).trans (k_runActs _ _)


theorem g3_with_status (st : St) (x : Status) : G3 st { st with status := x } := G3.of_eq rfl rfl rfl rfl


theorem g3_unlinkOneshot (st : St) (a : Nat) : G3 st (unlinkOneshot st a) := by
  unfold unlinkOneshot
  split
  · exact g3_fail _ _
  · split
    · exact G3.refl _
    · rename_i hty
      have hns : (st.getW a).type ≠ .signal := by
        intro h; apply hty; simp [h]
      split
      · exact g3_fail _ _
      · split
        · exact G3.refl _
        · refine ((g3_setListOf_ne st _ _ hns).trans (g3_setW _ a _ ?_ ?_)).trans (g3_free _ a)
          · rw [getW_setListOf]
          · rw [getW_setListOf]

theorem g3_unlinkOneshotSaved (st : St) (a : Nat) (t : WType) : G3 st (unlinkOneshotSaved st a t) := by
  unfold unlinkOneshotSaved
  split
  · exact G3.refl _
  · rename_i hty
    have hns : t ≠ .signal := by
      intro h; apply hty; simp [h]
    split
    · exact g3_fail _ _
    · split
      · exact G3.refl _
      · refine ((g3_setListOf_ne st _ _ hns).trans (g3_setW _ a _ ?_ ?_)).trans (g3_free _ a)
        · rw [getW_setListOf]
        · rw [getW_setListOf]

theorem k_unlinkOneshot (st : St) (a : Nat) : KStep st (unlinkOneshot st a) := (g3_unlinkOneshot st a).kstep
theorem k_unlinkOneshotSaved (st : St) (a : Nat) (t : WType) : KStep st (unlinkOneshotSaved st a t) := (g3_unlinkOneshotSaved st a t).kstep

theorem k_fireIf (st : St) (c : Prop) [Decidable c] (k : Int) (flags : Nat) (info : Info) :
    KStep st (if c then fireUser st k flags info else st) := by
  split
  · exact k_fireUser _ _ _ _
  · exact KStep.refl _


theorem k_invokeWatch (st : St) (a : Nat) (flags : Nat) (info : Info) : KStep st (invokeWatch st a flags info) := by
  unfold invokeWatch
  have hf := k_fireIf st ((st.getW a).slot ≥ 0) (st.getW a).slot flags info
  generalize (if (st.getW a).slot ≥ 0 then fireUser st (st.getW a).slot flags info else st) = s1 at hf ⊢
  split
  · exact KStep.refl _
  · split
    · exact (g3_fail _ _).kstep
    · split
      · exact hf
      · split
        · exact hf.trans (k_unlinkOneshotSaved _ a _)
        · exact hf.trans (k_unlinkOneshot _ a)


theorem g3_waitpidV (st : St) (pid : Int) : G3 st (waitpidV st pid).st := by
  unfold waitpidV
  split
  · exact g3_waitpid _ _
  · exact G3.refl _


theorem k_procStep (st : St) (a : Nat) : KStep st (procStep st a) := by
  unfold procStep
  split
  · exact (g3_waitpidV _ _).kstep
  · exact (g3_waitpidV _ _).kstep.trans (k_invokeWatch _ _ _ _)


theorem k_outOfFuel (st : St) : KStep st (if st.isOk then { st with status := .outOfFuel } else st) := by
  split
  · exact (g3_with_status _ _).kstep
  · exact KStep.refl _


theorem k_onSigchld (fuel : Nat) : ∀ (st : St) (this : Option Nat), KStep st (onSigchld fuel st this) := by
  induction fuel with
  | zero => intro st this; unfold onSigchld; exact k_outOfFuel st
  | succ n ih =>
    intro st this
    unfold onSigchld
    split
    · exact KStep.refl _
    · split
      · exact KStep.refl _
      · split
        · exact (g3_fail _ _).kstep
        · exact (k_procStep _ _).trans (ih _ _)


theorem k_procSnapLoop (l : List Nat) : ∀ st : St, KStep st (procSnapLoop st l) := by
  induction l with
  | nil => intro st; exact KStep.refl st
  | cons a rest ih =>
    intro st
    unfold procSnapLoop
    split
    · exact KStep.refl _
    · split
      · exact (g3_fail _ _).kstep
      · split
        · exact ih _
        · split
          · exact (g3_fail _ _).kstep
          · exact (k_procStep _ _).trans (ih _)


theorem k_onSigchldAny (fuel : Nat) (st : St) : KStep st (onSigchldAny fuel st) := by
  unfold onSigchldAny
  split
  · split
    · exact (g3_fail _ _).kstep
    · exact k_procSnapLoop _ _
  · exact k_onSigchld _ _ _


theorem k_processNotify (st : St) (a : Nat) : KStep st (processNotify st a) := by
  unfold processNotify
  split
  · exact (g3_fail _ _).kstep
  · exact (g3_clearNotify _ _).kstep.trans (k_invokeWatch _ _ _ _)


theorem k_laterCb (st : St) (a : Nat) : KStep st (laterCb st a) := by
  unfold laterCb
  split
  · exact k_fireUser _ _ _ _
  · split
    · exact k_processNotify _ _
    · exact KStep.refl _


theorem k_laterLoopT (l : List Nat) : ∀ st : St, KStep st (laterLoopT st l).1 := by
  induction l with
  | nil => intro st; exact KStep.refl st
  | cons a rest ih =>
    intro st
    unfold laterLoopT
    split
    · exact KStep.refl _
    · split
      · exact (g3_fail _ _).kstep
      · split
        · exact (g3_free _ a).kstep.trans (ih _)
        · split
          · exact (g3_laterPre st a).kstep.trans (k_laterCb _ a)
          · split
            · exact ((g3_laterPre st a).kstep.trans (k_laterCb _ a)).trans (g3_fail _ _).kstep
            · exact (((g3_laterPre st a).kstep.trans (k_laterCb _ a)).trans (g3_free _ a).kstep).trans (ih _)


theorem k_laterLoop (l : List Nat) (st : St) : KStep st (laterLoop st l) := k_laterLoopT l st


theorem k_timerLoopT (fuel : Nat) : ∀ (st : St) (now : TV) (this : Option Nat), KStep st (timerLoopT fuel st now this).1 := by
  induction fuel with
  | zero => intro st now this; unfold timerLoopT; exact k_outOfFuel st
  | succ n ih =>
    intro st now this
    unfold timerLoopT
    split
    · exact KStep.refl _
    · split
      · exact KStep.refl _
      · rename_i a
        split
        · exact (g3_fail _ _).kstep
        · split
          · exact KStep.refl _
          · simp only []
            split
            · exact k_fireUser _ _ _ _
            · split
              · exact (k_fireUser _ _ _ _).trans (g3_fail _ _).kstep
              · exact ((k_fireUser _ _ _ _).trans (g3_free _ a).kstep).trans (ih _ _ _)


theorem k_timerLoopPopT (fuel : Nat) : ∀ (st : St) (now : TV), KStep st (timerLoopPopT fuel st now).1 := by
  induction fuel with
  | zero => intro st now; unfold timerLoopPopT; exact k_outOfFuel st
  | succ n ih =>
    intro st now
    unfold timerLoopPopT
    split
    · exact KStep.refl _
    · split
      · exact KStep.refl _
      · rename_i a rest hq
        split
        · exact (g3_fail _ _).kstep
        · split
          · exact KStep.refl _
          · have h1 := (g3_with_timers st rest).kstep.trans (k_fireUser { st with timers := rest } (st.getW a).slot (EV_FIRE ||| EV_UNBIND) .none)
            simp only []
            split
            · exact h1
            · split
              · exact h1.trans (g3_fail _ _).kstep
              · exact (h1.trans (g3_free _ a).kstep).trans (ih _ _)

theorem k_timerPhaseShipped (fuel : Nat) (st : St) (now : TV) : KStep st (timerPhaseShipped fuel st now) := by
  unfold timerPhaseShipped timerLoop
  simp only []
  split
  · exact (k_timerLoopT _ _ _ _).trans (g3_with_timers _ _).kstep
  · exact k_timerLoopT _ _ _ _

theorem k_timerPhase (fuel : Nat) (st : St) : KStep st (timerPhase fuel st) := by
  unfold timerPhase
  split
  · exact KStep.refl _
  · split
    · exact (g3_emit _ _).kstep.trans (k_timerLoopPopT _ _ _)
    · exact (g3_emit _ _).kstep.trans (k_timerPhaseShipped _ _ _)


theorem k_invokeTimers (fuel : Nat) (st : St) : KStep st (invokeTimers fuel st) := by
  unfold invokeTimers
  split
  · exact KStep.refl _
  · exact ((g3_with_laters st []).kstep.trans (k_timerPhase _ _)).trans (k_laterLoop _ _)


theorem k_sigCb (fuel : Nat) (st : St) (a : Nat) (s : Int) : KStep st (sigCb fuel st a s) := by
  unfold sigCb
  split
  · split
    · exact k_fireUser _ _ _ _
    · split
      · exact k_onSigchldAny _ _
      · split
        · exact (g3_with_stillRunning _ _).kstep
        · exact KStep.refl _
  · exact KStep.refl _

theorem k_sigwatchLoopT (fuel : Nat) : ∀ (st : St) (s : Int) (this : Option Nat), KStep st (sigwatchLoopT fuel st s this).1 := by
  induction fuel with
  | zero => intro st s this; unfold sigwatchLoopT; exact k_outOfFuel st
  | succ n ih =>
    intro st s this
    unfold sigwatchLoopT
    split
    · exact KStep.refl _
    · split
      · exact KStep.refl _
      · split
        · exact (g3_fail _ _).kstep
        · split
          · exact k_sigCb _ _ _ _
          · split
            · exact (k_sigCb _ _ _ _).trans (g3_fail _ _).kstep
            · exact (k_sigCb _ _ _ _).trans (ih _ _ _)


theorem k_sigwatchLoop (fuel : Nat) (st : St) (s : Int) (this : Option Nat) : KStep st (sigwatchLoop fuel st s this) :=
  k_sigwatchLoopT fuel st s this


theorem k_sigSnapLoopT (fuel : Nat) (s : Int) (l : List Nat) : ∀ st : St, KStep st (sigSnapLoopT fuel st s l).1 := by
  induction l with
  | nil => intro st; exact KStep.refl st
  | cons a rest ih =>
    intro st
    unfold sigSnapLoopT
    split
    · exact KStep.refl _
    · split
      · exact (g3_fail _ _).kstep
      · split
        · exact ih _
        · split
          · exact (g3_fail _ _).kstep
          · exact (k_sigCb _ _ _ _).trans (ih _)


theorem k_sigDispatch (fuel : Nat) (st : St) (s : Int) : KStep st (sigDispatch fuel st s) := by
  unfold sigDispatch
  split
  · split
    · exact (g3_fail _ _).kstep
    · exact k_sigSnapLoopT _ _ _ _
  · exact k_sigwatchLoop _ _ _ _


theorem k_dispatchLoop (fuel : Nat) (pending : List Int) (l : List Int) : ∀ st : St, KStep st (dispatchLoop fuel st pending l) := by
  induction l with
  | nil => intro st; exact KStep.refl st
  | cons s rest ih =>
    intro st
    unfold dispatchLoop
    refine KStep.trans ?_ (ih _)
    split
    · exact k_sigDispatch _ _ _
    · exact KStep.refl _


theorem g3_with_pendingSig (st : St) (l : List Int) : G3 st { st with pendingSig := l } := G3.of_eq rfl rfl rfl rfl


theorem k_dispatchSignals (fuel : Nat) (st : St) : KStep st (dispatchSignals fuel st) := by
  unfold dispatchSignals
  exact (g3_with_pendingSig st []).kstep.trans (k_dispatchLoop _ _ _ _)


theorem k_ioCb (st : St) (s : PollSlot) : KStep st (ioCb st s) := by
  unfold ioCb
  split
  · split
    · exact (g3_fail _ _).kstep
    · exact k_invokeWatch _ _ _ _
  · exact KStep.refl _


theorem k_ioLoopT (fuel : Nat) : ∀ (st : St) (idx : Nat), KStep st (ioLoopT fuel st idx).1 := by
  induction fuel with
  | zero => intro st idx; unfold ioLoopT; exact k_outOfFuel st
  | succ n ih =>
    intro st idx
    unfold ioLoopT
    split
    · exact KStep.refl _
    · split
      · exact KStep.refl _
      · split
        · exact ih _ _
        · split
          · exact ih _ _
          · exact (k_ioCb _ _).trans (ih _ _)


theorem k_ioLoop (fuel : Nat) (st : St) (idx : Nat) : KStep st (ioLoop fuel st idx) := k_ioLoopT fuel st idx

theorem g3_foldl_raiseSig (l : List Int) : ∀ st : St, G3 st (l.foldl raiseSig st) := by
  induction l with
  | nil => intro st; exact G3.refl st
  | cons s rest ih => intro st; exact (g3_raiseSig st s).trans (ih _)


theorem g3_pollScan (st : St) : G3 st (pollScan st) := G3.of_eq rfl rfl rfl rfl

theorem g3_with_inpoll (st : St) (l : List Int) : G3 st { st with inpoll := l } := G3.of_eq rfl rfl rfl rfl


theorem g3_pollRaise (st : St) : G3 st (pollRaise st) := by
  unfold pollRaise
  exact (g3_with_inpoll st []).trans (g3_foldl_raiseSig _ _)


theorem g3_pollTimeout (st : St) (t : Option Int) : G3 st (pollTimeout st t) := by
  unfold pollTimeout
  split
  · exact G3.of_eq rfl rfl rfl rfl
  · exact G3.refl _


theorem g3_deliverPending (st : St) : G3 st (deliverPending st) := by
  unfold deliverPending
  split <;> exact G3.of_eq rfl rfl rfl rfl


theorem g3_ppoll (st : St) (t : Option Int) : G3 st (ppoll st t).1 := by
  unfold ppoll
  split
  · exact (g3_pollScan st).trans (g3_pollRaise _)
  · split
    · exact ((g3_pollScan st).trans (g3_pollRaise _)).trans (g3_emit _ _)
    · split
      · exact ((((g3_pollScan st).trans (g3_pollRaise _)).trans (g3_deliverPending _)).trans (g3_with_errno _ _)).trans (g3_emit _ _)
      · exact (((g3_pollScan st).trans (g3_pollRaise _)).trans (g3_pollTimeout _ _)).trans (g3_emit _ _)


theorem g3_nextTimerMsec (st : St) : G3 st (nextTimerMsec st).1 := by
  unfold nextTimerMsec
  split
  · exact G3.refl _
  · split
    · exact G3.refl _
    · split
      · exact (g3_emit _ _).trans (g3_fail _ _)
      · exact g3_emit _ _


theorem k_tickAfterPoll (fuel : Nat) (st : St) (ret : Option Nat) : KStep st (tickAfterPoll fuel st ret) := by
  unfold tickAfterPoll
  split
  · exact k_invokeTimers _ _
  · split
    · split
      · exact (k_invokeTimers _ _).trans (k_ioLoop _ _ _)
      · exact k_invokeTimers _ _
    · split
      · exact (k_invokeTimers _ _).trans (k_dispatchSignals _ _)
      · exact k_invokeTimers _ _


theorem k_tick (fuel : Nat) (st : St) (nohang : Bool) : KStep st (tick fuel st nohang) := by
  unfold tick
  split
  · exact KStep.refl _
  · split
    · exact (g3_nextTimerMsec _).kstep
    · split
      · exact ((g3_nextTimerMsec _).trans (g3_ppoll _ _)).kstep
      · exact ((g3_nextTimerMsec _).trans (g3_ppoll _ _)).kstep.trans (k_tickAfterPoll _ _ _)


theorem g3_ppollRun (st : St) (t : Option Int) : G3 st (ppollRun st t).1 := by
  unfold ppollRun
  split
  · exact g3_ppoll _ _
  · split
    · exact ((g3_ppoll st t).trans (G3.of_eq rfl rfl rfl rfl : G3 (ppoll st t).1
        { (ppoll st t).1 with runPolls := (ppoll st t).1.runPolls + 1, stillRunning := false })).trans (g3_emit _ _)
    · exact (g3_ppoll st t).trans (G3.of_eq rfl rfl rfl rfl : G3 (ppoll st t).1
        { (ppoll st t).1 with runPolls := (ppoll st t).1.runPolls + 1 })


theorem k_runIter (fuel : Nat) (st : St) : KStep st (runIter fuel st) := by
  unfold runIter
  split
  · exact KStep.refl _
  · split
    · exact (g3_nextTimerMsec _).kstep
    · split
      · exact ((g3_nextTimerMsec _).trans (g3_ppollRun _ _)).kstep
      · exact ((g3_nextTimerMsec _).trans (g3_ppollRun _ _)).kstep.trans (k_tickAfterPoll _ _ _)


theorem k_runLoop (fuel : Nat) (n : Nat) : ∀ st : St, KStep st (runLoop fuel n st) := by
  induction n with
  | zero => intro st; unfold runLoop; exact k_outOfFuel st
  | succ k ih =>
    intro st
    unfold runLoop
    split
    · exact KStep.refl _
    · split
      · exact KStep.refl _
      · exact (k_runIter _ _).trans (ih _)


theorem g3_destroyNotify (st : St) (a : Nat) : G3 st (destroyNotify st a) := by
  unfold destroyNotify
  split
  · exact g3_notify _ _ _
  · exact G3.refl _


theorem g3_run_flags (st : St) : G3 st { st with stillRunning := true, inRun := true, runPolls := 0 } := G3.of_eq rfl rfl rfl rfl

theorem k_run (fuel : Nat) (st : St) : KStep st (run fuel st) := by
  have h0 : KStep st { (watchSignal st 2 0 (-5)).1 with stillRunning := true, inRun := true, runPolls := 0 } :=
    (kstep_watchSignal st 2 0 (-5) (by decide)).trans (g3_run_flags _).kstep
  unfold run
  split
  · exact KStep.refl _
  · split
    · exact h0.trans (k_runLoop _ _ _)
    · exact ((h0.trans (k_runLoop _ _ _)).trans (g3_with_inRun _ _).kstep).trans (k_watchCancel _ _)

/-- Destruction empties the lists (when it runs to completion). -/
theorem kinv_destroy (st : St) (k : KInv st) (hok : (destroy st).status = .ok) : KInv (destroy st) := by
  unfold destroy at hok ⊢
  split
  · exact k
  · rename_i h
    rw [if_neg h] at hok
    unfold destroyFinish at hok ⊢
    split
    · exact ⟨⟨List.nodup_nil, fun x hx => (by cases hx)⟩, fun b hb => (by cases hb), fun b hb => (by cases hb), fun b hb => (by cases hb)⟩
    · rename_i hno
      rw [if_neg hno] at hok
      exact absurd ((St.isOk_iff _).mpr hok) hno

theorem KInv.of_same {st st' : St} (h1 : st'.heap = st.heap) (h2 : st'.signals = st.signals) (h3 : st'.signums = st.signums)
    (h4 : st'.watched = st.watched) (k : KInv st) : KInv st' := (G3.of_eq h1 h2 h3 h4).kstep k

theorem status_applyOp_of_not_ok (st : St) (op : Op) (h : st.status ≠ .ok) : (applyOp st op).status ≠ .ok := by
  unfold applyOp applyOp'
  have : ({ st with log := [] } : St).isOk = false := by
    cases hh : ({ st with log := [] } : St).isOk
    · rfl
    · exact absurd ((St.isOk_iff _).mp hh) h
  simp only [this, Bool.not_false, if_true]
  exact h

theorem kinv_applyOp (st : St) (op : Op) (k : KInv st) (hok : (applyOp st op).status = .ok) : KInv (applyOp st op) := by
  unfold applyOp at hok ⊢
  have k0 : KInv { st with log := [] } := KInv.of_same (st := st) rfl rfl rfl rfl k
  generalize ({ st with log := [] } : St) = s0 at k0 hok ⊢
  unfold applyOp' at hok ⊢
  split
  · exact k0
  · rename_i hs
    rw [if_neg hs] at hok
    split
    · exact k0
    · exact k0
    · exact k0
    · split
      · exact k0
      · rename_i ha
        split
        · exact KInv.of_same (st := s0) rfl rfl rfl rfl k0
        · exact k_runAct _ _ k0
        · exact KInv.of_same (st := s0) rfl rfl rfl rfl k0
        · exact KInv.of_same (st := s0) rfl rfl rfl rfl k0
        · exact KInv.of_same (st := s0) rfl rfl rfl rfl k0
        · exact ((g3_with_stillRunning s0 true).kstep.trans (k_tick _ _ _)) k0
        · exact ((g3_with_stillRunning s0 true).kstep.trans (k_tick _ _ _)) k0
        · exact k_run _ _ k0
        · apply kinv_destroy _ k0
          simp only [ha] at hok
          exact hok
        · exact k0

theorem kinv_build (cfg : Config) : KInv (build cfg) := by
  have h0 : KInv (build0 cfg) :=
    ⟨⟨List.nodup_nil, fun x hx => (by cases hx)⟩, fun b hb => (by cases hb), fun b hb => (by cases hb), fun b hb => (by cases hb)⟩
  unfold build
  exact (((g3_watchIo _ _ _ _ _).kstep.trans (kstep_watchSignal _ SIGWINCH 0 (-2) (by decide))).trans
    (G3.of_eq rfl rfl rfl rfl : G3 _ { (watchSignal (watchIo (build0 cfg) (-1) IO_IN 0 (-1)).1 SIGWINCH 0 (-2)).1 with log := [] }).kstep) h0

/-- In every reachable state whose status is ok — under any variant of the source — `watched_signals` and
    `signums[]` agree with the list of signal watches. -/
theorem kinv_runOps (cfg : Config) (ops : List Op) (hok : (runOps cfg ops).status = .ok) : KInv (runOps cfg ops) := by
  unfold runOps at hok ⊢
  have : ∀ (l : List Op) (st : St), KInv st → (l.foldl applyOp st).status = .ok → KInv (l.foldl applyOp st) := by
    intro l
    induction l with
    | nil => intro st h _; exact h
    | cons o rest ih =>
      intro st h hfin
      simp only [List.foldl_cons] at hfin ⊢
      have hmid : (applyOp st o).status = .ok := by
        apply Classical.byContradiction
        intro hne
        have : ∀ (l : List Op) (s : St), s.status ≠ .ok → (l.foldl applyOp s).status ≠ .ok := by
          intro l
          induction l with
          | nil => intro s hs; exact hs
          | cons o' r' ih' => intro s hs; exact ih' _ (status_applyOp_of_not_ok s o' hs)
        exact this rest _ hne hfin
      exact ih _ (kinv_applyOp st o h hmid) hfin
  exact this ops _ (kinv_build cfg) hok

end Tickit.EvLoop
