import Tickit.Model.VT
/-
  Helper lemmas about the VT reference interpreter: sequential composition of `run`, symbolic execution of the
  tokenizer over one control sequence (`run_csi`), and the decimal reader.
-/
namespace Tickit.VT

/-! ### `run` composes -/

@[simp] theorem run_nil (vt : VTState) : run [] vt = vt := rfl
@[simp] theorem run_cons (b : UInt8) (bs : List UInt8) (vt : VTState) : run (b :: bs) vt = run bs (step vt b) := rfl
theorem run_append (a b : List UInt8) (vt : VTState) : run (a ++ b) vt = run b (run a vt) := by
  simp [run, List.foldl_append]

/-- Setting the tokenizer state to what it already is changes nothing. -/
theorem set_ps_self (vt : VTState) (p : PState) (h : vt.ps = p) : { vt with ps := p } = vt := by
  cases vt; simp_all

/-! ### Digits -/

theorem digitsValue_append (a b : List UInt8) (acc : Nat) :
    digitsValue (a ++ b) acc = digitsValue b (digitsValue a acc) := by
  simp [digitsValue, List.foldl_append]

theorem classify_digit {b : UInt8} (h : isDigit b = true) : classify b = .digit := by
  simp [classify, h]

/-- Reading digits inside a control sequence accumulates the decimal value. -/
theorem run_digits (ds : List UInt8) (hd : ∀ b ∈ ds, isDigit b = true) (vt : VTState) (a : CsiAcc)
    (hi : a.inter = []) (hne : ds ≠ []) :
    run ds { vt with ps := .csi a } = { vt with ps := .csi { a with cur := some (digitsValue ds (a.cur.getD 0)) } } := by
  induction ds generalizing a with
  | nil => exact absurd rfl hne
  | cons b rest ih =>
    have hb : isDigit b = true := hd b (by simp)
    have hstep : step { vt with ps := .csi a } b =
        { vt with ps := .csi { a with cur := some (a.cur.getD 0 * 10 + (b.toNat - 48)) } } := by
      simp [step, VTState.csiByte, classify_digit hb, hi]
    rw [run_cons, hstep]
    by_cases hr : rest = []
    · subst hr; simp [digitsValue]
    · rw [ih (fun x hx => hd x (by simp [hx])) _ (by simpa using hi) hr]
      simp [digitsValue]

/-! ### One control sequence, symbolically -/

/-- Value of a parameter as it appears on the wire: a possibly empty digit string. -/
def paramVal (ds : List UInt8) : Option Nat := if ds = [] then none else some (digitsValue ds 0)

/-- Parameters joined with `;`. -/
def joinParams : List (List UInt8) → List UInt8
  | [] => []
  | [p] => p
  | p :: q :: rest => p ++ [0x3b] ++ joinParams (q :: rest)

/-- The accumulator after reading `joinParams ps`. -/
def accParams (a : CsiAcc) : List (List UInt8) → CsiAcc
  | [] => a
  | [p] => { a with cur := paramVal p }
  | p :: q :: rest => accParams { a with done := a.done ++ [[paramVal p]], cur := none } (q :: rest)

theorem run_param (p : List UInt8) (hd : ∀ b ∈ p, isDigit b = true) (vt : VTState) (a : CsiAcc)
    (hi : a.inter = []) (hc : a.cur = none) :
    run p { vt with ps := .csi a } = { vt with ps := .csi { a with cur := paramVal p } } := by
  by_cases hp : p = []
  · subst hp; cases a; simp_all [paramVal]
  · rw [run_digits p hd vt a hi hp]; simp [paramVal, hp, hc]

theorem run_params (ps : List (List UInt8)) (hd : ∀ p ∈ ps, ∀ b ∈ p, isDigit b = true) (vt : VTState) (a : CsiAcc)
    (hi : a.inter = []) (hc : a.cur = none) (hs : a.sub = []) :
    run (joinParams ps) { vt with ps := .csi a } = { vt with ps := .csi (accParams a ps) } := by
  induction ps generalizing a with
  | nil => simp [joinParams, accParams]
  | cons p rest ih =>
    cases rest with
    | nil =>
      simp only [joinParams, accParams]
      exact run_param p (hd p (by simp)) vt a hi hc
    | cons q rest =>
      simp only [joinParams, accParams, run_append]
      rw [run_param p (hd p (by simp)) vt a hi hc]
      have hstep : step { vt with ps := .csi { a with cur := paramVal p } } 0x3b =
          { vt with ps := .csi { a with done := a.done ++ [[paramVal p]], cur := none } } := by
        have : classify 0x3b = .semi := by decide
        simp [step, VTState.csiByte, this, hi, hs]
      rw [run_cons, run_nil, hstep]
      exact ih (fun x hx => hd x (by simp [hx])) _ (by simpa using hi) rfl (by simpa using hs)

theorem accParams_priv (a : CsiAcc) (ps : List (List UInt8)) : (accParams a ps).priv = a.priv := by
  induction ps generalizing a with
  | nil => rfl
  | cons p rest ih => cases rest with
    | nil => rfl
    | cons q rest => simp only [accParams]; rw [ih]

theorem accParams_inter (a : CsiAcc) (ps : List (List UInt8)) : (accParams a ps).inter = a.inter := by
  induction ps generalizing a with
  | nil => rfl
  | cons p rest ih => cases rest with
    | nil => rfl
    | cons q rest => simp only [accParams]; rw [ih]

theorem accParams_params (a : CsiAcc) (ps : List (List UInt8)) (hne : ps ≠ []) (hs : a.sub = []) :
    (accParams a ps).params = a.done ++ ps.map (fun p => [paramVal p]) := by
  induction ps generalizing a with
  | nil => exact absurd rfl hne
  | cons p rest ih => cases rest with
    | nil => simp [accParams, CsiAcc.params, hs]
    | cons q rest =>
      simp only [accParams]
      rw [ih _ (by simp) (by simpa using hs)]
      simp

theorem run_inter (inter : List UInt8) (hi : ∀ b ∈ inter, classify b = .inter) (vt : VTState) (a : CsiAcc) :
    run inter { vt with ps := .csi a } = { vt with ps := .csi { a with inter := a.inter ++ inter } } := by
  induction inter generalizing a with
  | nil => cases a; simp
  | cons b rest ih =>
    have hb := hi b (by simp)
    have hstep : step { vt with ps := .csi a } b = { vt with ps := .csi { a with inter := a.inter ++ [b] } } := by
      simp [step, VTState.csiByte, hb]
    rw [run_cons, hstep, ih (fun x hx => hi x (by simp [hx]))]
    simp

/-- A complete control sequence `ESC [ p1 ; … ; pn I… F` read from the ground state is dispatched with exactly
    those parameters. -/
theorem run_csi (vt : VTState) (hg : vt.ps = .ground) (ps : List (List UInt8)) (hne : ps ≠ [])
    (hd : ∀ p ∈ ps, ∀ b ∈ p, isDigit b = true) (inter : List UInt8) (hi : ∀ b ∈ inter, classify b = .inter)
    (f : UInt8) (hf : classify f = .final) :
    run (0x1b :: 0x5b :: (joinParams ps ++ inter ++ [f])) vt =
      vt.dispatch 0 (ps.map fun p => [paramVal p]) inter f := by
  have h1 : step vt 0x1b = { vt with ps := .esc } := by simp [step, hg, VTState.groundByte]
  have h2 : step { vt with ps := .esc } 0x5b = { vt with ps := .csi CsiAcc.empty } := by simp [step]
  rw [run_cons, h1, run_cons, h2, run_append, run_append]
  rw [run_params ps hd vt CsiAcc.empty rfl rfl rfl]
  rw [run_inter inter hi]
  have h3 : step { vt with ps := .csi { accParams CsiAcc.empty ps with inter := (accParams CsiAcc.empty ps).inter ++ inter } } f =
      ({ vt with ps := .ground } : VTState).dispatch 0 (ps.map fun p => [paramVal p]) inter f := by
    simp [step, VTState.csiByte, hf, accParams_priv, accParams_inter, CsiAcc.params, CsiAcc.empty]
    have := accParams_params CsiAcc.empty ps hne rfl
    simp [CsiAcc.params, CsiAcc.empty] at this
    rw [this]
  rw [run_cons, run_nil, h3, set_ps_self vt _ hg]

/-! ### Control sequences whose parameters are separated by `;` or `:` (SGR) -/

/-- Parameters, each followed by a flag "the next separator is `:`" (ignored for the last one). -/
def joinSep : List (List UInt8 × Bool) → List UInt8
  | [] => []
  | [p] => p.1
  | p :: q :: rest => p.1 ++ [if p.2 then 0x3a else 0x3b] ++ joinSep (q :: rest)

/-- The accumulator after reading `joinSep ps`. -/
def accSep (a : CsiAcc) : List (List UInt8 × Bool) → CsiAcc
  | [] => a
  | [p] => { a with cur := paramVal p.1 }
  | p :: q :: rest =>
    if p.2 then accSep { a with sub := a.sub ++ [paramVal p.1], cur := none } (q :: rest)
    else accSep { a with done := a.done ++ [a.sub ++ [paramVal p.1]], sub := [], cur := none } (q :: rest)

/-- The parameter groups `joinSep ps` denotes, given the parts already read of the current group. -/
def groupsOf (sub : List (Option Nat)) : List (List UInt8 × Bool) → List (List (Option Nat))
  | [] => [sub ++ [none]]
  | [p] => [sub ++ [paramVal p.1]]
  | p :: q :: rest =>
    if p.2 then groupsOf (sub ++ [paramVal p.1]) (q :: rest)
    else (sub ++ [paramVal p.1]) :: groupsOf [] (q :: rest)

theorem run_sep (ps : List (List UInt8 × Bool)) (hd : ∀ p ∈ ps, ∀ b ∈ p.1, isDigit b = true) (vt : VTState) (a : CsiAcc)
    (hi : a.inter = []) (hc : a.cur = none) :
    run (joinSep ps) { vt with ps := .csi a } = { vt with ps := .csi (accSep a ps) } := by
  induction ps generalizing a with
  | nil => simp [joinSep, accSep]
  | cons p rest ih =>
    cases rest with
    | nil =>
      simp only [joinSep, accSep]
      exact run_param p.1 (hd p (by simp)) vt a hi hc
    | cons q rest =>
      simp only [joinSep, accSep, run_append]
      rw [run_param p.1 (hd p (by simp)) vt a hi hc]
      by_cases hcol : p.2 = true
      · have hstep : step { vt with ps := .csi { a with cur := paramVal p.1 } } 0x3a =
            { vt with ps := .csi { a with sub := a.sub ++ [paramVal p.1], cur := none } } := by
          have : classify 0x3a = .colon := by decide
          simp [step, VTState.csiByte, this, hi]
        simp only [hcol, if_true]
        rw [run_cons, run_nil, hstep]
        exact ih (fun x hx => hd x (by simp [hx])) _ (by simpa using hi) rfl
      · have hstep : step { vt with ps := .csi { a with cur := paramVal p.1 } } 0x3b =
            { vt with ps := .csi { a with done := a.done ++ [a.sub ++ [paramVal p.1]], sub := [], cur := none } } := by
          have : classify 0x3b = .semi := by decide
          simp [step, VTState.csiByte, this, hi]
        have hcol' : p.2 = false := by cases h : p.2 <;> simp_all
        simp only [hcol', Bool.false_eq_true, if_false]
        rw [run_cons, run_nil, hstep]
        exact ih (fun x hx => hd x (by simp [hx])) _ (by simpa using hi) rfl

theorem accSep_priv (a : CsiAcc) (ps : List (List UInt8 × Bool)) : (accSep a ps).priv = a.priv := by
  induction ps generalizing a with
  | nil => rfl
  | cons p rest ih => cases rest with
    | nil => rfl
    | cons q rest => simp only [accSep]; split <;> rw [ih]

theorem accSep_inter (a : CsiAcc) (ps : List (List UInt8 × Bool)) : (accSep a ps).inter = a.inter := by
  induction ps generalizing a with
  | nil => rfl
  | cons p rest ih => cases rest with
    | nil => rfl
    | cons q rest => simp only [accSep]; split <;> rw [ih]

theorem accSep_params (a : CsiAcc) (ps : List (List UInt8 × Bool)) (hne : ps ≠ []) :
    (accSep a ps).params = a.done ++ groupsOf a.sub ps := by
  induction ps generalizing a with
  | nil => exact absurd rfl hne
  | cons p rest ih => cases rest with
    | nil => simp [accSep, groupsOf, CsiAcc.params]
    | cons q rest =>
      simp only [accSep, groupsOf]
      split
      · rw [ih _ (by simp)]
      · rw [ih _ (by simp)]; simp

/-- `ESC [ p1 s1 p2 s2 … pn F` with separators `;` / `:` read from the ground state is dispatched with the
    parameter groups it denotes. -/
theorem run_csi_sep (vt : VTState) (hg : vt.ps = .ground) (ps : List (List UInt8 × Bool)) (hne : ps ≠ [])
    (hd : ∀ p ∈ ps, ∀ b ∈ p.1, isDigit b = true) (f : UInt8) (hf : classify f = .final) :
    run (0x1b :: 0x5b :: (joinSep ps ++ [f])) vt = vt.dispatch 0 (groupsOf [] ps) [] f := by
  have h1 : step vt 0x1b = { vt with ps := .esc } := by simp [step, hg, VTState.groundByte]
  have h2 : step { vt with ps := .esc } 0x5b = { vt with ps := .csi CsiAcc.empty } := by simp [step]
  rw [run_cons, h1, run_cons, h2, run_append, run_sep ps hd vt CsiAcc.empty rfl rfl]
  have h3 : step { vt with ps := .csi (accSep CsiAcc.empty ps) } f =
      ({ vt with ps := .ground } : VTState).dispatch 0 (groupsOf [] ps) [] f := by
    have hp := accSep_params CsiAcc.empty ps hne
    have hq := accSep_priv CsiAcc.empty ps
    have hr := accSep_inter CsiAcc.empty ps
    simp only [CsiAcc.empty, List.nil_append] at hp hq hr
    simp only [step, VTState.csiByte, hf, CsiAcc.empty, hp, hq, hr]
  rw [run_cons, run_nil, h3, set_ps_self vt _ hg]

theorem dispatch_sgr (vt : VTState) (ps) : vt.dispatch 0 ps [] 0x6d = vt.sgr ps := rfl

/-! ### Executor: closed forms under the side conditions the driver establishes -/

/-- Goals of the form `(if … then … else …) = (if … then … else …)` over grid cells with linear side conditions. -/
macro "cells_omega" : tactic =>
  `(tactic| (try simp only []) <;> (repeat' split) <;> first | rfl | (exfalso; omega) | (congr 2 <;> omega))

theorem moveTo_in (vt : VTState) (r c : Int) (hr : 0 ≤ r ∧ r < vt.lines) (hc : 0 ≤ c ∧ c < vt.cols) :
    vt.moveTo r c = { vt with row := r, col := c, pendingWrap := false } := by
  have h1 : vt.clampRow r = r := by unfold VTState.clampRow; omega
  have h2 : vt.clampCol c = c := by unfold VTState.clampCol; omega
  simp [VTState.moveTo, h1, h2]

/-! The tokenizer state and the static fields survive every executor operation. -/

@[simp] theorem moveTo_ps (vt : VTState) (r c : Int) : (vt.moveTo r c).ps = vt.ps := rfl
@[simp] theorem ech_ps (vt : VTState) (n : Int) : (vt.ech n).ps = vt.ps := rfl
@[simp] theorem ed_ps (vt : VTState) (n : Nat) : (vt.ed n).ps = vt.ps := rfl
@[simp] theorem il_ps (vt : VTState) (n : Int) : (vt.il n).ps = vt.ps := by unfold VTState.il; split <;> rfl
@[simp] theorem dl_ps (vt : VTState) (n : Int) : (vt.dl n).ps = vt.ps := by unfold VTState.dl; split <;> rfl
@[simp] theorem ich_ps (vt : VTState) (n : Int) : (vt.ich n).ps = vt.ps := by unfold VTState.ich; split <;> rfl
@[simp] theorem dch_ps (vt : VTState) (n : Int) : (vt.dch n).ps = vt.ps := by unfold VTState.dch; split <;> rfl
@[simp] theorem decic_ps (vt : VTState) (n : Int) : (vt.decic n).ps = vt.ps := by unfold VTState.decic; split <;> rfl
@[simp] theorem decdc_ps (vt : VTState) (n : Int) : (vt.decdc n).ps = vt.ps := by unfold VTState.decdc; split <;> rfl
@[simp] theorem decstbm_ps (vt : VTState) (t b : Option Nat) : (vt.decstbm t b).ps = vt.ps := by
  unfold VTState.decstbm; split
  · rfl
  · simp only []; split <;> split <;> rfl
@[simp] theorem decslrm_ps (vt : VTState) (l r : Option Nat) : (vt.decslrm l r).ps = vt.ps := by
  unfold VTState.decslrm; split
  · rfl
  · simp only []; split <;> split <;> rfl

/-! Dispatch of the control sequences the driver uses. -/

theorem dispatch_cup (vt : VTState) (ps) : vt.dispatch 0 ps [] 0x48 = vt.moveTo (cnt ps 0 - 1) (cnt ps 1 - 1) := rfl
theorem dispatch_vpa (vt : VTState) (ps) : vt.dispatch 0 ps [] 0x64 = vt.moveTo (cnt ps 0 - 1) vt.col := rfl
theorem dispatch_cha (vt : VTState) (ps) : vt.dispatch 0 ps [] 0x47 = vt.moveTo vt.row (cnt ps 0 - 1) := rfl
theorem dispatch_cuu (vt : VTState) (ps) : vt.dispatch 0 ps [] 0x41 = vt.moveTo (vt.row - cnt ps 0) vt.col := rfl
theorem dispatch_cud (vt : VTState) (ps) : vt.dispatch 0 ps [] 0x42 = vt.moveTo (vt.row + cnt ps 0) vt.col := rfl
theorem dispatch_cuf (vt : VTState) (ps) : vt.dispatch 0 ps [] 0x43 = vt.moveTo vt.row (vt.col + cnt ps 0) := rfl
theorem dispatch_cub (vt : VTState) (ps) : vt.dispatch 0 ps [] 0x44 = vt.moveTo vt.row (vt.col - cnt ps 0) := rfl
theorem dispatch_ech (vt : VTState) (ps) : vt.dispatch 0 ps [] 0x58 = vt.ech (cnt ps 0) := rfl
theorem dispatch_ed (vt : VTState) (ps) : vt.dispatch 0 ps [] 0x4a = vt.ed ((param ps 0).getD 0) := rfl
theorem dispatch_decstbm (vt : VTState) (ps) : vt.dispatch 0 ps [] 0x72 = vt.decstbm (param ps 0) (param ps 1) := rfl
theorem dispatch_decslrm (vt : VTState) (ps) :
    vt.dispatch 0 ps [] 0x73 = if vt.declrmm then vt.decslrm (param ps 0) (param ps 1) else vt := rfl
theorem dispatch_il (vt : VTState) (ps) : vt.dispatch 0 ps [] 0x4c = vt.il (cnt ps 0) := rfl
theorem dispatch_dl (vt : VTState) (ps) : vt.dispatch 0 ps [] 0x4d = vt.dl (cnt ps 0) := rfl
theorem dispatch_ich (vt : VTState) (ps) : vt.dispatch 0 ps [] 0x40 = vt.ich (cnt ps 0) := rfl
theorem dispatch_dch (vt : VTState) (ps) : vt.dispatch 0 ps [] 0x50 = vt.dch (cnt ps 0) := rfl
theorem dispatch_decic (vt : VTState) (ps) : vt.dispatch 0 ps [0x27] 0x7d = vt.decic (cnt ps 0) := rfl
theorem dispatch_decdc (vt : VTState) (ps) : vt.dispatch 0 ps [0x27] 0x7e = vt.decdc (cnt ps 0) := rfl

theorem cnt_toNat0 (i : Int) (h : 1 ≤ i) (rest) : cnt ([some i.toNat] :: rest) 0 = i := by
  have : i.toNat ≠ 0 := by omega
  simp [cnt, param, this]; omega
theorem cnt_toNat1 (i : Int) (h : 1 ≤ i) (p rest) : cnt (p :: [some i.toNat] :: rest) 1 = i := by
  have : i.toNat ≠ 0 := by omega
  simp [cnt, param, this]; omega
theorem cnt_none0 (rest) : cnt ([none] :: rest) 0 = 1 := by simp [cnt, param]
theorem cnt_missing1 (p) : cnt [p] 1 = 1 := by simp [cnt, param]

/-! Margins. -/

theorem decstbm_valid (vt : VTState) (t b : Int) (h0 : 0 ≤ t) (h1 : t + 1 < b) (h2 : b ≤ vt.lines) :
    vt.decstbm (some (t + 1).toNat) (some b.toNat) =
      { vt with top := t, bottom := b - 1, row := 0, col := 0, pendingWrap := false } := by
  have e1 : (((t + 1).toNat : Nat) : Int) = t + 1 := by omega
  have e2 : ((b.toNat : Nat) : Int) = b := by omega
  simp [VTState.decstbm, e1, e2]
  intro h; omega

theorem decstbm_reset (vt : VTState) :
    vt.decstbm none none = { vt with top := 0, bottom := vt.lines - 1, row := 0, col := 0, pendingWrap := false } := by
  simp [VTState.decstbm]

theorem decslrm_valid (vt : VTState) (l r : Int) (h0 : 0 ≤ l) (h1 : l + 1 < r) (h2 : r ≤ vt.cols) :
    vt.decslrm (some (l + 1).toNat) (some r.toNat) =
      { vt with left := l, right := r - 1, row := 0, col := 0, pendingWrap := false } := by
  have e1 : (((l + 1).toNat : Nat) : Int) = l + 1 := by omega
  have e2 : ((r.toNat : Nat) : Int) = r := by omega
  simp [VTState.decslrm, e1, e2]
  intro h; omega

/-- `CSI ; r s`: left margin defaulted. -/
theorem decslrm_right (vt : VTState) (r : Int) (h1 : 1 < r) (h2 : r ≤ vt.cols) :
    vt.decslrm none (some r.toNat) =
      { vt with left := 0, right := r - 1, row := 0, col := 0, pendingWrap := false } := by
  have e2 : ((r.toNat : Nat) : Int) = r := by omega
  simp [VTState.decslrm, e2]
  intro h; omega

theorem decslrm_reset (vt : VTState) :
    vt.decslrm none none = { vt with left := 0, right := vt.cols - 1, row := 0, col := 0, pendingWrap := false } := by
  simp [VTState.decslrm]

/-! Shifts: DL/IL, DECDC/DECIC and DCH/ICH with a signed amount, in closed form. -/

/-- `downward > 0` deletes lines, `< 0` inserts them. -/
def vshift (vt : VTState) (d : Int) : VTState :=
  if d > 0 then vt.dl d else if d < 0 then vt.il (-d) else vt
/-- `rightward > 0` deletes columns, `< 0` inserts them. -/
def hshift (vt : VTState) (r : Int) : VTState :=
  if r > 0 then vt.decdc r else if r < 0 then vt.decic (-r) else vt
/-- `rightward > 0` deletes characters in the cursor row, `< 0` inserts them. -/
def rshift (vt : VTState) (r : Int) : VTState :=
  if r > 0 then vt.dch r else if r < 0 then vt.ich (-r) else vt

@[simp] theorem vshift_ps (vt : VTState) (d : Int) : (vshift vt d).ps = vt.ps := by
  unfold vshift; split <;> (try split) <;> simp
@[simp] theorem hshift_ps (vt : VTState) (d : Int) : (hshift vt d).ps = vt.ps := by
  unfold hshift; split <;> (try split) <;> simp
@[simp] theorem rshift_ps (vt : VTState) (d : Int) : (rshift vt d).ps = vt.ps := by
  unfold rshift; split <;> (try split) <;> simp

theorem vshift_eq (vt : VTState) (d : Int) (hrow : vt.row = vt.top) (hm : vt.inMargins) :
    vshift vt d =
    { vt with grid := fun l c =>
      if vt.top ≤ l ∧ l ≤ vt.bottom ∧ vt.left ≤ c ∧ c ≤ vt.right then
        (if vt.top ≤ l + d ∧ l + d ≤ vt.bottom then vt.grid (l + d) c else vt.blank)
      else vt.grid l c } := by
  unfold vshift
  rcases Int.lt_trichotomy d 0 with h | h | h
  · have a1 : ¬ d > 0 := by omega
    simp only [a1, h, if_true, if_false, VTState.il, hm, Int.sub_neg, hrow]
    congr 1; funext l c
    cells_omega
  · subst h
    simp only [Int.lt_irrefl, if_false, Int.add_zero]
    apply VTState.ext <;> try rfl
    funext l c
    cells_omega
  · simp only [h, if_true, VTState.dl, hm, hrow]
    congr 1; funext l c
    cells_omega

theorem hshift_eq (vt : VTState) (r : Int) (hcol : vt.col = vt.left) (hm : vt.inMargins) :
    hshift vt r =
    { vt with grid := fun l c =>
      if vt.top ≤ l ∧ l ≤ vt.bottom ∧ vt.left ≤ c ∧ c ≤ vt.right then
        (if vt.left ≤ c + r ∧ c + r ≤ vt.right then vt.grid l (c + r) else vt.blank)
      else vt.grid l c } := by
  unfold hshift
  rcases Int.lt_trichotomy r 0 with h | h | h
  · have a1 : ¬ r > 0 := by omega
    simp only [a1, h, if_true, if_false, VTState.decic, hm, Int.sub_neg, hcol]
    congr 1; funext l c
    cells_omega
  · subst h
    simp only [Int.lt_irrefl, if_false, Int.add_zero]
    apply VTState.ext <;> try rfl
    funext l c
    cells_omega
  · simp only [h, if_true, VTState.decdc, hm, hcol]
    congr 1; funext l c
    cells_omega

theorem rshift_eq (vt : VTState) (r : Int) (hm : vt.inMargins) :
    rshift vt r =
    { vt with grid := fun l c =>
      if l = vt.row ∧ vt.col ≤ c ∧ c ≤ vt.right then
        (if vt.col ≤ c + r ∧ c + r ≤ vt.right then vt.grid l (c + r) else vt.blank)
      else vt.grid l c } := by
  unfold rshift
  rcases Int.lt_trichotomy r 0 with h | h | h
  · have a1 : ¬ r > 0 := by omega
    simp only [a1, h, if_true, if_false, VTState.ich, hm, Int.sub_neg]
    congr 1; funext l c
    cells_omega
  · subst h
    simp only [Int.lt_irrefl, if_false, Int.add_zero]
    apply VTState.ext <;> try rfl
    funext l c
    cells_omega
  · simp only [h, if_true, VTState.dch, hm]
    congr 1; funext l c
    cells_omega

/-! ### Tabulation used by the driver executable is the identity on the screen -/

theorem compact_grid (vt : VTState) (l c : Int) (h : vt.inScreen l c) : (vt.compact).grid l c = vt.grid l c := by
  obtain ⟨h1, h2, h3, h4⟩ := h
  have hc : 0 ≤ l ∧ l < vt.lines ∧ 0 ≤ c ∧ c < vt.cols := ⟨h1, h2, h3, h4⟩
  simp only [VTState.compact, hc, and_self, if_true]
  have hl : l.toNat < vt.lines.toNat := by omega
  have hcc : c.toNat < vt.cols.toNat := by omega
  have hidx : l.toNat * vt.cols.toNat + c.toNat < vt.lines.toNat * vt.cols.toNat := by
    have : (l.toNat + 1) * vt.cols.toNat ≤ vt.lines.toNat * vt.cols.toNat := Nat.mul_le_mul_right _ hl
    rw [Nat.add_mul] at this
    omega
  have hpos : 0 < vt.cols.toNat := by omega
  rw [Array.getD_eq_getD_getElem?, Array.getElem?_ofFn]
  simp only [hidx, dif_pos, Option.getD_some]
  have e1 : (l.toNat * vt.cols.toNat + c.toNat) / vt.cols.toNat = l.toNat := by
    rw [Nat.mul_comm, Nat.mul_add_div hpos, Nat.div_eq_of_lt hcc, Nat.add_zero]
  have e2 : (l.toNat * vt.cols.toNat + c.toNat) % vt.cols.toNat = c.toNat := by
    rw [Nat.mul_comm, Nat.mul_add_mod, Nat.mod_eq_of_lt hcc]
  rw [e1, e2]
  congr 1 <;> omega

/-- … and leaves every other component alone. -/
theorem compact_fields (vt : VTState) :
    vt.compact.lines = vt.lines ∧ vt.compact.cols = vt.cols ∧ vt.compact.row = vt.row ∧ vt.compact.col = vt.col ∧
    vt.compact.pendingWrap = vt.pendingWrap ∧ vt.compact.top = vt.top ∧ vt.compact.bottom = vt.bottom ∧
    vt.compact.left = vt.left ∧ vt.compact.right = vt.right ∧ vt.compact.declrmm = vt.declrmm ∧
    vt.compact.bg = vt.bg ∧ vt.compact.rv = vt.rv ∧ vt.compact.ps = vt.ps :=
  ⟨rfl, rfl, rfl, rfl, rfl, rfl, rfl, rfl, rfl, rfl, rfl, rfl, rfl⟩

end Tickit.VT
