import Tickit.Proof.Sgr
import Tickit.Model.TermSuspend
/-
  Proof/SgrSuspend.lean — C10 across pause + resume (`Model/TermSuspend.lean`).

  * `run_pause`: the bytes of the xterm driver's `teardown` reset the rendering attributes;
  * `expect_eq_ovAttrs_default`: sending a whole pen to a terminal with default attributes yields what the pen asks for;
  * `suspend_inv`: if `tickit_term_resume` re-sends the cached pen, "terminal = cached pen" holds again after pause + resume;
  * `suspend_no_resend`: if it does not, the terminal is left with default attributes whatever the cached pen says;
  * `runEvs_inv`, `runEvs_cache`: the invariant over histories of requests and suspensions.
-/
namespace Tickit.Proof.Sgr
open Tickit.Sgr Tickit.TermPen

theorem run_pause (a : Attrs) : run xtermPauseBytes ⟨.ground, a⟩ = ⟨.ground, a.reset⟩ := by
  simp [xtermPauseBytes, run, feed, sgrApply, sgrGroup, sgrSimple]

theorem reset_of_junk0 (a : Attrs) (h : a.junk = 0) : a.reset = {} := by
  simp [Attrs.reset, h]

theorem expect_eq_ovAttrs_default (caps : Caps) (p : Pen) : ovAttrs caps p {} = expectAttrs caps p := by
  have e1 : ∀ o, ovColour caps.rgb8 o .dflt = expectColour caps.rgb8 o := by intro o; cases o <;> rfl
  have e3 : ∀ o : Option Int, (o.map Int.toNat).getD 0 = (getInt o).toNat := by intro o; cases o <;> rfl
  have e4 : ∀ o : Option Int, (o.map expectFont).getD 0 = expectFont (getInt o) := by
    intro o; cases o
    · decide
    · rfl
  have e5 : ∀ o : Option Int, (o.map expectSizepos).getD .normal = expectSizepos (getInt o) := by
    intro o; cases o
    · decide
    · rfl
  simp only [ovAttrs, expectAttrs, e1, e3, e4, e5, getBool]

/-- The cached pen stays encodable. -/
theorem stepInt_fst_cases (set : Bool) (c p : Option Int) :
    (stepInt set c p).1 = c ∨ (stepInt set c p).1 = some (getInt p) := by
  unfold stepInt
  split
  · exact Or.inl rfl
  · split
    · exact Or.inl rfl
    · exact Or.inr rfl

theorem deltaOk_termCache (caps : Caps) (set : Bool) (colors : Int) (cache p : Pen) (hc : DeltaOk caps cache)
    (hp : DeltaOk caps p) : DeltaOk caps (termCache set colors cache p) := by
  constructor
  · intro v hv
    simp only [termCache] at hv
    rcases stepInt_fst_cases set cache.under p.under with h | h
    · rw [h] at hv; exact hc.under v hv
    · rw [h] at hv
      simp only [Option.some.injEq] at hv
      subst hv
      cases hu : p.under with
      | none => exact ⟨by simp [getInt], Or.inr (by simp [getInt])⟩
      | some w => simpa [getInt] using hp.under w hu
  · intro v hv
    simp only [termCache] at hv
    rcases stepInt_fst_cases set cache.sizepos p.sizepos with h | h
    · rw [h] at hv; exact hc.sizepos v hv
    · rw [h] at hv
      simp only [Option.some.injEq] at hv
      subst hv
      cases hu : p.sizepos with
      | none => exact Or.inl (by simp [getInt])
      | some w => simpa [getInt] using hp.sizepos w hu

theorem deltaOk_empty (caps : Caps) : DeltaOk caps {} :=
  ⟨fun _ h => (by cases h), fun _ h => (by cases h)⟩

/-- Sending the whole pen `c` (as delta and as final pen) to a terminal in ground state with default attributes. -/
theorem run_resend (caps : Caps) (cap : Nat) (c : Pen) (hok : DeltaOk caps c) (bs : List Byte)
    (h : xtermChpen caps cap c c = .bytes bs) :
    run bs ⟨.ground, {}⟩ = ⟨.ground, expectAttrs caps c⟩ := by
  have hne := comps_nonempty caps c
  unfold xtermChpen at h
  simp only at h
  split at h
  · cases h
  · split at h
    · rename_i hlen
      simp only [Out.bytes.injEq] at h
      subst h
      have hfl : flatten (comps caps c) = [] := List.eq_nil_of_length_eq_zero hlen
      have hc := (flatten_eq_nil _ hne).1 hfl
      have := ovAttrs_of_comps_nil caps c {} hok hc
      rw [expect_eq_ovAttrs_default] at this
      simp [run, this]
    · split at h
      · rename_i hnd
        simp only [Out.bytes.injEq] at h
        subst h
        have hnd' : isNondefault c = false := by simpa using hnd
        rw [run_renderSgr, expect_of_not_nondefault _ _ hnd']
        simp [groupsFlat, sgrApply, sgrGroup, sgrSimple, Attrs.reset]
      · rename_i hlen hnd
        simp only [Out.bytes.injEq] at h
        subst h
        have hcs : comps caps c ≠ [] := by
          intro hc
          rw [hc] at hlen
          exact hlen rfl
        rw [run_renderSgr, groupsFlat_flatten _ _ hcs hne, List.nil_append, sgrApply_comps _ _ _ hok (by rfl),
          expect_eq_ovAttrs_default]

/-- **pause + resume with the pen re-sent** keeps "the terminal renders with what the cached pen says". -/
theorem suspend_inv (cfg : Cfg) (st st' : TState) (hinv : Inv cfg.caps st) (hok : DeltaOk cfg.caps st.cache)
    (h : suspendStep cfg true st = some st') : Inv cfg.caps st' ∧ st'.cache = st.cache := by
  obtain ⟨hg, ha⟩ := hinv
  have hvt : st.vt = ⟨.ground, expectAttrs cfg.caps st.cache⟩ := by
    cases hv : st.vt with
    | mk s a => simp [hv] at hg ha; simp [hg, ha]
  unfold suspendStep resumeChpen at h
  simp only [if_true] at h
  split at h
  · cases h
  · rename_i bs hbs
    simp only [Option.some.injEq] at h
    subst h
    refine ⟨?_, rfl⟩
    have hp : run xtermResumeBytes (run xtermPauseBytes st.vt) = ⟨.ground, {}⟩ := by
      rw [hvt, run_pause, reset_of_junk0 _ (by rfl)]
      rfl
    simp only [hp, run_resend cfg.caps cfg.cap st.cache hok bs hbs]
    exact ⟨rfl, rfl⟩

/-- **pause + resume without the pen re-sent** leaves the terminal with default attributes, whatever the cached pen says. -/
theorem suspend_no_resend (cfg : Cfg) (st : TState) (hg : st.vt.st = .ground) :
    suspendStep cfg false st = some { st with vt := ⟨.ground, st.vt.attrs.reset⟩ } := by
  have hvt : st.vt = ⟨.ground, st.vt.attrs⟩ := by
    cases hv : st.vt with
    | mk s a => simp [hv] at hg; simp [hg]
  unfold suspendStep resumeChpen
  simp only [Bool.false_eq_true, if_false]
  rw [hvt, run_pause]
  rfl

/-- "terminal = cached pen", and the cached pen is encodable. -/
def SInv (caps : Caps) (st : TState) : Prop := Inv caps st ∧ DeltaOk caps st.cache

theorem sinv_init (caps : Caps) : SInv caps {} := ⟨inv_init caps, deltaOk_empty caps⟩

def EvOk (caps : Caps) : Ev → Prop
  | .req op => DeltaOk caps op.pen
  | .suspend => True

theorem stepEv_sinv (cfg : Cfg) (st st' : TState) (e : Ev) (hok : EvOk cfg.caps e) (hinv : SInv cfg.caps st)
    (h : stepEv cfg true st e = some st') :
    SInv cfg.caps st' ∧ st'.cache = (match e with
      | .req op => termCache op.isSet cfg.colors st.cache op.pen
      | .suspend => st.cache) := by
  cases e with
  | req op =>
    have := step_inv cfg st st' op hok hinv.1 h
    refine ⟨⟨this.1, ?_⟩, this.2⟩
    rw [this.2]
    exact deltaOk_termCache _ _ _ _ _ hinv.2 hok
  | suspend =>
    have := suspend_inv cfg st st' hinv.1 hinv.2 h
    refine ⟨⟨this.1, ?_⟩, this.2⟩
    rw [this.2]
    exact hinv.2

theorem runEvs_sinv (cfg : Cfg) (es : List Ev) (st st' : TState) (hok : ∀ e ∈ es, EvOk cfg.caps e)
    (hinv : SInv cfg.caps st) (h : runEvs cfg true es st = some st') : SInv cfg.caps st' := by
  induction es generalizing st with
  | nil => simp [runEvs] at h; subst h; exact hinv
  | cons e es ih =>
    simp only [runEvs] at h
    split at h
    · cases h
    · rename_i st1 hst
      exact ih st1 (fun o ho => hok o (by simp [ho])) (stepEv_sinv cfg st st1 e (hok e (by simp)) hinv hst).1 h

theorem runEvs_cache (cfg : Cfg) (h8 : 8 ≤ cfg.colors) (es : List Ev) (st st' : TState) (l : Pen)
    (hok : ∀ e ∈ es, EvOk cfg.caps e) (hinv : SInv cfg.caps st)
    (hl : st.cache = convPen cfg.colors l) (h : runEvs cfg true es st = some st') :
    st'.cache = convPen cfg.colors (es.foldl logicalEvStep l) := by
  induction es generalizing st l with
  | nil => simp [runEvs] at h; subst h; simpa using hl
  | cons e es ih =>
    simp only [runEvs] at h
    split at h
    · cases h
    · rename_i st1 hst
      have h1 := stepEv_sinv cfg st st1 e (hok e (by simp)) hinv hst
      simp only [List.foldl_cons]
      refine ih st1 (logicalEvStep l e) (fun o ho => hok o (by simp [ho])) h1.1 ?_ h
      rw [h1.2]
      cases e with
      | req op => simp only [logicalEvStep]; rw [hl, termCache_conv _ h8]
      | suspend => simpa [logicalEvStep] using hl

end Tickit.Proof.Sgr
