import Tickit.Model.LifeTop
/-
  C08 proofs, part 10: the process-wide list of SIGWINCH observers (`src/term.c`: `first_sigwinch_observer`,
  `tickit_term_observe_sigwinch`, `sigwinch`, and `tickit_term_destroy` which stops the observation first).

  The invariant: the links from `first_sigwinch_observer` form a chain without repetition of exactly the terminals
  whose `observe_winch` is set, each of them alive; every terminal outside the chain has a NULL link.  It is kept by
  the append walk, the unlink walk (with the unlinked terminal's link reset: fixes/C08_sigwinch_stale_next.patch) and
  the destruction of a terminal, and it makes every walk end without touching a freed terminal.
-/
namespace Tickit.Life

/-! ## chains over a `next` function -/

/-- The links from `cur` run through exactly the list `l` and end with NULL. -/
def ChainF (next : Nat → Option Nat) : Option Nat → List Nat → Prop
  | none, [] => True
  | some c, d :: l => c = d ∧ ChainF next (next d) l
  | none, _ :: _ => False
  | some _, [] => False

theorem ChainF.congr {next next' : Nat → Option Nat} : ∀ {l : List Nat} {cur : Option Nat}, ChainF next cur l →
    (∀ c ∈ l, next' c = next c) → ChainF next' cur l
  | [], none, _, _ => trivial
  | [], some _, h, _ => h.elim
  | _ :: _, none, h, _ => h.elim
  | d :: l, some c, h, hc => by
    obtain ⟨e, h'⟩ := h
    refine ⟨e, ?_⟩
    rw [hc d (by simp)]
    exact ChainF.congr h' (fun x hx => hc x (by simp [hx]))

theorem ChainF.nil_iff {next : Nat → Option Nat} {cur : Option Nat} : ChainF next cur [] ↔ cur = none := by
  cases cur <;> simp [ChainF]

theorem ChainF.cons_iff {next : Nat → Option Nat} {cur : Option Nat} {d : Nat} {l : List Nat} :
    ChainF next cur (d :: l) ↔ cur = some d ∧ ChainF next (next d) l := by
  cases cur with
  | none => simp [ChainF]
  | some c => simp [ChainF]

/-- A pointer to a link: `&first` (`none`) or `&p->next` (`some p`). -/
def readP (first : Option Nat) (next : Nat → Option Nat) : Option Nat → Option Nat
  | none => first
  | some p => next p

def storeFirst (first : Option Nat) : Option Nat → Option Nat → Option Nat
  | none, v => v
  | some _, _ => first

def storeNext (next : Nat → Option Nat) : Option Nat → Option Nat → Nat → Option Nat
  | none, _ => next
  | some p, v => fun c => if c = p then v else next c

/-- Where a walk that follows the list `l` from `tailp` stops. -/
def lastPtr : Option Nat → List Nat → Option Nat
  | tailp, [] => tailp
  | _, c :: r => lastPtr (some c) r

theorem lastPtr_some (c : Nat) : ∀ (r : List Nat), ∃ q, lastPtr (some c) r = some q ∧ q ∈ c :: r
  | [] => ⟨c, rfl, by simp⟩
  | d :: r => by
    obtain ⟨q, hq, hm⟩ := lastPtr_some d r
    exact ⟨q, hq, by simp at hm ⊢; rcases hm with h | h <;> simp [h]⟩

theorem lastPtr_append (tailp : Option Nat) (l : List Nat) (c : Nat) : lastPtr tailp (l ++ [c]) = some c := by
  induction l generalizing tailp with
  | nil => rfl
  | cons d r ih => exact ih (some d)

/-- Appending: the walk stops at the last link, which is NULL, and stores the new terminal there. -/
theorem chain_append {first : Option Nat} {next : Nat → Option Nat} {tid : Nat} (hn : next tid = none) :
    ∀ (l : List Nat) (tailp : Option Nat), ChainF next (readP first next tailp) l → tid ∉ l → l.Nodup →
      (∀ p, tailp = some p → p ∉ l ∧ p ≠ tid) →
      ChainF (storeNext next (lastPtr tailp l) (some tid))
        (readP (storeFirst first (lastPtr tailp l) (some tid)) (storeNext next (lastPtr tailp l) (some tid)) tailp) (l ++ [tid])
  | [], tailp, _, _, _, ht => by
    have hnt : storeNext next tailp (some tid) tid = none := by
      cases tailp with
      | none => exact hn
      | some p => simp only [storeNext]; rw [if_neg (fun h => (ht p rfl).2 h.symm)]; exact hn
    have hr : readP (storeFirst first tailp (some tid)) (storeNext next tailp (some tid)) tailp = some tid := by
      cases tailp with
      | none => rfl
      | some p => simp [readP, storeNext]
    simp only [lastPtr, List.nil_append]
    rw [hr]
    exact ⟨rfl, by rw [hnt]; trivial⟩
  | c :: r, tailp, hch, hni, hnd, ht => by
    rw [ChainF.cons_iff] at hch
    obtain ⟨hcur, hrest⟩ := hch
    have hcr : c ∉ r := (List.nodup_cons.1 hnd).1
    have hct : c ≠ tid := fun h => hni (by simp [h])
    have ih := chain_append (first := first) hn r (some c) (by simpa [readP] using hrest) (fun h => hni (by simp [h])) (List.nodup_cons.1 hnd).2
      (by intro p hp; cases hp; exact ⟨hcr, hct⟩)
    obtain ⟨q, hq, hqm⟩ := lastPtr_some c r
    show ChainF _ _ (c :: (r ++ [tid]))
    simp only [lastPtr]
    rw [hq] at ih ⊢
    rw [ChainF.cons_iff]
    refine ⟨?_, by simpa [readP] using ih⟩
    -- the link `tailp` points to is not the one written
    cases tailp with
    | none => simpa [readP, storeFirst] using hcur
    | some p =>
      have hpq : p ≠ q := by
        intro h; subst h
        exact (ht p rfl).1 hqm
      simp only [readP, storeNext]
      rw [if_neg hpq]
      exact hcur

/-- Unlinking: the walk stops at the link that names `tid` and stores `tid`'s own link there. -/
theorem chain_unlink {first : Option Nat} {next : Nat → Option Nat} {tid : Nat} (post : List Nat) :
    ∀ (pre : List Nat) (tailp : Option Nat), ChainF next (readP first next tailp) (pre ++ tid :: post) → (pre ++ tid :: post).Nodup →
      (∀ p, tailp = some p → p ∉ pre ++ tid :: post) →
      ChainF (storeNext next (lastPtr tailp pre) (next tid))
        (readP (storeFirst first (lastPtr tailp pre) (next tid)) (storeNext next (lastPtr tailp pre) (next tid)) tailp) (pre ++ post)
  | [], tailp, hch, hnd, ht => by
    simp only [List.nil_append] at hch hnd ht ⊢
    rw [ChainF.cons_iff] at hch
    obtain ⟨_, hrest⟩ := hch
    have hr : readP (storeFirst first tailp (next tid)) (storeNext next tailp (next tid)) tailp = next tid := by
      cases tailp with
      | none => rfl
      | some p => simp [readP, storeNext]
    simp only [lastPtr]
    rw [hr]
    refine ChainF.congr hrest ?_
    intro c hc
    cases tailp with
    | none => rfl
    | some p =>
      simp only [storeNext]
      rw [if_neg]
      intro h; subst h
      exact (ht c rfl) (by simp [hc])
  | c :: r, tailp, hch, hnd, ht => by
    simp only [List.cons_append] at hch hnd ht ⊢
    rw [ChainF.cons_iff] at hch
    obtain ⟨hcur, hrest⟩ := hch
    have hcr : c ∉ r ++ tid :: post := (List.nodup_cons.1 hnd).1
    have ih := chain_unlink (first := first) post r (some c) (by simpa [readP] using hrest) (List.nodup_cons.1 hnd).2
      (by intro p hp; cases hp; exact hcr)
    obtain ⟨q, hq, hqm⟩ := lastPtr_some c r
    simp only [lastPtr]
    rw [hq] at ih ⊢
    rw [ChainF.cons_iff]
    refine ⟨?_, by simpa [readP] using ih⟩
    cases tailp with
    | none => simpa [readP, storeFirst] using hcur
    | some p =>
      have hpq : p ≠ q := by
        intro h; subst h
        refine ht p rfl ?_
        simp at hqm ⊢
        rcases hqm with h | h
        · exact .inl h
        · exact .inr (.inl h)
      simp only [readP, storeNext]
      rw [if_neg hpq]
      exact hcur

/-! ## the list inside `Top` -/

def swNext (top : Top) (c : Nat) : Option Nat := (swNode top c).next
def swObs (top : Top) (c : Nat) : Bool := (swNode top c).obs

/-- The chain invariant. -/
structure SwInv (top : Top) (l : List Nat) : Prop where
  chain : ChainF (swNext top) top.swFirst l
  nodup : l.Nodup
  /-- every terminal of the chain exists and has `observe_winch` set -/
  mem : ∀ c ∈ l, c < top.sw.size ∧ swObs top c = true
  /-- a terminal outside the chain has a NULL link and `observe_winch` clear -/
  out : ∀ c, c ∉ l → swNext top c = none ∧ swObs top c = false
  /-- no further terminal of the chain has been freed -/
  live : ∀ c ∈ l, c ≠ 0 → swFreed top c = false
  size : top.sw.size = top.xterms.size + 1
  /-- the handler is installed exactly while somebody observes -/
  handler : top.swHandler = top.swFirst.isSome
  /-- a further terminal that has not been freed is referred to by the application -/
  xapp : ∀ (k : Nat) (x : XTerm), top.xterms[k]? = some x → x.freed = false → 1 ≤ x.appRefs

/-- Between two operations: nothing has failed, the chain invariant holds, and a main terminal that has been freed
    has left the list. -/
def SwOk (top : Top) : Prop :=
  top.fail = none ∧ ∃ l, SwInv top l ∧ (top.st.term.freed = true → 0 ∉ l)

theorem swOk_init : SwOk ({} : Top) := by
  refine ⟨rfl, [], ⟨trivial, List.nodup_nil, by simp, ?_, by simp, rfl, rfl, by intro k x hx; simp at hx⟩, by simp⟩
  intro c _
  unfold swNext swObs swNode
  by_cases hc : c = 0
  · subst hc; exact ⟨rfl, rfl⟩
  · have : (#[({} : SwNode)])[c]? = none := by apply Array.getElem?_eq_none; simp; omega
    show ((#[({} : SwNode)])[c]?.getD {}).next = none ∧ ((#[({} : SwNode)])[c]?.getD {}).obs = false
    rw [this]; exact ⟨rfl, rfl⟩

/-- Everything a list walk looks at. -/
structure SwSame (a b : Top) : Prop where
  sw : b.sw = a.sw
  first : b.swFirst = a.swFirst
  handler : b.swHandler = a.swHandler
  xterms : b.xterms = a.xterms
  fail : b.fail = a.fail

theorem SwSame.refl (a : Top) : SwSame a a := ⟨rfl, rfl, rfl, rfl, rfl⟩

theorem swFreed_of_same {a b : Top} (h : SwSame a b) (c : Nat) (hc : c ≠ 0) : swFreed b c = swFreed a c := by
  unfold swFreed; simp only [hc, if_false, h.xterms]

theorem SwInv.of_same {a b : Top} {l : List Nat} (inv : SwInv a l) (h : SwSame a b) : SwInv b l := by
  have hn : swNext b = swNext a := by funext c; unfold swNext swNode; rw [h.sw]
  have ho : swObs b = swObs a := by funext c; unfold swObs swNode; rw [h.sw]
  refine ⟨by rw [hn, h.first]; exact inv.chain, inv.nodup, ?_, ?_, ?_, by rw [h.sw, h.xterms]; exact inv.size,
    by rw [h.handler, h.first]; exact inv.handler, by rw [h.xterms]; exact inv.xapp⟩
  · intro c hc; rw [h.sw, ho]; exact inv.mem c hc
  · intro c hc; rw [hn, ho]; exact inv.out c hc
  · intro c hc h0; rw [swFreed_of_same h c h0]; exact inv.live c hc h0

/-- All terminals of the list are alive. -/
def AllLive (top : Top) (l : List Nat) : Prop := ∀ c ∈ l, swFreed top c = false

theorem SwInv.allLive {top : Top} {l : List Nat} (inv : SwInv top l) (h0 : top.st.term.freed = true → 0 ∉ l) : AllLive top l := by
  intro c hc
  by_cases hz : c = 0
  · subst hz
    unfold swFreed
    simp only [if_true]
    cases hf : top.st.term.freed with
    | false => rfl
    | true => exact absurd hc (h0 hf)
  · exact inv.live c hc hz

/-! ### what a store does -/

theorem swNode_setNode (top : Top) (p : Nat) (n : SwNode) (c : Nat) :
    swNode (swSetNode top p n) c = if c = p ∧ p < top.sw.size then n else swNode top c := by
  unfold swNode swSetNode
  by_cases hcp : c = p
  · subst hcp
    by_cases hlt : c < top.sw.size
    · simp [hlt]
    · simp [hlt]
  · have : ¬ p = c := fun h => hcp h.symm
    simp [hcp, this]

theorem swSetNode_same (top : Top) (p : Nat) (n : SwNode) :
    (swSetNode top p n).swFirst = top.swFirst ∧ (swSetNode top p n).swHandler = top.swHandler ∧
    (swSetNode top p n).xterms = top.xterms ∧ (swSetNode top p n).fail = top.fail ∧ (swSetNode top p n).st = top.st ∧
    (swSetNode top p n).sw.size = top.sw.size := by
  unfold swSetNode; simp

theorem swFreed_setNode (top : Top) (p : Nat) (n : SwNode) (c : Nat) : swFreed (swSetNode top p n) c = swFreed top c := rfl

theorem swStore_first (top : Top) (tailp v : Option Nat) : (swStore top tailp v).swFirst = storeFirst top.swFirst tailp v := by
  cases tailp <;> rfl

theorem swStore_next (top : Top) (tailp v : Option Nat) (h : ∀ p, tailp = some p → p < top.sw.size) :
    swNext (swStore top tailp v) = storeNext (swNext top) tailp v := by
  cases tailp with
  | none => rfl
  | some p =>
    funext c
    unfold swNext swStore
    simp only [swNode_setNode, storeNext, h p rfl, and_true]
    split <;> rfl

theorem swStore_obs (top : Top) (tailp v : Option Nat) : swObs (swStore top tailp v) = swObs top := by
  cases tailp with
  | none => rfl
  | some p =>
    funext c
    unfold swObs swStore
    simp only [swNode_setNode]
    split
    · rename_i h; rw [h.1]
    · rfl

theorem swStore_same (top : Top) (tailp v : Option Nat) :
    (swStore top tailp v).swHandler = top.swHandler ∧ (swStore top tailp v).xterms = top.xterms ∧
    (swStore top tailp v).fail = top.fail ∧ (swStore top tailp v).st = top.st ∧ (swStore top tailp v).sw.size = top.sw.size := by
  cases tailp with
  | none => exact ⟨rfl, rfl, rfl, rfl, rfl⟩
  | some p => unfold swStore; simp [swSetNode]

theorem swFreed_store (top : Top) (tailp v : Option Nat) (c : Nat) : swFreed (swStore top tailp v) c = swFreed top c := by
  unfold swFreed
  rw [(swStore_same top tailp v).2.1, (swStore_same top tailp v).2.2.2.1]

/-! ### the walks -/

/-- The append walk over a chain of live terminals ends at its last link. -/
theorem swAppend_spec (top : Top) (tid : Nat) : ∀ (l : List Nat) (fuel : Nat) (tailp cur : Option Nat),
    ChainF (swNext top) cur l → AllLive top l → l.length < fuel →
    swAppend top tid fuel tailp cur = swStore top (lastPtr tailp l) (some tid)
  | [], fuel, tailp, cur, hch, _, hf => by
    rw [ChainF.nil_iff] at hch
    subst hch
    obtain ⟨f, rfl⟩ : ∃ f, fuel = f + 1 := ⟨fuel - 1, by simp at hf; omega⟩
    rfl
  | c :: r, fuel, tailp, cur, hch, hl, hf => by
    rw [ChainF.cons_iff] at hch
    obtain ⟨hcur, hrest⟩ := hch
    subst hcur
    obtain ⟨f, rfl⟩ : ∃ f, fuel = f + 1 := ⟨fuel - 1, by simp at hf; omega⟩
    unfold swAppend
    rw [hl c (by simp)]
    simp only [Bool.false_eq_true, if_false]
    exact swAppend_spec top tid r f (some c) _ hrest (fun x hx => hl x (by simp [hx])) (by simp at hf; omega)

/-- The unlink walk over a chain that contains `tid` ends at the link that names it. -/
theorem swUnlink_spec (top : Top) (tid : Nat) (post : List Nat) : ∀ (pre : List Nat) (fuel : Nat) (tailp cur : Option Nat),
    ChainF (swNext top) cur (pre ++ tid :: post) → AllLive top pre → tid ∉ pre → pre.length < fuel →
    swUnlink top tid fuel tailp cur = swStore top (lastPtr tailp pre) (swNext top tid)
  | [], fuel, tailp, cur, hch, _, _, hf => by
    simp only [List.nil_append] at hch
    rw [ChainF.cons_iff] at hch
    obtain ⟨hcur, _⟩ := hch
    subst hcur
    obtain ⟨f, rfl⟩ : ∃ f, fuel = f + 1 := ⟨fuel - 1, by simp at hf; omega⟩
    unfold swUnlink
    simp only [if_true]
    rfl
  | c :: r, fuel, tailp, cur, hch, hl, hni, hf => by
    simp only [List.cons_append] at hch
    rw [ChainF.cons_iff] at hch
    obtain ⟨hcur, hrest⟩ := hch
    subst hcur
    obtain ⟨f, rfl⟩ : ∃ f, fuel = f + 1 := ⟨fuel - 1, by simp at hf; omega⟩
    have hct : ¬ c = tid := fun h => hni (by simp [h])
    unfold swUnlink
    simp only [hct, if_false]
    rw [hl c (by simp)]
    simp only [Bool.false_eq_true, if_false]
    exact swUnlink_spec top tid post r f (some c) _ hrest (fun x hx => hl x (by simp [hx])) (fun h => hni (by simp [h]))
      (by simp at hf; omega)

/-- The signal handler's walk over a chain of live terminals ends. -/
theorem swSignal_go_spec (top : Top) : ∀ (l : List Nat) (fuel : Nat) (cur : Option Nat),
    ChainF (swNext top) cur l → AllLive top l → l.length < fuel → swSignal.go top fuel cur = top
  | [], fuel, cur, hch, _, hf => by
    rw [ChainF.nil_iff] at hch
    subst hch
    obtain ⟨f, rfl⟩ : ∃ f, fuel = f + 1 := ⟨fuel - 1, by simp at hf; omega⟩
    rfl
  | c :: r, fuel, cur, hch, hl, hf => by
    rw [ChainF.cons_iff] at hch
    obtain ⟨hcur, hrest⟩ := hch
    subst hcur
    obtain ⟨f, rfl⟩ : ∃ f, fuel = f + 1 := ⟨fuel - 1, by simp at hf; omega⟩
    unfold swSignal.go
    rw [hl c (by simp)]
    simp only [Bool.false_eq_true, if_false]
    exact swSignal_go_spec top r f _ hrest (fun x hx => hl x (by simp [hx])) (by simp at hf; omega)

/-- A chain without repetition inside the array is no longer than the array. -/
theorem nodup_length_le : ∀ (l : List Nat) (n : Nat), l.Nodup → (∀ c ∈ l, c < n) → l.length ≤ n
  | l, 0, _, h => by
    cases l with
    | nil => simp
    | cons c r => have := h c (by simp); omega
  | l, n + 1, hnd, h => by
    by_cases hm : n ∈ l
    · have hlen : (l.erase n).length = l.length - 1 := List.length_erase_of_mem hm
      have := nodup_length_le (l.erase n) n (hnd.erase n) (by
        intro c hc
        have hcl : c ∈ l := List.mem_of_mem_erase hc
        have hne : c ≠ n := by
          intro h; subst h
          exact (List.Nodup.not_mem_erase hnd) hc
        have := h c hcl
        omega)
      have : 0 < l.length := List.length_pos_of_mem hm
      omega
    · have := nodup_length_le l n hnd (by
        intro c hc
        have := h c hc
        have : c ≠ n := fun e => hm (e ▸ hc)
        omega)
      omega

theorem SwInv.fuel {top : Top} {l : List Nat} (inv : SwInv top l) : l.length < swFuel top := by
  have := nodup_length_le l top.sw.size inv.nodup (fun c hc => (inv.mem c hc).1)
  unfold swFuel; omega

/-! ### the operations -/

/-- SIGWINCH: the handler walks the list and comes back. -/
theorem swSignal_ok {top : Top} {l : List Nat} (inv : SwInv top l) (hl : AllLive top l) : swSignal top = top := by
  unfold swSignal
  split
  · exact swSignal_go_spec top l _ _ inv.chain hl inv.fuel
  · rfl

/-- `tickit_term_observe_sigwinch(tt, true)` on a live terminal. -/
theorem swObserve_ok {top : Top} {l : List Nat} (inv : SwInv top l) (hl : AllLive top l) {tid : Nat} (ht : tid < top.sw.size)
    (hlive : tid ≠ 0 → swFreed top tid = false) :
    ∃ l', SwInv (swObserve top tid) l' ∧ (swObserve top tid).fail = top.fail ∧ (swObserve top tid).st = top.st ∧
      (swObserve top tid).xterms = top.xterms ∧ (∀ c, c ∈ l' ↔ c ∈ l ∨ c = tid) := by
  unfold swObserve
  by_cases ho : (swNode top tid).obs = true
  · rw [if_pos ho]
    refine ⟨l, inv, rfl, rfl, rfl, ?_⟩
    intro c
    constructor
    · exact fun h => .inl h
    · rintro (h | h)
      · exact h
      · subst h
        apply Classical.byContradiction
        intro hc
        have := (inv.out c hc).2
        unfold swObs at this
        rw [this] at ho; cases ho
  · rw [if_neg ho]
    have hob : (swNode top tid).obs = false := by cases h : (swNode top tid).obs <;> simp_all
    have hnl : tid ∉ l := by
      intro hm
      have := (inv.mem tid hm).2
      unfold swObs at this
      rw [this] at hob; cases hob
    have hnext : swNext top tid = none := (inv.out tid hnl).1
    -- the two preparatory assignments
    let n1 : SwNode := { swNode top tid with obs := true }
    let top1 := swSetNode top tid n1
    let top2 : Top := if top1.swFirst.isNone then { top1 with swHandler := true } else top1
    have s1 := swSetNode_same top tid n1
    have h2sw : top2.sw = top1.sw := by show (if _ then _ else _ : Top).sw = _; split <;> rfl
    have h2first : top2.swFirst = top.swFirst := by
      show (if _ then _ else _ : Top).swFirst = _; split <;> exact s1.1
    have h2x : top2.xterms = top.xterms := by show (if _ then _ else _ : Top).xterms = _; split <;> exact s1.2.2.1
    have h2fail : top2.fail = top.fail := by show (if _ then _ else _ : Top).fail = _; split <;> exact s1.2.2.2.1
    have h2st : top2.st = top.st := by show (if _ then _ else _ : Top).st = _; split <;> exact s1.2.2.2.2.1
    have h2size : top2.sw.size = top.sw.size := by rw [h2sw]; exact s1.2.2.2.2.2
    have h2node : ∀ c, swNode top2 c = if c = tid then n1 else swNode top c := by
      intro c
      have : swNode top2 c = swNode top1 c := by unfold swNode; rw [h2sw]
      rw [this, swNode_setNode]
      simp only [ht, and_true]
    have h2next : swNext top2 = swNext top := by
      funext c
      unfold swNext
      rw [h2node]
      split
      · rename_i h; rw [h]
      · rfl
    have h2freed : ∀ c, swFreed top2 c = swFreed top c := by
      intro c; unfold swFreed; rw [h2x, h2st]
    have h2handler : top2.swHandler = (top.swFirst.isNone || top.swHandler) := by
      show (if _ then _ else _ : Top).swHandler = _
      rw [s1.1]
      split
      · rename_i h; simp [h]
      · rename_i h
        have : top.swFirst.isNone = false := Bool.eq_false_iff.2 h
        rw [this]; exact s1.2.1
    have hfuel : swFuel top2 = swFuel top := by unfold swFuel; rw [h2size]
    -- the walk
    have hwalk := swAppend_spec top2 tid l (swFuel top2) none top2.swFirst
      (by rw [h2next, h2first]; exact inv.chain) (fun c hc => by rw [h2freed]; exact hl c hc) (by rw [hfuel]; exact inv.fuel)
    show ∃ l', SwInv (swAppend top2 tid (swFuel top2) none top2.swFirst) l' ∧ _
    rw [hwalk]
    have hptr : ∀ p, lastPtr none l = some p → p < top2.sw.size := by
      intro p hp
      cases l with
      | nil => cases hp
      | cons c r =>
        obtain ⟨q, hq, hqm⟩ := lastPtr_some c r
        simp only [lastPtr] at hp
        rw [hq] at hp; cases hp
        rw [h2size]; exact (inv.mem _ hqm).1
    have hch := chain_append (first := top2.swFirst) (next := swNext top2) (tid := tid) (by rw [h2next]; exact hnext) l none
      (by rw [h2next, h2first]; exact inv.chain) hnl inv.nodup (by intro p hp; cases hp)
    have ss := swStore_same top2 (lastPtr none l) (some tid)
    refine ⟨l ++ [tid], ⟨?_, ?_, ?_, ?_, ?_, ?_, ?_, by rw [ss.2.1, h2x]; exact inv.xapp⟩, by rw [ss.2.2.1, h2fail], by rw [ss.2.2.2.1, h2st], by rw [ss.2.1, h2x], ?_⟩
    · rw [swStore_next _ _ _ hptr, swStore_first]
      exact hch
    · rw [List.nodup_append]
      exact ⟨inv.nodup, by simp, by intro a ha b hb; simp at hb; subst hb; intro h; subst h; exact hnl ha⟩
    · intro c hc
      rw [ss.2.2.2.2, h2size, swStore_obs]
      unfold swObs
      rw [h2node]
      simp only [List.mem_append, List.mem_singleton] at hc
      rcases hc with hc | hc
      · refine ⟨(inv.mem c hc).1, ?_⟩
        split
        · rfl
        · exact (inv.mem c hc).2
      · subst hc
        exact ⟨ht, by simp [n1]⟩
    · intro c hc
      simp only [List.mem_append, List.mem_singleton, not_or] at hc
      rw [swStore_next _ _ _ hptr, swStore_obs]
      refine ⟨?_, ?_⟩
      · -- the link written lies inside the old list or is `first`
        have hsn : storeNext (swNext top2) (lastPtr none l) (some tid) c = swNext top2 c := by
          cases l with
          | nil => rfl
          | cons d r =>
            obtain ⟨q, hq, hqm⟩ := lastPtr_some d r
            simp only [lastPtr]
            rw [hq]
            simp only [storeNext]
            rw [if_neg]
            intro h; subst h
            exact hc.1 hqm
        rw [hsn, h2next]
        exact (inv.out c hc.1).1
      · unfold swObs
        rw [h2node, if_neg hc.2]
        exact (inv.out c hc.1).2
    · intro c hc h0
      rw [swFreed_store, h2freed]
      simp only [List.mem_append, List.mem_singleton] at hc
      rcases hc with hc | hc
      · exact inv.live c hc h0
      · subst hc; exact hlive h0
    · rw [ss.2.2.2.2, h2size, ss.2.1, h2x]; exact inv.size
    · rw [ss.1, swStore_first, h2handler]
      have hh := inv.handler
      cases l with
      | nil =>
        have : top.swFirst = none := ChainF.nil_iff.1 inv.chain
        simp [lastPtr, storeFirst, this]
      | cons d r =>
        obtain ⟨q, hq, _⟩ := lastPtr_some d r
        have hf : top.swFirst = some d := (ChainF.cons_iff.1 inv.chain).1
        simp only [lastPtr]
        rw [hq]
        simp only [storeFirst, h2first, hf, Option.isNone_some, Bool.false_or, Option.isSome_some]
        rw [hh, hf]; rfl
    · intro c; simp

/-- `tickit_term_observe_sigwinch(tt, false)` with the unlinked terminal's link reset. -/
theorem swUnobserve_ok {tc : TCfg} (hc : tc.sigwinchClearsNext = true) {top : Top} {l : List Nat} (inv : SwInv top l) {tid : Nat}
    (hl : ∀ c ∈ l, c ≠ tid → swFreed top c = false) (hfail : top.fail = none) :
    ∃ l', SwInv (swUnobserve tc top tid) l' ∧ (swUnobserve tc top tid).fail = none ∧ (swUnobserve tc top tid).st = top.st ∧
      (swUnobserve tc top tid).xterms = top.xterms ∧ (∀ c, c ∈ l' ↔ c ∈ l ∧ c ≠ tid) := by
  unfold swUnobserve
  by_cases ho : (swNode top tid).obs = true
  rotate_left
  · have hc1 : (!(swNode top tid).obs) = true := by
      cases h : (swNode top tid).obs
      · rfl
      · exact absurd h ho
    rw [if_pos hc1]
    refine ⟨l, inv, hfail, rfl, rfl, ?_⟩
    intro c
    constructor
    · intro h
      refine ⟨h, ?_⟩
      intro e; subst e
      have := (inv.mem c h).2
      unfold swObs at this
      exact ho this
    · exact fun h => h.1
  · have hc1 : ¬ (!(swNode top tid).obs) = true := by rw [ho]; simp
    rw [if_neg hc1]
    have hm : tid ∈ l := by
      apply Classical.byContradiction
      intro hn
      have := (inv.out tid hn).2
      unfold swObs at this
      rw [this] at ho; cases ho
    obtain ⟨pre, post, hsplit⟩ := List.append_of_mem hm
    subst hsplit
    have hnd := inv.nodup
    have htpre : tid ∉ pre := by
      intro h
      have := (List.nodup_append.1 hnd).2.2 tid h tid (by simp)
      exact this rfl
    have htpost : tid ∉ post := by
      have := (List.nodup_append.1 hnd).2.1
      exact (List.nodup_cons.1 this).1
    have hwalk := swUnlink_spec top tid post pre (swFuel top) none top.swFirst inv.chain
      (fun c hc => hl c (by simp [hc]) (fun e => htpre (e ▸ hc))) htpre
      (by have := inv.fuel; simp at this; omega)
    rw [hwalk]
    have ss := swStore_same top (lastPtr none pre) (swNext top tid)
    have hnf : ¬ (swStore top (lastPtr none pre) (swNext top tid)).fail.isSome = true := by rw [ss.2.2.1, hfail]; simp
    dsimp only
    rw [if_neg hnf]
    have hptr : ∀ p, lastPtr none pre = some p → p < top.sw.size := by
      intro p hp
      cases pre with
      | nil => cases hp
      | cons c r =>
        obtain ⟨q, hq, hqm⟩ := lastPtr_some c r
        simp only [lastPtr] at hp
        rw [hq] at hp; cases hp
        exact (inv.mem _ (by simp at hqm ⊢; rcases hqm with h | h <;> simp [h])).1
    have hch := chain_unlink (first := top.swFirst) (next := swNext top) (tid := tid) post pre none inv.chain hnd
      (by intro p hp; cases hp)
    -- the state after the walk, the handler, and the reset of the unlinked terminal
    let topS := swStore top (lastPtr none pre) (swNext top tid)
    let top3 : Top := if topS.swFirst.isNone then { topS with swHandler := false } else topS
    have h3sw : top3.sw = topS.sw := by show (if _ then _ else _ : Top).sw = _; split <;> rfl
    have h3first : top3.swFirst = topS.swFirst := by show (if _ then _ else _ : Top).swFirst = _; split <;> rfl
    have h3x : top3.xterms = top.xterms := by show (if _ then _ else _ : Top).xterms = _; split <;> exact ss.2.1
    have h3fail : top3.fail = none := by
      show (if _ then _ else _ : Top).fail = _
      split
      · show topS.fail = none; rw [ss.2.2.1]; exact hfail
      · show topS.fail = none; rw [ss.2.2.1]; exact hfail
    have h3st : top3.st = top.st := by show (if _ then _ else _ : Top).st = _; split <;> exact ss.2.2.2.1
    have h3size : top3.sw.size = top.sw.size := by rw [h3sw]; exact ss.2.2.2.2
    have h3node : ∀ c, swNode top3 c = swNode topS c := by intro c; unfold swNode; rw [h3sw]
    have h3handler : top3.swHandler = topS.swFirst.isSome := by
      show (if _ then _ else _ : Top).swHandler = _
      split
      · rename_i h
        cases hf : topS.swFirst with
        | none => rfl
        | some _ => rw [hf] at h; cases h
      · rename_i h
        have h' : topS.swFirst.isSome = true := by cases hf : topS.swFirst <;> simp_all
        rw [h']
        show topS.swHandler = true
        rw [ss.1, inv.handler]
        -- the first link survives unless the first terminal was the one unlinked
        have hfirst : topS.swFirst = storeFirst top.swFirst (lastPtr none pre) (swNext top tid) := swStore_first _ _ _
        cases pre with
        | nil =>
          have : top.swFirst = some tid := (ChainF.cons_iff.1 inv.chain).1
          rw [this]; rfl
        | cons d r =>
          have : top.swFirst = some d := (ChainF.cons_iff.1 inv.chain).1
          rw [this]; rfl
    let n3 : SwNode := { swNode top3 tid with obs := false, next := if tc.sigwinchClearsNext then none else (swNode top3 tid).next }
    show ∃ l', SwInv (swSetNode top3 tid n3) l' ∧ (swSetNode top3 tid n3).fail = none ∧ (swSetNode top3 tid n3).st = top.st ∧
      (swSetNode top3 tid n3).xterms = top.xterms ∧ _
    have s4 := swSetNode_same top3 tid n3
    have htlt : tid < top3.sw.size := by rw [h3size]; exact (inv.mem tid hm).1
    have h4node : ∀ c, swNode (swSetNode top3 tid n3) c = if c = tid then n3 else swNode topS c := by
      intro c
      rw [swNode_setNode]
      simp only [htlt, and_true, h3node]
    have hSnext : swNext topS = storeNext (swNext top) (lastPtr none pre) (swNext top tid) := swStore_next _ _ _ hptr
    have hSobs : swObs topS = swObs top := swStore_obs _ _ _
    refine ⟨pre ++ post, ⟨?_, ?_, ?_, ?_, ?_, ?_, ?_, by rw [s4.2.2.1, h3x]; exact inv.xapp⟩, by rw [s4.2.2.2.1]; exact h3fail, by rw [s4.2.2.2.2.1]; exact h3st,
      by rw [s4.2.2.1]; exact h3x, ?_⟩
    · rw [s4.1, h3first, swStore_first]
      refine ChainF.congr hch ?_
      intro c hcm
      have hct : c ≠ tid := by
        intro e; subst e
        simp only [List.mem_append] at hcm
        rcases hcm with h | h
        · exact htpre h
        · exact htpost h
      unfold swNext
      rw [h4node, if_neg hct]
      show swNext topS c = _
      rw [hSnext]
      rfl
    · have h1 := (List.nodup_append.1 hnd)
      rw [List.nodup_append]
      refine ⟨h1.1, (List.nodup_cons.1 h1.2.1).2, ?_⟩
      intro a ha b hb
      exact h1.2.2 a ha b (by simp [hb])
    · intro c hcm
      have hcl : c ∈ pre ++ tid :: post := by
        simp only [List.mem_append, List.mem_cons] at hcm ⊢
        rcases hcm with h | h
        · exact .inl h
        · exact .inr (.inr h)
      have hct : c ≠ tid := by
        intro e; subst e
        simp only [List.mem_append] at hcm
        rcases hcm with h | h
        · exact htpre h
        · exact htpost h
      rw [s4.2.2.2.2.2, h3size]
      refine ⟨(inv.mem c hcl).1, ?_⟩
      unfold swObs
      rw [h4node, if_neg hct]
      show swObs topS c = true
      rw [hSobs]
      exact (inv.mem c hcl).2
    · intro c hcm
      by_cases hct : c = tid
      · subst hct
        unfold swNext swObs
        rw [h4node, if_pos rfl]
        exact ⟨by simp [n3, hc], rfl⟩
      · have hcl : c ∉ pre ++ tid :: post := by
          intro h
          apply hcm
          simp only [List.mem_append, List.mem_cons] at h ⊢
          rcases h with h | h | h
          · exact .inl h
          · exact absurd h hct
          · exact .inr h
        unfold swNext swObs
        rw [h4node, if_neg hct]
        show swNext topS c = none ∧ swObs topS c = false
        rw [hSnext, hSobs]
        refine ⟨?_, (inv.out c hcl).2⟩
        have : storeNext (swNext top) (lastPtr none pre) (swNext top tid) c = swNext top c := by
          cases pre with
          | nil => rfl
          | cons d r =>
            obtain ⟨q, hq, hqm⟩ := lastPtr_some d r
            simp only [lastPtr]
            rw [hq]
            simp only [storeNext]
            rw [if_neg]
            intro h; subst h
            apply hcl
            simp only [List.mem_append, List.mem_cons] at hqm ⊢
            rcases hqm with h | h
            · exact .inl (.inl h)
            · exact .inl (.inr h)
        rw [this]
        exact (inv.out c hcl).1
    · intro c hcm h0
      have hcl : c ∈ pre ++ tid :: post := by
        simp only [List.mem_append, List.mem_cons] at hcm ⊢
        rcases hcm with h | h
        · exact .inl h
        · exact .inr (.inr h)
      show swFreed (swSetNode top3 tid n3) c = false
      rw [swFreed_setNode]
      have : swFreed top3 c = swFreed top c := by unfold swFreed; rw [h3x, h3st]
      rw [this]
      exact inv.live c hcl h0
    · rw [s4.2.2.2.2.2, h3size, s4.2.2.1, h3x]; exact inv.size
    · rw [s4.2.1, s4.1, h3handler, h3first]
    · intro c
      simp only [List.mem_append, List.mem_cons]
      constructor
      · rintro (h | h)
        · exact ⟨.inl h, fun e => htpre (e ▸ h)⟩
        · exact ⟨.inr (.inr h), fun e => htpost (e ▸ h)⟩
      · rintro ⟨h | h | h, hne⟩
        · exact .inl h
        · exact absurd h hne
        · exact .inr h

/-! ### between operations -/

/-- The chain invariant alone (the main terminal may have been freed and still be listed: the state between the
    lower layers' release of the terminal and `Top.swSync`). -/
def SwPre (top : Top) : Prop := top.fail = none ∧ ∃ l, SwInv top l

theorem SwOk.pre {top : Top} (h : SwOk top) : SwPre top := ⟨h.1, h.2.imp fun _ hl => hl.1⟩

theorem SwPre.of_same {a b : Top} (h : SwPre a) (s : SwSame a b) : SwPre b :=
  ⟨by rw [s.fail]; exact h.1, h.2.imp fun _ hl => hl.of_same s⟩

/-- A change that leaves the list, the further terminals and the main terminal's liveness alone. -/
theorem SwOk.of_same {a b : Top} (h : SwOk a) (s : SwSame a b) (ht : b.st.term.freed = true → a.st.term.freed = true) : SwOk b := by
  obtain ⟨hf, l, inv, h0⟩ := h
  exact ⟨by rw [s.fail]; exact hf, l, inv.of_same s, fun hb => h0 (ht hb)⟩

theorem SwInv.of_nodes {a b : Top} {l : List Nat} (inv : SwInv a l) (hn : ∀ c, swNode b c = swNode a c)
    (hsz : a.sw.size ≤ b.sw.size) (hf : b.swFirst = a.swFirst) (hh : b.swHandler = a.swHandler)
    (hs : b.sw.size = b.xterms.size + 1) (hlive : ∀ c ∈ l, c ≠ 0 → swFreed b c = false)
    (hxa : ∀ (k : Nat) (x : XTerm), b.xterms[k]? = some x → x.freed = false → 1 ≤ x.appRefs) : SwInv b l := by
  have hnx : swNext b = swNext a := by funext c; unfold swNext; rw [hn]
  have hob : swObs b = swObs a := by funext c; unfold swObs; rw [hn]
  refine ⟨by rw [hnx, hf]; exact inv.chain, inv.nodup, ?_, ?_, hlive, hs, by rw [hh, hf]; exact inv.handler, hxa⟩
  · intro c hc
    rw [hob]
    exact ⟨Nat.lt_of_lt_of_le (inv.mem c hc).1 hsz, (inv.mem c hc).2⟩
  · intro c hc
    rw [hnx, hob]
    exact inv.out c hc

theorem swOk_signal {top : Top} (h : SwOk top) : swSignal top = top := by
  obtain ⟨_, l, inv, h0⟩ := h
  exact swSignal_ok inv (inv.allLive h0)

/-- Observing on a terminal the application holds. -/
theorem swOk_observe {top : Top} (h : SwOk top) {tid : Nat} (ht : tid < top.sw.size)
    (hlive : swFreed top tid = false) : SwOk (swObserve top tid) ∧ (swObserve top tid).st = top.st ∧
      (swObserve top tid).xterms = top.xterms := by
  obtain ⟨hf, l, inv, h0⟩ := h
  obtain ⟨l', inv', hfail, hst, hx, hmem⟩ := swObserve_ok inv (inv.allLive h0) ht (fun _ => hlive)
  refine ⟨⟨by rw [hfail]; exact hf, l', inv', ?_⟩, hst, hx⟩
  intro hfr hm
  rw [hst] at hfr
  rcases (hmem 0).1 hm with hm | hm
  · exact h0 hfr hm
  · subst hm
    unfold swFreed at hlive
    simp only [if_true] at hlive
    rw [hlive] at hfr; cases hfr

/-- Stopping the observation. -/
theorem swOk_unobserve {tc : TCfg} (hc : tc.sigwinchClearsNext = true) {top : Top} (h : SwOk top) (tid : Nat) :
    SwOk (swUnobserve tc top tid) ∧ (swUnobserve tc top tid).st = top.st ∧ (swUnobserve tc top tid).xterms = top.xterms ∧
      swObs (swUnobserve tc top tid) tid = false := by
  obtain ⟨hf, l, inv, h0⟩ := h
  obtain ⟨l', inv', hfail, hst, hx, hmem⟩ := swUnobserve_ok hc inv (tid := tid) (fun c hc' _ => inv.allLive h0 c hc') hf
  refine ⟨⟨hfail, l', inv', ?_⟩, hst, hx, (inv'.out tid (fun hm => ((hmem tid).1 hm).2 rfl)).2⟩
  intro hfr hm
  rw [hst] at hfr
  exact h0 hfr ((hmem 0).1 hm).1

/-- `tickit_term_destroy` of the main terminal has run in the lower layers: the terminal leaves the list. -/
theorem swSync_ok {tc : TCfg} (hc : tc.sigwinchClearsNext = true) {top : Top} (h : SwPre top) :
    SwOk (top.swSync tc) ∧ (top.swSync tc).st = top.st ∧ (top.swSync tc).xterms = top.xterms := by
  obtain ⟨hf, l, inv⟩ := h
  unfold Top.swSync
  have : ¬ top.fail.isSome = true := by rw [hf]; simp
  rw [if_neg this]
  by_cases hfr : top.st.term.freed = true
  · by_cases ho : (swNode top 0).obs = true
    · have : (top.st.term.freed && (swNode top 0).obs) = true := by rw [hfr, ho]; rfl
      rw [if_pos this]
      obtain ⟨l', inv', hfail, hst, hx, hmem⟩ := swUnobserve_ok hc inv (tid := 0) (fun c hc' hne => inv.live c hc' hne) hf
      exact ⟨⟨hfail, l', inv', fun _ hm => ((hmem 0).1 hm).2 rfl⟩, hst, hx⟩
    · have : ¬ (top.st.term.freed && (swNode top 0).obs) = true := by
        intro h'; rw [Bool.and_eq_true] at h'; exact ho h'.2
      rw [if_neg this]
      refine ⟨⟨hf, l, inv, fun _ hm => ?_⟩, rfl, rfl⟩
      have := (inv.mem 0 hm).2
      unfold swObs at this
      exact ho this
  · have : ¬ (top.st.term.freed && (swNode top 0).obs) = true := by
      intro h'; rw [Bool.and_eq_true] at h'; exact hfr h'.1
    rw [if_neg this]
    exact ⟨⟨hf, l, inv, fun h' => absurd h' hfr⟩, rfl, rfl⟩

/-- The application drops a reference to a further terminal; the last one destroys it (`tickit_term_destroy` stops
    the observation before anything is freed). -/
theorem swOk_xUnref {tc : TCfg} (hc : tc.sigwinchClearsNext = true) {top : Top} (h : SwOk top) (k : Nat) :
    SwOk (xUnref tc top k) ∧ (xUnref tc top k).st = top.st := by
  unfold xUnref
  cases hx : top.xterms[k]? with
  | none => exact ⟨h, rfl⟩
  | some x =>
    simp only
    by_cases h1 : x.appRefs > 1
    · rw [if_pos h1]
      refine ⟨?_, rfl⟩
      obtain ⟨hf, l, inv, h0⟩ := h
      refine ⟨hf, l, inv.of_nodes (fun _ => rfl) (Nat.le_refl _) rfl rfl ?_ ?_ (by
        intro j y hy hyf
        have hy' : (top.xterms.setIfInBounds k { x with appRefs := x.appRefs - 1 })[j]? = some y := hy
        rw [Array.getElem?_setIfInBounds] at hy'
        split at hy'
        · split at hy'
          · cases hy'; show 1 ≤ x.appRefs - 1; omega
          · cases hy'
        · exact inv.xapp j y hy' hyf), h0⟩
      · show top.sw.size = (top.xterms.setIfInBounds k _).size + 1
        rw [Array.size_setIfInBounds]; exact inv.size
      · intro c hcm h0'
        have := inv.live c hcm h0'
        unfold swFreed at this ⊢
        simp only [h0', if_false] at this ⊢
        show (((top.xterms.setIfInBounds k { x with appRefs := x.appRefs - 1 })[c - 1]?).map (fun (x : XTerm) => x.freed)).getD true = false
        rw [Array.getElem?_setIfInBounds]
        split
        · rename_i hk
          split
          · rename_i hk2
            rw [← hk] at this
            rw [hx] at this
            exact this
          · rename_i hk2
            have : top.xterms[c - 1]? = none := by apply Array.getElem?_eq_none; omega
            rw [← hk] at this; rw [hx] at this; cases this
        · exact this
    · rw [if_neg h1]
      obtain ⟨hok, hst, hxt, hobs⟩ := swOk_unobserve hc h (k + 1)
      obtain ⟨hf, l, inv, h0⟩ := hok
      have : ¬ (swUnobserve tc top (k + 1)).fail.isSome = true := by rw [hf]; simp
      rw [if_neg this]
      refine ⟨⟨hf, l, inv.of_nodes (fun _ => rfl) (Nat.le_refl _) rfl rfl ?_ ?_ (by
        intro j y hy hyf
        have hy' : ((swUnobserve tc top (k + 1)).xterms.setIfInBounds k { x with appRefs := 0, freed := true })[j]? = some y := hy
        rw [Array.getElem?_setIfInBounds] at hy'
        split at hy'
        · split at hy'
          · cases hy'; cases hyf
          · cases hy'
        · exact inv.xapp j y hy' hyf), h0⟩, hst⟩
      · show (swUnobserve tc top (k + 1)).sw.size = ((swUnobserve tc top (k + 1)).xterms.setIfInBounds k _).size + 1
        rw [Array.size_setIfInBounds]; exact inv.size
      · intro c hcm h0'
        have hck : c ≠ k + 1 := by
          intro e; subst e
          have := (inv.mem _ hcm).2
          rw [hobs] at this; cases this
        have := inv.live c hcm h0'
        unfold swFreed at this ⊢
        simp only [h0', if_false] at this ⊢
        show ((((swUnobserve tc top (k + 1)).xterms.setIfInBounds k { x with appRefs := 0, freed := true })[c - 1]?).map
          (fun (x : XTerm) => x.freed)).getD true = false
        rw [Array.getElem?_setIfInBounds]
        have : ¬ k = c - 1 := by omega
        rw [if_neg this]
        assumption

/-- A further terminal is created (`xnew`). -/
theorem swOk_xnew {top : Top} (h : SwOk top) :
    SwOk { top with xterms := top.xterms.push {}, sw := top.sw ++ Array.replicate (top.xterms.size + 2 - top.sw.size) {} } := by
  obtain ⟨hf, l, inv, h0⟩ := h
  refine ⟨hf, l, inv.of_nodes ?_ ?_ rfl rfl ?_ ?_ (by
    intro j y hy hyf
    have hy' : (top.xterms.push {})[j]? = some y := hy
    rw [Array.getElem?_push] at hy'
    split at hy'
    · cases hy'; exact Nat.le_refl 1
    · exact inv.xapp j y hy' hyf), h0⟩
  · intro c
    unfold swNode
    show ((top.sw ++ Array.replicate (top.xterms.size + 2 - top.sw.size) ({} : SwNode))[c]?).getD {} = (top.sw[c]?).getD {}
    by_cases hlt : c < top.sw.size
    · rw [Array.getElem?_append_left hlt]
    · have h1 : top.sw[c]? = none := by apply Array.getElem?_eq_none; omega
      rw [h1]
      rw [Array.getElem?_append_right (by omega)]
      by_cases h2 : c - top.sw.size < top.xterms.size + 2 - top.sw.size
      · rw [Array.getElem?_replicate]
        simp [h2]
      · rw [Array.getElem?_eq_none (by simp; omega)]
  · show top.sw.size ≤ (top.sw ++ Array.replicate (top.xterms.size + 2 - top.sw.size) ({} : SwNode)).size
    simp
  · show (top.sw ++ Array.replicate (top.xterms.size + 2 - top.sw.size) ({} : SwNode)).size = (top.xterms.push {}).size + 1
    have := inv.size
    simp
    omega
  · intro c hcm h0'
    have := inv.live c hcm h0'
    have hlt := (inv.mem c hcm).1
    have hs := inv.size
    unfold swFreed at this ⊢
    simp only [h0', if_false] at this ⊢
    show ((((top.xterms.push {})[c - 1]?).map (fun (x : XTerm) => x.freed)).getD true) = false
    rw [Array.getElem?_push_lt (by omega)]
    rw [Array.getElem?_eq_getElem (by omega)] at this
    exact this

/-- `tickit_term_ref` on a further terminal (`xref`). -/
theorem swOk_xref {top : Top} (h : SwOk top) (k : Nat) :
    SwOk { top with xterms := top.xterms.modify k (fun x => { x with appRefs := x.appRefs + 1 }) } := by
  obtain ⟨hf, l, inv, h0⟩ := h
  refine ⟨hf, l, inv.of_nodes (fun _ => rfl) (Nat.le_refl _) rfl rfl ?_ ?_ (by
    intro j y hy hyf
    have hy' : (top.xterms.modify k (fun x => { x with appRefs := x.appRefs + 1 }))[j]? = some y := hy
    rw [Array.getElem?_modify] at hy'
    split at hy'
    · cases hx : top.xterms[j]? with
      | none => rw [hx] at hy'; cases hy'
      | some x => rw [hx] at hy'; cases hy'; show 1 ≤ x.appRefs + 1; omega
    · exact inv.xapp j y hy' hyf), h0⟩
  · show top.sw.size = (top.xterms.modify k _).size + 1
    rw [Array.size_modify]; exact inv.size
  · intro c hcm h0'
    have := inv.live c hcm h0'
    unfold swFreed at this ⊢
    simp only [h0', if_false] at this ⊢
    show ((((top.xterms.modify k (fun x => { x with appRefs := x.appRefs + 1 }))[c - 1]?).map (fun (x : XTerm) => x.freed)).getD true) = false
    rw [Array.getElem?_modify]
    split
    · cases hx : top.xterms[c - 1]? with
      | none => rw [hx] at this; cases this
      | some x => rw [hx] at this; exact this
    · exact this

/-! ### the SIGWINCH machinery touches nothing else -/

/-- Everything outside the SIGWINCH machinery is unchanged. -/
structure NonSw (a b : Top) : Prop where
  st : b.st = a.st
  mock : b.mock = a.mock
  screen : b.screen = a.screen
  printed : b.printed = a.printed
  hasFd : b.hasFd = a.hasFd
  tbinds : b.tbinds = a.tbinds
  nTB : b.nTB = a.nTB
  pendingEsc : b.pendingEsc = a.pendingEsc
  timeoutAt : b.timeoutAt = a.timeoutAt
  now : b.now = a.now
  held : b.held = a.held
  inst : b.inst = a.inst
  inputDead : b.inputDead = a.inputDead
  dangling : b.dangling = a.dangling
  size : b.size = a.size

theorem NonSw.refl (a : Top) : NonSw a a := ⟨rfl, rfl, rfl, rfl, rfl, rfl, rfl, rfl, rfl, rfl, rfl, rfl, rfl, rfl, rfl⟩

theorem NonSw.trans {a b c : Top} (h1 : NonSw a b) (h2 : NonSw b c) : NonSw a c :=
  ⟨h2.st.trans h1.st, h2.mock.trans h1.mock, h2.screen.trans h1.screen, h2.printed.trans h1.printed, h2.hasFd.trans h1.hasFd,
   h2.tbinds.trans h1.tbinds, h2.nTB.trans h1.nTB, h2.pendingEsc.trans h1.pendingEsc, h2.timeoutAt.trans h1.timeoutAt,
   h2.now.trans h1.now, h2.held.trans h1.held, h2.inst.trans h1.inst, h2.inputDead.trans h1.inputDead,
   h2.dangling.trans h1.dangling, h2.size.trans h1.size⟩

macro "nonsw_rfl" : tactic => `(tactic| exact ⟨rfl, rfl, rfl, rfl, rfl, rfl, rfl, rfl, rfl, rfl, rfl, rfl, rfl, rfl, rfl⟩)

theorem nonSw_setNode (top : Top) (p : Nat) (n : SwNode) : NonSw top (swSetNode top p n) := by nonsw_rfl

theorem nonSw_store (top : Top) (tailp v : Option Nat) : NonSw top (swStore top tailp v) := by
  cases tailp <;> nonsw_rfl

theorem nonSw_append (top : Top) (tid : Nat) : ∀ (fuel : Nat) (tailp cur : Option Nat), NonSw top (swAppend top tid fuel tailp cur)
  | 0, _, _ => by nonsw_rfl
  | _ + 1, tailp, none => nonSw_store top tailp _
  | fuel + 1, _, some c => by
    unfold swAppend
    split
    · nonsw_rfl
    · exact nonSw_append top tid fuel _ _

theorem nonSw_unlink (top : Top) (tid : Nat) : ∀ (fuel : Nat) (tailp cur : Option Nat), NonSw top (swUnlink top tid fuel tailp cur)
  | 0, _, _ => by nonsw_rfl
  | _ + 1, _, none => by nonsw_rfl
  | fuel + 1, tailp, some c => by
    unfold swUnlink
    split
    · exact nonSw_store top tailp _
    · split
      · nonsw_rfl
      · exact nonSw_unlink top tid fuel _ _

theorem nonSw_observe (top : Top) (tid : Nat) : NonSw top (swObserve top tid) := by
  unfold swObserve
  split
  · nonsw_rfl
  · refine NonSw.trans (b := swSetNode top tid { swNode top tid with obs := true }) (nonSw_setNode _ _ _) ?_
    refine NonSw.trans ?_ (nonSw_append _ _ _ _ _)
    split <;> nonsw_rfl

theorem nonSw_unobserve (tc : TCfg) (top : Top) (tid : Nat) : NonSw top (swUnobserve tc top tid) := by
  unfold swUnobserve
  split
  · nonsw_rfl
  · dsimp only
    split
    · exact nonSw_unlink _ _ _ _ _
    · refine NonSw.trans (nonSw_unlink top tid (swFuel top) none top.swFirst) ?_
      refine NonSw.trans ?_ (nonSw_setNode _ _ _)
      split <;> nonsw_rfl

theorem nonSw_swSync (tc : TCfg) (top : Top) : NonSw top (top.swSync tc) := by
  unfold Top.swSync
  split
  · nonsw_rfl
  · split
    · exact nonSw_unobserve tc top 0
    · nonsw_rfl

theorem nonSw_xUnref (tc : TCfg) (top : Top) (k : Nat) : NonSw top (xUnref tc top k) := by
  unfold xUnref
  split
  · nonsw_rfl
  · split
    · nonsw_rfl
    · dsimp only
      split
      · exact nonSw_unobserve tc top (k + 1)
      · exact NonSw.trans (nonSw_unobserve tc top (k + 1)) (by nonsw_rfl)

theorem nonSw_signal (top : Top) : NonSw top (swSignal top) := by
  have go : ∀ (fuel : Nat) (cur : Option Nat), NonSw top (swSignal.go top fuel cur) := by
    intro fuel
    induction fuel with
    | zero => intro _; nonsw_rfl
    | succ f ih =>
      intro cur
      cases cur with
      | none => nonsw_rfl
      | some c =>
        unfold swSignal.go
        split
        · nonsw_rfl
        · exact ih _
  unfold swSignal
  split
  · exact go _ _
  · nonsw_rfl

end Tickit.Life
