import Tickit.Model.WinFlush
import Tickit.Model.WinSpec
import Tickit.Proof.WinRB
/-
  The invariant of `_do_expose` (`WinFlush.doExpose` / `doChildren`): by induction on the window tree,

    * the cells the buffer lets the handler of a window touch are exactly the cells that window owns in the painter's
      model, inside what was writable on entry (`ExposeOk.sound`, `ExposeOk.complete`);
    * nothing outside the entry-writable set changes (`ExposeOk.frame`);
    * when every handler invocation repaints what it is asked to in the buffer it finds (`RepaintsAt` of every `Shot`:
      implied by the proviso `Repaints`, and by the pen-aware `RepaintsP` with the pen invariant of `Proof/WinPen.lean`),
      every entry-writable cell ends up holding the content of its owner (`ExposeOk.contentAt`, `ExposeOk.content`);
    * the save/restore stack is left as found and only masks of the current depth or deeper are added.
-/
namespace Tickit
namespace WinFlush
open WinTree WinRB WinSpec

theorem get_ok {t : Tree} {id : Id} {w : Win} (h : WinTree.get t id = .ok w) : t.wins[id]? = some w ∧ w.freed = false := by
  unfold WinTree.get at h
  split at h
  · cases h
  · split at h
    · cases h
    · rename_i w' hw hf
      cases h
      exact ⟨hw, by simpa using hf⟩

/-- `ownerLoc` in terms of `ownerSub`. -/
theorem ownerLoc_eq (t : Tree) (fuel : Nat) (id : Id) (w : Win) (hw : t.wins[id]? = some w) (l c : Int) :
    ownerLoc t fuel id l c =
      if fuel = 0 ∨ w.isVisible = false ∨ w.freed = true ∨ w.rect.memb l c = false then none
      else some (ownerSub t fuel id (l - w.rect.top) (c - w.rect.left)) := by
  cases fuel with
  | zero => simp [ownerLoc]
  | succ n =>
    simp only [ownerLoc, hw, ownerSub]
    cases hv : w.isVisible <;> cases hf : w.freed <;> cases hm : w.rect.memb l c <;> simp
    split <;> simp_all

/-- One handler invocation repaints what it was asked to: the window's program, run on the buffer *as the handler found
    it*, leaves the window's content in every cell of the handed rectangle the buffer lets it touch. -/
def RepaintsAt (content : Id → Int → Int → Cell) (beh : Id → Rect → List DrawOp) (sh : Shot) : Prop :=
  ∀ (L C : Int), sh.rb.writable L C = true → sh.rect.memb (L - sh.rb.xl) (C - sh.rb.xc) = true →
    (sh.rb.run (beh sh.win sh.rect)).cells L C = some (.plain (content sh.win (L - sh.rb.xl) (C - sh.rb.xc)))

theorem repaintsAt_of_repaints {content : Id → Int → Int → Cell} {beh : Id → Rect → List DrawOp} (h : Repaints content beh)
    (sh : Shot) : RepaintsAt content beh sh :=
  fun L C hw hm => h sh.win sh.rect sh.rb L C hw hm

/-- What `doExpose fuel win rect s = .ok s'` guarantees. -/
structure ExposeOk (t : Tree) (beh : Id → Rect → List DrawOp) (content : Id → Int → Int → Cell)
    (fuel : Nat) (win : Id) (s s' : RB × List Shot) : Prop where
  shots : ∃ new, s'.2 = s.2 ++ new ∧
    (∀ sh ∈ new, ∀ L C, sh.rb.writable L C = true →
      s.1.writable L C = true ∧ ownerSub t fuel win (L - s.1.xl) (C - s.1.xc) = (sh.win, L - sh.rb.xl, C - sh.rb.xc)) ∧
    (∀ L C, s.1.writable L C = true → ∃ sh ∈ new, sh.rb.writable L C = true)
  stack : s'.1.stack = s.1.stack
  masks : ∃ m, s'.1.masks = m ++ s.1.masks ∧ ∀ x ∈ m, s.1.stack.length ≤ x.2
  lines : s'.1.lines = s.1.lines
  cols : s'.1.cols = s.1.cols
  /-- every handler finds a buffer whose masks belong to levels not above the current one -/
  shotsMasks : (∀ sh ∈ s.2, MasksLe sh.rb) → ∀ sh ∈ s'.2, MasksLe sh.rb
  frame : ∀ L C, s.1.writable L C = false → s'.1.cells L C = s.1.cells L C
  contentAt : (∀ sh ∈ s'.2, RepaintsAt content beh sh) → ∀ L C, s.1.writable L C = true →
    s'.1.cells L C = some (.plain (content (ownerSub t fuel win (L - s.1.xl) (C - s.1.xc)).1
      (ownerSub t fuel win (L - s.1.xl) (C - s.1.xc)).2.1 (ownerSub t fuel win (L - s.1.xl) (C - s.1.xc)).2.2))

theorem ExposeOk.content {t : Tree} {beh : Id → Rect → List DrawOp} {content : Id → Int → Int → Cell}
    {fuel : Nat} {win : Id} {s s' : RB × List Shot} (h : ExposeOk t beh content fuel win s s') :
    Repaints content beh → ∀ L C, s.1.writable L C = true →
    s'.1.cells L C = some (.plain (content (ownerSub t fuel win (L - s.1.xl) (C - s.1.xc)).1
      (ownerSub t fuel win (L - s.1.xl) (C - s.1.xc)).2.1 (ownerSub t fuel win (L - s.1.xl) (C - s.1.xc)).2.2)) :=
  fun hr => h.contentAt (fun sh _ => repaintsAt_of_repaints hr sh)

/-- The owner among the children `cs` of a window (front-most first). -/
def childOwner (t : Tree) (fuel : Nat) (cs : List Id) (l c : Int) : Option (Id × Int × Int) :=
  cs.findSome? (fun ch => ownerLoc t fuel ch l c)

/-- What the children loop guarantees. -/
structure LoopOk (t : Tree) (beh : Id → Rect → List DrawOp) (content : Id → Int → Int → Cell)
    (fuel : Nat) (cs : List Id) (s s' : RB × List Shot) : Prop where
  shots : ∃ new, s'.2 = s.2 ++ new ∧
    (∀ sh ∈ new, ∀ L C, sh.rb.writable L C = true →
      s.1.writable L C = true ∧ childOwner t fuel cs (L - s.1.xl) (C - s.1.xc) = some (sh.win, L - sh.rb.xl, C - sh.rb.xc)) ∧
    (∀ L C, s.1.writable L C = true → (childOwner t fuel cs (L - s.1.xl) (C - s.1.xc)).isSome = true →
      ∃ sh ∈ new, sh.rb.writable L C = true)
  stack : s'.1.stack = s.1.stack
  xl : s'.1.xl = s.1.xl
  xc : s'.1.xc = s.1.xc
  lines : s'.1.lines = s.1.lines
  cols : s'.1.cols = s.1.cols
  masks : ∃ m, s'.1.masks = m ++ s.1.masks ∧ ∀ x ∈ m, s.1.stack.length ≤ x.2
  masksLe : MasksLe s'.1
  writable : ∀ L C, s'.1.writable L C = (s.1.writable L C && (childOwner t fuel cs (L - s.1.xl) (C - s.1.xc)).isNone)
  /-- every handler finds a buffer whose masks belong to levels not above the current one -/
  shotsMasks : (∀ sh ∈ s.2, MasksLe sh.rb) → ∀ sh ∈ s'.2, MasksLe sh.rb
  frame : ∀ L C, s.1.writable L C = false → s'.1.cells L C = s.1.cells L C
  contentAt : (∀ sh ∈ s'.2, RepaintsAt content beh sh) → ∀ L C, s.1.writable L C = true →
    ∀ o, childOwner t fuel cs (L - s.1.xl) (C - s.1.xc) = some o → s'.1.cells L C = some (.plain (content o.1 o.2.1 o.2.2))

theorem LoopOk.content {t : Tree} {beh : Id → Rect → List DrawOp} {content : Id → Int → Int → Cell}
    {fuel : Nat} {cs : List Id} {s s' : RB × List Shot} (h : LoopOk t beh content fuel cs s s') :
    Repaints content beh → ∀ L C, s.1.writable L C = true →
    ∀ o, childOwner t fuel cs (L - s.1.xl) (C - s.1.xc) = some o → s'.1.cells L C = some (.plain (content o.1 o.2.1 o.2.2)) :=
  fun hr => h.contentAt (fun sh _ => repaintsAt_of_repaints hr sh)

theorem writable_congr {a b : RB} (hc : b.clip = a.clip) (hm : b.masks = a.masks) (L C : Int) :
    b.writable L C = a.writable L C := by
  simp only [RB.writable, RB.inClip, RB.masked, hc, hm]

theorem filter_masks {m old : List (Rect × Nat)} {n : Nat}
    (hm : ∀ x ∈ m, n + 1 ≤ x.2) (ho : ∀ x ∈ old, x.2 ≤ n) :
    (m ++ old).filter (fun x => decide (x.2 ≤ n)) = old := by
  rw [List.filter_append]
  have h1 : m.filter (fun x => decide (x.2 ≤ n)) = [] := by
    apply List.filter_eq_nil_iff.mpr
    intro x hx
    have := hm x hx
    simp; omega
  have h2 : old.filter (fun x => decide (x.2 ≤ n)) = old := by
    apply List.filter_eq_self.mpr
    intro x hx
    have := ho x hx
    simpa using this
  rw [h1, h2]; rfl

/-- The children loop, given the invariant of `_do_expose` one level down. -/
theorem doChildren_ok (t : Tree) (beh : Id → Rect → List DrawOp) (pens : Array (Option Pen))
    (content : Id → Int → Int → Cell) (fuel : Nat) (rect : Rect)
    (ih : ∀ (win : Id) (r : Rect) (s s' : RB × List Shot), doExpose beh t pens fuel win r s = .ok s' →
      MasksLe s.1 → (∀ L C, s.1.writable L C = true → r.memb (L - s.1.xl) (C - s.1.xc) = true) →
      ExposeOk t beh content fuel win s s') :
    ∀ (cs : List Id) (s s' : RB × List Shot),
      doChildren t (doExpose beh t pens fuel) rect cs s = .ok s' →
      MasksLe s.1 → (∀ L C, s.1.writable L C = true → rect.memb (L - s.1.xl) (C - s.1.xc) = true) →
      LoopOk t beh content fuel cs s s' := by
  intro cs
  induction cs with
  | nil =>
    intro s s' h hm _
    simp only [doChildren] at h
    cases h
    exact { shots := ⟨[], ⟨(by simp), ⟨fun sh hsh => (by cases hsh), fun L C _ h => (by simp [childOwner] at h)⟩⟩⟩
            stack := rfl, xl := rfl, xc := rfl, lines := rfl, cols := rfl
            masks := ⟨[], rfl, by intro x hx; cases hx⟩
            masksLe := hm
            writable := by intro L C; simp [childOwner]
            frame := by intro L C _; rfl
            shotsMasks := fun h => h
            contentAt := by intro _ L C _ o ho; simp [childOwner] at ho }
  | cons c cs ihcs =>
    intro s s' h hm hsub
    simp only [doChildren] at h
    cases hg : WinTree.get t c with
    | ub w => rw [hg] at h; cases h
    | ok cw =>
      rw [hg] at h
      have hcw := get_ok hg
      simp only [bind, Bind.bind] at h
      -- owner of a cell among `c :: cs`
      have hown : ∀ l k, childOwner t fuel (c :: cs) l k =
          match ownerLoc t fuel c l k with
          | some o => some o
          | none => childOwner t fuel cs l k := by
        intro l k
        simp only [childOwner, List.findSome?_cons]
        cases ownerLoc t fuel c l k <;> rfl
      cases hv : cw.isVisible with
      | false =>
        simp only [hv] at h
        have hnone : ∀ l k, ownerLoc t fuel c l k = none := by
          intro l k; rw [ownerLoc_eq t fuel c cw hcw.1]; simp [hv]
        have := ihcs s s' h hm hsub
        have hco : ∀ l k, childOwner t fuel (c :: cs) l k = childOwner t fuel cs l k := by
          intro l k; rw [hown, hnone]
        exact { shots := by simpa only [hco] using this.shots
                stack := this.stack, xl := this.xl, xc := this.xc, lines := this.lines, cols := this.cols
                masks := this.masks, masksLe := this.masksLe
                writable := by simpa only [hco] using this.writable
                frame := this.frame
                shotsMasks := this.shotsMasks
                contentAt := by simpa only [hco] using this.contentAt }
      | true =>
        simp only [hv] at h
        -- the state after the child (before the mask)
        cases hi : Rect.intersect rect cw.rect with
        | none =>
          rw [hi] at h
          simp only [pure, Pure.pure] at h
          have hdis := Props.C06.intersect_none _ _ hi
          -- no writable cell lies in the child's rectangle
          have hnot : ∀ L C, s.1.writable L C = true → cw.rect.memb (L - s.1.xl) (C - s.1.xc) = false := by
            intro L C hw
            have h1 := (memb_true_iff _ _ _).1 (hsub L C hw)
            cases hh : cw.rect.memb (L - s.1.xl) (C - s.1.xc) with
            | false => rfl
            | true => exact absurd ⟨h1, (memb_true_iff _ _ _).1 hh⟩ (hdis _ _)
          have hm1 : MasksLe (s.1.mask cw.rect) := by
            intro m hmm
            simp only [RB.mask, List.mem_cons] at hmm
            rcases hmm with rfl | hmm
            · simp [RB.depth, RB.mask]
            · exact hm m hmm
          have hw1 : ∀ L C, (s.1.mask cw.rect).writable L C = s.1.writable L C := by
            intro L C
            rw [writable_mask, memb_translate]
            cases hw : s.1.writable L C with
            | false => simp
            | true => simp [hnot L C hw]
          have hsub1 : ∀ L C, (s.1.mask cw.rect).writable L C = true → rect.memb (L - (s.1.mask cw.rect).xl) (C - (s.1.mask cw.rect).xc) = true := by
            intro L C hw; rw [hw1] at hw; exact hsub L C hw
          have := ihcs (s.1.mask cw.rect, s.2) s' h hm1 hsub1
          have hco : ∀ L C, s.1.writable L C = true →
              childOwner t fuel (c :: cs) (L - s.1.xl) (C - s.1.xc) = childOwner t fuel cs (L - s.1.xl) (C - s.1.xc) := by
            intro L C hw
            rw [hown, ownerLoc_eq t fuel c cw hcw.1]
            simp [hnot L C hw]
          obtain ⟨new, hnew, hsound, hcomp⟩ := this.shots
          obtain ⟨m, hmm, hmd⟩ := this.masks
          exact { shots := ⟨new, hnew,
                    by intro sh hsh L C hw
                       have := hsound sh hsh L C hw
                       rw [hw1] at this
                       exact ⟨this.1, by rw [hco L C this.1]; exact this.2⟩,
                    by intro L C hw ho
                       rw [hco L C hw] at ho
                       exact hcomp L C (by rw [hw1]; exact hw) ho⟩
                  stack := this.stack, xl := this.xl, xc := this.xc, lines := this.lines, cols := this.cols
                  masks := ⟨m ++ [(cw.rect.translate s.1.xl s.1.xc, s.1.depth)], by
                      rw [hmm]; simp [RB.mask], by
                      intro x hx
                      simp only [List.mem_append, List.mem_singleton] at hx
                      rcases hx with hx | rfl
                      · exact hmd x hx
                      · simp [RB.depth]⟩
                  masksLe := this.masksLe
                  writable := by
                    intro L C
                    rw [this.writable L C, hw1]
                    cases hw : s.1.writable L C with
                    | false => simp
                    | true => simp only [Bool.true_and]; rw [hco L C hw]; rfl
                  frame := by intro L C hw; exact this.frame L C (by rw [hw1]; exact hw)
                  shotsMasks := this.shotsMasks
                  contentAt := by
                    intro hr L C hw o ho
                    rw [hco L C hw] at ho
                    exact this.contentAt hr L C (by rw [hw1]; exact hw) o ho }
        | some exposed =>
          rw [hi] at h
          simp only [bind, Bind.bind, pure, Pure.pure] at h
          have hex := Props.C06.intersect_some _ _ _ hi
          generalize hrb1 : ((s.1.save).clipTo exposed).translate cw.rect.top cw.rect.left = rb1 at h
          cases hrec : doExpose beh t pens fuel c (exposed.translate (-cw.rect.top) (-cw.rect.left)) (rb1, s.2) with
          | ub w => rw [hrec] at h; cases h
          | ok s2 =>
            rw [hrec] at h
            simp only at h
            -- facts about rb1
            have hrb1_xl : rb1.xl = s.1.xl + cw.rect.top := by rw [← hrb1]; simp [RB.translate, RB.save]
            have hrb1_xc : rb1.xc = s.1.xc + cw.rect.left := by rw [← hrb1]; simp [RB.translate, RB.save]
            have hrb1_stack : rb1.stack = { xl := s.1.xl, xc := s.1.xc, clip := s.1.clip, pen := s.1.pen, penOnly := false } :: s.1.stack := by
              rw [← hrb1]; simp [RB.translate, RB.save]
            have hrb1_masks : rb1.masks = s.1.masks := by rw [← hrb1]; simp [RB.translate, RB.save]
            have hrb1_cells : rb1.cells = s.1.cells := by rw [← hrb1]; simp [RB.translate, RB.save]
            have hrb1_lines : rb1.lines = s.1.lines := by rw [← hrb1]; simp [RB.translate, RB.save]
            have hrb1_cols : rb1.cols = s.1.cols := by rw [← hrb1]; simp [RB.translate, RB.save]
            have hrb1_w : ∀ L C, rb1.writable L C = (s.1.writable L C && exposed.memb (L - s.1.xl) (C - s.1.xc)) := by
              intro L C
              rw [← hrb1, writable_translate, writable_clipTo, writable_save, memb_translate]
              rfl
            have hm1 : MasksLe rb1 := by
              intro m hmm
              rw [hrb1_masks] at hmm
              rw [hrb1_stack]
              have := hm m hmm
              simp; omega
            have hsub1 : ∀ L C, rb1.writable L C = true →
                (exposed.translate (-cw.rect.top) (-cw.rect.left)).memb (L - rb1.xl) (C - rb1.xc) = true := by
              intro L C hw
              rw [hrb1_w, Bool.and_eq_true] at hw
              rw [memb_translate, hrb1_xl, hrb1_xc]
              have : L - (s.1.xl + cw.rect.top) - -cw.rect.top = L - s.1.xl := by omega
              rw [this]
              have : C - (s.1.xc + cw.rect.left) - -cw.rect.left = C - s.1.xc := by omega
              rw [this]
              exact hw.2
            have hch := ih c _ (rb1, s.2) s2 hrec hm1 hsub1
            -- the state after restore and mask
            obtain ⟨mc, hmc, hmcd⟩ := hch.masks
            have hst2 : s2.1.stack = { xl := s.1.xl, xc := s.1.xc, clip := s.1.clip, pen := s.1.pen, penOnly := false } :: s.1.stack := by
              rw [hch.stack]; exact hrb1_stack
            have hres := restore_of_save_frame s.1 s2.1 s.1.stack hst2
            obtain ⟨hr_xl, hr_xc, hr_clip, hr_pen, hr_stack, hr_cells, hr_lines, hr_cols, hr_masks⟩ := hres
            have hr_masks' : s2.1.restore.masks = s.1.masks := by
              rw [hr_masks, hmc]
              simp only at hmcd
              rw [hrb1_masks]
              apply filter_masks
              · intro x hx
                have := hmcd x hx
                rw [hrb1_stack] at this
                simpa using this
              · exact hm
            have hr_w : ∀ L C, s2.1.restore.writable L C = s.1.writable L C :=
              fun L C => writable_congr hr_clip hr_masks' L C
            generalize hrb3 : s2.1.restore = rb3 at h hr_xl hr_xc hr_clip hr_pen hr_stack hr_cells hr_lines hr_cols hr_masks' hr_w
            have hm4 : MasksLe (rb3.mask cw.rect) := by
              intro m hmm
              simp only [RB.mask, List.mem_cons] at hmm
              rcases hmm with rfl | hmm
              · simp [RB.depth, RB.mask]
              · rw [hr_masks'] at hmm
                have := hm m hmm
                simp only [RB.mask, hr_stack]
                exact this
            have hw4 : ∀ L C, (rb3.mask cw.rect).writable L C = (s.1.writable L C && !cw.rect.memb (L - s.1.xl) (C - s.1.xc)) := by
              intro L C
              rw [writable_mask, memb_translate, hr_w, hr_xl, hr_xc]
            have hsub4 : ∀ L C, (rb3.mask cw.rect).writable L C = true →
                rect.memb (L - (rb3.mask cw.rect).xl) (C - (rb3.mask cw.rect).xc) = true := by
              intro L C hw
              rw [hw4, Bool.and_eq_true] at hw
              have : (rb3.mask cw.rect).xl = s.1.xl := by simp [RB.mask, hr_xl]
              rw [this]
              have : (rb3.mask cw.rect).xc = s.1.xc := by simp [RB.mask, hr_xc]
              rw [this]
              exact hsub L C hw.1
            have hrest := ihcs (rb3.mask cw.rect, s2.2) s' h hm4 hsub4
            have h4xl : (rb3.mask cw.rect).xl = s.1.xl := by simp [RB.mask, hr_xl]
            have h4xc : (rb3.mask cw.rect).xc = s.1.xc := by simp [RB.mask, hr_xc]
            have h4stack : (rb3.mask cw.rect).stack = s.1.stack := by simp [RB.mask, hr_stack]
            have h4cells : (rb3.mask cw.rect).cells = s2.1.cells := by simp [RB.mask, hr_cells]
            -- fuel is positive (the recursive call returned)
            have hfuel : fuel ≠ 0 := by
              intro h0; subst h0; simp [doExpose] at hrec
            -- owner of a writable cell among `c :: cs`
            have hco_in : ∀ L C, cw.rect.memb (L - s.1.xl) (C - s.1.xc) = true →
                childOwner t fuel (c :: cs) (L - s.1.xl) (C - s.1.xc) =
                  some (ownerSub t fuel c (L - rb1.xl) (C - rb1.xc)) := by
              intro L C hmb
              rw [hown, ownerLoc_eq t fuel c cw hcw.1]
              have : L - s.1.xl - cw.rect.top = L - rb1.xl := by rw [hrb1_xl]; omega
              rw [this]
              have : C - s.1.xc - cw.rect.left = C - rb1.xc := by rw [hrb1_xc]; omega
              rw [this]
              simp [hfuel, hv, hcw.2, hmb]
            have hco_out : ∀ L C, cw.rect.memb (L - s.1.xl) (C - s.1.xc) = false →
                childOwner t fuel (c :: cs) (L - s.1.xl) (C - s.1.xc) = childOwner t fuel cs (L - s.1.xl) (C - s.1.xc) := by
              intro L C hmb
              rw [hown, ownerLoc_eq t fuel c cw hcw.1]
              simp [hmb]
            -- a writable cell inside the child's rectangle is writable for the child
            have hin1 : ∀ L C, s.1.writable L C = true → cw.rect.memb (L - s.1.xl) (C - s.1.xc) = true →
                rb1.writable L C = true := by
              intro L C hw hmb
              rw [hrb1_w, hw, Bool.true_and]
              apply (memb_true_iff _ _ _).2
              exact (hex.2 _ _).2 ⟨(memb_true_iff _ _ _).1 (hsub L C hw), (memb_true_iff _ _ _).1 hmb⟩
            have hout1 : ∀ L C, cw.rect.memb (L - s.1.xl) (C - s.1.xc) = false → rb1.writable L C = false := by
              intro L C hmb
              rw [hrb1_w]
              cases hh : exposed.memb (L - s.1.xl) (C - s.1.xc) with
              | false => simp
              | true =>
                have := ((hex.2 _ _).1 ((memb_true_iff _ _ _).1 hh)).2
                rw [(memb_true_iff _ _ _).2 this] at hmb
                cases hmb
            obtain ⟨newc, hnewc, hsoundc, hcompc⟩ := hch.shots
            obtain ⟨newr, hnewr, hsoundr, hcompr⟩ := hrest.shots
            obtain ⟨mr, hmr, hmrd⟩ := hrest.masks
            simp only at hnewc hsoundc hcompc hnewr hsoundr hcompr hmr hmrd
            refine { shots := ⟨newc ++ newr, by rw [hnewr, hnewc, List.append_assoc], ?_, ?_⟩
                     stack := by rw [hrest.stack]; exact h4stack
                     xl := by rw [hrest.xl]; exact h4xl
                     xc := by rw [hrest.xc]; exact h4xc
                     lines := by rw [hrest.lines]; simp [RB.mask, hr_lines, hch.lines, hrb1_lines]
                     cols := by rw [hrest.cols]; simp [RB.mask, hr_cols, hch.cols, hrb1_cols]
                     masks := ⟨mr ++ [(cw.rect.translate rb3.xl rb3.xc, rb3.depth)], by
                        rw [hmr]; simp [RB.mask, hr_masks'], by
                        intro x hx
                        simp only [List.mem_append, List.mem_singleton] at hx
                        rcases hx with hx | rfl
                        · have := hmrd x hx; rw [h4stack] at this; exact this
                        · simp [RB.depth, hr_stack]⟩
                     masksLe := hrest.masksLe
                     shotsMasks := fun h0 => hrest.shotsMasks (hch.shotsMasks h0)
                     writable := ?_
                     frame := ?_
                     contentAt := ?_ }
            · -- soundness of the shots
              intro sh hsh L C hw
              rcases List.mem_append.1 hsh with hsh | hsh
              · have := hsoundc sh hsh L C hw
                rw [hrb1_w, Bool.and_eq_true] at this
                have hmb : cw.rect.memb (L - s.1.xl) (C - s.1.xc) = true :=
                  (memb_true_iff _ _ _).2 ((hex.2 _ _).1 ((memb_true_iff _ _ _).1 this.1.2)).2
                exact ⟨this.1.1, by rw [hco_in L C hmb]; exact congrArg some this.2⟩
              · have := hsoundr sh hsh L C hw
                rw [hw4, Bool.and_eq_true, h4xl, h4xc] at this
                have hmb : cw.rect.memb (L - s.1.xl) (C - s.1.xc) = false := by
                  simpa using this.1.2
                exact ⟨this.1.1, by rw [hco_out L C hmb]; exact this.2⟩
            · -- completeness
              intro L C hw ho
              cases hmb : cw.rect.memb (L - s.1.xl) (C - s.1.xc) with
              | true =>
                obtain ⟨sh, hsh, hshw⟩ := hcompc L C (hin1 L C hw hmb)
                exact ⟨sh, List.mem_append_left _ hsh, hshw⟩
              | false =>
                rw [hco_out L C hmb] at ho
                obtain ⟨sh, hsh, hshw⟩ := hcompr L C (by rw [hw4, hw, hmb]; rfl) (by rw [h4xl, h4xc]; exact ho)
                exact ⟨sh, List.mem_append_right _ hsh, hshw⟩
            · -- the writable set after the loop
              intro L C
              rw [hrest.writable L C, hw4, h4xl, h4xc]
              cases hw : s.1.writable L C with
              | false => simp
              | true =>
                cases hmb : cw.rect.memb (L - s.1.xl) (C - s.1.xc) with
                | true => rw [hco_in L C hmb]; simp
                | false => rw [hco_out L C hmb]; simp
            · -- frame
              intro L C hw
              have h1 : rb1.writable L C = false := by rw [hrb1_w, hw]; rfl
              have h4 : (rb3.mask cw.rect).writable L C = false := by rw [hw4, hw]; rfl
              rw [hrest.frame L C h4, h4cells, hch.frame L C h1, hrb1_cells]
            · -- content
              intro hr L C hw o ho
              cases hmb : cw.rect.memb (L - s.1.xl) (C - s.1.xc) with
              | true =>
                rw [hco_in L C hmb] at ho
                cases ho
                have h4 : (rb3.mask cw.rect).writable L C = false := by rw [hw4, hw, hmb]; rfl
                rw [hrest.frame L C h4, h4cells]
                exact hch.contentAt (fun sh hsh => hr sh (by rw [hnewr]; exact List.mem_append_left _ hsh)) L C
                  (hin1 L C hw hmb)
              | false =>
                rw [hco_out L C hmb] at ho
                exact hrest.contentAt hr L C (by rw [hw4, hw, hmb]; rfl) o (by rw [h4xl, h4xc]; exact ho)

/-- **The invariant of `_do_expose`**, for every tree, every behaviour and every buffer state. -/
theorem doExpose_ok (t : Tree) (beh : Id → Rect → List DrawOp) (pens : Array (Option Pen))
    (content : Id → Int → Int → Cell) :
    ∀ (fuel : Nat) (win : Id) (rect : Rect) (s s' : RB × List Shot),
      doExpose beh t pens fuel win rect s = .ok s' →
      MasksLe s.1 → (∀ L C, s.1.writable L C = true → rect.memb (L - s.1.xl) (C - s.1.xc) = true) →
      ExposeOk t beh content fuel win s s' := by
  intro fuel
  induction fuel with
  | zero => intro win rect s s' h; simp [doExpose] at h
  | succ n ih =>
    intro win rect s s' h hm hsub
    simp only [doExpose] at h
    cases hg : WinTree.get t win with
    | ub w => rw [hg] at h; cases h
    | ok w =>
      rw [hg] at h
      have hw := get_ok hg
      simp only [bind, Bind.bind] at h
      generalize hrb0 : applyWinPen pens win s.1 = rb0 at h
      have h0w : ∀ L C, rb0.writable L C = s.1.writable L C := by
        intro L C; rw [← hrb0]; unfold applyWinPen; split <;> rfl
      have h0xl : rb0.xl = s.1.xl := by rw [← hrb0]; unfold applyWinPen; split <;> rfl
      have h0xc : rb0.xc = s.1.xc := by rw [← hrb0]; unfold applyWinPen; split <;> rfl
      have h0stack : rb0.stack = s.1.stack := by rw [← hrb0]; unfold applyWinPen; split <;> rfl
      have h0masks : rb0.masks = s.1.masks := by rw [← hrb0]; unfold applyWinPen; split <;> rfl
      have h0cells : rb0.cells = s.1.cells := by rw [← hrb0]; unfold applyWinPen; split <;> rfl
      have h0lines : rb0.lines = s.1.lines := by rw [← hrb0]; unfold applyWinPen; split <;> rfl
      have h0cols : rb0.cols = s.1.cols := by rw [← hrb0]; unfold applyWinPen; split <;> rfl
      cases hl : doChildren t (doExpose beh t pens n) rect w.children (rb0, s.2) with
      | ub e => rw [hl] at h; cases h
      | ok sl =>
        rw [hl] at h
        simp only [pure, Pure.pure] at h
        cases h
        have hm0 : MasksLe rb0 := by
          intro m hmm; rw [h0masks] at hmm; rw [h0stack]; exact hm m hmm
        have hsub0 : ∀ L C, rb0.writable L C = true → rect.memb (L - rb0.xl) (C - rb0.xc) = true := by
          intro L C hw'; rw [h0w] at hw'; rw [h0xl, h0xc]; exact hsub L C hw'
        have hloop := doChildren_ok t beh pens content n rect ih w.children (rb0, s.2) sl hl hm0 hsub0
        obtain ⟨newl, hnewl, hsoundl, hcompl⟩ := hloop.shots
        obtain ⟨ml, hml, hmld⟩ := hloop.masks
        simp only at hnewl hsoundl hcompl hml hmld
        have hsf := run_sameFrame (beh win rect) sl.1 hloop.masksLe
        -- the owner of a cell inside `win`
        have hsub_eq : ∀ l k, ownerSub t (n + 1) win l k =
            match childOwner t n w.children l k with
            | some o => o
            | none => (win, l, k) := by
          intro l k
          simp only [ownerSub, hw.1, childOwner]
          cases List.findSome? (fun ch => ownerLoc t n ch l k) w.children <;> rfl
        refine { shots := ⟨newl ++ [⟨win, rect, sl.1⟩], by simp [hnewl], ?_, ?_⟩
                 stack := by show (sl.1.run (beh win rect)).stack = s.1.stack; rw [hsf.stack, hloop.stack, h0stack]
                 masks := ⟨ml, by show (sl.1.run (beh win rect)).masks = ml ++ s.1.masks; rw [hsf.masks, hml, h0masks],
                            by intro x hx; have := hmld x hx; rw [h0stack] at this; exact this⟩
                 lines := by show (sl.1.run (beh win rect)).lines = s.1.lines; rw [hsf.lines, hloop.lines, h0lines]
                 cols := by show (sl.1.run (beh win rect)).cols = s.1.cols; rw [hsf.cols, hloop.cols, h0cols]
                 frame := ?_
                 shotsMasks := fun h0 sh hsh => by
                   rcases List.mem_append.1 hsh with hsh | hsh
                   · exact hloop.shotsMasks h0 sh hsh
                   · simp only [List.mem_singleton] at hsh
                     subst hsh
                     exact hloop.masksLe
                 contentAt := ?_ }
        · -- soundness
          intro sh hsh L C hwr
          rcases List.mem_append.1 hsh with hsh | hsh
          · have := hsoundl sh hsh L C hwr
            rw [h0w, h0xl, h0xc] at this
            refine ⟨this.1, ?_⟩
            rw [hsub_eq, this.2]
          · simp only [List.mem_singleton] at hsh
            subst hsh
            simp only at hwr
            rw [hloop.writable L C, Bool.and_eq_true, h0w, h0xl, h0xc] at hwr
            refine ⟨hwr.1, ?_⟩
            rw [hsub_eq]
            have hn : childOwner t n w.children (L - s.1.xl) (C - s.1.xc) = none := by
              simpa using hwr.2
            rw [hn]
            simp only
            rw [hloop.xl, hloop.xc, h0xl, h0xc]
        · -- completeness
          intro L C hwr
          cases ho : childOwner t n w.children (L - s.1.xl) (C - s.1.xc) with
          | some o =>
            obtain ⟨sh, hsh, hshw⟩ := hcompl L C (by rw [h0w]; exact hwr) (by rw [h0xl, h0xc, ho]; rfl)
            exact ⟨sh, List.mem_append_left _ hsh, hshw⟩
          | none =>
            refine ⟨⟨win, rect, sl.1⟩, by simp, ?_⟩
            simp only
            rw [hloop.writable L C, h0w, hwr, h0xl, h0xc, ho]
            rfl
        · -- frame
          intro L C hwr
          have h1 : sl.1.writable L C = false := by
            rw [hloop.writable L C, h0w, hwr]; rfl
          show (sl.1.run (beh win rect)).cells L C = s.1.cells L C
          rw [run_cells_of_not_writable _ _ hloop.masksLe L C h1, hloop.frame L C (by rw [h0w]; exact hwr), h0cells]
        · -- content
          intro hr L C hwr
          show (sl.1.run (beh win rect)).cells L C = _
          rw [hsub_eq]
          cases ho : childOwner t n w.children (L - s.1.xl) (C - s.1.xc) with
          | some o =>
            have h1 : sl.1.writable L C = false := by
              rw [hloop.writable L C, h0w, hwr, h0xl, h0xc, ho]; rfl
            rw [run_cells_of_not_writable _ _ hloop.masksLe L C h1]
            exact hloop.contentAt (fun sh hsh => hr sh (List.mem_append_left _ hsh)) L C (by rw [h0w]; exact hwr) o
              (by rw [h0xl, h0xc]; exact ho)
          | none =>
            have h1 : sl.1.writable L C = true := by
              rw [hloop.writable L C, h0w, hwr, h0xl, h0xc, ho]; rfl
            have := hr ⟨win, rect, sl.1⟩ (List.mem_append_right _ List.mem_cons_self) L C h1
              (by show rect.memb (L - sl.1.xl) (C - sl.1.xc) = true
                  rw [hloop.xl, hloop.xc, h0xl, h0xc]; exact hsub L C hwr)
            simp only at this
            rw [this, hloop.xl, hloop.xc, h0xl, h0xc]

/-! ### the loop over the damage rectangles in `tickit_window_flush` -/

/-- The state of the render buffer between two damage rectangles: nothing saved, nothing masked, no translation,
    clip = the whole buffer. -/
structure Neutral (rb : RB) : Prop where
  stack : rb.stack = []
  masks : rb.masks = []
  xl : rb.xl = 0
  xc : rb.xc = 0
  clip : rb.clip = ⟨0, 0, rb.lines, rb.cols⟩

theorem neutral_new (lines cols : Int) : Neutral (RB.new lines cols) := ⟨rfl, rfl, rfl, rfl, rfl⟩

theorem Neutral.writable {rb : RB} (h : Neutral rb) (L C : Int) : rb.writable L C = rb.bounds.memb L C := by
  simp only [RB.writable, RB.inClip, RB.masked, h.masks, h.clip, RB.bounds, List.any_nil, Bool.not_false, Bool.and_true]
  cases hm : (⟨0, 0, rb.lines, rb.cols⟩ : Rect).memb L C with
  | false => simp
  | true =>
    have := (memb_true_iff _ _ _).1 hm
    simp only [Rect.Mem, Rect.bottom, Rect.right] at this
    simp; omega

/-- What `exposeRects … rects s = .ok s'` guarantees when started between two damage rectangles. -/
structure RectsOk (t : Tree) (beh : Id → Rect → List DrawOp) (content : Id → Int → Int → Cell)
    (fuel : Nat) (rects : List Rect) (s s' : RB × List Shot) : Prop where
  neutral : Neutral s'.1
  lines : s'.1.lines = s.1.lines
  cols : s'.1.cols = s.1.cols
  shots : ∃ new, s'.2 = s.2 ++ new ∧
    (∀ sh ∈ new, ∀ L C, sh.rb.writable L C = true →
      s.1.bounds.memb L C = true ∧ (∃ ρ ∈ rects, ρ.memb L C = true) ∧
      ownerSub t fuel 0 L C = (sh.win, L - sh.rb.xl, C - sh.rb.xc)) ∧
    (∀ L C, s.1.bounds.memb L C = true → (∃ ρ ∈ rects, ρ.memb L C = true) → ∃ sh ∈ new, sh.rb.writable L C = true)
  /-- every handler finds a buffer whose masks belong to levels not above the current one -/
  shotsMasks : (∀ sh ∈ s.2, MasksLe sh.rb) → ∀ sh ∈ s'.2, MasksLe sh.rb
  frame : ∀ L C, (s.1.bounds.memb L C = false ∨ ∀ ρ ∈ rects, ρ.memb L C = false) → s'.1.cells L C = s.1.cells L C
  contentAt : (∀ sh ∈ s'.2, RepaintsAt content beh sh) → ∀ L C, s.1.bounds.memb L C = true → (∃ ρ ∈ rects, ρ.memb L C = true) →
    s'.1.cells L C = some (.plain (content (ownerSub t fuel 0 L C).1 (ownerSub t fuel 0 L C).2.1 (ownerSub t fuel 0 L C).2.2))

theorem RectsOk.content {t : Tree} {beh : Id → Rect → List DrawOp} {content : Id → Int → Int → Cell}
    {fuel : Nat} {rects : List Rect} {s s' : RB × List Shot} (h : RectsOk t beh content fuel rects s s') :
    Repaints content beh → ∀ L C, s.1.bounds.memb L C = true → (∃ ρ ∈ rects, ρ.memb L C = true) →
    s'.1.cells L C = some (.plain (content (ownerSub t fuel 0 L C).1 (ownerSub t fuel 0 L C).2.1 (ownerSub t fuel 0 L C).2.2)) :=
  fun hr => h.contentAt (fun sh _ => repaintsAt_of_repaints hr sh)

theorem memb_intersect {a b r : Rect} (h : Rect.intersect a b = some r) (L C : Int) :
    r.memb L C = (a.memb L C && b.memb L C) := by
  have := (Props.C06.intersect_some _ _ _ h).2 L C
  apply Bool.eq_iff_iff.mpr
  rw [Bool.and_eq_true, memb_true_iff, memb_true_iff, memb_true_iff]
  exact this

theorem exposeRects_ok (t : Tree) (beh : Id → Rect → List DrawOp) (pens : Array (Option Pen))
    (content : Id → Int → Int → Cell) (fuel : Nat) (bounds : Rect) :
    ∀ (rects : List Rect) (s s' : RB × List Shot),
      exposeRects beh t pens fuel bounds rects s = .ok s' → Neutral s.1 → bounds = s.1.bounds →
      RectsOk t beh content fuel rects s s' := by
  intro rects
  induction rects with
  | nil =>
    intro s s' h hn _
    simp only [exposeRects] at h
    cases h
    exact { neutral := hn, lines := rfl, cols := rfl
            shots := ⟨[], ⟨(by simp), ⟨fun sh hsh => (by cases hsh), fun L C _ h => (by simp at h)⟩⟩⟩
            frame := fun _ _ _ => rfl
            shotsMasks := fun h => h
            contentAt := fun _ L C _ h => (by simp at h) }
  | cons ρ0 rest ih =>
    intro s s' h hn hbd
    simp only [exposeRects] at h
    cases hi0 : Rect.intersect ρ0 bounds with
    | none =>
      rw [hi0] at h
      simp only at h
      have hdis : ∀ L C, s.1.bounds.memb L C = true → ρ0.memb L C = false := by
        intro L C hb
        cases hh : ρ0.memb L C with
        | false => rfl
        | true =>
          exact absurd ⟨(memb_true_iff _ _ _).1 hh, (memb_true_iff _ _ _).1 (by rw [hbd]; exact hb)⟩
            (Props.C06.intersect_none _ _ hi0 L C)
      have hrest := ih s s' h hn hbd
      obtain ⟨newr, hnewr, hsoundr, hcompr⟩ := hrest.shots
      exact { neutral := hrest.neutral, lines := hrest.lines, cols := hrest.cols
              shots := ⟨newr, hnewr,
                fun sh hsh L C hw => by
                  obtain ⟨h1, ⟨ρ', hρ', hm'⟩, h3⟩ := hsoundr sh hsh L C hw
                  exact ⟨h1, ⟨ρ', List.mem_cons_of_mem _ hρ', hm'⟩, h3⟩,
                fun L C hb ⟨ρ', hρ', hm'⟩ => by
                  rcases List.mem_cons.1 hρ' with rfl | hρ'
                  · rw [hdis L C hb] at hm'; cases hm'
                  · exact hcompr L C hb ⟨ρ', hρ', hm'⟩⟩
              frame := fun L C hout => hrest.frame L C (by
                rcases hout with hb | hall
                · exact Or.inl hb
                · exact Or.inr (fun ρ' hρ' => hall ρ' (List.mem_cons_of_mem _ hρ')))
              shotsMasks := hrest.shotsMasks
              contentAt := fun hr L C hb ⟨ρ', hρ', hm'⟩ => by
                rcases List.mem_cons.1 hρ' with rfl | hρ'
                · rw [hdis L C hb] at hm'; cases hm'
                · exact hrest.contentAt hr L C hb ⟨ρ', hρ', hm'⟩ }
    | some ρ =>
    rw [hi0] at h
    simp only at h
    have hρ_iff : ∀ L C, ρ.memb L C = (ρ0.memb L C && s.1.bounds.memb L C) := by
      intro L C; rw [memb_intersect hi0, hbd]
    generalize hrb1 : (s.1.save).clipTo ρ = rb1 at h
    cases hd : doExpose beh t pens fuel 0 ρ (rb1, s.2) with
    | ub w => rw [hd] at h; cases h
    | ok s1 =>
      rw [hd] at h
      simp only [bind, Bind.bind] at h
      have h1stack : rb1.stack = { xl := s.1.xl, xc := s.1.xc, clip := s.1.clip, pen := s.1.pen, penOnly := false } :: s.1.stack := by
        rw [← hrb1]; simp [RB.save]
      have h1masks : rb1.masks = [] := by rw [← hrb1]; simp [RB.save, hn.masks]
      have h1xl : rb1.xl = 0 := by rw [← hrb1]; simp [RB.save, hn.xl]
      have h1xc : rb1.xc = 0 := by rw [← hrb1]; simp [RB.save, hn.xc]
      have h1cells : rb1.cells = s.1.cells := by rw [← hrb1]; simp [RB.save]
      have h1lines : rb1.lines = s.1.lines := by rw [← hrb1]; simp [RB.save]
      have h1cols : rb1.cols = s.1.cols := by rw [← hrb1]; simp [RB.save]
      have h1w : ∀ L C, rb1.writable L C = (s.1.bounds.memb L C && ρ.memb L C) := by
        intro L C
        rw [← hrb1, writable_clipTo, writable_save, hn.writable, memb_translate]
        simp [RB.save, hn.xl, hn.xc]
      have hm1 : MasksLe rb1 := by intro m hm; rw [h1masks] at hm; cases hm
      have hsub1 : ∀ L C, rb1.writable L C = true → ρ.memb (L - rb1.xl) (C - rb1.xc) = true := by
        intro L C hw
        rw [h1w, Bool.and_eq_true] at hw
        rw [h1xl, h1xc]; simpa using hw.2
      have hch := doExpose_ok t beh pens content fuel 0 ρ (rb1, s.2) s1 hd hm1 hsub1
      obtain ⟨mc, hmc, hmcd⟩ := hch.masks
      have hst1 : s1.1.stack = { xl := s.1.xl, xc := s.1.xc, clip := s.1.clip, pen := s.1.pen, penOnly := false } :: s.1.stack := by
        rw [hch.stack]; exact h1stack
      obtain ⟨hr_xl, hr_xc, hr_clip, hr_pen, hr_stack, hr_cells, hr_lines, hr_cols, hr_masks⟩ :=
        restore_of_save_frame s.1 s1.1 s.1.stack hst1
      have hr_masks' : s1.1.restore.masks = [] := by
        rw [hr_masks, hmc]
        simp only at hmcd
        rw [h1masks, hn.stack]
        simp only [List.append_nil, List.length_nil]
        apply List.filter_eq_nil_iff.mpr
        intro x hx
        have := hmcd x hx
        rw [h1stack] at this
        simp at this ⊢
        omega
      have hn3 : Neutral s1.1.restore :=
        { stack := by rw [hr_stack, hn.stack]
          masks := hr_masks'
          xl := by rw [hr_xl, hn.xl]
          xc := by rw [hr_xc, hn.xc]
          clip := by rw [hr_clip, hn.clip, hr_lines, hr_cols, hch.lines, hch.cols, h1lines, h1cols] }
      have hb3 : (s1.1.restore).bounds = s.1.bounds := by
        simp only [RB.bounds, hr_lines, hr_cols, hch.lines, hch.cols, h1lines, h1cols]
      have hrest := ih (s1.1.restore, s1.2) s' h hn3 (by rw [hb3]; exact hbd)
      obtain ⟨newc, hnewc, hsoundc, hcompc⟩ := hch.shots
      obtain ⟨newr, hnewr, hsoundr, hcompr⟩ := hrest.shots
      simp only at hnewc hsoundc hcompc hnewr hsoundr hcompr
      rw [hb3] at hsoundr hcompr
      refine { neutral := hrest.neutral
               lines := by rw [hrest.lines]; simp only [hr_lines, hch.lines, h1lines]
               cols := by rw [hrest.cols]; simp only [hr_cols, hch.cols, h1cols]
               shots := ⟨newc ++ newr, by rw [hnewr, hnewc, List.append_assoc], ?_, ?_⟩
               shotsMasks := fun h0 => hrest.shotsMasks (hch.shotsMasks h0)
               frame := ?_
               contentAt := ?_ }
      · intro sh hsh L C hw
        rcases List.mem_append.1 hsh with hsh | hsh
        · have := hsoundc sh hsh L C hw
          rw [h1w, Bool.and_eq_true, h1xl, h1xc] at this
          have hρ0 : ρ0.memb L C = true := by
            have := this.1.2; rw [hρ_iff, Bool.and_eq_true] at this; exact this.1
          refine ⟨this.1.1, ⟨ρ0, List.mem_cons_self, hρ0⟩, ?_⟩
          simpa using this.2
        · have := hsoundr sh hsh L C hw
          obtain ⟨h1, ⟨ρ', hρ', hm'⟩, h3⟩ := this
          exact ⟨h1, ⟨ρ', List.mem_cons_of_mem _ hρ', hm'⟩, h3⟩
      · intro L C hb ⟨ρ', hρ', hm'⟩
        rcases List.mem_cons.1 hρ' with rfl | hρ'
        · obtain ⟨sh, hsh, hshw⟩ := hcompc L C (by rw [h1w, hb, hρ_iff, hm', hb]; rfl)
          exact ⟨sh, List.mem_append_left _ hsh, hshw⟩
        · obtain ⟨sh, hsh, hshw⟩ := hcompr L C hb ⟨ρ', hρ', hm'⟩
          exact ⟨sh, List.mem_append_right _ hsh, hshw⟩
      · intro L C hout
        have h1 : rb1.writable L C = false := by
          rw [h1w]
          rcases hout with hb | hall
          · rw [hb]; rfl
          · rw [hρ_iff, hall ρ0 List.mem_cons_self]; simp
        have h2 := hrest.frame L C (by
          rw [hb3]
          rcases hout with hb | hall
          · exact Or.inl hb
          · exact Or.inr (fun ρ' hρ' => hall ρ' (List.mem_cons_of_mem _ hρ')))
        simp only at h2
        rw [h2, hr_cells, hch.frame L C h1, h1cells]
      · intro hr L C hb ⟨ρ', hρ', hm'⟩
        by_cases hin : ∃ ρ'' ∈ rest, ρ''.memb L C = true
        · exact hrest.contentAt hr L C (by rw [hb3]; exact hb) hin
        · have hall : ∀ ρ'' ∈ rest, ρ''.memb L C = false := by
            intro ρ'' hρ''
            cases hh : ρ''.memb L C with
            | false => rfl
            | true => exact absurd ⟨ρ'', hρ'', hh⟩ hin
          have hρ : ρ.memb L C = true := by
            rcases List.mem_cons.1 hρ' with rfl | hρ'
            · rw [hρ_iff, hm', hb]; rfl
            · rw [hall ρ' hρ'] at hm'; cases hm'
          have h2 := hrest.frame L C (Or.inr hall)
          simp only at h2
          rw [h2, hr_cells]
          have := hch.contentAt (fun sh hsh => hr sh (by rw [hnewr]; exact List.mem_append_left _ hsh)) L C
            (by rw [h1w, hb, hρ]; rfl)
          simp only [h1xl, h1xc, Int.sub_zero] at this
          exact this

/-! ### the rectangles handed to the handlers -/

/-- `r` is a non-empty rectangle inside window `w` (in `w`'s own coordinates). -/
def InB (t : Tree) (w : Id) (r : Rect) : Prop :=
  ∃ ww, t.wins[w]? = some ww ∧ r.Nonempty ∧ 0 ≤ r.top ∧ 0 ≤ r.left ∧ r.bottom ≤ ww.rect.lines ∧ r.right ≤ ww.rect.cols

theorem intersect_bounds {a b r : Rect} (h : Rect.intersect a b = some r) :
    r.Nonempty ∧ a.top ≤ r.top ∧ b.top ≤ r.top ∧ r.bottom ≤ a.bottom ∧ r.bottom ≤ b.bottom ∧
    a.left ≤ r.left ∧ b.left ≤ r.left ∧ r.right ≤ a.right ∧ r.right ≤ b.right := by
  unfold Rect.intersect at h
  simp only at h
  split at h
  · cases h
  · split at h
    · cases h
    · injection h with h
      subst h
      simp only [Rect.Nonempty, Rect.initBounded, Rect.bottom, Rect.right] at *
      omega

theorem doChildren_inB (t : Tree) (beh : Id → Rect → List DrawOp) (pens : Array (Option Pen)) (fuel : Nat) (rect : Rect)
    (ih : ∀ (win : Id) (r : Rect) (s s' : RB × List Shot), doExpose beh t pens fuel win r s = .ok s' →
      InB t win r → (∀ sh ∈ s.2, InB t sh.win sh.rect) → ∀ sh ∈ s'.2, InB t sh.win sh.rect) :
    ∀ (cs : List Id) (s s' : RB × List Shot), doChildren t (doExpose beh t pens fuel) rect cs s = .ok s' →
      (∀ sh ∈ s.2, InB t sh.win sh.rect) → ∀ sh ∈ s'.2, InB t sh.win sh.rect := by
  intro cs
  induction cs with
  | nil => intro s s' h hp; simp only [doChildren] at h; cases h; exact hp
  | cons c cs ihcs =>
    intro s s' h hp
    simp only [doChildren] at h
    cases hg : WinTree.get t c with
    | ub w => rw [hg] at h; cases h
    | ok cw =>
      rw [hg] at h
      have hcw := get_ok hg
      simp only [bind, Bind.bind] at h
      cases hv : cw.isVisible with
      | false => simp only [hv] at h; exact ihcs s s' h hp
      | true =>
        simp only [hv] at h
        cases hi : Rect.intersect rect cw.rect with
        | none =>
          rw [hi] at h
          simp only [pure, Pure.pure] at h
          exact ihcs _ s' h hp
        | some exposed =>
          rw [hi] at h
          simp only [bind, Bind.bind, pure, Pure.pure] at h
          cases hrec : doExpose beh t pens fuel c (exposed.translate (-cw.rect.top) (-cw.rect.left))
              (((s.1.save).clipTo exposed).translate cw.rect.top cw.rect.left, s.2) with
          | ub w => rw [hrec] at h; cases h
          | ok s2 =>
            rw [hrec] at h
            simp only at h
            have hb := intersect_bounds hi
            have hin : InB t c (exposed.translate (-cw.rect.top) (-cw.rect.left)) := by
              refine ⟨cw, hcw.1, ?_⟩
              simp only [Rect.Nonempty, Rect.translate, Rect.bottom, Rect.right] at *
              omega
            exact ihcs _ s' h (ih c _ _ s2 hrec hin hp)

/-- Every rectangle handed to a handler below (and including) `win` lies inside its window, provided the one handed to
    `win` does. -/
theorem doExpose_inB (t : Tree) (beh : Id → Rect → List DrawOp) (pens : Array (Option Pen)) :
    ∀ (fuel : Nat) (win : Id) (r : Rect) (s s' : RB × List Shot), doExpose beh t pens fuel win r s = .ok s' →
      InB t win r → (∀ sh ∈ s.2, InB t sh.win sh.rect) → ∀ sh ∈ s'.2, InB t sh.win sh.rect := by
  intro fuel
  induction fuel with
  | zero => intro win r s s' h; simp [doExpose] at h
  | succ n ih =>
    intro win r s s' h hin hp
    simp only [doExpose] at h
    cases hg : WinTree.get t win with
    | ub w => rw [hg] at h; cases h
    | ok w =>
      rw [hg] at h
      simp only [bind, Bind.bind] at h
      cases hl : doChildren t (doExpose beh t pens n) r w.children (applyWinPen pens win s.1, s.2) with
      | ub e => rw [hl] at h; cases h
      | ok sl =>
        rw [hl] at h
        simp only [pure, Pure.pure] at h
        cases h
        have := doChildren_inB t beh pens n r ih w.children _ sl hl hp
        intro sh hsh
        rcases List.mem_append.1 hsh with hsh | hsh
        · exact this sh hsh
        · simp only [List.mem_singleton] at hsh
          subst hsh
          exact hin

theorem exposeRects_inB (t : Tree) (beh : Id → Rect → List DrawOp) (pens : Array (Option Pen)) (fuel : Nat)
    (root : Win) (hroot : t.wins[0]? = some root) :
    ∀ (rects : List Rect) (s s' : RB × List Shot),
      exposeRects beh t pens fuel ⟨0, 0, root.rect.lines, root.rect.cols⟩ rects s = .ok s' →
      (∀ sh ∈ s.2, InB t sh.win sh.rect) → ∀ sh ∈ s'.2, InB t sh.win sh.rect := by
  intro rects
  induction rects with
  | nil => intro s s' h hp; simp only [exposeRects] at h; cases h; exact hp
  | cons ρ0 rest ih =>
    intro s s' h hp
    simp only [exposeRects] at h
    cases hi0 : Rect.intersect ρ0 ⟨0, 0, root.rect.lines, root.rect.cols⟩ with
    | none => rw [hi0] at h; exact ih s s' h hp
    | some ρ =>
      rw [hi0] at h
      simp only at h
      cases hd : doExpose beh t pens fuel 0 ρ ((s.1.save).clipTo ρ, s.2) with
      | ub w => rw [hd] at h; cases h
      | ok s1 =>
        rw [hd] at h
        simp only [bind, Bind.bind] at h
        have hb := intersect_bounds hi0
        have hin : InB t 0 ρ := by
          refine ⟨root, hroot, ?_⟩
          simp only [Rect.Nonempty, Rect.bottom, Rect.right] at *
          omega
        exact ih _ s' h (doExpose_inB t beh pens fuel 0 ρ _ s1 hd hin hp)

end WinFlush
end Tickit
