import Tickit.Proof.WinInputSim
/-
  The store operations a handler may perform, seen through `Sim`: an action confined to a set `A` of windows changes
  the store only inside `A` (`doAction_sim`), and so does dropping a reference the dispatcher holds
  (`unrefLogged_sim`).  The store-level lemmas (`expose_wins` … `destroy_sim`) need no invariant: they read what
  happened off the equation `op … = Res.ok t'`.
-/
namespace Tickit
namespace WinInput
open WinTree

theorem pure_eq_ok {α : Type} {a b : α} (h : (pure a : Res α) = Res.ok b) : a = b := Res.ok.inj h

theorem aff_absurd {A : Aff} {i : WinTree.Id} {P : Prop} (h1 : A i = true) (h2 : A i = false) : P := by
  rw [h1] at h2; cases h2

/-! ### operations that leave the windows alone -/

theorem expose_wins {t : Tree} : ∀ (f : Nat) (i : WinTree.Id) (r : Option Rect) (t' : Tree),
    expose t f i r = Res.ok t' → t'.wins = t.wins := by
  intro f
  induction f with
  | zero => intro i r t' h; unfold expose at h; cases h
  | succ f ih =>
    intro i r t' h
    unfold expose at h
    obtain ⟨w, _, h⟩ := res_bind_eq_ok.1 h
    simp only at h
    split at h
    · cases pure_eq_ok h; rfl
    · by_cases hv : w.isVisible = true
      · simp only [hv, Bool.not_true, Bool.false_eq_true, if_false] at h
        by_cases hr : w.isRoot = true
        · simp only [hr, Bool.not_true, Bool.false_eq_true, if_false] at h
          split at h
          · cases h
          · cases pure_eq_ok h; rfl
          · split at h
            · cases h
            · cases pure_eq_ok h; rfl
        · have hr' : w.isRoot = false := by simpa using hr
          simp only [hr', Bool.not_false, if_true] at h
          split at h
          · cases pure_eq_ok h; rfl
          · exact ih _ _ _ h
      · have hv' : w.isVisible = false := by simpa using hv
        simp only [hv', Bool.not_false, if_true] at h
        cases pure_eq_ok h; rfl

theorem purge_wins {t t' : Tree} {f : Nat} {win : WinTree.Id} (h : purgeHierarchyChanges t f win = Res.ok t') :
    t'.wins = t.wins := by
  unfold purgeHierarchyChanges at h
  obtain ⟨top, _, h⟩ := res_bind_eq_ok.1 h
  obtain ⟨tw, _, h⟩ := res_bind_eq_ok.1 h
  split at h
  · cases pure_eq_ok h; rfl
  · obtain ⟨_, _, h⟩ := res_bind_eq_ok.1 h
    cases pure_eq_ok h; rfl

theorem request_wins {t t' : Tree} {f : Nat} {c : Change} {win : WinTree.Id}
    (h : requestHierarchyChange t f c win = Res.ok t') : t'.wins = t.wins := by
  unfold requestHierarchyChange at h
  obtain ⟨w, _, h⟩ := res_bind_eq_ok.1 h
  split at h
  · cases pure_eq_ok h; rfl
  · obtain ⟨_, _, h⟩ := res_bind_eq_ok.1 h
    cases pure_eq_ok h; rfl

/-! ### one window changes -/

/-- `modify` with a function that keeps the children, and keeps what the routing looks at unless the window is in `A`. -/
theorem modify_sim {A : Aff} {t t' : Tree} {i : WinTree.Id} {g : Win → Win} (hd : Down A t)
    (hrel : ∀ w, A i = false → WinRel A (g w) w) (hch : ∀ w, (g w).children = w.children)
    (h : WinTree.modify t i g = Res.ok t') : Sim A t t' := by
  unfold WinTree.modify at h
  obtain ⟨w, hg, h⟩ := res_bind_eq_ok.1 h
  cases pure_eq_ok h
  obtain ⟨hw, _⟩ := get_eq_ok.1 hg
  exact Sim.set hd hw (hrel w) (fun hA c hc => hd i w hA hw c (by rw [← hch w]; exact hc))

/-- `modify` of a window of `A`. -/
theorem modify_sim_in {A : Aff} {t t' : Tree} {i : WinTree.Id} {g : Win → Win} (hd : Down A t) (hA : A i = true)
    (hch : ∀ w, (g w).children = w.children) (h : WinTree.modify t i g = Res.ok t') : Sim A t t' :=
  modify_sim hd (fun _ h' => aff_absurd hA h') hch h

/-! ### hide, show -/

theorem hide_sim {A : Aff} {t t' : Tree} {f : Nat} {win : WinTree.Id} (hd : Down A t) (hA : A win = true)
    (h : WinTree.hide t f win = Res.ok t') : Sim A t t' := by
  unfold WinTree.hide at h
  obtain ⟨t1, h1, h⟩ := res_bind_eq_ok.1 h
  have s1 : Sim A t t1 := by refine modify_sim_in hd hA ?_ h1; intro _; rfl
  obtain ⟨w1, _, h⟩ := res_bind_eq_ok.1 h
  split at h
  · rename_i p _
    obtain ⟨pw, hgp, h⟩ := res_bind_eq_ok.1 h
    obtain ⟨hpw, _⟩ := get_eq_ok.1 hgp
    have e := expose_wins _ _ _ _ h
    by_cases hfc : pw.focusedChild = some win
    · simp only [hfc, if_true] at e
      have s2 : Sim A t1 (WinTree.set t1 p { pw with focusedChild := none }) := by
        refine Sim.set s1.down hpw (fun _ => ⟨rfl, rfl, rfl, rfl, rfl, Kids.refl A _, Or.inr ⟨?_, ?_⟩⟩)
          (fun hp c hc => s1.down p pw hp hpw c hc)
        · intro x hx; cases hx
        · intro x hx; rw [hfc] at hx; cases hx; exact hA
      exact s1.trans (s2.trans (Sim.of_wins s2.down e))
    · simp only [hfc, if_false] at e
      exact s1.trans (Sim.of_wins s1.down e)
  · cases pure_eq_ok h; exact s1

theorem show_sim {A : Aff} {t t' : Tree} {f : Nat} {win : WinTree.Id} (hd : Down A t) (hA : A win = true)
    (h : WinTree.show t f win = Res.ok t') : Sim A t t' := by
  unfold WinTree.show at h
  obtain ⟨t1, h1, h⟩ := res_bind_eq_ok.1 h
  have s1 : Sim A t t1 := by refine modify_sim_in hd hA ?_ h1; intro _; rfl
  obtain ⟨w1, _, h⟩ := res_bind_eq_ok.1 h
  simp only at h
  split at h
  · rename_i p _
    obtain ⟨pw, hgp, h⟩ := res_bind_eq_ok.1 h
    obtain ⟨hpw, _⟩ := get_eq_ok.1 hgp
    split at h
    · rename_i hc
      simp only [res_pure, res_bind_ok] at h
      have e := expose_wins _ _ _ _ h
      simp only [Bool.and_eq_true, Option.isNone_iff_eq_none] at hc
      have s2 : Sim A t1 (WinTree.set t1 p { pw with focusedChild := some win }) := by
        refine Sim.set s1.down hpw (fun _ => ⟨rfl, rfl, rfl, rfl, rfl, Kids.refl A _, Or.inr ⟨?_, ?_⟩⟩)
          (fun hp c hc => s1.down p pw hp hpw c hc)
        · intro x hx; cases hx; exact hA
        · intro x hx; rw [hc.1] at hx; cases hx
      exact s1.trans (s2.trans (Sim.of_wins s2.down e))
    · simp only [res_pure, res_bind_ok] at h
      exact s1.trans (Sim.of_wins s1.down (expose_wins _ _ _ _ h))
  · simp only [res_pure, res_bind_ok] at h
    exact s1.trans (Sim.of_wins s1.down (expose_wins _ _ _ _ h))

/-! ### close -/

/-- The two writes of REMOVE: the parent's record changes within `WinRel`, the window itself is in `A`. -/
theorem unlink_sim {A : Aff} {t : Tree} {p win : WinTree.Id} {pw w1 PW W1 : Win} (hd : Down A t) (hA : A win = true)
    (hpw : t.wins[p]? = some pw) (hw1 : (WinTree.set t p PW).wins[win]? = some w1)
    (hc1 : W1.children = w1.children) (hrel : WinRel A PW pw) (hsub : ∀ c ∈ PW.children, c ∈ pw.children) :
    Sim A t (WinTree.set (WinTree.set t p PW) win W1) := by
  have sa : Sim A t (WinTree.set t p PW) :=
    Sim.set hd hpw (fun _ => hrel) (fun hp c hc => hd p pw hp hpw c (hsub c hc))
  exact sa.trans (Sim.set sa.down hw1 (fun h' => aff_absurd hA h')
    (fun _ c hc => sa.down win w1 hA hw1 c (by rw [← hc1]; exact hc)))

theorem sim_ite_expose {A : Aff} {t t2 t' : Tree} {c : Prop} [Decidable c] {f : Nat} {i : WinTree.Id} {r : Option Rect}
    (s : Sim A t t2) (h : (if c then expose t2 f i r else pure t2) = Res.ok t') : Sim A t t' := by
  split at h
  · exact s.trans (Sim.of_wins s.down (expose_wins _ _ _ _ h))
  · cases pure_eq_ok h; exact s

/-- `_do_hierarchy_change(REMOVE)` of a window of `A`: the parent loses a child of `A` (and a focus pointer into `A`). -/
theorem doRemove_sim {A : Aff} {t t' : Tree} {f : Nat} {p win : WinTree.Id} (hd : Down A t) (hA : A win = true)
    (h : doHierarchyChange t f .remove p win = Res.ok t') : Sim A t t' := by
  unfold doHierarchyChange at h
  obtain ⟨pw, hgp, h⟩ := res_bind_eq_ok.1 h
  obtain ⟨w, _, h⟩ := res_bind_eq_ok.1 h
  simp only at h
  obtain ⟨hpw, _⟩ := get_eq_ok.1 hgp
  obtain ⟨cs, hcs, h⟩ := res_bind_eq_ok.1 h
  have ecs : cs = pw.children.erase win := by
    unfold listRemove at hcs
    split at hcs
    · exact (Res.ok.inj hcs).symm
    · cases hcs
  subst ecs
  obtain ⟨w1, hg1, h⟩ := res_bind_eq_ok.1 h
  obtain ⟨hw1, _⟩ := get_eq_ok.1 hg1
  simp only [res_pure, res_bind_ok] at h
  refine sim_ite_expose ?_ h
  refine unlink_sim hd hA hpw hw1 rfl ⟨rfl, rfl, rfl, rfl, rfl, Kids.erase hA _, ?_⟩ (fun c hc => List.mem_of_mem_erase hc)
  by_cases hfc : pw.focusedChild = some win
  · refine Or.inr ⟨?_, ?_⟩
    · intro x hx; simp only [hfc, if_true] at hx; cases hx
    · intro x hx; rw [hfc] at hx; cases hx; exact hA
  · simp only [hfc, if_false]; exact Or.inl rfl

/-- `tickit_window_close` of a window of `A`. -/
theorem close_sim {A : Aff} {t t' : Tree} {f : Nat} {win : WinTree.Id} (hd : Down A t) (hA : A win = true)
    (h : WinTree.close t f win = Res.ok t') : Sim A t t' := by
  unfold WinTree.close at h
  obtain ⟨w, _, h⟩ := res_bind_eq_ok.1 h
  simp only at h
  split at h
  · obtain ⟨t1, h1, h⟩ := res_bind_eq_ok.1 h
    obtain ⟨t2, h2, h⟩ := res_bind_eq_ok.1 h
    have s1 : Sim A t t1 := Sim.of_wins hd (purge_wins h1)
    have s2 : Sim A t1 t2 := doRemove_sim s1.down hA h2
    refine s1.trans (s2.trans ?_)
    refine modify_sim_in s2.down hA ?_ h
    intro _; rfl
  · simp only [res_pure, res_bind_ok] at h
    refine modify_sim_in hd hA ?_ h
    intro _; rfl

/-! ### destroy, unref -/

/-- `tickit_window_destroy` of a childless window of `A`. -/
theorem destroy_sim {A : Aff} {t t' : Tree} (m : Nat) {c : WinTree.Id} {w : Win} (hd : Down A t) (hA : A c = true)
    (hw : t.wins[c]? = some w) (hf : w.freed = false) (hch : w.children = [])
    (h : WinTree.destroy (fun t _ => pure t) (m + 1) t c = Res.ok t') : Sim A t t' := by
  rw [WinTree.destroy] at h
  simp only [res_pure, res_bind_ok] at h
  have hg : WinTree.get t c = Res.ok w := get_eq_ok.2 ⟨hw, hf⟩
  obtain ⟨wa, hga, h⟩ := res_bind_eq_ok.1 h
  cases hg.symm.trans hga
  simp only [hch, WinTree.destroyChildren, res_pure, res_bind_ok] at h
  obtain ⟨wb, hgb, h⟩ := res_bind_eq_ok.1 h
  cases hg.symm.trans hgb
  rw [ite_bind_pure] at h
  obtain ⟨t1, h1, h⟩ := res_bind_eq_ok.1 h
  have e1 : t1.wins = t.wins := by
    split at h1
    · exact purge_wins h1
    · cases h1; rfl
  have s1 : Sim A t t1 := Sim.of_wins hd e1
  obtain ⟨w1, _, h⟩ := res_bind_eq_ok.1 h
  rw [ite_bind_pure] at h
  obtain ⟨t2, h2, h⟩ := res_bind_eq_ok.1 h
  have s2 : Sim A t1 t2 := by
    split at h2
    · exact close_sim s1.down hA h2
    · cases h2; exact Sim.refl s1.down
  obtain ⟨w2, hg2, h⟩ := res_bind_eq_ok.1 h
  obtain ⟨hw2, _⟩ := get_eq_ok.1 hg2
  have fin : ∀ t3 : Tree, t3.wins = t2.wins → Sim A t2 (WinTree.set t3 c { w2 with freed := true }) := by
    intro t3 e3
    have s3 : Sim A t2 t3 := Sim.of_wins s2.down e3
    have hw3 : t3.wins[c]? = some w2 := by rw [e3]; exact hw2
    exact s3.trans (Sim.set s3.down hw3 (fun h' => aff_absurd hA h') (fun _ x hx => s3.down c w2 hA hw3 x hx))
  refine s1.trans (s2.trans ?_)
  cases Res.ok.inj h
  split
  · exact fin _ rfl
  · exact fin _ rfl

/-- `tickit_window_unref`: the count is at least one; the last reference goes only on a childless window of `A`. -/
theorem unref_sim {A : Aff} {st st' : St} {c : WinTree.Id} {w : Win} (hd : Down A st.tree)
    (hw : st.tree.wins[c]? = some w) (hf : w.freed = false) (h1 : 1 ≤ w.refcount)
    (hlast : w.refcount = 1 → w.children = [] ∧ A c = true) (h : unrefLogged st c = Res.ok st') :
    Sim A st.tree st'.tree ∧ st'.owned = st.owned := by
  have hg : WinTree.get st.tree c = Res.ok w := get_eq_ok.2 ⟨hw, hf⟩
  have hset : ∀ k : Int, Sim A st.tree (WinTree.set st.tree c { w with refcount := k }) := fun k =>
    Sim.set hd hw (fun _ => ⟨rfl, rfl, rfl, rfl, rfl, Kids.refl A _, FcRel.refl A _⟩) (fun hA x hx => hd c w hA hw x hx)
  by_cases h2 : 2 ≤ w.refcount
  · rw [unrefLogged_nd hg h2] at h
    cases Res.ok.inj h
    exact ⟨hset _, rfl⟩
  · have hr1 : w.refcount = 1 := by omega
    obtain ⟨hch, hA⟩ := hlast hr1
    unfold unrefLogged at h
    simp only [hg, res_bind_ok] at h
    have hfuel : destroyFuel st.tree = (3 * st.tree.wins.size + 4) + 1 + 1 := rfl
    rw [hfuel, WinTree.unref] at h
    simp only [hg, res_bind_ok] at h
    have n1 : ¬ (w.refcount < 1) := by omega
    have z : w.refcount - 1 = 0 := by omega
    simp only [n1, if_false, z, if_true] at h
    obtain ⟨t1, hd1, h⟩ := res_bind_eq_ok.1 h
    have s0 := hset 0
    have s1 : Sim A (WinTree.set st.tree c { w with refcount := 0 }) t1 :=
      destroy_sim _ s0.down hA (wins_set_self hw) hf hch hd1
    simp only [hr1, if_true] at h
    have logfold : ∀ (gone : List WinTree.Id) (s0 : St),
        (gone.foldl (fun st i => st.say (.destroyed i)) s0).tree = s0.tree ∧
        (gone.foldl (fun st i => st.say (.destroyed i)) s0).owned = s0.owned := by
      intro gone
      induction gone with
      | nil => intro s0; exact ⟨rfl, rfl⟩
      | cons g rest ih => intro s0; exact ih _
    cases pure_eq_ok h
    obtain ⟨lt, lo⟩ := logfold
      ((preorder st.tree (treeFuel st.tree) c).filter fun i => isAlive st.tree i && !isAlive (normalizeDrag t1) i)
      { st with tree := normalizeDrag t1 }
    refine ⟨?_, lo⟩
    rw [lt]
    exact s0.trans (s1.trans (Sim.of_wins s1.down (normalizeDrag_ok t1).2.1))

/-! ### the application's side: `Own` -/

/-- Liveness outside `A` is unchanged, and the application dropped nothing there. -/
theorem Own.of_sim {A : Aff} {st st' : St} (hs : Sim A st.tree st'.tree)
    (ho : ∀ x, A x = false → st.owned.getD x 0 ≤ st'.owned.getD x 0) (hown : Own A st) : Own A st' := by
  intro x w' hx hw' hf'
  have hlt : x < st'.tree.wins.size := (Array.getElem?_eq_some_iff.1 hw').1
  have hlt0 : x < st.tree.wins.size := hs.size ▸ hlt
  have hw0 : st.tree.wins[x]? = some st.tree.wins[x] := Array.getElem?_eq_getElem hlt0
  obtain ⟨w'', hw'', r⟩ := hs.win x _ hx hw0
  rw [hw'] at hw''; cases hw''
  exact Nat.le_trans (hown x _ hx hw0 (by rw [← r.freed]; exact hf')) (ho x hx)

theorem getD_setIfInBounds_ne {a : Array Nat} {i j : Nat} {v : Nat} (h : i ≠ j) :
    (a.setIfInBounds i v).getD j 0 = a.getD j 0 := by
  simp [Array.getD_eq_getD_getElem?, h]

/-! ### the two results -/

/-- An action confined to `A` changes the store only inside `A` (as far as the routing can see). -/
theorem doAction_sim {A : Aff} {st st' : St} {held : List WinTree.Id} (hg : Good held st) (hd : Down A st.tree)
    (hown : Own A st) {a : Action} (hc : ActConf A a) (h : doAction st a = Res.ok st') :
    Sim A st.tree st'.tree ∧ Own A st' := by
  have hi := hg.1
  unfold doAction at h
  by_cases hal : allowed st a = true
  · simp only [hal, Bool.not_true, Bool.false_eq_true, if_false] at h
    obtain ⟨w, hw, hf⟩ := allowed_alive hal
    -- the operations that leave `owned` alone
    have same : ∀ {r : Res Tree}, (∀ t', r = Res.ok t' → Sim A st.tree t') →
        (r >>= fun t => pure ({ st with tree := t } : St)) = Res.ok st' → Sim A st.tree st'.tree ∧ Own A st' := by
      intro r hr h
      obtain ⟨t', h1, h⟩ := res_bind_eq_ok.1 h
      cases pure_eq_ok h
      have s := hr t' h1
      exact ⟨s, Own.of_sim (st' := { st with tree := t' }) s (fun _ _ => Nat.le_refl _) hown⟩
    have req : ∀ {c : Change}, (requestHierarchyChange st.tree (treeFuel st.tree) c a.win >>=
        fun t => pure ({ st with tree := t } : St)) = Res.ok st' → Sim A st.tree st'.tree ∧ Own A st' :=
      fun h => same (fun t' h1 => Sim.of_wins hd (request_wins h1)) h
    unfold ActConf at hc
    rcases actOK_all a with ha | ha | ha | ha | ha | ha | ha | ha | ha | ha | ha | ha | ⟨dt, dl, dn, dc, ha⟩ <;>
      simp only [ha] at h hc
    · -- close
      obtain ⟨t1, h1, h⟩ := res_bind_eq_ok.1 h
      cases pure_eq_ok h
      have s1 : Sim A st.tree t1 := close_sim hd hc h1
      have s : Sim A st.tree (normalizeDrag t1) := s1.trans (Sim.of_wins s1.down (normalizeDrag_ok t1).2.1)
      exact ⟨s, Own.of_sim (st' := { st with tree := normalizeDrag t1 }) s (fun _ _ => Nat.le_refl _) hown⟩
    · -- unref
      have hal' := hal
      unfold allowed at hal'
      simp only [hw, hf, Bool.false_eq_true, if_false, ha, Bool.and_eq_true, decide_eq_true_eq, bne_iff_ne, ne_eq,
        List.isEmpty_iff] at hal'
      obtain ⟨⟨_, _⟩, hch⟩ := hal'
      obtain ⟨s, ho⟩ := unref_sim (st := { st with owned := st.owned.setIfInBounds a.win (st.owned.getD a.win 0 - 1) })
        hd hw hf (hi.pos a.win w hw hf) (fun _ => ⟨hch, hc⟩) h
      refine ⟨s, Own.of_sim (st := st) s ?_ hown⟩
      intro x hx
      have hne : a.win ≠ x := fun e => by rw [e] at hc; exact aff_absurd hc hx
      rw [ho]
      show st.owned.getD x 0 ≤ (st.owned.setIfInBounds a.win (st.owned.getD a.win 0 - 1)).getD x 0
      rw [getD_setIfInBounds_ne hne]
      exact Nat.le_refl _
    · -- keep
      obtain ⟨t1, h1, h⟩ := res_bind_eq_ok.1 h
      cases pure_eq_ok h
      unfold WinTree.ref at h1
      have s : Sim A st.tree t1 := by
        refine modify_sim hd ?_ ?_ h1
        · intro w _; exact ⟨rfl, rfl, rfl, rfl, rfl, Kids.refl A _, FcRel.refl A _⟩
        · intro _; rfl
      refine ⟨s, Own.of_sim (st' := { st with tree := t1, owned := _ }) s ?_ hown⟩
      intro x _
      have hlt : a.win < st.owned.size := by
        rw [hi.size]; exact (Array.getElem?_eq_some_iff.1 hw).1
      show st.owned.getD x 0 ≤ (st.owned.setIfInBounds a.win (st.owned.getD a.win 0 + 1)).getD x 0
      rw [getD_setIfInBounds hlt]
      by_cases e : a.win = x
      · rw [if_pos e, e]; exact Nat.le_add_right _ 1
      · rw [if_neg e]; exact Nat.le_refl _
    · exact same (fun t' h1 => hide_sim hd hc h1) h
    · exact same (fun t' h1 => show_sim hd hc h1) h
    · exact same (fun t' h1 => by refine modify_sim_in hd hc ?_ h1; intro _; rfl) h
    · exact same (fun t' h1 => by refine modify_sim_in hd hc ?_ h1; intro _; rfl) h
    · exact req h
    · exact req h
    · exact req h
    · exact req h
    · -- set_geometry of a window of `A`
      exact same (fun t' h1 => by refine modify_sim_in hd hc ?_ h1; intro _; rfl) h
  · simp only [hal, Bool.not_false, if_true] at h
    cases pure_eq_ok h
    exact ⟨Sim.refl hd, Own.of_sim (st' := st.say (.refused a)) (Sim.refl hd) (fun _ _ => Nat.le_refl _) hown⟩

/-- Dropping a reference the dispatcher holds: a window outside `A` is still owned by the application, so it stays;
    a window of `A` may be destroyed (it is childless then), which only unlinks it from its parent. -/
theorem unrefLogged_sim {A : Aff} {st st' : St} {held : List WinTree.Id} {c : WinTree.Id} (hg : Good (c :: held) st)
    (hd : Down A st.tree) (hown : Own A st) (h : unrefLogged st c = Res.ok st') :
    Sim A st.tree st'.tree ∧ Own A st' := by
  have hi := hg.1
  obtain ⟨w, hw, hf⟩ := hi.held c (List.mem_cons_self ..)
  have hrc := hi.rc c w hw hf
  simp only [List.count_cons_self] at hrc
  have hlast : w.refcount = 1 → w.children = [] ∧ A c = true := by
    intro hr
    have ho : st.owned.getD c 0 = 0 := by omega
    refine ⟨hi.leaf c w hw hf ho, ?_⟩
    cases hA : A c with
    | true => rfl
    | false =>
      have := hown c w hA hw hf
      omega
  obtain ⟨s, ho⟩ := unref_sim hd hw hf (by omega) hlast h
  exact ⟨s, Own.of_sim s (fun _ _ => by rw [ho]; exact Nat.le_refl _) hown⟩

end WinInput
end Tickit
