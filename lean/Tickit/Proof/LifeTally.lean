import Tickit.Proof.LifeMouse
/-
  C08 proofs, part 12a: what `tickit_window_unref` (with its cascade and the release of what the dead windows owned)
  leaves alone - the application's tallies of pens, strings, buffers and of the terminal.
-/
namespace Tickit.Life
open WinTree (Id Win Req Change Tree)

/-! ## what `tickit_window_unref` leaves alone: the application's tallies of pens, strings, buffers, the terminal -/

structure Tally (a b : St) : Prop where
  psize : b.pens.size = a.pens.size
  pens : ∀ (k : Nat) (p : Obj), a.pens[k]? = some p → ∃ p', b.pens[k]? = some p' ∧ p'.appRefs = p.appRefs ∧ (p.freed = true → p'.freed = true)
  strs : b.strs = a.strs
  rbs : b.rbs = a.rbs
  tapp : b.term.appRefs = a.term.appRefs
  tfreed : a.term.freed = true → b.term.freed = true

theorem Tally.refl (a : St) : Tally a a := ⟨rfl, fun _ p h => ⟨p, h, rfl, id⟩, rfl, rfl, rfl, id⟩

theorem Tally.trans {a b c : St} (h1 : Tally a b) (h2 : Tally b c) : Tally a c :=
  ⟨h2.psize.trans h1.psize, fun k p hp => by
    obtain ⟨p', hp', ha, hf⟩ := h1.pens k p hp
    obtain ⟨p'', hp'', ha', hf'⟩ := h2.pens k p' hp'
    exact ⟨p'', hp'', ha'.trans ha, fun h => hf' (hf h)⟩,
   h2.strs.trans h1.strs, h2.rbs.trans h1.rbs, h2.tapp.trans h1.tapp, fun h => h2.tfreed (h1.tfreed h)⟩

theorem Tally.of_eq {a b : St} (hp : b.pens = a.pens) (hs : b.strs = a.strs) (hr : b.rbs = a.rbs) (ht : b.term = a.term) : Tally a b :=
  ⟨by rw [hp], fun k p h => ⟨p, by rw [hp]; exact h, rfl, id⟩, hs, hr, by rw [ht], fun h => by rw [ht]; exact h⟩

theorem penUnref_tally {st st' : St} {k : Nat} (h : penUnref st k = .ok st') : Tally st st' := by
  unfold penUnref at h
  split at h
  · cases h
  · rename_i p hp
    split at h
    · cases h
    · split at h
      · cases h
      · simp only [pure_ok, Out.ok.injEq] at h
        subst h
        refine ⟨by simp, ?_, rfl, rfl, rfl, id⟩
        intro j q hq
        simp only [Array.getElem?_setIfInBounds]
        split
        · rename_i hkj
          subst hkj
          rw [hp] at hq; cases hq
          split
          · exact ⟨_, rfl, rfl, fun hf => by rename_i hnf _ _; exact absurd hf hnf⟩
          · rename_i hlt
            have : st.pens[k]? = none := Array.getElem?_eq_none (by omega)
            rw [this] at hp; cases hp
        · exact ⟨q, hq, rfl, id⟩

theorem termUnref_tally {st st' : St} (h : termUnref st = .ok st') : Tally st st' := by
  unfold termUnref at h
  split at h
  · cases h
  · split at h
    · cases h
    · simp only [pure_ok, Out.ok.injEq] at h
      subst h
      rename_i hnf _
      exact ⟨rfl, fun _ p hp => ⟨p, hp, rfl, id⟩, rfl, rfl, rfl, fun hf => absurd hf hnf⟩

theorem releaseWin_tally {st st' : St} {w : Nat} (h : releaseWin st w = .ok st') : Tally st st' := by
  unfold releaseWin at h
  simp only [bind_eq_ok] at h
  obtain ⟨st1, h1, h2⟩ := h
  have T0 : Tally st (setX st w { getX st w with binds := [] }) := Tally.of_eq rfl rfl rfl rfl
  have T1 : Tally st st1 := by
    unfold dropWinPen at h1
    split at h1
    · simp only [pure_ok, Out.ok.injEq] at h1; rw [← h1]; exact T0
    · simp only [pure_ok, Out.ok.injEq] at h1; rw [← h1]; exact T0
    · exact T0.trans (penUnref_tally h1)
  have T2 : Tally st1 (setX st1 w { getX st1 w with pen := .null }) := Tally.of_eq rfl rfl rfl rfl
  split at h2
  · split at h2
    · cases h2
    · exact (T1.trans T2).trans (termUnref_tally h2)
  · simp only [pure_ok, Out.ok.injEq] at h2; rw [← h2]; exact T1.trans T2

theorem foldlM_releaseWin_tally : ∀ (ws : List Nat) {st st' : St}, ws.foldlM releaseWin st = .ok st' → Tally st st'
  | [], st, st', h => by simp only [List.foldlM_nil, pure_ok, Out.ok.injEq] at h; rw [← h]; exact Tally.refl st
  | w :: rest, st, st', h => by
    simp only [List.foldlM_cons, bind_eq_ok] at h
    obtain ⟨st1, h1, h2⟩ := h
    exact (releaseWin_tally h1).trans (foldlM_releaseWin_tally rest h2)

theorem consume_tally : ∀ (dropped : List Nat) (st : St), Tally st (consume st dropped)
  | [], st => Tally.refl st
  | d :: rest, st => by
    show Tally st (consume (setX st d { getX st d with appRefs := (getX st d).appRefs - 1 }) rest)
    have T0 : Tally st (setX st d { getX st d with appRefs := (getX st d).appRefs - 1 }) := Tally.of_eq rfl rfl rfl rfl
    exact T0.trans (consume_tally rest _)

theorem unrefW_tally {cfg : Cfg} {st st' : St} {w : Nat} (h : unrefW cfg st w = .ok st') : Tally st st' := by
  unfold unrefW at h
  simp only [bind_eq_ok] at h
  obtain ⟨r, _, h2⟩ := h
  have T0 : Tally st { st with tree := r.1 } := Tally.of_eq rfl rfl rfl rfl
  exact (T0.trans (consume_tally r.2.2 { st with tree := r.1 })).trans (foldlM_releaseWin_tally r.2.1 h2)

theorem Tally.heldP {a b : St} (T : Tally a b) {k : Nat} (h : heldP a k = false) : heldP b k = false := by
  unfold Life.heldP at h ⊢
  cases ha : a.pens[k]? with
  | none =>
    have : b.pens[k]? = none := by
      apply Array.getElem?_eq_none
      rw [T.psize]
      apply Classical.byContradiction
      intro hlt
      have := Array.getElem?_eq_getElem (xs := a.pens) (i := k) (by omega)
      rw [ha] at this; cases this
    rw [this]
  | some p =>
    obtain ⟨p', hp', hap, hfp⟩ := T.pens k p ha
    rw [ha] at h
    rw [hp']
    simp only [Bool.and_eq_false_iff, Bool.not_eq_false', decide_eq_false_iff_not, Nat.not_lt, Nat.le_zero_eq] at h ⊢
    rcases h with h | h
    · exact .inl (hfp h)
    · exact .inr (by rw [hap]; exact h)

theorem Tally.heldS {a b : St} (T : Tally a b) {k : Nat} (h : heldS a k = false) : heldS b k = false := by
  unfold Life.heldS at h ⊢; rw [T.strs]; exact h

theorem Tally.heldB {a b : St} (T : Tally a b) {k : Nat} (h : heldB a k = false) : heldB b k = false := by
  unfold Life.heldB at h ⊢; rw [T.rbs]; exact h

theorem Tally.heldT {a b : St} (T : Tally a b) (h : heldT a = false) : heldT b = false := by
  unfold Life.heldT at h ⊢
  simp only [Bool.and_eq_false_iff, Bool.not_eq_false', decide_eq_false_iff_not, Nat.not_lt, Nat.le_zero_eq] at h ⊢
  rcases h with h | h
  · exact .inl (T.tfreed h)
  · exact .inr (by rw [T.tapp]; exact h)


/-- The state after something that only releases: the tallies are kept, what was freed stays freed, the application
    takes no window reference. -/
structure EndRel (a b : St) : Prop where
  tally : Tally a b
  later : WLater a b

theorem EndRel.refl (a : St) : EndRel a a := ⟨Tally.refl a, WLater.refl a⟩
theorem EndRel.trans {a b c : St} (h1 : EndRel a b) (h2 : EndRel b c) : EndRel a c := ⟨h1.tally.trans h2.tally, h1.later.trans h2.later⟩

/-- The application holds nothing before, so it holds nothing afterwards. -/
theorem EndRel.noneHeld {a b : St} (h : EndRel a b) (H : NoneHeld a) : NoneHeld b :=
  ⟨fun i => not_heldW_later h.later (H.w i), fun k => h.tally.heldP (H.p k), fun k => h.tally.heldS (H.s k),
   fun k => h.tally.heldB (H.b k), h.tally.heldT H.t⟩

theorem EndRel.of_term (st : St) (tm : Obj) (ha : tm.appRefs = st.term.appRefs) (hf : st.term.freed = true → tm.freed = true) :
    EndRel st { st with term := tm } :=
  ⟨⟨rfl, fun _ p hp => ⟨p, hp, rfl, id⟩, rfl, rfl, ha, hf⟩, ⟨rfl, fun _ w h hf => ⟨w, h, hf⟩, fun _ => Nat.le_refl _⟩⟩

end Tickit.Life
