import Tickit.Proof.WinFocusReq
/-
  C15: how `show` / `hide` maintain the focus chain, and `tickit_window_reposition` of a focused window.

  * `showWin_relinks`: showing a window whose parent has no focused child links the parent to it whenever the window
    carries a link or is focused — in particular when the branch below it ends in the focused window;
  * `hide_show_roundtrip`: hiding a window on the focus chain and showing it again gives back the very same store
    (hence the same `cursorSpec`): the chain reaches the focused window again, however deep it sits;
  * `reposition_requests`: `tickit_window_reposition` of a focused window always leaves a restore pending — whatever
    its cursor cell is like at the new position (no expose is needed for the cursor to follow).
-/
namespace Tickit
namespace WinFocus
open WinTree WinSpec WinFlush

theorem wins_ext {t t' : Tree} (h : ∀ i : Nat, t'.wins[i]? = t.wins[i]?) : t'.wins = t.wins :=
  Array.ext_getElem? h

/-- `hideWin` in terms of the store: the window is marked invisible and its parent's link to it is dropped. -/
theorem hideWin_wins {fx : Fixes} {t t' : Tree} {win p : Nat} {w pw : Win} (hwf : wfB t = true) (hw : Live t win w)
    (hp : w.parent = some p) (hpw : Live t p pw) (hh : hideWin fx t win = .ok t') :
    ∀ i : Nat, t'.wins[i]? =
      if i = win then some { w with isVisible := false }
      else if i = p then some (if pw.focusedChild = some win then { pw with focusedChild := none } else pw)
      else t.wins[i]? := by
  have hpne : p ≠ win := fun hc => by
    have := (wf_parent hwf hw hp).1
    exact absurd (hc ▸ this) (Nat.lt_irrefl _)
  unfold hideWin at hh
  simp only [bind_ok] at hh
  obtain ⟨w0, hgw, t'', h2, hh⟩ := hh
  have := live_unique (get_ok.mp hgw) hw; subst this
  have hwins' : t'.wins = t''.wins := by
    split at hh
    · simp only [pure_ok] at hh; subst hh; rfl
    · simp only [pure_ok] at hh; subst hh; exact chainRestoreAfter_wins _ _ _ _
  rcases hide_struct h2 hw with ⟨hn, _⟩ | ⟨p', pw', hp', hpw', ht⟩
  · rw [hp] at hn; cases hn
  · rw [hp] at hp'; cases hp'
    have hpw'' : pw' = pw := by
      have h1 := hpw'.1
      rw [set_lookup hw.1] at h1
      simp only [Ne.symm hpne, if_false] at h1
      rw [hpw.1] at h1; exact (Option.some.inj h1).symm
    subst hpw''
    intro i
    rw [hwins', ht]
    split
    · rw [set_lookup hpw'.1, set_lookup hw.1]
      by_cases hi : i = win
      · subst hi; simp [hpne]
      · by_cases hip : i = p
        · subst hip; simp [hi]
        · simp [hi, hip, Ne.symm hi, Ne.symm hip]
    · next hne =>
      rw [set_lookup hw.1]
      by_cases hi : i = win
      · subst hi; simp
      · by_cases hip : i = p
        · subst hip; simp [hi, Ne.symm hi, hne, hpw.1]
        · simp [hi, hip, Ne.symm hi]

/-- `showWin` in terms of the store: the window is marked visible and, when its parent has no focused child and the
    window carries a link or is focused, the parent is linked to it. -/
theorem showWin_wins {fx : Fixes} {t t' : Tree} {win p : Nat} {w pw : Win} (hwf : wfB t = true) (hw : Live t win w)
    (hp : w.parent = some p) (hpw : Live t p pw) (hh : showWin fx t win = .ok t') :
    ∀ i : Nat, t'.wins[i]? =
      if i = win then some { w with isVisible := true }
      else if i = p then
        some (if pw.focusedChild.isNone && (w.focusedChild.isSome || w.isFocused) then { pw with focusedChild := some win }
              else pw)
      else t.wins[i]? := by
  have hpne : p ≠ win := fun hc => by
    have := (wf_parent hwf hw hp).1
    exact absurd (hc ▸ this) (Nat.lt_irrefl _)
  unfold showWin at hh
  simp only [bind_ok, pure_ok] at hh
  obtain ⟨w0, hgw, t'', h2, hh⟩ := hh
  have := live_unique (get_ok.mp hgw) hw; subst this
  subst hh
  rcases show_struct h2 hw with ⟨hn, _⟩ | ⟨p', pw', hp', hpw', ht⟩
  · rw [hp] at hn; cases hn
  · rw [hp] at hp'; cases hp'
    have hpw'' : pw' = pw := by
      have h1 := hpw'.1
      rw [set_lookup hw.1] at h1
      simp only [Ne.symm hpne, if_false] at h1
      rw [hpw.1] at h1; exact (Option.some.inj h1).symm
    subst hpw''
    intro i
    rw [chainRestoreAfter_wins, ht]
    split
    · next hc =>
      rw [set_lookup hpw'.1, set_lookup hw.1]
      by_cases hi : i = win
      · subst hi; simp [hpne]
      · by_cases hip : i = p
        · subst hip; simp [hi, hc]
        · simp [hi, hip, Ne.symm hi, Ne.symm hip]
    · next hc =>
      rw [set_lookup hw.1]
      by_cases hi : i = win
      · subst hi; simp
      · by_cases hip : i = p
        · subst hip; simp [hi, Ne.symm hi, hc, hpw.1]
        · simp [hi, hip, Ne.symm hi]

/-- Showing a window whose parent has no focused child relinks the parent to it whenever the window carries a link or is
    focused itself (every state of the source). -/
theorem showWin_relinks {fx : Fixes} {t t' : Tree} {win p : Nat} {w pw : Win} (hwf : wfB t = true) (hw : Live t win w)
    (hp : w.parent = some p) (hpw : Live t p pw) (hnone : pw.focusedChild = none)
    (hlat : w.focusedChild.isSome = true ∨ w.isFocused = true) (hh : showWin fx t win = .ok t') :
    ∃ pw', t'.wins[p]? = some pw' ∧ pw'.focusedChild = some win := by
  have hpne : p ≠ win := fun hc => by
    have := (wf_parent hwf hw hp).1
    exact absurd (hc ▸ this) (Nat.lt_irrefl _)
  have h := showWin_wins hwf hw hp hpw hh p
  simp only [hpne, if_false, if_true] at h
  have hc : (pw.focusedChild.isNone && (w.focusedChild.isSome || w.isFocused)) = true := by
    rw [hnone]; rcases hlat with h1 | h1 <;> simp [h1]
  rw [hc] at h
  exact ⟨_, h, rfl⟩

/-- Hiding a visible window the focus chain runs through and showing it again gives back the same store: every link,
    every flag, hence the same `cursorSpec` — however deep below the window the focused one sits. -/
theorem hide_show_roundtrip {fx : Fixes} {t t1 t2 : Tree} {win p : Nat} {w pw : Win} (hwf : wfB t = true)
    (hwf1 : wfB t1 = true) (hw : Live t win w) (hv : w.isVisible = true) (hp : w.parent = some p) (hpw : Live t p pw)
    (hl : pw.focusedChild = some win) (hlat : w.focusedChild.isSome = true ∨ w.isFocused = true)
    (h1 : hideWin fx t win = .ok t1) (h2 : showWin fx t1 win = .ok t2) : t2.wins = t.wins := by
  have hpne : p ≠ win := fun hc => by
    have := (wf_parent hwf hw hp).1
    exact absurd (hc ▸ this) (Nat.lt_irrefl _)
  have e1 := hideWin_wins hwf hw hp hpw h1
  have hw1 : Live t1 win { w with isVisible := false } := ⟨by rw [e1 win]; simp, hw.2⟩
  have hpw1 : Live t1 p { pw with focusedChild := none } := ⟨by rw [e1 p]; simp [hpne, hl], hpw.2⟩
  have e2 := showWin_wins hwf1 hw1 hp hpw1 h2
  apply wins_ext
  intro i
  rw [e2 i]
  by_cases hi : i = win
  · subst hi
    simp only [if_true]
    rw [hw.1]
    congr 1
    cases w; simp at hv ⊢; exact hv
  · by_cases hip : i = p
    · subst hip
      simp only [hi, if_false, if_true]
      have hc : ((none : Option Nat).isNone && (w.focusedChild.isSome || w.isFocused)) = true := by
        rcases hlat with h | h <;> simp [h]
      simp only [hc, if_true]
      rw [hpw.1]
      congr 1
      cases pw; simp at hl ⊢; exact hl.symm
    · simp only [hi, hip, if_false]
      rw [e1 i]; simp [hi, hip]

/-- `tickit_window_reposition` of a focused window leaves a restore pending, whatever the new position is like. -/
theorem reposition_requests {t t' : Tree} {win : Nat} {w : Win} {top left : Int} (hw : Live t win w)
    (hf : w.isFocused = true) (h : reposition t win top left = .ok t') :
    t'.root.needsRestore = true ∧ t'.root.needsLater = true := by
  unfold reposition at h
  simp only [bind_ok] at h
  obtain ⟨w0, hg0, x, hx, h⟩ := h
  have := live_unique (get_ok.mp hg0) hw; subst this
  obtain ⟨t1, b⟩ := x
  simp only [] at h
  -- the window is still focused after the geometry change
  have hw1 : ∃ w1, Live t1 win w1 ∧ w1.isFocused = true := by
    unfold setGeometry at hx
    simp only [bind_ok] at hx
    obtain ⟨w2, hg2, hx⟩ := hx
    have := live_unique (get_ok.mp hg2) hw; subst this
    split at hx
    · simp only [pure_ok, Prod.mk.injEq] at hx
      rw [← hx.1]
      exact ⟨{ w2 with rect := ⟨top, left, w2.rect.lines, w2.rect.cols⟩ }, ⟨by rw [set_lookup hw.1]; simp, hw.2⟩, hf⟩
    · simp only [pure_ok, Prod.mk.injEq] at hx
      rw [← hx.1]; exact ⟨w2, hw, hf⟩
  obtain ⟨w1, hw1, hf1⟩ := hw1
  unfold restoreIfFocused at h
  simp only [bind_ok] at h
  obtain ⟨w3, hg3, h⟩ := h
  have := live_unique (get_ok.mp hg3) hw1; subst this
  simp only [hf1, if_true] at h
  unfold requestRestoreOf at h
  simp only [bind_ok, pure_ok] at h
  obtain ⟨_, _, h⟩ := h
  subst h
  exact ⟨rfl, rfl⟩

end WinFocus
end Tickit
