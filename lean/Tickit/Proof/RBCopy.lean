import Tickit.Model.RB
import Tickit.Model.RBCopy
/-
  Helper lemmas for C13 (copyrect / moverect / blit).

  Part 1: the auxiliary state (size, cursor, translation, clip, pen, depth, stack) is untouched by every
  cell-drawing primitive and restored by `savepen; setpen; …; restore`.
-/
namespace Tickit.RBCopy
open Tickit Tickit.RB

/-! ## Part 1: auxiliary state -/

/-- Two buffers agree on everything but the cells and the two sticky flags. -/
structure SameAux (a b : RB) : Prop where
  lines : a.lines = b.lines
  cols : a.cols = b.cols
  vcSet : a.vcSet = b.vcSet
  vcLine : a.vcLine = b.vcLine
  vcCol : a.vcCol = b.vcCol
  xlLine : a.xlLine = b.xlLine
  xlCol : a.xlCol = b.xlCol
  clip : a.clip = b.clip
  pen : a.pen = b.pen
  depth : a.depth = b.depth
  stack : a.stack = b.stack

theorem SameAux.refl {a : RB} : SameAux a a :=
  ⟨Eq.refl _, Eq.refl _, Eq.refl _, Eq.refl _, Eq.refl _, Eq.refl _, Eq.refl _, Eq.refl _, Eq.refl _, Eq.refl _, Eq.refl _⟩

theorem SameAux.symm {a b : RB} (h : SameAux a b) : SameAux b a :=
  ⟨h.1.symm, h.2.symm, h.3.symm, h.4.symm, h.5.symm, h.6.symm, h.7.symm, h.8.symm, h.9.symm, h.10.symm, h.11.symm⟩

theorem SameAux.trans {a b c : RB} (h : SameAux a b) (g : SameAux b c) : SameAux a c :=
  ⟨h.1.trans g.1, h.2.trans g.2, h.3.trans g.3, h.4.trans g.4, h.5.trans g.5, h.6.trans g.6, h.7.trans g.7,
   h.8.trans g.8, h.9.trans g.9, h.10.trans g.10, h.11.trans g.11⟩

theorem sameAux_setRow (rb : RB) (l : Int) (r : Row) : SameAux (rb.setRow l r) rb :=
  ⟨rfl, rfl, rfl, rfl, rfl, rfl, rfl, rfl, rfl, rfl, rfl⟩

theorem sameAux_updCell (rb : RB) (l c : Int) (f : Cell → Cell) : SameAux (rb.updCell l c f) rb :=
  ⟨rfl, rfl, rfl, rfl, rfl, rfl, rfl, rfl, rfl, rfl, rfl⟩

theorem sameAux_makeSpan (rb : RB) (l c n : Int) : SameAux (makeSpan rb l c n) rb :=
  ⟨rfl, rfl, rfl, rfl, rfl, rfl, rfl, rfl, rfl, rfl, rfl⟩

theorem sameAux_aborted (rb : RB) : SameAux { rb with aborted := true } rb :=
  ⟨rfl, rfl, rfl, rfl, rfl, rfl, rfl, rfl, rfl, rfl, rfl⟩

theorem sameAux_fuelOut (rb : RB) : SameAux { rb with fuelOut := true } rb :=
  ⟨rfl, rfl, rfl, rfl, rfl, rfl, rfl, rfl, rfl, rfl, rfl⟩

theorem sameAux_placeRuns (fill : Cell → Int → Cell) (line : Int) :
    ∀ (fuel : Nat) (rb : RB) (col cols startcol : Int), SameAux (placeRuns fill line fuel rb col cols startcol) rb := by
  intro fuel
  induction fuel with
  | zero =>
    intro rb col cols startcol
    unfold placeRuns
    split
    · exact SameAux.refl
    · exact sameAux_fuelOut rb
  | succ n ih =>
    intro rb col cols startcol
    unfold placeRuns
    split
    · exact SameAux.refl
    · simp only []
      split
      · exact SameAux.refl
      · split
        · exact SameAux.refl
        · exact (ih _ _ _ _).trans ((sameAux_updCell _ _ _ _).trans (sameAux_makeSpan _ _ _ _))

theorem sameAux_skipRun (rb : RB) (l c n : Int) : SameAux (skipRun rb l c n) rb := by
  unfold skipRun; split
  · exact SameAux.refl
  · exact sameAux_placeRuns _ _ _ _ _ _ _

theorem sameAux_eraseRun (rb : RB) (l c n : Int) : SameAux (eraseRun rb l c n) rb := by
  unfold eraseRun; split
  · exact SameAux.refl
  · exact sameAux_placeRuns _ _ _ _ _ _ _

theorem sameAux_putStringSlice (rb : RB) (l c : Int) (s : List UInt8) (o n : Int) :
    SameAux (putStringSlice rb l c s o n) rb := by
  unfold putStringSlice; split
  · exact SameAux.refl
  · exact sameAux_placeRuns _ _ _ _ _ _ _

theorem sameAux_putString (rb : RB) (l c : Int) (s : List UInt8) : SameAux (putString rb l c s) rb := by
  unfold putString; split
  · exact SameAux.refl
  · unfold putStringCols; split
    · exact SameAux.refl
    · exact sameAux_placeRuns _ _ _ _ _ _ _

theorem sameAux_putChar (rb : RB) (l c cp : Int) : SameAux (putChar rb l c cp) rb := by
  unfold putChar; split
  · exact SameAux.refl
  · split
    · exact SameAux.refl
    · exact (sameAux_updCell _ _ _ _).trans (sameAux_makeSpan _ _ _ _)

theorem sameAux_linecell (rb : RB) (l c : Int) (bits : Nat) : SameAux (linecell rb l c bits) rb := by
  unfold linecell; split
  · exact SameAux.refl
  · split
    · exact SameAux.refl
    · refine (sameAux_updCell _ _ _ _).trans ?_
      split
      · exact (sameAux_updCell _ _ _ _).trans (sameAux_makeSpan _ _ _ _)
      · split
        · exact sameAux_updCell _ _ _ _
        · exact SameAux.refl

theorem sameAux_dispatch (byRef copySkip : Bool) (cell : Cell) (offset cols : Int) (d : RB) (line col : Int) :
    SameAux (dispatch byRef copySkip cell offset cols d line col) d := by
  unfold dispatch
  split
  · split
    · exact sameAux_skipRun _ _ _ _
    · exact SameAux.refl
  · split
    · exact sameAux_putStringSlice _ _ _ _ _ _
    · exact sameAux_putString _ _ _ _
  · exact sameAux_eraseRun _ _ _ _
  · exact sameAux_linecell _ _ _ _
  · exact sameAux_putChar _ _ _ _
  · exact sameAux_aborted _

/-- `savepen; setpen; <anything that keeps the auxiliary state>; restore` brings the auxiliary state back. -/
theorem sameAux_restore_of_savepen (d d2 : RB) (p : Option Pen) (h : SameAux d2 (setpen (savepen d) p)) :
    SameAux (restore d2) d := by
  have hs : d2.stack = { penOnly := true, pen := d.pen } :: d.stack := by rw [h.stack]; rfl
  unfold restore
  rw [hs]
  simp only [Bool.not_true, Bool.false_eq_true, if_false]
  refine ⟨?_, ?_, ?_, ?_, ?_, ?_, ?_, ?_, ?_, ?_, ?_⟩ <;> simp only []
  · exact h.lines
  · exact h.cols
  · exact h.vcSet
  · exact h.vcLine
  · exact h.vcCol
  · exact h.xlLine
  · exact h.xlCol
  · exact h.clip
  · rw [h.depth]; show d.depth + 1 - 1 = d.depth; omega

theorem sameAux_drawPiece_skip (byRef copySkip : Bool) (cell : Cell) (offset cols : Int) (dst : RB) (line col : Int)
    (h : cell.state = .skip) : SameAux (drawPiece byRef copySkip cell offset cols dst line col) dst := by
  unfold drawPiece
  simp only [h, ne_eq, not_true_eq_false, if_false]
  exact sameAux_dispatch _ _ _ _ _ _ _ _

theorem sameAux_drawPiece_active (byRef copySkip : Bool) (cell : Cell) (offset cols : Int) (dst : RB) (line col : Int)
    (h : cell.state ≠ .skip) :
    SameAux (drawPiece byRef copySkip cell offset cols dst line col) (setpen (savepen dst) (some cell.pen)) := by
  unfold drawPiece
  simp only [h, ne_eq, not_false_eq_true, if_true]
  exact sameAux_dispatch _ _ _ _ _ _ _ _

theorem sameAux_copyPiece (byRef copySkip : Bool) (cell : Cell) (offset cols : Int) (dst : RB) (line col : Int) :
    SameAux (copyPiece byRef copySkip cell offset cols dst line col) dst := by
  unfold copyPiece
  by_cases h : cell.state = .skip
  · simp only [h, ne_eq, not_true_eq_false, if_false]
    exact sameAux_drawPiece_skip _ _ _ _ _ _ _ _ h
  · simp only [h, ne_eq, not_false_eq_true, if_true]
    exact sameAux_restore_of_savepen _ _ _ (sameAux_drawPiece_active _ _ _ _ _ _ _ _ h)

/-- The repaired body: buffer and next column in closed form. -/
theorem body_captured (v : Variant) (hv : v.capture = true) (same copySkip : Bool) (src : RB) (sr : Rect)
    (lineoffs coloffs : Int) (leftwards : Bool) (line : Int) (dst : RB) (col : Int) :
    body v same copySkip src sr lineoffs coloffs leftwards line dst col =
      (let S := if same then dst else src
       let lk := look S sr leftwards line col
       let cell := S.cell line lk.hcol
       let run := cell.cols - lk.offset
       { rb := copyPiece v.byRef copySkip cell lk.offset (pieceCols sr lk run) dst (line + lineoffs) (lk.col + coloffs)
         col := if leftwards then lk.col - 1 else lk.col + run }) := by
  unfold body pieceRun
  simp only [hv, if_true]

theorem sameAux_body (v : Variant) (hv : v.capture = true) (same copySkip : Bool) (src : RB) (sr : Rect)
    (lineoffs coloffs : Int) (leftwards : Bool) (line : Int) (dst : RB) (col : Int) :
    SameAux (body v same copySkip src sr lineoffs coloffs leftwards line dst col).rb dst := by
  rw [body_captured v hv]
  exact sameAux_copyPiece _ _ _ _ _ _ _ _

theorem sameAux_colLoop (v : Variant) (hv : v.capture = true) (same copySkip : Bool) (src : RB) (sr : Rect)
    (lineoffs coloffs : Int) (leftwards : Bool) (line : Int) :
    ∀ (fuel : Nat) (dst : RB) (col : Int),
      SameAux (colLoop v same copySkip src sr lineoffs coloffs leftwards line fuel dst col) dst := by
  intro fuel
  induction fuel with
  | zero =>
    intro dst col
    unfold colLoop
    split
    · exact sameAux_fuelOut _
    · exact SameAux.refl
  | succ n ih =>
    intro dst col
    unfold colLoop
    split
    · exact (ih _ _).trans (sameAux_body v hv _ _ _ _ _ _ _ _ _ _)
    · exact SameAux.refl

theorem sameAux_lineLoop (f : RB → Int → RB) (hf : ∀ rb l, SameAux (f rb l) rb) (step : Int) :
    ∀ (n : Nat) (rb : RB) (line : Int), SameAux (lineLoop f step n rb line) rb := by
  intro n
  induction n with
  | zero => intro rb line; exact SameAux.refl
  | succ n ih => intro rb line; unfold lineLoop; exact (ih _ _).trans (hf _ _)

theorem sameAux_copyrect (v : Variant) (hv : v.capture = true) (same copySkip : Bool) (dst src : RB) (dr sr : Rect) :
    SameAux (copyrect v same copySkip dst src dr sr) dst := by
  unfold copyrect
  split
  · exact SameAux.refl
  · simp only []
    split
    · exact SameAux.refl
    · exact sameAux_lineLoop _ (fun rb l => sameAux_colLoop v hv _ _ _ _ _ _ _ _ _ _ _) _ _ _ _

theorem sameAux_forLines (f : RB → Int → RB) (hf : ∀ rb l, SameAux (f rb l) rb) :
    ∀ (n : Nat) (rb : RB) (from_ : Int), SameAux (forLines f rb from_ n) rb := by
  intro n
  induction n with
  | zero => intro rb _; exact SameAux.refl
  | succ n ih => intro rb from_; unfold forLines; exact (ih _ _).trans (hf _ _)

theorem sameAux_skiprect (rb : RB) (r : Rect) : SameAux (skiprect rb r) rb := by
  unfold skiprect
  exact sameAux_forLines _ (fun rb l => sameAux_skipRun _ _ _ _) _ _ _

theorem sameAux_foldl_skiprect : ∀ (rects : List Rect) (rb : RB), SameAux (rects.foldl skiprect rb) rb := by
  intro rects
  induction rects with
  | nil => intro rb; exact SameAux.refl
  | cons r rs ih => intro rb; exact (ih _).trans (sameAux_skiprect _ _)

theorem sameAux_copy (v : Variant) (hv : v.capture = true) (rb : RB) (dr sr : Rect) : SameAux (copy v rb dr sr) rb :=
  sameAux_copyrect v hv _ _ _ _ _ _

theorem sameAux_move (v : Variant) (hv : v.capture = true) (rb : RB) (dr sr : Rect) : SameAux (move v rb dr sr) rb := by
  unfold move
  simp only []
  split
  · exact (sameAux_fuelOut _).trans (sameAux_copy v hv _ _ _)
  · exact (sameAux_foldl_skiprect _ _).trans (sameAux_copy v hv _ _ _)

theorem sameAux_blit (v : Variant) (hv : v.capture = true) (same : Bool) (dst src : RB) :
    SameAux (blit v same dst src) dst :=
  sameAux_copyrect v hv _ _ _ _ _ _

end Tickit.RBCopy
