import Tickit.Proof.RBCopyRow
import Tickit.Proof.RBCopy
/-
  Buffer-level lemmas for C13: what the cell-drawing primitives of Model/RB.lean (`placeRuns` behind `skip`, `erase`
  and `put_string_slice`; `put_char`; `linecell`) do to a well-formed buffer, cell-wise.
-/
namespace Tickit.RBCopy
open Tickit Tickit.RB

/-- Well-formedness of a buffer, as far as C13 needs it (implied by the invariant of the render-buffer engine):
    every line has the run structure, mask depths lie in `[-1, depth]`, the clip rectangle lies inside the
    buffer (or is empty: `clip.lines = 0`). -/
structure WF (rb : RB) : Prop where
  rows : ∀ l, 0 ≤ l → l < rb.lines → RowWF rb.cols (rb.cells l)
  mask : ∀ l c, 0 ≤ l → l < rb.lines → 0 ≤ c → c < rb.cols →
    -1 ≤ ((rb.cells l).get c).maskdepth ∧ ((rb.cells l).get c).maskdepth ≤ rb.depth
  clip : rb.clip.lines = 0 ∨
    (0 ≤ rb.clip.top ∧ rb.clip.top + rb.clip.lines ≤ rb.lines ∧ 0 ≤ rb.clip.left ∧ rb.clip.left + rb.clip.cols ≤ rb.cols)

theorem Row.ext' {a b : Row} (h : ∀ k, a.get k = b.get k) : a = b := by
  cases a; cases b; simp only [Row.mk.injEq]; funext k; exact h k

/-! ### `xlate_and_clip` -/

theorem xlate_some {rb : RB} {line col cols : Int} {r : Clipped} (h : xlateAndClip rb line col cols = some r) :
    r.line = line + rb.xlLine ∧ rb.clip.lines ≠ 0 ∧ rb.clip.top ≤ r.line ∧ r.line < rb.clip.top + rb.clip.lines ∧
    r.col = max (col + rb.xlCol) rb.clip.left ∧
    r.col + r.cols = min (col + rb.xlCol + cols) (rb.clip.left + rb.clip.cols) ∧
    r.startcol = r.col - (col + rb.xlCol) ∧
    rb.clip.left < col + rb.xlCol + cols ∧ col + rb.xlCol < rb.clip.left + rb.clip.cols := by
  have hb : rb.clip.bottom = rb.clip.top + rb.clip.lines := rfl
  have hr : rb.clip.right = rb.clip.left + rb.clip.cols := rfl
  unfold xlateAndClip at h
  simp only [] at h
  by_cases c0 : rb.clip.lines = 0
  · rw [if_pos c0] at h; exact absurd h (by simp)
  · rw [if_neg c0] at h
    by_cases c1 : line + rb.xlLine < rb.clip.top ∨ line + rb.xlLine ≥ rb.clip.bottom ∨ col + rb.xlCol ≥ rb.clip.right
    · rw [if_pos c1] at h; exact absurd h (by simp)
    · rw [if_neg c1] at h
      by_cases c2 : col + rb.xlCol < rb.clip.left
      · simp only [c2, if_true] at h
        by_cases c3 : cols - (rb.clip.left - (col + rb.xlCol)) ≤ 0
        · rw [if_pos c3] at h; exact absurd h (by simp)
        · rw [if_neg c3] at h
          simp only [Option.some.injEq] at h
          subst h
          simp only []
          by_cases c4 : cols - (rb.clip.left - (col + rb.xlCol)) > rb.clip.right - rb.clip.left
          · simp only [c4, if_true]; and_intros <;> first | trivial | omega
          · simp only [c4, if_false]; and_intros <;> first | trivial | omega
      · simp only [c2, if_false] at h
        by_cases c3 : cols ≤ 0
        · rw [if_pos c3] at h; exact absurd h (by simp)
        · rw [if_neg c3] at h
          simp only [Option.some.injEq] at h
          subst h
          simp only []
          by_cases c4 : cols > rb.clip.right - (col + rb.xlCol)
          · simp only [c4, if_true]; and_intros <;> first | trivial | omega
          · simp only [c4, if_false]; and_intros <;> first | trivial | omega

theorem absClip_iff (rb : RB) (L C : Int) :
    absClip rb L C = true ↔ rb.clip.lines ≠ 0 ∧ rb.clip.top ≤ L ∧ L < rb.clip.top + rb.clip.lines ∧
      rb.clip.left ≤ C ∧ C < rb.clip.left + rb.clip.cols := by
  unfold absClip Rect.memb Rect.bottom Rect.right
  simp only [Bool.and_eq_true, decide_eq_true_eq]
  constructor
  · rintro ⟨h0, ⟨⟨h1, h2⟩, h3⟩, h4⟩; exact ⟨h0, h1, h2, h3, h4⟩
  · rintro ⟨h0, h1, h2, h3, h4⟩; exact ⟨h0, ⟨⟨h1, h2⟩, h3⟩, h4⟩

theorem xlate_none {rb : RB} {line col cols : Int} (h : xlateAndClip rb line col cols = none) (C : Int)
    (h1 : col + rb.xlCol ≤ C) (h2 : C < col + rb.xlCol + cols) : absClip rb (line + rb.xlLine) C = false := by
  have hb : rb.clip.bottom = rb.clip.top + rb.clip.lines := rfl
  have hr : rb.clip.right = rb.clip.left + rb.clip.cols := rfl
  rw [Bool.eq_false_iff]
  intro hcl
  rw [absClip_iff] at hcl
  unfold xlateAndClip at h
  simp only [] at h
  rw [if_neg hcl.1] at h
  by_cases c1 : line + rb.xlLine < rb.clip.top ∨ line + rb.xlLine ≥ rb.clip.bottom ∨ col + rb.xlCol ≥ rb.clip.right
  · omega
  · rw [if_neg c1] at h
    by_cases c2 : col + rb.xlCol < rb.clip.left
    · simp only [c2, if_true] at h
      by_cases c3 : cols - (rb.clip.left - (col + rb.xlCol)) ≤ 0
      · omega
      · rw [if_neg c3] at h; exact absurd h (by simp)
    · simp only [c2, if_false] at h
      by_cases c3 : cols ≤ 0
      · omega
      · rw [if_neg c3] at h; exact absurd h (by simp)

/-- Inside the clip exactly the columns of the clipped run. -/
theorem xlate_some_clip {rb : RB} {line col cols : Int} {r : Clipped} (h : xlateAndClip rb line col cols = some r)
    (C : Int) (h1 : col + rb.xlCol ≤ C) (h2 : C < col + rb.xlCol + cols) :
    absClip rb (line + rb.xlLine) C = true ↔ (r.col ≤ C ∧ C < r.col + r.cols) := by
  have hx := xlate_some h
  rw [absClip_iff]
  constructor
  · intro hh; omega
  · intro hh; refine ⟨hx.2.1, ?_, ?_, ?_, ?_⟩ <;> omega

/-! ### The two scanning loops of `placeRuns` -/

theorem maskedLen_spec (row : Row) : ∀ (n : Nat) (col : Int),
    maskedLen row n col ≤ n ∧
    (∀ j : Int, 0 ≤ j → j < maskedLen row n col → (row.get (col + j)).maskdepth > -1) ∧
    (maskedLen row n col < n → ¬ (row.get (col + maskedLen row n col)).maskdepth > -1) := by
  intro n
  induction n with
  | zero => intro col; simp [maskedLen]; intro j h0 h1; omega
  | succ n ih =>
    intro col
    unfold maskedLen
    by_cases h : (row.get col).maskdepth > -1
    · simp only [h, if_true]
      have ⟨i1, i2, i3⟩ := ih (col + 1)
      refine ⟨by omega, ?_, ?_⟩
      · intro j hj0 hj
        by_cases hz : j = 0
        · subst hz; simpa using h
        · have := i2 (j - 1) (by omega) (by omega)
          have e : col + 1 + (j - 1) = col + j := by omega
          rwa [e] at this
      · intro hlt
        have := i3 (by omega)
        have e : col + 1 + (maskedLen row n (col + 1) : Int) = col + ((maskedLen row n (col + 1) + 1 : Nat) : Int) := by omega
        rwa [e] at this
    · simp only [h, if_false]
      refine ⟨by omega, fun j hj0 hj => by omega, fun _ => by simpa using h⟩

theorem unmaskedLen_spec (row : Row) : ∀ (n : Nat) (col : Int),
    unmaskedLen row n col ≤ n ∧
    (∀ j : Int, 0 ≤ j → j < unmaskedLen row n col → (row.get (col + j)).maskdepth = -1) ∧
    (unmaskedLen row n col < n → ¬ (row.get (col + unmaskedLen row n col)).maskdepth = -1) := by
  intro n
  induction n with
  | zero => intro col; simp [unmaskedLen]; intro j h0 h1; omega
  | succ n ih =>
    intro col
    unfold unmaskedLen
    by_cases h : (row.get col).maskdepth = -1
    · simp only [h, if_true]
      have ⟨i1, i2, i3⟩ := ih (col + 1)
      refine ⟨by omega, ?_, ?_⟩
      · intro j hj0 hj
        by_cases hz : j = 0
        · subst hz; simpa using h
        · have := i2 (j - 1) (by omega) (by omega)
          have e : col + 1 + (j - 1) = col + j := by omega
          rwa [e] at this
      · intro hlt
        have := i3 (by omega)
        have e : col + 1 + (unmaskedLen row n (col + 1) : Int) = col + ((unmaskedLen row n (col + 1) + 1 : Nat) : Int) := by omega
        rwa [e] at this
    · simp only [h, if_false]
      refine ⟨by omega, fun j hj0 hj => by omega, fun _ => by simpa using h⟩

/-! ### One span: `make_span` + the assignments, at buffer level -/

theorem spanStep_cells (rb : RB) (line col len : Int) (f : Cell → Cell) :
    ((makeSpan rb line col len).updCell line col f).cells line = spanRow rb.cols (rb.cells line) col len f ∧
    (∀ l, l ≠ line → ((makeSpan rb line col len).updCell line col f).cells l = rb.cells l) := by
  unfold makeSpan RB.updCell RB.setRow RB.cell spanRow
  simp only [if_true]
  refine ⟨trivial, fun l hl => ?_⟩
  simp only [hl, if_false]

theorem sameAux_spanStep (rb : RB) (line col len : Int) (f : Cell → Cell) :
    SameAux ((makeSpan rb line col len).updCell line col f) rb :=
  (sameAux_updCell _ _ _ _).trans (sameAux_makeSpan _ _ _ _)

theorem flags_spanStep {rb : RB} (hwf : WF rb) (line col len : Int) (f : Cell → Cell)
    (hl0 : 0 ≤ line) (hl1 : line < rb.lines) (hc0 : 0 ≤ col) (h1 : 1 ≤ len) (hcn : col + len ≤ rb.cols) :
    ((makeSpan rb line col len).updCell line col f).aborted = rb.aborted ∧
    ((makeSpan rb line col len).updCell line col f).fuelOut = rb.fuelOut := by
  refine ⟨?_, rfl⟩
  show (rb.aborted || makeSpanAborts rb.cols (rb.cells line) col len) = rb.aborted
  rw [makeSpanAborts_false (hwf.rows line hl0 hl1) col len hc0 h1 hcn, Bool.or_false]

theorem wf_spanStep {rb : RB} (hwf : WF rb) (line col len : Int) (f : Cell → Cell) (hf : FillOK f len)
    (hl0 : 0 ≤ line) (hl1 : line < rb.lines) (hc0 : 0 ≤ col) (h1 : 1 ≤ len) (hcn : col + len ≤ rb.cols)
    (hm : ∀ c, col ≤ c → c < col + len → ((rb.cells line).get c).maskdepth = -1) :
    WF ((makeSpan rb line col len).updCell line col f) ∧
    (∀ c, 0 ≤ c → c < rb.cols →
      ((((makeSpan rb line col len).updCell line col f).cells line).get c).maskdepth = ((rb.cells line).get c).maskdepth) := by
  have hc := spanStep_cells rb line col len f
  have ha := sameAux_spanStep rb line col len f
  have hmask : ∀ c, 0 ≤ c → c < rb.cols →
      ((((makeSpan rb line col len).updCell line col f).cells line).get c).maskdepth = ((rb.cells line).get c).maskdepth := by
    intro c hc0' hc1'
    rw [hc.1, spanRow_mask (hwf.rows line hl0 hl1) col len f hf hc0 h1 hcn c]
    by_cases hin : col ≤ c ∧ c < col + len
    · simp only [hin, and_self, if_true]; exact (hm c hin.1 hin.2).symm
    · simp only [hin, if_false]
  refine ⟨⟨?_, ?_, ?_⟩, hmask⟩
  · intro l h0 h1'
    rw [ha.cols]
    by_cases hl : l = line
    · subst hl; rw [hc.1]; exact spanRow_wf (hwf.rows l hl0 hl1) col len f hf hc0 h1 hcn
    · rw [hc.2 l hl]; exact hwf.rows l h0 (by rw [← ha.lines]; exact h1')
  · intro l c h0 h1' h2 h3
    rw [ha.lines] at h1'; rw [ha.cols] at h3; rw [ha.depth]
    by_cases hl : l = line
    · subst hl; rw [hmask c h2 h3]; exact hwf.mask l c h0 h1' h2 h3
    · rw [hc.2 l hl]; exact hwf.mask l c h0 h1' h2 h3
  · rw [ha.clip, ha.lines, ha.cols]; exact hwf.clip

/-! ### `placeRuns` -/

/-- The assignments after `make_span` in `put_string_slice` / `skip` / `erase`, as a family indexed by `startcol`,
    and what the cells of such a run show. -/
structure FillFam (fill : Cell → Int → Cell) (cnt : Int → Content) : Prop where
  ok : ∀ sc len, FillOK (fun c => fill c sc) len
  content : ∀ c sc off, cellContent (fill c sc) off = cnt (sc + off)

theorem fillFam_text (pen : Pen) (s : List UInt8) : FillFam (fillText pen s) (fun j => .text pen s j) :=
  ⟨fun _ _ => ⟨fun _ h => h, fun _ => rfl, fun _ => by simp [fillText], fun _ h => by simp [fillText] at h⟩,
   fun _ _ _ => rfl⟩

theorem fillFam_skip : FillFam fillSkip (fun _ => .skip) :=
  ⟨fun _ _ => ⟨fun _ h => h, fun _ => rfl, fun _ => by simp [fillSkip], fun _ h => by simp [fillSkip] at h⟩,
   fun _ _ _ => rfl⟩

theorem fillFam_erase (pen : Pen) : FillFam (fillErase pen) (fun _ => .erase pen) :=
  ⟨fun _ _ => ⟨fun _ h => h, fun _ => rfl, fun _ => by simp [fillErase], fun _ h => by simp [fillErase] at h⟩,
   fun _ _ _ => rfl⟩

/-- What `placeRuns` does to line `line`: the unmasked cells of `[col, col + cols)` show the new run, everything
    else (content, mask depths, the other lines, the auxiliary state) is as before. -/
structure PlaceSpec (cnt : Int → Content) (rb rb' : RB) (line col cols startcol : Int) : Prop where
  aux : SameAux rb' rb
  wf : WF rb'
  others : ∀ l, l ≠ line → rb'.cells l = rb.cells l
  mask : ∀ c, 0 ≤ c → c < rb.cols → ((rb'.cells line).get c).maskdepth = ((rb.cells line).get c).maskdepth
  content : ∀ c, 0 ≤ c → c < rb.cols → rowContent (rb'.cells line) c =
      if col ≤ c ∧ c < col + cols ∧ ((rb.cells line).get c).maskdepth = -1 then cnt (startcol + (c - col))
      else rowContent (rb.cells line) c
  heads : ∀ c, 0 ≤ c → c < rb.cols → ¬ (col ≤ c ∧ c < col + cols) → ((rb.cells line).get c).state ≠ .cont →
      ((rb'.cells line).get c).state ≠ .cont
  flags : rb'.aborted = rb.aborted ∧ rb'.fuelOut = rb.fuelOut

theorem placeSpec_same {cnt : Int → Content} {rb : RB} (hwf : WF rb) (line col cols sc : Int)
    (h : ∀ c, col ≤ c → c < col + cols → ((rb.cells line).get c).maskdepth ≠ -1) :
    PlaceSpec cnt rb rb line col cols sc := by
  refine ⟨SameAux.refl, hwf, fun _ _ => rfl, fun _ _ _ => rfl, fun c _ _ => ?_, fun _ _ _ _ h => h, ⟨rfl, rfl⟩⟩
  have : ¬ (col ≤ c ∧ c < col + cols ∧ ((rb.cells line).get c).maskdepth = -1) := fun hh => h c hh.1 hh.2.1 hh.2.2
  simp only [this, if_false]

theorem placeRuns_spec {fill : Cell → Int → Cell} {cnt : Int → Content} (hfill : FillFam fill cnt) (line : Int) :
    ∀ (fuel : Nat) (rb : RB) (col cols startcol : Int), WF rb → 0 ≤ line → line < rb.lines → 0 ≤ col → 0 ≤ cols →
      col + cols ≤ rb.cols → cols < fuel →
      PlaceSpec cnt rb (placeRuns fill line fuel rb col cols startcol) line col cols startcol := by
  intro fuel
  induction fuel with
  | zero => intro rb col cols sc _ _ _ _ h0 _ hf; omega
  | succ n ih =>
    intro rb col cols sc hwf hl0 hl1 hc0 hcols hcn hfuel
    unfold placeRuns
    by_cases hz : cols = 0
    · simp only [hz, if_true]
      exact placeSpec_same hwf line col 0 sc (fun c h1 h2 => by omega)
    · simp only [hz, if_false]
      have hm := maskedLen_spec (rb.cells line) cols.toNat col
      generalize hmdef : maskedLen (rb.cells line) cols.toNat col = m at hm ⊢
      by_cases hz2 : cols - (m : Int) = 0
      · simp only [hz2, if_true]
        exact placeSpec_same hwf line col cols sc (fun c h1 h2 => by
          have := hm.2.1 (c - col) (by omega) (by omega)
          have e : col + (c - col) = c := by omega
          rw [e] at this; omega)
      · simp only [hz2, if_false]
        have hu := unmaskedLen_spec (rb.cells line) (cols - (m : Int)).toNat (col + (m : Int))
        generalize hudef : unmaskedLen (rb.cells line) (cols - (m : Int)).toNat (col + (m : Int)) = u at hu ⊢
        have hmlt : m < cols.toNat := by omega
        have hnotmasked := hm.2.2 hmlt
        have hfirst : ((rb.cells line).get (col + (m : Int))).maskdepth = -1 := by
          have := (hwf.mask line (col + (m : Int)) hl0 hl1 (by omega) (by omega)).1
          omega
        have hupos : 1 ≤ u := by
          by_cases hu0 : u = 0
          · exfalso
            have := hu.2.2 (by omega)
            rw [hu0] at this
            simp only [Int.natCast_zero, Int.add_zero] at this
            exact this hfirst
          · omega
        have hunz : ¬ ((u : Int) = 0) := by omega
        simp only [hunz, if_false]
        -- the span [col + m, col + m + u)
        have hspanmask : ∀ c, col + (m : Int) ≤ c → c < col + (m : Int) + (u : Int) →
            ((rb.cells line).get c).maskdepth = -1 := by
          intro c h1 h2
          have := hu.2.1 (c - (col + (m : Int))) (by omega) (by omega)
          have e : col + (m : Int) + (c - (col + (m : Int))) = c := by omega
          rwa [e] at this
        have hfok := hfill.ok (sc + (m : Int)) (u : Int)
        have hcells := spanStep_cells rb line (col + (m : Int)) (u : Int) (fun c => fill c (sc + (m : Int)))
        have haux1 := sameAux_spanStep rb line (col + (m : Int)) (u : Int) (fun c => fill c (sc + (m : Int)))
        have hwf1 := wf_spanStep hwf line (col + (m : Int)) (u : Int) (fun c => fill c (sc + (m : Int))) hfok
          hl0 hl1 (by omega) (by omega) (by omega) hspanmask
        have hrec := ih ((makeSpan rb line (col + (m : Int)) (u : Int)).updCell line (col + (m : Int)) (fun c => fill c (sc + (m : Int))))
          (col + (m : Int) + (u : Int)) (cols - (m : Int) - (u : Int)) (sc + (m : Int) + (u : Int)) hwf1.1 hl0
          (by rw [haux1.lines]; exact hl1) (by omega) (by omega) (by rw [haux1.cols]; omega) (by omega)
        have hc1 : ∀ c : Int, c < rb.cols → c < ((makeSpan rb line (col + (m : Int)) (u : Int)).updCell line (col + (m : Int)) (fun c => fill c (sc + (m : Int)))).cols :=
          fun c h => by rw [haux1.cols]; exact h
        have hfl1 := flags_spanStep hwf line (col + (m : Int)) (u : Int) (fun c => fill c (sc + (m : Int)))
          hl0 hl1 (by omega) (by omega) (by omega)
        refine ⟨hrec.aux.trans haux1, hrec.wf, ?_, ?_, ?_, ?_, ⟨hrec.flags.1.trans hfl1.1, hrec.flags.2.trans hfl1.2⟩⟩
        · intro l hl; rw [hrec.others l hl, hcells.2 l hl]
        · intro c h0 h1; rw [hrec.mask c h0 (hc1 c h1), hwf1.2 c h0 h1]
        · intro c h0 h1
          rw [hrec.content c h0 (hc1 c h1), hwf1.2 c h0 h1, hcells.1,
            spanRow_content (hwf.rows line hl0 hl1) (col + (m : Int)) (u : Int) _ hfok (by omega) (by omega) (by omega) c h0 h1]
          by_cases hA : col + (m : Int) + (u : Int) ≤ c ∧ c < col + (m : Int) + (u : Int) + (cols - (m : Int) - (u : Int)) ∧
              ((rb.cells line).get c).maskdepth = -1
          · have hB : col ≤ c ∧ c < col + cols ∧ ((rb.cells line).get c).maskdepth = -1 := ⟨by omega, by omega, hA.2.2⟩
            simp only [hA, hB, and_self, if_true]
            congr 1; omega
          · simp only [hA, if_false]
            by_cases hS : col + (m : Int) ≤ c ∧ c < col + (m : Int) + (u : Int)
            · have hB : col ≤ c ∧ c < col + cols ∧ ((rb.cells line).get c).maskdepth = -1 :=
                ⟨by omega, by omega, hspanmask c hS.1 hS.2⟩
              simp only [hS, hB, and_self, if_true]
              rw [hfill.content]
              congr 1; omega
            · simp only [hS, if_false]
              have hB : ¬ (col ≤ c ∧ c < col + cols ∧ ((rb.cells line).get c).maskdepth = -1) := by
                intro hB
                by_cases hlt : c < col + (m : Int)
                · have := hm.2.1 (c - col) (by omega) (by omega)
                  have e : col + (c - col) = c := by omega
                  rw [e] at this; omega
                · exact hA ⟨by omega, by omega, hB.2.2⟩
              simp only [hB, if_false]
        · intro c h0 h1 hout hst
          apply hrec.heads c h0 (hc1 c h1) (by omega)
          rw [hcells.1]
          exact spanRow_head_stays (hwf.rows line hl0 hl1) (col + (m : Int)) (u : Int) _ (by omega) (by omega) (by omega) c
            (by omega) hst

theorem placeRuns_neg (fill : Cell → Int → Cell) (line : Int) (fuel : Nat) (rb : RB) (col cols sc : Int)
    (h : cols < 0) : placeRuns fill line (fuel + 1) rb col cols sc = rb := by
  unfold placeRuns
  have h0 : ¬ cols = 0 := by omega
  have ht : cols.toNat = 0 := by omega
  simp only [h0, if_false, ht, maskedLen, Int.natCast_zero, Int.sub_zero, Int.add_zero, unmaskedLen, if_true]

/-! ### Drawing operations at buffer level -/

/-- The effect of a drawing operation on a well-formed buffer, cell-wise: the writable cells of
    `(L0, [C0, C0 + n))` (buffer coordinates) show `newc C old`, everything else is as before. -/
structure DrawSpec (rb rb' : RB) (L0 C0 n : Int) (newc : Int → Content → Content) : Prop where
  aux : SameAux rb' rb
  wf : WF rb'
  mask : ∀ l c, 0 ≤ l → l < rb.lines → 0 ≤ c → c < rb.cols →
    ((rb'.cells l).get c).maskdepth = ((rb.cells l).get c).maskdepth
  content : ∀ L C, absContent rb' L C =
    if L = L0 ∧ C0 ≤ C ∧ C < C0 + n ∧ writable rb L C = true then newc C (absContent rb L C) else absContent rb L C
  heads : ∀ l c, 0 ≤ l → l < rb.lines → 0 ≤ c → c < rb.cols → ¬ (l = L0 ∧ C0 ≤ c ∧ c < C0 + n) →
    ((rb.cells l).get c).state ≠ .cont → ((rb'.cells l).get c).state ≠ .cont
  flags : rb'.aborted = rb.aborted ∧ rb'.fuelOut = rb.fuelOut

theorem drawSpec_refl {rb : RB} (hwf : WF rb) (L0 C0 n : Int) (newc : Int → Content → Content)
    (h : ∀ C, C0 ≤ C → C < C0 + n → writable rb L0 C = false) : DrawSpec rb rb L0 C0 n newc := by
  refine ⟨SameAux.refl, hwf, fun _ _ _ _ _ _ => rfl, fun L C => ?_, fun _ _ _ _ _ _ _ h => h, ⟨rfl, rfl⟩⟩
  by_cases hc : L = L0 ∧ C0 ≤ C ∧ C < C0 + n ∧ writable rb L C = true
  · have := h C hc.2.1 hc.2.2.1
    rw [hc.1] at hc; rw [this] at hc; simp at hc
  · simp only [hc, if_false]

theorem writable_iff (rb : RB) (L C : Int) :
    writable rb L C = true ↔ (0 ≤ L ∧ L < rb.lines ∧ 0 ≤ C ∧ C < rb.cols) ∧ absClip rb L C = true ∧
      ¬ ((rb.cells L).get C).maskdepth > -1 := by
  unfold writable absMasked RB.cell
  simp only [Bool.and_eq_true, decide_eq_true_eq, Bool.not_eq_true', decide_eq_false_iff_not]
  constructor
  · rintro ⟨⟨h1, h2⟩, h3⟩; exact ⟨h1, h2, h3⟩
  · rintro ⟨h1, h2, h3⟩; exact ⟨⟨h1, h2⟩, h3⟩

/-- `skip` / `erase` / `put_string_slice`: `xlate_and_clip` followed by `placeRuns`. -/
theorem runOp_spec {fill : Cell → Int → Cell} {cnt : Int → Content} (hfill : FillFam fill cnt) {rb : RB} (hwf : WF rb)
    (line col cols : Int) (scOf : Clipped → Int) (cntAt : Int → Content)
    (hcnt : ∀ r, xlateAndClip rb line col cols = some r → ∀ C, cnt (scOf r + (C - r.col)) = cntAt C) :
    DrawSpec rb
      (match xlateAndClip rb line col cols with
       | none => rb
       | some r => placeRuns fill r.line (r.cols.toNat + 1) rb r.col r.cols (scOf r))
      (line + rb.xlLine) (col + rb.xlCol) cols (fun C _ => cntAt C) := by
  cases hx : xlateAndClip rb line col cols with
  | none =>
    simp only []
    apply drawSpec_refl hwf
    intro C h1 h2
    rw [Bool.eq_false_iff]; intro hw
    have := (writable_iff rb _ C).1 hw
    rw [xlate_none hx C h1 h2] at this
    simp at this
  | some r =>
    simp only []
    have hxs := xlate_some hx
    have hclip : 0 ≤ rb.clip.top ∧ rb.clip.top + rb.clip.lines ≤ rb.lines ∧ 0 ≤ rb.clip.left ∧
        rb.clip.left + rb.clip.cols ≤ rb.cols := by
      rcases hwf.clip with h | h
      · exact absurd h hxs.2.1
      · exact h
    have hl0 : 0 ≤ r.line := by omega
    have hl1 : r.line < rb.lines := by omega
    by_cases hneg : r.cols < 0
    · rw [placeRuns_neg _ _ _ _ _ _ _ hneg]
      apply drawSpec_refl hwf
      intro C h1 h2
      rw [Bool.eq_false_iff]; intro hw
      have hw' := (writable_iff rb _ C).1 hw
      have := (xlate_some_clip hx C h1 h2).1 hw'.2.1
      omega
    · have hp := placeRuns_spec hfill r.line (r.cols.toNat + 1) rb r.col r.cols (scOf r) hwf hl0 hl1
        (by omega) (by omega) (by omega) (by omega)
      refine ⟨hp.aux, hp.wf, ?_, ?_, ?_, hp.flags⟩
      · intro l c h0 h1 h2 h3
        by_cases hl : l = r.line
        · subst hl; exact hp.mask c h2 h3
        · rw [hp.others l hl]
      · intro L C
        rw [absContent_eq, absContent_eq, hp.aux.lines, hp.aux.cols]
        by_cases hg : 0 ≤ L ∧ L < rb.lines ∧ 0 ≤ C ∧ C < rb.cols
        · rw [if_pos hg, if_pos hg]
          by_cases hl : L = r.line
          · subst hl
            rw [hp.content C hg.2.2.1 hg.2.2.2]
            have hmk := (hwf.mask r.line C hg.1 hg.2.1 hg.2.2.1 hg.2.2.2).1
            by_cases hA : r.col ≤ C ∧ C < r.col + r.cols ∧ ((rb.cells r.line).get C).maskdepth = -1
            · have hin : col + rb.xlCol ≤ C ∧ C < col + rb.xlCol + cols := by omega
              have hB : r.line = line + rb.xlLine ∧ col + rb.xlCol ≤ C ∧ C < col + rb.xlCol + cols ∧
                  writable rb r.line C = true := by
                refine ⟨hxs.1, hin.1, hin.2, (writable_iff rb _ C).2 ⟨hg, ?_, by omega⟩⟩
                rw [hxs.1]; exact (xlate_some_clip hx C hin.1 hin.2).2 ⟨hA.1, hA.2.1⟩
              rw [if_pos hA, if_pos hB]
              exact hcnt r hx C
            · have hB : ¬ (r.line = line + rb.xlLine ∧ col + rb.xlCol ≤ C ∧ C < col + rb.xlCol + cols ∧
                  writable rb r.line C = true) := by
                intro hB
                have hw := (writable_iff rb _ C).1 hB.2.2.2
                have hc := hw.2.1
                rw [hxs.1] at hc
                have := (xlate_some_clip hx C hB.2.1 hB.2.2.1).1 hc
                exact hA ⟨this.1, this.2, by omega⟩
              rw [if_neg hA, if_neg hB]
          · rw [hp.others L hl]
            have hB : ¬ (L = line + rb.xlLine ∧ col + rb.xlCol ≤ C ∧ C < col + rb.xlCol + cols ∧ writable rb L C = true) := by
              intro hB; exact hl (by rw [hB.1, hxs.1])
            rw [if_neg hB]
        · have hB : ¬ (L = line + rb.xlLine ∧ col + rb.xlCol ≤ C ∧ C < col + rb.xlCol + cols ∧ writable rb L C = true) := by
            intro hB; exact hg ((writable_iff rb _ C).1 hB.2.2.2).1
          rw [if_neg hg, if_neg hB, if_neg hg]
      · intro l c h0 h1 h2 h3 hout hst
        by_cases hl : l = r.line
        · subst hl
          by_cases hin : r.col ≤ c ∧ c < r.col + r.cols
          · exfalso; apply hout; refine ⟨hxs.1, ?_, ?_⟩ <;> omega
          · exact hp.heads c h2 h3 hin hst
        · rw [hp.others l hl]; exact hst

theorem skipRun_spec {rb : RB} (hwf : WF rb) (line col cols : Int) :
    DrawSpec rb (skipRun rb line col cols) (line + rb.xlLine) (col + rb.xlCol) cols (fun _ _ => .skip) := by
  have := runOp_spec fillFam_skip hwf line col cols (fun _ => 0) (fun _ => .skip) (fun _ _ _ => rfl)
  unfold skipRun; exact this

theorem eraseRun_spec {rb : RB} (hwf : WF rb) (line col cols : Int) :
    DrawSpec rb (eraseRun rb line col cols) (line + rb.xlLine) (col + rb.xlCol) cols (fun _ _ => .erase rb.pen) := by
  have := runOp_spec (fillFam_erase rb.pen) hwf line col cols (fun _ => 0) (fun _ => .erase rb.pen) (fun _ _ _ => rfl)
  unfold eraseRun; exact this

theorem putStringSlice_spec {rb : RB} (hwf : WF rb) (line col : Int) (s : List UInt8) (offs cols : Int) :
    DrawSpec rb (putStringSlice rb line col s offs cols) (line + rb.xlLine) (col + rb.xlCol) cols
      (fun C _ => .text rb.pen s (offs + (C - (col + rb.xlCol)))) := by
  have := runOp_spec (fillFam_text rb.pen s) hwf line col cols (fun r => r.startcol + offs)
    (fun C => .text rb.pen s (offs + (C - (col + rb.xlCol))))
    (fun r hr C => by
      have hx := xlate_some hr
      show Content.text rb.pen s (r.startcol + offs + (C - r.col)) = _
      congr 1; omega)
  unfold putStringSlice; exact this

/-! ### Single cells: `put_char`, `linecell` -/

theorem RowWF.congr {n : Int} {a b : Row} (h : ∀ k, a.get k = b.get k) (hb : RowWF n b) : RowWF n a := by
  have : a = b := Row.ext' h
  rw [this]; exact hb

theorem updCell_get (rb : RB) (l c : Int) (f : Cell → Cell) (l' c' : Int) :
    ((rb.updCell l c f).cells l').get c' = if l' = l ∧ c' = c then f ((rb.cells l).get c) else (rb.cells l').get c' := by
  unfold RB.updCell RB.setRow RB.cell rowSet
  by_cases hl : l' = l
  · subst hl
    by_cases hc : c' = c
    · simp only [hc, and_self, if_true]
    · simp only [hc, and_false, if_false, if_true]
  · simp only [hl, false_and, if_false]

/-- A specification only looks at the cells and the auxiliary state. -/
theorem DrawSpec.congr {rb rb1 rb2 : RB} {L0 C0 n : Int} {newc : Int → Content → Content}
    (h : DrawSpec rb rb1 L0 C0 n newc) (ha : SameAux rb2 rb1)
    (hc : ∀ l c, (rb2.cells l).get c = (rb1.cells l).get c)
    (hf : rb2.aborted = rb1.aborted ∧ rb2.fuelOut = rb1.fuelOut) : DrawSpec rb rb2 L0 C0 n newc := by
  have hrow : ∀ l, rb2.cells l = rb1.cells l := fun l => Row.ext' (hc l)
  refine ⟨ha.trans h.aux, ⟨?_, ?_, ?_⟩, ?_, ?_, ?_, ⟨hf.1.trans h.flags.1, hf.2.trans h.flags.2⟩⟩
  · intro l h0 h1; rw [hrow l, ha.cols]; exact h.wf.rows l h0 (by rw [← ha.lines]; exact h1)
  · intro l c h0 h1 h2 h3; rw [hrow l, ha.depth]; exact h.wf.mask l c h0 (by rw [← ha.lines]; exact h1) h2 (by rw [← ha.cols]; exact h3)
  · rw [ha.clip, ha.lines, ha.cols]; exact h.wf.clip
  · intro l c h0 h1 h2 h3; rw [hrow l]; exact h.mask l c h0 h1 h2 h3
  · intro L C
    rw [← h.content L C, absContent_eq, absContent_eq, hrow L, ha.lines, ha.cols]
  · intro l c h0 h1 h2 h3 ho hs; rw [hrow l]; exact h.heads l c h0 h1 h2 h3 ho hs

/-- What `xlate_and_clip` returns for a single column. -/
theorem xlate_one {rb : RB} {line col : Int} {r : Clipped} (h : xlateAndClip rb line col 1 = some r) :
    r.line = line + rb.xlLine ∧ r.col = col + rb.xlCol ∧ r.cols = 1 ∧ absClip rb (line + rb.xlLine) (col + rb.xlCol) = true := by
  have hx := xlate_some h
  have hc := (xlate_some_clip h (col + rb.xlCol) (Int.le_refl _) (by omega)).2 (by omega)
  refine ⟨hx.1, by omega, by omega, hc⟩

/-- One new one-column run at a visible, unmasked cell. -/
theorem span1_spec {rb : RB} (hwf : WF rb) (line col : Int) {r : Clipped} (hx : xlateAndClip rb line col 1 = some r)
    (hunm : ¬ ((rb.cells r.line).get r.col).maskdepth > -1) (f : Cell → Cell) (hf : FillOK f 1)
    (newc : Int → Content → Content)
    (hv : ∀ x, cellContent (f x) 0 = newc (col + rb.xlCol) (absContent rb (line + rb.xlLine) (col + rb.xlCol))) :
    DrawSpec rb ((makeSpan rb r.line r.col r.cols).updCell r.line r.col f) (line + rb.xlLine) (col + rb.xlCol) 1 newc := by
  have h1 := xlate_one hx
  have hxs := xlate_some hx
  have hclip : 0 ≤ rb.clip.top ∧ rb.clip.top + rb.clip.lines ≤ rb.lines ∧ 0 ≤ rb.clip.left ∧
      rb.clip.left + rb.clip.cols ≤ rb.cols := by
    rcases hwf.clip with h | h
    · exact absurd h hxs.2.1
    · exact h
  have hcl := (absClip_iff rb _ _).1 h1.2.2.2
  have hl0 : 0 ≤ r.line := by omega
  have hl1 : r.line < rb.lines := by omega
  have hc0 : 0 ≤ r.col := by omega
  have hc1 : r.col + 1 ≤ rb.cols := by omega
  rw [h1.2.2.1]
  have hm1 : ((rb.cells r.line).get r.col).maskdepth = -1 := by
    have := (hwf.mask r.line r.col hl0 hl1 hc0 (by omega)).1; omega
  have hspan : ∀ c, r.col ≤ c → c < r.col + 1 → ((rb.cells r.line).get c).maskdepth = -1 := by
    intro c h1 h2; have : c = r.col := by omega
    rw [this]; exact hm1
  have hcells := spanStep_cells rb r.line r.col 1 f
  have haux := sameAux_spanStep rb r.line r.col 1 f
  have hwf1 := wf_spanStep hwf r.line r.col 1 f hf hl0 hl1 hc0 (Int.le_refl _) hc1 hspan
  have hwr : writable rb r.line r.col = true :=
    (writable_iff rb _ _).2 ⟨⟨hl0, hl1, hc0, by omega⟩, by rw [h1.1, h1.2.1]; exact h1.2.2.2, hunm⟩
  refine ⟨haux, hwf1.1, ?_, ?_, ?_, flags_spanStep hwf r.line r.col 1 f hl0 hl1 hc0 (Int.le_refl _) hc1⟩
  · intro l c h0 h1' h2 h3
    by_cases hl : l = r.line
    · subst hl; exact hwf1.2 c h2 h3
    · rw [hcells.2 l hl]
  · intro L C
    rw [absContent_eq, absContent_eq, haux.lines, haux.cols]
    by_cases hg : 0 ≤ L ∧ L < rb.lines ∧ 0 ≤ C ∧ C < rb.cols
    · rw [if_pos hg, if_pos hg]
      by_cases hl : L = r.line
      · subst hl
        rw [hcells.1, spanRow_content (hwf.rows r.line hl0 hl1) r.col 1 f hf hc0 (Int.le_refl _) hc1 C hg.2.2.1 hg.2.2.2]
        by_cases hA : r.col ≤ C ∧ C < r.col + 1
        · have hC : C = r.col := by omega
          have hB : r.line = line + rb.xlLine ∧ col + rb.xlCol ≤ C ∧ C < col + rb.xlCol + 1 ∧ writable rb r.line C = true :=
            ⟨h1.1, by omega, by omega, by rw [hC]; exact hwr⟩
          rw [if_pos hA, if_pos hB, hC, Int.sub_self, hv, ← h1.1, ← h1.2.1, absContent_eq, if_pos ⟨hl0, hl1, hc0, by omega⟩]
        · have hB : ¬ (r.line = line + rb.xlLine ∧ col + rb.xlCol ≤ C ∧ C < col + rb.xlCol + 1 ∧ writable rb r.line C = true) := by
            intro hB; apply hA; omega
          rw [if_neg hA, if_neg hB]
      · rw [hcells.2 L hl]
        have hB : ¬ (L = line + rb.xlLine ∧ col + rb.xlCol ≤ C ∧ C < col + rb.xlCol + 1 ∧ writable rb L C = true) := by
          intro hB; exact hl (by rw [hB.1, h1.1])
        rw [if_neg hB]
    · have hB : ¬ (L = line + rb.xlLine ∧ col + rb.xlCol ≤ C ∧ C < col + rb.xlCol + 1 ∧ writable rb L C = true) := by
        intro hB; exact hg ((writable_iff rb _ C).1 hB.2.2.2).1
      rw [if_neg hg, if_neg hB, if_neg hg]
  · intro l c h0 h1' h2 h3 hout hst
    by_cases hl : l = r.line
    · subst hl
      rw [hcells.1]
      exact spanRow_head_stays (hwf.rows r.line hl0 hl1) r.col 1 f hc0 (Int.le_refl _) hc1 c
        (by intro hin; apply hout; refine ⟨h1.1, ?_, ?_⟩ <;> omega) hst
    · rw [hcells.2 l hl]; exact hst

theorem putChar_spec {rb : RB} (hwf : WF rb) (line col cp : Int) :
    DrawSpec rb (putChar rb line col cp) (line + rb.xlLine) (col + rb.xlCol) 1 (fun _ _ => .char rb.pen cp) := by
  unfold putChar
  cases hx : xlateAndClip rb line col 1 with
  | none =>
    simp only []
    apply drawSpec_refl hwf
    intro C h1 h2
    rw [Bool.eq_false_iff]; intro hw
    have := (writable_iff rb _ C).1 hw
    rw [xlate_none hx C h1 h2] at this
    simp at this
  | some r =>
    simp only []
    have h1 := xlate_one hx
    by_cases hm : (rb.cell r.line r.col).maskdepth > -1
    · rw [if_pos hm]
      apply drawSpec_refl hwf
      intro C h2 h3
      rw [Bool.eq_false_iff]; intro hw
      have hw' := (writable_iff rb _ C).1 hw
      have : C = r.col := by omega
      rw [this, ← h1.1] at hw'
      exact hw'.2.2 hm
    · rw [if_neg hm]
      exact span1_spec hwf line col hx hm (fun c => { c with state := .char, pen := rb.pen, cp := cp })
        ⟨fun _ h => h, fun _ => rfl, fun _ => by simp, fun _ _ => rfl⟩ (fun _ _ => .char rb.pen cp) (fun _ => rfl)

/-- The run structure only looks at `state` and `cols`. -/
theorem rowWF_of_shape {n : Int} {a b : Row} (h : ∀ k, (a.get k).state = (b.get k).state ∧ (a.get k).cols = (b.get k).cols)
    (hb : RowWF n b) : RowWF n a := by
  have hs := fun k => (h k).1
  have hc := fun k => (h k).2
  refine ⟨?_, ?_, ?_⟩
  · intro k h0 h1 hst
    rw [hs] at hst
    have := hb.cont k h0 h1 hst
    rw [hc k, hs, hc]; exact this
  · intro k h0 h1 hst
    rw [hs] at hst
    have := hb.head k h0 h1 hst
    rw [hc k]
    refine ⟨this.1, this.2.1, fun j hj1 hj2 => ?_⟩
    rw [hs, hc]; exact this.2.2 j hj1 hj2
  · intro k h0 h1 hst
    rw [hs] at hst
    rw [hc]; exact hb.one k h0 h1 hst

/-- Changing pen / line mask of a visible, unmasked LINE cell. -/
theorem paint1_spec {rb : RB} (hwf : WF rb) (line col : Int) {r : Clipped} (hx : xlateAndClip rb line col 1 = some r)
    (hunm : ¬ ((rb.cells r.line).get r.col).maskdepth > -1) (hline : ((rb.cells r.line).get r.col).state = .line)
    (g : Cell → Cell) (hg : ∀ x, (g x).state = x.state ∧ (g x).cols = x.cols ∧ (g x).maskdepth = x.maskdepth)
    (newc : Int → Content → Content)
    (hv : cellContent (g ((rb.cells r.line).get r.col)) 0 =
      newc (col + rb.xlCol) (absContent rb (line + rb.xlLine) (col + rb.xlCol))) :
    DrawSpec rb (rb.updCell r.line r.col g) (line + rb.xlLine) (col + rb.xlCol) 1 newc := by
  have h1 := xlate_one hx
  have hxs := xlate_some hx
  have hclip : 0 ≤ rb.clip.top ∧ rb.clip.top + rb.clip.lines ≤ rb.lines ∧ 0 ≤ rb.clip.left ∧
      rb.clip.left + rb.clip.cols ≤ rb.cols := by
    rcases hwf.clip with h | h
    · exact absurd h hxs.2.1
    · exact h
  have hcl := (absClip_iff rb _ _).1 h1.2.2.2
  have hl0 : 0 ≤ r.line := by omega
  have hl1 : r.line < rb.lines := by omega
  have hc0 : 0 ≤ r.col := by omega
  have hc1 : r.col < rb.cols := by omega
  have hone : ((rb.cells r.line).get r.col).cols = 1 := (hwf.rows r.line hl0 hl1).one r.col hc0 hc1 (Or.inl hline)
  have hget := updCell_get rb r.line r.col g
  have hshape : ∀ l k, (((rb.updCell r.line r.col g).cells l).get k).state = ((rb.cells l).get k).state ∧
      (((rb.updCell r.line r.col g).cells l).get k).cols = ((rb.cells l).get k).cols ∧
      (((rb.updCell r.line r.col g).cells l).get k).maskdepth = ((rb.cells l).get k).maskdepth := by
    intro l k
    rw [hget]
    by_cases hh : l = r.line ∧ k = r.col
    · rw [if_pos hh, hh.1, hh.2]; exact hg _
    · rw [if_neg hh]; exact ⟨rfl, rfl, rfl⟩
  have haux : SameAux (rb.updCell r.line r.col g) rb := sameAux_updCell _ _ _ _
  have hwr : writable rb r.line r.col = true :=
    (writable_iff rb _ _).2 ⟨⟨hl0, hl1, hc0, hc1⟩, by rw [h1.1, h1.2.1]; exact h1.2.2.2, hunm⟩
  refine ⟨haux, ⟨?_, ?_, hwf.clip⟩, ?_, ?_, ?_, ⟨rfl, rfl⟩⟩
  · intro l h0 h1'
    exact rowWF_of_shape (fun k => ⟨(hshape l k).1, (hshape l k).2.1⟩) (hwf.rows l h0 h1')
  · intro l c h0 h1' h2 h3
    rw [(hshape l c).2.2]; exact hwf.mask l c h0 h1' h2 h3
  · intro l c _ _ _ _; exact (hshape l c).2.2
  · intro L C
    rw [absContent_eq, absContent_eq, haux.lines, haux.cols]
    by_cases hgr : 0 ≤ L ∧ L < rb.lines ∧ 0 ≤ C ∧ C < rb.cols
    · rw [if_pos hgr, if_pos hgr]
      by_cases hA : L = r.line ∧ C = r.col
      · have hB : L = line + rb.xlLine ∧ col + rb.xlCol ≤ C ∧ C < col + rb.xlCol + 1 ∧ writable rb L C = true :=
          ⟨by omega, by omega, by omega, by rw [hA.1, hA.2]; exact hwr⟩
        rw [if_pos hB, hA.1, hA.2]
        have hst : (((rb.updCell r.line r.col g).cells r.line).get r.col).state ≠ .cont := by
          rw [(hshape r.line r.col).1, hline]; simp
        rw [rowContent_head hst, hget, if_pos ⟨rfl, rfl⟩, hv, ← h1.1, ← h1.2.1, absContent_eq,
          if_pos ⟨hl0, hl1, hc0, hc1⟩]
      · have hB : ¬ (L = line + rb.xlLine ∧ col + rb.xlCol ≤ C ∧ C < col + rb.xlCol + 1 ∧ writable rb L C = true) := by
          intro hB; apply hA; omega
        rw [if_neg hB]
        -- the cell itself is unchanged, and so is the start cell of its run
        have hsame : ((rb.updCell r.line r.col g).cells L).get C = (rb.cells L).get C := by
          rw [hget, if_neg hA]
        unfold rowContent
        rw [hsame]
        by_cases hcont : ((rb.cells L).get C).state = .cont
        · rw [if_pos hcont, if_pos hcont]
          have hrun := (hwf.rows L hgr.1 hgr.2.1).run_of_cont hgr.2.2.1 hgr.2.2.2 hcont
          have hne : ¬ (L = r.line ∧ ((rb.cells L).get C).cols = r.col) := by
            intro hh
            have h4 := hrun.2.2.2.1
            have h2 := hrun.2.1
            rw [hh.2] at h4 h2
            rw [hh.1] at h4
            rw [hone] at h4
            omega
          rw [hget, if_neg hne]
        · rw [if_neg hcont, if_neg hcont]
    · have hB : ¬ (L = line + rb.xlLine ∧ col + rb.xlCol ≤ C ∧ C < col + rb.xlCol + 1 ∧ writable rb L C = true) := by
        intro hB; exact hgr ((writable_iff rb _ C).1 hB.2.2.2).1
      rw [if_neg hgr, if_neg hB, if_neg hgr]
  · intro l c _ _ _ _ _ hst
    rw [(hshape l c).1]; exact hst

theorem updCell_updCell_get (rb : RB) (l c : Int) (f g : Cell → Cell) (l' c' : Int) :
    (((rb.updCell l c f).updCell l c g).cells l').get c' = ((rb.updCell l c (fun x => g (f x))).cells l').get c' := by
  by_cases h : l' = l ∧ c' = c
  · obtain ⟨rfl, rfl⟩ := h
    simp only [updCell_get, and_self, if_true]
  · simp only [updCell_get, h, if_false]

/-- What a cell that is not a LINE start cell shows is not a line. -/
theorem absContent_not_line {rb : RB} (hwf : WF rb) {L C : Int} (hg : 0 ≤ L ∧ L < rb.lines ∧ 0 ≤ C ∧ C < rb.cols)
    (hst : ((rb.cells L).get C).state ≠ .line) (p : Pen) (m : Nat) : absContent rb L C ≠ .line p m := by
  rw [absContent_eq, if_pos hg]
  unfold rowContent cellContent
  by_cases hc : ((rb.cells L).get C).state = .cont
  · rw [if_pos hc]
    rcases (hwf.rows L hg.1 hg.2.1).head_kind hg.2.2.1 hg.2.2.2 hc with h | h | h <;> rw [h] <;> simp
  · rw [if_neg hc]
    cases h : ((rb.cells L).get C).state <;> simp_all

theorem linecell_spec {rb : RB} (hwf : WF rb) (line col : Int) (bits : Nat) :
    DrawSpec rb (linecell rb line col bits) (line + rb.xlLine) (col + rb.xlCol) 1
      (fun _ old => mergeLine rb.pen bits old) := by
  unfold linecell
  cases hx : xlateAndClip rb line col 1 with
  | none =>
    simp only []
    apply drawSpec_refl hwf
    intro C h1 h2
    rw [Bool.eq_false_iff]; intro hw
    have := (writable_iff rb _ C).1 hw
    rw [xlate_none hx C h1 h2] at this
    simp at this
  | some r =>
    simp only []
    have h1 := xlate_one hx
    have hxs := xlate_some hx
    by_cases hm : (rb.cell r.line r.col).maskdepth > -1
    · rw [if_pos hm]
      apply drawSpec_refl hwf
      intro C h2 h3
      rw [Bool.eq_false_iff]; intro hw
      have hw' := (writable_iff rb _ C).1 hw
      have : C = r.col := by omega
      rw [this, ← h1.1] at hw'
      exact hw'.2.2 hm
    · rw [if_neg hm]
      have hclip : 0 ≤ rb.clip.top ∧ rb.clip.top + rb.clip.lines ≤ rb.lines ∧ 0 ≤ rb.clip.left ∧
          rb.clip.left + rb.clip.cols ≤ rb.cols := by
        rcases hwf.clip with h | h
        · exact absurd h hxs.2.1
        · exact h
      have hcl := (absClip_iff rb _ _).1 h1.2.2.2
      have hgrid : 0 ≤ r.line ∧ r.line < rb.lines ∧ 0 ≤ r.col ∧ r.col < rb.cols := by omega
      by_cases hst : (rb.cell r.line r.col).state ≠ .line
      · rw [if_pos hst]
        have hnl : ∀ p m, absContent rb (line + rb.xlLine) (col + rb.xlCol) ≠ .line p m := by
          intro p m; rw [← h1.1, ← h1.2.1]; exact absContent_not_line hwf hgrid hst p m
        have hsp := span1_spec hwf line col hx hm
          (fun c => { ({ c with state := .line, cols := 1, pen := rb.pen, lmask := 0 } : Cell) with lmask := 0 ||| bits })
          ⟨fun _ _ => rfl, fun _ => rfl, fun _ => by simp, fun _ _ => rfl⟩
          (fun _ old => mergeLine rb.pen bits old)
          (fun x => by
            show Content.line rb.pen (0 ||| bits) = mergeLine rb.pen bits _
            unfold mergeLine
            cases hold : absContent rb (line + rb.xlLine) (col + rb.xlCol) with
            | line p m => exact absurd hold (hnl p m)
            | skip => simp
            | text p s k => simp
            | erase p => simp
            | char p cp => simp)
        exact hsp.congr ((sameAux_updCell _ _ _ _).trans ((sameAux_spanStep _ _ _ _ _).trans (sameAux_spanStep _ _ _ _ _).symm))
          (fun l c => updCell_updCell_get _ _ _ _ _ _ _) ⟨rfl, rfl⟩
      · rw [if_neg hst]
        have hline : ((rb.cells r.line).get r.col).state = .line := by
          by_cases h : ((rb.cells r.line).get r.col).state = .line
          · exact h
          · exact absurd h hst
        have hold : absContent rb (line + rb.xlLine) (col + rb.xlCol) =
            .line ((rb.cells r.line).get r.col).pen ((rb.cells r.line).get r.col).lmask := by
          rw [← h1.1, ← h1.2.1, absContent_eq, if_pos hgrid, rowContent_head (by rw [hline]; simp)]
          unfold cellContent; rw [hline]
        by_cases heq : Pen.equiv (rb.cell r.line r.col).pen rb.pen = true
        · have hb : (!Pen.equiv (rb.cell r.line r.col).pen rb.pen) = false := by rw [heq]; rfl
          simp only [hb, Bool.false_eq_true, if_false]
          apply paint1_spec hwf line col hx hm hline (fun c => { c with lmask := c.lmask ||| bits })
            (fun _ => ⟨rfl, rfl, rfl⟩)
          rw [hold]
          unfold mergeLine cellContent
          simp only [hline]
          have : Pen.equiv ((rb.cells r.line).get r.col).pen rb.pen = true := heq
          rw [this]; rfl
        · have hb : (!Pen.equiv (rb.cell r.line r.col).pen rb.pen) = true := by
            cases h : Pen.equiv (rb.cell r.line r.col).pen rb.pen
            · rfl
            · exact absurd h heq
          simp only [hb, if_true]
          have hp := paint1_spec hwf line col hx hm hline
            (fun x => { ({ x with pen := rb.pen } : Cell) with lmask := x.lmask ||| bits })
            (fun _ => ⟨rfl, rfl, rfl⟩) (fun _ old => mergeLine rb.pen bits old)
            (by
              rw [hold]
              unfold mergeLine cellContent
              simp only [hline]
              have : Pen.equiv ((rb.cells r.line).get r.col).pen rb.pen = false := by
                cases h : Pen.equiv ((rb.cells r.line).get r.col).pen rb.pen
                · rfl
                · exact absurd h heq
              rw [this]; rfl)
          exact hp.congr ((sameAux_updCell _ _ _ _).trans ((sameAux_updCell _ _ _ _).trans (sameAux_updCell _ _ _ _).symm))
            (fun l c => updCell_updCell_get _ _ _ _ _ _ _) ⟨rfl, rfl⟩

end Tickit.RBCopy
