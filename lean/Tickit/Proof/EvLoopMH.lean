import Tickit.Proof.EvLoopOnce
/-
  `MH` (Proof/EvLoopOnce.lean: slot number and puser of a watch never change, its type only to `none`, a freed
  watch stays freed, a history that left defined behaviour stays there) for *every* function of the model, the
  ones that invoke callbacks included.  The lemma family mirrors `ObsEq` of Proof/EvLoopObs.lean.
-/
namespace Tickit.EvLoop

theorem mh_emit (st : St) (e : Ev) : MH st (st.emit e) := MH.of_heap_eq rfl rfl

theorem mh_setEvi (st : St) (a idx : Nat) : MH st (st.setW a { st.getW a with evi := idx }) := mh_setW st a _ rfl rfl (Or.inl rfl) (fun h => h)
theorem mh_setWstatus (st : St) (a : Nat) (ws : Int) : MH st (st.setW a { st.getW a with wstatus := ws }) := mh_setW st a _ rfl rfl (Or.inl rfl) (fun h => h)
theorem mh_with_timers (st : St) (l : List Nat) : MH st { st with timers := l } := MH.of_heap_eq rfl rfl

theorem mh_setListOf (st : St) (t : WType) (l : List Nat) : MH st (setListOf st t l) := by
  cases t <;> exact MH.of_heap_eq rfl rfl

theorem mh_watchTimerAt (st : St) (due : TV) (flags : Nat) (slot : Int) : MH st (watchTimerAt st due flags slot).1 := by
  unfold watchTimerAt
  simp only []
  split
  · exact (mh_alloc st _).trans (mh_with_timers _ _)
  · exact (mh_alloc st _).trans (mh_fail _ _)

theorem mh_raiseSig (st : St) (s : Int) : MH st (raiseSig st s) := (q0_raiseSig st s).b.h


theorem mh_evloopIo (st : St) (fd : Int) (cond : Nat) (w : Nat) : MH st (evloopIo st fd cond w).1 := by
  unfold evloopIo
  split <;> exact MH.of_heap_eq rfl rfl


theorem mh_evloopCancelIo (st : St) (idx : Nat) : MH st (evloopCancelIo st idx) := MH.of_heap_eq rfl rfl


theorem mh_evloopSignal (st : St) (s : Int) : MH st (evloopSignal st s).1 := by
  unfold evloopSignal
  simp only []
  split <;> exact MH.of_heap_eq rfl rfl


theorem mh_evloopCancelSignal (st : St) (idx : Nat) : MH st (evloopCancelSignal st idx) := (q0_evloopCancelSignal st idx).b.h


theorem mh_insertWatch (st : St) (l : List Nat) (flags new : Nat) : MH st (insertWatch st l flags new).1 := by
  unfold insertWatch
  split
  · exact MH.refl st
  · split
    · exact MH.refl st
    · exact mh_fail st _


theorem mh_notify (st : St) (a flags : Nat) : MH st (notify st a flags) := by
  unfold notify
  simp only []
  split
  · exact mh_emit st _
  · exact MH.refl st


theorem mh_with_laters (st : St) (l : List Nat) : MH st { st with laters := l } := MH.of_heap_eq rfl rfl

theorem mh_with_iow (st : St) (l : List Nat) : MH st { st with iow := l } := MH.of_heap_eq rfl rfl

theorem mh_with_signals (st : St) (l : List Nat) : MH st { st with signals := l } := MH.of_heap_eq rfl rfl

theorem mh_with_procs (st : St) (l : List Nat) : MH st { st with procs := l } := MH.of_heap_eq rfl rfl


theorem mh_watchLater (st : St) (flags : Nat) (slot : Int) (puser : Nat) :
    MH st (watchLater st flags slot puser).1 := by
  unfold watchLater
  exact ((mh_alloc st _).trans (mh_insertWatch _ _ _ _)).trans (mh_with_laters _ _)


theorem mh_watchIo (st : St) (fd : Int) (cond flags : Nat) (slot : Int) : MH st (watchIo st fd cond flags slot).1 := by
  unfold watchIo
  exact ((((mh_alloc st _).trans (mh_evloopIo _ _ _ _)).trans (mh_setEvi _ _ _)).trans
    (mh_insertWatch _ _ _ _)).trans (mh_with_iow _ _)


theorem mh_watchSignalPre (st : St) (signum : Int) (flags : Nat) (slot : Int) :
    MH st (watchSignalPre st signum flags slot) := by
  unfold watchSignalPre
  exact ((mh_alloc st _).trans (mh_evloopSignal _ _)).trans (mh_setEvi _ _ _)


theorem mh_watchSignal (st : St) (signum : Int) (flags : Nat) (slot : Int) :
    MH st (watchSignal st signum flags slot).1 := by
  unfold watchSignal
  exact ((mh_watchSignalPre st _ _ _).trans (mh_insertWatch _ _ _ _)).trans (mh_with_signals _ _)


theorem mh_waitpid (st : St) (pid : Int) : MH st (waitpid st pid).st := by
  unfold waitpid
  split
  · split
    · exact MH.of_heap_eq rfl rfl
    · split <;> exact MH.of_heap_eq rfl rfl
  · exact MH.refl st


theorem mh_ensureSigchld (st : St) : MH st (ensureSigchld st) := by
  unfold ensureSigchld
  split
  · exact MH.refl _
  · exact (mh_watchSignal _ _ _ _).trans (MH.of_heap_eq rfl rfl)


theorem mh_setNotify (st : St) (a : Nat) (n : Option Nat) : MH st (setNotify st a n) := by
  unfold setNotify
  exact mh_setW st a { st.getW a with notify := n } rfl rfl (Or.inl rfl) (fun h => h)

theorem mh_linkNotified (r : St × Nat) (a : Nat) (flags : Nat) : MH r.1 (linkNotified r a flags) := by
  unfold linkNotified
  exact ((mh_setNotify r.1 a (some r.2)).trans (mh_insertWatch _ _ _ _)).trans (mh_with_procs _ _)

theorem mh_clearNotify (st : St) (a : Nat) : MH st (clearNotify st a) := by
  unfold clearNotify
  split
  · exact mh_setNotify st a none
  · exact MH.refl _

theorem mh_linkProcess (st : St) (a : Nat) (pid : Int) (flags : Nat) : MH st (linkProcess st a pid flags) := by
  unfold linkProcess
  simp only []
  split
  · split
    · exact (((mh_waitpid _ _).trans (mh_setWstatus _ _ _)).trans (mh_watchLater _ _ _ _)).trans (mh_linkNotified _ _ _)
    · exact ((mh_waitpid _ _).trans (mh_setWstatus _ _ _)).trans (mh_watchLater _ _ _ _)
  · exact ((mh_waitpid _ _).trans (mh_insertWatch _ _ _ _)).trans (mh_with_procs _ _)


theorem mh_watchProcess (st : St) (pid : Int) (flags : Nat) (slot : Int) :
    MH st (watchProcess st pid flags slot).1 := by
  unfold watchProcess
  exact ((mh_alloc st _).trans (mh_ensureSigchld _)).trans (mh_linkProcess _ _ _ _)


theorem mh_watchTimerAfterMsec (st : St) (msec : Int) (flags : Nat) (slot : Int) :
    MH st (watchTimerAfterMsec st msec flags slot).1 := by
  unfold watchTimerAfterMsec
  exact (mh_emit st _).trans (mh_watchTimerAt _ _ _ _)


theorem mh_cancelHook (st : St) (t : WType) (evi : Nat) : MH st (cancelHook st t evi) := by
  unfold cancelHook
  split
  · exact mh_evloopCancelIo _ _
  · exact mh_evloopCancelSignal _ _
  · exact MH.refl _


theorem mh_cancelNotify (st : St) (a : Nat) (w : Watch) : MH st (cancelNotify st a w) := by
  unfold cancelNotify
  split
  · exact mh_notify _ _ _
  · exact MH.refl _


theorem mh_cancelRest (st : St) (rest : List Nat) : MH st (cancelRest st rest) := by
  unfold cancelRest
  split
  · exact MH.refl _
  · split
    · exact mh_fail _ _
    · exact MH.refl _


theorem mh_cancelFound (st : St) (a : Nat) (w : Watch) (l : List Nat) : MH st (cancelFound st a w l) := by
  unfold cancelFound
  exact ((((mh_setListOf st _ _).trans (mh_cancelNotify _ a w)).trans (mh_cancelHook _ w.type w.evi)).trans (mh_free _ a)).trans
    (mh_cancelRest _ _)

theorem mh_cancelDetached (st : St) (a : Nat) : MH st (cancelDetached st a) := by
  unfold cancelDetached
  exact (mh_cancelNotify st a _).trans (mh_setW _ a _ rfl rfl (Or.inr rfl) (fun h => h))

theorem mh_laterPre (st : St) (a : Nat) : MH st (laterPre st a) := by
  unfold laterPre
  split
  · exact (mh_setW _ a _ rfl rfl (Or.inl rfl) (fun h => h))
  · exact MH.refl _

theorem mh_watchCancel0 (st : St) (a : Nat) : MH st (watchCancel0 st a) := by
  unfold watchCancel0
  split
  · exact MH.refl st
  · split
    · exact (mh_fail st _)
    · split
      · exact MH.refl st
      · split
        · exact (mh_fail st _)
        · split
          · split
            · exact mh_cancelDetached st a
            · exact MH.refl st
          · exact mh_cancelFound st a _ _


theorem mh_watchCancel (st : St) (a : Nat) : MH st (watchCancel st a) := by
  unfold watchCancel
  split
  · split
    · exact (mh_watchCancel0 st a).trans (mh_watchCancel0 _ _)
    · exact mh_watchCancel0 st a
  · exact mh_watchCancel0 st a

theorem mh_with_slots (st : St) (l : List SlotRec) : MH st { st with slots := l } := MH.of_heap_eq rfl rfl

theorem mh_with_errno (st : St) (e : Int) : MH st { st with errno := e } := MH.of_heap_eq rfl rfl

theorem mh_with_children (st : St) (l : List Proc) : MH st { st with children := l } := MH.of_heap_eq rfl rfl

theorem mh_with_stillRunning (st : St) (b : Bool) : MH st { st with stillRunning := b } := MH.of_heap_eq rfl rfl

theorem mh_with_inRun (st : St) (b : Bool) : MH st { st with inRun := b } := MH.of_heap_eq rfl rfl


theorem mh_doRegister (st : St) (k : Int) (reg : St → St × Nat) (h : ∀ s, MH s (reg s).1) :
    MH st (doRegister st k reg) := by
  unfold doRegister
  split
  · exact (mh_emit _ _)
  · split
    · exact (mh_emit _ _)
    · exact (h st).trans (mh_with_slots _ _)


theorem mh_with_cancelReq (st : St) (l : List Int) : MH st { st with cancelReq := l } := MH.of_heap_eq rfl rfl

theorem mh_doCancel (st : St) (k : Int) : MH st (doCancel st k) := by
  unfold doCancel
  split
  · exact (mh_emit _ _)
  · exact (mh_with_cancelReq _ _).trans (mh_watchCancel _ _)


theorem mh_runAct (st : St) (act : Act) : MH st (runAct st act) := by
  unfold runAct
  split
  · exact MH.refl _
  · split
    · split
      · exact mh_doRegister _ _ _ (fun s => mh_watchTimerAfterMsec s _ _ _)
      · exact MH.refl _
    · split
      · exact mh_doRegister _ _ _ (fun s => mh_watchTimerAt s _ _ _)
      · exact MH.refl _
    · exact mh_doRegister _ _ _ (fun s => (mh_watchLater s _ _ _))
    · exact mh_doRegister _ _ _ (fun s => (mh_watchIo s _ _ _ _))
    · split
      · exact mh_doRegister _ _ _ (fun s => (mh_watchSignal s _ _ _))
      · exact MH.refl _
    · split
      · exact mh_doRegister _ _ _ (fun s => (mh_watchProcess s _ _ _))
      · exact MH.refl _
    · exact mh_doCancel _ _
    · exact (mh_with_errno _ _)
    · split
      · exact (mh_raiseSig _ _)
      · exact MH.refl _
    · split
      · split
        · exact MH.refl _
        · exact (mh_with_children _ _)
      · exact MH.refl _
    · exact (mh_with_stillRunning _ _)
    · exact MH.refl _


theorem mh_runActs (acts : List Act) : ∀ st : St,
    MH st (acts.foldl (fun st act => if st.isOk then runAct (st.emit .a) act else st) st) := by
  induction acts with
  | nil => intro st; exact MH.refl st
  | cons a rest ih =>
    intro st
    simp only [List.foldl_cons]
    refine MH.trans ?_ (ih _)
    split
    · exact (mh_emit _ _).trans (mh_runAct _ _)
    · exact MH.refl _


theorem mh_fireUser (st : St) (k : Int) (flags : Nat) (info : Info) : MH st (fireUser st k flags info) := by
  unfold fireUser
  simp only []
  split
  · exact (mh_emit _ _)
  · split
    · exact (mh_emit _ _).trans (mh_with_slots _ _)
    · exact ((mh_emit _ _).trans (mh_with_slots _ _)).trans (mh_runActs _ _)


theorem mh_with_status (st : St) (x : Status) (hx : x ≠ .ok) : MH st { st with status := x } :=
  MH.of_heap_eq_bad rfl (by show (x == Status.ok) = false; cases x <;> first | exact absurd rfl hx | rfl)


theorem mh_fireIf (st : St) (c : Prop) [Decidable c] (k : Int) (flags : Nat) (info : Info) :
    MH st (if c then fireUser st k flags info else st) := by
  split
  · exact mh_fireUser _ _ _ _
  · exact MH.refl _


theorem mh_unlinkOneshot (st : St) (a : Nat) : MH st (unlinkOneshot st a) := (q0_unlinkOneshot st a).b.h

theorem mh_unlinkOneshotSaved (st : St) (a : Nat) (t : WType) : MH st (unlinkOneshotSaved st a t) := (q0_unlinkOneshotSaved st a t).b.h

theorem mh_invokeWatch (st : St) (a : Nat) (flags : Nat) (info : Info) : MH st (invokeWatch st a flags info) := by
  unfold invokeWatch
  have hf := mh_fireIf st ((st.getW a).slot ≥ 0) (st.getW a).slot flags info
  generalize (if (st.getW a).slot ≥ 0 then fireUser st (st.getW a).slot flags info else st) = s1 at hf ⊢
  split
  · exact MH.refl _
  · split
    · exact (mh_fail _ _)
    · split
      · exact hf
      · split
        · exact hf.trans (mh_unlinkOneshotSaved _ a _)
        · exact hf.trans (mh_unlinkOneshot _ a)


theorem mh_waitpidV (st : St) (pid : Int) : MH st (waitpidV st pid).st := by
  unfold waitpidV
  split
  · exact mh_waitpid _ _
  · exact MH.refl _


theorem mh_procStep (st : St) (a : Nat) : MH st (procStep st a) := by
  unfold procStep
  split
  · exact (mh_waitpidV _ _)
  · exact (mh_waitpidV _ _).trans (mh_invokeWatch _ _ _ _)


theorem mh_outOfFuel (st : St) : MH st (if st.isOk then { st with status := .outOfFuel } else st) := by
  split
  · exact (mh_with_status _ _ (by intro h; cases h))
  · exact MH.refl _


theorem mh_onSigchld (fuel : Nat) : ∀ (st : St) (this : Option Nat), MH st (onSigchld fuel st this) := by
  induction fuel with
  | zero => intro st this; unfold onSigchld; exact mh_outOfFuel st
  | succ n ih =>
    intro st this
    unfold onSigchld
    split
    · exact MH.refl _
    · split
      · exact MH.refl _
      · split
        · exact (mh_fail _ _)
        · exact (mh_procStep _ _).trans (ih _ _)


theorem mh_procSnapLoop (l : List Nat) : ∀ st : St, MH st (procSnapLoop st l) := by
  induction l with
  | nil => intro st; exact MH.refl st
  | cons a rest ih =>
    intro st
    unfold procSnapLoop
    split
    · exact MH.refl _
    · split
      · exact (mh_fail _ _)
      · split
        · exact ih _
        · split
          · exact (mh_fail _ _)
          · exact (mh_procStep _ _).trans (ih _)


theorem mh_onSigchldAny (fuel : Nat) (st : St) : MH st (onSigchldAny fuel st) := by
  unfold onSigchldAny
  split
  · split
    · exact (mh_fail _ _)
    · exact mh_procSnapLoop _ _
  · exact mh_onSigchld _ _ _


theorem mh_processNotify (st : St) (a : Nat) : MH st (processNotify st a) := by
  unfold processNotify
  split
  · exact (mh_fail _ _)
  · exact (mh_clearNotify _ _).trans (mh_invokeWatch _ _ _ _)


theorem mh_laterCb (st : St) (a : Nat) : MH st (laterCb st a) := by
  unfold laterCb
  split
  · exact mh_fireUser _ _ _ _
  · split
    · exact mh_processNotify _ _
    · exact MH.refl _


theorem mh_laterLoopT (l : List Nat) : ∀ st : St, MH st (laterLoopT st l).1 := by
  induction l with
  | nil => intro st; exact MH.refl st
  | cons a rest ih =>
    intro st
    unfold laterLoopT
    split
    · exact MH.refl _
    · split
      · exact (mh_fail _ _)
      · split
        · exact (mh_free _ a).trans (ih _)
        · split
          · exact ((mh_laterPre st a).trans (mh_laterCb _ a))
          · split
            · exact (((mh_laterPre st a).trans (mh_laterCb _ a))).trans (mh_fail _ _)
            · exact ((((mh_laterPre st a).trans (mh_laterCb _ a))).trans (mh_free _ a)).trans (ih _)


theorem mh_laterLoop (l : List Nat) (st : St) : MH st (laterLoop st l) := mh_laterLoopT l st


theorem mh_timerLoopT (fuel : Nat) : ∀ (st : St) (now : TV) (this : Option Nat), MH st (timerLoopT fuel st now this).1 := by
  induction fuel with
  | zero => intro st now this; unfold timerLoopT; exact mh_outOfFuel st
  | succ n ih =>
    intro st now this
    unfold timerLoopT
    split
    · exact MH.refl _
    · split
      · exact MH.refl _
      · rename_i a
        split
        · exact (mh_fail _ _)
        · split
          · exact MH.refl _
          · simp only []
            split
            · exact mh_fireUser _ _ _ _
            · split
              · exact (mh_fireUser _ _ _ _).trans (mh_fail _ _)
              · exact ((mh_fireUser _ _ _ _).trans (mh_free _ a)).trans (ih _ _ _)


theorem mh_timerLoopPopT (fuel : Nat) : ∀ (st : St) (now : TV), MH st (timerLoopPopT fuel st now).1 := by
  induction fuel with
  | zero => intro st now; unfold timerLoopPopT; exact mh_outOfFuel st
  | succ n ih =>
    intro st now
    unfold timerLoopPopT
    split
    · exact MH.refl _
    · split
      · exact MH.refl _
      · rename_i a rest hq
        split
        · exact mh_fail _ _
        · split
          · exact MH.refl _
          · have h1 := (mh_with_timers st rest).trans (mh_fireUser { st with timers := rest } (st.getW a).slot (EV_FIRE ||| EV_UNBIND) .none)
            simp only []
            split
            · exact h1
            · split
              · exact h1.trans (mh_fail _ _)
              · exact (h1.trans (mh_free _ a)).trans (ih _ _)

theorem mh_timerPhaseShipped (fuel : Nat) (st : St) (now : TV) : MH st (timerPhaseShipped fuel st now) := by
  unfold timerPhaseShipped timerLoop
  simp only []
  split
  · exact (mh_timerLoopT _ _ _ _).trans (mh_with_timers _ _)
  · exact mh_timerLoopT _ _ _ _

theorem mh_timerPhase (fuel : Nat) (st : St) : MH st (timerPhase fuel st) := by
  unfold timerPhase
  split
  · exact MH.refl _
  · split
    · exact (mh_emit _ _).trans (mh_timerLoopPopT _ _ _)
    · exact (mh_emit _ _).trans (mh_timerPhaseShipped _ _ _)


theorem mh_invokeTimers (fuel : Nat) (st : St) : MH st (invokeTimers fuel st) := by
  unfold invokeTimers
  split
  · exact MH.refl _
  · exact ((mh_with_laters st []).trans (mh_timerPhase _ _)).trans (mh_laterLoop _ _)


theorem mh_sigCb (fuel : Nat) (st : St) (a : Nat) (s : Int) : MH st (sigCb fuel st a s) := by
  unfold sigCb
  split
  · split
    · exact mh_fireUser _ _ _ _
    · split
      · exact mh_onSigchldAny _ _
      · split
        · exact (mh_with_stillRunning _ _)
        · exact MH.refl _
  · exact MH.refl _


theorem mh_sigwatchLoopT (fuel : Nat) : ∀ (st : St) (s : Int) (this : Option Nat), MH st (sigwatchLoopT fuel st s this).1 := by
  induction fuel with
  | zero => intro st s this; unfold sigwatchLoopT; exact mh_outOfFuel st
  | succ n ih =>
    intro st s this
    unfold sigwatchLoopT
    split
    · exact MH.refl _
    · split
      · exact MH.refl _
      · split
        · exact (mh_fail _ _)
        · split
          · exact mh_sigCb _ _ _ _
          · split
            · exact (mh_sigCb _ _ _ _).trans (mh_fail _ _)
            · exact (mh_sigCb _ _ _ _).trans (ih _ _ _)


theorem mh_sigwatchLoop (fuel : Nat) (st : St) (s : Int) (this : Option Nat) : MH st (sigwatchLoop fuel st s this) :=
  mh_sigwatchLoopT fuel st s this


theorem mh_sigSnapLoopT (fuel : Nat) (s : Int) (l : List Nat) : ∀ st : St, MH st (sigSnapLoopT fuel st s l).1 := by
  induction l with
  | nil => intro st; exact MH.refl st
  | cons a rest ih =>
    intro st
    unfold sigSnapLoopT
    split
    · exact MH.refl _
    · split
      · exact (mh_fail _ _)
      · split
        · exact ih _
        · split
          · exact (mh_fail _ _)
          · exact (mh_sigCb _ _ _ _).trans (ih _)


theorem mh_sigDispatch (fuel : Nat) (st : St) (s : Int) : MH st (sigDispatch fuel st s) := by
  unfold sigDispatch
  split
  · split
    · exact (mh_fail _ _)
    · exact mh_sigSnapLoopT _ _ _ _
  · exact mh_sigwatchLoop _ _ _ _


theorem mh_dispatchLoop (fuel : Nat) (pending : List Int) (l : List Int) : ∀ st : St, MH st (dispatchLoop fuel st pending l) := by
  induction l with
  | nil => intro st; exact MH.refl st
  | cons s rest ih =>
    intro st
    unfold dispatchLoop
    refine MH.trans ?_ (ih _)
    split
    · exact mh_sigDispatch _ _ _
    · exact MH.refl _


theorem mh_with_pendingSig (st : St) (l : List Int) : MH st { st with pendingSig := l } := MH.of_heap_eq rfl rfl


theorem mh_dispatchSignals (fuel : Nat) (st : St) : MH st (dispatchSignals fuel st) := by
  unfold dispatchSignals
  exact (mh_with_pendingSig st []).trans (mh_dispatchLoop _ _ _ _)


theorem mh_ioCb (st : St) (s : PollSlot) : MH st (ioCb st s) := by
  unfold ioCb
  split
  · split
    · exact (mh_fail _ _)
    · exact mh_invokeWatch _ _ _ _
  · exact MH.refl _


theorem mh_ioLoopT (fuel : Nat) : ∀ (st : St) (idx : Nat), MH st (ioLoopT fuel st idx).1 := by
  induction fuel with
  | zero => intro st idx; unfold ioLoopT; exact mh_outOfFuel st
  | succ n ih =>
    intro st idx
    unfold ioLoopT
    split
    · exact MH.refl _
    · split
      · exact MH.refl _
      · split
        · exact ih _ _
        · split
          · exact ih _ _
          · exact (mh_ioCb _ _).trans (ih _ _)


theorem mh_ioLoop (fuel : Nat) (st : St) (idx : Nat) : MH st (ioLoop fuel st idx) := mh_ioLoopT fuel st idx

theorem mh_foldl_raiseSig (l : List Int) : ∀ st : St, MH st (l.foldl raiseSig st) := by
  induction l with
  | nil => intro st; exact MH.refl st
  | cons s rest ih => intro st; exact (mh_raiseSig st s).trans (ih _)


theorem mh_pollScan (st : St) : MH st (pollScan st) := MH.of_heap_eq rfl rfl

theorem mh_with_inpoll (st : St) (l : List Int) : MH st { st with inpoll := l } := MH.of_heap_eq rfl rfl


theorem mh_pollRaise (st : St) : MH st (pollRaise st) := by
  unfold pollRaise
  exact (mh_with_inpoll st []).trans (mh_foldl_raiseSig _ _)


theorem mh_pollTimeout (st : St) (t : Option Int) : MH st (pollTimeout st t) := by
  unfold pollTimeout
  split
  · exact MH.of_heap_eq rfl rfl
  · exact MH.refl _


theorem mh_deliverPending (st : St) : MH st (deliverPending st) := by
  unfold deliverPending
  split <;> exact MH.of_heap_eq rfl rfl


theorem mh_ppoll (st : St) (t : Option Int) : MH st (ppoll st t).1 := by
  unfold ppoll
  split
  · exact (mh_pollScan st).trans (mh_pollRaise _)
  · split
    · exact ((mh_pollScan st).trans (mh_pollRaise _)).trans (mh_emit _ _)
    · split
      · exact ((((mh_pollScan st).trans (mh_pollRaise _)).trans (mh_deliverPending _)).trans (mh_with_errno _ _)).trans (mh_emit _ _)
      · exact (((mh_pollScan st).trans (mh_pollRaise _)).trans (mh_pollTimeout _ _)).trans (mh_emit _ _)


theorem mh_nextTimerMsec (st : St) : MH st (nextTimerMsec st).1 := by
  unfold nextTimerMsec
  split
  · exact MH.refl _
  · split
    · exact MH.refl _
    · split
      · exact (mh_emit _ _).trans (mh_fail _ _)
      · exact mh_emit _ _


theorem mh_tickAfterPoll (fuel : Nat) (st : St) (ret : Option Nat) : MH st (tickAfterPoll fuel st ret) := by
  unfold tickAfterPoll
  split
  · exact mh_invokeTimers _ _
  · split
    · split
      · exact (mh_invokeTimers _ _).trans (mh_ioLoop _ _ _)
      · exact mh_invokeTimers _ _
    · split
      · exact (mh_invokeTimers _ _).trans (mh_dispatchSignals _ _)
      · exact mh_invokeTimers _ _


theorem mh_tick (fuel : Nat) (st : St) (nohang : Bool) : MH st (tick fuel st nohang) := by
  unfold tick
  split
  · exact MH.refl _
  · split
    · exact (mh_nextTimerMsec _)
    · split
      · exact ((mh_nextTimerMsec _).trans (mh_ppoll _ _))
      · exact ((mh_nextTimerMsec _).trans (mh_ppoll _ _)).trans (mh_tickAfterPoll _ _ _)


theorem mh_ppollRun (st : St) (t : Option Int) : MH st (ppollRun st t).1 := by
  unfold ppollRun
  split
  · exact mh_ppoll _ _
  · split
    · exact ((mh_ppoll st t).trans (MH.of_heap_eq rfl rfl : MH (ppoll st t).1
        { (ppoll st t).1 with runPolls := (ppoll st t).1.runPolls + 1, stillRunning := false })).trans (mh_emit _ _)
    · exact (mh_ppoll st t).trans (MH.of_heap_eq rfl rfl : MH (ppoll st t).1
        { (ppoll st t).1 with runPolls := (ppoll st t).1.runPolls + 1 })


theorem mh_runIter (fuel : Nat) (st : St) : MH st (runIter fuel st) := by
  unfold runIter
  split
  · exact MH.refl _
  · split
    · exact (mh_nextTimerMsec _)
    · split
      · exact ((mh_nextTimerMsec _).trans (mh_ppollRun _ _))
      · exact ((mh_nextTimerMsec _).trans (mh_ppollRun _ _)).trans (mh_tickAfterPoll _ _ _)


theorem mh_runLoop (fuel : Nat) (n : Nat) : ∀ st : St, MH st (runLoop fuel n st) := by
  induction n with
  | zero => intro st; unfold runLoop; exact mh_outOfFuel st
  | succ k ih =>
    intro st
    unfold runLoop
    split
    · exact MH.refl _
    · split
      · exact MH.refl _
      · exact (mh_runIter _ _).trans (ih _)


theorem mh_run_flags (st : St) : MH st { st with stillRunning := true, inRun := true, runPolls := 0 } := MH.of_heap_eq rfl rfl
theorem mh_run_start (st : St) : MH st { (watchSignal st 2 0 (-5)).1 with stillRunning := true, inRun := true, runPolls := 0 } :=
  (mh_watchSignal st 2 0 (-5)).trans (mh_run_flags _)

theorem mh_run (fuel : Nat) (st : St) : MH st (run fuel st) := by
  unfold run
  split
  · exact MH.refl _
  · split
    · exact (mh_run_start st).trans (mh_runLoop _ _ _)
    · exact (((mh_run_start st).trans (mh_runLoop _ _ _)).trans (mh_with_inRun _ _)).trans
        (mh_watchCancel _ _)


theorem mh_destroyNotify (st : St) (a : Nat) : MH st (destroyNotify st a) := by
  unfold destroyNotify
  split
  · exact mh_notify _ _ _
  · exact MH.refl _


theorem mh_destroyList (t : WType) (l : List Nat) : ∀ st : St, MH st (destroyList st t l) := by
  induction l with
  | nil => intro st; exact MH.refl st
  | cons a rest ih =>
    intro st
    unfold destroyList
    split
    · exact MH.refl _
    · split
      · exact mh_fail _ _
      · exact (((mh_destroyNotify _ _).trans (mh_cancelHook _ _ _)).trans (mh_free _ a)).trans (ih _)





end Tickit.EvLoop
