import Tickit.Proof.WinFocusHist
import Tickit.Proof.WinFocusResize
/-
  C15 over histories, part 5: queued restacking requests applied by the flush.
-/
namespace Tickit
namespace WinFocus
open WinTree WinSpec WinFlush

/-! ### the sibling-list surgery keeps everything but the place of the restacked window -/

theorem listRaise_filter : ∀ (cs : List Nat) (w : Nat) (cs' : List Nat), listRaise cs w = .ok cs' →
    cs'.filter (fun x => decide (x ≠ w)) = cs.filter (fun x => decide (x ≠ w)) ∧ cs'.Perm cs := by
  intro cs
  induction cs with
  | nil => intro w cs' h; simp [listRaise] at h
  | cons x rest ih =>
    intro w cs' h
    cases rest with
    | nil =>
      simp only [listRaise] at h
      split at h
      · cases h; exact ⟨rfl, List.Perm.refl _⟩
      · cases h
    | cons y rest' =>
      simp only [listRaise] at h
      split at h
      · cases h; exact ⟨rfl, List.Perm.refl _⟩
      · next hxw =>
        split at h
        · next hyw =>
          cases h
          refine ⟨?_, List.Perm.swap _ _ _⟩
          subst hyw
          simp [List.filter_cons, hxw]
        · simp only [bind_ok, pure_ok] at h
          obtain ⟨r, hr, h⟩ := h
          subst h
          obtain ⟨hf, hp⟩ := ih w r hr
          refine ⟨?_, List.Perm.cons _ hp⟩
          simp only [List.filter_cons]
          rw [hf]
          simp only [List.filter_cons]

theorem listLower_filter : ∀ (cs : List Nat) (w : Nat),
    (listLower cs w).filter (fun x => decide (x ≠ w)) = cs.filter (fun x => decide (x ≠ w)) ∧ (listLower cs w).Perm cs := by
  intro cs
  induction cs with
  | nil => intro w; exact ⟨rfl, List.Perm.refl _⟩
  | cons x rest ih =>
    intro w
    cases rest with
    | nil => simp [listLower]
    | cons y rest' =>
      simp only [listLower]
      split
      · next hxw =>
        subst hxw
        refine ⟨?_, List.Perm.swap _ _ _⟩
        by_cases hy : y = x
        · subst hy; simp [List.filter_cons]
        · simp [List.filter_cons, hy]
      · obtain ⟨hf, hp⟩ := ih w
        refine ⟨?_, List.Perm.cons _ hp⟩
        simp only [List.filter_cons]
        rw [hf]
        simp only [List.filter_cons]

theorem erase_front_filter (cs : List Nat) (w : Nat) (hw : w ∈ cs) :
    (w :: cs.erase w).filter (fun x => decide (x ≠ w)) = cs.filter (fun x => decide (x ≠ w)) ∧
    (w :: cs.erase w).Perm cs := by
  refine ⟨?_, (List.perm_cons_erase hw).symm⟩
  simp only [List.filter_cons, ne_eq, not_true_eq_false, decide_false, Bool.false_eq_true, if_false]
  exact erase_filter_ne w cs

theorem erase_back_filter (cs : List Nat) (w : Nat) (hw : w ∈ cs) :
    (cs.erase w ++ [w]).filter (fun x => decide (x ≠ w)) = cs.filter (fun x => decide (x ≠ w)) ∧
    (cs.erase w ++ [w]).Perm cs := by
  refine ⟨?_, ?_⟩
  · simp only [List.filter_append, List.filter_cons, ne_eq, not_true_eq_false, decide_false, Bool.false_eq_true,
      if_false, List.filter_nil, List.append_nil]
    exact erase_filter_ne w cs
  · exact (List.perm_append_comm.trans (List.perm_cons_erase hw).symm)

/-- `_do_hierarchy_change` for one of the four restacking kinds, in pieces. -/
theorem restack_pieces {t t' : Tree} {F p c : Nat} {ch : Change} (hch : ch.isRestack = true)
    (hd : doHierarchyChange t F ch p c = .ok t') :
    ∃ pw cw cs', Live t p pw ∧ Live t c cw ∧ cs'.Perm pw.children ∧
      cs'.filter (fun x => decide (x ≠ c)) = pw.children.filter (fun x => decide (x ≠ c)) ∧
      (if cw.isVisible = true then expose (WinTree.set t p { pw with children := cs' }) F p (some cw.rect)
       else pure (WinTree.set t p { pw with children := cs' })) = .ok t' := by
  unfold doHierarchyChange at hd
  simp only [bind_ok] at hd
  obtain ⟨pw, hgp, cw, hgc, hd⟩ := hd
  have hpw := get_ok.mp hgp
  have hcw := get_ok.mp hgc
  cases ch with
  | insertFirst => cases hch
  | insertLast => cases hch
  | remove => cases hch
  | raise =>
    simp only [bind_ok, pure_ok] at hd
    obtain ⟨cs, hcs, t1, ht1, hd⟩ := hd
    subst ht1
    obtain ⟨a, b⟩ := listRaise_filter _ _ _ hcs
    exact ⟨pw, cw, cs, hpw, hcw, b, a, hd⟩
  | raiseFront =>
    simp only [bind_ok, pure_ok] at hd
    obtain ⟨cs, hcs, t1, ht1, hd⟩ := hd
    subst ht1
    have hin := listRemove_mem hcs
    have hcs' : cs = pw.children.erase c := by
      unfold listRemove at hcs; split at hcs
      · cases hcs; rfl
      · cases hcs
    subst hcs'
    obtain ⟨a, b⟩ := erase_front_filter pw.children c hin.1
    exact ⟨pw, cw, _, hpw, hcw, b, a, hd⟩
  | lower =>
    simp only [bind_ok, pure_ok] at hd
    obtain ⟨t1, ht1, hd⟩ := hd
    subst ht1
    obtain ⟨a, b⟩ := listLower_filter pw.children c
    exact ⟨pw, cw, _, hpw, hcw, b, a, hd⟩
  | lowerBack =>
    simp only [bind_ok, pure_ok] at hd
    obtain ⟨cs, hcs, t1, ht1, hd⟩ := hd
    subst ht1
    have hin := listRemove_mem hcs
    have hcs' : cs = pw.children.erase c := by
      unfold listRemove at hcs; split at hcs
      · cases hcs; rfl
      · cases hcs
    subst hcs'
    obtain ⟨a, b⟩ := erase_back_filter pw.children c hin.1
    exact ⟨pw, cw, _, hpw, hcw, b, a, hd⟩

/-- The structural invariants survive a reordering of one child list. -/
theorem struct_perm {t : Tree} {p : Nat} {pw : Win} {cs' : List Nat}
    (hwfp : WFp t) (hrw : RootWin t) (hor : OnlyRoot t) (hnd : ChildrenNodup t) (hns : NoSelfParent t)
    (hpos : RootsPositive t) (hpw : t.wins[p]? = some pw) (hperm : cs'.Perm pw.children) :
    WFp (WinTree.set t p { pw with children := cs' }) ∧ RootWin (WinTree.set t p { pw with children := cs' }) ∧
    OnlyRoot (WinTree.set t p { pw with children := cs' }) ∧ ChildrenNodup (WinTree.set t p { pw with children := cs' }) ∧
    NoSelfParent (WinTree.set t p { pw with children := cs' }) ∧ RootsPositive (WinTree.set t p { pw with children := cs' }) := by
  have hrel : ∀ (x : Nat) (wb : Win), (WinTree.set t p { pw with children := cs' }).wins[x]? = some wb →
      ∃ w0, t.wins[x]? = some w0 ∧ wb.isRoot = w0.isRoot ∧ wb.rect = w0.rect ∧ wb.freed = w0.freed ∧
        wb.parent = w0.parent ∧ wb.children.Perm w0.children := by
    intro x wb hwb
    rw [set_lookup hpw] at hwb
    by_cases hx : p = x
    · subst hx; simp at hwb; subst hwb
      exact ⟨pw, hpw, rfl, rfl, rfl, rfl, hperm⟩
    · simp only [hx, if_false] at hwb
      exact ⟨wb, hwb, rfl, rfl, rfl, rfl, List.Perm.refl _⟩
  have hfwd : ∀ (x : Nat) (w0 : Win), t.wins[x]? = some w0 →
      ∃ wb, (WinTree.set t p { pw with children := cs' }).wins[x]? = some wb ∧ wb.isRoot = w0.isRoot ∧
        wb.rect = w0.rect ∧ wb.freed = w0.freed ∧ wb.parent = w0.parent := by
    intro x w0 hw0
    rw [set_lookup hpw]
    by_cases hx : p = x
    · subst hx; rw [hpw] at hw0; cases hw0; exact ⟨{ pw with children := cs' }, by simp, rfl, rfl, rfl, rfl⟩
    · exact ⟨w0, by simp [hx]; exact hw0, rfl, rfl, rfl, rfl⟩
  refine ⟨⟨?_⟩, ?_, ?_, ?_, ?_, ?_⟩
  · intro cur wb hwb ch hch
    obtain ⟨w0, hw0, _, _, _, _, hp⟩ := hrel cur wb hwb
    obtain ⟨cw, hcw, a, b⟩ := hwfp.child cur w0 hw0 ch (hp.mem_iff.mp hch)
    obtain ⟨cwb, h1, h2, _, _, h5⟩ := hfwd ch cw hcw
    exact ⟨cwb, h1, by rw [h5]; exact a, by rw [h2]; exact b⟩
  · obtain ⟨r, hr, hf, hroot, hpar, htop, hleft⟩ := hrw.ex
    obtain ⟨rb, h1, h2, h3, h4, h5⟩ := hfwd 0 r hr
    exact ⟨⟨rb, h1, by rw [h4]; exact hf, by rw [h2]; exact hroot, by rw [h5]; exact hpar, by rw [h3]; exact htop,
      by rw [h3]; exact hleft⟩⟩
  · intro x wb hwb hr
    obtain ⟨w0, hw0, h1, _⟩ := hrel x wb hwb
    exact hor x w0 hw0 (by rw [← h1]; exact hr)
  · intro cur wb hwb
    obtain ⟨w0, hw0, _, _, _, _, hp⟩ := hrel cur wb hwb
    exact hp.nodup_iff.mpr (hnd cur w0 hw0)
  · intro x wb hwb
    obtain ⟨w0, hw0, _, _, _, h4, _⟩ := hrel x wb hwb
    rw [h4]; exact hns x w0 hw0
  · intro x wb hwb hr
    obtain ⟨w0, hw0, h1, h2, _⟩ := hrel x wb hwb
    rw [h2]; exact hpos x w0 hw0 (by rw [← h1]; exact hr)

/-- `Good15` without the clause about `needs_later_processing`, which the flush clears before it works off the queue. -/
structure GoodF (t : Tree) : Prop where
  wf : wfB t = true
  wfp : WFp t
  rootWin : RootWin t
  onlyRoot : OnlyRoot t
  nodup : ChildrenNodup t
  noSelf : NoSelfParent t
  pos : RootsPositive t
  nonempty : ∀ x ∈ t.root.damage, x.Nonempty
  flagged : t.root.damage ≠ [] → t.root.needsExpose = true

theorem goodF_of_good {t : Tree} (hg : Good15 t) : GoodF t :=
  ⟨hg.wf, hg.wfp, hg.rootWin, hg.onlyRoot, hg.nodup, hg.noSelf, hg.pos, hg.nonempty, hg.flagged⟩

/-- Same store, other root record. -/
theorem goodF_wins {t t' : Tree} (hg : GoodF t) (hw : t'.wins = t.wins) (hne : ∀ x ∈ t'.root.damage, x.Nonempty)
    (hfl : t'.root.damage ≠ [] → t'.root.needsExpose = true) : GoodF t' := by
  obtain ⟨a, b, c, d, e, f⟩ := struct_congr (t := t) (t' := t') (fun x => by rw [hw]) hg.wfp hg.rootWin hg.onlyRoot hg.nodup
    hg.noSelf hg.pos
  exact ⟨by rw [wfB_wins hw]; exact hg.wf, a, b, c, d, e, f, hne, hfl⟩

/-- `requests_of_step` without the `needs_later` bookkeeping: a step that keeps ownership up to recorded damage, the
    root window and the focus chain either leaves an expose pending or does not change `cursorSpec`. -/
theorem spec_of_step {t t' : Tree} (hwf : wfB t = true) (hflagged : t.root.damage ≠ [] → t.root.needsExpose = true)
    (hwf' : wfB t' = true) (hinv : WinFlush.InvC encCell t' (snapshot t))
    (hflags : (t'.root.damage = t.root.damage ∧ t'.root.needsExpose = t.root.needsExpose) ∨ t'.root.needsExpose = true)
    (hroot : (t'.wins[0]?).map rootFace = (t.wins[0]?).map rootFace) (hchain : ChainSame t t') :
    t'.root.needsExpose = true ∨ cursorSpec t' = cursorSpec t := by
  rcases hflags with ⟨hr, hr2⟩ | h1
  · by_cases hd : t.root.damage = []
    · right
      have hd' : t'.root.damage = [] := by rw [hr]; exact hd
      have hce := chainSame_end hwf hchain
      apply cursorSpec_ext hwf hwf'
      intro L C s
      constructor
      · rintro ⟨w', hw', hf, hcv, hs, hat⟩
        rw [hce] at hw' hat
        have hoe : OnChain t (chainEnd t (treeFuel t) 0) := onChain_chainEnd hwf _ 0 .root
        obtain ⟨w, hw⟩ := onChain_live hwf hoe
        obtain ⟨w'', hw'', _, hf'', hc''⟩ := hchain.2 _ w hoe hw
        have := live_unique hw'' hw'; subst this
        rw [hc''] at hat hcv hs
        exact ⟨w, hw, hf''.symm.trans hf, hcv, hs, invC_forward hinv hd' hat⟩
      · rintro ⟨w, hw, hf, hcv, hs, hat⟩
        have hoe : OnChain t (chainEnd t (treeFuel t) 0) := onChain_chainEnd hwf _ 0 .root
        obtain ⟨w', hw', _, hf', hc'⟩ := hchain.2 _ w hoe hw
        have hsome := ownerAt_isSome_root hchain.1 hroot (by rw [hat]; rfl)
        cases hat' : ownerAt t' L C with
        | none => rw [hat'] at hsome; cases hsome
        | some y =>
          have := invC_forward hinv hd' hat'
          rw [hat] at this; cases this
          refine ⟨w', by rw [hce]; exact hw', hf'.trans hf, by rw [hc']; exact hcv, by rw [hc']; exact hs, ?_⟩
          rw [hce, hc']; exact hat'
    · left
      rw [hr2]; exact hflagged hd
  · exact .inl h1

theorem set_same_wins {t : Tree} {p : Nat} {pw : Win} (hpw : t.wins[p]? = some pw) : (WinTree.set t p pw).wins = t.wins := by
  apply Array.ext_getElem?
  intro j
  rw [set_lookup hpw]
  by_cases hj : p = j
  · subst hj; simp [hpw]
  · simp [hj]

/-- One queued restacking request, applied by the flush: the invariants stay, flags only go up, and either an expose is
    pending afterwards or `cursorSpec` is what it was. -/
theorem restack_apply {t t' : Tree} {ch : Change} {p c : Nat} (hg : GoodF t) (hch : ch.isRestack = true)
    (hd : doHierarchyChange t (treeFuel t) ch p c = .ok t') :
    GoodF t' ∧ RootKeeps t.root t'.root ∧ (t'.root.needsExpose = true ∨ cursorSpec t' = cursorSpec t) := by
  obtain ⟨pw, cw, cs', hpw, hcw, hperm, hfil, htail⟩ := restack_pieces hch hd
  have hwfb : wfB (WinTree.set t p { pw with children := cs' }) = true :=
    wfB_set_children hg.wf hpw.1 cs' (fun z => hperm.mem_iff)
  obtain ⟨s1, s2, s3, s4, s5, s6⟩ := struct_perm hg.wfp hg.rootWin hg.onlyRoot hg.nodup hg.noSelf hg.pos hpw.1 hperm
  by_cases hin : c ∈ pw.children
  · obtain ⟨cw', hcw', hcp, hcr⟩ := hg.wfp.child p pw hpw.1 c hin
    have : cw' = cw := by rw [hcw.1] at hcw'; cases hcw'; rfl
    subst this
    have hpc : p ≠ c := fun h => by subst h; exact hg.noSelf p cw' hcw.1 hcp
    have hc0 : c ≠ 0 := fun h => by
      subst h
      obtain ⟨r, hr, _, hroot, _⟩ := hg.rootWin.ex
      rw [hcw.1] at hr; cases hr; rw [hcr] at hroot; cases hroot
    have hsbl : SameButL t (WinTree.set t p { pw with children := cs' }) p c :=
      { other := fun x hx _ => by rw [set_lookup hpw.1]; simp [Ne.symm hx]
        parNone := fun h => by rw [hpw.1] at h; cases h
        par := fun pw0 h0 => by
          rw [hpw.1] at h0; cases h0
          exact ⟨{ pw with children := cs' }, by rw [set_lookup hpw.1]; simp, rfl, rfl, rfl, hfil⟩
        size := by simp [WinTree.set]
        only := fun x w hx _ hw hmem => by
          obtain ⟨cw2, hcw2, hcp2, _⟩ := hg.wfp.child x w hw c hmem
          rw [hcw.1] at hcw2; cases hcw2
          rw [hcp] at hcp2; cases hcp2; exact hx rfl }
    have hcin : ∀ x y, (Cin t c x y ∨ Cin (WinTree.set t p { pw with children := cs' }) c x y) →
        cw'.isVisible = true ∧ cw'.rect.memb x y = true := by
      intro x y h
      rcases h with ⟨cw2, h2, hv, _, hm⟩ | ⟨cw2, h2, hv, _, hm⟩
      · rw [hcw.1] at h2; cases h2; exact ⟨hv, hm⟩
      · rw [set_lookup hpw.1] at h2; simp only [hpc, if_false] at h2
        rw [hcw.1] at h2; cases h2; exact ⟨hv, hm⟩
    have hfuel : (WinTree.set t p { pw with children := cs' }).wins.size + 1 = treeFuel t := by
      simp [WinTree.set, treeFuel]
    rw [← hfuel] at htail
    obtain ⟨hinv', hwins', hne', hrootcase⟩ := list_change_step encCell (snapshot t) hsbl hpc hc0 s1 s2 hcin rfl
      hg.nonempty s6 htail (invC_snapshot t)
    have hwf' : wfB t' = true := by rw [wfB_wins hwins']; exact hwfb
    have hg' : GoodF t' := by
      obtain ⟨a, b, c', d, e, f⟩ := struct_congr (t := WinTree.set t p { pw with children := cs' }) (t' := t')
        (fun x => by rw [hwins']) s1 s2 s3 s4 s5 s6
      refine ⟨hwf', a, b, c', d, e, f, hne', ?_⟩
      rcases hrootcase with h | ⟨h, _⟩
      · rw [h]; exact hg.flagged
      · exact fun _ => h
    have hk : RootKeeps t.root t'.root := by
      rcases hrootcase with h | ⟨h1, h2, h3, h4⟩
      · rw [h]; exact rootKeeps_refl _
      · exact ⟨fun h => by rw [h4]; exact h, fun _ => h1, fun _ => h2, fun q hq => by rw [← h3]; exact hq⟩
    refine ⟨hg', hk, spec_of_step hg.wf hg.flagged hwf' hinv' ?_ ?_ ?_⟩
    · rcases hrootcase with h | ⟨h1, _⟩
      · exact .inl ⟨by rw [h], by rw [h]⟩
      · exact .inr h1
    · rw [hwins', set_lookup hpw.1]
      by_cases h0 : p = 0
      · subst h0; simp [hpw.1, rootFace]
      · simp [h0]
    · exact chainSame_trans (chainSame_set (w' := { pw with children := cs' }) hpw hpw.2 (.inr ⟨rfl, rfl, rfl⟩))
        (chainSame_wins hwins')
  · have hc' : c ∉ cs' := fun h => hin (hperm.mem_iff.mp h)
    have hcs : cs' = pw.children := by
      have e1 : cs'.filter (fun x => decide (x ≠ c)) = cs' :=
        List.filter_eq_self.mpr (fun a ha => by simp; intro h; subst h; exact hc' ha)
      have e2 : pw.children.filter (fun x => decide (x ≠ c)) = pw.children :=
        List.filter_eq_self.mpr (fun a ha => by simp; intro h; subst h; exact hin ha)
      rw [← e1, hfil, e2]
    subst hcs
    have hwb : (WinTree.set t p { pw with children := pw.children }).wins = t.wins := set_same_wins hpw.1
    have tail : ∀ (t' : Tree), t'.wins = t.wins → (∀ x ∈ t'.root.damage, x.Nonempty) →
        (t'.root = t.root ∨ (t'.root.needsExpose = true ∧ t'.root.needsLater = true)) → RootKeeps t.root t'.root →
        GoodF t' ∧ RootKeeps t.root t'.root ∧ (t'.root.needsExpose = true ∨ cursorSpec t' = cursorSpec t) := by
      intro t' hw hne hfl hk
      refine ⟨goodF_wins hg hw hne ?_, hk, .inr (cursorSpec_wins hw)⟩
      rcases hfl with h | ⟨h, _⟩
      · rw [h]; exact hg.flagged
      · exact fun _ => h
    split at htail
    · obtain ⟨hw, hne, _, hfl, _⟩ := expose_spec _ _ _ _ _ htail hg.nonempty s6
      have hk : RootKeeps (WinTree.set t p { pw with children := pw.children }).root t'.root := expose_keeps _ _ _ _ _ htail
      refine tail t' (hw.trans hwb) hne ?_ hk
      rcases hfl with h | ⟨a, b, _⟩
      · exact .inl (by rw [h]; rfl)
      · exact .inr ⟨a, b⟩
    · simp only [pure_ok] at htail; subst htail
      exact tail _ hwb hg.nonempty (.inl rfl) (rootKeeps_refl _)

/-- The whole queue. -/
theorem applyChanges_good : ∀ (reqs : List Req) (t t' : Tree), GoodF t → (∀ r ∈ reqs, r.change.isRestack = true) →
    applyChanges t reqs = .ok t' →
    GoodF t' ∧ RootKeeps t.root t'.root ∧ (t'.root.needsExpose = true ∨ cursorSpec t' = cursorSpec t) := by
  intro reqs
  induction reqs with
  | nil =>
    intro t t' hg _ h
    simp only [applyChanges, pure_ok] at h; subst h
    exact ⟨hg, rootKeeps_refl _, .inr rfl⟩
  | cons r rest ih =>
    intro t t' hg hq h
    simp only [applyChanges, bind_ok] at h
    obtain ⟨t1, h1, h2⟩ := h
    obtain ⟨g1, k1, r1⟩ := restack_apply hg (hq r (by simp)) h1
    obtain ⟨g2, k2, r2⟩ := ih t1 t' g1 (fun r' hr' => hq r' (by simp [hr'])) h2
    refine ⟨g2, rootKeeps_trans k1 k2, ?_⟩
    rcases r1 with r1 | r1
    · exact .inl (k2.2.1 r1)
    · rcases r2 with r2 | r2
      · exact .inl r2
      · exact .inr (r2.trans r1)

/-! ### Histories -/

/-- The operations the property quantifies over.  A geometry change comes with the exposes of the old and the new area
    in the parent (C01's proviso, adopted by the property's design). -/
inductive Op where
  | newWin (parent : Nat) (rect : Rect) (rootParent hidden lowest steal : Bool)
  | focus (win : Nat)
  | curpos (win : Nat) (line col : Int)
  | curvis (win : Nat) (v : Int)
  | curshape (win : Nat) (v : Int)
  | curblink (win : Nat) (v : Int)
  | notify (win : Nat) (v : Int)
  | showW (win : Nat)
  | hideW (win : Nat)
  | closeW (win : Nat)
  | restack (ch : Change) (win : Nat)
  | move (win : Nat) (rect : Rect)
  | exposeW (win : Nat) (rect : Option Rect)
  | flush
  /-- the terminal's resize event (`tickit_term_set_size` with a new size): `on_term_resize` -/
  | termResize (lines cols : Int)

/-- Tree and terminal cursor. -/
structure HSt where
  tree : Tree
  term : TermCursor := {}

def stepOp (fx : Fixes) (s : HSt) : Op → Res HSt
  | .newWin p r a b c d => do
    -- fuel: enough for the store with the new window in it
    let x ← newWindow s.tree (treeFuel s.tree + 1) p r a b c d
    pure { s with tree := x.1 }
  | .focus w => do let x ← takeFocus fx s.tree w; pure { s with tree := x.1 }
  | .curpos w l c => do let t ← setCursorPosition s.tree w l c; pure { s with tree := t }
  | .curvis w v => do let t ← setCursorVisible s.tree w v; pure { s with tree := t }
  | .curshape w v => do let t ← setCursorShape s.tree w v; pure { s with tree := t }
  | .curblink w v => do let t ← setCursorBlink s.tree w v; pure { s with tree := t }
  | .notify w v => do let t ← setFocusChildNotify s.tree w v; pure { s with tree := t }
  | .showW w => do let t ← showWin fx s.tree w; pure { s with tree := t }
  | .hideW w => do let t ← hideWin fx s.tree w; pure { s with tree := t }
  | .closeW w => do let t ← closeWin fx s.tree w; pure { s with tree := t }
  | .restack ch w => do let t ← requestHierarchyChange s.tree (treeFuel s.tree) ch w; pure { s with tree := t }
  | .move w r => do
    let t ← setGeometryExposed s.tree (treeFuel s.tree) w r
    pure { s with tree := t }
  | .exposeW w r => do let t ← expose s.tree (treeFuel s.tree) w r; pure { s with tree := t }
  | .flush => do
    let o ← WinFocus.flush fx s.tree
    pure { tree := o.tree, term := s.term.applyAll o.calls }
  | .termResize l c => do let t ← termResize fx s.tree l c; pure { s with tree := t }

def runOps (fx : Fixes) (s : HSt) : List Op → Res HSt
  | [] => pure s
  | op :: rest => do
    let s' ← stepOp fx s op
    runOps fx s' rest

/-- Histories the composition theorem covers: a restacking operation is one of the four the library offers (raise, raise
    to front, lower, lower to back), and the root window is not moved (its geometry follows the terminal). -/
def Op.plain : Op → Prop
  | .restack ch _ => ch.isRestack = true
  | .move w _ => w ≠ 0
  | .termResize _ _ => False
  | _ => True

/-- … and those that also let the terminal change its size (to at least one cell). -/
def Op.plainR : Op → Prop
  | .termResize l c => 0 < l ∧ 0 < c
  | op => op.plain

/-- The invariant of a history: the store and the flags are in order, the queue holds restacking requests only, and the
    terminal cursor is what the property says — or something is pending that will make the next flush re-establish it. -/
structure HInv (s : HSt) : Prop where
  good : Good15 s.tree
  queue : ∀ q ∈ s.tree.root.changes, q.change.isRestack = true
  /-- a queued request keeps the flush from being skipped (`_request_hierarchy_change` asks for later processing when it
      queues the first request; only the flush clears the flag, and it empties the queue) -/
  qlater : s.tree.root.changes ≠ [] → s.tree.root.needsLater = true
  sync : Pending s.tree ∨ s.term.matches (cursorSpec s.tree) = true

theorem hinv_mk {s : HSt} {t' : Tree} (hi : HInv s) (hg' : Good15 t')
    (hq' : ∀ q ∈ t'.root.changes, q.change.isRestack = true)
    (hql : t'.root.changes ≠ [] → t'.root.needsLater = true) (hpk : Pending s.tree → Pending t')
    (hr : Pending t' ∨ cursorSpec t' = cursorSpec s.tree) : HInv { s with tree := t' } := by
  refine ⟨hg', hq', hql, ?_⟩
  rcases hi.sync with hp | hm
  · exact .inl (hpk hp)
  · rcases hr with hp | he
    · exact .inl hp
    · exact .inr (by show s.term.matches (cursorSpec t') = true; rw [he]; exact hm)

theorem hinv_of_step {s : HSt} {t' : Tree} (hi : HInv s) (hg' : Good15 t') (hk : RootKeeps s.tree.root t'.root)
    (hr : Pending t' ∨ cursorSpec t' = cursorSpec s.tree) : HInv { s with tree := t' } :=
  hinv_mk hi hg' (fun q hq => hi.queue q (hk.2.2.2 q hq))
    (fun hne => by
      cases hc : t'.root.changes with
      | nil => exact absurd hc hne
      | cons q qs =>
        have hq : q ∈ s.tree.root.changes := hk.2.2.2 q (by rw [hc]; simp)
        exact hk.2.2.1 (hi.qlater (fun h0 => by rw [h0] at hq; cases hq)))
    (pending_keeps hk) hr

theorem qlater_keeps {s : HSt} {t' : Tree} (hi : HInv s) (hk : RootKeeps s.tree.root t'.root) :
    t'.root.changes ≠ [] → t'.root.needsLater = true := by
  intro hne
  cases hc : t'.root.changes with
  | nil => exact absurd hc hne
  | cons q qs =>
    have hq : q ∈ s.tree.root.changes := hk.2.2.2 q (by rw [hc]; simp)
    exact hk.2.2.1 (hi.qlater (fun h0 => by rw [h0] at hq; cases hq))

theorem notify_requests {t t' : Tree} {win : Nat} {v : Int} (hh : setFocusChildNotify t win v = .ok t') :
    cursorSpec t' = cursorSpec t := by
  unfold setFocusChildNotify WinTree.modify at hh
  simp only [bind_ok, pure_ok] at hh
  obtain ⟨w, hgw, ht1⟩ := hh
  have hw := (get_ok.mp hgw).1
  subst ht1
  apply cursorSpec_agree (agree_set (w' := { w with focusChildNotify := bit1 v }) hw rfl)
  intro a a' ha ha'
  left
  rw [set_lookup hw] at ha'
  by_cases he : win = chainEnd t (treeFuel t) 0
  · simp only [he, if_true] at ha'
    rw [← he, hw] at ha; cases ha; cases ha'; exact ⟨rfl, rfl⟩
  · simp only [he, if_false] at ha'
    rw [ha] at ha'; cases ha'; exact ⟨rfl, rfl⟩

/-- `tickit_window_flush` with work to do, in pieces. -/
theorem flush_pieces {fx : Fixes} {t : Tree} {out : FlushOut} (hf : flush fx t = .ok out)
    (hl : t.root.needsLater = true) :
    ∃ t1, applyChanges { t with root := { t.root with needsLater := false } } t.root.changes = .ok t1 ∧
      out.tree.wins = t1.wins ∧ out.tree.root.changes = [] ∧ out.tree.root.needsExpose = false ∧
      out.tree.root.needsRestore = false ∧
      (out.tree.root.damage = [] ∨ (t1.root.needsExpose = false ∧ out.tree.root.damage = t1.root.damage)) ∧
      (t1.root.needsRestore = false → t1.root.needsExpose = false → out.calls = []) ∧
      ((t1.root.needsRestore = true ∨ t1.root.needsExpose = true) → wfB out.tree = true →
        (fx.hiddenRoot = true ∨ rootVisible out.tree = true) →
        ∀ c0 : TermCursor, (c0.applyAll out.calls).matches (cursorSpec out.tree) = true) := by
  unfold flush at hf
  simp only [hl, Bool.not_true, Bool.false_eq_true, if_false, bind_ok] at hf
  obtain ⟨t1, h1, hf⟩ := hf
  refine ⟨t1, h1, ?_⟩
  unfold flushRestore flushExpose at hf
  cases he : t1.root.needsExpose with
  | true =>
    simp only [he, if_true, bind_ok, pure_ok] at hf
    obtain ⟨c2, hc2, hf⟩ := hf
    subst hf
    refine ⟨rfl, rfl, rfl, rfl, .inl rfl, (fun _ h => by cases h), fun _ hwf hroot c0 => ?_⟩
    simp only at hwf hroot ⊢
    rw [applyAll_append]
    exact doRestore_spec hwf fx hroot hc2 _
  | false =>
    simp only [he, Bool.false_eq_true, if_false] at hf
    cases hr : t1.root.needsRestore with
    | true =>
      simp only [hr, if_true, bind_ok, pure_ok] at hf
      obtain ⟨c2, hc2, hf⟩ := hf
      subst hf
      refine ⟨rfl, rfl, rfl, rfl, .inr ⟨rfl, rfl⟩, (fun h => by cases h), fun _ hwf hroot c0 => ?_⟩
      simp only at hwf hroot ⊢
      exact doRestore_spec hwf fx hroot hc2 _
    | false =>
      simp only [hr, Bool.false_eq_true, if_false, pure_ok] at hf
      subst hf
      exact ⟨rfl, rfl, rfl, rfl, .inr ⟨rfl, rfl⟩, (fun _ _ => rfl),
        fun h => by rcases h with h | h <;> cases h⟩

/-- The flush preserves `Good15` when the queue holds restacking requests only (all the public API can put there). -/
theorem flush_good {fx : Fixes} {t : Tree} {out : FlushOut} (hg : Good15 t)
    (hq : ∀ q ∈ t.root.changes, q.change.isRestack = true) (hf : flush fx t = .ok out) : Good15 out.tree := by
  cases hl : t.root.needsLater with
  | false =>
    unfold flush at hf
    simp only [hl, Bool.not_false, if_true, pure_ok] at hf
    subst hf; exact hg
  | true =>
    obtain ⟨t1, h1, hwins, _, b, c, hd, _, _⟩ := flush_pieces hf hl
    have hg0 : GoodF { t with root := { t.root with needsLater := false } } :=
      goodF_wins (goodF_of_good hg) rfl hg.nonempty hg.flagged
    obtain ⟨g1, _, _⟩ := applyChanges_good _ _ _ hg0 hq h1
    have hdmg : out.tree.root.damage = [] := by
      rcases hd with hd | ⟨he, hd⟩
      · exact hd
      · rw [hd]
        cases hdd : t1.root.damage with
        | nil => rfl
        | cons x xs =>
          have := g1.flagged (by rw [hdd]; simp)
          rw [he] at this; cases this
    obtain ⟨x1, x2, x3, x4, x5, x6⟩ := struct_congr (t := t1) (t' := out.tree) (fun x => by rw [hwins]) g1.wfp g1.rootWin
      g1.onlyRoot g1.nodup g1.noSelf g1.pos
    exact { wf := by rw [wfB_wins hwins]; exact g1.wf
            wfp := x1, rootWin := x2, onlyRoot := x3, nodup := x4, noSelf := x5, pos := x6
            nonempty := by rw [hdmg]; intro x hx; cases hx
            flagged := fun hne => absurd hdmg hne
            later := by rw [b, c]; intro h; rcases h with h | h <;> cases h }

/-- The flush: afterwards the invariant holds *and* the terminal cursor is what the property says. -/
theorem flush_step {fx : Fixes} (hfx : fx.hiddenRoot = true) {s s' : HSt} (hi : HInv s)
    (hs : stepOp fx s .flush = .ok s') : HInv s' ∧ s'.term.matches (cursorSpec s'.tree) = true := by
  simp only [stepOp, bind_ok, pure_ok] at hs
  obtain ⟨o, hf, hs⟩ := hs
  subst hs
  cases hl : s.tree.root.needsLater with
  | false =>
    unfold flush at hf
    simp only [hl, Bool.not_false, if_true, pure_ok] at hf
    subst hf
    have hm : s.term.matches (cursorSpec s.tree) = true := by
      rcases hi.sync with ⟨_, h2⟩ | hm
      · rw [hl] at h2; cases h2
      · exact hm
    exact ⟨⟨hi.good, hi.queue, hi.qlater, .inr hm⟩, hm⟩
  | true =>
    obtain ⟨t1, h1, hwins, hq', b, c, hd, hcalls, hspec⟩ := flush_pieces hf hl
    have hg0 : GoodF { s.tree with root := { s.tree.root with needsLater := false } } :=
      goodF_wins (goodF_of_good hi.good) rfl hi.good.nonempty hi.good.flagged
    obtain ⟨g1, k1, r1⟩ := applyChanges_good _ _ _ hg0 hi.queue h1
    have hwf' : wfB o.tree = true := by rw [wfB_wins hwins]; exact g1.wf
    have hdmg : o.tree.root.damage = [] := by
      rcases hd with hd | ⟨he, hd⟩
      · exact hd
      · rw [hd]
        cases hdd : t1.root.damage with
        | nil => rfl
        | cons x xs =>
          have := g1.flagged (by rw [hdd]; simp)
          rw [he] at this; cases this
    have hg' : Good15 o.tree := by
      obtain ⟨x1, x2, x3, x4, x5, x6⟩ := struct_congr (t := t1) (t' := o.tree) (fun x => by rw [hwins]) g1.wfp g1.rootWin
        g1.onlyRoot g1.nodup g1.noSelf g1.pos
      exact { wf := hwf', wfp := x1, rootWin := x2, onlyRoot := x3, nodup := x4, noSelf := x5, pos := x6
              nonempty := by rw [hdmg]; intro x hx; cases hx
              flagged := fun hne => absurd hdmg hne
              later := by rw [b, c]; intro h; rcases h with h | h <;> cases h }
    have hm' : (s.term.applyAll o.calls).matches (cursorSpec o.tree) = true := by
      by_cases hp : t1.root.needsRestore = true ∨ t1.root.needsExpose = true
      · exact hspec hp hwf' (.inl hfx) s.term
      · have e1 : t1.root.needsRestore = false := by
          cases h : t1.root.needsRestore with
          | false => rfl
          | true => exact absurd (.inl h) hp
        have e2 : t1.root.needsExpose = false := by
          cases h : t1.root.needsExpose with
          | false => rfl
          | true => exact absurd (.inr h) hp
        have hsame : cursorSpec t1 = cursorSpec s.tree := by
          rcases r1 with r1 | r1
          · rw [e2] at r1; cases r1
          · exact r1.trans (cursorSpec_wins rfl)
        rw [hcalls e1 e2, cursorSpec_wins hwins, hsame]
        rcases hi.sync with ⟨h3, _⟩ | hm
        · exfalso
          rcases h3 with h3 | h3
          · have := k1.1 h3; rw [e1] at this; cases this
          · have := k1.2.1 h3; rw [e2] at this; cases this
        · exact hm
    exact ⟨⟨hg', (by rw [hq']; intro q hq; cases hq), (by rw [hq']; intro h; exact absurd rfl h), .inr hm'⟩, hm'⟩

/-- Every other operation of a plain history keeps the invariant (repaired source). -/
theorem plain_step {fx : Fixes} (hfx1 : fx.hiddenRoot = true) (hfx2 : fx.chainRestore = true) {s s' : HSt} {op : Op}
    (hop : op.plain) (hi : HInv s) (hs : stepOp fx s op = .ok s') : HInv s' := by
  cases op with
  | restack ch w =>
    simp only [stepOp, bind_ok, pure_ok] at hs
    obtain ⟨x, hx, hs⟩ := hs; subst hs
    have hg' := restack_request_good hi.good hx
    have hch : ch.isRestack = true := hop
    unfold requestHierarchyChange at hx
    simp only [bind_ok] at hx
    obtain ⟨w0, _, hx⟩ := hx
    split at hx
    · simp only [pure_ok] at hx; subst hx
      exact hinv_mk hi hi.good hi.queue hi.qlater id (.inr rfl)
    · simp only [bind_ok, pure_ok] at hx
      obtain ⟨_, _, hx⟩ := hx
      subst hx
      refine hinv_mk hi hg' ?_ ?_ ?_ (.inr (cursorSpec_wins rfl))
      · intro q hq
        simp only [List.mem_append, List.mem_singleton] at hq
        rcases hq with hq | hq
        · exact hi.queue q hq
        · subst hq; exact hch
      · intro _
        show (s.tree.root.needsLater || s.tree.root.changes.isEmpty) = true
        cases hc : s.tree.root.changes with
        | nil => simp
        | cons q qs => rw [hi.qlater (by rw [hc]; simp)]; rfl
      · rintro ⟨h1, h2⟩
        exact ⟨h1, by show (s.tree.root.needsLater || _) = true; rw [h2]; rfl⟩
  | flush => exact (flush_step hfx1 hi hs).1
  | termResize l c => exact absurd hop id
  | newWin p r a b c d =>
    simp only [stepOp, bind_ok, pure_ok] at hs
    obtain ⟨x, hx, hs⟩ := hs; subst hs
    obtain ⟨t', id⟩ := x
    obtain ⟨hg', hr⟩ := newWindow_step hi.good hx
    exact hinv_of_step hi hg' (newWindow_keeps hx) hr
  | focus w =>
    simp only [stepOp, bind_ok, pure_ok] at hs
    obtain ⟨x, hx, hs⟩ := hs; subst hs
    exact hinv_of_step hi (takeFocus_good hi.good hx) (rootKeeps_of_step (focusGained_rootStep fx _ _ _ _ _ hx))
      (takeFocus_requests hi.good.wf hx)
  | curpos w l c =>
    simp only [stepOp, bind_ok, pure_ok] at hs
    obtain ⟨x, hx, hs⟩ := hs; subst hs
    have hk : RootKeeps s.tree.root x.root := by
      unfold setCursorPosition at hx
      simp only [bind_ok] at hx
      obtain ⟨t1, hm, hr⟩ := hx
      have hr1 : t1.root = s.tree.root := by
        unfold WinTree.modify at hm; simp only [bind_ok, pure_ok] at hm
        obtain ⟨_, _, hm⟩ := hm; subst hm; rfl
      rw [← hr1]; exact rootKeeps_of_step (restoreIfFocused_rootStep hr).2
    exact hinv_of_step hi (cursor_setter_good (fun cu => { cu with line := l, col := c }) hi.good hx) hk
      (cursor_setter_requests (fun cu => { cu with line := l, col := c }) hx)
  | curvis w v =>
    simp only [stepOp, bind_ok, pure_ok] at hs
    obtain ⟨x, hx, hs⟩ := hs; subst hs
    have hk : RootKeeps s.tree.root x.root := by
      unfold setCursorVisible at hx
      simp only [bind_ok] at hx
      obtain ⟨t1, hm, hr⟩ := hx
      have hr1 : t1.root = s.tree.root := by
        unfold WinTree.modify at hm; simp only [bind_ok, pure_ok] at hm
        obtain ⟨_, _, hm⟩ := hm; subst hm; rfl
      rw [← hr1]; exact rootKeeps_of_step (restoreIfFocused_rootStep hr).2
    exact hinv_of_step hi (cursor_setter_good (fun cu => { cu with visible := bit1 v }) hi.good hx) hk
      (cursor_setter_requests (fun cu => { cu with visible := bit1 v }) hx)
  | curshape w v =>
    simp only [stepOp, bind_ok, pure_ok] at hs
    obtain ⟨x, hx, hs⟩ := hs; subst hs
    have hk : RootKeeps s.tree.root x.root := by
      unfold setCursorShape at hx
      simp only [bind_ok] at hx
      obtain ⟨t1, hm, hr⟩ := hx
      have hr1 : t1.root = s.tree.root := by
        unfold WinTree.modify at hm; simp only [bind_ok, pure_ok] at hm
        obtain ⟨_, _, hm⟩ := hm; subst hm; rfl
      rw [← hr1]; exact rootKeeps_of_step (restoreIfFocused_rootStep hr).2
    exact hinv_of_step hi (cursor_setter_good (fun cu => { cu with shape := v }) hi.good hx) hk
      (cursor_setter_requests (fun cu => { cu with shape := v }) hx)
  | curblink w v =>
    simp only [stepOp, bind_ok, pure_ok] at hs
    obtain ⟨x, hx, hs⟩ := hs; subst hs
    have hk : RootKeeps s.tree.root x.root := by
      unfold setCursorBlink at hx
      simp only [bind_ok] at hx
      obtain ⟨t1, hm, hr⟩ := hx
      have hr1 : t1.root = s.tree.root := by
        unfold WinTree.modify at hm; simp only [bind_ok, pure_ok] at hm
        obtain ⟨_, _, hm⟩ := hm; subst hm; rfl
      rw [← hr1]; exact rootKeeps_of_step (restoreIfFocused_rootStep hr).2
    exact hinv_of_step hi (cursor_setter_good (fun cu => { cu with blink := if v ≠ 0 then 1 else 0 }) hi.good hx) hk
      (cursor_setter_requests (fun cu => { cu with blink := if v ≠ 0 then 1 else 0 }) hx)
  | notify w v =>
    simp only [stepOp, bind_ok, pure_ok] at hs
    obtain ⟨x, hx, hs⟩ := hs; subst hs
    have hk : RootKeeps s.tree.root x.root := by
      unfold setFocusChildNotify WinTree.modify at hx
      simp only [bind_ok, pure_ok] at hx
      obtain ⟨_, _, hx⟩ := hx; subst hx; exact rootKeeps_refl _
    exact hinv_of_step hi (notify_good hi.good hx) hk (.inr (notify_requests hx))
  | showW w =>
    simp only [stepOp, bind_ok, pure_ok] at hs
    obtain ⟨x, hx, hs⟩ := hs; subst hs
    exact hinv_of_step hi (show_good hi.good hx) (showWin_keeps hi.good hx) (show_requests hfx2 hi.good hx)
  | hideW w =>
    simp only [stepOp, bind_ok, pure_ok] at hs
    obtain ⟨x, hx, hs⟩ := hs; subst hs
    exact hinv_of_step hi (hide_good hi.good hx) (hideWin_keeps hi.good hx) (hide_requests hfx1 hfx2 hi.good hx)
  | closeW w =>
    simp only [stepOp, bind_ok, pure_ok] at hs
    obtain ⟨x, hx, hs⟩ := hs; subst hs
    exact hinv_of_step hi (close_good hi.good hx) (closeWin_keeps hi.good hx) (close_requests hfx2 hi.good hx)
  | move w r =>
    simp only [stepOp, bind_ok, pure_ok] at hs
    obtain ⟨x, hx, hs⟩ := hs; subst hs
    have h0 : w ≠ 0 := hop
    exact hinv_of_step hi (move_good hi.good h0 hx) (move_keeps hx)
      (move_requests hi.good h0 hx (setGeometryExposed_wf hi.good.wf hx))
  | exposeW w r =>
    simp only [stepOp, bind_ok, pure_ok] at hs
    obtain ⟨x, hx, hs⟩ := hs; subst hs
    exact hinv_of_step hi (expose_good hi.good hx) (expose_keeps _ _ _ _ _ hx)
      (.inr (cursorSpec_wins (expose_frame _ _ _ _ _ hx).1))

theorem runOps_inv {fx : Fixes} (hfx1 : fx.hiddenRoot = true) (hfx2 : fx.chainRestore = true) :
    ∀ (ops : List Op) (s s' : HSt), (∀ op ∈ ops, op.plain) → HInv s → runOps fx s ops = .ok s' → HInv s' := by
  intro ops
  induction ops with
  | nil => intro s s' _ hi h; simp only [runOps, pure_ok] at h; subst h; exact hi
  | cons op rest ih =>
    intro s s' hp hi h
    simp only [runOps, bind_ok] at h
    obtain ⟨s1, h1, h2⟩ := h
    exact ih s1 s' (fun o ho => hp o (by simp [ho])) (plain_step hfx1 hfx2 (hp op (by simp)) hi h1) h2

/-- The same with terminal resizes, for a source that also carries the repair `resizeRestore`. -/
theorem plainR_step {fx : Fixes} (hfx1 : fx.hiddenRoot = true) (hfx2 : fx.chainRestore = true)
    (hfx3 : fx.resizeRestore = true) {s s' : HSt} {op : Op}
    (hop : op.plainR) (hi : HInv s) (hs : stepOp fx s op = .ok s') : HInv s' := by
  by_cases hr : ∃ l c, op = .termResize l c
  · obtain ⟨l, c, rfl⟩ := hr
    have hlc : 0 < l ∧ 0 < c := hop
    simp only [stepOp, bind_ok, pure_ok] at hs
    obtain ⟨x, hx, hs⟩ := hs; subst hs
    exact hinv_of_step hi (termResize_good hi.good hlc.1 hlc.2 hx) (termResize_keeps hi.good hlc.1 hlc.2 hx)
      (.inl (termResize_pending hfx3 hi.good hlc.1 hlc.2 hx))
  · have hp : op.plain := by
      cases op <;> first | exact hop | exact absurd ⟨_, _, rfl⟩ hr
    exact plain_step hfx1 hfx2 hp hi hs

theorem runOps_invR {fx : Fixes} (hfx1 : fx.hiddenRoot = true) (hfx2 : fx.chainRestore = true)
    (hfx3 : fx.resizeRestore = true) :
    ∀ (ops : List Op) (s s' : HSt), (∀ op ∈ ops, op.plainR) → HInv s → runOps fx s ops = .ok s' → HInv s' := by
  intro ops
  induction ops with
  | nil => intro s s' _ hi h; simp only [runOps, pure_ok] at h; subst h; exact hi
  | cons op rest ih =>
    intro s s' hp hi h
    simp only [runOps, bind_ok] at h
    obtain ⟨s1, h1, h2⟩ := h
    exact ih s1 s' (fun o ho => hp o (by simp [ho])) (plainR_step hfx1 hfx2 hfx3 (hp op (by simp)) hi h1) h2

theorem runOps_append (fx : Fixes) : ∀ (a b : List Op) (s s' : HSt), runOps fx s (a ++ b) = .ok s' →
    ∃ s1, runOps fx s a = .ok s1 ∧ runOps fx s1 b = .ok s' := by
  intro a
  induction a with
  | nil => intro b s s' h; exact ⟨s, rfl, h⟩
  | cons op rest ih =>
    intro b s s' h
    simp only [List.cons_append, runOps, bind_ok] at h ⊢
    obtain ⟨s0, h0, h⟩ := h
    obtain ⟨s1, h1, h2⟩ := ih b s0 s' h
    exact ⟨s1, ⟨s0, h0, h1⟩, h2⟩

/-- A fresh root window on an `l × c` terminal is in order, with the first flush pending. -/
theorem hinv_newRoot (l c : Int) (hl : 0 < l) (hc : 0 < c) : HInv { tree := newRoot l c } := by
  have hdm : (if 0 < l ∧ 0 < c then [(⟨0, 0, l, c⟩ : Rect)] else []) = [⟨0, 0, l, c⟩] := by simp [hl, hc]
  have hlook : ∀ (i : Nat) (w : Win), (newRoot l c).wins[i]? = some w →
      i = 0 ∧ w = { rect := ⟨0, 0, l, c⟩, isRoot := true } := by
    intro i w hw
    unfold newRoot at hw
    simp only [] at hw
    cases i with
    | zero => simp at hw; exact ⟨rfl, hw.symm⟩
    | succ n => simp at hw
  have hwf : wfB (newRoot l c) = true := by
    apply wfB_of
    · exact ⟨{ rect := ⟨0, 0, l, c⟩, isRoot := true }, by unfold newRoot; simp, rfl, rfl, rfl⟩
    · intro j x hx _
      obtain ⟨_, rfl⟩ := hlook j x hx
      exact winOk_intro (fun p hp => by cases hp) (fun ch hch => by cases hch) (fun ch hch => by cases hch)
  have hroot : (newRoot l c).root = { damage := [⟨0, 0, l, c⟩], needsExpose := true, needsLater := true } := by
    unfold newRoot; simp only [hdm]; rfl
  refine ⟨?_, (by rw [hroot]; intro q hq; cases hq), (by rw [hroot]; intro _; rfl), .inl ⟨.inr (by rw [hroot]), by rw [hroot]⟩⟩
  exact { wf := hwf
          wfp := ⟨fun cur w hw ch hch => by obtain ⟨_, rfl⟩ := hlook cur w hw; cases hch⟩
          rootWin := ⟨⟨{ rect := ⟨0, 0, l, c⟩, isRoot := true }, by unfold newRoot; simp, rfl, rfl, rfl, rfl, rfl⟩⟩
          onlyRoot := fun x w hw _ => (hlook x w hw).1
          nodup := fun cur w hw => by obtain ⟨_, rfl⟩ := hlook cur w hw; simp
          noSelf := fun x w hw => by obtain ⟨_, rfl⟩ := hlook x w hw; simp
          pos := fun x w hw _ => by obtain ⟨_, rfl⟩ := hlook x w hw; exact ⟨hl, hc⟩
          nonempty := by
            rw [hroot]; intro x hx
            simp at hx; subst hx; exact ⟨hl, hc⟩
          flagged := by rw [hroot]; intro _; rfl
          later := by rw [hroot]; intro _; rfl }

/-- **C15 over histories** (repaired source; any history of the library's operations in which the root window is not
    moved): from a fresh root window, after any history that ends in a flush and that the library survives, the
    terminal cursor is what `cursorSpec` says of the tree. -/
theorem history_cursor {fx : Fixes} (hfx1 : fx.hiddenRoot = true) (hfx2 : fx.chainRestore = true)
    (l c : Int) (hl : 0 < l) (hc : 0 < c) (ops : List Op) (hplain : ∀ op ∈ ops, op.plain) (s : HSt)
    (h : runOps fx { tree := newRoot l c } (ops ++ [.flush]) = .ok s) :
    s.term.matches (cursorSpec s.tree) = true := by
  obtain ⟨s1, h1, h2⟩ := runOps_append fx ops [.flush] _ s h
  have hi1 := runOps_inv hfx1 hfx2 ops _ s1 hplain (hinv_newRoot l c hl hc) h1
  simp only [runOps, bind_ok, pure_ok] at h2
  obtain ⟨s2, h2, h3⟩ := h2
  subst h3
  exact (flush_step hfx1 hi1 h2).2

/-- **C15 over histories with terminal resizes** (source with all three repairs): the same, for histories in which the
    terminal also changes its size, any number of times, to any size of at least one cell. -/
theorem history_cursor_resize {fx : Fixes} (hfx1 : fx.hiddenRoot = true) (hfx2 : fx.chainRestore = true)
    (hfx3 : fx.resizeRestore = true)
    (l c : Int) (hl : 0 < l) (hc : 0 < c) (ops : List Op) (hplain : ∀ op ∈ ops, op.plainR) (s : HSt)
    (h : runOps fx { tree := newRoot l c } (ops ++ [.flush]) = .ok s) :
    s.term.matches (cursorSpec s.tree) = true := by
  obtain ⟨s1, h1, h2⟩ := runOps_append fx ops [.flush] _ s h
  have hi1 := runOps_invR hfx1 hfx2 hfx3 ops _ s1 hplain (hinv_newRoot l c hl hc) h1
  simp only [runOps, bind_ok, pure_ok] at h2
  obtain ⟨s2, h2, h3⟩ := h2
  subst h3
  exact (flush_step hfx1 hi1 h2).2

end WinFocus
end Tickit
