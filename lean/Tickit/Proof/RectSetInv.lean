import Tickit.Proof.RectSet
/-
  The invariant of the stored array of a TickitRectSet and its preservation (C05).

  `Inv s`  : members non-empty, pairwise disjoint, strictly sorted by (top, left), no two members share a
             vertical edge segment of positive length (`NoVEdge`), no two members with equal columns are
             vertically adjacent (`NoStack`).  Together: the array is the canonical band decomposition of
             the region it covers.
  `InvS s` : the same, as one `Pairwise` over a linear-arithmetic relation (what the proofs use).
-/
namespace Tickit
namespace RectSet
open Rect

/-! ### vocabulary -/

/-- `a` sorts strictly before `b`: by top, then left. -/
def TL (a b : Rect) : Prop := a.top < b.top ∨ (a.top = b.top ∧ a.left < b.left)

/-- Arithmetic form of "share no cell" (for non-empty rectangles). -/
def Sep (a b : Rect) : Prop :=
  a.bottom ≤ b.top ∨ b.bottom ≤ a.top ∨ a.right ≤ b.left ∨ b.right ≤ a.left

/-- The two rectangles share a vertical edge segment of positive length. -/
def VEdge (a b : Rect) : Prop :=
  (a.right = b.left ∨ b.right = a.left) ∧ a.top < b.bottom ∧ b.top < a.bottom

/-- Same columns and vertically adjacent (one directly on top of the other). -/
def Stacked (a b : Rect) : Prop :=
  a.left = b.left ∧ a.right = b.right ∧ (a.bottom = b.top ∨ b.bottom = a.top)

/-- `x` lies directly above `p` with the same columns. -/
def SA (x p : Rect) : Prop := x.left = p.left ∧ x.right = p.right ∧ x.bottom = p.top

/-- Two members of a canonical array: no common cell, no common vertical edge, not stackable. -/
def Apart (a b : Rect) : Prop := Sep a b ∧ ¬ VEdge a b ∧ ¬ Stacked a b

/-- Relation between an earlier and a later member of the array. -/
def Ord (a b : Rect) : Prop := TL a b ∧ Apart a b

/-- The invariant in the form the proofs use. -/
def InvS (s : List Rect) : Prop := (∀ x ∈ s, x.Nonempty) ∧ s.Pairwise Ord

instance (a b : Rect) : Decidable (Ord a b) := by
  unfold Ord Apart TL Sep VEdge Stacked; exact inferInstance

instance (s : List Rect) : Decidable (InvS s) := by
  unfold InvS; exact inferInstance

/-- Unfold the whole vocabulary and finish by linear arithmetic. -/
macro "rs_omega" : tactic =>
  `(tactic| ((try simp only [Ord, Apart, TL, Sep, VEdge, Stacked, SA, Rect.Mem, Rect.bottom, Rect.right,
      Rect.initBounded, Rect.Nonempty, Rect.translate, cmprect] at *) <;>
      (try simp only [true_and, and_true, true_or, or_true]) <;> first | done | omega))

/-! ### the invariant as the property states it -/

def SortedTL (s : List Rect) : Prop := s.Pairwise TL

def NoVEdge (s : List Rect) : Prop :=
  ∀ a ∈ s, ∀ b ∈ s, a ≠ b →
    ¬ ((a.right = b.left ∨ b.right = a.left) ∧ a.top < b.bottom ∧ b.top < a.bottom)

def NoStack (s : List Rect) : Prop :=
  ∀ a ∈ s, ∀ b ∈ s, ¬ (a.left = b.left ∧ a.right = b.right ∧ a.bottom = b.top)

def Inv (s : List Rect) : Prop :=
  (∀ x ∈ s, x.Nonempty) ∧ s.Pairwise Rect.Disjoint ∧ SortedTL s ∧ NoVEdge s ∧ NoStack s

theorem sep_iff_disjoint {a b : Rect} (ha : a.Nonempty) (hb : b.Nonempty) :
    Sep a b ↔ Rect.Disjoint a b := by
  unfold Rect.Disjoint
  constructor
  · intro h l c
    rs_omega
  · intro h
    have h1 := h (max a.top b.top) (max a.left b.left)
    rs_omega

theorem apart_symm {a b : Rect} (h : Apart a b) : Apart b a := by rs_omega

theorem inv_iff (s : List Rect) : Inv s ↔ InvS s := by
  unfold Inv InvS SortedTL
  constructor
  · rintro ⟨hne, hd, hs, hv, hk⟩
    refine ⟨hne, ?_⟩
    have hp := (hd.and hs)
    refine hp.imp_of_mem ?_
    intro a b ha hb ⟨h1, h2⟩
    have hab : a ≠ b := by
      intro e; subst e; unfold TL at h2; omega
    have h3 := hv a ha b hb hab
    have h4 := hk a ha b hb
    have h5 := hk b hb a ha
    have h6 := (sep_iff_disjoint (hne a ha) (hne b hb)).2 h1
    refine ⟨h2, h6, ?_, ?_⟩
    · unfold VEdge; exact h3
    · unfold Stacked; omega
  · rintro ⟨hne, hp⟩
    refine ⟨hne, ?_, ?_, ?_, ?_⟩
    · refine hp.imp_of_mem ?_
      intro a b ha hb h
      exact (sep_iff_disjoint (hne a ha) (hne b hb)).1 h.2.1
    · exact hp.imp (fun h => h.1)
    · intro a ha b hb hab
      have hq : s.Pairwise (fun a b => a.Nonempty → b.Nonempty → ¬ VEdge a b) :=
        hp.imp (fun h _ _ => h.2.2.1)
      have := hq.forall_of_forall_of_flip (l := s)
        (by intro x _ hx _; unfold VEdge; rs_omega)
        (by
          refine hq.imp ?_
          intro x y h hy hx; have := h hx hy; unfold VEdge at *; omega)
      have := this ha hb (hne a ha) (hne b hb)
      unfold VEdge at this; exact this
    · intro a ha b hb
      have hq : s.Pairwise (fun a b => a.Nonempty → b.Nonempty → ¬ Stacked a b) :=
        hp.imp (fun h _ _ => h.2.2.2)
      have := hq.forall_of_forall_of_flip (l := s)
        (by intro x _ hx _; rs_omega)
        (by
          refine hq.imp ?_
          intro x y h hy hx; have := h hx hy; unfold Stacked at *; omega)
      have := this ha hb (hne a ha) (hne b hb)
      unfold Stacked at this; omega

/-! ### `InvS` under deletion, insertion, translation -/

theorem invS_nil : InvS [] := ⟨by simp, List.Pairwise.nil⟩

theorem invS_eraseIdx {s : List Rect} (h : InvS s) (i : Nat) : InvS (s.eraseIdx i) :=
  ⟨fun x hx => h.1 x (mem_of_mem_eraseIdx hx), h.2.sublist (List.eraseIdx_sublist ..)⟩

theorem invS_insertRect {s : List Rect} {cur : Rect} (h : InvS s) (hc : cur.Nonempty)
    (ha : ∀ x ∈ s, Apart cur x) : InvS (insertRect s cur) := by
  obtain ⟨hne, hp⟩ := h
  refine ⟨?_, ?_⟩
  · intro x hx
    rcases (mem_insertRect s cur x).1 hx with rfl | hx
    · exact hc
    · exact hne x hx
  · induction s with
    | nil => simp [insertRect]
    | cons x xs ih =>
      have hx := hne x (by simp)
      have hax := ha x (by simp)
      rw [List.pairwise_cons] at hp
      unfold insertRect
      split
      · rename_i hcmp
        rw [List.pairwise_cons]
        refine ⟨?_, List.pairwise_cons.2 hp⟩
        intro y hy
        rcases List.mem_cons.1 hy with rfl | hy
        · exact ⟨by rs_omega, hax⟩
        · have h1 := hp.1 y hy
          exact ⟨by rs_omega, ha y (by simp [hy])⟩
      · rename_i hcmp
        rw [List.pairwise_cons]
        refine ⟨?_, ih (fun y hy => ha y (by simp [hy])) (fun y hy => hne y (by simp [hy])) hp.2⟩
        intro y hy
        rcases (mem_insertRect xs cur y).1 hy with rfl | hy
        · exact ⟨by rs_omega, apart_symm hax⟩
        · exact hp.1 y hy

theorem invS_translate {s : List Rect} (h : InvS s) (d k : Int) : InvS (translate s d k) := by
  refine ⟨nonempty_translate s d k h.1, ?_⟩
  unfold translate
  rw [List.pairwise_map]
  refine h.2.imp ?_
  intro a b hab
  rs_omega

/-! ### what the scan has established when it decides to insert -/

theorem scan_insert {cur : Rect} (hc : cur.Nonempty) :
    ∀ (s : List Rect) (i0 : Nat), scan cur s i0 = .insert → (∀ x ∈ s, x.Nonempty) → s.Pairwise TL →
      ∀ x ∈ s, Apart cur x := by
  intro s
  induction s with
  | nil => intro _ _ _ _ x hx; simp at hx
  | cons r rest ih =>
    intro i0 h hne hs x hx
    have hr := hne r (by simp)
    rw [List.pairwise_cons] at hs
    unfold scan at h
    split at h
    · -- break: everything from here on starts below `cur`
      rename_i hb
      rcases List.mem_cons.1 hx with rfl | hx
      · rs_omega
      · have h1 := hs.1 x hx
        have h2 := hne x (by simp [hx])
        rs_omega
    · split at h
      · rename_i hb hfar
        rcases List.mem_cons.1 hx with rfl | hx
        · rs_omega
        · exact ih _ h (fun y hy => hne y (by simp [hy])) hs.2 x hx
      · split at h
        · cases h
        · split at h
          · cases h
          · split at h
            · rename_i hb hfar hcont hst hadj
              rcases List.mem_cons.1 hx with rfl | hx
              · rs_omega
              · exact ih _ h (fun y hy => hne y (by simp [hy])) hs.2 x hx
            · cases h

/-! ### `add` and `addMany` preserve the invariant, for every fuel -/

theorem add_addMany_invS (fuel : Nat) :
    (∀ s cur s', add fuel s cur = some s' → cur.Nonempty → InvS s → InvS s') ∧
    (∀ s ps s', addMany fuel s ps = some s' → (∀ p ∈ ps, p.Nonempty) → InvS s → InvS s') := by
  induction fuel with
  | zero =>
    refine ⟨?_, ?_⟩
    · intro s cur s' h; simp [add] at h
    · intro s ps s' h hps hs
      cases ps with
      | nil => simp [addMany] at h; subst h; exact hs
      | cons p ps => simp [addMany] at h
  | succ n ih =>
    obtain ⟨ihA, ihM⟩ := ih
    refine ⟨?_, ?_⟩
    · intro s cur s' h hc hs
      unfold add at h
      split at h
      · rename_i hscan
        injection h with h; subst h
        exact invS_insertRect hs hc
          (scan_insert hc s 0 hscan hs.1 (hs.2.imp (fun h => h.1)))
      · injection h with h; subst h; exact hs
      · rename_i i grown hscan
        obtain ⟨r, _, _, hgne, _⟩ := scan_stretch hscan hc hs.1
        exact ihA _ _ _ h hgne (invS_eraseIdx hs i)
      · rename_i i r hscan
        obtain ⟨_, hri⟩ := scan_split hscan
        simp only [Nat.sub_zero] at hri
        have hrne : r.Nonempty := hs.1 r (List.mem_of_getElem? hri)
        obtain ⟨_, hpne, _, _⟩ := Props.C06.add_spec r cur hrne hc
        exact ihM _ _ _ h hpne (invS_eraseIdx hs i)
    · intro s ps s' h hps hs
      cases ps with
      | nil => simp [addMany] at h; subst h; exact hs
      | cons p ps =>
        unfold addMany at h
        split at h
        · cases h
        · rename_i s1 hadd
          exact ihM _ _ _ h (fun x hx => hps x (by simp [hx]))
            (ihA _ _ _ hadd (hps p (by simp)) hs)

theorem add_invS {fuel : Nat} {s : List Rect} {cur : Rect} {s' : List Rect}
    (h : add fuel s cur = some s') (hc : cur.Nonempty) (hs : InvS s) : InvS s' :=
  (add_addMany_invS fuel).1 s cur s' h hc hs

theorem addMany_invS {fuel : Nat} {s ps s' : List Rect}
    (h : addMany fuel s ps = some s') (hps : ∀ p ∈ ps, p.Nonempty) (hs : InvS s) : InvS s' :=
  (add_addMany_invS fuel).2 s ps s' h hps hs

/-! ### any two distinct members are `Apart`; members are totally ordered by `TL` -/

theorem invS_apart {s : List Rect} (h : InvS s) {a b : Rect} (ha : a ∈ s) (hb : b ∈ s) (hab : a ≠ b) :
    Apart a b := by
  have hq : s.Pairwise (fun a b => a = b ∨ Apart a b) := h.2.imp (fun h => Or.inr h.2)
  have := hq.forall_of_forall_of_flip (l := s) (fun x _ => Or.inl rfl)
    (hq.imp (fun {x y} h => by
      rcases h with h | h
      · exact Or.inl h.symm
      · exact Or.inr (apart_symm h)))
  rcases this ha hb with h | h
  · exact absurd h hab
  · exact h

theorem mem_intersects {m q : Rect} {l c : Int} (h1 : m.Mem l c) (h2 : q.Mem l c) :
    m.intersects q = true := by
  unfold Rect.intersects
  simp only [Bool.and_eq_true, decide_eq_true_eq]
  rs_omega

/-- The first intersecting member: every intersecting member is it or sorts after it. -/
theorem firstIntersecting_some {s : List Rect} {q r : Rect} (h : firstIntersecting s q = some r)
    (hs : s.Pairwise TL) :
    r ∈ s ∧ r.intersects q = true ∧ ∀ m ∈ s, m.intersects q = true → m = r ∨ TL r m := by
  unfold firstIntersecting at h
  obtain ⟨h1, as, bs, rfl, h2⟩ := List.find?_eq_some_iff_append.1 h
  refine ⟨by simp, h1, ?_⟩
  intro m hm hi
  rcases List.mem_append.1 hm with hm | hm
  · have := h2 m hm
    simp [hi] at this
  · rcases List.mem_cons.1 hm with rfl | hm
    · exact Or.inl rfl
    · rw [List.pairwise_append] at hs
      exact Or.inr ((List.pairwise_cons.1 hs.2.1).1 m hm)

/-- The shortcut of `tickit_rectset_contains` is exact: if the first member `r` intersecting the query does
    not span the query's top row from the query's left edge to its right edge, some cell of that row is
    uncovered. -/
theorem row_gap {s : List Rect} {q r : Rect} (hs : InvS s) (hq : q.Nonempty)
    (hf : firstIntersecting s q = some r)
    (hn : ¬ (r.top ≤ q.top ∧ r.left ≤ q.left ∧ q.right ≤ r.right)) :
    ∃ c, q.left ≤ c ∧ c < q.right ∧ ¬ Covered s q.top c := by
  obtain ⟨hr, hri, hfirst⟩ := firstIntersecting_some hf (hs.2.imp (fun h => h.1))
  have hrne := hs.1 r hr
  unfold Rect.intersects at hri
  simp only [Bool.and_eq_true, decide_eq_true_eq] at hri
  have hqt : q.Mem q.top q.left → True := fun _ => trivial
  by_cases h1 : q.top < r.top
  · -- every member that touches the query starts below the query's top row
    refine ⟨q.left, by omega, by rs_omega, ?_⟩
    rintro ⟨m, hm, hmem⟩
    have hmi : m.intersects q = true := mem_intersects hmem (by rs_omega)
    rcases hfirst m hm hmi with rfl | hlt
    · rs_omega
    · rs_omega
  · by_cases h2 : q.left < r.left
    · by_cases h3 : Covered s q.top q.left
      · obtain ⟨m, hm, hmem⟩ := h3
        have hmr : m ≠ r := by rintro rfl; rs_omega
        have hap := invS_apart hs hm hr hmr
        have hmne := hs.1 m hm
        have hlt : m.right < r.left := by rs_omega
        refine ⟨m.right, by rs_omega, by rs_omega, ?_⟩
        rintro ⟨m2, hm2, hmem2⟩
        have hm2m : m2 ≠ m := by rintro rfl; rs_omega
        have hap2 := invS_apart hs hm2 hm hm2m
        rs_omega
      · exact ⟨q.left, by omega, by rs_omega, h3⟩
    · -- the query sticks out to the right of `r`
      refine ⟨r.right, by rs_omega, by rs_omega, ?_⟩
      rintro ⟨m, hm, hmem⟩
      have hmr : m ≠ r := by rintro rfl; rs_omega
      have hap := invS_apart hs hm hr hmr
      rs_omega

/-- `contains` answering "no" is right: some cell of the query is not covered. -/
theorem contains_complete (fuel : Nat) : ∀ (s : List Rect) (q : Rect),
    contains fuel s q = some false → InvS s → q.Nonempty → ∃ l c, q.Mem l c ∧ ¬ Covered s l c := by
  induction fuel with
  | zero => intro s q h; simp [contains] at h
  | succ n ih =>
    intro s q h hs hq
    unfold contains at h
    split at h
    · rename_i hfi
      unfold firstIntersecting at hfi
      rw [List.find?_eq_none] at hfi
      refine ⟨q.top, q.left, by rs_omega, ?_⟩
      rintro ⟨m, hm, hmem⟩
      exact hfi m hm (mem_intersects hmem (by rs_omega))
    · rename_i r hfi
      obtain ⟨hr, hri, _⟩ := firstIntersecting_some hfi (hs.2.imp (fun h => h.1))
      have hrne := hs.1 r hr
      have hri' := hri
      unfold Rect.intersects at hri'
      simp only [Bool.and_eq_true, decide_eq_true_eq] at hri'
      split at h
      · rename_i hab
        obtain ⟨c, h1, h2, h3⟩ := row_gap hs hq hfi (by omega)
        exact ⟨q.top, c, by rs_omega, h3⟩
      · rename_i hab
        split at h
        · rename_i hsplit
          simp only at h
          split at h
          · cases h
          · rename_i hlow
            have hlne : (Rect.initBounded r.bottom q.left q.bottom q.right).Nonempty := by rs_omega
            obtain ⟨l, c, h1, h2⟩ := ih s _ hlow hs hlne
            exact ⟨l, c, by rs_omega, h2⟩
          · rename_i hlow
            injection h with h
            have hnc : ¬ (r.top ≤ q.top ∧ r.left ≤ q.left ∧ q.right ≤ r.right) := by
              intro hh
              have : r.contains { q with lines := r.bottom - q.top } = true := by
                unfold Rect.contains
                simp only [Bool.and_eq_true, decide_eq_true_eq]
                rs_omega
              rw [this] at h; cases h
            obtain ⟨c, h1, h2, h3⟩ := row_gap hs hq hfi hnc
            exact ⟨q.top, c, by rs_omega, h3⟩
        · rename_i hsplit
          injection h with h
          have hnc : ¬ (r.top ≤ q.top ∧ r.left ≤ q.left ∧ q.right ≤ r.right) := by
            intro hh
            have : r.contains q = true := by
              unfold Rect.contains
              simp only [Bool.and_eq_true, decide_eq_true_eq]
              rs_omega
            rw [this] at h; cases h
          obtain ⟨c, h1, h2, h3⟩ := row_gap hs hq hfi hnc
          exact ⟨q.top, c, by rs_omega, h3⟩

/-! ### members and positions -/

theorem invS_nodup {s : List Rect} (h : InvS s) : s.Nodup := by
  unfold List.Nodup
  refine h.2.imp ?_
  intro a b hab e
  subst e
  rs_omega

theorem mem_or_mem_eraseIdx {s : List Rect} {i : Nat} {r x : Rect} (hi : s[i]? = some r) (hx : x ∈ s) :
    x = r ∨ x ∈ s.eraseIdx i := by
  obtain ⟨j, hj⟩ := List.mem_iff_getElem?.1 hx
  by_cases hji : j = i
  · subst hji; rw [hi] at hj; injection hj with hj; exact Or.inl hj.symm
  · exact Or.inr (List.mem_eraseIdx_iff_getElem?.2 ⟨j, hji, hj⟩)

theorem ne_of_mem_eraseIdx {s : List Rect} (h : InvS s) {i : Nat} {r x : Rect} (hi : s[i]? = some r)
    (hx : x ∈ s.eraseIdx i) : x ∈ s ∧ x ≠ r := by
  refine ⟨mem_of_mem_eraseIdx hx, ?_⟩
  obtain ⟨j, hji, hj⟩ := List.mem_eraseIdx_iff_getElem?.1 hx
  rintro rfl
  have hlt : j < s.length := by
    rcases Nat.lt_or_ge j s.length with h1 | h1
    · exact h1
    · rw [List.getElem?_eq_none h1] at hj; cases hj
  exact hji ((List.getElem?_inj hlt (invS_nodup h)).1 (hj.trans hi.symm))

/-! ### adding a rectangle that touches no member sideways: only vertical merges happen -/

/-- Under "no common cell, no common vertical edge" the scan can only decide to insert or to stretch with a
    member stacked directly above or below. -/
theorem scan_vonly {p : Rect} (hp : p.Nonempty) : ∀ (t : List Rect) (i0 : Nat),
    (∀ m ∈ t, m.Nonempty ∧ Sep p m ∧ ¬ VEdge p m) →
    scan p t i0 = .insert ∨ ∃ i r0, i0 ≤ i ∧ t[i - i0]? = some r0 ∧ Stacked r0 p ∧
      scan p t i0 = .stretch i (Rect.initBounded (min r0.top p.top) (min r0.left p.left)
                                  (max r0.bottom p.bottom) (max r0.right p.right)) := by
  intro t
  induction t with
  | nil => intro i0 _; left; simp [scan]
  | cons x rest ih =>
    intro i0 h
    obtain ⟨hx, hsep, hve⟩ := h x (by simp)
    have hrest : ∀ m ∈ rest, m.Nonempty ∧ Sep p m ∧ ¬ VEdge p m := fun m hm => h m (by simp [hm])
    have shift : (∃ i r0, i0 + 1 ≤ i ∧ rest[i - (i0 + 1)]? = some r0 ∧ Stacked r0 p ∧
          scan p rest (i0 + 1) = .stretch i (Rect.initBounded (min r0.top p.top) (min r0.left p.left)
                                  (max r0.bottom p.bottom) (max r0.right p.right))) →
        ∃ i r0, i0 ≤ i ∧ (x :: rest)[i - i0]? = some r0 ∧ Stacked r0 p ∧
          scan p rest (i0 + 1) = .stretch i (Rect.initBounded (min r0.top p.top) (min r0.left p.left)
                                  (max r0.bottom p.bottom) (max r0.right p.right)) := by
      rintro ⟨i, r0, h1, h2, h3, h4⟩
      refine ⟨i, r0, by omega, ?_, h3, h4⟩
      have : i - i0 = (i - (i0 + 1)) + 1 := by omega
      rw [this]; simpa using h2
    unfold scan
    split
    · left; rfl
    · split
      · rcases ih (i0 + 1) hrest with h1 | h1
        · exact Or.inl h1
        · exact Or.inr (shift h1)
      · split
        · rename_i hb hfar hcont
          exfalso
          unfold Rect.contains at hcont
          simp only [Bool.and_eq_true, decide_eq_true_eq] at hcont
          rs_omega
        · split
          · rename_i hb hfar hcont hst
            right
            refine ⟨i0, x, Nat.le_refl _, by simp, ?_, rfl⟩
            rs_omega
          · split
            · rcases ih (i0 + 1) hrest with h1 | h1
              · exact Or.inl h1
              · exact Or.inr (shift h1)
            · rename_i hb hfar hcont hst hadj
              exfalso
              rs_omega

/-- Adding a rectangle that has no common cell and no common vertical edge with any member: the result is
    the old array without the members stacked directly on the rectangle, plus one new member `G` with the
    rectangle's columns that consists of the rectangle and those stacked members. -/
theorem vadd (fuel : Nat) : ∀ (t : List Rect) (p : Rect) (t' : List Rect),
    add fuel t p = some t' → InvS t → p.Nonempty → (∀ m ∈ t, Sep p m ∧ ¬ VEdge p m) →
    ∃ G ∈ t', G.left = p.left ∧ G.right = p.right ∧
      (∀ x ∈ t', x = G ∨ x ∈ t) ∧
      (∀ x ∈ t, x ∈ t' ∨ Stacked x p) ∧
      (∀ l c, G.Mem l c → p.Mem l c ∨ ∃ x ∈ t, Stacked x p ∧ x.Mem l c) ∧
      (∀ x ∈ t, SA x p → G.top = x.top) ∧
      ((∀ x ∈ t, ¬ SA x p) → G.top = p.top) := by
  induction fuel with
  | zero => intro t p t' h; simp [add] at h
  | succ n ih =>
    intro t p t' h hs hp hpre
    have hpre' : ∀ m ∈ t, m.Nonempty ∧ Sep p m ∧ ¬ VEdge p m :=
      fun m hm => ⟨hs.1 m hm, hpre m hm⟩
    unfold add at h
    rcases scan_vonly hp t 0 hpre' with hscan | ⟨i, r0, _, hri, hst, hscan⟩
    · rw [hscan] at h
      simp only at h
      injection h with h; subst h
      have hap := scan_insert hp t 0 hscan hs.1 (hs.2.imp (fun h => h.1))
      refine ⟨p, (mem_insertRect t p p).2 (Or.inl rfl), rfl, rfl, ?_, ?_, ?_, ?_, ?_⟩
      · intro x hx; exact (mem_insertRect t p x).1 hx
      · intro x hx; exact Or.inl ((mem_insertRect t p x).2 (Or.inr hx))
      · intro l c hm; exact Or.inl hm
      · intro x hx hsa
        have := hap x hx
        rs_omega
      · intro _; rfl
    · rw [hscan] at h
      simp only [Nat.sub_zero] at h hri
      have hr0 : r0 ∈ t := List.mem_of_getElem? hri
      have hr0ne := hs.1 r0 hr0
      generalize hg : Rect.initBounded (min r0.top p.top) (min r0.left p.left)
        (max r0.bottom p.bottom) (max r0.right p.right) = g at h
      have hgne : g.Nonempty := by subst hg; rs_omega
      have hs0 := invS_eraseIdx hs i
      have hmem0 : ∀ m ∈ t.eraseIdx i, m ∈ t ∧ Apart m r0 := by
        intro m hm
        obtain ⟨h1, h2⟩ := ne_of_mem_eraseIdx hs hri hm
        exact ⟨h1, invS_apart hs h1 hr0 h2⟩
      have hpre0 : ∀ m ∈ t.eraseIdx i, Sep g m ∧ ¬ VEdge g m := by
        intro m hm
        obtain ⟨h1, h2⟩ := hmem0 m hm
        obtain ⟨h3, h4⟩ := hpre m h1
        have h5 := hs.1 m h1
        subst hg
        constructor
        · rs_omega
        · rs_omega
      obtain ⟨G, hG, hGl, hGr, c1, c2, c3, c4, c5⟩ := ih _ _ _ h hs0 hgne hpre0
      have hstk : ∀ x ∈ t.eraseIdx i, Stacked x g → Stacked x p := by
        intro x hx hxg
        obtain ⟨h1, h2⟩ := hmem0 x hx
        subst hg
        rs_omega
      refine ⟨G, hG, ?_, ?_, ?_, ?_, ?_, ?_, ?_⟩
      · subst hg; rs_omega
      · subst hg; rs_omega
      · intro x hx
        rcases c1 x hx with h1 | h1
        · exact Or.inl h1
        · exact Or.inr (mem_of_mem_eraseIdx h1)
      · intro x hx
        rcases mem_or_mem_eraseIdx hri hx with rfl | hx0
        · exact Or.inr hst
        · rcases c2 x hx0 with h1 | h1
          · exact Or.inl h1
          · exact Or.inr (hstk x hx0 h1)
      · intro l c hm
        rcases c3 l c hm with h1 | ⟨x, hx, h1, h2⟩
        · have : p.Mem l c ∨ r0.Mem l c := by subst hg; rs_omega
          rcases this with h2 | h2
          · exact Or.inl h2
          · exact Or.inr ⟨r0, hr0, hst, h2⟩
        · exact Or.inr ⟨x, mem_of_mem_eraseIdx hx, hstk x hx h1, h2⟩
      · intro x hx hsa
        rcases mem_or_mem_eraseIdx hri hx with rfl | hx0
        · -- the stretched member is the one above: nothing else can be stacked on top of it
          have : G.top = g.top := by
            apply c5
            intro y hy hya
            obtain ⟨h1, h2⟩ := hmem0 y hy
            subst hg
            rs_omega
          rw [this]; subst hg; rs_omega
        · obtain ⟨h1, h2⟩ := hmem0 x hx0
          have hx0ne := hs.1 x hx
          apply c4 x hx0
          subst hg
          rs_omega
      · intro hno
        have hnsa : ¬ SA r0 p := hno r0 hr0
        have : G.top = g.top := by
          apply c5
          intro y hy hya
          obtain ⟨h1, h2⟩ := hmem0 y hy
          have := hno y h1
          subst hg
          rs_omega
        rw [this]; subst hg; rs_omega

/-! ### `subtract`: the remains of a member are re-added without disturbing the members before it -/

/-- `p` lies within the bounds of `r`. -/
def Within (p r : Rect) : Prop :=
  r.top ≤ p.top ∧ p.bottom ≤ r.bottom ∧ r.left ≤ p.left ∧ p.right ≤ r.right

/-- The three column ranges a remain of `r` minus `hole` can have: all of `r`, left of the hole, right of it. -/
def ColClass (r hole p : Rect) : Prop :=
  (p.left = r.left ∧ p.right = r.right) ∨ (p.left = r.left ∧ p.right = hole.left) ∨
  (p.left = hole.right ∧ p.right = r.right)

theorem intersects_iff_not_sep (a b : Rect) : a.intersects b = true ↔ ¬ Sep a b := by
  unfold Rect.intersects Sep
  simp only [Bool.and_eq_true, decide_eq_true_eq]
  omega

/-- What `tickit_rect_subtract` returns, as far as `tickit_rectset_subtract` cares. -/
theorem subtract_pieces (r hole : Rect) :
    ∀ p ∈ Rect.subtract r hole, Within p r ∧ ColClass r hole p ∧ Sep p hole := by
  intro p hp
  unfold Rect.subtract at hp
  split at hp
  · simp at hp
  · split at hp
    · rename_i hc hi
      simp only [List.mem_singleton] at hp; subst hp
      have := (intersects_iff_not_sep hole p)
      simp only [Bool.not_eq_true', ] at hi
      rw [hi] at this
      simp only [Bool.false_eq_true, false_iff, Classical.not_not] at this
      unfold Within ColClass
      rs_omega
    · rename_i hc hi
      simp only [Bool.not_eq_true, Bool.not_eq_false'] at hi
      have hi' := (intersects_iff_not_sep hole r).1 hi
      simp only [List.mem_append] at hp
      unfold Within ColClass
      rcases hp with ((hp | hp) | hp) | hp <;>
        (split at hp
         · simp only [List.mem_singleton] at hp; subst hp
           rs_omega
         · simp at hp)

/-- The state of the array while the remains of member `r` of `s` (minus `hole`) are being re-added. -/
structure Phi (s : List Rect) (r hole : Rect) (t : List Rect) : Prop where
  inv  : InvS t
  mem  : ∀ x ∈ t, (x ∈ s ∧ x ≠ r) ∨ (ColClass r hole x ∧ Sep x hole)
  keys : ∀ x ∈ s, TL x r → ∃ y ∈ t, y.top = x.top ∧ y.left = x.left

theorem phi_step {s : List Rect} {r hole : Rect} (hs : InvS s) (hr : r ∈ s) (hh : hole.Nonempty)
    {fuel : Nat} {t t' : List Rect} {p : Rect} (hphi : Phi s r hole t) (hadd : add fuel t p = some t')
    (hp : p.Nonempty) (hw : Within p r) (hcc : ColClass r hole p) (hclean : Sep p hole)
    (hdisj : ∀ l c, p.Mem l c → ¬ Covered t l c) : Phi s r hole t' := by
  obtain ⟨hinv, hmem, hkeys⟩ := hphi
  have hrne := hs.1 r hr
  have hpre : ∀ m ∈ t, Sep p m ∧ ¬ VEdge p m := by
    intro m hm
    have hmne := hinv.1 m hm
    constructor
    · apply (sep_iff_disjoint hp hmne).2
      intro l c ⟨h1, h2⟩
      exact hdisj l c h1 ⟨m, hm, h2⟩
    · rcases hmem m hm with ⟨h1, h2⟩ | ⟨h1, h2⟩
      · have := invS_apart hs h1 hr h2
        unfold Within at hw
        rs_omega
      · unfold ColClass at *
        rs_omega
  obtain ⟨G, hG, hGl, hGr, c1, c2, c3, c4, _⟩ := vadd fuel t p t' hadd hinv hp hpre
  have hinv' := add_invS hadd hp hinv
  refine ⟨hinv', ?_, ?_⟩
  · intro x hx
    rcases c1 x hx with rfl | hx
    · right
      refine ⟨by unfold ColClass at *; rs_omega, ?_⟩
      apply (sep_iff_disjoint (hinv'.1 x hG) hh).2
      intro l c ⟨h1, h2⟩
      rcases c3 l c h1 with h3 | ⟨y, hy, h3, h4⟩
      · rs_omega
      · rcases hmem y hy with ⟨h5, h6⟩ | ⟨h5, h6⟩
        · have := invS_apart hs h5 hr h6
          have hyne := hs.1 y h5
          unfold Within ColClass at *
          rs_omega
        · rs_omega
    · exact hmem x hx
  · intro x hx hlt
    obtain ⟨y, hy, h1, h2⟩ := hkeys x hx hlt
    rcases c2 y hy with h3 | h3
    · exact ⟨y, h3, h1, h2⟩
    · have hsa : SA y p := by
        unfold Within at hw
        rs_omega
      exact ⟨G, hG, by rw [c4 y hy hsa]; exact h1, by rs_omega⟩

theorem phi_pieces {s : List Rect} {r hole : Rect} (hs : InvS s) (hr : r ∈ s) (hh : hole.Nonempty) :
    ∀ (ps : List Rect) (fuel : Nat) (t t2 : List Rect), addMany fuel t ps = some t2 → Phi s r hole t →
      (∀ p ∈ ps, p.Nonempty ∧ Within p r ∧ ColClass r hole p ∧ Sep p hole) → ps.Pairwise Rect.Disjoint →
      (∀ p ∈ ps, ∀ l c, p.Mem l c → ¬ Covered t l c) → Phi s r hole t2 := by
  intro ps
  induction ps with
  | nil =>
    intro fuel t t2 h hphi _ _ _
    simp [addMany] at h; subst h; exact hphi
  | cons p ps ih =>
    intro fuel t t2 h hphi hps hpd hdisj
    cases fuel with
    | zero => simp [addMany] at h
    | succ n =>
      unfold addMany at h
      split at h
      · cases h
      · rename_i t1 hadd
        obtain ⟨hp, hw, hcc, hcl⟩ := hps p (by simp)
        rw [List.pairwise_cons] at hpd
        have hphi1 := phi_step hs hr hh hphi hadd hp hw hcc hcl (hdisj p (by simp))
        refine ih n t1 t2 h hphi1 (fun q hq => hps q (by simp [hq])) hpd.2 ?_
        intro q hq l c hm hcov
        rcases ((add_region hadd hp hphi.inv.1).2 l c).1 hcov with h1 | h1
        · exact hdisj q (by simp [hq]) l c hm h1
        · exact hpd.1 q hq l c ⟨h1, hm⟩

theorem pairwise_getElem? {R : Rect → Rect → Prop} {l : List Rect} (h : l.Pairwise R) {i j : Nat}
    {a b : Rect} (hi : l[i]? = some a) (hj : l[j]? = some b) (hij : i < j) : R a b := by
  obtain ⟨h1, rfl⟩ := List.getElem?_eq_some_iff.1 hi
  obtain ⟨h2, rfl⟩ := List.getElem?_eq_some_iff.1 hj
  exact List.pairwise_iff_getElem.1 h i j h1 h2 hij

theorem mem_take_of_getElem? {l : List Rect} {k n : Nat} {a : Rect} (h : l[k]? = some a) (hk : k < n) :
    a ∈ l.take n := by
  apply List.mem_of_getElem? (i := k)
  rw [List.getElem?_take_of_lt hk]; exact h

theorem getElem?_of_mem_take {l : List Rect} {n : Nat} {a : Rect} (h : a ∈ l.take n) :
    ∃ k, k < n ∧ l[k]? = some a := by
  obtain ⟨k, hk⟩ := List.mem_iff_getElem?.1 h
  rw [List.getElem?_take] at hk
  split at hk
  · rename_i hlt; exact ⟨k, hlt, hk⟩
  · cases hk

/-- Loop invariant of `tickit_rectset_subtract`: the members before index `i` do not meet the hole. -/
def CleanBefore (hole : Rect) (s : List Rect) (i : Nat) : Prop :=
  ∀ j m, j < i → s[j]? = some m → Sep m hole

/-- One round of the loop of `tickit_rectset_subtract`, the state afterwards. -/
theorem subtract_step_phi {s : List Rect} {r hole : Rect} {i fuel : Nat} {t2 : List Rect}
    (hs : InvS s) (hh : hole.Nonempty) (hi : s[i]? = some r)
    (hadd : addMany fuel (s.eraseIdx i) (Rect.subtract r hole) = some t2) : Phi s r hole t2 := by
  have hr : r ∈ s := List.mem_of_getElem? hi
  have hrne := hs.1 r hr
  obtain ⟨_, hpne, hpd, hpc⟩ := Props.C06.subtract_spec r hole hrne hh
  have hpieces : ∀ p ∈ Rect.subtract r hole, p.Nonempty ∧ Within p r ∧ ColClass r hole p ∧ Sep p hole :=
    fun p hp => ⟨hpne p hp, subtract_pieces r hole p hp⟩
  have hphi0 : Phi s r hole (s.eraseIdx i) := by
    refine ⟨invS_eraseIdx hs i, ?_, ?_⟩
    · intro x hx; exact Or.inl (ne_of_mem_eraseIdx hs hi hx)
    · intro x hx hlt
      rcases mem_or_mem_eraseIdx hi hx with rfl | h1
      · rs_omega
      · exact ⟨x, h1, rfl, rfl⟩
  have hdisj0 : ∀ p ∈ Rect.subtract r hole, ∀ l c, p.Mem l c → ¬ Covered (s.eraseIdx i) l c := by
    intro p hp l c hm ⟨x, hx, hxm⟩
    obtain ⟨h1, h2⟩ := ne_of_mem_eraseIdx hs hi hx
    have hap := invS_apart hs h1 hr h2
    have hw := (subtract_pieces r hole p hp).1
    unfold Within at hw
    rs_omega
  exact phi_pieces hs hr hh _ fuel _ t2 hadd hphi0 hpieces hpd hdisj0

/-- After one round, every member is an old member other than the split one, or does not meet the hole. -/
theorem subtract_step_mem {s : List Rect} {r hole : Rect} {i fuel : Nat} {t2 : List Rect}
    (hs : InvS s) (hh : hole.Nonempty) (hi : s[i]? = some r) (_hcb : CleanBefore hole s i)
    (hadd : addMany fuel (s.eraseIdx i) (Rect.subtract r hole) = some t2) :
    ∀ x ∈ t2, (x ∈ s ∧ x ≠ r) ∨ Sep x hole := by
  intro x hx
  rcases (subtract_step_phi hs hh hi hadd).mem x hx with h | h
  · exact Or.inl h
  · exact Or.inr h.2

/-- One round of the loop of `tickit_rectset_subtract` on a member that meets the hole: after deleting it
    and re-adding its remains, the members before the index still do not meet the hole. -/
theorem subtract_step {s : List Rect} {r hole : Rect} {i fuel : Nat} {t2 : List Rect}
    (hs : InvS s) (hh : hole.Nonempty) (hi : s[i]? = some r) (hcb : CleanBefore hole s i)
    (hadd : addMany fuel (s.eraseIdx i) (Rect.subtract r hole) = some t2) :
    InvS t2 ∧ CleanBefore hole t2 i := by
  have hr : r ∈ s := List.mem_of_getElem? hi
  have hrne := hs.1 r hr
  have hTL : s.Pairwise TL := hs.2.imp (fun h => h.1)
  have hprefix : ∀ x ∈ s, TL x r → Sep x hole := by
    intro x hx hlt
    obtain ⟨j, hj⟩ := List.mem_iff_getElem?.1 hx
    rcases Nat.lt_trichotomy j i with h1 | h1 | h1
    · exact hcb j x h1 hj
    · subst h1; rw [hi] at hj; injection hj with hj; subst hj; rs_omega
    · have := pairwise_getElem? hTL hi hj h1
      rs_omega
  obtain ⟨_, hpne, hpd, hpc⟩ := Props.C06.subtract_spec r hole hrne hh
  have hpieces : ∀ p ∈ Rect.subtract r hole, p.Nonempty ∧ Within p r ∧ ColClass r hole p ∧ Sep p hole :=
    fun p hp => ⟨hpne p hp, subtract_pieces r hole p hp⟩
  have hphi0 : Phi s r hole (s.eraseIdx i) := by
    refine ⟨invS_eraseIdx hs i, ?_, ?_⟩
    · intro x hx; exact Or.inl (ne_of_mem_eraseIdx hs hi hx)
    · intro x hx hlt
      rcases mem_or_mem_eraseIdx hi hx with rfl | h1
      · rs_omega
      · exact ⟨x, h1, rfl, rfl⟩
  have hdisj0 : ∀ p ∈ Rect.subtract r hole, ∀ l c, p.Mem l c → ¬ Covered (s.eraseIdx i) l c := by
    intro p hp l c hm ⟨x, hx, hxm⟩
    obtain ⟨h1, h2⟩ := ne_of_mem_eraseIdx hs hi hx
    have hap := invS_apart hs h1 hr h2
    have hw := (subtract_pieces r hole p hp).1
    unfold Within at hw
    rs_omega
  have hphi := phi_pieces hs hr hh _ fuel _ t2 hadd hphi0 hpieces hpd hdisj0
  refine ⟨hphi.inv, ?_⟩
  intro j m hj hm
  have hmem : m ∈ t2 := List.mem_of_getElem? hm
  have hTL2 : t2.Pairwise TL := hphi.inv.2.imp (fun h => h.1)
  rcases hphi.mem m hmem with ⟨h1, h2⟩ | ⟨_, h2⟩
  · -- an old member: if it met the hole it would sort after `r`, but then the `i` members that sort
    -- before `r` would all sit before position `j < i`
    by_cases hlt : TL m r
    · exact hprefix m h1 hlt
    · exfalso
      let key : Rect → Int × Int := fun x => (x.top, x.left)
      have hsub : (s.take i).map key ⊆ (t2.take j).map key := by
        intro k hk
        obtain ⟨x, hx, rfl⟩ := List.mem_map.1 hk
        obtain ⟨kx, hkx, hsx⟩ := getElem?_of_mem_take hx
        have hxr : TL x r := pairwise_getElem? hTL hsx hi hkx
        obtain ⟨y, hy, hy1, hy2⟩ := hphi.keys x (List.mem_of_getElem? hsx) hxr
        obtain ⟨ky, hky⟩ := List.mem_iff_getElem?.1 hy
        have hkyj : ky < j := by
          rcases Nat.lt_trichotomy ky j with h3 | h3 | h3
          · exact h3
          · subst h3; rw [hm] at hky; injection hky with hky; subst hky
            exfalso; apply hlt; rs_omega
          · have := pairwise_getElem? hTL2 hm hky h3
            exfalso; apply hlt; rs_omega
        refine List.mem_map.2 ⟨y, mem_take_of_getElem? hky hkyj, ?_⟩
        simp only [key, hy1, hy2]
      have hnd : ((s.take i).map key).Nodup := by
        unfold List.Nodup
        rw [List.pairwise_map]
        refine (hTL.sublist (List.take_sublist i s)).imp ?_
        intro a b hab e
        simp only [key, Prod.mk.injEq] at e
        rs_omega
      have hlen := hnd.length_le_of_subset hsub
      have hil : i < s.length := (List.getElem?_eq_some_iff.1 hi).1
      simp only [List.length_map, List.length_take] at hlen
      omega
  · exact h2

/-- The index loop of `tickit_rectset_subtract`: the invariant survives and, when the loop ends, no
    member meets the hole. -/
theorem subtractFrom_clean (fuel : Nat) : ∀ (s : List Rect) (hole : Rect) (i : Nat) (s' : List Rect),
    subtractFrom fuel s hole i = some s' → InvS s → hole.Nonempty → CleanBefore hole s i →
    InvS s' ∧ ∀ m ∈ s', Sep m hole := by
  induction fuel with
  | zero => intro s hole i s' h; simp [subtractFrom] at h
  | succ n ih =>
    intro s hole i s' h hs hh hcb
    unfold subtractFrom at h
    split at h
    · rename_i hnone
      injection h with h; subst h
      refine ⟨hs, ?_⟩
      intro m hm
      obtain ⟨j, hj⟩ := List.mem_iff_getElem?.1 hm
      have hjl : j < s.length := (List.getElem?_eq_some_iff.1 hj).1
      have : s.length ≤ i := by
        rcases Nat.lt_or_ge i s.length with h1 | h1
        · rw [List.getElem?_eq_getElem h1] at hnone; cases hnone
        · exact h1
      exact hcb j m (by omega) hj
    · rename_i r hri
      split at h
      · rename_i hclean
        refine ih _ _ _ _ h hs hh ?_
        intro j m hj hm
        rcases Nat.lt_or_ge j i with h1 | h1
        · exact hcb j m h1 hm
        · have : j = i := by omega
          subst this
          rw [hri] at hm; injection hm with hm; subst hm
          have := intersects_iff_not_sep r hole
          simp only [Bool.not_eq_true', ] at hclean
          rw [hclean] at this
          simpa using this
      · split at h
        · cases h
        · rename_i s1 hadd
          obtain ⟨h1, h2⟩ := subtract_step hs hh hri hcb hadd
          exact ih _ _ _ _ h h1 hh h2

end RectSet
end Tickit
