import Tickit.Proof.RectSet
/-
  The invariant of the stored array of a TickitRectSet and its preservation (C05).

  `Inv s`  : members non-empty, pairwise disjoint, strictly sorted by (top, left), no two members share a
             vertical edge segment of positive length (`NoVEdge`), no two members with equal columns are
             vertically adjacent (`NoStack`).  Together: the array is the canonical band decomposition of
             the region it covers.
  `InvS s` : the same, as one `Pairwise` over a linear-arithmetic relation (what the proofs use).
-/
namespace Tickit
namespace RectSet
open Rect

/-! ### vocabulary -/

/-- `a` sorts strictly before `b`: by top, then left. -/
def TL (a b : Rect) : Prop := a.top < b.top ∨ (a.top = b.top ∧ a.left < b.left)

/-- Arithmetic form of "share no cell" (for non-empty rectangles). -/
def Sep (a b : Rect) : Prop :=
  a.bottom ≤ b.top ∨ b.bottom ≤ a.top ∨ a.right ≤ b.left ∨ b.right ≤ a.left

/-- The two rectangles share a vertical edge segment of positive length. -/
def VEdge (a b : Rect) : Prop :=
  (a.right = b.left ∨ b.right = a.left) ∧ a.top < b.bottom ∧ b.top < a.bottom

/-- Same columns and vertically adjacent (one directly on top of the other). -/
def Stacked (a b : Rect) : Prop :=
  a.left = b.left ∧ a.right = b.right ∧ (a.bottom = b.top ∨ b.bottom = a.top)

/-- Two members of a canonical array: no common cell, no common vertical edge, not stackable. -/
def Apart (a b : Rect) : Prop := Sep a b ∧ ¬ VEdge a b ∧ ¬ Stacked a b

/-- Relation between an earlier and a later member of the array. -/
def Ord (a b : Rect) : Prop := TL a b ∧ Apart a b

/-- The invariant in the form the proofs use. -/
def InvS (s : List Rect) : Prop := (∀ x ∈ s, x.Nonempty) ∧ s.Pairwise Ord

instance (a b : Rect) : Decidable (Ord a b) := by
  unfold Ord Apart TL Sep VEdge Stacked; exact inferInstance

instance (s : List Rect) : Decidable (InvS s) := by
  unfold InvS; exact inferInstance

/-- Unfold the whole vocabulary and finish by linear arithmetic. -/
macro "rs_omega" : tactic =>
  `(tactic| ((try simp only [Ord, Apart, TL, Sep, VEdge, Stacked, Rect.Mem, Rect.bottom, Rect.right,
      Rect.initBounded, Rect.Nonempty, Rect.translate, cmprect] at *) <;> omega))

/-! ### the invariant as the property states it -/

def SortedTL (s : List Rect) : Prop := s.Pairwise TL

def NoVEdge (s : List Rect) : Prop :=
  ∀ a ∈ s, ∀ b ∈ s, a ≠ b →
    ¬ ((a.right = b.left ∨ b.right = a.left) ∧ a.top < b.bottom ∧ b.top < a.bottom)

def NoStack (s : List Rect) : Prop :=
  ∀ a ∈ s, ∀ b ∈ s, ¬ (a.left = b.left ∧ a.right = b.right ∧ a.bottom = b.top)

def Inv (s : List Rect) : Prop :=
  (∀ x ∈ s, x.Nonempty) ∧ s.Pairwise Rect.Disjoint ∧ SortedTL s ∧ NoVEdge s ∧ NoStack s

theorem sep_iff_disjoint {a b : Rect} (ha : a.Nonempty) (hb : b.Nonempty) :
    Sep a b ↔ Rect.Disjoint a b := by
  unfold Rect.Disjoint
  constructor
  · intro h l c
    rs_omega
  · intro h
    have h1 := h (max a.top b.top) (max a.left b.left)
    rs_omega

theorem apart_symm {a b : Rect} (h : Apart a b) : Apart b a := by rs_omega

theorem inv_iff (s : List Rect) : Inv s ↔ InvS s := by
  unfold Inv InvS SortedTL
  constructor
  · rintro ⟨hne, hd, hs, hv, hk⟩
    refine ⟨hne, ?_⟩
    have hp := (hd.and hs)
    refine hp.imp_of_mem ?_
    intro a b ha hb ⟨h1, h2⟩
    have hab : a ≠ b := by
      intro e; subst e; unfold TL at h2; omega
    have h3 := hv a ha b hb hab
    have h4 := hk a ha b hb
    have h5 := hk b hb a ha
    have h6 := (sep_iff_disjoint (hne a ha) (hne b hb)).2 h1
    refine ⟨h2, h6, ?_, ?_⟩
    · unfold VEdge; exact h3
    · unfold Stacked; omega
  · rintro ⟨hne, hp⟩
    refine ⟨hne, ?_, ?_, ?_, ?_⟩
    · refine hp.imp_of_mem ?_
      intro a b ha hb h
      exact (sep_iff_disjoint (hne a ha) (hne b hb)).1 h.2.1
    · exact hp.imp (fun h => h.1)
    · intro a ha b hb hab
      have hq : s.Pairwise (fun a b => a.Nonempty → b.Nonempty → ¬ VEdge a b) :=
        hp.imp (fun h _ _ => h.2.2.1)
      have := hq.forall_of_forall_of_flip (l := s)
        (by intro x _ hx _; unfold VEdge; rs_omega)
        (by
          refine hq.imp ?_
          intro x y h hy hx; have := h hx hy; unfold VEdge at *; omega)
      have := this ha hb (hne a ha) (hne b hb)
      unfold VEdge at this; exact this
    · intro a ha b hb
      have hq : s.Pairwise (fun a b => a.Nonempty → b.Nonempty → ¬ Stacked a b) :=
        hp.imp (fun h _ _ => h.2.2.2)
      have := hq.forall_of_forall_of_flip (l := s)
        (by intro x _ hx _; rs_omega)
        (by
          refine hq.imp ?_
          intro x y h hy hx; have := h hx hy; unfold Stacked at *; omega)
      have := this ha hb (hne a ha) (hne b hb)
      unfold Stacked at this; omega

/-! ### `InvS` under deletion, insertion, translation -/

theorem invS_nil : InvS [] := ⟨by simp, List.Pairwise.nil⟩

theorem invS_eraseIdx {s : List Rect} (h : InvS s) (i : Nat) : InvS (s.eraseIdx i) :=
  ⟨fun x hx => h.1 x (mem_of_mem_eraseIdx hx), h.2.sublist (List.eraseIdx_sublist ..)⟩

theorem invS_insertRect {s : List Rect} {cur : Rect} (h : InvS s) (hc : cur.Nonempty)
    (ha : ∀ x ∈ s, Apart cur x) : InvS (insertRect s cur) := by
  obtain ⟨hne, hp⟩ := h
  refine ⟨?_, ?_⟩
  · intro x hx
    rcases (mem_insertRect s cur x).1 hx with rfl | hx
    · exact hc
    · exact hne x hx
  · induction s with
    | nil => simp [insertRect]
    | cons x xs ih =>
      have hx := hne x (by simp)
      have hax := ha x (by simp)
      rw [List.pairwise_cons] at hp
      unfold insertRect
      split
      · rename_i hcmp
        rw [List.pairwise_cons]
        refine ⟨?_, List.pairwise_cons.2 hp⟩
        intro y hy
        rcases List.mem_cons.1 hy with rfl | hy
        · exact ⟨by rs_omega, hax⟩
        · have h1 := hp.1 y hy
          exact ⟨by rs_omega, ha y (by simp [hy])⟩
      · rename_i hcmp
        rw [List.pairwise_cons]
        refine ⟨?_, ih (fun y hy => ha y (by simp [hy])) (fun y hy => hne y (by simp [hy])) hp.2⟩
        intro y hy
        rcases (mem_insertRect xs cur y).1 hy with rfl | hy
        · exact ⟨by rs_omega, apart_symm hax⟩
        · exact hp.1 y hy

theorem invS_translate {s : List Rect} (h : InvS s) (d k : Int) : InvS (translate s d k) := by
  refine ⟨nonempty_translate s d k h.1, ?_⟩
  unfold translate
  rw [List.pairwise_map]
  refine h.2.imp ?_
  intro a b hab
  rs_omega

/-! ### what the scan has established when it decides to insert -/

theorem scan_insert {cur : Rect} (hc : cur.Nonempty) :
    ∀ (s : List Rect) (i0 : Nat), scan cur s i0 = .insert → (∀ x ∈ s, x.Nonempty) → s.Pairwise TL →
      ∀ x ∈ s, Apart cur x := by
  intro s
  induction s with
  | nil => intro _ _ _ _ x hx; simp at hx
  | cons r rest ih =>
    intro i0 h hne hs x hx
    have hr := hne r (by simp)
    rw [List.pairwise_cons] at hs
    unfold scan at h
    split at h
    · -- break: everything from here on starts below `cur`
      rename_i hb
      rcases List.mem_cons.1 hx with rfl | hx
      · rs_omega
      · have h1 := hs.1 x hx
        have h2 := hne x (by simp [hx])
        rs_omega
    · split at h
      · rename_i hb hfar
        rcases List.mem_cons.1 hx with rfl | hx
        · rs_omega
        · exact ih _ h (fun y hy => hne y (by simp [hy])) hs.2 x hx
      · split at h
        · cases h
        · split at h
          · cases h
          · split at h
            · rename_i hb hfar hcont hst hadj
              rcases List.mem_cons.1 hx with rfl | hx
              · rs_omega
              · exact ih _ h (fun y hy => hne y (by simp [hy])) hs.2 x hx
            · cases h

/-! ### `add` and `addMany` preserve the invariant, for every fuel -/

theorem add_addMany_invS (fuel : Nat) :
    (∀ s cur s', add fuel s cur = some s' → cur.Nonempty → InvS s → InvS s') ∧
    (∀ s ps s', addMany fuel s ps = some s' → (∀ p ∈ ps, p.Nonempty) → InvS s → InvS s') := by
  induction fuel with
  | zero =>
    refine ⟨?_, ?_⟩
    · intro s cur s' h; simp [add] at h
    · intro s ps s' h hps hs
      cases ps with
      | nil => simp [addMany] at h; subst h; exact hs
      | cons p ps => simp [addMany] at h
  | succ n ih =>
    obtain ⟨ihA, ihM⟩ := ih
    refine ⟨?_, ?_⟩
    · intro s cur s' h hc hs
      unfold add at h
      split at h
      · rename_i hscan
        injection h with h; subst h
        exact invS_insertRect hs hc
          (scan_insert hc s 0 hscan hs.1 (hs.2.imp (fun h => h.1)))
      · injection h with h; subst h; exact hs
      · rename_i i grown hscan
        obtain ⟨r, _, _, hgne, _⟩ := scan_stretch hscan hc hs.1
        exact ihA _ _ _ h hgne (invS_eraseIdx hs i)
      · rename_i i r hscan
        obtain ⟨_, hri⟩ := scan_split hscan
        simp only [Nat.sub_zero] at hri
        have hrne : r.Nonempty := hs.1 r (List.mem_of_getElem? hri)
        obtain ⟨_, hpne, _, _⟩ := Props.C06.add_spec r cur hrne hc
        exact ihM _ _ _ h hpne (invS_eraseIdx hs i)
    · intro s ps s' h hps hs
      cases ps with
      | nil => simp [addMany] at h; subst h; exact hs
      | cons p ps =>
        unfold addMany at h
        split at h
        · cases h
        · rename_i s1 hadd
          exact ihM _ _ _ h (fun x hx => hps x (by simp [hx]))
            (ihA _ _ _ hadd (hps p (by simp)) hs)

theorem add_invS {fuel : Nat} {s : List Rect} {cur : Rect} {s' : List Rect}
    (h : add fuel s cur = some s') (hc : cur.Nonempty) (hs : InvS s) : InvS s' :=
  (add_addMany_invS fuel).1 s cur s' h hc hs

theorem addMany_invS {fuel : Nat} {s ps s' : List Rect}
    (h : addMany fuel s ps = some s') (hps : ∀ p ∈ ps, p.Nonempty) (hs : InvS s) : InvS s' :=
  (add_addMany_invS fuel).2 s ps s' h hps hs

/-! ### any two distinct members are `Apart`; members are totally ordered by `TL` -/

theorem invS_apart {s : List Rect} (h : InvS s) {a b : Rect} (ha : a ∈ s) (hb : b ∈ s) (hab : a ≠ b) :
    Apart a b := by
  have hq : s.Pairwise (fun a b => a = b ∨ Apart a b) := h.2.imp (fun h => Or.inr h.2)
  have := hq.forall_of_forall_of_flip (l := s) (fun x _ => Or.inl rfl)
    (hq.imp (fun {x y} h => by
      rcases h with h | h
      · exact Or.inl h.symm
      · exact Or.inr (apart_symm h)))
  rcases this ha hb with h | h
  · exact absurd h hab
  · exact h

theorem mem_intersects {m q : Rect} {l c : Int} (h1 : m.Mem l c) (h2 : q.Mem l c) :
    m.intersects q = true := by
  unfold Rect.intersects
  simp only [Bool.and_eq_true, decide_eq_true_eq]
  rs_omega

/-- The first intersecting member: every intersecting member is it or sorts after it. -/
theorem firstIntersecting_some {s : List Rect} {q r : Rect} (h : firstIntersecting s q = some r)
    (hs : s.Pairwise TL) :
    r ∈ s ∧ r.intersects q = true ∧ ∀ m ∈ s, m.intersects q = true → m = r ∨ TL r m := by
  unfold firstIntersecting at h
  obtain ⟨h1, as, bs, rfl, h2⟩ := List.find?_eq_some_iff_append.1 h
  refine ⟨by simp, h1, ?_⟩
  intro m hm hi
  rcases List.mem_append.1 hm with hm | hm
  · have := h2 m hm
    simp [hi] at this
  · rcases List.mem_cons.1 hm with rfl | hm
    · exact Or.inl rfl
    · rw [List.pairwise_append] at hs
      exact Or.inr ((List.pairwise_cons.1 hs.2.1).1 m hm)

/-- The shortcut of `tickit_rectset_contains` is exact: if the first member `r` intersecting the query does
    not span the query's top row from the query's left edge to its right edge, some cell of that row is
    uncovered. -/
theorem row_gap {s : List Rect} {q r : Rect} (hs : InvS s) (hq : q.Nonempty)
    (hf : firstIntersecting s q = some r)
    (hn : ¬ (r.top ≤ q.top ∧ r.left ≤ q.left ∧ q.right ≤ r.right)) :
    ∃ c, q.left ≤ c ∧ c < q.right ∧ ¬ Covered s q.top c := by
  obtain ⟨hr, hri, hfirst⟩ := firstIntersecting_some hf (hs.2.imp (fun h => h.1))
  have hrne := hs.1 r hr
  unfold Rect.intersects at hri
  simp only [Bool.and_eq_true, decide_eq_true_eq] at hri
  have hqt : q.Mem q.top q.left → True := fun _ => trivial
  by_cases h1 : q.top < r.top
  · -- every member that touches the query starts below the query's top row
    refine ⟨q.left, by omega, by rs_omega, ?_⟩
    rintro ⟨m, hm, hmem⟩
    have hmi : m.intersects q = true := mem_intersects hmem (by rs_omega)
    rcases hfirst m hm hmi with rfl | hlt
    · rs_omega
    · rs_omega
  · by_cases h2 : q.left < r.left
    · by_cases h3 : Covered s q.top q.left
      · obtain ⟨m, hm, hmem⟩ := h3
        have hmr : m ≠ r := by rintro rfl; rs_omega
        have hap := invS_apart hs hm hr hmr
        have hmne := hs.1 m hm
        have hlt : m.right < r.left := by rs_omega
        refine ⟨m.right, by rs_omega, by rs_omega, ?_⟩
        rintro ⟨m2, hm2, hmem2⟩
        have hm2m : m2 ≠ m := by rintro rfl; rs_omega
        have hap2 := invS_apart hs hm2 hm hm2m
        rs_omega
      · exact ⟨q.left, by omega, by rs_omega, h3⟩
    · -- the query sticks out to the right of `r`
      refine ⟨r.right, by rs_omega, by rs_omega, ?_⟩
      rintro ⟨m, hm, hmem⟩
      have hmr : m ≠ r := by rintro rfl; rs_omega
      have hap := invS_apart hs hm hr hmr
      rs_omega

/-- `contains` answering "no" is right: some cell of the query is not covered. -/
theorem contains_complete (fuel : Nat) : ∀ (s : List Rect) (q : Rect),
    contains fuel s q = some false → InvS s → q.Nonempty → ∃ l c, q.Mem l c ∧ ¬ Covered s l c := by
  induction fuel with
  | zero => intro s q h; simp [contains] at h
  | succ n ih =>
    intro s q h hs hq
    unfold contains at h
    split at h
    · rename_i hfi
      unfold firstIntersecting at hfi
      rw [List.find?_eq_none] at hfi
      refine ⟨q.top, q.left, by rs_omega, ?_⟩
      rintro ⟨m, hm, hmem⟩
      exact hfi m hm (mem_intersects hmem (by rs_omega))
    · rename_i r hfi
      obtain ⟨hr, hri, _⟩ := firstIntersecting_some hfi (hs.2.imp (fun h => h.1))
      have hrne := hs.1 r hr
      have hri' := hri
      unfold Rect.intersects at hri'
      simp only [Bool.and_eq_true, decide_eq_true_eq] at hri'
      split at h
      · rename_i hab
        obtain ⟨c, h1, h2, h3⟩ := row_gap hs hq hfi (by omega)
        exact ⟨q.top, c, by rs_omega, h3⟩
      · rename_i hab
        split at h
        · rename_i hsplit
          simp only at h
          split at h
          · cases h
          · rename_i hlow
            have hlne : (Rect.initBounded r.bottom q.left q.bottom q.right).Nonempty := by rs_omega
            obtain ⟨l, c, h1, h2⟩ := ih s _ hlow hs hlne
            exact ⟨l, c, by rs_omega, h2⟩
          · rename_i hlow
            injection h with h
            have hnc : ¬ (r.top ≤ q.top ∧ r.left ≤ q.left ∧ q.right ≤ r.right) := by
              intro hh
              have : r.contains { q with lines := r.bottom - q.top } = true := by
                unfold Rect.contains
                simp only [Bool.and_eq_true, decide_eq_true_eq]
                rs_omega
              rw [this] at h; cases h
            obtain ⟨c, h1, h2, h3⟩ := row_gap hs hq hfi hnc
            exact ⟨q.top, c, by rs_omega, h3⟩
        · rename_i hsplit
          injection h with h
          have hnc : ¬ (r.top ≤ q.top ∧ r.left ≤ q.left ∧ q.right ≤ r.right) := by
            intro hh
            have : r.contains q = true := by
              unfold Rect.contains
              simp only [Bool.and_eq_true, decide_eq_true_eq]
              rs_omega
            rw [this] at h; cases h
          obtain ⟨c, h1, h2, h3⟩ := row_gap hs hq hfi hnc
          exact ⟨q.top, c, by rs_omega, h3⟩

end RectSet
end Tickit
