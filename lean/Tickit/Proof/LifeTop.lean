import Tickit.Proof.LifeMouse
import Tickit.Proof.LifeTally
import Tickit.Proof.LifeTopSw
/-
  C08 proofs, part 12: the layer of `Model/LifeTop.lean` - the terminal's own bindings and its input entry points, the
  toplevel instance with its watches and `tickit_tick`.

  The references the library itself holds there are the parameter `Ghost` of the lower layers' invariant: the toplevel
  instance holds one reference to the terminal and one to the root window as long as it lives; an input entry point
  (and `tickit_term_emit_key/mouse`, `tickit_term_set_size`) holds one more reference to the terminal while it works.
-/
namespace Tickit.Life
open WinTree (Id Win Req Change Tree)

/-! ## changing what the library holds -/

/-- The same state under another tally of the library's own references, the terminal object replaced. -/
theorem SInv.reghost {gh gh' : Ghost} {st : St} (inv : SInv gh st) (tm : Obj)
    (hw : ∀ (i : Nat) (w : Win), LiveW st.tree i w → w.refcount ≤ ((getX st i).appRefs : Int) + (gh'.win i : Int) ∧
      (gh'.covers i → ((getX st i).appRefs : Int) + (gh'.win i : Int) ≤ w.refcount))
    (hgl : 0 < gh'.win 0 → ∃ r, LiveW st.tree 0 r)
    (h1 : tm.freed = false → (∃ r, LiveW st.tree 0 r) → tm.refcount = (tm.appRefs : Int) + (gh'.term : Int) + 1)
    (h2 : tm.freed = false → (¬ ∃ r, LiveW st.tree 0 r) → tm.refcount = (tm.appRefs : Int) + (gh'.term : Int) ∧ 1 ≤ tm.refcount)
    (h3 : tm.freed = true → (¬ ∃ r, LiveW st.tree 0 r) ∧ tm.appRefs = 0 ∧ gh'.term = 0) : SInv gh' { st with term := tm } := by
  refine ⟨⟨inv.tinv, inv.wx_size, inv.rc, List.nodup_nil, by intro i hi; simp at hi, inv.dead_pen,
    ⟨inv.pens.rc, inv.pens.ex, inv.pens.pos⟩, ?_, ?_, ?_, inv.simple⟩, hw, hgl⟩
  · intro hf h; exact h1 hf (by rcases h with h | h; exact h; simp at h)
  · intro hf h; exact h2 hf (fun h' => h (.inl h'))
  · intro hf; exact ⟨fun h => (h3 hf).1 (by rcases h with h | h; exact h; simp at h), (h3 hf).2⟩

/-- One more reference to the terminal, held by the library. -/
def Ghost.addTerm (gh : Ghost) : Ghost := { gh with term := gh.term + 1 }

@[simp] theorem Ghost.addTerm_term (gh : Ghost) : gh.addTerm.term = gh.term + 1 := rfl
@[simp] theorem Ghost.addTerm_win (gh : Ghost) (i : Nat) : gh.addTerm.win i = gh.win i := rfl

def termRefS (st : St) : St := { st with term := { st.term with refcount := st.term.refcount + 1 } }

/-- The library takes a reference to a live terminal. -/
theorem termRefS_ok {gh : Ghost} {st : St} (inv : SInv gh st) (hf : st.term.freed = false) : SInv gh.addTerm (termRefS st) := by
  refine inv.reghost (gh' := gh.addTerm) _ inv.wref inv.glive ?_ ?_ ?_
  · intro _ hr
    have := inv.term_held hf (.inl hr)
    show st.term.refcount + 1 = (st.term.appRefs : Int) + ((gh.term + 1 : Nat) : Int) + 1
    omega
  · intro _ hr
    have := inv.term_free hf (by rintro (h' | h'); exact hr h'; simp at h')
    show st.term.refcount + 1 = (st.term.appRefs : Int) + ((gh.term + 1 : Nat) : Int) ∧ 1 ≤ st.term.refcount + 1
    omega
  · intro h'
    have : st.term.freed = true := h'
    rw [hf] at this; cases this

/-- While the library holds a reference the terminal is alive. -/
theorem term_live_of_ghost {gh : Ghost} {st : St} (inv : SInv gh st) (h : 1 ≤ gh.term) : st.term.freed = false := by
  cases hf : st.term.freed with
  | false => rfl
  | true => have := (inv.term_dead hf).2.2; omega

/-- The library gives its reference to the terminal back. -/
theorem termUnref_ghost {gh : Ghost} {st : St} (inv : SInv gh.addTerm st) :
    termUnref st = .ok { st with term := st.term.dropped } ∧ SInv gh { st with term := st.term.dropped } := by
  have hf : st.term.freed = false := term_live_of_ghost inv (by simp)
  have hr1 : 1 ≤ st.term.refcount := by
    by_cases hr : ∃ r, LiveW st.tree 0 r
    · have := inv.term_held hf (.inl hr); simp only [Ghost.addTerm_term] at this; omega
    · exact (inv.term_free hf (by rintro (h' | h'); exact hr h'; simp at h')).2
  refine ⟨?_, ?_⟩
  · unfold termUnref
    have hge : ¬ st.term.refcount < 1 := by omega
    simp only [hf, Bool.false_eq_true, if_false, hge, pure_ok]
  · refine inv.reghost (gh' := gh) _ (fun i w hl => inv.wref i w hl) inv.glive ?_ ?_ ?_
    · intro _ hr
      have := inv.term_held hf (.inl hr)
      simp only [Ghost.addTerm_term] at this
      simp only [dropped_refcount, dropped_appRefs]
      omega
    · intro hf' hr
      have := inv.term_free hf (by rintro (h' | h'); exact hr h'; simp at h')
      simp only [Ghost.addTerm_term] at this
      simp only [dropped_freed, decide_eq_false_iff_not] at hf'
      simp only [dropped_refcount, dropped_appRefs]
      omega
    · intro hf'
      simp only [dropped_freed, decide_eq_true_eq] at hf'
      refine ⟨fun hr => ?_, ?_⟩
      · have := inv.term_held hf (.inl hr)
        simp only [Ghost.addTerm_term] at this
        omega
      · simp only [dropped_appRefs]
        by_cases hr : ∃ r, LiveW st.tree 0 r
        · have := inv.term_held hf (.inl hr); simp only [Ghost.addTerm_term] at this; omega
        · have := inv.term_free hf (by rintro (h' | h'); exact hr h'; simp at h')
          simp only [Ghost.addTerm_term] at this
          omega

/-- The count of one live window changes together with what the library holds on it. -/
theorem SInv.set_refcount {gh gh' : Ghost} {st : St} (inv : SInv gh st) {win : Nat} {ww : Win} (hw : LiveW st.tree win ww)
    (r : Int) (hterm : gh'.term = gh.term) (hoth : ∀ j, j ≠ win → gh'.win j = gh.win j)
    (hup : r ≤ ((getX st win).appRefs : Int) + (gh'.win win : Int) ∧
      (gh'.covers win → ((getX st win).appRefs : Int) + (gh'.win win : Int) ≤ r)) (hlo : 1 ≤ r) :
    SInv gh' (setW st win { ww with refcount := r }) := by
  obtain ⟨inv', hrel⟩ := inv.tinv.set_refcount hw r
  have hl0 : LiveW (WinTree.set st.tree win { ww with refcount := r }) win { ww with refcount := r } :=
    ⟨set_get_self _ hw.lt, hw.2⟩
  have hB : SInvB gh (setW st win { ww with refcount := r }) [] := by
    refine inv.toSInvB.of_tree (t' := WinTree.set st.tree win { ww with refcount := r }) inv' (set_size _ _ _) ?_
    intro i w hwi
    by_cases hi : win = i
    · subst hi
      have : w = ww := by rw [hw.1] at hwi; exact (Option.some.inj hwi).symm
      subst this
      exact ⟨_, set_get_self _ hw.lt, rfl, fun _ _ => hlo⟩
    · exact ⟨w, by rw [set_get_ne _ hi]; exact hwi, rfl, fun _ h => h⟩
  refine ⟨⟨hB.tinv, hB.wx_size, hB.rc, hB.pend_nodup, hB.pend_freed, hB.dead_pen, hB.pens, ?_, ?_, ?_, hB.simple⟩, ?_, fun hg => by
    by_cases h0 : win = 0
    · subst h0; exact ⟨_, hl0⟩
    · rw [hoth 0 (fun e => h0 e.symm)] at hg
      obtain ⟨r0, hr0⟩ := inv.glive hg
      exact ⟨r0, by show (WinTree.set st.tree win _).wins[0]? = some r0; rw [set_get_ne _ h0]; exact hr0.1, hr0.2⟩⟩
  · rw [hterm]; exact hB.term_held
  · rw [hterm]; exact hB.term_free
  · rw [hterm]; exact hB.term_dead
  · intro i w' hl'
    have hl'' : LiveW (WinTree.set st.tree win { ww with refcount := r }) i w' := hl'
    by_cases hi : win = i
    · subst hi
      have := LiveW.unique hl'' hl0; subst this
      exact hup
    · have h1 := inv.wref i w' ⟨by rw [← set_get_ne _ hi]; exact hl''.1, hl''.2⟩
      unfold Ghost.covers at h1 ⊢
      rw [hoth i (Ne.symm hi)]
      exact h1

/-- A window nobody but the state's own tallies knows: the library's tally on a window that is not alive is void. -/
theorem SInv.reghost_win {gh gh' : Ghost} {st : St} (inv : SInv gh st) (hterm : gh'.term = gh.term)
    (hwin : ∀ (i : Nat) (w : Win), LiveW st.tree i w → gh'.win i = gh.win i)
    (hgl : 0 < gh'.win 0 → ∃ r, LiveW st.tree 0 r) : SInv gh' st := by
  have := inv.reghost (gh' := gh') st.term (fun i w hl => by
      have h1 := inv.wref i w hl
      unfold Ghost.covers at h1 ⊢
      rw [hwin i w hl]
      exact h1) hgl
    (fun hf hr => by rw [hterm]; exact inv.term_held hf (.inl hr))
    (fun hf hr => by rw [hterm]; exact inv.term_free hf (by rintro (h' | h'); exact hr h'; simp at h'))
    (fun hf => by rw [hterm]; exact ⟨fun hr => (inv.term_dead hf).1 (.inl hr), (inv.term_dead hf).2⟩)
  exact this

/-! ## the library drops a reference to a window -/

theorem setX_setX_getX (st : St) (i : Nat) (a : WinX) : setX (setX st i a) i (getX st i) = st := by
  have : (st.wx.setIfInBounds i a).setIfInBounds i (getX st i) = st.wx := by
    rw [Array.setIfInBounds_setIfInBounds]
    apply Array.ext_getElem?
    intro j
    rw [Array.getElem?_setIfInBounds]
    split
    · rename_i h
      subst h
      split
      · rename_i hlt
        unfold getX
        rw [Array.getElem?_eq_getElem hlt]; rfl
      · rename_i hlt
        rw [Array.getElem?_eq_none (by omega)]
    · rfl
  unfold setX
  simp only [this]

/-- `tickit_window_unref` on a reference the library itself holds (the toplevel instance's reference to the root
    window): as `unrefW_ok`, the tally that goes down being the library's. -/
theorem unrefW_ghost {cfg : Cfg} (R : Repaired cfg) {gh gh' : Ghost} {st : St} (inv : SInv gh st) {x : Nat} {ww : Win}
    (hl : LiveW st.tree x ww) (hterm : gh'.term = gh.term) (hx : gh'.win x + 1 = gh.win x)
    (hoth : ∀ j, j ≠ x → gh'.win j = gh.win j) (hcx : gh'.covers x → gh.covers x) :
    ∃ st', unrefW cfg st x = .ok st' ∧ SInv gh' st' ∧ st'.tree.wins.size = st.tree.wins.size ∧
      (∀ (i : Nat) (w : Win), st.tree.wins[i]? = some w → w.freed = true →
        ∃ w', st'.tree.wins[i]? = some w' ∧ w'.freed = true) ∧
      (∀ (j : Nat), (getX st' j).appRefs ≤ (getX st j).appRefs) := by
  have hxlt : x < st.wx.size := by rw [inv.wx_size]; exact hl.lt
  let xp : WinX := { getX st x with appRefs := (getX st x).appRefs + 1 }
  have invB : SInvB gh (setX st x xp) [] := inv.toSInvB.of_wx rfl rfl rfl rfl rfl (setX_map_pen _ rfl)
  have invP : SInv gh' (setX st x xp) := by
    refine ⟨⟨invB.tinv, invB.wx_size, invB.rc, invB.pend_nodup, invB.pend_freed, invB.dead_pen, invB.pens, ?_, ?_, ?_, invB.simple⟩, ?_, fun hg => by
      by_cases h0 : x = 0
      · subst h0; exact ⟨ww, hl⟩
      · rw [hoth 0 (fun e => h0 e.symm)] at hg
        exact inv.glive hg⟩
    · rw [hterm]; exact invB.term_held
    · rw [hterm]; exact invB.term_free
    · rw [hterm]; exact invB.term_dead
    · intro i w hli
      have hli' : LiveW st.tree i w := hli
      have h1 := inv.wref i w hli'
      rw [getX_setX]
      split
      · rename_i h
        rw [← h.1]
        rw [← h.1] at h1
        have hxe : ((gh'.win x : Nat) : Int) + 1 = (gh.win x : Int) := by exact_mod_cast hx
        refine ⟨?_, fun h0 => ?_⟩
        · show w.refcount ≤ (((getX st x).appRefs + 1 : Nat) : Int) + (gh'.win x : Int)
          omega
        · show (((getX st x).appRefs + 1 : Nat) : Int) + (gh'.win x : Int) ≤ w.refcount
          have := h1.2 (hcx h0)
          omega
      · rename_i h
        have hne : i ≠ x := fun e => h ⟨e.symm, hxlt⟩
        unfold Ghost.covers at h1 ⊢
        rw [hoth i hne]; exact h1
  have hh : heldW (setX st x xp) x = true := by
    unfold heldW
    simp only [setX_tree, hl.1, hl.2, Bool.not_false, Bool.true_and, getX_setX_self _ hxlt]
    simp [xp]
  obtain ⟨st', hu, inv', hsz, hfr, hle, hmono, _⟩ := unrefW_ok R invP hh
  have hback : setX (setX st x xp) x { getX (setX st x xp) x with appRefs := (getX (setX st x xp) x).appRefs - 1 } = st := by
    rw [getX_setX_self _ hxlt]
    have : ({ xp with appRefs := xp.appRefs - 1 } : WinX) = getX st x := by
      show ({ getX st x with appRefs := (getX st x).appRefs + 1 - 1 } : WinX) = getX st x
      rw [Nat.add_sub_cancel]
    rw [this]
    exact setX_setX_getX st x xp
  rw [hback] at hu
  refine ⟨st', hu, inv', hsz, hfr, ?_⟩
  intro j
  have := hmono j
  rw [getX_setX] at this
  split at this
  · rename_i h
    rw [← h.1]
    rw [getX_setX_self _ hxlt] at hle
    have : xp.appRefs = (getX st x).appRefs + 1 := rfl
    omega
  · exact this

/-! ## inside an event of the terminal or an entry point -/

/-- The invariant while the library holds `gh`: the lower layers' invariant, window handlers that free nothing, and the
    terminal's binding list (distinct ids; the root window's three bindings are there only while it lives). -/
structure FInv (gh : Ghost) (top : Top) : Prop where
  inv : SInv gh top.st
  keep : KeepingHandlers top.st
  ids : (top.tbinds.map (·.id)).Nodup
  root : ∀ b ∈ top.tbinds, b.isApp = false → rootAlive top.st = true

/-- The toplevel instance is the same object with the same count (its watch lists may differ while it lives). -/
def InstRel : Option Inst → Option Inst → Prop
  | none, none => True
  | some i, some j => j.freed = i.freed ∧ j.refcount = i.refcount ∧ j.appRefs = i.appRefs ∧ (i.freed = true → j = i)
  | _, _ => False

theorem InstRel.refl : ∀ (a : Option Inst), InstRel a a
  | none => trivial
  | some _ => ⟨rfl, rfl, rfl, fun _ => rfl⟩

theorem InstRel.of_eq {a b : Option Inst} (h : b = a) : InstRel a b := by rw [h]; exact InstRel.refl a

theorem InstRel.trans : ∀ {a b c : Option Inst}, InstRel a b → InstRel b c → InstRel a c
  | none, none, none, _, _ => trivial
  | some i, some j, some k, h1, h2 =>
    ⟨h2.1.trans h1.1, h2.2.1.trans h1.2.1, h2.2.2.1.trans h1.2.2.1, fun hf => by
      have hj : j = i := h1.2.2.2 hf
      have : k = j := h2.2.2.2 (by rw [hj]; exact hf)
      rw [this, hj]⟩
  | none, some _, _, h1, _ => h1.elim
  | some _, none, _, h1, _ => h1.elim
  | none, none, some _, _, h2 => h2.elim
  | some _, some _, none, _, h2 => h2.elim

/-- What a handler bound on the terminal, a watch or an entry point leaves alone. -/
structure Rest (a b : Top) : Prop where
  inst : InstRel a.inst b.inst
  dangling : b.dangling = a.dangling
  xterms : b.xterms = a.xterms
  sw : b.sw = a.sw
  swFirst : b.swFirst = a.swFirst
  swHandler : b.swHandler = a.swHandler
  fail : b.fail = a.fail
  mock : b.mock = a.mock
  hasFd : b.hasFd = a.hasFd
  inputDead : b.inputDead = a.inputDead
  now : b.now = a.now
  nTB : b.nTB = a.nTB
  sub : ∀ c ∈ b.tbinds, c ∈ a.tbinds
  /-- the bound of the loop of `tickit_evloop_invoke_timers` (due timers + registrations the harness still takes)
      does not grow: who registers a timer uses up a registration -/
  pot : b.pot ≤ a.pot

theorem Rest.refl (a : Top) : Rest a a := ⟨InstRel.refl _, rfl, rfl, rfl, rfl, rfl, rfl, rfl, rfl, rfl, rfl, rfl, fun _ h => h, Nat.le_refl _⟩

theorem Rest.trans {a b c : Top} (h1 : Rest a b) (h2 : Rest b c) : Rest a c :=
  ⟨h1.inst.trans h2.inst, h2.dangling.trans h1.dangling, h2.xterms.trans h1.xterms, h2.sw.trans h1.sw,
   h2.swFirst.trans h1.swFirst, h2.swHandler.trans h1.swHandler, h2.fail.trans h1.fail, h2.mock.trans h1.mock,
   h2.hasFd.trans h1.hasFd, h2.inputDead.trans h1.inputDead, h2.now.trans h1.now, h2.nTB.trans h1.nTB,
   fun c hc => h1.sub c (h2.sub c hc), Nat.le_trans h2.pot h1.pot⟩

macro "rest_rfl" : tactic => `(tactic| exact ⟨InstRel.refl _, rfl, rfl, rfl, rfl, rfl, rfl, rfl, rfl, rfl, rfl, rfl, fun _ h => h, Nat.le_refl _⟩)

theorem Rest.swSame {a b : Top} (h : Rest a b) : SwSame a b := ⟨h.sw, h.swFirst, h.swHandler, h.xterms, h.fail⟩

theorem nodup_map_filter {α β : Type} (f : α → β) (p : α → Bool) {l : List α} (h : (l.map f).Nodup) : ((l.filter p).map f).Nodup := by
  induction l with
  | nil => exact List.nodup_nil
  | cons a r ih =>
    simp only [List.map_cons, List.nodup_cons] at h
    rw [List.filter_cons]
    split
    · simp only [List.map_cons, List.nodup_cons]
      refine ⟨?_, ih h.2⟩
      intro hm
      apply h.1
      simp only [List.mem_map] at hm ⊢
      obtain ⟨x, hx, he⟩ := hm
      exact ⟨x, (List.mem_filter.1 hx).1, he⟩
    · exact ih h.2

theorem nodup_map_inj {α β : Type} (f : α → β) : ∀ {l : List α}, (l.map f).Nodup → ∀ {a b : α}, a ∈ l → b ∈ l → f a = f b → a = b
  | [], _, _, _, ha, _, _ => by cases ha
  | x :: r, h, a, b, ha, hb, he => by
    simp only [List.map_cons, List.nodup_cons, List.mem_map, not_exists, not_and] at h
    simp only [List.mem_cons] at ha hb
    rcases ha with rfl | ha <;> rcases hb with rfl | hb
    · rfl
    · exact absurd he.symm (h.1 b hb)
    · exact absurd he (h.1 a ha)
    · exact nodup_map_inj f h.2 ha hb he

theorem sync_st (top : Top) : top.sync.st = top.st := by
  unfold Top.sync
  dsimp only
  split <;> split <;> rfl

theorem sync_rest (top : Top) : Rest top top.sync := by
  unfold Top.sync
  dsimp only
  split
  · split
    · exact ⟨InstRel.refl _, rfl, rfl, rfl, rfl, rfl, rfl, rfl, rfl, rfl, rfl, rfl, (by intro c hc; cases hc), Nat.le_refl _⟩
    · exact Rest.refl top
  · split
    · exact ⟨InstRel.refl _, rfl, rfl, rfl, rfl, rfl, rfl, rfl, rfl, rfl, rfl, rfl, (by intro c hc; cases hc), Nat.le_refl _⟩
    · exact ⟨InstRel.refl _, rfl, rfl, rfl, rfl, rfl, rfl, rfl, rfl, rfl, rfl, rfl, fun c hc => (List.mem_filter.1 hc).1, Nat.le_refl _⟩

theorem sync_tbinds (top : Top) : top.sync.tbinds = [] ∨ (rootAlive top.st = true ∧ top.sync.tbinds = top.tbinds) ∨
    (rootAlive top.st = false ∧ top.sync.tbinds = top.tbinds.filter (·.isApp)) := by
  unfold Top.sync
  dsimp only
  split
  · rename_i hr
    split
    · exact .inl rfl
    · exact .inr (.inl ⟨hr, rfl⟩)
  · rename_i hr
    split
    · exact .inl rfl
    · exact .inr (.inr ⟨by cases h : rootAlive top.st <;> simp_all, rfl⟩)

/-- `Top.sync` after the lower layers have run: the binding list follows the root window and the terminal. -/
theorem sync_ok {gh : Ghost} {top : Top} (inv : SInv gh top.st) (H : KeepingHandlers top.st) (hid : (top.tbinds.map (·.id)).Nodup) :
    FInv gh top.sync ∧ Rest top top.sync ∧ top.sync.st = top.st := by
  refine ⟨⟨by rw [sync_st]; exact inv, by rw [sync_st]; exact H, ?_, ?_⟩, sync_rest top, sync_st top⟩
  · rcases sync_tbinds top with h | ⟨_, h⟩ | ⟨_, h⟩
    · rw [h]; exact List.nodup_nil
    · rw [h]; exact hid
    · rw [h]; exact nodup_map_filter _ _ hid
  · intro b hb hna
    rw [sync_st]
    rcases sync_tbinds top with h | ⟨hr, _⟩ | ⟨_, h⟩
    · rw [h] at hb; cases hb
    · exact hr
    · rw [h] at hb
      have := (List.mem_filter.1 hb).2
      rw [hna] at this; cases this

theorem step_act (cfg : Cfg) (st : St) (a : Act) :
    step cfg st (.act a) = (match simpleOp cfg st a none with | none => skipR st | some r => okR r) := rfl

theorem tAct_win (cfg : Cfg) (top : Top) (a : Act) : tAct cfg top (.win a) =
    (match simpleOp cfg top.st a none with
     | none => pure top
     | some r => do
       let st ← r
       pure ({ top with st := st }).sync) := rfl

theorem tAct_tunref (cfg : Cfg) (top : Top) : tAct cfg top .tunref =
    (if heldT top.st then do
      let st ← termUnref { top.st with term := { top.st.term with appRefs := top.st.term.appRefs - 1 } }
      pure ({ top with st := st }).sync
    else pure top) := rfl

theorem tAct_tref (cfg : Cfg) (top : Top) : tAct cfg top .tref =
    (if heldT top.st then
      pure { top with st := { top.st with term := { top.st.term with appRefs := top.st.term.appRefs + 1, refcount := top.st.term.refcount + 1 } } }
    else pure top) := rfl

/-- A change of the log only. -/
theorem SInv.of_log {gh : Ghost} {st : St} (inv : SInv gh st) (l : List String) : SInv gh { st with log := l } :=
  ⟨inv.toSInvB.of_wx rfl rfl rfl rfl rfl rfl, inv.wref, inv.glive⟩

/-- Fields the invariant does not look at. -/
theorem FInv.of_fields {gh : Ghost} {a b : Top} (F : FInv gh a) (hst : b.st = a.st) (htb : b.tbinds = a.tbinds) : FInv gh b :=
  ⟨by rw [hst]; exact F.inv, by rw [hst]; exact F.keep, by rw [htb]; exact F.ids, by rw [hst, htb]; exact F.root⟩

theorem instHeld_spec {top : Top} (h : instHeld top = true) : ∃ i, top.inst = some i ∧ i.freed = false ∧ 0 < i.appRefs := by
  unfold instHeld at h
  cases hi : top.inst with
  | none => rw [hi] at h; cases h
  | some i =>
    rw [hi] at h
    simp only [Bool.and_eq_true, Bool.not_eq_true', decide_eq_true_eq] at h
    exact ⟨i, rfl, h.1, h.2⟩

/-! ### the bound of the timer loop -/

theorem pot_some {top : Top} {i : Inst} (h : top.inst = some i) :
    top.pot = (i.timers.filter (fun e => decide (e.1 ≤ top.now))).length + (watchCap - i.nW) := by
  unfold Top.pot; rw [h]

theorem pot_none {top : Top} (h : top.inst = none) : top.pot = 0 := by
  unfold Top.pot; rw [h]

theorem setInst_inst {top : Top} {i : Inst} (h : top.inst = some i) (f : Inst → Inst) : (setInst top f).inst = some (f i) := by
  unfold setInst; rw [h]; rfl

theorem setInst_inst_none {top : Top} (h : top.inst = none) (f : Inst → Inst) : (setInst top f).inst = none := by
  unfold setInst; rw [h]; rfl

/-- `tickit_watch_timer_at_tv` puts one entry into the queue: it is counted by a filter exactly when it passes it. -/
theorem filter_insertTimer_length (l : List (Int × WItem)) (at_ : Int) (w : WItem) (q : Int × WItem → Bool) :
    ((insertTimer l at_ w).filter q).length = (l.filter q).length + (if q (at_, w) = true then 1 else 0) := by
  have h := congrArg (fun l' => (List.filter q l').length)
    (List.takeWhile_append_dropWhile (p := fun (e : Int × WItem) => decide (e.1 ≤ at_)) (l := l))
  simp only [List.filter_append, List.length_append] at h
  unfold insertTimer
  simp only [List.filter_append, List.length_append, List.filter_cons, List.filter_nil]
  split
  · simp only [List.length_cons, List.length_nil]; omega
  · simp only [List.length_nil]; omega

theorem filter_dropWhile_length_le {α : Type} (l : List α) (p q : α → Bool) : ((l.dropWhile p).filter q).length ≤ (l.filter q).length := by
  have h := congrArg (fun l' => (List.filter q l').length) (List.takeWhile_append_dropWhile (p := p) (l := l))
  simp only [List.filter_append, List.length_append] at h
  omega

/-- A change of the instance's record that keeps the object, its count and the bound of the timer loop. -/
theorem setInst_rest (top : Top) (f : Inst → Inst) (hf : ∀ i, top.inst = some i → (f i).freed = i.freed ∧ (f i).refcount = i.refcount ∧
    (f i).appRefs = i.appRefs ∧ (i.freed = true → f i = i))
    (hp : ∀ i, top.inst = some i → ((f i).timers.filter (fun e => decide (e.1 ≤ top.now))).length + (watchCap - (f i).nW) ≤
      (i.timers.filter (fun e => decide (e.1 ≤ top.now))).length + (watchCap - i.nW)) : Rest top (setInst top f) := by
  refine ⟨?_, rfl, rfl, rfl, rfl, rfl, rfl, rfl, rfl, rfl, rfl, rfl, fun _ h => h, ?_⟩
  · unfold setInst
    cases hi : top.inst with
    | none => trivial
    | some i => exact hf i hi
  · cases hi : top.inst with
    | none => rw [pot_none (setInst_inst_none hi f)]; exact Nat.zero_le _
    | some i =>
      rw [pot_some (setInst_inst hi f), pot_some hi]
      exact hp i hi

/-- One action of a handler bound on the terminal, or of a watch: any API call on a window (`tickit_window_unref`
    included), `tickit_term_ref`, `tickit_term_unref`; the registration of a further timer or deferred call. -/
theorem tAct_ok {cfg : Cfg} (R : Repaired cfg) {gh : Ghost} {top : Top} (F : FInv gh top) (a : TAct) :
    ∃ top', tAct cfg top a = .ok top' ∧ FInv gh top' ∧ Rest top top' := by
  cases a with
  | win a =>
    rw [tAct_win]
    cases hs : simpleOp cfg top.st a none with
    | none => exact ⟨top, rfl, F, Rest.refl top⟩
    | some r =>
      obtain ⟨st', s, hstep, inv'⟩ := step_plain_ok R F.inv (.act a) rfl (fun _ _ _ h => by cases h)
      rw [step_act, hs] at hstep
      have hr : r = .ok st' := okR_ok hstep
      subst hr
      have H' : KeepingHandlers st' := simpleOp_keeps_top F.keep hs
      obtain ⟨F', Rs, _⟩ := sync_ok (top := { top with st := st' }) inv' H' F.ids
      exact ⟨_, rfl, F', Rest.trans (by rest_rfl) Rs⟩
  | tunref =>
    rw [tAct_tunref]
    by_cases hh : heldT top.st = true
    · rw [if_pos hh]
      obtain ⟨st', tm, hu, inv', he, _⟩ := tunref_ok F.inv hh
      simp only [hu, bind_ok, pure_ok]
      have H' : KeepingHandlers st' := by rw [he]; exact F.keep.of_wx rfl
      obtain ⟨F', Rs, _⟩ := sync_ok (top := { top with st := st' }) inv' H' F.ids
      exact ⟨_, rfl, F', Rest.trans (by rest_rfl) Rs⟩
    · rw [if_neg hh]
      exact ⟨top, rfl, F, Rest.refl top⟩
  | tref =>
    rw [tAct_tref]
    by_cases hh : heldT top.st = true
    · rw [if_pos hh]
      refine ⟨_, rfl, ⟨tref_ok F.inv hh, F.keep.of_wx rfl, F.ids, ?_⟩, by rest_rfl⟩
      intro b hb hna
      exact F.root b hb hna
    · rw [if_neg hh]
      exact ⟨top, rfl, F, Rest.refl top⟩
  | timerAt at_ =>
    show ∃ top', (if (instHeld top && decide ((top.inst.getD {}).nW < watchCap)) = true then
        (pure (setInst top (fun i => { i with timers := insertTimer i.timers at_ (.app i.nW []), nW := i.nW + 1 })) : Out Top)
      else pure top) = .ok top' ∧ _
    by_cases hc : (instHeld top && decide ((top.inst.getD {}).nW < watchCap)) = true
    · rw [if_pos hc]
      simp only [Bool.and_eq_true, decide_eq_true_eq] at hc
      obtain ⟨i, hi, hfi, _⟩ := instHeld_spec hc.1
      have hn : i.nW < watchCap := by have := hc.2; rw [hi] at this; exact this
      refine ⟨_, rfl, F.of_fields rfl rfl, setInst_rest top _ ?_ ?_⟩
      · intro j hj
        rw [hi] at hj; cases hj
        exact ⟨rfl, rfl, rfl, fun h => by rw [hfi] at h; cases h⟩
      · intro j hj
        rw [hi] at hj; cases hj
        show ((insertTimer i.timers at_ (.app i.nW [])).filter _).length + (watchCap - (i.nW + 1)) ≤ _
        rw [filter_insertTimer_length]
        split <;> omega
    · rw [if_neg hc]
      exact ⟨top, rfl, F, Rest.refl top⟩
  | later =>
    show ∃ top', (if (instHeld top && decide ((top.inst.getD {}).nW < watchCap)) = true then
        (pure (setInst top (fun i => { i with laters := i.laters ++ [.app i.nW []], nW := i.nW + 1 })) : Out Top)
      else pure top) = .ok top' ∧ _
    by_cases hc : (instHeld top && decide ((top.inst.getD {}).nW < watchCap)) = true
    · rw [if_pos hc]
      simp only [Bool.and_eq_true, decide_eq_true_eq] at hc
      obtain ⟨i, hi, hfi, _⟩ := instHeld_spec hc.1
      refine ⟨_, rfl, F.of_fields rfl rfl, setInst_rest top _ ?_ ?_⟩
      · intro j hj
        rw [hi] at hj; cases hj
        exact ⟨rfl, rfl, rfl, fun h => by rw [hfi] at h; cases h⟩
      · intro j hj
        rw [hi] at hj; cases hj
        show (i.timers.filter _).length + (watchCap - (i.nW + 1)) ≤ _
        omega
    · rw [if_neg hc]
      exact ⟨top, rfl, F, Rest.refl top⟩

theorem tActs_ok {cfg : Cfg} (R : Repaired cfg) {gh : Ghost} : ∀ (acts : List TAct) {top : Top}, FInv gh top →
    ∃ top', acts.foldlM (tAct cfg) top = .ok top' ∧ FInv gh top' ∧ Rest top top'
  | [], top, F => ⟨top, rfl, F, Rest.refl top⟩
  | a :: rest, top, F => by
    obtain ⟨top1, h1, F1, R1⟩ := tAct_ok R F a
    obtain ⟨top2, h2, F2, R2⟩ := tActs_ok R rest F1
    exact ⟨top2, by rw [List.foldlM_cons, h1]; exact h2, F2, R1.trans R2⟩

/-! ## `run_events_whilefalse` on the terminal -/

theorem rootAlive_live {st : St} (h : rootAlive st = true) : ∃ r, LiveW st.tree 0 r := by
  unfold rootAlive at h
  cases hw : st.tree.wins[0]? with
  | none => rw [hw] at h; cases h
  | some r =>
    rw [hw] at h
    exact ⟨r, hw, by cases hf : r.freed <;> simp_all⟩

theorem go_nil (cfg : Cfg) (ev : Ev) (m : Mouse) (top : Top) : runTermEvent.go cfg ev m top [] = pure top := by
  unfold runTermEvent.go; rfl

/-- The walk over the snapshot `snap` of the binding list, from any point of it: every handler finds what it needs
    (the root window's handlers are skipped once the root window is gone: its bindings are tombstones then). -/
theorem runTermEvent_go_ok {cfg : Cfg} (R : Repaired cfg) {gh : Ghost} (ev : Ev) (m : Mouse) (snap : List TBind)
    (hsnap : (snap.map (·.id)).Nodup) : ∀ (rest : List TBind) {top : Top}, FInv gh top → (∀ c ∈ top.tbinds, c ∈ snap) →
      (∀ b ∈ rest, b ∈ snap) →
      ∃ top', runTermEvent.go cfg ev m top rest = .ok top' ∧ FInv gh top' ∧ Rest top top'
  | [], top, F, _, _ => ⟨top, go_nil cfg ev m top, F, Rest.refl top⟩
  | b :: rest, top, F, hsub, hrest => by
    have hrest' : ∀ c ∈ rest, c ∈ snap := fun c hc => hrest c (by simp [hc])
    have ih := fun {top' : Top} (F' : FInv gh top') (Rs : Rest top top') =>
      runTermEvent_go_ok R ev m snap hsnap rest F' (fun c hc => hsub c (Rs.sub c hc)) hrest'
    unfold runTermEvent.go
    by_cases hany : top.tbinds.any (fun c => c.id = b.id) = true
    rotate_left
    · simp only [hany, Bool.not_false, if_true]
      exact ih F (Rest.refl top)
    · simp only [hany, Bool.not_true, Bool.false_eq_true, if_false]
      -- the binding is still in the list
      have hbin : b ∈ top.tbinds := by
        rw [List.any_eq_true] at hany
        obtain ⟨c, hc, hce⟩ := hany
        have : c = b := nodup_map_inj (·.id) hsnap (hsub c hc) (hrest b (by simp)) (by simpa using hce)
        rw [← this]; exact hc
      by_cases hev : b.ev ≠ some ev
      · rw [if_pos hev]
        exact ih F (Rest.refl top)
      · rw [if_neg hev]
        cases hk : b.kind with
        | rootResize => exact ih F (Rest.refl top)
        | rootKey =>
          simp only
          have hra := F.root b hbin (by unfold TBind.isApp; rw [hk])
          obtain ⟨r, hrl⟩ := rootAlive_live hra
          obtain ⟨st1, b1, h1, K1, _, H1⟩ := handleKey_keep R (routeFuel top.st) (KInv.of_inv F.inv) F.keep hrl
            (by simp only [routeFuel]; omega)
          simp only [h1, bind_ok]
          obtain ⟨F1, Rs1, _⟩ := sync_ok (top := { top with st := st1 }) K1.to_inv H1 F.ids
          have Rs : Rest top ({ top with st := st1 } : Top).sync := Rest.trans (by rest_rfl) Rs1
          cases b1 with
          | true => exact ⟨_, rfl, F1, Rs⟩
          | false =>
            obtain ⟨top', h', F', R'⟩ := ih F1 Rs
            exact ⟨top', h', F', Rs.trans R'⟩
        | rootMouse =>
          simp only
          have hra := F.root b hbin (by unfold TBind.isApp; rw [hk])
          obtain ⟨r, hrl⟩ := rootAlive_live hra
          obtain ⟨st1, b1, h1, K1, _, H1⟩ := onTermMouse_keep R (KInv.of_inv F.inv) F.keep hrl m
          simp only [h1, bind_ok]
          obtain ⟨F1, Rs1, _⟩ := sync_ok (top := { top with st := st1 }) K1.to_inv H1 F.ids
          have Rs : Rest top ({ top with st := st1 } : Top).sync := Rest.trans (by rest_rfl) Rs1
          cases b1 with
          | true => exact ⟨_, rfl, F1, Rs⟩
          | false =>
            obtain ⟨top', h', F', R'⟩ := ih F1 Rs
            exact ⟨top', h', F', Rs.trans R'⟩
        | app idx =>
          simp only
          generalize top.st.log ++ _ = l
          have F0 : FInv gh { top with st := { top.st with log := l } } :=
            ⟨F.inv.of_log _, F.keep.of_wx rfl, F.ids, F.root⟩
          obtain ⟨top1, h1, F1, R1⟩ := tActs_ok R b.acts F0
          simp only [h1, bind_ok]
          have Rs : Rest top top1 := Rest.trans (by rest_rfl) R1
          by_cases hret : b.ret = true
          · simp only [hret, if_true]
            exact ⟨_, rfl, F1, Rs⟩
          · simp only [hret, Bool.false_eq_true, if_false]
            obtain ⟨top', h', F', R'⟩ := ih F1 Rs
            exact ⟨top', h', F', Rs.trans R'⟩

/-- `run_events_whilefalse(tt, ev, info)`. -/
theorem runTermEvent_ok {cfg : Cfg} (R : Repaired cfg) {gh : Ghost} {top : Top} (F : FInv gh top) (ev : Ev) (m : Mouse) :
    ∃ top', runTermEvent cfg top ev m = .ok top' ∧ FInv gh top' ∧ Rest top top' :=
  runTermEvent_go_ok R ev m top.tbinds F.ids top.tbinds F (fun _ h => h) (fun _ h => h)

/-! ## the input entry points -/

theorem termRefI_ok {gh : Ghost} {top : Top} (F : FInv gh top) (hf : top.st.term.freed = false) :
    FInv gh.addTerm (termRefI top) ∧ Rest top (termRefI top) :=
  ⟨⟨termRefS_ok F.inv hf, F.keep.of_wx rfl, F.ids, F.root⟩, by rest_rfl⟩

theorem termUnrefI_ok' {gh : Ghost} {top : Top} (F : FInv gh.addTerm top) :
    ∃ top', termUnrefI top = .ok top' ∧ FInv gh top' ∧ Rest top top' ∧ top'.st = { top.st with term := top.st.term.dropped } := by
  obtain ⟨hu, inv'⟩ := termUnref_ghost F.inv
  unfold termUnrefI
  simp only [hu, bind_ok, pure_ok]
  obtain ⟨F', Rs, hst⟩ := sync_ok (top := { top with st := { top.st with term := top.st.term.dropped } }) inv' (F.keep.of_wx rfl) F.ids
  exact ⟨_, rfl, F', Rest.trans (by rest_rfl) Rs, hst⟩

theorem termUnrefI_ok {gh : Ghost} {top : Top} (F : FInv gh.addTerm top) :
    ∃ top', termUnrefI top = .ok top' ∧ FInv gh top' ∧ Rest top top' := by
  obtain ⟨t, h, F', R', _⟩ := termUnrefI_ok' F
  exact ⟨t, h, F', R'⟩

/-- An entry point that holds a reference to the terminal while it works. -/
theorem withTermRef_ok {gh : Ghost} {top : Top} (F : FInv gh top) (hf : top.st.term.freed = false) {f : Top → Out Top}
    (hfn : ∀ (t : Top), FInv gh.addTerm t → ∃ t', f t = .ok t' ∧ FInv gh.addTerm t' ∧ Rest t t') :
    ∃ top', withTermRef top f = .ok top' ∧ FInv gh top' ∧ Rest top top' := by
  obtain ⟨F1, R1⟩ := termRefI_ok F hf
  obtain ⟨t2, h2, F2, R2⟩ := hfn _ F1
  obtain ⟨t3, h3, F3, R3⟩ := termUnrefI_ok F2
  refine ⟨t3, ?_, F3, (R1.trans R2).trans R3⟩
  unfold withTermRef
  simp only [h2, bind_ok]
  exact h3

theorem runEvents_ok {cfg : Cfg} (R : Repaired cfg) {gh : Ghost} : ∀ (evs : List (Ev × Mouse)) {top : Top}, FInv gh top →
    ∃ top', evs.foldlM (fun top (e : Ev × Mouse) => runTermEvent cfg top e.1 e.2) top = .ok top' ∧ FInv gh top' ∧ Rest top top'
  | [], top, F => ⟨top, rfl, F, Rest.refl top⟩
  | e :: rest, top, F => by
    obtain ⟨top1, h1, F1, R1⟩ := runTermEvent_ok R F e.1 e.2
    obtain ⟨top2, h2, F2, R2⟩ := runEvents_ok R rest F1
    exact ⟨top2, by rw [List.foldlM_cons, h1]; exact h2, F2, R1.trans R2⟩

/-- `get_keys`: every key and mouse event libtermkey hands out is delivered. -/
theorem getKeys_ok {cfg : Cfg} (R : Repaired cfg) {gh : Ghost} {top : Top} (F : FInv gh top) (toks : List Tok) {r : Out Top}
    (h : getKeys cfg top toks = some r) : ∃ top', r = .ok top' ∧ FInv gh top' ∧ Rest top top' := by
  unfold getKeys at h
  by_cases hd : top.inputDead = true
  · rw [if_pos hd] at h
    simp only [Option.some.injEq] at h
    subst h
    exact ⟨_, rfl, F.of_fields rfl rfl, by rest_rfl⟩
  · rw [if_neg hd] at h
    cases hdec : decode top.pendingEsc top.held toks [] with
    | none => rw [hdec] at h; cases h
    | some p =>
      obtain ⟨evs, pending, held⟩ := p
      rw [hdec] at h
      simp only [Option.some.injEq] at h
      subst h
      obtain ⟨top1, h1, F1, R1⟩ := runEvents_ok R evs F
      simp only [h1, bind_ok, pure_ok]
      exact ⟨_, rfl, F1.of_fields rfl rfl, R1.trans (by rest_rfl)⟩

/-- `timedout`. -/
theorem timedOut_ok {cfg : Cfg} (R : Repaired cfg) {gh : Ghost} {top : Top} (F : FInv gh top) :
    ∃ top', timedOut cfg top = .ok top' ∧ FInv gh top' ∧ Rest top top' := by
  unfold timedOut
  by_cases hc : (top.pendingEsc && !top.inputDead) = true
  · simp only [hc, if_true]
    obtain ⟨top1, h1, F1, R1⟩ := runTermEvent_ok R (top := { top with pendingEsc := false }) (F.of_fields rfl rfl) .key default
    simp only [h1, bind_ok, pure_ok]
    exact ⟨_, rfl, F1.of_fields rfl rfl, (Rest.trans (by rest_rfl) R1).trans (by rest_rfl)⟩
  · simp only [hc, Bool.false_eq_true, if_false, pure_ok, bind_ok]
    exact ⟨_, rfl, F.of_fields rfl rfl, by rest_rfl⟩

/-! ## between two operations -/

/-- What the toplevel instance holds while it lives: a reference to the terminal and one to the root window. -/
def instGhost : Ghost := { term := 1, win := fun j => if j = 0 then 1 else 0 }

/-- What the library holds between two operations. -/
def Top.ghost (top : Top) : Ghost :=
  match top.inst with
  | some i => if i.freed then Ghost.none else instGhost
  | none => Ghost.none

/-- The toplevel instance's own count: the application's references; a destroyed instance has no watch left. -/
structure InstOk (top : Top) : Prop where
  live : ∀ i, top.inst = some i → i.freed = false → 1 ≤ i.refcount ∧ i.refcount = (i.appRefs : Int)
  dead : ∀ i, top.inst = some i → i.freed = true → i.laters = [] ∧ i.timers = [] ∧ i.appRefs = 0

theorem ghost_of_inst {a b : Top} (h : InstRel a.inst b.inst) : b.ghost = a.ghost := by
  unfold Top.ghost
  generalize a.inst = x at h
  generalize b.inst = y at h
  match x, y, h with
  | none, none, _ => rfl
  | some i, some j, h => simp only [h.1]

theorem InstOk.of_rel {a b : Top} (I : InstOk a) (h : InstRel a.inst b.inst) : InstOk b := by
  cases ha : a.inst with
  | none =>
    cases hb : b.inst with
    | none => exact ⟨fun i hi => (by rw [hb] at hi; cases hi), fun i hi => (by rw [hb] at hi; cases hi)⟩
    | some j => rw [ha, hb] at h; exact h.elim
  | some i =>
    cases hb : b.inst with
    | none => rw [ha, hb] at h; exact h.elim
    | some j =>
      rw [ha, hb] at h
      refine ⟨?_, ?_⟩
      · intro k hk hf
        rw [hb] at hk
        cases hk
        have := I.live i ha (by rw [← h.1]; exact hf)
        rw [h.2.1, h.2.2.1]; exact this
      · intro k hk hf
        rw [hb] at hk
        cases hk
        have hfi : i.freed = true := by rw [← h.1]; exact hf
        rw [h.2.2.2 hfi]
        exact I.dead i ha hfi

/-- The invariant before `Top.swSync` has run. -/
structure TopPre (top : Top) : Prop where
  f : FInv top.ghost top
  sw : SwPre top
  inst : InstOk top
  dangling : top.dangling = false

/-- The invariant between two operations of `Model/LifeTop.lean`. -/
structure TopInv (top : Top) : Prop where
  f : FInv top.ghost top
  sw : SwOk top
  inst : InstOk top
  dangling : top.dangling = false

theorem TopInv.pre {top : Top} (T : TopInv top) : TopPre top := ⟨T.f, T.sw.pre, T.inst, T.dangling⟩

/-- From the state before an operation to the state after it, when the operation left everything but the lower
    layers' state and the binding list alone. -/
theorem TopInv.pre_of_rest {a b : Top} (T : TopInv a) (Rs : Rest a b) (F : FInv a.ghost b) : TopPre b :=
  ⟨by rw [ghost_of_inst Rs.inst]; exact F, T.sw.pre.of_same Rs.swSame, T.inst.of_rel Rs.inst, by rw [Rs.dangling]; exact T.dangling⟩

/-- `xstep`: the operation proper, then the main terminal leaves the observer list if the operation has released it. -/
theorem xstep_ok {tc : TCfg} (hc : tc.sigwinchClearsNext = true) {top top1 : Top} {op : XOp} {r : String}
    (h : xstepCore tc top op = .ok (top1, r)) (P : TopPre top1) :
    xstep tc top op = .ok (top1.swSync tc, r) ∧ TopInv (top1.swSync tc) := by
  obtain ⟨hx, ok, ns, _⟩ := xstep_of_core hc h P.sw
  refine ⟨hx, ⟨?_, ok, P.inst.of_rel (InstRel.of_eq ns.inst), by rw [ns.dangling]; exact P.dangling⟩⟩
  rw [ghost_of_inst (InstRel.of_eq ns.inst)]
  exact P.f.of_fields ns.st ns.tbinds

/-! ### the operations of the lower layers -/

/-- The operations `xstepCore` hands to `Life.step` without further ado. -/
def Op.generic : Op → Bool
  | .newTerm .. | .mdisp .. | .key | .mouse _ | .«end» => false
  | _ => true

def crashOf (top : Top) : Op → Bool
  | .act (.restack c w) => top.dangling && usableW top.st w && isRestack c && top.st.tree.root.changes.isEmpty
  | _ => false

/-- The `| _ =>` branch of `xstepCore (.base op)`. -/
def baseGeneric (tc : TCfg) (top : Top) (op : Op) : Out (Top × String) :=
  if crashOf top op then .ub .mem "root window uses the toplevel instance it has outlived" else do
  let (st, r) ← step tc.base top.st op
  let screen := if top.printed && !op.leavesScreen && r ≠ "skip" then none else top.screen
  pure (({ top with st := st, screen := screen }).sync, r)

theorem xstepCore_generic (tc : TCfg) (top : Top) (op : Op) (h : op.generic = true) :
    xstepCore tc top (.base op) = baseGeneric tc top op := by
  cases op <;> first | rfl | (cases h)

/-- The operations of the lower layers this layer's theorem covers: those of `no_ub` (no event delivered: windows,
    pens with their change handlers, strings, buffers, terminal references), `bind` with handlers that free nothing. -/
def Op.topOk (op : Op) : Prop :=
  (op.plain = true ∨ op.penEvent = true) ∧ op.generic = true ∧
    (∀ w ev ret acts, op = .bind w ev ret acts → ∀ a ∈ acts, a.keeps = true)

theorem base_generic_ok {tc : TCfg} (R : Repaired tc.base) {top : Top} (T : TopInv top) (op : Op) (h : op.topOk) :
    ∃ top1 r, xstepCore tc top (.base op) = .ok (top1, r) ∧ TopPre top1 := by
  obtain ⟨hkind, hgen, hbind⟩ := h
  rw [xstepCore_generic tc top op hgen]
  have hcr : crashOf top op = false := by
    cases op <;> try rfl
    case act a => cases a <;> first | rfl | simp [crashOf, T.dangling]
  unfold baseGeneric
  simp only [hcr, Bool.false_eq_true, if_false]
  have hstep : ∃ st1 r, step tc.base top.st op = .ok (st1, r) ∧ SInv top.ghost st1 ∧ KeepingHandlers st1 := by
    rcases hkind with hp | hpe
    · obtain ⟨st1, r, hs, inv1⟩ := step_plain_ok R T.f.inv op hp (fun l c m e => by rw [e] at hgen; cases hgen)
      exact ⟨st1, r, hs, inv1, step_plain_keeps hp T.f.keep hbind hs⟩
    · obtain ⟨st1, r, hs, inv1, hwx⟩ := step_pen_ok R T.f.inv op hpe
      exact ⟨st1, r, hs, inv1, T.f.keep.of_wx hwx⟩
  obtain ⟨st1, r, hs, inv1, H1⟩ := hstep
  simp only [hs, bind_ok, pure_ok]
  obtain ⟨F', Rs, _⟩ := sync_ok (top := { top with st := st1, screen := if (top.printed && !op.leavesScreen && decide (r ≠ "skip")) = true then none else top.screen })
    inv1 H1 T.f.ids
  exact ⟨_, _, rfl, T.pre_of_rest (Rest.trans (by rest_rfl) Rs) F'⟩

/-! ### events and input -/

theorem okT_ok {r : Out Top} {t : Top} (h : r = .ok t) : okT r = .ok (t, "ok") := by rw [h]; rfl

theorem heldT_live {st : St} (h : heldT st = true) : st.term.freed = false := (heldT_spec h).1

/-- `get_keys` under the reference of the entry point, which is given back afterwards. -/
theorem getKeysRef_ok {cfg : Cfg} (R : Repaired cfg) {gh : Ghost} {top : Top} (F : FInv gh top) (hf : top.st.term.freed = false)
    (toks : List Tok) {r : Out Top} (h : getKeys cfg (termRefI top) toks = some r) :
    ∃ top', (do let t ← r; termUnrefI t) = .ok top' ∧ FInv gh top' ∧ Rest top top' := by
  obtain ⟨F1, R1⟩ := termRefI_ok F hf
  obtain ⟨t2, h2, F2, R2⟩ := getKeys_ok R F1 toks h
  obtain ⟨t3, h3, F3, R3⟩ := termUnrefI_ok F2
  refine ⟨t3, ?_, F3, (R1.trans R2).trans R3⟩
  rw [h2]
  exact h3

/-- `tickit_term_emit_key` / `tickit_term_emit_mouse` with handlers of the application bound on the terminal. -/
theorem emit_ok {tc : TCfg} (R : Repaired tc.base) {top : Top} (T : TopInv top) (ev : Ev) (m : Mouse) (hh : heldT top.st = true) :
    ∃ top1, withTermRef top (fun top => runTermEvent tc.base top ev m) = .ok top1 ∧ TopPre top1 := by
  obtain ⟨top1, h1, F1, R1⟩ := withTermRef_ok T.f (heldT_live hh) (f := fun top => runTermEvent tc.base top ev m)
    (fun t Ft => runTermEvent_ok R Ft ev m)
  exact ⟨top1, h1, T.pre_of_rest R1 F1⟩

theorem base_key_ok {tc : TCfg} (R : Repaired tc.base) {top : Top} (T : TopInv top) :
    ∃ top1 r, xstepCore tc top (.base .key) = .ok (top1, r) ∧ TopPre top1 := by
  have e : xstepCore tc top (.base .key) =
      (if top.tbinds.any (·.isApp) then
        if !heldT top.st then pure (top, "skip")
        else okT (withTermRef top (fun top => runTermEvent tc.base top .key default))
      else do
        let (st, r) ← step tc.base top.st .key
        pure (({ top with st := st }).sync, r)) := rfl
  rw [e]
  by_cases ha : top.tbinds.any (·.isApp) = true
  · rw [if_pos ha]
    by_cases hh : heldT top.st = true
    · rw [if_neg (by rw [hh]; simp)]
      obtain ⟨top1, h1, P1⟩ := emit_ok R T .key default hh
      exact ⟨top1, "ok", okT_ok h1, P1⟩
    · rw [if_pos (not_true_of hh)]
      exact ⟨top, "skip", rfl, T.pre⟩
  · rw [if_neg ha]
    obtain ⟨st1, r, hs, inv1, H1⟩ := step_key_ok R T.f.inv T.f.keep
    simp only [hs, bind_ok, pure_ok]
    obtain ⟨F', Rs, _⟩ := sync_ok (top := { top with st := st1 }) inv1 H1 T.f.ids
    exact ⟨_, _, rfl, T.pre_of_rest (Rest.trans (by rest_rfl) Rs) F'⟩

theorem base_mouse_ok {tc : TCfg} (R : Repaired tc.base) {top : Top} (T : TopInv top) (m : Mouse) :
    ∃ top1 r, xstepCore tc top (.base (.mouse m)) = .ok (top1, r) ∧ TopPre top1 := by
  have e : xstepCore tc top (.base (.mouse m)) =
      (if top.tbinds.any (·.isApp) then
        if !heldT top.st then pure (top, "skip")
        else okT (withTermRef top (fun top => runTermEvent tc.base top .mouse m))
      else do
        let (st, r) ← step tc.base top.st (.mouse m)
        pure (({ top with st := st }).sync, r)) := rfl
  rw [e]
  by_cases ha : top.tbinds.any (·.isApp) = true
  · rw [if_pos ha]
    by_cases hh : heldT top.st = true
    · rw [if_neg (by rw [hh]; simp)]
      obtain ⟨top1, h1, P1⟩ := emit_ok R T .mouse m hh
      exact ⟨top1, "ok", okT_ok h1, P1⟩
    · rw [if_pos (not_true_of hh)]
      exact ⟨top, "skip", rfl, T.pre⟩
  · rw [if_neg ha]
    obtain ⟨st1, r, hs, inv1, H1⟩ := step_mouse_ok R T.f.inv T.f.keep m
    simp only [hs, bind_ok, pure_ok]
    obtain ⟨F', Rs, _⟩ := sync_ok (top := { top with st := st1 }) inv1 H1 T.f.ids
    exact ⟨_, _, rfl, T.pre_of_rest (Rest.trans (by rest_rfl) Rs) F'⟩

/-- Bytes reach libtermkey (`tickit_term_input_push_bytes`, `_readable`, `_wait_*` with something to read). -/
theorem input_ok {tc : TCfg} (R : Repaired tc.base) {top : Top} (T : TopInv top) (toks : List Tok) (hh : heldT top.st = true) :
    ∃ top1 r, (match getKeys tc.base (termRefI top) toks with
      | none => (pure (top, "unsupported-input") : Out (Top × String))
      | some r => okT (do let top ← r; termUnrefI top)) = .ok (top1, r) ∧ TopPre top1 := by
  cases hg : getKeys tc.base (termRefI top) toks with
  | none => exact ⟨top, _, rfl, T.pre⟩
  | some r =>
    obtain ⟨top1, h1, F1, R1⟩ := getKeysRef_ok R T.f (heldT_live hh) toks hg
    exact ⟨top1, "ok", okT_ok h1, T.pre_of_rest R1 F1⟩

theorem tpush_ok {tc : TCfg} (R : Repaired tc.base) {top : Top} (T : TopInv top) (toks : List Tok) :
    ∃ top1 r, xstepCore tc top (.tpush toks) = .ok (top1, r) ∧ TopPre top1 := by
  have e : xstepCore tc top (.tpush toks) =
      (if !heldT top.st then pure (top, "skip")
       else match getKeys tc.base (termRefI top) toks with
        | none => pure (top, "unsupported-input")
        | some r => okT (do let top ← r; termUnrefI top)) := rfl
  rw [e]
  by_cases hh : heldT top.st = true
  · rw [if_neg (by rw [hh]; simp)]
    exact input_ok R T toks hh
  · rw [if_pos (not_true_of hh)]
    exact ⟨top, "skip", rfl, T.pre⟩

theorem tread_ok {tc : TCfg} (R : Repaired tc.base) {top : Top} (T : TopInv top) (toks : List Tok) :
    ∃ top1 r, xstepCore tc top (.tread toks) = .ok (top1, r) ∧ TopPre top1 := by
  have e : xstepCore tc top (.tread toks) =
      (if !heldT top.st || !top.hasFd then pure (top, "skip")
       else match getKeys tc.base (termRefI top) toks with
        | none => pure (top, "unsupported-input")
        | some r => okT (do let top ← r; termUnrefI top)) := rfl
  rw [e]
  by_cases hc : (!heldT top.st || !top.hasFd) = true
  · rw [if_pos hc]
    exact ⟨top, "skip", rfl, T.pre⟩
  · rw [if_neg hc]
    have hh : heldT top.st = true := by
      cases h : heldT top.st
      · rw [h] at hc; simp at hc
      · rfl
    exact input_ok R T toks hh

theorem twait_ok {tc : TCfg} (R : Repaired tc.base) {top : Top} (T : TopInv top) (toks : List Tok) (tv : Bool) :
    ∃ top1 r, xstepCore tc top (.twait toks tv) = .ok (top1, r) ∧ TopPre top1 := by
  have e : xstepCore tc top (.twait toks tv) =
      (if !heldT top.st || !top.hasFd then pure (top, "skip")
       else if toks.isEmpty then
        okT (withTermRef top (fun top => do
          let top ← timedOut tc.base top
          match getKeys tc.base top [] with
          | none => pure top
          | some r => r))
       else match getKeys tc.base (termRefI top) toks with
        | none => pure (top, "unsupported-input")
        | some r => okT (do let top ← r; termUnrefI top)) := rfl
  rw [e]
  by_cases hc : (!heldT top.st || !top.hasFd) = true
  · rw [if_pos hc]
    exact ⟨top, "skip", rfl, T.pre⟩
  · rw [if_neg hc]
    have hh : heldT top.st = true := by
      cases h : heldT top.st
      · rw [h] at hc; simp at hc
      · rfl
    by_cases he : toks.isEmpty = true
    · rw [if_pos he]
      obtain ⟨top1, h1, F1, R1⟩ := withTermRef_ok T.f (heldT_live hh)
        (f := fun top => do
          let top ← timedOut tc.base top
          match getKeys tc.base top [] with
          | none => pure top
          | some r => r)
        (fun t Ft => by
          obtain ⟨t1, h1, F1, R1⟩ := timedOut_ok R Ft
          simp only [h1, bind_ok]
          cases hg : getKeys tc.base t1 [] with
          | none => exact ⟨t1, rfl, F1, R1⟩
          | some r =>
            obtain ⟨t2, h2, F2, R2⟩ := getKeys_ok R F1 [] hg
            exact ⟨t2, h2, F2, R1.trans R2⟩)
      exact ⟨top1, "ok", okT_ok h1, T.pre_of_rest R1 F1⟩
    · rw [if_neg he]
      exact input_ok R T toks hh

theorem tcheck_ok {tc : TCfg} (R : Repaired tc.base) {top : Top} (T : TopInv top) :
    ∃ top1 r, xstepCore tc top .tcheck = .ok (top1, r) ∧ TopPre top1 := by
  have e : xstepCore tc top .tcheck =
      (if !heldT top.st then pure (top, "skip")
       else do
        let msec := getTimeout top
        if msec = 0 then do
          let top ← withTermRef top (timedOut tc.base)
          pure (top, "ret=-1")
        else pure (top, s!"ret={msec}")) := rfl
  rw [e]
  by_cases hh : heldT top.st = true
  · rw [if_neg (by rw [hh]; simp)]
    by_cases h0 : getTimeout top = 0
    · simp only [h0, if_true]
      obtain ⟨top1, h1, F1, R1⟩ := withTermRef_ok T.f (heldT_live hh) (f := timedOut tc.base) (fun t Ft => timedOut_ok R Ft)
      simp only [h1, bind_ok, pure_ok]
      exact ⟨top1, _, rfl, T.pre_of_rest R1 F1⟩
    · simp only [h0, if_false, pure_ok]
      exact ⟨top, _, rfl, T.pre⟩
  · rw [if_pos (not_true_of hh)]
    exact ⟨top, "skip", rfl, T.pre⟩

/-- Operations that change only what the invariant does not look at. -/
theorem TopInv.pre_fields {a b : Top} (T : TopInv a) (Rs : Rest a b) (hst : b.st = a.st) (htb : b.tbinds = a.tbinds) : TopPre b :=
  T.pre_of_rest Rs (T.f.of_fields hst htb)

/-! ### bindings, the clock, a new terminal -/

theorem foldl_max_ge : ∀ (l : List TBind) (m0 : Int), m0 ≤ l.foldl (fun m b => if b.id > m then b.id else m) m0 ∧
    ∀ b ∈ l, b.id ≤ l.foldl (fun m b => if b.id > m then b.id else m) m0
  | [], m0 => ⟨Int.le_refl _, by intro b hb; cases hb⟩
  | a :: r, m0 => by
    simp only [List.foldl_cons]
    obtain ⟨h1, h2⟩ := foldl_max_ge r (if a.id > m0 then a.id else m0)
    have h0 : m0 ≤ (if a.id > m0 then a.id else m0) ∧ a.id ≤ (if a.id > m0 then a.id else m0) := by split <;> omega
    generalize (if a.id > m0 then a.id else m0) = x at h0 h1 h2 ⊢
    refine ⟨by omega, ?_⟩
    intro b hb
    simp only [List.mem_cons] at hb
    rcases hb with rfl | hb
    · omega
    · exact h2 b hb

theorem tbind_ok {tc : TCfg} {top : Top} (T : TopInv top) (ev : Ev) (ret : Bool) (acts : List TAct) :
    ∃ top1 r, xstepCore tc top (.tbind ev ret acts) = .ok (top1, r) ∧ TopPre top1 := by
  have e : xstepCore tc top (.tbind ev ret acts) =
      (if !heldT top.st then pure (top, "skip")
       else
        let id := top.tbinds.foldl (fun m b => if b.id > m then b.id else m) (0 : Int) + 1
        pure ({ top with tbinds := top.tbinds ++ [⟨id, .app top.nTB, some ev, ret, acts⟩], nTB := top.nTB + 1 }, s!"id={id}")) := rfl
  rw [e]
  by_cases hh : heldT top.st = true
  · rw [if_neg (by rw [hh]; simp)]
    refine ⟨_, _, rfl, ⟨⟨T.f.inv, T.f.keep, ?_, ?_⟩, T.sw.pre.of_same ⟨rfl, rfl, rfl, rfl, rfl⟩, ⟨T.inst.live, T.inst.dead⟩, T.dangling⟩⟩
    · show ((top.tbinds ++ [_]).map (fun (b : TBind) => b.id)).Nodup
      rw [List.map_append, List.nodup_append]
      refine ⟨T.f.ids, by simp, ?_⟩
      intro a ha b hb
      simp only [List.map_cons, List.map_nil, List.mem_singleton] at hb
      simp only [List.mem_map] at ha
      obtain ⟨c, hc, rfl⟩ := ha
      have := (foldl_max_ge top.tbinds 0).2 c hc
      subst hb
      show c.id ≠ _
      omega
    · intro b hb hna
      show rootAlive top.st = true
      simp only [List.mem_append, List.mem_singleton] at hb
      rcases hb with hb | hb
      · exact T.f.root b hb hna
      · subst hb; cases hna
  · rw [if_pos (not_true_of hh)]
    exact ⟨top, "skip", rfl, T.pre⟩

theorem tunbind_ok {tc : TCfg} {top : Top} (T : TopInv top) (id : Int) :
    ∃ top1 r, xstepCore tc top (.tunbind id) = .ok (top1, r) ∧ TopPre top1 := by
  have e : xstepCore tc top (.tunbind id) =
      (if !heldT top.st || !(top.tbinds.any (fun b => b.id = id && b.isApp)) then pure (top, "skip")
       else pure ({ top with tbinds := top.tbinds.filter (fun b => b.id ≠ id) }, "ok")) := rfl
  rw [e]
  split
  · exact ⟨top, "skip", rfl, T.pre⟩
  · refine ⟨_, _, rfl, T.pre_of_rest ⟨InstRel.refl _, rfl, rfl, rfl, rfl, rfl, rfl, rfl, rfl, rfl, rfl, rfl, fun c hc => (List.mem_filter.1 hc).1, Nat.le_refl _⟩
      ⟨T.f.inv, T.f.keep, nodup_map_filter (fun (b : TBind) => b.id) _ T.f.ids, fun b hb hna => T.f.root b (List.mem_filter.1 hb).1 hna⟩⟩

theorem tick_ok {tc : TCfg} {top : Top} (T : TopInv top) (ms : Int) :
    ∃ top1 r, xstepCore tc top (.tick ms) = .ok (top1, r) ∧ TopPre top1 :=
  ⟨{ top with now := top.now + ms }, "ok", rfl,
    ⟨T.f.of_fields rfl rfl, T.sw.pre.of_same ⟨rfl, rfl, rfl, rfl, rfl⟩, ⟨T.inst.live, T.inst.dead⟩, T.dangling⟩⟩

theorem mprint_ok {tc : TCfg} {top : Top} (T : TopInv top) (line col : Int) (bytes : List UInt8) :
    ∃ top1 r, xstepCore tc top (.mprint line col bytes) = .ok (top1, r) ∧ TopPre top1 := by
  have e : xstepCore tc top (.mprint line col bytes) =
      (if !top.mock || !heldT top.st then pure (top, "skip")
       else match top.screen with
        | none => pure (top, "unsupported-screen")
        | some scr =>
          let scr' := ((scr.goto line col).print bytes).compact
          if scr'.hung then pure (top, "skip")
          else pure ({ top with screen := some scr', printed := true }, "ok")) := rfl
  rw [e]
  split
  · exact ⟨top, _, rfl, T.pre⟩
  · split
    · exact ⟨top, _, rfl, T.pre⟩
    · dsimp only
      split
      · exact ⟨top, _, rfl, T.pre⟩
      · exact ⟨_, _, rfl, T.pre_fields (by rest_rfl) rfl rfl⟩

theorem tsetin_ok {tc : TCfg} (hs : tc.setInputFdClearsTermkey = true) {top : Top} (T : TopInv top) :
    ∃ top1 r, xstepCore tc top .tsetin = .ok (top1, r) ∧ TopPre top1 := by
  have e : xstepCore tc top .tsetin =
      (if !heldT top.st || !top.hasFd then pure (top, "skip")
       else if !tc.setInputFdClearsTermkey then
        .ub .mem "tickit_term_set_input_fd: get_termkey() uses the TermKey that has just been destroyed"
       else pure ({ top with pendingEsc := false, inputDead := false }, "ok fd=1")) := rfl
  rw [e]
  split
  · exact ⟨top, _, rfl, T.pre⟩
  · rw [if_neg (by rw [hs]; simp)]
    exact ⟨_, _, rfl, ⟨T.f.of_fields rfl rfl, T.sw.pre.of_same ⟨rfl, rfl, rfl, rfl, rfl⟩, ⟨T.inst.live, T.inst.dead⟩, T.dangling⟩⟩

theorem keepingHandlers_init' (lines cols : Int) : KeepingHandlers
    ({ tree := { wins := #[({ rect := ⟨0, 0, lines, cols⟩, isRoot := true } : WinTree.Win)], root := {} }, wx := #[{}], term := { refcount := 2 } } : St) := by
  intro i b hb
  unfold getX at hb
  by_cases hi : i = 0
  · subst hi; simp at hb
  · have : (#[({} : WinX)])[i]? = none := by apply Array.getElem?_eq_none; simp; omega
    simp only [this, Option.getD_none] at hb
    simp at hb

/-- A state with nobody observing SIGWINCH and no further terminal. -/
theorem swOk_fresh (top : Top) (h1 : top.sw = #[{}]) (h2 : top.swFirst = none) (h3 : top.swHandler = false) (h4 : top.xterms = #[])
    (h5 : top.fail = none) : SwOk top := by
  refine ⟨h5, [], ⟨by rw [h2]; trivial, List.nodup_nil, by simp, ?_, by simp, by rw [h1, h4]; rfl, by rw [h2, h3]; rfl,
    by intro k x hx; rw [h4] at hx; simp at hx⟩, by simp⟩
  intro c _
  unfold swNext swObs swNode
  rw [h1]
  by_cases hc : c = 0
  · subst hc; exact ⟨rfl, rfl⟩
  · have : (#[({} : SwNode)])[c]? = none := by apply Array.getElem?_eq_none; simp; omega
    rw [this]; exact ⟨rfl, rfl⟩

/-- The state `newTop` makes. -/
def freshTop (lines cols : Int) (mock hasFd : Bool) : Top :=
  { st := { tree := { wins := #[({ rect := ⟨0, 0, lines, cols⟩, isRoot := true } : WinTree.Win)], root := {} }, wx := #[{}], term := { refcount := 2 } },
    mock := mock, hasFd := hasFd, size := (lines, cols), screen := if mock then some (RBFlush.MockTerm.new lines cols) else none,
    tbinds := [⟨1, .rootResize, none, false, []⟩, ⟨2, .rootKey, some .key, false, []⟩, ⟨3, .rootMouse, some .mouse, false, []⟩] }

theorem newTop_eq (cfg : Cfg) (lines cols : Int) (mock hasFd : Bool) :
    newTop cfg lines cols mock hasFd = .ok (freshTop lines cols mock hasFd, "ok") := rfl

theorem freshTop_inv (lines cols : Int) (mock hasFd : Bool) : TopInv (freshTop lines cols mock hasFd) := by
  refine ⟨⟨SInv.init lines cols rfl rfl, keepingHandlers_init' lines cols, by show ([1, 2, 3] : List Int).Nodup; decide, fun _ _ _ => rfl⟩,
    swOk_fresh _ rfl rfl rfl rfl rfl, ⟨fun i hi => (by cases hi), fun i hi => (by cases hi)⟩, rfl⟩

theorem newTerm_ok {tc : TCfg} (top : Top) (lines cols : Int) (mock : Bool) :
    ∃ top1 r, xstepCore tc top (.base (.newTerm lines cols mock)) = .ok (top1, r) ∧ TopPre top1 :=
  ⟨_, _, newTop_eq tc.base lines cols mock false, (freshTop_inv lines cols mock false).pre⟩

theorem newin_ok {tc : TCfg} (top : Top) (lines cols : Int) :
    ∃ top1 r, xstepCore tc top (.newin lines cols) = .ok (top1, r) ∧ TopPre top1 :=
  ⟨_, _, newTop_eq tc.base lines cols false true, (freshTop_inv lines cols false true).pre⟩

/-! ### the toplevel instance -/

/-- The instance's reference to the root window, without the one to the terminal. -/
def rootGhost : Ghost := { term := 0, win := fun j => if j = 0 then 1 else 0 }

theorem rootGhost_addTerm : rootGhost.addTerm = instGhost := rfl

theorem ghost_alive {top : Top} {i : Inst} (h : top.inst = some i) (hf : i.freed = false) : top.ghost = instGhost := by
  unfold Top.ghost; rw [h]; simp [hf]

theorem ghost_dead {top : Top} {i : Inst} (h : top.inst = some i) (hf : i.freed = true) : top.ghost = Ghost.none := by
  unfold Top.ghost; rw [h]; simp [hf]

theorem ghost_noinst {top : Top} (h : top.inst = none) : top.ghost = Ghost.none := by
  unfold Top.ghost; rw [h]

/-- `tickit_build` for a terminal: the instance holds the creation references of the terminal and of the root window,
    the application takes its own. -/
theorem newtop_ok {tc : TCfg} (top : Top) (lines cols : Int) :
    ∃ top1 r, xstepCore tc top (.newtop lines cols) = .ok (top1, r) ∧ TopPre top1 := by
  let ft := freshTop lines cols false true
  let w0 : Win := { rect := ⟨0, 0, lines, cols⟩, isRoot := true }
  have hl : LiveW ft.st.tree 0 w0 := ⟨rfl, rfl⟩
  have inv0 : SInv Ghost.none ft.st := SInv.init lines cols rfl rfl
  have inv1 : SInv rootGhost (setW ft.st 0 { w0 with refcount := w0.refcount + 1 }) :=
    inv0.set_refcount hl (w0.refcount + 1) rfl (fun j hj => by simp [rootGhost, hj])
      ⟨by show (1 : Int) + 1 ≤ ((1 : Nat) : Int) + ((1 : Nat) : Int); decide,
       fun _ => by show ((1 : Nat) : Int) + ((1 : Nat) : Int) ≤ (1 : Int) + 1; decide⟩ (by show (1 : Int) ≤ 1 + 1; decide)
  have inv2 := termRefS_ok inv1 rfl
  rw [rootGhost_addTerm] at inv2
  refine ⟨{ ft with st := termRefS (setW ft.st 0 { w0 with refcount := w0.refcount + 1 }), inst := some {} }, "ok", rfl, ?_⟩
  refine ⟨?_, (swOk_fresh _ rfl rfl rfl rfl rfl).pre, ⟨?_, ?_⟩, rfl⟩
  · rw [ghost_alive (i := {}) rfl rfl]
    exact ⟨inv2, (keepingHandlers_init' lines cols).of_wx rfl, by show ([1, 2, 3] : List Int).Nodup; decide, fun _ _ _ => rfl⟩
  · intro i hi hf
    have : i = {} := by cases hi; rfl
    subst this
    exact ⟨by decide, by decide⟩
  · intro i hi hf
    have : i = {} := by cases hi; rfl
    subst this
    cases hf

/-- A change of the instance's record that keeps it alive with a right count. -/
theorem TopPre.pre_setInst {top : Top} (T : TopPre top) {i : Inst} (hi : top.inst = some i) (hf : i.freed = false) (f : Inst → Inst)
    (hff : (f i).freed = false) (hrc : 1 ≤ (f i).refcount ∧ (f i).refcount = ((f i).appRefs : Int)) : TopPre (setInst top f) := by
  have hinst : (setInst top f).inst = some (f i) := by unfold setInst; rw [hi]; rfl
  refine ⟨?_, T.sw.of_same ⟨rfl, rfl, rfl, rfl, rfl⟩, ⟨?_, ?_⟩, T.dangling⟩
  · rw [ghost_alive hinst hff, ← ghost_alive hi hf]
    exact T.f.of_fields rfl rfl
  · intro j hj _
    rw [hinst] at hj; cases hj
    exact hrc
  · intro j hj hfj
    rw [hinst] at hj; cases hj
    rw [hff] at hfj; cases hfj

theorem TopInv.pre_setInst {top : Top} (T : TopInv top) {i : Inst} (hi : top.inst = some i) (hf : i.freed = false) (f : Inst → Inst)
    (hff : (f i).freed = false) (hrc : 1 ≤ (f i).refcount ∧ (f i).refcount = ((f i).appRefs : Int)) : TopPre (setInst top f) :=
  T.pre.pre_setInst hi hf f hff hrc

theorem iref_ok {tc : TCfg} {top : Top} (T : TopInv top) :
    ∃ top1 r, xstepCore tc top .iref = .ok (top1, r) ∧ TopPre top1 := by
  have e : xstepCore tc top .iref =
      (if !instHeld top then pure (top, "skip")
       else pure (setInst top (fun i => { i with appRefs := i.appRefs + 1, refcount := i.refcount + 1 }), "ok")) := rfl
  rw [e]
  by_cases hh : instHeld top = true
  · rw [if_neg (by rw [hh]; simp)]
    obtain ⟨i, hi, hf, hpos⟩ := instHeld_spec hh
    have := T.inst.live i hi hf
    exact ⟨_, _, rfl, T.pre_setInst hi hf _ hf ⟨by show 1 ≤ i.refcount + 1; omega,
      by show i.refcount + 1 = ((i.appRefs + 1 : Nat) : Int); omega⟩⟩
  · rw [if_pos (not_true_of hh)]
    exact ⟨top, "skip", rfl, T.pre⟩

theorem ilater_ok {tc : TCfg} {top : Top} (T : TopInv top) (acts : List TAct) :
    ∃ top1 r, xstepCore tc top (.ilater acts) = .ok (top1, r) ∧ TopPre top1 := by
  have e : xstepCore tc top (.ilater acts) =
      (if (!instHeld top || decide ((top.inst.getD {}).nW ≥ watchCap)) = true then pure (top, "skip")
       else pure (setInst top (fun i => { i with laters := i.laters ++ [.app i.nW acts], nW := i.nW + 1 }), "ok")) := rfl
  rw [e]
  by_cases hc : (!instHeld top || decide ((top.inst.getD {}).nW ≥ watchCap)) = true
  · rw [if_pos hc]
    exact ⟨top, "skip", rfl, T.pre⟩
  · rw [if_neg hc]
    have hh : instHeld top = true := by
      cases h : instHeld top
      · rw [h] at hc; simp at hc
      · rfl
    obtain ⟨i, hi, hf, hpos⟩ := instHeld_spec hh
    exact ⟨_, _, rfl, T.pre_setInst hi hf _ hf (T.inst.live i hi hf)⟩

theorem itimerat_ok {tc : TCfg} {top : Top} (T : TopInv top) (at_ : Int) (acts : List TAct) :
    ∃ top1 r, xstepCore tc top (.itimerat at_ acts) = .ok (top1, r) ∧ TopPre top1 := by
  have e : xstepCore tc top (.itimerat at_ acts) =
      (if (!instHeld top || decide ((top.inst.getD {}).nW ≥ watchCap)) = true then pure (top, "skip")
       else pure (setInst top (fun i => { i with timers := insertTimer i.timers at_ (.app i.nW acts), nW := i.nW + 1 }), "ok")) := rfl
  rw [e]
  by_cases hc : (!instHeld top || decide ((top.inst.getD {}).nW ≥ watchCap)) = true
  · rw [if_pos hc]
    exact ⟨top, "skip", rfl, T.pre⟩
  · rw [if_neg hc]
    have hh : instHeld top = true := by
      cases h : instHeld top
      · rw [h] at hc; simp at hc
      · rfl
    obtain ⟨i, hi, hf, hpos⟩ := instHeld_spec hh
    exact ⟨_, _, rfl, T.pre_setInst hi hf _ hf (T.inst.live i hi hf)⟩

theorem itimer_ok {tc : TCfg} {top : Top} (T : TopInv top) (ms : Int) (acts : List TAct) :
    ∃ top1 r, xstepCore tc top (.itimer ms acts) = .ok (top1, r) ∧ TopPre top1 := by
  have e : xstepCore tc top (.itimer ms acts) =
      (if (!instHeld top || decide ((top.inst.getD {}).nW ≥ watchCap)) = true then pure (top, "skip")
       else pure (setInst top (fun i => { i with timers := insertTimer i.timers (top.now + ms) (.app i.nW acts), nW := i.nW + 1 }), "ok")) := rfl
  rw [e]
  by_cases hc : (!instHeld top || decide ((top.inst.getD {}).nW ≥ watchCap)) = true
  · rw [if_pos hc]
    exact ⟨top, "skip", rfl, T.pre⟩
  · rw [if_neg hc]
    have hh : instHeld top = true := by
      cases h : instHeld top
      · rw [h] at hc; simp at hc
      · rfl
    obtain ⟨i, hi, hf, hpos⟩ := instHeld_spec hh
    exact ⟨_, _, rfl, T.pre_setInst hi hf _ hf (T.inst.live i hi hf)⟩

def isK (k : Nat) : WItem → Bool
  | .app idx _ => idx = k
  | .termTimeout => false

def pendingK (top : Top) (k : Nat) : Bool :=
  match top.inst with
  | some i => i.laters.any (isK k) || i.timers.any (fun e => isK k e.2)
  | none => false

theorem icancel_ok {tc : TCfg} {top : Top} (T : TopInv top) (k : Nat) :
    ∃ top1 r, xstepCore tc top (.icancel k) = .ok (top1, r) ∧ TopPre top1 := by
  have e : xstepCore tc top (.icancel k) =
      (if !instHeld top || !pendingK top k then pure (top, "skip")
       else pure (setInst top (fun i => { i with laters := i.laters.filter (fun x => !isK k x), timers := i.timers.filter (fun e => !isK k e.2) }), "ok")) := rfl
  rw [e]
  by_cases hc : (!instHeld top || !pendingK top k) = true
  · rw [if_pos hc]
    exact ⟨top, "skip", rfl, T.pre⟩
  · rw [if_neg hc]
    have hh : instHeld top = true := by
      cases h : instHeld top
      · rw [h] at hc; simp at hc
      · rfl
    obtain ⟨i, hi, hf, hpos⟩ := instHeld_spec hh
    exact ⟨_, _, rfl, T.pre_setInst hi hf _ hf (T.inst.live i hi hf)⟩

/-- The instance's reference to the terminal, without the one to the root window. -/
theorem none_addTerm_win (i : Nat) : Ghost.none.addTerm.win i = 0 := rfl

theorem rootAlive_iff {st : St} : rootAlive st = true ↔ ∃ r, LiveW st.tree 0 r := by
  constructor
  · exact rootAlive_live
  · rintro ⟨r, hr⟩
    unfold rootAlive
    rw [hr.1]
    simp [hr.2]

/-- The second half of `tickit_destroy`: `tickit_term_teardown`, `tickit_term_unref`, the watches. -/
def destroyTail (t1 : Top) : Out Top := do
  let top ← termUnrefI t1
  pure (setInst { top with inputDead := !top.st.term.freed } (fun i => { i with freed := true, refcount := 0, laters := [], timers := [] }))

theorem instDestroy_eq (tc : TCfg) (top : Top) : instDestroy tc top =
    (if rootAlive top.st then do
      let st ← unrefW tc.base top.st 0
      destroyTail ({ top with st := st, dangling := rootAlive st && !tc.rootForgetsTickit }).sync
    else destroyTail top) := by
  unfold instDestroy destroyTail
  dsimp only
  split <;> rfl

theorem destroyTail_ok {t0 t1 : Top} {i : Inst} (F1 : FInv Ghost.none.addTerm t1) (R1 : Rest t0 t1) (hsw : SwPre t0)
    (hi : t0.inst = some i) (ha : i.appRefs = 0) (hd : t0.dangling = false) :
    ∃ top1, destroyTail t1 = .ok top1 ∧ TopPre top1 ∧ (∃ j, top1.inst = some j ∧ j.freed = true) ∧ SwSame t0 top1 ∧
      EndRel t1.st top1.st := by
  unfold destroyTail
  obtain ⟨t2, h2, F2, R2, hst2⟩ := termUnrefI_ok' F1
  simp only [h2, bind_ok, pure_ok]
  have R12 := R1.trans R2
  have hi2 : ∃ i2, t2.inst = some i2 ∧ i2.appRefs = 0 := by
    have := R12.inst
    rw [hi] at this
    cases h2i : t2.inst with
    | none => rw [h2i] at this; exact this.elim
    | some i2 => rw [h2i] at this; exact ⟨i2, rfl, by rw [this.2.2.1]; exact ha⟩
  obtain ⟨i2, hi2, ha2⟩ := hi2
  have hinst : (setInst { t2 with inputDead := !t2.st.term.freed } (fun i => { i with freed := true, refcount := 0, laters := [], timers := [] })).inst =
      some { i2 with freed := true, refcount := 0, laters := [], timers := [] } := by
    unfold setInst; show Option.map _ t2.inst = _; rw [hi2]; rfl
  have hS : SwSame t0 (setInst { t2 with inputDead := !t2.st.term.freed } (fun i => { i with freed := true, refcount := 0, laters := [], timers := [] })) :=
    ⟨R12.sw, R12.swFirst, R12.swHandler, R12.xterms, R12.fail⟩
  have hE : EndRel t1.st t2.st := by
    rw [hst2]
    refine EndRel.of_term t1.st _ rfl ?_
    intro hf
    have := term_live_of_ghost F1.inv (by simp)
    rw [this] at hf; cases hf
  refine ⟨_, rfl, ⟨?_, hsw.of_same hS, ⟨?_, ?_⟩, ?_⟩, ⟨_, hinst, rfl⟩, hS, hE⟩
  · rw [ghost_dead hinst rfl]
    exact F2.of_fields rfl rfl
  · intro j hj hf
    rw [hinst] at hj; cases hj; cases hf
  · intro j hj _
    rw [hinst] at hj; cases hj
    exact ⟨rfl, rfl, ha2⟩
  · show t2.dangling = false
    rw [R12.dangling]; exact hd

/-- `tickit_destroy`: the root window and the terminal are released, the watches are freed. -/
theorem instDestroy_ok {tc : TCfg} (R : Repaired tc.base) (hrf : tc.rootForgetsTickit = true) {top : Top} {i : Inst}
    (F : FInv instGhost top) (hsw : SwPre top) (hi : top.inst = some i) (ha : i.appRefs = 0) (hd : top.dangling = false) :
    ∃ top1, instDestroy tc top = .ok top1 ∧ TopPre top1 ∧ (∃ j, top1.inst = some j ∧ j.freed = true) ∧
      SwSame top top1 ∧ EndRel top.st top1.st := by
  rw [instDestroy_eq]
  by_cases hr : rootAlive top.st = true
  · rw [if_pos hr]
    obtain ⟨r, hrl⟩ := rootAlive_live hr
    obtain ⟨st1, hu, inv1, hsz1, hfr1, hmono1⟩ := unrefW_ghost R (gh' := Ghost.none.addTerm) F.inv hrl rfl rfl
      (fun j hj => by simp [instGhost, hj]) (fun _ => .inl rfl)
    simp only [hu, bind_ok]
    obtain ⟨F1, R1, _⟩ := sync_ok (top := { top with st := st1, dangling := rootAlive st1 && !tc.rootForgetsTickit }) inv1
      (unrefW_keeps F.keep hu) F.ids
    have Rx : Rest top ({ top with st := st1, dangling := rootAlive st1 && !tc.rootForgetsTickit } : Top) :=
      ⟨InstRel.refl _, by show (rootAlive st1 && !tc.rootForgetsTickit) = top.dangling; rw [hrf, hd]; simp,
       rfl, rfl, rfl, rfl, rfl, rfl, rfl, rfl, rfl, rfl, fun _ h => h, Nat.le_refl _⟩
    obtain ⟨top1, h1, P1, hj, S1, E1⟩ := destroyTail_ok F1 (Rx.trans R1) hsw hi ha hd
    refine ⟨top1, h1, P1, hj, S1, EndRel.trans ⟨unrefW_tally hu, ⟨hsz1, hfr1, hmono1⟩⟩ ?_⟩
    rw [sync_st] at E1
    exact E1
  · rw [if_neg hr]
    refine destroyTail_ok ⟨F.inv.reghost_win rfl ?_ (fun h => by cases h), F.keep, F.ids, F.root⟩ (Rest.refl top) hsw hi ha hd
    intro j w hl
    have : j ≠ 0 := by
      intro e; subst e
      exact hr (rootAlive_iff.2 ⟨w, hl⟩)
    simp [instGhost, this]

theorem instUnref_ok {tc : TCfg} (R : Repaired tc.base) (hrf : tc.rootForgetsTickit = true) {top : Top} (T : TopPre top)
    (hh : instHeld top = true) : ∃ top1, instUnref tc top = .ok top1 ∧ TopPre top1 ∧ SwSame top top1 ∧
      (∀ i j, top.inst = some i → top1.inst = some j → j.appRefs + 1 = i.appRefs ∧ (i.appRefs = 1 → j.freed = true)) ∧
      EndRel top.st top1.st ∧ (∃ j, top1.inst = some j) := by
  obtain ⟨i, hi, hf, hpos⟩ := instHeld_spec hh
  obtain ⟨hr1, hrc⟩ := T.inst.live i hi hf
  unfold instUnref
  rw [hi]
  simp only
  have hinst : (setInst top (fun i => { i with appRefs := i.appRefs - 1, refcount := i.refcount - 1 })).inst =
      some { i with appRefs := i.appRefs - 1, refcount := i.refcount - 1 } := by unfold setInst; rw [hi]; rfl
  by_cases hz : i.refcount - 1 = 0
  · rw [if_pos hz]
    have F : FInv instGhost (setInst top (fun i => { i with appRefs := i.appRefs - 1, refcount := i.refcount - 1 })) := by
      rw [← ghost_alive hi hf]; exact T.f.of_fields rfl rfl
    obtain ⟨top1, h1, P1, ⟨j, hj, hjf⟩, S1, E1⟩ := instDestroy_ok R hrf F (T.sw.of_same ⟨rfl, rfl, rfl, rfl, rfl⟩) hinst
      (by show i.appRefs - 1 = 0; omega) T.dangling
    refine ⟨top1, h1, P1, ⟨S1.sw, S1.first, S1.handler, S1.xterms, S1.fail⟩, ?_, E1, ⟨j, hj⟩⟩
    intro i' j' hi' hj'
    cases hi'
    rw [hj] at hj'; cases hj'
    have := P1.inst.dead j hj hjf
    exact ⟨by omega, fun _ => hjf⟩
  · rw [if_neg hz]
    refine ⟨_, rfl, T.pre_setInst hi hf _ hf ⟨by show 1 ≤ i.refcount - 1; omega,
      by show i.refcount - 1 = ((i.appRefs - 1 : Nat) : Int); omega⟩, ⟨rfl, rfl, rfl, rfl, rfl⟩, ?_, EndRel.refl _, ⟨_, hinst⟩⟩
    intro i' j' hi' hj'
    cases hi'
    rw [hinst] at hj'; cases hj'
    exact ⟨by show i.appRefs - 1 + 1 = i.appRefs; omega, fun h1 => by omega⟩

theorem iunref_ok {tc : TCfg} (R : Repaired tc.base) (hrf : tc.rootForgetsTickit = true) {top : Top} (T : TopInv top) :
    ∃ top1 r, xstepCore tc top .iunref = .ok (top1, r) ∧ TopPre top1 := by
  have e : xstepCore tc top .iunref = (if !instHeld top then pure (top, "skip") else okT (instUnref tc top)) := rfl
  rw [e]
  by_cases hh : instHeld top = true
  · rw [if_neg (by rw [hh]; simp)]
    obtain ⟨top1, h1, P1, _⟩ := instUnref_ok R hrf T.pre hh
    exact ⟨top1, "ok", okT_ok h1, P1⟩
  · rw [if_pos (not_true_of hh)]
    exact ⟨top, "skip", rfl, T.pre⟩

/-! ### `tickit_tick` -/

theorem live_of_rel {a b : Top} (h : InstRel a.inst b.inst) (hl : ∀ i, a.inst = some i → i.freed = false) :
    ∀ j, b.inst = some j → j.freed = false := by
  intro j hj
  cases ha : a.inst with
  | none => rw [ha, hj] at h; exact h.elim
  | some i => rw [ha, hj] at h; rw [h.1]; exact hl i ha

/-- `on_term_timeout`. -/
theorem onTermTimeout_ok {cfg : Cfg} (R : Repaired cfg) {gh : Ghost} {top : Top} (F : FInv gh top) (hg : 1 ≤ gh.term)
    (hlive : ∀ i, top.inst = some i → i.freed = false) :
    ∃ top', onTermTimeout cfg top = .ok top' ∧ FInv gh top' ∧ Rest top top' := by
  have hf : top.st.term.freed = false := term_live_of_ghost F.inv hg
  -- the timer for what is left of the timeout lies ahead: it is not due
  have tail : ∀ (t : Top) (msec : Int), msec ≠ 0 → FInv gh t → Rest top t → ∃ top',
      (if msec > -1 then
        (pure (setInst t (fun i => { i with timers := insertTimer i.timers (t.now + msec) .termTimeout })) : Out Top)
      else pure t) = .ok top' ∧ FInv gh top' ∧ Rest top top' := by
    intro t msec hm Ft Rt
    split
    · rename_i hpos
      refine ⟨_, rfl, Ft.of_fields rfl rfl, Rt.trans (setInst_rest t _ ?_ ?_)⟩
      · intro i hi
        refine ⟨rfl, rfl, rfl, fun hfr => ?_⟩
        have := live_of_rel Rt.inst hlive i hi
        rw [this] at hfr; cases hfr
      · intro i hi
        show ((insertTimer i.timers (t.now + msec) .termTimeout).filter _).length + _ ≤ _
        rw [filter_insertTimer_length]
        have : ¬ (t.now + msec ≤ t.now) := by omega
        simp only [this, decide_false, Bool.false_eq_true, if_false]
        omega
    · exact ⟨t, rfl, Ft, Rt⟩
  unfold onTermTimeout
  dsimp only
  by_cases h0 : getTimeout top = 0
  · simp only [h0, if_true]
    obtain ⟨t1, h1, F1, R1⟩ := withTermRef_ok F hf (f := timedOut cfg) (fun t Ft => timedOut_ok R Ft)
    simp only [h1, bind_ok]
    exact tail t1 (-1) (by decide) F1 R1
  · simp only [h0, if_false, pure_ok, bind_ok]
    exact tail top (getTimeout top) h0 F (Rest.refl top)

/-- A timer or a deferred call fires: a watch of the application (any actions), or the instance's own timer for the
    terminal's input timeout. -/
theorem fireItem_ok {cfg : Cfg} (R : Repaired cfg) {gh : Ghost} (hg : 1 ≤ gh.term) (timer : Bool) {top : Top} (F : FInv gh top)
    (hlive : ∀ i, top.inst = some i → i.freed = false) (w : WItem) :
    ∃ top', fireItem cfg timer top w = .ok top' ∧ FInv gh top' ∧ Rest top top' := by
  cases w with
  | app idx acts =>
    show ∃ top', runWatch cfg top _ acts = .ok top' ∧ _
    unfold runWatch
    obtain ⟨top1, h1, F1, R1⟩ := tActs_ok R acts (top := { top with st := { top.st with log := top.st.log ++ [if timer then s!"M{idx}" else s!"L{idx}"] } })
      ⟨F.inv.of_log _, F.keep.of_wx rfl, F.ids, F.root⟩
    exact ⟨top1, h1, F1, Rest.trans (by rest_rfl) R1⟩
  | termTimeout => exact onTermTimeout_ok R F hg hlive

theorem fireItems_ok {cfg : Cfg} (R : Repaired cfg) {gh : Ghost} (hg : 1 ≤ gh.term) (timer : Bool) {α : Type} (g : α → WItem) :
    ∀ (l : List α) {top : Top}, FInv gh top → (∀ i, top.inst = some i → i.freed = false) →
      ∃ top', l.foldlM (fun top e => fireItem cfg timer top (g e)) top = .ok top' ∧ FInv gh top' ∧ Rest top top'
  | [], top, F, _ => ⟨top, rfl, F, Rest.refl top⟩
  | a :: rest, top, F, hl => by
    obtain ⟨top1, h1, F1, R1⟩ := fireItem_ok R hg timer F hl (g a)
    obtain ⟨top2, h2, F2, R2⟩ := fireItems_ok R hg timer g rest F1 (live_of_rel R1.inst hl)
    exact ⟨top2, by rw [List.foldlM_cons, h1]; exact h2, F2, R1.trans R2⟩

/-- The loop of `tickit_evloop_invoke_timers` comes to an end within the bound `Top.pot`: every turn takes a due timer
    off the queue, and what its callback registers uses up the registrations that are left. -/
theorem invokeTimers_ok {cfg : Cfg} (R : Repaired cfg) {gh : Ghost} (hg : 1 ≤ gh.term) : ∀ (fuel : Nat) {top : Top}, FInv gh top →
    (∀ i, top.inst = some i → i.freed = false) → top.pot < fuel →
    ∃ top', invokeTimers cfg fuel top = .ok top' ∧ FInv gh top' ∧ Rest top top'
  | 0, _, _, _, h => absurd h (Nat.not_lt_zero _)
  | fuel + 1, top, F, hl, hp => by
    unfold invokeTimers
    cases hi : top.inst with
    | none => exact ⟨top, rfl, F, Rest.refl top⟩
    | some i =>
      have hget : top.inst.getD {} = i := by rw [hi]; rfl
      cases ht : i.timers with
      | nil =>
        refine ⟨top, ?_, F, Rest.refl top⟩
        show (match i.timers with
          | [] => (pure top : Out Top)
          | e :: rest => if e.1 > top.now then pure top else do
              let top ← fireItem cfg true (setInst top (fun i => { i with timers := rest })) e.2
              invokeTimers cfg fuel top) = _
        rw [ht]
        rfl
      | cons e rest =>
        show ∃ top', (match i.timers with
          | [] => (pure top : Out Top)
          | e :: rest => if e.1 > top.now then pure top else do
              let top ← fireItem cfg true (setInst top (fun i => { i with timers := rest })) e.2
              invokeTimers cfg fuel top) = .ok top' ∧ _
        rw [ht]
        dsimp only
        by_cases hd : e.1 > top.now
        · rw [if_pos hd]; exact ⟨top, rfl, F, Rest.refl top⟩
        · rw [if_neg hd]
          have hfi : i.freed = false := hl i hi
          have hdue : decide (e.1 ≤ top.now) = true := by simp only [decide_eq_true_eq]; omega
          have hcount : ((e :: rest).filter (fun e => decide (e.1 ≤ top.now))).length =
              (rest.filter (fun e => decide (e.1 ≤ top.now))).length + 1 := by
            rw [List.filter_cons, if_pos hdue]; rfl
          have R01 : Rest top (setInst top (fun i => { i with timers := rest })) := by
            refine setInst_rest top _ ?_ ?_
            · intro j hj; rw [hi] at hj; cases hj
              exact ⟨rfl, rfl, rfl, fun h => by rw [hfi] at h; cases h⟩
            · intro j hj; rw [hi] at hj; cases hj
              show (rest.filter (fun e => decide (e.1 ≤ top.now))).length + (watchCap - i.nW) ≤
                (i.timers.filter (fun e => decide (e.1 ≤ top.now))).length + (watchCap - i.nW)
              rw [ht, hcount]; omega
          have hp1 : (setInst top (fun i => { i with timers := rest })).pot + 1 ≤ top.pot := by
            rw [pot_some (setInst_inst hi _), pot_some hi]
            show (rest.filter (fun e => decide (e.1 ≤ top.now))).length + (watchCap - i.nW) + 1 ≤
              (i.timers.filter (fun e => decide (e.1 ≤ top.now))).length + (watchCap - i.nW)
            rw [ht, hcount]; omega
          obtain ⟨t2, h2, F2, R12⟩ := fireItem_ok R hg true (top := setInst top (fun i => { i with timers := rest }))
            (F.of_fields rfl rfl) (live_of_rel R01.inst hl) e.2
          have R02 := R01.trans R12
          obtain ⟨t3, h3, F3, R23⟩ := invokeTimers_ok R hg fuel F2 (live_of_rel R02.inst hl) (by have := R12.pot; omega)
          refine ⟨t3, ?_, F3, R02.trans R23⟩
          rw [h2]
          exact h3

/-- When the loop of `tickit_evloop_invoke_timers` ends, the head of the queue is not due - whatever the callbacks have put
    there meanwhile: a timer a callback registers for an instant that has passed is run by the same call. -/
theorem invokeTimers_head (cfg : Cfg) : ∀ (fuel : Nat) (top top' : Top), invokeTimers cfg fuel top = .ok top' →
    ∀ e rest, (top'.inst.getD {}).timers = e :: rest → e.1 > top'.now
  | 0, _, _, h => by cases h
  | fuel + 1, top, top', h => by
    intro e rest he
    unfold invokeTimers at h
    cases ht : (top.inst.getD {}).timers with
    | nil =>
      rw [ht] at h
      cases h
      rw [ht] at he; cases he
    | cons e0 rest0 =>
      rw [ht] at h
      dsimp only at h
      by_cases hd : e0.1 > top.now
      · rw [if_pos hd] at h
        cases h
        rw [ht] at he; cases he
        exact hd
      · rw [if_neg hd] at h
        cases hf : fireItem cfg true (setInst top (fun i => { i with timers := rest0 })) e0.2 with
        | ok t2 =>
          rw [hf] at h
          exact invokeTimers_head cfg fuel t2 top' h e rest he
        | ub k w => rw [hf] at h; cases h
        | fuel => rw [hf] at h; cases h

/-- What `tickit_tick` does once the root window has been flushed. -/
def tickTail (cfg : Cfg) (top : Top) (toks : List Tok) : Out Top := do
  let i := top.inst.getD {}
  let later := i.laters
  let top := setInst top (fun i => { i with laters := [] })
  let top ← invokeTimers cfg (top.pot + 1) top
  let top ← later.foldlM (fireItem cfg false) top
  if toks.isEmpty then pure top
  else do
    let top ← match getKeys cfg (termRefI top) toks with
      | some r => do
        let top ← r
        termUnrefI top
      | none => pure top
    onTermTimeout cfg top

theorem tickTail_ok {cfg : Cfg} (R : Repaired cfg) {gh : Ghost} (hg : 1 ≤ gh.term) {top : Top} (F : FInv gh top)
    (hlive : ∀ i, top.inst = some i → i.freed = false) (toks : List Tok) :
    ∃ top', tickTail cfg top toks = .ok top' ∧ FInv gh top' ∧ Rest top top' := by
  unfold tickTail
  dsimp only
  have R0 : Rest top (setInst top (fun i => { i with laters := [] })) := by
    refine setInst_rest top _ ?_ ?_
    · intro i hi
      refine ⟨rfl, rfl, rfl, fun hfr => ?_⟩
      rw [hlive i hi] at hfr; cases hfr
    · intro i _; exact Nat.le_refl _
  obtain ⟨t1, h1, F1, R1⟩ := invokeTimers_ok R hg ((setInst top (fun i => { i with laters := [] })).pot + 1)
    (top := setInst top (fun i => { i with laters := [] }))
    (F.of_fields rfl rfl) (live_of_rel R0.inst hlive) (Nat.lt_succ_self _)
  simp only [h1, bind_ok]
  have R01 := R0.trans R1
  obtain ⟨t2, h2, F2, R2⟩ := fireItems_ok R hg false (fun (e : WItem) => e) (top.inst.getD {}).laters F1 (live_of_rel R01.inst hlive)
  simp only [h2, bind_ok]
  have R02 := R01.trans R2
  split
  · exact ⟨t2, rfl, F2, R02⟩
  · have hf2 : t2.st.term.freed = false := term_live_of_ghost F2.inv hg
    cases hgk : getKeys cfg (termRefI t2) toks with
    | none =>
      simp only [pure_ok, bind_ok]
      obtain ⟨t4, h4, F4, R4⟩ := onTermTimeout_ok R F2 hg (live_of_rel R02.inst hlive)
      exact ⟨t4, h4, F4, R02.trans R4⟩
    | some r =>
      obtain ⟨t3, h3, F3, R3⟩ := getKeysRef_ok R F2 hf2 toks hgk
      have R03 := R02.trans R3
      obtain ⟨t4, h4, F4, R4⟩ := onTermTimeout_ok R F3 hg (live_of_rel R03.inst hlive)
      refine ⟨t4, ?_, F4, R03.trans R4⟩
      simp only
      cases hr : r with
      | ok tr =>
        rw [hr] at h3
        simp only [bind_ok] at h3 ⊢
        rw [h3]
        exact h4
      | ub k w => rw [hr] at h3; cases h3
      | fuel => rw [hr] at h3; cases h3

theorem itick_eq (tc : TCfg) (top : Top) (toks : List Tok) : xstepCore tc top (.itick toks) =
    (if !instHeld top then pure (top, "skip")
     else match decode top.pendingEsc top.held toks [] with
      | none => pure (top, "unsupported-input")
      | some _ => okT (if rootAlive top.st then do
            let st ← liftT top.st (flushT top.st.tree)
            tickTail tc.base { top with st := st } toks
          else tickTail tc.base top toks)) := by
  show (if !instHeld top then _ else match decode top.pendingEsc top.held toks [] with | none => _ | some _ => _) = _
  split
  · rfl
  · split
    · rfl
    · unfold tickTail
      dsimp only
      split <;> rfl

/-- `tickit_tick` (the root window flushed first): due timers, deferred calls, the terminal's input, its timeout. -/
theorem itick_ok {tc : TCfg} (R : Repaired tc.base) {top : Top} (T : TopInv top) (toks : List Tok) :
    ∃ top1 r, xstepCore tc top (.itick toks) = .ok (top1, r) ∧ TopPre top1 := by
  rw [itick_eq]
  by_cases hh : instHeld top = true
  · rw [if_neg (by rw [hh]; simp)]
    obtain ⟨i, hi, hfi, _⟩ := instHeld_spec hh
    have hgh : top.ghost = instGhost := ghost_alive hi hfi
    have hg : 1 ≤ top.ghost.term := by rw [hgh]; decide
    have hlive : ∀ j, top.inst = some j → j.freed = false := by intro j hj; rw [hi] at hj; cases hj; exact hfi
    split
    · exact ⟨top, _, rfl, T.pre⟩
    · by_cases hr : rootAlive top.st = true
      · rw [if_pos hr]
        obtain ⟨r, hrl⟩ := rootAlive_live hr
        obtain ⟨t', hq, inv', hrel, _, _, hrc⟩ := flushT_ok T.f.inv.tinv hrl
        simp only [liftT_ok hq, bind_ok]
        have F0 : FInv top.ghost { top with st := { top.st with tree := t' } } := by
          refine ⟨T.f.inv.of_rel' inv' hrel hrc, T.f.keep.of_wx rfl, T.f.ids, ?_⟩
          intro b hb hna
          have := T.f.root b hb hna
          obtain ⟨r0, hr0⟩ := rootAlive_live this
          obtain ⟨r1, hr1, _⟩ := hrel.live hr0
          exact rootAlive_iff.2 ⟨r1, hr1⟩
        obtain ⟨t1, h1, F1, R1⟩ := tickTail_ok R hg F0 hlive toks
        exact ⟨t1, "ok", okT_ok h1, T.pre_of_rest (Rest.trans (by rest_rfl) R1) F1⟩
      · rw [if_neg hr]
        obtain ⟨t1, h1, F1, R1⟩ := tickTail_ok R hg T.f hlive toks
        exact ⟨t1, "ok", okT_ok h1, T.pre_of_rest R1 F1⟩
  · rw [if_pos (not_true_of hh)]
    exact ⟨top, "skip", rfl, T.pre⟩

/-! ### `tickit_mockterm_resize` -/

/-- `on_term_resize` of the root window. -/
theorem onTermResize_ok {gh : Ghost} {top : Top} (F : FInv gh top) (hr : rootAlive top.st = true) (lines cols : Int) :
    ∃ top', onTermResize top lines cols = .ok top' ∧ FInv gh top' ∧ Rest top top' := by
  obtain ⟨r, hrl⟩ := rootAlive_live hr
  unfold onTermResize
  simp only [getW, get_live hrl, bind_ok]
  obtain ⟨t', hq, inv', hrel, hrc⟩ := setGeomT_ok F.inv.tinv hrl ⟨r.rect.top, r.rect.left, lines, cols⟩
  simp only [hq, bind_ok]
  obtain ⟨r', hrl', _⟩ := hrel.live hrl
  have hex : ∀ e, exposeWalk t' (chainFuel t') 0 e = .ok () := fun e => exposeWalk_ok inv' 0 r' hrl' _ (chainFuel_gt hrl') e
  have F' : FInv gh { top with st := { top.st with tree := t' } } := by
    refine ⟨F.inv.of_rel' inv' hrel hrc, F.keep.of_wx rfl, F.ids, ?_⟩
    intro b hb hna
    exact rootAlive_iff.2 ⟨r', hrl'⟩
  refine ⟨{ top with st := { top.st with tree := t' } }, ?_, F', by rest_rfl⟩
  split <;> split <;> simp only [hex, bind_ok, pure_ok]

theorem mresize_ok {tc : TCfg} {top : Top} (T : TopInv top) (lines cols : Int) :
    ∃ top1 r, xstepCore tc top (.mresize lines cols) = .ok (top1, r) ∧ TopPre top1 := by
  have e : xstepCore tc top (.mresize lines cols) =
      (if !top.mock || !heldT top.st then pure (top, "skip")
       else do
        let top := { top with screen := top.screen.map (fun scr => (mockResize scr lines cols).compact) }
        let top ← termSetSize top lines cols
        pure (top, s!"ok size={lines}x{cols}")) := rfl
  rw [e]
  by_cases hc : (!top.mock || !heldT top.st) = true
  · rw [if_pos hc]
    exact ⟨top, "skip", rfl, T.pre⟩
  · rw [if_neg hc]
    have hh : heldT top.st = true := by
      cases h : heldT top.st
      · rw [h] at hc; simp at hc
      · rfl
    have F0 : FInv top.ghost { top with screen := top.screen.map (fun scr => (mockResize scr lines cols).compact) } :=
      T.f.of_fields rfl rfl
    have hts : ∃ t1, termSetSize { top with screen := top.screen.map (fun scr => (mockResize scr lines cols).compact) } lines cols = .ok t1 ∧
        FInv top.ghost t1 ∧ Rest top t1 := by
      unfold termSetSize
      split
      · exact ⟨_, rfl, F0, by rest_rfl⟩
      · obtain ⟨t1, h1, F1, R1⟩ := withTermRef_ok (top := { top with screen := top.screen.map (fun scr => (mockResize scr lines cols).compact), size := (lines, cols) })
          (F0.of_fields rfl rfl) (heldT_live hh)
          (f := fun top => if rootAlive top.st && top.tbinds.any (fun b => b.kind = .rootResize) then onTermResize top lines cols else pure top)
          (fun t Ft => by
            show ∃ t', (if (rootAlive t.st && t.tbinds.any (fun b => b.kind = .rootResize)) = true then onTermResize t lines cols else pure t) = .ok t' ∧ _
            split
            · rename_i hcnd
              rw [Bool.and_eq_true] at hcnd
              exact onTermResize_ok Ft hcnd.1 lines cols
            · exact ⟨t, rfl, Ft, Rest.refl t⟩)
        exact ⟨t1, h1, F1, Rest.trans (by rest_rfl) R1⟩
    obtain ⟨t1, h1, F1, R1⟩ := hts
    simp only [h1, bind_ok, pure_ok]
    exact ⟨t1, _, rfl, T.pre_of_rest R1 F1⟩

/-! ## one operation, any history -/

/-- The repairs of this layer the theorems need. -/
structure TRepaired (tc : TCfg) : Prop where
  base : Repaired tc.base
  sigwinch : tc.sigwinchClearsNext = true
  setInputFd : tc.setInputFdClearsTermkey = true
  rootForgets : tc.rootForgetsTickit = true

/-- The operations the theorems of this layer cover: everything `no_ub` covers in the lower layers (with `bind` of
    window handlers that free nothing), key and mouse events, the terminal's bindings (handlers with any actions:
    `tickit_window_unref` of any window, `tickit_term_unref` included) and input entry points, the clock, the toplevel
    instance with its watches and `tickit_tick`, the further terminals and the SIGWINCH observers,
    `tickit_term_set_input_fd`, printing on and resizing the mock terminal.  Not covered: what the lower layers'
    theorems leave out (`focus`, drawing into a render buffer, `mdisp`); `end` has its own theorem. -/
def XOp.covered : XOp → Prop
  | .base op => op.topOk ∨ op = .key ∨ (∃ m, op = .mouse m) ∨ (∃ l c m, op = .newTerm l c m)
  | _ => True

theorem xstepCore_ok {tc : TCfg} (R : TRepaired tc) {top : Top} (T : TopInv top) (op : XOp) (h : op.covered) :
    ∃ top1 r, xstepCore tc top op = .ok (top1, r) ∧ TopPre top1 := by
  cases op with
  | base op =>
    rcases h with h | h | ⟨m, h⟩ | ⟨l, c, m, h⟩
    · exact base_generic_ok R.base T op h
    · subst h; exact base_key_ok R.base T
    · subst h; exact base_mouse_ok R.base T m
    · subst h; exact newTerm_ok top l c m
  | mprint line col bytes => exact mprint_ok T line col bytes
  | newin lines cols => exact newin_ok top lines cols
  | tbind ev ret acts => exact tbind_ok T ev ret acts
  | tunbind id => exact tunbind_ok T id
  | tpush toks => exact tpush_ok R.base T toks
  | tread toks => exact tread_ok R.base T toks
  | twait toks tv => exact twait_ok R.base T toks tv
  | tcheck => exact tcheck_ok R.base T
  | tick ms => exact tick_ok T ms
  | newtop lines cols => exact newtop_ok top lines cols
  | iref => exact iref_ok T
  | iunref => exact iunref_ok R.base R.rootForgets T
  | ilater acts => exact ilater_ok T acts
  | itimer ms acts => exact itimer_ok T ms acts
  | itimerat at_ acts => exact itimerat_ok T at_ acts
  | icancel k => exact icancel_ok T k
  | itick toks => exact itick_ok R.base T toks
  | mresize lines cols => exact mresize_ok T lines cols
  | xnew =>
    obtain ⟨top1, r, hs, ns, ok⟩ := xstepCore_sw R.sigwinch T.sw .xnew rfl
    exact ⟨top1, r, hs, ⟨by rw [ghost_of_inst (InstRel.of_eq ns.inst)]; exact T.f.of_fields ns.st ns.tbinds, ok.pre,
      T.inst.of_rel (InstRel.of_eq ns.inst), by rw [ns.dangling]; exact T.dangling⟩⟩
  | xref k =>
    obtain ⟨top1, r, hs, ns, ok⟩ := xstepCore_sw R.sigwinch T.sw (.xref k) rfl
    exact ⟨top1, r, hs, ⟨by rw [ghost_of_inst (InstRel.of_eq ns.inst)]; exact T.f.of_fields ns.st ns.tbinds, ok.pre,
      T.inst.of_rel (InstRel.of_eq ns.inst), by rw [ns.dangling]; exact T.dangling⟩⟩
  | xunref k =>
    obtain ⟨top1, r, hs, ns, ok⟩ := xstepCore_sw R.sigwinch T.sw (.xunref k) rfl
    exact ⟨top1, r, hs, ⟨by rw [ghost_of_inst (InstRel.of_eq ns.inst)]; exact T.f.of_fields ns.st ns.tbinds, ok.pre,
      T.inst.of_rel (InstRel.of_eq ns.inst), by rw [ns.dangling]; exact T.dangling⟩⟩
  | xobs k on =>
    obtain ⟨top1, r, hs, ns, ok⟩ := xstepCore_sw R.sigwinch T.sw (.xobs k on) rfl
    exact ⟨top1, r, hs, ⟨by rw [ghost_of_inst (InstRel.of_eq ns.inst)]; exact T.f.of_fields ns.st ns.tbinds, ok.pre,
      T.inst.of_rel (InstRel.of_eq ns.inst), by rw [ns.dangling]; exact T.dangling⟩⟩
  | tobs on =>
    obtain ⟨top1, r, hs, ns, ok⟩ := xstepCore_sw R.sigwinch T.sw (.tobs on) rfl
    exact ⟨top1, r, hs, ⟨by rw [ghost_of_inst (InstRel.of_eq ns.inst)]; exact T.f.of_fields ns.st ns.tbinds, ok.pre,
      T.inst.of_rel (InstRel.of_eq ns.inst), by rw [ns.dangling]; exact T.dangling⟩⟩
  | winch =>
    obtain ⟨top1, r, hs, ns, ok⟩ := xstepCore_sw R.sigwinch T.sw .winch rfl
    exact ⟨top1, r, hs, ⟨by rw [ghost_of_inst (InstRel.of_eq ns.inst)]; exact T.f.of_fields ns.st ns.tbinds, ok.pre,
      T.inst.of_rel (InstRel.of_eq ns.inst), by rw [ns.dangling]; exact T.dangling⟩⟩
  | tsetin => exact tsetin_ok R.setInputFd T

/-- One covered operation from a state satisfying the invariant: it succeeds and the invariant holds again. -/
theorem xstep_top_ok {tc : TCfg} (R : TRepaired tc) {top : Top} (T : TopInv top) (op : XOp) (h : op.covered) :
    ∃ top' r, xstep tc top op = .ok (top', r) ∧ TopInv top' := by
  obtain ⟨top1, r, hs, P1⟩ := xstepCore_ok R T op h
  obtain ⟨hx, T'⟩ := xstep_ok R.sigwinch hs P1
  exact ⟨_, r, hx, T'⟩

theorem xrun_top_ok {tc : TCfg} (R : TRepaired tc) : ∀ (ops : List XOp) (top : Top), TopInv top → (∀ op ∈ ops, op.covered) →
    ∃ top', xrunOps tc top ops = .ok top' ∧ TopInv top'
  | [], top, T, _ => ⟨top, rfl, T⟩
  | op :: rest, top, T, h => by
    obtain ⟨top1, r, hs, T1⟩ := xstep_top_ok R T op (h op (by simp))
    obtain ⟨top', hr, T'⟩ := xrun_top_ok R rest top1 T1 (fun o ho => h o (by simp [ho]))
    refine ⟨top', ?_, T'⟩
    unfold xrunOps
    rw [hs]
    exact hr

/-- The operations a history starts with. -/
theorem xstep_start_ok {tc : TCfg} (R : TRepaired tc) (top : Top) (op : XOp) (h : op.isNew = true) :
    ∃ top' r, xstep tc top op = .ok (top', r) ∧ TopInv top' := by
  have : ∃ top1 r, xstepCore tc top op = .ok (top1, r) ∧ TopPre top1 := by
    cases op <;> simp only [XOp.isNew, Bool.false_eq_true] at h
    case base op =>
      cases op <;> simp only [Bool.false_eq_true] at h
      case newTerm l c m => exact newTerm_ok top l c m
    case newin l c => exact newin_ok top l c
    case newtop l c => exact newtop_ok top l c
  obtain ⟨top1, r, hs, P1⟩ := this
  obtain ⟨hx, T'⟩ := xstep_ok R.sigwinch hs P1
  exact ⟨_, r, hx, T'⟩

theorem xrun_from_start {tc : TCfg} (R : TRepaired tc) (start : XOp) (hstart : start.isNew = true) (ops : List XOp)
    (h : ∀ op ∈ ops, op.covered) : ∃ top', xrunOps tc {} (start :: ops) = .ok top' ∧ TopInv top' := by
  obtain ⟨top1, r, hs, T1⟩ := xstep_start_ok R {} start hstart
  obtain ⟨top', hr, T'⟩ := xrun_top_ok R ops top1 T1 h
  refine ⟨top', ?_, T'⟩
  unfold xrunOps
  rw [hs]
  exact hr

/-- Between two operations the library holds a reference of its own on the root window at most: every window's count
    is known exactly. -/
theorem ghost_covers (top : Top) (i : Nat) : top.ghost.covers i := by
  unfold Top.ghost
  cases top.inst with
  | none => exact .inr rfl
  | some j =>
    simp only
    split
    · exact .inr rfl
    · by_cases h0 : i = 0
      · exact .inl h0
      · exact .inr (by simp [instGhost, h0])

theorem TopInv.exact {top : Top} (T : TopInv top) (i : Nat) (w : Win) (hl : LiveW top.st.tree i w) :
    w.refcount = ((getX top.st i).appRefs : Int) + (top.ghost.win i : Int) := by
  have h1 := (T.f.inv.wref i w hl).1
  have h2 := (T.f.inv.wref i w hl).2 (ghost_covers top i)
  omega

/-- What the invariant says about the objects this layer adds. -/
theorem TopInv.facts {top : Top} (T : TopInv top) :
    -- the terminal's binding list holds the root window's handlers only while the root window lives
    (∀ b ∈ top.tbinds, b.isApp = false → rootAlive top.st = true) ∧
    -- while the toplevel instance lives, so do the terminal and the root window it refers to, and the instance's count is
    -- the application's
    (∀ i, top.inst = some i → i.freed = false → top.st.term.freed = false ∧ 1 ≤ top.st.term.refcount ∧
      rootAlive top.st = true ∧ 1 ≤ i.refcount ∧ i.refcount = (i.appRefs : Int)) ∧
    -- a destroyed instance has no watch left and nobody holds a reference to it
    (∀ i, top.inst = some i → i.freed = true → i.laters = [] ∧ i.timers = [] ∧ i.appRefs = 0) ∧
    -- a terminal the application still refers to has not been freed
    (top.st.term.freed = true → top.st.term.appRefs = 0) := by
  refine ⟨T.f.root, ?_, T.inst.dead, fun hf => (T.f.inv.term_dead hf).2.1⟩
  intro i hi hf
  have hg : top.ghost = instGhost := ghost_alive hi hf
  have hlive : top.st.term.freed = false := term_live_of_ghost T.f.inv (by rw [hg]; decide)
  have hroot : rootAlive top.st = true := rootAlive_iff.2 (T.f.inv.glive (by rw [hg]; decide))
  refine ⟨hlive, ?_, hroot, T.inst.live i hi hf⟩
  by_cases hr : ∃ r, LiveW top.st.tree 0 r
  · have := T.f.inv.term_held hlive (.inl hr); omega
  · exact (T.f.inv.term_free hlive (by rintro (h' | h'); exact hr h'; simp at h')).2

end Tickit.Life
