import Tickit.Proof.WinNodup
/-
  Pen inheritance in `_do_expose`: every handler invocation of a flush finds the render buffer carrying the *merged pen*
  of its window (`WinSpec.mergedPen`: the window pens laid over each other down the parent chain), so the proviso of C01
  only needs to hold for buffers with that pen (`WinSpec.RepaintsP`): a handler may rely on the pen it inherits.

    * `doExpose_pen` / `exposeRects_pen` / `flushRender_pen`: the invariant of the buffer's pen and of the pen saved in the
      top frame through `applyWinPen` (`setpen` lays the window's pen over the *saved* pen), `save`, the recursion,
      `restore` (the saved pen comes back, whatever the handler's own `setpen`s did) and the children loop;
    * `applyChanges_parents`: the restacking requests applied at the head of a flush only reorder child lists, so the
      merged pens are those of the tree the flush started from;
    * `flush_shots_pen`, `goodQ_flush_pen`, `goodQ_flushX_pen`: the flush theorems of `Proof/WinFull.lean` /
      `Proof/WinNodup.lean` under `RepaintsP`.
-/
namespace Tickit
namespace WinFlush
open WinTree WinRB WinSpec

/-- A listed child names the window that lists it as its parent (half of `WFp`). -/
def ChildParent (t : Tree) : Prop :=
  ∀ (cur : Id) (w : Win), t.wins[cur]? = some w → ∀ ch ∈ w.children, ∃ cw : Win, t.wins[ch]? = some cw ∧ cw.parent = some cur

theorem WFp.childParent {t : Tree} (h : WFp t) : ChildParent t := by
  intro cur w hw ch hch
  obtain ⟨cw, a, b, _⟩ := h.child cur w hw ch hch
  exact ⟨cw, a, b⟩

/-- The handler of this invocation found the buffer carrying the merged pen of its window. -/
def PenOk (t : Tree) (pens : Array (Option Pen)) (M : Nat) (sh : Shot) : Prop :=
  sh.rb.pen = mergedPen t pens (M + 1) sh.win

theorem mergedPen_succ (t : Tree) (pens : Array (Option Pen)) (k : Nat) (w : Id) :
    mergedPen t pens (k + 1) w = penOver (winPen pens w)
      (match t.wins[w]? with
       | some ww => (match ww.parent with
         | some p => mergedPen t pens k p
         | none => {})
       | none => {}) := rfl

/-- The merged pens only read the parent pointers. -/
theorem mergedPen_congr (t1 t2 : Tree) (pens : Array (Option Pen))
    (h : ∀ x : Id, (t1.wins[x]?).map (fun w => w.parent) = (t2.wins[x]?).map (fun w => w.parent)) :
    ∀ (n : Nat) (w : Id), mergedPen t1 pens n w = mergedPen t2 pens n w := by
  intro n
  induction n with
  | zero => intro w; rfl
  | succ k ih =>
    intro w
    rw [mergedPen_succ, mergedPen_succ]
    have := h w
    cases h1 : t1.wins[w]? with
    | none =>
      rw [h1] at this
      cases h2 : t2.wins[w]? with
      | none => rfl
      | some w2 => rw [h2] at this; cases this
    | some w1 =>
      rw [h1] at this
      cases h2 : t2.wins[w]? with
      | none => rw [h2] at this; cases this
      | some w2 =>
        rw [h2] at this
        simp only [Option.map_some, Option.some.injEq] at this
        simp only [this]
        cases w2.parent with
        | none => rfl
        | some p => simp only [ih p]

/-- `if(win->pen) tickit_renderbuffer_setpen(rb, win->pen)` when the buffer's pen is the pen saved in the top frame. -/
theorem applyWinPen_pen (pens : Array (Option Pen)) (win : Id) (rb : RB) (base : Pen) (f : Frame) (rest : List Frame)
    (hpen : rb.pen = base) (hst : rb.stack = f :: rest) (hf : f.pen = base) :
    (applyWinPen pens win rb).pen = penOver (winPen pens win) base ∧ (applyWinPen pens win rb).stack = rb.stack := by
  unfold applyWinPen
  cases winPen pens win with
  | none => exact ⟨hpen, rfl⟩
  | some p => exact ⟨by simp only [RB.setpen, hst, penOver, hf], rfl⟩

/-- The children loop keeps the buffer's pen and hands every child the parent's merged pen. -/
theorem doChildren_pen (t : Tree) (beh : Id → Rect → List DrawOp) (pens : Array (Option Pen)) (M n : Nat) (rect : Rect)
    (mp : Pen) (win : Id)
    (ih : ∀ (c : Id) (r : Rect) (s s' : RB × List Shot) (base : Pen), doExpose beh t pens n c r s = .ok s' →
      s.1.pen = base → (∃ f rest, s.1.stack = f :: rest ∧ f.pen = base) →
      (∀ k, M + 1 ≤ k + n → mergedPen t pens (k + 1) c = penOver (winPen pens c) base) →
      (∀ sh ∈ s.2, PenOk t pens M sh) → s'.1.stack = s.1.stack ∧ ∀ sh ∈ s'.2, PenOk t pens M sh)
    (hwin : ∀ k, M + 1 ≤ k + (n + 1) → mergedPen t pens (k + 1) win = mp) (hn : n ≤ M) :
    ∀ (cs : List Id) (s s' : RB × List Shot), doChildren t (doExpose beh t pens n) rect cs s = .ok s' →
      (∀ c ∈ cs, ∃ cw : Win, t.wins[c]? = some cw ∧ cw.parent = some win) → s.1.pen = mp →
      (∀ sh ∈ s.2, PenOk t pens M sh) →
      s'.1.stack = s.1.stack ∧ s'.1.pen = mp ∧ ∀ sh ∈ s'.2, PenOk t pens M sh := by
  intro cs
  induction cs with
  | nil => intro s s' h _ hpen hp; simp only [doChildren] at h; cases h; exact ⟨rfl, hpen, hp⟩
  | cons c cs ihcs =>
    intro s s' h hpar hpen hp
    have hpar' : ∀ c' ∈ cs, ∃ cw : Win, t.wins[c']? = some cw ∧ cw.parent = some win :=
      fun c' hc' => hpar c' (List.mem_cons_of_mem _ hc')
    simp only [doChildren] at h
    cases hg : WinTree.get t c with
    | ub w => rw [hg] at h; cases h
    | ok cw =>
      rw [hg] at h
      simp only [bind, Bind.bind] at h
      cases hv : cw.isVisible with
      | false => simp only [hv] at h; exact ihcs s s' h hpar' hpen hp
      | true =>
        simp only [hv] at h
        cases hi : Rect.intersect rect cw.rect with
        | none =>
          rw [hi] at h
          simp only [pure, Pure.pure] at h
          exact ihcs (s.1.mask cw.rect, s.2) s' h hpar' hpen hp
        | some exposed =>
          rw [hi] at h
          simp only [bind, Bind.bind, pure, Pure.pure] at h
          generalize hrb1 : ((s.1.save).clipTo exposed).translate cw.rect.top cw.rect.left = rb1 at h
          cases hrec : doExpose beh t pens n c (exposed.translate (-cw.rect.top) (-cw.rect.left)) (rb1, s.2) with
          | ub w => rw [hrec] at h; cases h
          | ok s2 =>
            rw [hrec] at h
            simp only at h
            have h1pen : rb1.pen = mp := by rw [← hrb1, ← hpen]; simp [RB.translate, RB.save]
            have h1stack : rb1.stack =
                { xl := s.1.xl, xc := s.1.xc, clip := s.1.clip, pen := s.1.pen, penOnly := false } :: s.1.stack := by
              rw [← hrb1]; simp [RB.translate, RB.save]
            obtain ⟨cw', hcw', hcp⟩ := hpar c List.mem_cons_self
            have hchild : ∀ k, M + 1 ≤ k + n → mergedPen t pens (k + 1) c = penOver (winPen pens c) mp := by
              intro k hk
              cases k with
              | zero => omega
              | succ k' =>
                rw [mergedPen_succ, hcw']
                simp only [hcp]
                rw [hwin k' (by omega)]
            obtain ⟨hst2, hp2⟩ := ih c _ (rb1, s.2) s2 mp hrec h1pen ⟨_, _, h1stack, hpen⟩ hchild hp
            have hst2' : s2.1.stack =
                { xl := s.1.xl, xc := s.1.xc, clip := s.1.clip, pen := s.1.pen, penOnly := false } :: s.1.stack := by
              rw [hst2]; exact h1stack
            obtain ⟨_, _, _, hr_pen, hr_stack, _⟩ := restore_of_save_frame s.1 s2.1 s.1.stack hst2'
            obtain ⟨a, b, c'⟩ := ihcs (s2.1.restore.mask cw.rect, s2.2) s' h hpar'
              (by show s2.1.restore.pen = mp; rw [hr_pen]; exact hpen) hp2
            exact ⟨by rw [a]; exact hr_stack, b, c'⟩

/-- **The pen invariant of `_do_expose`**: entered with the buffer's pen and the pen saved in the top frame both equal to
    the merged pen `base` of the window's parent (the empty pen for the root), every handler below finds the merged pen
    of its own window, and the save/restore stack is left as found. -/
theorem doExpose_pen (t : Tree) (beh : Id → Rect → List DrawOp) (pens : Array (Option Pen)) (M : Nat) (hcp : ChildParent t) :
    ∀ (fuel : Nat), fuel ≤ M + 1 → ∀ (win : Id) (rect : Rect) (s s' : RB × List Shot) (base : Pen),
      doExpose beh t pens fuel win rect s = .ok s' →
      s.1.pen = base → (∃ f rest, s.1.stack = f :: rest ∧ f.pen = base) →
      (∀ k, M + 1 ≤ k + fuel → mergedPen t pens (k + 1) win = penOver (winPen pens win) base) →
      (∀ sh ∈ s.2, PenOk t pens M sh) → s'.1.stack = s.1.stack ∧ ∀ sh ∈ s'.2, PenOk t pens M sh := by
  intro fuel
  induction fuel with
  | zero => intro _ win rect s s' base h; simp [doExpose] at h
  | succ n ih =>
    intro hfuel win rect s s' base h hpen hst hmp hp
    simp only [doExpose] at h
    cases hg : WinTree.get t win with
    | ub w => rw [hg] at h; cases h
    | ok w =>
      rw [hg] at h
      have hw := get_ok hg
      simp only [bind, Bind.bind] at h
      obtain ⟨f, rest, hstack, hf⟩ := hst
      obtain ⟨h0pen, h0stack⟩ := applyWinPen_pen pens win s.1 base f rest hpen hstack hf
      generalize hrb0 : applyWinPen pens win s.1 = rb0 at h h0pen h0stack
      cases hl : doChildren t (doExpose beh t pens n) rect w.children (rb0, s.2) with
      | ub e => rw [hl] at h; cases h
      | ok sl =>
        rw [hl] at h
        simp only [pure, Pure.pure] at h
        cases h
        obtain ⟨a, b, c⟩ := doChildren_pen t beh pens M n rect (penOver (winPen pens win) base) win
          (fun c r s s' base' => ih (by omega) c r s s' base') hmp (by omega) w.children (rb0, s.2) sl hl
          (fun c hc => hcp win w hw.1 c hc) h0pen hp
        refine ⟨?_, ?_⟩
        · show (sl.1.run (beh win rect)).stack = s.1.stack
          rw [run_stack (beh win rect) sl.1, a, h0stack]
        · intro sh hsh
          rcases List.mem_append.1 hsh with hsh | hsh
          · exact c sh hsh
          · simp only [List.mem_singleton] at hsh
            subst hsh
            show sl.1.pen = mergedPen t pens (M + 1) win
            rw [b, hmp M (by omega)]

/-- The loop over the damage rectangles: between two rectangles the buffer carries the empty pen. -/
theorem exposeRects_pen (t : Tree) (beh : Id → Rect → List DrawOp) (pens : Array (Option Pen)) (M : Nat) (hcp : ChildParent t)
    (hroot : ∀ w, t.wins[0]? = some w → w.parent = none) (bounds : Rect) :
    ∀ (rects : List Rect) (s s' : RB × List Shot), exposeRects beh t pens (M + 1) bounds rects s = .ok s' →
      s.1.pen = {} → (∀ sh ∈ s.2, PenOk t pens M sh) → s'.1.pen = {} ∧ ∀ sh ∈ s'.2, PenOk t pens M sh := by
  intro rects
  induction rects with
  | nil => intro s s' h hpen hp; simp only [exposeRects] at h; cases h; exact ⟨hpen, hp⟩
  | cons ρ0 rest ih =>
    intro s s' h hpen hp
    simp only [exposeRects] at h
    cases hi0 : Rect.intersect ρ0 bounds with
    | none => rw [hi0] at h; exact ih s s' h hpen hp
    | some ρ =>
      rw [hi0] at h
      simp only at h
      generalize hrb1 : (s.1.save).clipTo ρ = rb1 at h
      cases hd : doExpose beh t pens (M + 1) 0 ρ (rb1, s.2) with
      | ub w => rw [hd] at h; cases h
      | ok s1 =>
        rw [hd] at h
        simp only [bind, Bind.bind] at h
        have h1pen : rb1.pen = {} := by rw [← hrb1, ← hpen]; simp [RB.save]
        have h1stack : rb1.stack =
            { xl := s.1.xl, xc := s.1.xc, clip := s.1.clip, pen := s.1.pen, penOnly := false } :: s.1.stack := by
          rw [← hrb1]; simp [RB.save]
        have hmp : ∀ k, M + 1 ≤ k + (M + 1) → mergedPen t pens (k + 1) 0 = penOver (winPen pens 0) {} := by
          intro k _
          rw [mergedPen_succ]
          cases hw0 : t.wins[0]? with
          | none => rfl
          | some w0 => simp only [hroot w0 hw0]
        obtain ⟨hst1, hp1⟩ := doExpose_pen t beh pens M hcp (M + 1) (Nat.le_refl _) 0 ρ (rb1, s.2) s1 {} hd h1pen
          ⟨_, _, h1stack, hpen⟩ hmp hp
        have hst1' : s1.1.stack =
            { xl := s.1.xl, xc := s.1.xc, clip := s.1.clip, pen := s.1.pen, penOnly := false } :: s.1.stack := by
          rw [hst1]; exact h1stack
        obtain ⟨_, _, _, hr_pen, _⟩ := restore_of_save_frame s.1 s1.1 s.1.stack hst1'
        exact ih (s1.1.restore, s1.2) s' h (by show s1.1.restore.pen = {}; rw [hr_pen]; exact hpen) hp1

/-- **Every handler invocation of the rendering finds the merged pen of its window.** -/
theorem flushRender_pen (beh : Id → Rect → List DrawOp) (st st' : St) (t : Tree) (shots : List Shot)
    (h : flushRender beh st t = .ok (st', shots)) (hcp : ChildParent t) (hroot : ∀ w, t.wins[0]? = some w → w.parent = none) :
    ∀ sh ∈ shots, sh.rb.pen = mergedPen t st.pens (t.wins.size + 1) sh.win := by
  rcases flushRender_cases beh st st' t shots h with ⟨h1, _⟩ | ⟨root, s', _, _, _, he, hs, _, _⟩
  · subst h1; intro sh hsh; cases hsh
  · subst hs
    have := (exposeRects_pen (rendered t) beh st.pens t.wins.size hcp hroot _ _ _ s' he rfl
      (by intro sh hsh; cases hsh)).2
    intro sh hsh
    rw [this sh hsh]
    exact mergedPen_congr (rendered t) t st.pens (fun _ => rfl) _ _

/-! ### the queue loop does not change the merged pens -/

theorem set_parent_map (t : Tree) (p : Id) (pw pw' : Win) (hpw : t.wins[p]? = some pw) (hpar : pw'.parent = pw.parent) (x : Id) :
    ((WinTree.set t p pw').wins[x]?).map (fun w => w.parent) = (t.wins[x]?).map (fun w => w.parent) := by
  by_cases hx : x = p
  · subst hx
    rw [set_wins_self t x pw pw' hpw, hpw]
    simp [hpar]
  · rw [set_wins_other t p x pw' hx]

/-- A restacking request applied from the queue changes no parent pointer. -/
theorem restack_parents (t t' : Tree) (fuel : Nat) (ch : Change) (p c : Id) (hch : isRestack ch = true)
    (h : doHierarchyChange t fuel ch p c = .ok t') (x : Id) :
    (t'.wins[x]?).map (fun w => w.parent) = (t.wins[x]?).map (fun w => w.parent) := by
  unfold doHierarchyChange at h
  simp only [bind, Bind.bind] at h
  cases hgp : WinTree.get t p with
  | ub e => rw [hgp] at h; cases h
  | ok pw =>
    rw [hgp] at h
    have hpw := get_ok hgp
    simp only at h
    cases hgc : WinTree.get t c with
    | ub e => rw [hgc] at h; cases h
    | ok w0 =>
      rw [hgc] at h
      simp only at h
      have common : ∀ cs : List Id,
          (if w0.isVisible then expose (WinTree.set t p { pw with children := cs }) fuel p (some w0.rect)
            else pure (WinTree.set t p { pw with children := cs })) = .ok t' →
          (t'.wins[x]?).map (fun w => w.parent) = (t.wins[x]?).map (fun w => w.parent) := by
        intro cs hh
        have hset := set_parent_map t p pw { pw with children := cs } hpw.1 rfl x
        cases hv : w0.isVisible with
        | false =>
          simp only [hv, pure, Pure.pure, Bool.false_eq_true, if_false] at hh
          cases hh
          exact hset
        | true =>
          simp only [hv, if_true] at hh
          rw [(expose_wins_root fuel _ p _ t' hh).1]
          exact hset
      cases ch with
      | insertFirst => cases hch
      | insertLast => cases hch
      | remove => cases hch
      | raise =>
        simp only at h
        cases hlr : listRaise pw.children c with
        | ub e => rw [hlr] at h; cases h
        | ok cs =>
          rw [hlr] at h
          simp only [pure, Pure.pure] at h
          exact common cs h
      | raiseFront =>
        simp only at h
        cases hlr : listRemove pw.children c with
        | ub e => rw [hlr] at h; cases h
        | ok cs =>
          rw [hlr] at h
          simp only [pure, Pure.pure] at h
          exact common _ h
      | lower =>
        simp only [pure, Pure.pure] at h
        exact common _ h
      | lowerBack =>
        simp only at h
        cases hlr : listRemove pw.children c with
        | ub e => rw [hlr] at h; cases h
        | ok cs =>
          rw [hlr] at h
          simp only [pure, Pure.pure] at h
          exact common _ h

/-- The queue loop at the head of `tickit_window_flush` changes no parent pointer. -/
theorem applyChanges_parents (fuel : Nat) : ∀ (q : List Req) (t t' : Tree), (∀ r ∈ q, isRestack r.change = true) →
    applyChanges fuel t q = .ok t' → ∀ x : Id, (t'.wins[x]?).map (fun w => w.parent) = (t.wins[x]?).map (fun w => w.parent) := by
  intro q
  induction q with
  | nil => intro t t' _ h x; simp only [applyChanges] at h; cases h; rfl
  | cons r rest ih =>
    intro t t' hk h x
    simp only [applyChanges, bind, Bind.bind] at h
    cases h1 : doHierarchyChange t fuel r.change r.parent r.win with
    | ub e => rw [h1] at h; cases h
    | ok t1 =>
      rw [h1] at h
      simp only at h
      rw [ih t1 t' (fun y hy => hk y (List.mem_cons_of_mem _ hy)) h x]
      exact restack_parents t t1 fuel r.change r.parent r.win (hk r List.mem_cons_self) h1 x

/-! ### the flush -/

/-- A flush is nothing at all, or the queue loop followed by the rendering of a tree that satisfies the invariants and
    has the parent pointers of the tree the flush started from. -/
theorem flush_decompose_parents (beh : Id → Rect → List DrawOp) (content : Id → Int → Int → Cell) (st st' : St) (shots : List Shot)
    (h : WinFlush.flush beh st = .ok (st', shots)) (hg : GoodQ content st) :
    (st' = st ∧ shots = []) ∨
      ∃ t, flushRender beh st t = .ok (st', shots) ∧ TInv content st.screen t ∧ t.wins.size = st.tree.wins.size ∧
        ∀ x : Id, (t.wins[x]?).map (fun w => w.parent) = (st.tree.wins[x]?).map (fun w => w.parent) := by
  have hI := hg.tinv
  obtain ⟨root, hr, hf, hrr, hrp, _, _⟩ := hI.ok.rootWin.ex
  unfold WinFlush.flush at h
  have hget : WinTree.get st.tree 0 = .ok root := by
    unfold WinTree.get; rw [hr]; simp [hf]
  rw [hget] at h
  simp only [bind, Bind.bind, hrp, Option.isSome_none] at h
  cases hnl : st.tree.root.needsLater with
  | false =>
    simp only [hnl, pure, Pure.pure] at h
    simp at h
    exact Or.inl ⟨h.1.symm, h.2⟩
  | true =>
    simp only [hnl, Bool.false_eq_true, if_false, Bool.not_true] at h
    right
    generalize ht0 : ({ st.tree with root := { st.tree.root with needsLater := false, changes := [] } } : Tree) = t0
    have hfq : flushQueue st = applyChanges (t0.wins.size + 1) t0 st.tree.root.changes := by
      unfold flushQueue
      rw [← ht0]
      rfl
    have h0w : t0.wins = st.tree.wins := by rw [← ht0]
    have h0d : t0.root.damage = st.tree.root.damage := by rw [← ht0]
    have hcore0 : ∀ x : Id, (t0.wins[x]?).map core = (st.tree.wins[x]?).map core := by intro x; rw [h0w]
    have hI0 : TInv content st.screen t0 :=
      ⟨treeOk_congr_core hcore0 hI.ok, ordered_congr h0w hI.ord,
        rootsPositive_congr_core hcore0 hI.pos, by rw [h0d]; exact hI.nonempty, by rw [h0d]; exact hI.dinv, by
          intro L C w l c ho
          rw [ownerAt_congr t0 st.tree h0w] at ho
          rw [h0d]
          exact hI.inv L C w l c ho⟩
    cases hq : flushQueue st with
    | ub e => rw [hq] at h; cases h
    | ok t =>
      rw [hq] at h
      simp only at h
      rw [hfq] at hq
      obtain ⟨a1, _, a3, _⟩ := applyChanges_step content st.screen st.tree.root.changes t0 t hg.queue hI0 hq
      exact ⟨t, h, a1, by rw [a3, h0w], fun x => by
        rw [applyChanges_parents _ _ t0 t hg.queue hq x, h0w]⟩

/-- **Every handler invocation of a flush finds the merged pen of its window** — in the tree the flush started from (the
    queued restacking requests it applies first change no parent pointer). -/
theorem flush_shots_pen (beh : Id → Rect → List DrawOp) (content : Id → Int → Int → Cell) (st st' : St) (shots : List Shot)
    (h : WinFlush.flush beh st = .ok (st', shots)) (hg : GoodQ content st) :
    ∀ sh ∈ shots, sh.rb.pen = mergedPen st.tree st.pens (st.tree.wins.size + 1) sh.win := by
  rcases flush_decompose_parents beh content st st' shots h hg with ⟨_, hs⟩ | ⟨t, hr, hI, hsz, hpar⟩
  · subst hs; intro sh hsh; cases hsh
  · intro sh hsh
    obtain ⟨rw0, hrw0, _, _, hrp, _, _⟩ := hI.ok.rootWin.ex
    rw [flushRender_pen beh st st' t shots hr hI.ok.wf.childParent
      (by intro w hw; rw [hrw0] at hw; cases hw; exact hrp) sh hsh, hsz]
    exact mergedPen_congr t st.tree st.pens hpar _ _

/-- `RepaintsP` and the pen invariant give `RepaintsAt` of every invocation. -/
theorem repaintsAt_of_repaintsP {t : Tree} {pens : Array (Option Pen)} {content : Id → Int → Int → Cell}
    {beh : Id → Rect → List DrawOp} (hrep : RepaintsP t pens content beh) (sh : Shot)
    (hpen : sh.rb.pen = mergedPen t pens (t.wins.size + 1) sh.win) : RepaintsAt content beh sh :=
  fun L C hw hm => hrep sh.win sh.rect sh.rb L C hpen hw hm

/-- `goodQ_flush` under the pen-aware proviso: the handlers need only repaint when handed the pen they inherit. -/
theorem goodQ_flush_pen (beh : Id → Rect → List DrawOp) (content : Id → Int → Int → Cell) (st st' : St) (shots : List Shot)
    (h : WinFlush.flush beh st = .ok (st', shots)) (hrep : RepaintsP st.tree st.pens content beh) (hg : GoodQ content st) :
    GoodQ content st' ∧ ExactC content st'.tree st'.screen ∧ st'.tree.root.changes = [] ∧ st'.tree.root.damage = [] :=
  goodQ_flush_at beh content st st' shots h
    (fun sh hsh => repaintsAt_of_repaintsP hrep sh (flush_shots_pen beh content st st' shots h hg sh hsh)) hg

/-- `goodQ_flushX` under the pen-aware proviso. -/
theorem goodQ_flushX_pen (beh : Id → Rect → List DrawOp) (behExp : Id → Rect → List (Id × Option Rect))
    (content : Id → Int → Int → Cell) (st st' : St) (shots : List Shot)
    (h : flushX beh behExp st = .ok (st', shots)) (hrep : RepaintsP st.tree st.pens content beh) (hg : GoodQ content st) :
    GoodQ content st' ∧ ExactC content st'.tree st'.screen := by
  refine goodQ_flushX_at beh behExp content st st' shots h ?_ hg
  unfold flushX at h
  simp only [bind, Bind.bind] at h
  cases hf : WinFlush.flush beh st with
  | ub e => rw [hf] at h; cases h
  | ok r =>
    rw [hf] at h
    simp only at h
    cases ha : applyExposes st.fuel r.1.tree (r.2.flatMap fun sh => behExp sh.win sh.rect) with
    | ub e => rw [ha] at h; cases h
    | ok t' =>
      rw [ha] at h
      simp only [pure, Pure.pure, Res.ok.injEq, Prod.mk.injEq] at h
      rw [← h.2]
      exact fun sh hsh => repaintsAt_of_repaintsP hrep sh (flush_shots_pen beh content st r.1 r.2 hf hg sh hsh)

/-- The rendering half under the pen-aware proviso, for a tree whose parent pointers agree with its child lists. -/
theorem flushRender_exact_pen (beh : Id → Rect → List DrawOp) (content : Id → Int → Int → Cell)
    (st st' : St) (t : Tree) (shots : List Shot)
    (h : flushRender beh st t = .ok (st', shots)) (hroot : RootOk t) (hflag : Flagged' t)
    (hwf : WFp t) (hrw : RootWin t) (hrep : RepaintsP t st.pens content beh) (hinv : InvC content t st.screen) :
    st'.tree.root.damage = [] ∧ st'.tree.wins = t.wins ∧ ExactC content st'.tree st'.screen := by
  obtain ⟨rw0, hrw0, _, _, hrp, _, _⟩ := hrw.ex
  exact flushRender_exact_at beh content st st' t shots h hroot hflag
    (fun sh hsh => repaintsAt_of_repaintsP hrep sh
      (flushRender_pen beh st st' t shots h hwf.childParent (by intro w hw; rw [hrw0] at hw; cases hw; exact hrp) sh hsh)) hinv

end WinFlush
end Tickit
