import Tickit.Proof.RBFlushText
/-
  C04 helper lemmas: the width counter `tickit_utf8_ncountmore` (Model/RB.lean `countLoop`) against the decoded
  character list.  With a column or a grapheme limit the counter consumes the longest prefix of the characters that
  stays within the limit, and the position it reports is exactly the end of that prefix.
-/
namespace Tickit.RBFlush
open Tickit.RB Tickit.RB.Utf8

theorem wcwidth_range (cp : Nat) : wcwidth cp = -1 ∨ wcwidth cp = 0 ∨ wcwidth cp = 1 ∨ wcwidth cp = 2 := by
  unfold wcwidth
  split
  · simp
  · unfold mkWcwidth
    split
    · simp
    · split
      · simp
      · split
        · simp
        · split <;> simp

/-- 1 for a character that starts a grapheme (width > 0), else 0. -/
def isG (c : Ch) : Int := if c.width > 0 then 1 else 0

/-- The position one character further. -/
def stepPos (p : StrPos) (c : Ch) : StrPos :=
  { bytes := p.bytes + c.bytes.length, codepoints := p.codepoints + 1, graphemes := p.graphemes + isG c,
    columns := p.columns + c.width }

/-- The position after the characters `cs`. -/
def advance (p : StrPos) : List Ch → StrPos
  | [] => p
  | c :: cs => advance (stepPos p c) cs

/-- Does the counter break before `c` (grapheme and column limits only)? -/
def stops (l here : StrPos) (c : Ch) : Bool :=
  (decide (l.graphemes ≠ -1) && decide (here.graphemes + isG c > l.graphemes)) ||
  (decide (l.columns ≠ -1) && decide (here.columns + c.width > l.columns))

/-- How many characters the counter consumes. -/
def prefixLen (l : StrPos) : StrPos → List Ch → Nat
  | _, [] => 0
  | here, c :: cs => if stops l here c then 0 else 1 + prefixLen l (stepPos here c) cs

/-- The position is within the limit (so a zero-width character never breaks). -/
def Within (l here : StrPos) : Prop :=
  (l.graphemes = -1 ∨ here.graphemes ≤ l.graphemes) ∧ (l.columns = -1 ∨ here.columns ≤ l.columns)

theorem decodeFrom_nil {s : List UInt8} {f off : Nat} (h : decodeFrom s f off = some []) : byteAt s off = 0 := by
  cases f with
  | zero => simp [decodeFrom] at h
  | succ f =>
    unfold decodeFrom at h
    by_cases hz : byteAt s off = 0
    · exact hz
    · rw [if_neg hz] at h
      split at h
      · cases h
      · split at h
        · cases h
        · split at h
          · cases h
          · simp at h

/-- What `decodeFrom … = some (c :: cs)` says. -/
theorem decodeFrom_cons {s : List UInt8} {f off : Nat} {c : Ch} {cs : List Ch}
    (h : decodeFrom s f off = some (c :: cs)) :
    ∃ f' d, f = f' + 1 ∧ byteAt s off ≠ 0 ∧ nextUtf8 s off none = some d ∧
      (d.cp < 0x20 || (d.cp ≥ 0x80 && d.cp < 0xa0)) = false ∧ wcwidth d.cp ≠ -1 ∧
      c = ⟨(s.drop off).take d.n, d.cp, wcwidth d.cp⟩ ∧ c.bytes.length = d.n ∧
      decodeFrom s f' (off + d.n) = some cs := by
  cases f with
  | zero => simp [decodeFrom] at h
  | succ f' =>
    unfold decodeFrom at h
    by_cases hz : byteAt s off = 0
    · rw [if_pos hz] at h; cases h
    · rw [if_neg hz] at h
      split at h
      · cases h
      · rename_i d hd
        split at h
        · cases h
        · rename_i hctrl
          split at h
          · cases h
          · rename_i hw
            cases hrest : decodeFrom s f' (off + d.n) with
            | none => rw [hrest] at h; simp at h
            | some cs' =>
              rw [hrest] at h
              simp only [Option.map_some, Option.some.injEq, List.cons.injEq] at h
              obtain ⟨hc, hcs⟩ := h
              subst hcs
              refine ⟨f', d, rfl, hz, hd, by simpa using hctrl, hw, hc.symm, ?_, hrest⟩
              rw [← hc]
              simp only [List.length_take, List.length_drop]
              have := nextUtf8_some_le_length s off none d hd
              omega

/-- One iteration of the counter (no length limit; grapheme and column limits only) at a character `c`. -/
theorem countLoop_step (s : List UInt8) (l : StrPos) (hlb : l.bytes = -1) (hlc : l.codepoints = -1)
    (g off : Nat) (pos here : StrPos) (d : Dec) (c : Ch)
    (hnz : byteAt s off ≠ 0) (hnext : nextUtf8 s off none = some d)
    (hctrl : (d.cp < 0x20 || (d.cp ≥ 0x80 && d.cp < 0xa0)) = false) (hwid : wcwidth d.cp ≠ -1)
    (hcw : c.width = wcwidth d.cp) (hlen : c.bytes.length = d.n) :
    countLoop s (some l) (g + 1) off none pos here =
      if stops l here c = true then ⟨.ok, if c.width > 0 then here else pos⟩
      else countLoop s (some l) g (off + d.n) none (if c.width > 0 then here else pos) (stepPos here c) := by
  conv => lhs; unfold countLoop
  simp only [hnz, hnext, hctrl, hwid]
  simp only [reduceCtorEq, decide_false, Bool.or_self, Bool.false_eq_true, if_false, hlb, hlc,
    ne_eq, not_true_eq_false, Bool.false_and, Bool.false_or, Option.map_none]
  unfold stops stepPos isG
  simp only [hcw, hlen, ne_eq]

theorem countLoop_spec (s : List UInt8) (l : StrPos) (hlb : l.bytes = -1) (hlc : l.codepoints = -1) :
    ∀ (cs : List Ch) (f1 f2 off : Nat) (pos here : StrPos),
      decodeFrom s f1 off = some cs → cs.length < f2 → here.bytes = off → Within l here →
      countLoop s (some l) f2 off none pos here = ⟨.ok, advance here (cs.take (prefixLen l here cs))⟩ := by
  intro cs
  induction cs with
  | nil =>
    intro f1 f2 off pos here hd hf _ _
    have hz := decodeFrom_nil hd
    cases f2 with
    | zero => simp at hf
    | succ g =>
      unfold countLoop
      simp [hz, prefixLen, advance]
  | cons c cs ih =>
    intro f1 f2 off pos here hd hf hb hw
    obtain ⟨f', d, _, hnz, hnext, hctrl, hwid, hc, hlen, hrest⟩ := decodeFrom_cons hd
    cases f2 with
    | zero => simp at hf
    | succ g =>
      have hcw : c.width = wcwidth d.cp := by rw [hc]
      have hrange := wcwidth_range d.cp
      rw [countLoop_step s l hlb hlc g off pos here d c hnz hnext hctrl hwid hcw hlen]
      by_cases hstop : stops l here c = true
      · -- the counter breaks before `c`: `c` starts a grapheme, so the position was just committed
        rw [if_pos hstop]
        have hpos : c.width > 0 := by
          by_cases h0 : c.width > 0
          · exact h0
          · exfalso
            have hz : c.width = 0 := by omega
            unfold stops isG at hstop
            unfold Within at hw
            simp only [hz, Int.lt_irrefl, gt_iff_lt, if_false, Int.add_zero, Bool.or_eq_true, Bool.and_eq_true,
              ne_eq, decide_eq_true_eq, decide_not, Bool.not_eq_eq_eq_not, Bool.not_true, decide_eq_false_iff_not] at hstop
            omega
        simp [prefixLen, hstop, advance, hpos]
      · rw [if_neg hstop]
        have hw' : Within l (stepPos here c) := by
          unfold Within stepPos at *
          unfold stops at hstop
          simp only [Bool.or_eq_true, Bool.and_eq_true, ne_eq, decide_eq_true_eq, not_or, not_and,
            Int.not_lt, decide_not, Bool.not_eq_eq_eq_not, Bool.not_true, decide_eq_false_iff_not] at hstop
          simp only
          constructor
          · by_cases hg : l.graphemes = -1
            · exact Or.inl hg
            · exact Or.inr (by have := hstop.1 hg; omega)
          · by_cases hg : l.columns = -1
            · exact Or.inl hg
            · exact Or.inr (by have := hstop.2 hg; omega)
        have := ih f' g (off + d.n) (if c.width > 0 then here else pos) (stepPos here c) hrest
          (by simp at hf; omega) (by unfold stepPos; simp only; rw [hlen]; omega) hw'
        rw [this]
        simp only [prefixLen, hstop, Bool.false_eq_true, if_false]
        rw [show 1 + prefixLen l (stepPos here c) cs = prefixLen l (stepPos here c) cs + 1 by omega,
          List.take_succ_cons]
        rfl

/-! ## The decoded characters of an accepted text -/

/-- Σ number of bytes. -/
def bytesLen : List Ch → Nat
  | [] => 0
  | c :: cs => c.bytes.length + bytesLen cs

/-- Every character of an accepted text decodes on its own, has the library's width, and that is 0, 1 or 2. -/
theorem decodeFrom_props (s : List UInt8) : ∀ (cs : List Ch) (f off : Nat), decodeFrom s f off = some cs →
    ∀ c ∈ cs, SelfDec c ∧ c.width = wcwidth c.cp ∧ (c.width = 0 ∨ c.width = 1 ∨ c.width = 2) := by
  intro cs
  induction cs with
  | nil => intro f off _ c hc; simp at hc
  | cons c0 cs ih =>
    intro f off hd c hc
    obtain ⟨f', d, _, hnz, hnext, hctrl, hwid, hc0, hlen, hrest⟩ := decodeFrom_cons hd
    simp only [List.mem_cons] at hc
    cases hc with
    | inr h => exact ih f' (off + d.n) hrest c h
    | inl h =>
      subst h
      have hw : c.width = wcwidth c.cp := by rw [hc0]
      refine ⟨?_, hw, ?_⟩
      · unfold SelfDec
        have hcp : c.cp = d.cp := by rw [hc0]
        rw [hlen, hcp]
        apply nextUtf8_congr s c.bytes off 0 none (some d.n) d hnext
        · intro k hk
          rw [hc0]
          simp only [Nat.zero_add]
          exact byteAt_take_drop s off d.n k hk
        · intro l hl
          simp only [Option.some.injEq] at hl
          omega
      · have := wcwidth_range d.cp
        have hcw : c.width = wcwidth d.cp := by rw [hc0]
        rw [hcw]
        omega

theorem decodeFrom_length_le (s : List UInt8) : ∀ (cs : List Ch) (f off : Nat), decodeFrom s f off = some cs →
    cs.length ≤ s.length - off := by
  intro cs
  induction cs with
  | nil => intro f off _; simp
  | cons c cs ih =>
    intro f off hd
    obtain ⟨f', d, _, hnz, hnext, _, _, _, _, hrest⟩ := decodeFrom_cons hd
    have h1 := nextUtf8_some_le_length s off none d hnext
    have h2 := (nextUtf8_some_props s off none d hnext).1
    have := ih f' (off + d.n) hrest
    simp only [List.length_cons]
    omega

/-- Decoding can be resumed after any number of characters. -/
theorem decodeFrom_suffix (s : List UInt8) : ∀ (k : Nat) (cs : List Ch) (f off : Nat), decodeFrom s f off = some cs →
    k ≤ cs.length → decodeFrom s (f - k) (off + bytesLen (cs.take k)) = some (cs.drop k) := by
  intro k
  induction k with
  | zero => intro cs f off hd _; simpa [bytesLen] using hd
  | succ j ih =>
    intro cs f off hd hk
    cases cs with
    | nil => simp at hk
    | cons c cs =>
      obtain ⟨f', d, hf, _, _, _, _, _, hlen, hrest⟩ := decodeFrom_cons hd
      have := ih cs f' (off + d.n) hrest (by simp at hk; omega)
      simp only [List.take_succ_cons, List.drop_succ_cons, bytesLen]
      rw [hlen, hf, show f' + 1 - (j + 1) = f' - j by omega, ← Nat.add_assoc]
      exact this

/-- The bytes of a prefix of the characters are the corresponding prefix of the bytes. -/
theorem decodeFrom_bytes (s : List UInt8) : ∀ (k : Nat) (cs : List Ch) (f off : Nat), decodeFrom s f off = some cs →
    (s.drop off).take (bytesLen (cs.take k)) = (cs.take k).flatMap (·.bytes) := by
  intro k
  induction k with
  | zero => intro cs f off _; simp [bytesLen]
  | succ j ih =>
    intro cs f off hd
    cases cs with
    | nil => simp [bytesLen]
    | cons c cs =>
      obtain ⟨f', d, _, _, _, _, _, hc, hlen, hrest⟩ := decodeFrom_cons hd
      have := ih cs f' (off + d.n) hrest
      simp only [List.take_succ_cons, bytesLen, List.flatMap_cons]
      rw [List.take_add, List.drop_drop, hlen, this]
      congr 1
      rw [hc]

theorem advance_append (p : StrPos) (a b : List Ch) : advance p (a ++ b) = advance (advance p a) b := by
  induction a generalizing p with
  | nil => rfl
  | cons c a ih => simp only [List.cons_append, advance]; exact ih _

theorem advance_bytes (p : StrPos) (cs : List Ch) : (advance p cs).bytes = p.bytes + bytesLen cs := by
  induction cs generalizing p with
  | nil => simp [advance, bytesLen]
  | cons c cs ih =>
    simp only [advance, bytesLen]
    rw [ih]
    simp only [stepPos]
    omega

theorem advance_columns (p : StrPos) (cs : List Ch) : (advance p cs).columns = p.columns + chCols cs := by
  induction cs generalizing p with
  | nil => simp [advance, chCols]
  | cons c cs ih =>
    simp only [advance, chCols]
    rw [ih]
    simp only [stepPos]
    omega

/-- `tickit_utf8_countmore(text, &pos, &limit)` (no length limit) from the position after `k` characters of an accepted
    text: the longest prefix of the remaining characters within the limit is consumed. -/
theorem ncountmore_spec (s : List UInt8) (cs : List Ch) (hdec : decode s = some cs) (l : StrPos)
    (hlb : l.bytes = -1) (hlc : l.codepoints = -1) (k : Nat) (hk : k ≤ cs.length)
    (hw : Within l (advance {} (cs.take k))) :
    (ncountmore s none (advance {} (cs.take k)) (some l)).pos =
      advance (advance {} (cs.take k)) ((cs.drop k).take (prefixLen l (advance {} (cs.take k)) (cs.drop k))) := by
  unfold ncountmore
  simp only [Option.map_none]
  have hb : (advance {} (cs.take k)).bytes = (bytesLen (cs.take k) : Int) := by
    rw [advance_bytes]; simp
  have hsuf := decodeFrom_suffix s k cs (s.length + 1) 0 hdec hk
  rw [Nat.zero_add] at hsuf
  have hlen := decodeFrom_length_le s cs (s.length + 1) 0 hdec
  rw [hb, Int.toNat_natCast]
  rw [countLoop_spec s l hlb hlc (cs.drop k) (s.length + 1 - k) (s.length + 1) (bytesLen (cs.take k)) _ _ hsuf
    (by simp only [List.length_drop]; omega) hb hw]

/-- What the consumed prefix looks like: the position stays within the limit, and what follows is nothing or a
    character of width > 0 that would exceed the limit. -/
theorem prefix_props (l : StrPos) : ∀ (cs : List Ch) (p : StrPos), Within l p → (∀ c ∈ cs, 0 ≤ c.width) →
    Within l (advance p (cs.take (prefixLen l p cs))) ∧
    (cs.drop (prefixLen l p cs) = [] ∨
      ∃ b rest, cs.drop (prefixLen l p cs) = b :: rest ∧ stops l (advance p (cs.take (prefixLen l p cs))) b = true ∧
        b.width > 0) := by
  intro cs
  induction cs with
  | nil => intro p hw _; exact ⟨by simpa [prefixLen, advance] using hw, Or.inl rfl⟩
  | cons c cs ih =>
    intro p hw hwid
    have hc0 : 0 ≤ c.width := hwid c (by simp)
    by_cases hstop : stops l p c = true
    · simp only [prefixLen, hstop, if_true, List.take_zero, advance, List.drop_zero]
      refine ⟨hw, Or.inr ⟨c, cs, rfl, hstop, ?_⟩⟩
      by_cases h0 : c.width > 0
      · exact h0
      · exfalso
        have hz : c.width = 0 := by omega
        unfold stops isG at hstop
        unfold Within at hw
        simp only [hz, Int.lt_irrefl, gt_iff_lt, if_false, Int.add_zero, Bool.or_eq_true, Bool.and_eq_true,
          ne_eq, decide_eq_true_eq, decide_not, Bool.not_eq_eq_eq_not, Bool.not_true, decide_eq_false_iff_not] at hstop
        omega
    · have hw' : Within l (stepPos p c) := by
        unfold Within stepPos at *
        unfold stops at hstop
        simp only [Bool.or_eq_true, Bool.and_eq_true, ne_eq, decide_eq_true_eq, not_or, not_and,
          Int.not_lt, decide_not, Bool.not_eq_eq_eq_not, Bool.not_true, decide_eq_false_iff_not] at hstop
        simp only
        constructor
        · by_cases hg : l.graphemes = -1
          · exact Or.inl hg
          · exact Or.inr (by have := hstop.1 hg; omega)
        · by_cases hg : l.columns = -1
          · exact Or.inl hg
          · exact Or.inr (by have := hstop.2 hg; omega)
      have := ih (stepPos p c) hw' (fun c' hc' => hwid c' (by simp [hc']))
      simp only [prefixLen, hstop, Bool.false_eq_true, if_false]
      rw [show 1 + prefixLen l (stepPos p c) cs = prefixLen l (stepPos p c) cs + 1 by omega]
      simp only [List.take_succ_cons, List.drop_succ_cons, advance]
      exact this

/-! ## The length-limited counter of `put_string` accepts what the NUL-terminated counter of the flush accepts -/

/-- `tickit_utf8_ncount(str, len, &pos, NULL)` (length limit = the length of the string, no other limit) succeeding
    means the NUL-terminated decoding succeeds with the same characters. -/
theorem countLoop_len (s : List UInt8) : ∀ (f off : Nat) (pos here r : StrPos), off ≤ s.length →
    countLoop s none f off (some (s.length - off)) pos here = ⟨.ok, r⟩ →
    ∃ cs, decodeFrom s f off = some cs ∧ r = advance here cs := by
  intro f
  induction f with
  | zero =>
    intro off pos here r _ h
    simp [countLoop] at h
  | succ g ih =>
    intro off pos here r hoff h
    unfold countLoop at h
    by_cases hz : byteAt s off = 0
    · simp only [hz, decide_true, Bool.or_true, if_true, CountRes.mk.injEq, true_and] at h
      exact ⟨[], by unfold decodeFrom; simp [hz], by simp [advance, h]⟩
    · have hlt : off < s.length := lt_length_of_byteAt_ne_zero s off hz
      have hne : ¬ (some (s.length - off) = some 0) := by simp; omega
      simp only [hne, hz, decide_false, Bool.or_self, Bool.false_eq_true, if_false] at h
      cases hd : nextUtf8 s off (some (s.length - off)) with
      | none => rw [hd] at h; simp at h
      | some d =>
        rw [hd] at h
        simp only at h
        have hd' : nextUtf8 s off none = some d :=
          nextUtf8_congr s s off off _ none d hd (fun _ _ => rfl) (fun l hl => by cases hl)
        have hle := nextUtf8_some_le_length s off _ d hd
        by_cases hctrl : (d.cp < 0x20 || (d.cp ≥ 0x80 && d.cp < 0xa0)) = true
        · rw [if_pos hctrl] at h; simp at h
        · rw [if_neg hctrl] at h
          by_cases hw : wcwidth d.cp = -1
          · rw [if_pos hw] at h; simp at h
          · rw [if_neg hw] at h
            simp only [Bool.false_eq_true, if_false, Option.map_some] at h
            rw [show s.length - off - d.n = s.length - (off + d.n) by omega] at h
            have hblen : ((s.drop off).take d.n).length = d.n := by
              simp only [List.length_take, List.length_drop]; omega
            obtain ⟨cs', hcs', hr⟩ := ih (off + d.n) _ _ r hle h
            refine ⟨⟨(s.drop off).take d.n, d.cp, wcwidth d.cp⟩ :: cs', ?_, ?_⟩
            · unfold decodeFrom
              simp only [hz, if_false, hd', hw]
              rw [if_neg hctrl, hcs']
              rfl
            · rw [hr]
              simp only [advance, stepPos, isG, hblen]

/-- What `put_string` accepts (`tickit_utf8_ncount` over the whole string returns its columns), the flush can decode,
    and the columns agree. -/
theorem decode_of_stringColumns (s : List UInt8) (n : Int) (h : stringColumns s = some n) :
    ∃ cs, decode s = some cs ∧ chCols cs = n := by
  unfold stringColumns at h
  simp only at h
  cases hst : (ncountmore s (some s.length) {} none).status with
  | ok =>
    rw [hst] at h
    simp only [Option.some.injEq] at h
    unfold ncountmore at hst h
    have hz : ({} : StrPos).bytes.toNat = 0 := rfl
    simp only [hz, Option.map_some, Nat.sub_zero] at hst h
    have hres : countLoop s none (s.length + 1) 0 (some (s.length - 0)) {} {} =
        ⟨.ok, (countLoop s none (s.length + 1) 0 (some s.length) {} {}).pos⟩ := by
      rw [Nat.sub_zero]
      cases hc : countLoop s none (s.length + 1) 0 (some s.length) {} {} with
      | mk st p => rw [hc] at hst; simp only at hst; rw [hst]
    obtain ⟨cs, hcs, hr⟩ := countLoop_len s (s.length + 1) 0 {} {} _ (by omega) hres
    refine ⟨cs, hcs, ?_⟩
    rw [← h, hr, advance_columns]
    simp
  | err => rw [hst] at h; cases h
  | fuel => rw [hst] at h; cases h

end Tickit.RBFlush
