import Tickit.Proof.EvLoopOnceB
/-
  C17, "exactly once" for one iteration.

  `exactly_once` (Proof/EvLoopOnce*.lean) is keyed on the *current* type of a watch; `MH` only says that a type stays or
  is cleared, because `invoke_watch` clears the type of whatever one-shot watch it is handed.  Here: it is never handed
  a timer or a deferred callback (the bundle `B`: poll entries, `t->processes`, the process watch of `process_notify`
  are none), so

    `TS`  (steps that change no type and ask for no cancel) and
    `TY`  the type of a timer / deferred callback that exists never changes — except that a deferred callback for which
          a cancel has been asked (or an internal one) may have been marked `WATCH_NONE` while its batch was detached —

  hold for every function of the loop (`ty_*`, the same inductions as the `b_*` family).  With them `exactly_once`,
  `no_due_timer_left`, `deferred_batch_runs_once_in_order` and "only fresh watches enter a queue" compose to the
  statement about one iteration (`timer_once_in_iteration`, `later_once_in_iteration`).
-/
namespace Tickit.EvLoop

/-! ### `TS`: no type changes, no cancel is asked for -/

structure TS (st st' : St) : Prop where
  len : st.heap.length ≤ st'.heap.length
  typ : ∀ x, x < st.heap.length → (st'.getW x).type = (st.getW x).type
  creq : st'.cancelReq = st.cancelReq
  alive : st'.alive = st.alive

theorem TS.refl (st : St) : TS st st := ⟨Nat.le_refl _, fun _ _ => rfl, rfl, rfl⟩

theorem TS.trans {a b c : St} (h1 : TS a b) (h2 : TS b c) : TS a c :=
  ⟨Nat.le_trans h1.len h2.len, fun x hx => (h2.typ x (Nat.lt_of_lt_of_le hx h1.len)).trans (h1.typ x hx), h2.creq.trans h1.creq, h2.alive.trans h1.alive⟩

theorem TS.of_eq {st st' : St} (h : st'.heap = st.heap) (hc : st'.cancelReq = st.cancelReq) (ha : st'.alive = st.alive) : TS st st' :=
  ⟨by rw [h]; exact Nat.le_refl _, fun x _ => by rw [getW_of_heap_eq h], hc, ha⟩

theorem ts_alloc (st : St) (w : Watch) : TS st (st.alloc w).1 :=
  ⟨by rw [alloc_len]; omega, fun x hx => by rw [getW_alloc_old st w x hx], rfl, rfl⟩

theorem ts_setW (st : St) (a : Nat) (w : Watch) (h : w.type = (st.getW a).type) : TS st (st.setW a w) := by
  refine ⟨by rw [St.length_setW]; exact Nat.le_refl _, ?_, rfl, rfl⟩
  intro x hx
  by_cases hax : a = x
  · subst hax; rw [St.getW_setW_self st a w hx, h]
  · rw [St.getW_setW_ne st a x w hax]

theorem ts_fail (st : St) (w : Ub) : TS st (st.fail w) :=
  TS.of_eq (St.heap_fail st w) (by unfold St.fail; split <;> rfl) (by unfold St.fail; split <;> rfl)

theorem ts_free (st : St) (a : Nat) : TS st (st.free a) := by
  unfold St.free
  split
  · exact ts_setW st a _ rfl
  · exact ts_fail _ _

theorem ts_raiseSig (st : St) (s : Int) : TS st (raiseSig st s) := by
  unfold raiseSig
  split
  · exact TS.refl st
  · split
    · exact TS.of_eq rfl rfl rfl
    · split
      · unfold sigRecord; split <;> first | exact TS.of_eq rfl rfl rfl | exact TS.refl _
      · split
        · exact TS.of_eq rfl rfl rfl
        · exact TS.refl st

theorem ts_evloopCancelSignal (st : St) (idx : Nat) : TS st (evloopCancelSignal st idx) := by
  unfold evloopCancelSignal
  simp only []
  split
  · exact TS.of_eq rfl rfl rfl
  · split
    · split <;> exact TS.of_eq rfl rfl rfl
    · exact TS.of_eq rfl rfl rfl

theorem ts_emit (st : St) (e : Ev) : TS st (st.emit e) := TS.of_eq rfl rfl rfl

theorem ts_setEvi (st : St) (a idx : Nat) : TS st (st.setW a { st.getW a with evi := idx }) := ts_setW st a _ rfl

theorem ts_setWstatus (st : St) (a : Nat) (ws : Int) : TS st (st.setW a { st.getW a with wstatus := ws }) := ts_setW st a _ rfl

theorem ts_with_timers (st : St) (l : List Nat) : TS st { st with timers := l } := TS.of_eq rfl rfl rfl

theorem ts_setListOf (st : St) (t : WType) (l : List Nat) : TS st (setListOf st t l) := by
  cases t <;> exact TS.of_eq rfl rfl rfl

theorem ts_watchTimerAt (st : St) (due : TV) (flags : Nat) (slot : Int) : TS st (watchTimerAt st due flags slot).1 := by
  unfold watchTimerAt
  simp only []
  split
  · exact (ts_alloc st _).trans (ts_with_timers _ _)
  · exact (ts_alloc st _).trans (ts_fail _ _)

theorem ts_evloopIo (st : St) (fd : Int) (cond : Nat) (w : Nat) : TS st (evloopIo st fd cond w).1 := by
  unfold evloopIo
  split <;> exact TS.of_eq rfl rfl rfl

theorem ts_evloopCancelIo (st : St) (idx : Nat) : TS st (evloopCancelIo st idx) := TS.of_eq rfl rfl rfl

theorem ts_evloopSignal (st : St) (s : Int) : TS st (evloopSignal st s).1 := by
  unfold evloopSignal
  simp only []
  split <;> exact TS.of_eq rfl rfl rfl

theorem ts_insertWatch (st : St) (l : List Nat) (flags new : Nat) : TS st (insertWatch st l flags new).1 := by
  unfold insertWatch
  split
  · exact TS.refl st
  · split
    · exact TS.refl st
    · exact ts_fail st _

theorem ts_notify (st : St) (a flags : Nat) : TS st (notify st a flags) := by
  unfold notify
  simp only []
  split
  · exact ts_emit st _
  · exact TS.refl st

theorem ts_with_laters (st : St) (l : List Nat) : TS st { st with laters := l } := TS.of_eq rfl rfl rfl

theorem ts_with_iow (st : St) (l : List Nat) : TS st { st with iow := l } := TS.of_eq rfl rfl rfl

theorem ts_with_signals (st : St) (l : List Nat) : TS st { st with signals := l } := TS.of_eq rfl rfl rfl

theorem ts_with_procs (st : St) (l : List Nat) : TS st { st with procs := l } := TS.of_eq rfl rfl rfl

theorem ts_watchLater (st : St) (flags : Nat) (slot : Int) (puser : Nat) :
    TS st (watchLater st flags slot puser).1 := by
  unfold watchLater
  exact ((ts_alloc st _).trans (ts_insertWatch _ _ _ _)).trans (ts_with_laters _ _)

theorem ts_watchIo (st : St) (fd : Int) (cond flags : Nat) (slot : Int) : TS st (watchIo st fd cond flags slot).1 := by
  unfold watchIo
  exact ((((ts_alloc st _).trans (ts_evloopIo _ _ _ _)).trans (ts_setEvi _ _ _)).trans
    (ts_insertWatch _ _ _ _)).trans (ts_with_iow _ _)

theorem ts_watchSignalPre (st : St) (signum : Int) (flags : Nat) (slot : Int) :
    TS st (watchSignalPre st signum flags slot) := by
  unfold watchSignalPre
  exact ((ts_alloc st _).trans (ts_evloopSignal _ _)).trans (ts_setEvi _ _ _)

theorem ts_watchSignal (st : St) (signum : Int) (flags : Nat) (slot : Int) :
    TS st (watchSignal st signum flags slot).1 := by
  unfold watchSignal
  exact ((ts_watchSignalPre st _ _ _).trans (ts_insertWatch _ _ _ _)).trans (ts_with_signals _ _)

theorem ts_waitpid (st : St) (pid : Int) : TS st (waitpid st pid).st := by
  unfold waitpid
  split
  · split
    · exact TS.of_eq rfl rfl rfl
    · split <;> exact TS.of_eq rfl rfl rfl
  · exact TS.refl st

theorem ts_ensureSigchld (st : St) : TS st (ensureSigchld st) := by
  unfold ensureSigchld
  split
  · exact TS.refl _
  · exact (ts_watchSignal _ _ _ _).trans (TS.of_eq rfl rfl rfl)

theorem ts_setNotify (st : St) (a : Nat) (n : Option Nat) : TS st (setNotify st a n) := by
  unfold setNotify
  exact ts_setW st a { st.getW a with notify := n } rfl

theorem ts_linkNotified (r : St × Nat) (a : Nat) (flags : Nat) : TS r.1 (linkNotified r a flags) := by
  unfold linkNotified
  exact ((ts_setNotify r.1 a (some r.2)).trans (ts_insertWatch _ _ _ _)).trans (ts_with_procs _ _)

theorem ts_clearNotify (st : St) (a : Nat) : TS st (clearNotify st a) := by
  unfold clearNotify
  split
  · exact ts_setNotify st a none
  · exact TS.refl _

theorem ts_linkProcess (st : St) (a : Nat) (pid : Int) (flags : Nat) : TS st (linkProcess st a pid flags) := by
  unfold linkProcess
  simp only []
  split
  · split
    · exact (((ts_waitpid _ _).trans (ts_setWstatus _ _ _)).trans (ts_watchLater _ _ _ _)).trans (ts_linkNotified _ _ _)
    · exact ((ts_waitpid _ _).trans (ts_setWstatus _ _ _)).trans (ts_watchLater _ _ _ _)
  · exact ((ts_waitpid _ _).trans (ts_insertWatch _ _ _ _)).trans (ts_with_procs _ _)

theorem ts_watchProcess (st : St) (pid : Int) (flags : Nat) (slot : Int) :
    TS st (watchProcess st pid flags slot).1 := by
  unfold watchProcess
  exact ((ts_alloc st _).trans (ts_ensureSigchld _)).trans (ts_linkProcess _ _ _ _)

theorem ts_watchTimerAfterMsec (st : St) (msec : Int) (flags : Nat) (slot : Int) :
    TS st (watchTimerAfterMsec st msec flags slot).1 := by
  unfold watchTimerAfterMsec
  exact (ts_emit st _).trans (ts_watchTimerAt _ _ _ _)

theorem ts_cancelHook (st : St) (t : WType) (evi : Nat) : TS st (cancelHook st t evi) := by
  unfold cancelHook
  split
  · exact ts_evloopCancelIo _ _
  · exact ts_evloopCancelSignal _ _
  · exact TS.refl _

theorem ts_cancelNotify (st : St) (a : Nat) (w : Watch) : TS st (cancelNotify st a w) := by
  unfold cancelNotify
  split
  · exact ts_notify _ _ _
  · exact TS.refl _

theorem ts_cancelRest (st : St) (rest : List Nat) : TS st (cancelRest st rest) := by
  unfold cancelRest
  split
  · exact TS.refl _
  · split
    · exact ts_fail _ _
    · exact TS.refl _

theorem ts_cancelFound (st : St) (a : Nat) (w : Watch) (l : List Nat) : TS st (cancelFound st a w l) := by
  unfold cancelFound
  exact ((((ts_setListOf st _ _).trans (ts_cancelNotify _ a w)).trans (ts_cancelHook _ w.type w.evi)).trans (ts_free _ a)).trans
    (ts_cancelRest _ _)

theorem ts_laterPre (st : St) (a : Nat) : TS st (laterPre st a) := by
  unfold laterPre
  split
  · exact (ts_setW _ a _ rfl)
  · exact TS.refl _

theorem ts_with_slots (st : St) (l : List SlotRec) : TS st { st with slots := l } := TS.of_eq rfl rfl rfl

theorem ts_with_errno (st : St) (e : Int) : TS st { st with errno := e } := TS.of_eq rfl rfl rfl

theorem ts_with_children (st : St) (l : List Proc) : TS st { st with children := l } := TS.of_eq rfl rfl rfl

theorem ts_with_stillRunning (st : St) (b : Bool) : TS st { st with stillRunning := b } := TS.of_eq rfl rfl rfl

theorem ts_with_inRun (st : St) (b : Bool) : TS st { st with inRun := b } := TS.of_eq rfl rfl rfl

theorem ts_doRegister (st : St) (k : Int) (reg : St → St × Nat) (h : ∀ s, TS s (reg s).1) :
    TS st (doRegister st k reg) := by
  unfold doRegister
  split
  · exact (ts_emit _ _)
  · split
    · exact (ts_emit _ _)
    · exact (h st).trans (ts_with_slots _ _)

theorem ts_waitpidV (st : St) (pid : Int) : TS st (waitpidV st pid).st := by
  unfold waitpidV
  split
  · exact ts_waitpid _ _
  · exact TS.refl _

theorem ts_with_pendingSig (st : St) (l : List Int) : TS st { st with pendingSig := l } := TS.of_eq rfl rfl rfl

theorem ts_foldl_raiseSig (l : List Int) : ∀ st : St, TS st (l.foldl raiseSig st) := by
  induction l with
  | nil => intro st; exact TS.refl st
  | cons s rest ih => intro st; exact (ts_raiseSig st s).trans (ih _)

theorem ts_pollScan (st : St) : TS st (pollScan st) := TS.of_eq rfl rfl rfl

theorem ts_with_inpoll (st : St) (l : List Int) : TS st { st with inpoll := l } := TS.of_eq rfl rfl rfl

theorem ts_pollRaise (st : St) : TS st (pollRaise st) := by
  unfold pollRaise
  exact (ts_with_inpoll st []).trans (ts_foldl_raiseSig _ _)

theorem ts_pollTimeout (st : St) (t : Option Int) : TS st (pollTimeout st t) := by
  unfold pollTimeout
  split
  · exact TS.of_eq rfl rfl rfl
  · exact TS.refl _

theorem ts_deliverPending (st : St) : TS st (deliverPending st) := by
  unfold deliverPending
  split <;> exact TS.of_eq rfl rfl rfl

theorem ts_ppoll (st : St) (t : Option Int) : TS st (ppoll st t).1 := by
  unfold ppoll
  split
  · exact (ts_pollScan st).trans (ts_pollRaise _)
  · split
    · exact ((ts_pollScan st).trans (ts_pollRaise _)).trans (ts_emit _ _)
    · split
      · exact ((((ts_pollScan st).trans (ts_pollRaise _)).trans (ts_deliverPending _)).trans (ts_with_errno _ _)).trans (ts_emit _ _)
      · exact (((ts_pollScan st).trans (ts_pollRaise _)).trans (ts_pollTimeout _ _)).trans (ts_emit _ _)

theorem ts_nextTimerMsec (st : St) : TS st (nextTimerMsec st).1 := by
  unfold nextTimerMsec
  split
  · exact TS.refl _
  · split
    · exact TS.refl _
    · split
      · exact (ts_emit _ _).trans (ts_fail _ _)
      · exact ts_emit _ _

theorem ts_cancelFoundAll (st : St) (a : Nat) (w : Watch) (l : List Nat) : TS st (cancelFound st a w l) := ts_cancelFound st a w l

/-! ### `TY`: the type of a timer / deferred callback that exists -/

structure TY (st st' : St) : Prop where
  h : MH st st'
  creq : ∀ k ∈ st.cancelReq, k ∈ st'.cancelReq
  alive : st'.alive = st.alive
  typ : ∀ x, x < st.heap.length → isOneShot (st.getW x).type = true →
    (st'.getW x).type = (st.getW x).type ∨
    ((st.getW x).type = .later ∧ (st'.getW x).type = .none ∧
      ((st.getW x).slot ∈ st'.cancelReq ∨ (st.getW x).slot < 0))

theorem TY.refl (st : St) : TY st st := ⟨MH.refl st, fun _ h => h, rfl, fun _ _ _ => Or.inl rfl⟩

theorem TY.trans {a b c : St} (h1 : TY a b) (h2 : TY b c) : TY a c := by
  refine ⟨h1.h.trans h2.h, fun k hk => h2.creq k (h1.creq k hk), h2.alive.trans h1.alive, ?_⟩
  intro x hx ho
  have hxb := Nat.lt_of_lt_of_le hx h1.h.len
  rcases h1.typ x hx ho with e1 | ⟨l1, n1, x1⟩
  · rcases h2.typ x hxb (by rw [e1]; exact ho) with e2 | ⟨l2, n2, x2⟩
    · exact Or.inl (e2.trans e1)
    · right
      rw [h1.h.slot x hx] at x2
      exact ⟨by rw [← e1]; exact l2, n2, x2⟩
  · right
    refine ⟨l1, ?_, x1.imp (fun h => h2.creq _ h) id⟩
    rcases h2.h.typ x hxb with e | e
    · rw [e]; exact n1
    · exact e

theorem TY.of_ts {st st' : St} (h : MH st st') (t : TS st st') : TY st st' :=
  ⟨h, fun k hk => by rw [t.creq]; exact hk, t.alive, fun x hx _ => Or.inl (t.typ x hx)⟩

/-- Marking a deferred callback of the detached batch for which a cancel has been asked (or an internal one). -/
theorem ty_cancelDetached (st : St) (a : Nat) (hl : (st.getW a).type = .later)
    (hx : (st.getW a).slot ∈ st.cancelReq ∨ (st.getW a).slot < 0) : TY st (cancelDetached st a) := by
  have hm := mh_cancelDetached st a
  have t1 := ts_cancelNotify st a (st.getW a)
  refine ⟨hm, ?_, (by unfold cancelDetached; exact t1.alive), ?_⟩
  · intro k hk
    unfold cancelDetached
    show k ∈ (cancelNotify st a (st.getW a)).cancelReq
    rw [t1.creq]; exact hk
  · intro x hxl ho
    unfold cancelDetached
    by_cases hax : a = x
    · subst hax
      right
      have hlt : a < (cancelNotify st a (st.getW a)).heap.length := Nat.lt_of_lt_of_le hxl t1.len
      refine ⟨hl, by rw [St.getW_setW_self _ a _ hlt], ?_⟩
      show (st.getW a).slot ∈ (cancelNotify st a (st.getW a)).cancelReq ∨ _
      rw [t1.creq]; exact hx
    · left
      rw [St.getW_setW_ne _ a x _ hax]
      exact t1.typ x hxl

theorem ty_watchCancel0 (st : St) (a : Nat)
    (hx : (st.getW a).type = .later → (st.getW a).slot ∈ st.cancelReq ∨ (st.getW a).slot < 0) : TY st (watchCancel0 st a) := by
  unfold watchCancel0
  split
  · exact TY.refl st
  · split
    · exact TY.of_ts (mh_fail st _) (ts_fail st _)
    · split
      · exact TY.refl st
      · split
        · exact TY.of_ts (mh_fail st _) (ts_fail st _)
        · split
          · split
            · rename_i hc
              exact ty_cancelDetached st a hc.2 (hx hc.2)
            · exact TY.refl st
          · exact TY.of_ts (mh_cancelFound st a _ _) (ts_cancelFound st a _ _)

theorem ty_watchCancel (st : St) (a : Nat) (k : K st)
    (hx : (st.getW a).type = .later → (st.getW a).slot ∈ st.cancelReq ∨ (st.getW a).slot < 0) : TY st (watchCancel st a) := by
  unfold watchCancel
  split
  · rename_i hc
    split
    · rename_i l hl
      have hlive : st.live a = true := by
        have := hc.2
        unfold cancelFindsProcess at this
        simp only [Bool.and_eq_true] at this
        exact this.1.1.2
      obtain ⟨p1, p2⟩ := k.p3 a (St.live_lt hlive) l hl
      have h1 := ty_watchCancel0 st a hx
      refine h1.trans (ty_watchCancel0 _ l (fun _ => Or.inr ?_))
      rw [h1.h.slot l p1]; exact p2
    · exact ty_watchCancel0 st a hx
  · exact ty_watchCancel0 st a hx

theorem ty_doRegister (st : St) (k : Int) (reg : St → St × Nat) (h : ∀ s, MH s (reg s).1) (h2 : ∀ s, TS s (reg s).1) :
    TY st (doRegister st k reg) := TY.of_ts (mh_doRegister st k reg h) (ts_doRegister st k reg h2)

theorem ty_doCancel (st : St) (k : Int) (kk : K st) : TY st (doCancel st k) := by
  unfold doCancel
  split
  · exact TY.of_ts (mh_emit _ _) (ts_emit _ _)
  · rename_i r hr
    obtain ⟨hmem, hk⟩ := findSlot_some hr
    have k1 : K ({ st with cancelReq := k :: st.cancelReq } : St) := K.of_q (Q.of_q0 (Q0.of_eq rfl rfl rfl rfl : Q0 st { st with cancelReq := k :: st.cancelReq })) kk
    have h0 : TY st ({ st with cancelReq := k :: st.cancelReq } : St) :=
      ⟨mh_with_cancelReq st _, fun x hx => List.mem_cons_of_mem _ hx, rfl, fun x _ _ => Or.inl rfl⟩
    refine h0.trans (ty_watchCancel _ r.handle k1 (fun _ => Or.inl ?_))
    show (st.getW r.handle).slot ∈ k :: st.cancelReq
    rw [(kk.s3 r hmem).2, hk]
    exact List.mem_cons_self

/-- Everything a callback can do. -/
theorem ty_runAct (st : St) (act : Act) (kk : K st) : TY st (runAct st act) := by
  unfold runAct
  split
  · exact TY.refl _
  · split
    · split
      · exact ty_doRegister _ _ _ (fun s => mh_watchTimerAfterMsec s _ _ _) (fun s => ts_watchTimerAfterMsec s _ _ _)
      · exact TY.refl _
    · split
      · exact ty_doRegister _ _ _ (fun s => mh_watchTimerAt s _ _ _) (fun s => ts_watchTimerAt s _ _ _)
      · exact TY.refl _
    · exact ty_doRegister _ _ _ (fun s => mh_watchLater s _ _ _) (fun s => ts_watchLater s _ _ _)
    · exact ty_doRegister _ _ _ (fun s => mh_watchIo s _ _ _ _) (fun s => ts_watchIo s _ _ _ _)
    · split
      · exact ty_doRegister _ _ _ (fun s => mh_watchSignal s _ _ _) (fun s => ts_watchSignal s _ _ _)
      · exact TY.refl _
    · split
      · exact ty_doRegister _ _ _ (fun s => mh_watchProcess s _ _ _) (fun s => ts_watchProcess s _ _ _)
      · exact TY.refl _
    · exact ty_doCancel _ _ kk
    · exact TY.of_ts (mh_with_errno _ _) (ts_with_errno _ _)
    · split
      · exact TY.of_ts (mh_raiseSig _ _) (ts_raiseSig _ _)
      · exact TY.refl _
    · split
      · split
        · exact TY.refl _
        · exact TY.of_ts (mh_with_children _ _) (ts_with_children _ _)
      · exact TY.refl _
    · exact TY.of_ts (mh_with_stillRunning _ _) (ts_with_stillRunning _ _)
    · exact TY.refl _

theorem ty_runActs (acts : List Act) : ∀ st : St, K st →
    TY st (acts.foldl (fun st act => if st.isOk then runAct (st.emit .a) act else st) st) := by
  induction acts with
  | nil => intro st _; exact TY.refl st
  | cons a rest ih =>
    intro st kk
    simp only [List.foldl_cons]
    split
    · have k1 : K (st.emit .a) := kk.emit _
      have k2 : K (runAct (st.emit .a) a) := K.of_q (q_runAct _ _) k1
      exact ((TY.of_ts (mh_emit st _) (ts_emit st _)).trans (ty_runAct _ _ k1)).trans (ih _ k2)
    · exact ih _ kk

theorem ty_fireUser (st : St) (k : Int) (flags : Nat) (info : Info) (kk : K st) : TY st (fireUser st k flags info) := by
  have k1 : K (st.emit (.cb k flags info)) := kk.emit _
  have k2 : K (bump (st.emit (.cb k flags info)) k) := k1.bump _
  have h2 : TY st (bump (st.emit (.cb k flags info)) k) :=
    TY.of_ts ((mh_emit _ _).trans (mh_with_slots _ _)) ((ts_emit _ _).trans (ts_with_slots _ _))
  unfold fireUser
  simp only []
  split
  · exact TY.of_ts (mh_emit _ _) (ts_emit _ _)
  · split
    · exact h2
    · rename_i b _
      exact h2.trans (ty_runActs b.acts _ k2)

/-! ### the functions that invoke callbacks: the bundle `B` moves on, and `TY` holds -/

/-- `B D st → B D st' ∧ TY st st'`. -/
def BT (D : List Nat) (st st' : St) : Prop := B D st → B D st' ∧ TY st st'

theorem BT.refl (D : List Nat) (st : St) : BT D st st := fun b => ⟨b, TY.refl st⟩
theorem BT.trans {D : List Nat} {a b c : St} (h1 : BT D a b) (h2 : BT D b c) : BT D a c :=
  fun x => ⟨(h2 (h1 x).1).1, (h1 x).2.trans (h2 (h1 x).1).2⟩
theorem BT.mk {D : List Nat} {st st' : St} (bs : BStep D st st') (t : B D st → TY st st') : BT D st st' := fun b => ⟨bs b, t b⟩
theorem BT.of_ts {D : List Nat} {st st' : St} (bs : BStep D st st') (h : MH st st') (t : TS st st') : BT D st st' :=
  BT.mk bs (fun _ => TY.of_ts h t)

theorem bt_fail (D : List Nat) (st : St) (w : Ub) : BT D st (st.fail w) := BT.of_ts (b_fail D st w) (mh_fail st w) (ts_fail st w)
theorem bt_emit (D : List Nat) (st : St) (e : Ev) : BT D st (st.emit e) := BT.of_ts (b_emit D st e) (mh_emit st e) (ts_emit st e)
theorem bt_outOfFuel (D : List Nat) (st : St) : BT D st (if st.isOk then { st with status := .outOfFuel } else st) :=
  BT.mk (b_outOfFuel D st) (fun _ => by
    split
    · exact TY.of_ts (mh_with_status _ _ (by intro h; cases h)) (TS.of_eq rfl rfl rfl)
    · exact TY.refl _)

/-- A step that changes the type of one watch only, which is not a timer / deferred callback. -/
theorem TY.of_only {st st' : St} (h : MH st st') (hc : st'.cancelReq = st.cancelReq) (hal : st'.alive = st.alive) (a : Nat)
    (hother : ∀ x, x < st.heap.length → x ≠ a → (st'.getW x).type = (st.getW x).type)
    (hns : isOneShot (st.getW a).type = false) : TY st st' := by
  refine ⟨h, fun k hk => by rw [hc]; exact hk, hal, ?_⟩
  intro x hx ho
  by_cases hxa : x = a
  · subst hxa; rw [hns] at ho; cases ho
  · exact Or.inl (hother x hx hxa)

theorem type_free_ne (st : St) (a x : Nat) (h : x ≠ a) : ((st.free a).getW x).type = (st.getW x).type := by
  unfold St.free
  split
  · rw [St.getW_setW_ne st a x _ (Ne.symm h)]
  · rw [St.getW_fail]

theorem cancelReq_free (st : St) (a : Nat) : (st.free a).cancelReq = st.cancelReq := (ts_free st a).creq

/-- The tail of the repaired `invoke_watch` for a watch that is not a timer / deferred callback. -/
theorem ty_unlinkOneshotSaved (st : St) (a : Nat) (t : WType) (hns : isOneShot (st.getW a).type = false) :
    TY st (unlinkOneshotSaved st a t) := by
  refine TY.of_only (mh_unlinkOneshotSaved st a t) ?_ (r2_unlinkOneshotSaved [] st a t).alive a ?_ hns
  · unfold unlinkOneshotSaved
    split
    · rfl
    · split
      · exact (ts_fail _ _).creq
      · split
        · rfl
        · rw [cancelReq_free]; exact cancelReq_setListOf st t _
  · intro x hx hxa
    unfold unlinkOneshotSaved
    split
    · rfl
    · split
      · rw [St.getW_fail]
      · split
        · rfl
        · rw [type_free_ne _ a x hxa, St.getW_setW_ne _ a x _ (Ne.symm hxa), getW_setListOf]

theorem bt_fire_other (D : List Nat) (st : St) (c : Nat) (flags : Nat) (info : Info) (hc : c < st.heap.length)
    (ht : isOneShot (st.getW c).type = false) (hk : (st.getW c).slot ≥ 0) (hok : st.isOk = true) :
    BT D st (fireUser st (st.getW c).slot flags info) :=
  BT.mk (b_fire_other D st c flags info hc ht hk hok) (fun b => ty_fireUser _ _ _ _ b.k)

theorem bt_invokeWatch (D : List Nat) (st : St) (a : Nat) (flags : Nat) (info : Info) (ha : a < st.heap.length)
    (ht : isOneShot (st.getW a).type = false) : BT D st (invokeWatch st a flags info) := by
  refine BT.mk (b_invokeWatch D st a flags info ha ht) ?_
  intro b
  unfold invokeWatch
  split
  · exact TY.refl _
  · have hX : TY st (if (st.getW a).slot ≥ 0 then fireUser st (st.getW a).slot flags info else st) := by
      split
      · exact ty_fireUser _ _ _ _ b.k
      · exact TY.refl _
    generalize (if (st.getW a).slot ≥ 0 then fireUser st (st.getW a).slot flags info else st) = X at hX ⊢
    split
    · exact TY.of_ts (mh_fail _ _) (ts_fail _ _)
    · split
      · exact hX
      · rw [if_pos b.rep.2.1]
        exact hX.trans (ty_unlinkOneshotSaved X a _ (hX.h.notOneShot ha ht))

theorem bt_procStep (D : List Nat) (st : St) (a : Nat) (ha : a < st.heap.length) (ht : isOneShot (st.getW a).type = false) :
    BT D st (procStep st a) := by
  unfold procStep
  have q := q0_waitpidV st (st.getW a).pid
  have hw : BT D st (waitpidV st (st.getW a).pid).st :=
    BT.of_ts (BStep.of_q0 q (g4_waitpidV _ _).lstep (r2_waitpidV _ _ _)) (mh_waitpidV _ _) (ts_waitpidV _ _)
  split
  · exact hw
  · exact hw.trans (bt_invokeWatch D _ a _ _ (Nat.lt_of_lt_of_le ha q.b.h.len) (q.b.h.notOneShot ha ht))

theorem bt_procSnapLoop (D : List Nat) (l : List Nat) : ∀ st : St, BT D st (procSnapLoop st l) := by
  induction l with
  | nil => intro st; exact BT.refl _ st
  | cons a rest ih =>
    intro st
    unfold procSnapLoop
    split
    · exact BT.refl _ _
    · split
      · exact bt_fail _ _ _
      · split
        · exact ih _
        · rename_i hin
          split
          · exact bt_fail _ _ _
          · intro b
            have hmem : a ∈ listOf st .process := by
              have : st.procs.contains a = true := not_of_not_eq_true hin
              show a ∈ st.procs
              simpa using this
            have hty := b.wf.typ .process a hmem
            exact ((bt_procStep D st a (b.wf.alloc hmem) (by rw [hty]; rfl)).trans (ih _)) b

theorem bt_onSigchldAny (D : List Nat) (fuel : Nat) (st : St) : BT D st (onSigchldAny fuel st) := by
  intro b
  unfold onSigchldAny
  rw [if_pos b.rep.2.2.2]
  split
  · exact bt_fail _ _ _ b
  · exact bt_procSnapLoop _ _ _ b

theorem bt_processNotify (D : List Nat) (st : St) (a : Nat) (ha : a < st.heap.length) (hs : (st.getW a).slot = -4) :
    BT D st (processNotify st a) := by
  intro b
  unfold processNotify
  obtain ⟨h1, h2⟩ := b.k.p2 a ha hs
  split
  · exact bt_fail _ _ _ b
  · have q := q0_clearNotify st (st.getW a).puser
    have hc : BT D st (clearNotify st (st.getW a).puser) :=
      BT.of_ts (BStep.of_q0 q (g4_clearNotify st _).lstep (r2_clearNotify [] st _)) (mh_clearNotify _ _) (ts_clearNotify _ _)
    exact (hc.trans (bt_invokeWatch _ _ _ _ _ (Nat.lt_of_lt_of_le h1 q.b.h.len) (q.b.h.notOneShot h1 h2))) b

/-- The callback of a deferred callback (the harness's, or `process_notify`). -/
theorem ty_laterCb (D : List Nat) (st : St) (a : Nat) (ha : a < st.heap.length) (b : B D st) : TY st (laterCb st a) := by
  unfold laterCb
  split
  · exact ty_fireUser _ _ _ _ b.k
  · split
    · rename_i hs; exact (bt_processNotify D st a ha hs b).2
    · exact TY.refl _

theorem bt_laterPre (D : List Nat) (st : St) (a : Nat) : BT D st (laterPre st a) :=
  BT.of_ts (b_laterPre D st a) (mh_laterPre st a) (ts_laterPre st a)

/-! ### the loops of `tickit_evloop_invoke_timers` (the proofs of `b_laterLoopT`, `b_timerLoopPopT`, `b_invokeTimers`, with `TY` carried along) -/

theorem bt_laterLoopT (D : List Nat) (l : List Nat) : ∀ st : St,
    (∀ a ∈ l, a < st.heap.length ∧ (∀ t, a ∉ listOf st t) ∧ ((st.getW a).type = .later ∨ (st.getW a).type = .none)) →
    B (l ++ D) st → B D (laterLoopT st l).1 ∧ TY st (laterLoopT st l).1 := by
  induction l with
  | nil => intro st _ b; exact ⟨b, TY.refl st⟩
  | cons a rest ih =>
    intro st hl b
    have b' : B (a :: (rest ++ D)) st := b
    have ha := hl a List.mem_cons_self
    unfold laterLoopT
    split
    · rename_i hbad; exact ⟨b.of_not_ok (eq_false_of_not hbad), TY.refl _⟩
    · rename_i hok
      split
      · exact ⟨b_fail' _ _ b, TY.of_ts (mh_fail _ _) (ts_fail _ _)⟩
      · rename_i hlive
        have hlive' := not_of_not_eq_true hlive
        split
        · -- cancelled by an earlier callback of this iteration: freed without being invoked
          rename_i hskip
          have hty : (st.getW a).type = .none := ha.2.2.elim (fun h => absurd h hskip.2) id
          have f2 : LFacts st (st.free a) := lstep_free_unlisted st a ha.2.1 b.rep.1 b.wf
          have q := Q.of_q0 (q0_free st a)
          have hdead := St.live_free_self st a hlive'
          have b2 : B (rest ++ D) (st.free a) :=
            ⟨by rw [f2.cfg]; exact b.rep, f2.wf, K.of_q q b.k, Once.none_of_q q b.k b.o, (b'.li.free a).drop (fun _ => hdead),
             b.g.free a (fun r hr e ho => by rw [hty] at ho; cases ho)⟩
          have hm := mh_free st a
          have hrest : ∀ c ∈ rest, c < (st.free a).heap.length ∧ (∀ t, c ∉ listOf (st.free a) t) ∧
              (((st.free a).getW c).type = .later ∨ ((st.free a).getW c).type = .none) := by
            intro c hc
            have hc' := hl c (List.mem_cons_of_mem _ hc)
            refine ⟨Nat.lt_of_lt_of_le hc'.1 f2.len, unlisted_after f2 hc'.1 hc'.2.1, ?_⟩
            rcases hm.typ c hc'.1 with e | e
            · rw [e]; exact hc'.2.2
            · exact Or.inr e
          have r := ih _ hrest b2
          exact ⟨r.1, (TY.of_ts (mh_free st a) (ts_free st a)).trans r.2⟩
        · have b0 : B (a :: (rest ++ D)) (laterPre st a) := b_laterPre _ st a b'
          have hlen0 : (laterPre st a).heap.length = st.heap.length := by
            unfold laterPre; split
            · exact St.length_setW _ _ _
            · rfl
          have x := after_laterCb (rest ++ D) (laterPre st a) a b0 (by rw [hlen0]; exact ha.1)
            (by rw [isOk_laterPre]; exact not_of_not_eq_true hok) (by rw [live_laterPre st a a ha.1]; exact hlive')
          have f1 := l_laterPreCb st a b.rep.1 b.wf
          have t01 : TY st (laterCb (laterPre st a) a) :=
            (TY.of_ts (mh_laterPre st a) (ts_laterPre st a)).trans (ty_laterCb _ (laterPre st a) a (by rw [hlen0]; exact ha.1) b0)
          split
          · rename_i hbad; exact ⟨x.b_of_not_ok (eq_false_of_not hbad), t01⟩
          · split
            · rename_i hdead; exact ⟨b_fail' _ _ (x.b_of_dead (eq_false_of_not hdead)), t01.trans (TY.of_ts (mh_fail _ _) (ts_fail _ _))⟩
            · rename_i hl2
              have hl2' := not_of_not_eq_true hl2
              have hun1 := unlisted_after f1 ha.1 ha.2.1
              have b2 : B (rest ++ D) ((laterCb (laterPre st a) a).free a) := x.free hl2' hun1
              have f12 : LFacts st ((laterCb (laterPre st a) a).free a) :=
                (LStep.trans (fun _ _ => f1) (lstep_free_unlisted (laterCb (laterPre st a) a) a hun1)) b.rep.1 b.wf
              have hm : MH st ((laterCb (laterPre st a) a).free a) :=
                ((q0_laterPre st a).b.h.trans (mh_laterCb _ a)).trans (mh_free _ a)
              have hrest : ∀ c ∈ rest, c < ((laterCb (laterPre st a) a).free a).heap.length ∧
                  (∀ t, c ∉ listOf ((laterCb (laterPre st a) a).free a) t) ∧
                  ((((laterCb (laterPre st a) a).free a).getW c).type = .later ∨ (((laterCb (laterPre st a) a).free a).getW c).type = .none) := by
                intro c hc
                have hc' := hl c (List.mem_cons_of_mem _ hc)
                refine ⟨Nat.lt_of_lt_of_le hc'.1 f12.len, unlisted_after f12 hc'.1 hc'.2.1, ?_⟩
                rcases hm.typ c hc'.1 with e | e
                · rw [e]; exact hc'.2.2
                · exact Or.inr e
              have r := ih _ hrest b2
              exact ⟨r.1, (t01.trans (TY.of_ts (mh_free _ a) (ts_free _ a))).trans r.2⟩

theorem bt_timerLoopPopT (D : List Nat) (fuel : Nat) : ∀ (st : St) (now : TV), BT D st (timerLoopPopT fuel st now).1 := by
  induction fuel with
  | zero => intro st now; unfold timerLoopPopT; exact bt_outOfFuel _ st
  | succ n ih =>
    intro st now b
    unfold timerLoopPopT
    split
    · exact ⟨b, TY.refl _⟩
    · rename_i hok
      split
      · exact ⟨b, TY.refl _⟩
      · rename_i a rest hq
        split
        · exact bt_fail _ _ _ b
        · rename_i hlive
          split
          · exact ⟨b, TY.refl _⟩
          · have hok' := not_of_not_eq_true hok
            have hlive' := not_of_not_eq_true hlive
            have ha : a ∈ listOf st .timer := by show a ∈ st.timers; rw [hq]; exact List.mem_cons_self
            obtain ⟨fE, hun⟩ := lfacts_erase st a .timer b.wf ha
            rw [← pop_is_erase st a rest hq] at fE hun
            have halt : a < st.heap.length := b.wf.alloc ha
            -- the queue without its head: `a` is detached
            have li0 : Listed (a :: D) ({ st with timers := rest } : St) := by
              intro hok0 hal0 x hx hlx
              obtain ⟨l1, l2⟩ := b.li hok0 hal0 x hx hlx
              refine ⟨fun ht => ?_, fun ht => (l2 ht).imp id (List.mem_cons_of_mem _)⟩
              rcases l1 ht with e | e
              · rw [hq] at e
                simp only [List.mem_cons] at e
                rcases e with e | e
                · exact Or.inr (by simp [e])
                · exact Or.inl e
              · exact Or.inr (List.mem_cons_of_mem _ e)
            have b0 : B (a :: D) ({ st with timers := rest } : St) :=
              ⟨b.rep, fE.wf, K.of_q (Q.of_q0 (q0_with_timers st rest)) b.k, Once.none_of_q (Q.of_q0 (q0_with_timers st rest)) b.k b.o,
               li0, Gone.of_same rfl rfl rfl rfl b.g⟩
            have f1' := l_fireUser { st with timers := rest } (st.getW a).slot (EV_FIRE ||| EV_UNBIND) .none b.rep.1 fE.wf
            have hun1 := unlisted_after f1' (show a < ({ st with timers := rest } : St).heap.length from halt) hun
            -- the callback
            have x : After D (fireUser { st with timers := rest } (st.getW a).slot (EV_FIRE ||| EV_UNBIND) .none) a := by
              by_cases hk : (st.getW a).slot ≥ 0
              · exact after_fire D { st with timers := rest } a _ _ b0 halt hk hok' hlive'
              · rw [fireUser_neg _ _ _ _ b0.k (by omega)]
                exact After.of_b (b_emit _ _ _ b0) (by show (st.getW a).slot < 0; omega)
            have t0 : TY st (fireUser { st with timers := rest } (st.getW a).slot (EV_FIRE ||| EV_UNBIND) .none) :=
              (TY.of_ts (mh_with_timers st rest) (ts_with_timers st rest)).trans (ty_fireUser _ _ _ _ b0.k)
            simp only []
            split
            · rename_i hbad; exact ⟨x.b_of_not_ok (eq_false_of_not hbad), t0⟩
            · split
              · rename_i hdead
                exact ⟨b_fail _ _ _ (x.b_of_dead (eq_false_of_not hdead)), t0.trans (TY.of_ts (mh_fail _ _) (ts_fail _ _))⟩
              · rename_i hl2
                have r := ih _ now (x.free (not_of_not_eq_true hl2) hun1)
                exact ⟨r.1, (t0.trans (TY.of_ts (mh_free _ a) (ts_free _ a))).trans r.2⟩

theorem bt_timerPhase (D : List Nat) (fuel : Nat) (st : St) : BT D st (timerPhase fuel st) := by
  intro b
  unfold timerPhase
  split
  · exact ⟨b, TY.refl _⟩
  · rw [if_pos b.rep.1]
    exact ((bt_emit _ _ _).trans (bt_timerLoopPopT _ _ _ _)) b

theorem bt_invokeTimers (D : List Nat) (fuel : Nat) (st : St) : BT D st (invokeTimers fuel st) := by
  intro b
  unfold invokeTimers
  split
  · exact ⟨b, TY.refl _⟩
  · have w := b.wf
    have hc := b.rep.1
    -- detaching the later queue (as in `l_invokeTimers`)
    have f0 : LFacts st { st with laters := [] } := by
      have hsub : ∀ t, (listOf ({ st with laters := [] } : St) t).Sublist (listOf st t) := by
        intro t; cases t <;> first | exact List.Sublist.refl _ | exact List.nil_sublist _
      exact ⟨⟨fun t => (w.nodup t).sublist (hsub t), fun t b hb => w.live t b ((hsub t).subset hb),
        fun t b hb => w.typ t b ((hsub t).subset hb)⟩, Nat.le_refl _, fun t x hx => Or.inl ((hsub t).subset hx), rfl⟩
    have hdet : ∀ a ∈ st.laters, a < ({ st with laters := [] } : St).heap.length ∧ ∀ t, a ∉ listOf ({ st with laters := [] } : St) t := by
      intro a ha
      have ha' : a ∈ listOf st .later := ha
      refine ⟨w.alloc ha', ?_⟩
      intro t h
      have hsub : (listOf ({ st with laters := [] } : St) t).Sublist (listOf st t) := by
        cases t <;> first | exact List.Sublist.refl _ | exact List.nil_sublist _
      have h' := hsub.subset h
      by_cases ht : t = .later
      · subst ht; cases h
      · have h1 := w.typ t a h'
        have h2 := w.typ .later a ha'
        exact ht (h1.symm.trans h2)
    have li0 : Listed (st.laters ++ D) ({ st with laters := [] } : St) := by
      intro hok0 hal0 x hx hlx
      obtain ⟨l1, l2⟩ := b.li hok0 hal0 x hx hlx
      exact ⟨fun ht => (l1 ht).imp id (List.mem_append_right _),
             fun ht => Or.inr ((l2 ht).elim (List.mem_append_left _) (List.mem_append_right _))⟩
    have b0 : B (st.laters ++ D) ({ st with laters := [] } : St) :=
      ⟨b.rep, f0.wf, K.of_q (Q.of_q0 (q0_with_laters st [])) b.k, Once.none_of_q (Q.of_q0 (q0_with_laters st [])) b.k b.o,
       li0, Gone.of_same rfl rfl rfl rfl b.g⟩
    have f1' := l_timerPhase fuel { st with laters := [] } hc f0.wf
    have hm := mh_timerPhase fuel ({ st with laters := [] } : St)
    have hdet1 : ∀ a ∈ st.laters, a < (timerPhase fuel { st with laters := [] }).heap.length ∧
        (∀ t, a ∉ listOf (timerPhase fuel { st with laters := [] }) t) ∧
        (((timerPhase fuel { st with laters := [] }).getW a).type = .later ∨ ((timerPhase fuel { st with laters := [] }).getW a).type = .none) := by
      intro a ha
      refine ⟨Nat.lt_of_lt_of_le (hdet a ha).1 f1'.len, unlisted_after f1' (hdet a ha).1 (hdet a ha).2, ?_⟩
      have hty : (st.getW a).type = .later := w.typ .later a ha
      rcases hm.typ a (hdet a ha).1 with e | e
      · left; rw [e]; exact hty
      · exact Or.inr e
    have r1 := bt_timerPhase (st.laters ++ D) fuel _ b0
    have r2 := bt_laterLoopT D st.laters _ hdet1 r1.1
    exact ⟨r2.1, ((TY.of_ts (mh_with_laters st []) (ts_with_laters st [])).trans r1.2).trans r2.2⟩

/-! ### signals, descriptors, one iteration -/

theorem bt_sigCb (D : List Nat) (fuel : Nat) (st : St) (a : Nat) (s : Int) (ha : a < st.heap.length) (ht : isOneShot (st.getW a).type = false)
    (hok : st.isOk = true) : BT D st (sigCb fuel st a s) := by
  unfold sigCb
  split
  · split
    · rename_i hk; exact bt_fire_other D st a _ _ ha ht hk hok
    · split
      · exact bt_onSigchldAny _ _ _
      · split
        · exact BT.of_ts (BStep.of_q0 (q0_with_stillRunning _ _) (g4_with_stillRunning _ _).lstep (r2_with_stillRunning _ _ _))
            (mh_with_stillRunning _ _) (ts_with_stillRunning _ _)
        · exact BT.refl _ _
  · exact BT.refl _ _

theorem bt_sigSnapLoopT (D : List Nat) (fuel : Nat) (s : Int) (l : List Nat) : ∀ st : St, BT D st (sigSnapLoopT fuel st s l).1 := by
  induction l with
  | nil => intro st; exact BT.refl _ st
  | cons a rest ih =>
    intro st
    unfold sigSnapLoopT
    split
    · exact BT.refl _ _
    · rename_i hok
      split
      · exact bt_fail _ _ _
      · split
        · exact ih _
        · rename_i hin
          split
          · exact bt_fail _ _ _
          · intro b
            have hmem : a ∈ listOf st .signal := by
              have : st.signals.contains a = true := not_of_not_eq_true hin
              show a ∈ st.signals
              simpa using this
            have hty := b.wf.typ .signal a hmem
            exact ((bt_sigCb D fuel st a s (b.wf.alloc hmem) (by rw [hty]; rfl) (not_of_not_eq_true hok)).trans (ih _)) b

theorem bt_sigDispatch (D : List Nat) (fuel : Nat) (st : St) (s : Int) : BT D st (sigDispatch fuel st s) := by
  intro b
  unfold sigDispatch
  rw [if_pos b.rep.2.2.1]
  split
  · exact bt_fail _ _ _ b
  · exact bt_sigSnapLoopT _ _ _ _ _ b

theorem bt_dispatchLoop (D : List Nat) (fuel : Nat) (pending : List Int) (l : List Int) : ∀ st : St, BT D st (dispatchLoop fuel st pending l) := by
  induction l with
  | nil => intro st; exact BT.refl _ st
  | cons s rest ih =>
    intro st
    unfold dispatchLoop
    refine BT.trans ?_ (ih _)
    split
    · exact bt_sigDispatch _ _ _ _
    · exact BT.refl _ _

theorem bt_dispatchSignals (D : List Nat) (fuel : Nat) (st : St) : BT D st (dispatchSignals fuel st) := by
  unfold dispatchSignals
  exact (BT.of_ts (BStep.of_q0 (q0_with_pendingSig st []) (g4_with_pendingSig st []).lstep (r2_with_pendingSig _ _ _))
    (mh_with_pendingSig st []) (ts_with_pendingSig st [])).trans (bt_dispatchLoop _ _ _ _ _)

theorem bt_ioCb (D : List Nat) (st : St) (s : PollSlot) (hs : s ∈ st.pfd) : BT D st (ioCb st s) := by
  intro b
  unfold ioCb
  split
  · rename_i a hw
    obtain ⟨h1, h2⟩ := b.k.p1 s hs a hw
    split
    · exact bt_fail _ _ _ b
    · exact bt_invokeWatch _ _ _ _ _ h1 h2 b
  · exact ⟨b, TY.refl _⟩

theorem bt_ioLoopT (D : List Nat) (fuel : Nat) : ∀ (st : St) (idx : Nat), BT D st (ioLoopT fuel st idx).1 := by
  induction fuel with
  | zero => intro st idx; unfold ioLoopT; exact bt_outOfFuel _ st
  | succ n ih =>
    intro st idx
    unfold ioLoopT
    split
    · exact BT.refl _ _
    · split
      · exact BT.refl _ _
      · rename_i hidx
        split
        · exact ih _ _
        · split
          · exact ih _ _
          · exact (bt_ioCb _ _ _ (getD_mem_pfd (by omega))).trans (ih _ _)

theorem bt_ioLoop (D : List Nat) (fuel : Nat) (st : St) (idx : Nat) : BT D st (ioLoop fuel st idx) := bt_ioLoopT D fuel st idx

theorem bt_tickAfterPoll (D : List Nat) (fuel : Nat) (st : St) (ret : Option Nat) : BT D st (tickAfterPoll fuel st ret) := by
  unfold tickAfterPoll
  split
  · exact bt_invokeTimers _ _ _
  · split
    · split
      · exact (bt_invokeTimers _ _ _).trans (bt_ioLoop _ _ _ _)
      · exact bt_invokeTimers _ _ _
    · split
      · exact (bt_invokeTimers _ _ _).trans (bt_dispatchSignals _ _ _)
      · exact bt_invokeTimers _ _ _

/-- The wait and what precedes it change no type and ask for no cancel. -/
theorem bt_beforeTimers (D : List Nat) (st : St) (t : Option Int) : BT D st (ppoll (nextTimerMsec st).1 t).1 :=
  BT.of_ts (BStep.of_q0 ((q0_nextTimerMsec _).trans (q0_ppoll _ _)) ((g4_nextTimerMsec _).trans (g4_ppoll _ _)).lstep
      ((r2_nextTimerMsec _).trans (r2_ppoll _ _)))
    ((mh_nextTimerMsec _).trans (mh_ppoll _ _)) ((ts_nextTimerMsec _).trans (ts_ppoll _ _))

theorem bt_tick (D : List Nat) (fuel : Nat) (st : St) (nohang : Bool) : BT D st (tick fuel st nohang) := by
  unfold tick
  split
  · exact BT.refl _ _
  · split
    · exact BT.of_ts (BStep.of_q0 (q0_nextTimerMsec _) (g4_nextTimerMsec _).lstep (r2_nextTimerMsec _)) (mh_nextTimerMsec _) (ts_nextTimerMsec _)
    · split
      · exact bt_beforeTimers _ _ _
      · exact (bt_beforeTimers _ _ _).trans (bt_tickAfterPoll _ _ _ _)

/-! ### one iteration, composed -/

/-- The harness's record of a watch follows it from state to state. -/
theorem record_persists {st st' : St} (k : K st) (k' : K st') (h : MH st st') (r : SlotRec) (hr : r ∈ st.slots) :
    ∃ r' ∈ st'.slots, r'.k = r.k ∧ r'.handle = r.handle := by
  obtain ⟨hlt, hslot⟩ := k.s3 r hr
  obtain ⟨r', hr', e1, e2⟩ := k'.s1 r.handle (Nat.lt_of_lt_of_le hlt h.len) (by rw [h.slot _ hlt, hslot]; exact k.s4 r hr)
  exact ⟨r', hr', by rw [e1, h.slot _ hlt, hslot], e2⟩

/-- After `tickit_evloop_invoke_timers` the queue of deferred callbacks holds only ones registered since it began
    (the batch that was queued has been detached; only new watches enter a queue). -/
theorem invokeTimers_laters_fresh (fuel : Nat) (st : St) (hok : st.isOk = true) (hc : st.cfg.timersPop = true) (w : WF st) :
    ∀ x ∈ (invokeTimers fuel st).laters, st.heap.length ≤ x := by
  unfold invokeTimers
  split
  · rename_i hbad
    rw [hok] at hbad
    cases hbad
  · have f0 : LFacts st { st with laters := [] } := by
      have hsub : ∀ t, (listOf ({ st with laters := [] } : St) t).Sublist (listOf st t) := by
        intro t; cases t <;> first | exact List.Sublist.refl _ | exact List.nil_sublist _
      exact ⟨⟨fun t => (w.nodup t).sublist (hsub t), fun t b hb => w.live t b ((hsub t).subset hb),
        fun t b hb => w.typ t b ((hsub t).subset hb)⟩, Nat.le_refl _, fun t x hx => Or.inl ((hsub t).subset hx), rfl⟩
    have hdet : ∀ a ∈ st.laters, a < ({ st with laters := [] } : St).heap.length ∧ ∀ t, a ∉ listOf ({ st with laters := [] } : St) t := by
      intro a ha
      have ha' : a ∈ listOf st .later := ha
      refine ⟨w.alloc ha', ?_⟩
      intro t h
      have hsub : (listOf ({ st with laters := [] } : St) t).Sublist (listOf st t) := by
        cases t <;> first | exact List.Sublist.refl _ | exact List.nil_sublist _
      have h' := hsub.subset h
      by_cases ht : t = .later
      · subst ht; cases h
      · have h1 := w.typ t a h'
        have h2 := w.typ .later a ha'
        exact ht (h1.symm.trans h2)
    have f1' := l_timerPhase fuel { st with laters := [] } hc f0.wf
    have hdet1 : ∀ a ∈ st.laters, a < (timerPhase fuel { st with laters := [] }).heap.length ∧
        ∀ t, a ∉ listOf (timerPhase fuel { st with laters := [] }) t :=
      fun a ha => ⟨Nat.lt_of_lt_of_le (hdet a ha).1 f1'.len, unlisted_after f1' (hdet a ha).1 (hdet a ha).2⟩
    have f2 : LFacts ({ st with laters := [] } : St) (laterLoopT (timerPhase fuel { st with laters := [] }) st.laters).1 :=
      (LStep.trans (l_timerPhase fuel { st with laters := [] }) (l_laterLoopT st.laters _ hdet1)) hc f0.wf
    intro x hx
    cases f2.fresh .later x hx with
    | inl h => cases h
    | inr h => exact h

/-- What follows `tickit_evloop_invoke_timers` in an iteration (the descriptors, or the signals, or nothing). -/
theorem afterTimers_facts (fuel : Nat) (st : St) (ret : Option Nat) :
    Pres (invokeTimers fuel st) (tickAfterPoll fuel st ret) ∧ LStep (invokeTimers fuel st) (tickAfterPoll fuel st ret) ∧
    ((tickAfterPoll fuel st ret).isOk = true → (invokeTimers fuel st).isOk = true) := by
  unfold tickAfterPoll
  split
  · exact ⟨Pres.refl _, LStep.refl _, id⟩
  · split
    · split
      · exact ⟨pres_ioLoop _ _ _, l_ioLoop _ _ _, (mh_ioLoop _ _ _).ok⟩
      · exact ⟨Pres.refl _, LStep.refl _, id⟩
    · split
      · exact ⟨pres_dispatchSignals _ _, l_dispatchSignals _ _, (mh_dispatchSignals _ _).ok⟩
      · exact ⟨Pres.refl _, LStep.refl _, id⟩

/-- When an iteration that began its timer phase in `st` ends normally, no timer that existed then and is still
    queued was due (by the clock of the timer phase). -/
theorem tickAfterPoll_none_due (fuel : Nat) (st : St) (ret : Option Nat) (hc : st.cfg.timersPop = true) (q : QInv st)
    (hok : (tickAfterPoll fuel st ret).status = .ok) :
    ∀ x ∈ (tickAfterPoll fuel st ret).timers, x < st.heap.length → (dueOf st x).gt (TV.ofUs st.clockUs) = true := by
  obtain ⟨pA, _, okA⟩ := afterTimers_facts fuel st ret
  have hokI : (invokeTimers fuel st).isOk = true := okA ((St.isOk_iff _).mpr hok)
  have pI := pres_invokeTimers fuel st
  intro x hx hlt
  have hx1 : x ∈ (invokeTimers fuel st).timers := by
    cases pA.mem x hx with
    | inl h => exact h
    | inr h => have := pI.ext.len; omega
  have hok0 : st.isOk = true := (mh_invokeTimers fuel st).ok hokI
  unfold invokeTimers at hx1 hokI
  rw [hok0] at hx1 hokI
  simp only [Bool.not_true, Bool.false_eq_true, if_false] at hx1 hokI
  have pL := pres_laterLoop st.laters (timerPhase fuel { st with laters := [] })
  have pT := pres_timerPhase fuel { st with laters := [] }
  have hx2 : x ∈ (timerPhase fuel { st with laters := [] }).timers := by
    cases pL.mem x hx1 with
    | inl h => exact h
    | inr h => have := pT.ext.len; have : ({ st with laters := [] } : St).heap.length = st.heap.length := rfl; omega
  have hokT : (timerPhase fuel { st with laters := [] }).isOk = true := (mh_laterLoop _ _).ok hokI
  unfold timerPhase at hx2 hokT
  split at hx2
  · rename_i he
    have : x ∈ st.timers := hx2
    have he' : st.timers.isEmpty = true := he
    rw [List.isEmpty_iff] at he'
    rw [he'] at this; cases this
  · rename_i he
    have hc' : ({ st with laters := [] } : St).cfg.timersPop = true := hc
    rw [if_neg he, if_pos hc'] at hokT
    unfold timerLoopPop at hx2 hokT
    have q1 : QInv (({ st with laters := [] } : St).emit .g) := q.grow ((grow_with_laters st []).trans (grow_emit _ _))
    have hnd := timerLoopPopT_none_due fuel _ (TV.ofUs ({ st with laters := [] } : St).clockUs) q1 ((St.isOk_iff _).mp hokT) x hx2
    have hdue := (pres_timerLoopPopT fuel (({ st with laters := [] } : St).emit .g) (TV.ofUs ({ st with laters := [] } : St).clockUs)).ext.due x hlt
    rw [hdue] at hnd
    exact hnd

/-- … and the deferred callbacks queued then are only ones registered during the iteration. -/
theorem tickAfterPoll_laters_fresh (fuel : Nat) (st : St) (ret : Option Nat) (hok : st.isOk = true) (hc : st.cfg.timersPop = true) (w : WF st) :
    ∀ x ∈ (tickAfterPoll fuel st ret).laters, st.heap.length ≤ x := by
  obtain ⟨_, lA, _⟩ := afterTimers_facts fuel st ret
  have fI := l_invokeTimers fuel st hc w
  have fA := lA (by rw [fI.cfg]; exact hc) fI.wf
  intro x hx
  cases fA.fresh .later x hx with
  | inl h => exact invokeTimers_laters_fresh fuel st hok hc w x h
  | inr h => exact Nat.le_trans fI.len h

/-- An iteration that ends normally got past the wait. -/
theorem tick_eq_afterPoll (fuel : Nat) (st : St) (nohang : Bool) (hok : (tick fuel st nohang).status = .ok) :
    tick fuel st nohang = tickAfterPoll fuel (ppoll (nextTimerMsec st).1 (tickTimeout nohang (nextTimerMsec st).2)).1
      (ppoll (nextTimerMsec st).1 (tickTimeout nohang (nextTimerMsec st).2)).2 ∧
    (ppoll (nextTimerMsec st).1 (tickTimeout nohang (nextTimerMsec st).2)).1.isOk = true := by
  unfold tick at hok ⊢
  by_cases c1 : (!st.isOk) = true
  · rw [if_pos c1] at hok; exact St.not_ok_absurd c1 hok
  · rw [if_neg c1] at hok ⊢
    by_cases c2 : (!(nextTimerMsec st).1.isOk) = true
    · rw [if_pos c2] at hok; exact St.not_ok_absurd c2 hok
    · rw [if_neg c2] at hok ⊢
      by_cases c3 : (!(ppoll (nextTimerMsec st).1 (tickTimeout nohang (nextTimerMsec st).2)).1.isOk) = true
      · rw [if_pos c3] at hok; exact St.not_ok_absurd c3 hok
      · rw [if_neg c3]
        exact ⟨rfl, isOk_of_not_not c3⟩

/-- Exactly once, for one iteration, timers: a timer of the harness that is queued when an iteration begins in a
    reachable state and is due when its timer phase starts (by the clock after the wait), and for which no cancel has
    been asked by the time the iteration ends, has not been invoked before, is gone when the iteration ends, and has then
    been invoked exactly once. -/
theorem timer_once_in_iteration (fuel : Nat) (st : St) (nohang : Bool) (b : B [] st) (q : QInv st) (hal : st.alive = true)
    (r : SlotRec) (hr : r ∈ st.slots) (ht : (st.getW r.handle).type = .timer) (hl : st.live r.handle = true)
    (hdue : (st.getW r.handle).due.gt
      (TV.ofUs (ppoll (nextTimerMsec st).1 (tickTimeout nohang (nextTimerMsec st).2)).1.clockUs) = false)
    (hok : (tick fuel st nohang).status = .ok) (hnc : r.k ∉ (tick fuel st nohang).cancelReq) :
    r.handle ∈ st.timers ∧ r.fires = 0 ∧ (tick fuel st nohang).live r.handle = false ∧
    ∃ r' ∈ (tick fuel st nohang).slots, r'.k = r.k ∧ r'.handle = r.handle ∧ r'.fires = 1 := by
  obtain ⟨b', ty⟩ := bt_tick [] fuel st nohang b
  have hok' : (tick fuel st nohang).isOk = true := (St.isOk_iff _).mpr hok
  have hok0 : st.isOk = true := ty.h.ok hok'
  obtain ⟨hlt, hslot⟩ := b.k.s3 r hr
  have hq0 : r.handle ∈ st.timers := ((b.li hok0 hal r.handle hlt hl).1 ht).elim id (fun h => by cases h)
  have hf0 : r.fires = 0 := (b.o r hr (by rw [ht]; rfl)).2.1 hok0 hl (by intro h; cases h)
  have hty : ((tick fuel st nohang).getW r.handle).type = .timer := by
    rcases ty.typ r.handle hlt (by rw [ht]; rfl) with e | ⟨l, _, _⟩
    · rw [e, ht]
    · rw [ht] at l; cases l
  have hal' : (tick fuel st nohang).alive = true := ty.alive.trans hal
  obtain ⟨r', hr', e1, e2⟩ := record_persists b.k b'.k ty.h r hr
  have hdead : (tick fuel st nohang).live r.handle = false := by
    cases hlive : (tick fuel st nohang).live r.handle with
    | false => rfl
    | true =>
      exfalso
      have hin : r.handle ∈ (tick fuel st nohang).timers :=
        ((b'.li hok' hal' r.handle (Nat.lt_of_lt_of_le hlt ty.h.len) hlive).1 hty).elim id (fun h => by cases h)
      obtain ⟨he, hokq⟩ := tick_eq_afterPoll fuel st nohang hok
      rw [he] at hin hok
      have g := (grow_nextTimerMsec st).trans (grow_ppoll (nextTimerMsec st).1 (tickTimeout nohang (nextTimerMsec st).2))
      have g4 := (g4_nextTimerMsec st).trans (g4_ppoll (nextTimerMsec st).1 (tickTimeout nohang (nextTimerMsec st).2))
      have hnd := tickAfterPoll_none_due fuel _ _ (by rw [g4.cfg]; exact b.rep.1) (q.grow g) hok r.handle hin
        (Nat.lt_of_lt_of_le hlt g.ext.len)
      rw [g.ext.due r.handle hlt] at hnd
      unfold dueOf at hnd
      rw [hdue] at hnd
      cases hnd
  refine ⟨hq0, hf0, hdead, r', hr', e1, e2, ?_⟩
  exact b'.g hal' r' hr' (by rw [e2, hty]; rfl) (by rw [e1]; exact hnc) (by rw [e2]; exact hdead)

/-- Exactly once, for one iteration, deferred callbacks: a deferred callback of the harness that is queued when an
    iteration begins in a reachable state, and for which no cancel has been asked by the time the iteration ends, has not
    been invoked before, is gone when the iteration ends, and has then been invoked exactly once. -/
theorem later_once_in_iteration (fuel : Nat) (st : St) (nohang : Bool) (b : B [] st) (hal : st.alive = true)
    (r : SlotRec) (hr : r ∈ st.slots) (ht : (st.getW r.handle).type = .later) (hl : st.live r.handle = true)
    (hok : (tick fuel st nohang).status = .ok) (hnc : r.k ∉ (tick fuel st nohang).cancelReq) :
    r.handle ∈ st.laters ∧ r.fires = 0 ∧ (tick fuel st nohang).live r.handle = false ∧
    ∃ r' ∈ (tick fuel st nohang).slots, r'.k = r.k ∧ r'.handle = r.handle ∧ r'.fires = 1 := by
  obtain ⟨b', ty⟩ := bt_tick [] fuel st nohang b
  have hok' : (tick fuel st nohang).isOk = true := (St.isOk_iff _).mpr hok
  have hok0 : st.isOk = true := ty.h.ok hok'
  obtain ⟨hlt, hslot⟩ := b.k.s3 r hr
  have hq0 : r.handle ∈ st.laters := ((b.li hok0 hal r.handle hlt hl).2 ht).elim id (fun h => by cases h)
  have hf0 : r.fires = 0 := (b.o r hr (by rw [ht]; rfl)).2.1 hok0 hl (by intro h; cases h)
  have hty : ((tick fuel st nohang).getW r.handle).type = .later := by
    rcases ty.typ r.handle hlt (by rw [ht]; rfl) with e | ⟨_, _, ex⟩
    · rw [e, ht]
    · exfalso
      rw [hslot] at ex
      rcases ex with ex | ex
      · exact hnc ex
      · have := b.k.s4 r hr; omega
  have hal' : (tick fuel st nohang).alive = true := ty.alive.trans hal
  obtain ⟨r', hr', e1, e2⟩ := record_persists b.k b'.k ty.h r hr
  have hdead : (tick fuel st nohang).live r.handle = false := by
    cases hlive : (tick fuel st nohang).live r.handle with
    | false => rfl
    | true =>
      exfalso
      have hin : r.handle ∈ (tick fuel st nohang).laters :=
        ((b'.li hok' hal' r.handle (Nat.lt_of_lt_of_le hlt ty.h.len) hlive).2 hty).elim id (fun h => by cases h)
      obtain ⟨he, hokq⟩ := tick_eq_afterPoll fuel st nohang hok
      rw [he] at hin
      have bq := (bt_beforeTimers [] st (tickTimeout nohang (nextTimerMsec st).2) b).1
      have g := (grow_nextTimerMsec st).trans (grow_ppoll (nextTimerMsec st).1 (tickTimeout nohang (nextTimerMsec st).2))
      have := tickAfterPoll_laters_fresh fuel _ _ hokq bq.rep.1 bq.wf r.handle hin
      have := g.ext.len
      omega
  refine ⟨hq0, hf0, hdead, r', hr', e1, e2, ?_⟩
  exact b'.g hal' r' hr' (by rw [e2, hty]; rfl) (by rw [e1]; exact hnc) (by rw [e2]; exact hdead)

/-! ### the clock of the timer phase -/

/-- The clock when the timer phase of the iteration starts: the harness's clock after the wait (`gettimeofday` in
    `tickit_evloop_invoke_timers`). -/
def phaseClock (st : St) (nohang : Bool) : Int :=
  (ppoll (nextTimerMsec st).1 (tickTimeout nohang (nextTimerMsec st).2)).1.clockUs

theorem clock_raiseSig (st : St) (s : Int) : (raiseSig st s).clockUs = st.clockUs := by
  unfold raiseSig
  split
  · rfl
  · split
    · rfl
    · split
      · unfold sigRecord; split <;> rfl
      · split <;> rfl

theorem clock_foldl_raiseSig (l : List Int) : ∀ st : St, (l.foldl raiseSig st).clockUs = st.clockUs := by
  induction l with
  | nil => intro st; rfl
  | cons s rest ih => intro st; simp only [List.foldl_cons]; rw [ih, clock_raiseSig]

theorem clock_nextTimerMsec (st : St) : (nextTimerMsec st).1.clockUs = st.clockUs := by
  unfold nextTimerMsec
  split
  · rfl
  · split
    · rfl
    · split
      · show ((st.emit .g).fail _).clockUs = _
        unfold St.fail; split <;> rfl
      · rfl

/-- A non-blocking iteration (`tickit_tick(t, TICKIT_RUN_NOHANG)`) does not advance the harness's clock. -/
theorem phaseClock_nohang (st : St) : phaseClock st true = st.clockUs := by
  unfold phaseClock tickTimeout
  simp only [if_true]
  rw [if_pos (by decide)]
  have hr : ∀ s : St, (pollRaise (pollScan s)).clockUs = s.clockUs := by
    intro s; unfold pollRaise; rw [clock_foldl_raiseSig]; rfl
  have hd : ∀ s : St, (deliverPending s).clockUs = s.clockUs := by
    intro s; unfold deliverPending; split <;> rfl
  unfold ppoll
  split
  · rw [hr, clock_nextTimerMsec]
  · split
    · show (pollRaise (pollScan _)).clockUs = _
      rw [hr, clock_nextTimerMsec]
    · split
      · show (deliverPending (pollRaise (pollScan _))).clockUs = _
        rw [hd, hr, clock_nextTimerMsec]
      · show (pollTimeout (pollRaise (pollScan _)) (some 0)).clockUs = _
        unfold pollTimeout
        show (pollRaise (pollScan _)).clockUs + 0 * 1000 = _
        rw [hr, clock_nextTimerMsec]; omega

end Tickit.EvLoop
