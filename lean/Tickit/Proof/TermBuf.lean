import Tickit.Model.TermBuf
/-
  Helper definitions and lemmas for C11 (output buffer of term.c).  Core Lean only.

  The central notion is `Ext st st' w`: "`st'` is `st` after the byte string `w` has been accepted":
  same configuration and mode, only new well-formed chunks appended, and
  `delivered ++ pending` grown by exactly `w`.
-/
namespace Tickit.TermBuf
open Tickit.Gen.TermBuf

/-! ### vocabulary of the specification -/

/-- The bytes a chunk carries (`fin`, the `(NULL, 0)` call, carries none). -/
def Chunk.bytes : Chunk → Bytes
  | .data _ b => b
  | .fin => []

/-- Concatenation of everything delivered. -/
def stream (cs : List Chunk) : Bytes := cs.flatMap Chunk.bytes

/-- There is an output method. -/
def Attached (st : State) : Prop := st.hasFunc = true ∨ st.outfd ≠ -1

/-- The output method in force: the function wins over the descriptor. -/
def sink (st : State) : Dest := if st.hasFunc then .func else .fd

/-- "Fill level < n between calls" (and nothing is ever pending without a buffer). -/
def WF (st : State) : Prop :=
  (st.bufLen = 0 → st.buf = []) ∧ (0 < st.bufLen → st.buf.length < st.bufLen)

/-- A chunk as the property wants it, for buffer size `n` (0 = none) and output method `d`:
    data for `d`; with a buffer, never empty and never larger than the buffer.
    (`fin`, the `(NULL, 0)` call that announces the end of the output function's use, carries no data.) -/
def ChunkOK (n : Nat) (d : Dest) (c : Chunk) : Prop :=
  c = .fin ∨ ∃ b, c = .data d b ∧ (0 < n → 0 < b.length ∧ b.length ≤ n)

/-- `st'` is `st` after the bytes `w` have been accepted and the mode has become `m'`. -/
structure ExtM (st st' : State) (w : Bytes) (m' : Mode) : Prop where
  hasFunc : st'.hasFunc = st.hasFunc
  outfd   : st'.outfd = st.outfd
  bufLen  : st'.bufLen = st.bufLen
  mode    : st'.mode = m'
  out     : ∃ new, st'.out = st.out ++ new ∧ ∀ c ∈ new, ChunkOK st.bufLen (sink st) c
  eqn     : Attached st → stream st'.out ++ st'.buf = stream st.out ++ st.buf ++ w
  wf      : WF st'

/-- The same with the mode unchanged. -/
abbrev Ext (st st' : State) (w : Bytes) : Prop := ExtM st st' w st.mode

/-! ### basic facts -/

@[simp] theorem stream_nil : stream [] = [] := rfl

@[simp] theorem stream_append (a b : List Chunk) : stream (a ++ b) = stream a ++ stream b := by
  simp [stream]

@[simp] theorem stream_data (d : Dest) (b : Bytes) : stream [.data d b] = b := by
  simp [stream, Chunk.bytes]

@[simp] theorem stream_fin : stream [.fin] = [] := by
  simp [stream, Chunk.bytes]

theorem bind_eq_ok {o : Outcome} {f : State → Outcome} {s : State} :
    o.bind f = .ok s ↔ ∃ t, o = .ok t ∧ f t = .ok s := by
  cases o <;> simp [Outcome.bind]

theorem take_cstrlen (mem : Bytes) : mem.take (cstrlen mem) = cstr mem := by
  unfold cstrlen cstr
  induction mem with
  | nil => simp
  | cons a r ih =>
    by_cases h : (a != 0) = true
    · simp [List.takeWhile_cons, h, ih]
    · simp [List.takeWhile_cons, h]

theorem cstrlen_le (mem : Bytes) : cstrlen mem ≤ mem.length := by
  unfold cstrlen cstr
  exact (List.takeWhile_sublist _).length_le

theorem Ext.refl {st : State} (h : WF st) : Ext st st [] :=
  ⟨rfl, rfl, rfl, rfl, ⟨[], by simp⟩, by simp, h⟩

theorem sink_congr {a b : State} (h : b.hasFunc = a.hasFunc) : sink b = sink a := by
  simp [sink, h]

theorem ExtM.trans {a b c : State} {w1 w2 : Bytes} {m1 m2 : Mode} (h1 : ExtM a b w1 m1) (h2 : ExtM b c w2 m2) :
    ExtM a c (w1 ++ w2) m2 := by
  obtain ⟨f1, d1, n1, _, ⟨new1, o1, c1⟩, e1, _⟩ := h1
  obtain ⟨f2, d2, n2, m2, ⟨new2, o2, c2⟩, e2, wf2⟩ := h2
  refine ⟨f2.trans f1, d2.trans d1, n2.trans n1, m2, ⟨new1 ++ new2, ?_, ?_⟩, ?_, wf2⟩
  · rw [o2, o1, List.append_assoc]
  · intro ch hc
    rcases List.mem_append.1 hc with h | h
    · exact c1 ch h
    · have := c2 ch h
      rwa [n1, sink_congr f1] at this
  · intro hat
    have hb : Attached b := by
      unfold Attached at *; rw [f1, d1]; exact hat
    rw [e2 hb, e1 hat]
    simp [List.append_assoc]

theorem Ext.trans {a b c : State} {w1 w2 : Bytes} (h1 : Ext a b w1) (h2 : Ext b c w2) :
    Ext a c (w1 ++ w2) := by
  have := ExtM.trans h1 h2
  rwa [h1.mode] at this

/-- A write followed by a mode change. -/
theorem Ext.thenM {a b c : State} {w1 w2 : Bytes} {m : Mode} (h1 : Ext a b w1) (h2 : ExtM b c w2 m) :
    ExtM a c (w1 ++ w2) m := ExtM.trans h1 h2

/-- A mode change followed by a write. -/
theorem ExtM.thenE {a b c : State} {w1 w2 : Bytes} {m : Mode} (h1 : ExtM a b w1 m) (h2 : Ext b c w2) :
    ExtM a c (w1 ++ w2) m := by
  have := ExtM.trans h1 h2
  rwa [h1.mode] at this

/-- Overwriting the mode after the fact. -/
theorem ExtM.setMode {a b : State} {w : Bytes} {m : Mode} (h : ExtM a b w m) (m' : Mode) :
    ExtM a { b with mode := m' } w m' :=
  ⟨h.hasFunc, h.outfd, h.bufLen, rfl, h.out, h.eqn, h.wf⟩

/-- Changing only `tmpLen` (or nothing the relation looks at). -/
theorem Ext.of_same {st st' : State} (h : WF st) (hf : st'.hasFunc = st.hasFunc) (hd : st'.outfd = st.outfd)
    (hn : st'.bufLen = st.bufLen) (hm : st'.mode = st.mode) (ho : st'.out = st.out) (hb : st'.buf = st.buf) :
    Ext st st' [] := by
  refine ⟨hf, hd, hn, hm, ⟨[], by simp [ho]⟩, ?_, ?_⟩
  · intro _; simp [ho, hb]
  · unfold WF at *; rw [hn, hb]; exact h

/-! ### deliver and flush -/

/-- The test in front of `write(2)` in `tickit_term_flush`, as read from the source, is `tt->outfd != -1`:
    every descriptor number — 0 included — is written to. -/
theorem flush_fd_guard_iff (fd : Int) : flush_fd_guard fd = true ↔ fd ≠ -1 := by
  simp [flush_fd_guard]

/-- The same test in the unbuffered arm of `write_str`. -/
theorem write_str_fd_guard_iff (fd : Int) : write_str_fd_guard fd = true ↔ fd ≠ -1 := by
  simp [write_str_fd_guard]

/-- Buffered or not, the same descriptors are written to: the two places agree for every descriptor number. -/
theorem fd_guards_agree : write_str_fd_guard = flush_fd_guard := by
  funext fd
  have a := flush_fd_guard_iff fd
  have b := write_str_fd_guard_iff fd
  cases h1 : write_str_fd_guard fd <;> cases h2 : flush_fd_guard fd <;> simp_all

theorem deliverWith_write_str (st : State) (b : Bytes) : deliverWith write_str_fd_guard st b = deliver st b := by
  rw [fd_guards_agree]; rfl

theorem deliver_buf (st : State) (b : Bytes) : (deliver st b).buf = st.buf := by
  unfold deliver deliverWith
  split
  · rfl
  · split <;> rfl

theorem deliver_frame (st : State) (b : Bytes) :
    (deliver st b).hasFunc = st.hasFunc ∧ (deliver st b).outfd = st.outfd ∧
    (deliver st b).bufLen = st.bufLen ∧ (deliver st b).mode = st.mode ∧ (deliver st b).tmpLen = st.tmpLen := by
  unfold deliver deliverWith
  split
  · simp
  · split <;> simp

/-- What `deliver` appends: one chunk for the sink in force, or nothing without an output method. -/
theorem deliver_out (st : State) (b : Bytes) :
    (Attached st ∧ (deliver st b).out = st.out ++ [.data (sink st) b]) ∨
    (¬ Attached st ∧ (deliver st b).out = st.out) := by
  unfold deliver deliverWith Attached sink
  by_cases hf : st.hasFunc = true
  · simp [hf]
  · by_cases hd : st.outfd = -1
    · have hg : flush_fd_guard st.outfd = false := by
        cases h : flush_fd_guard st.outfd
        · rfl
        · exact absurd hd ((flush_fd_guard_iff _).1 h)
      rw [hg]; simp [hf, hd]
    · have hg : flush_fd_guard st.outfd = true := (flush_fd_guard_iff _).2 hd
      rw [hg]; simp [hf, hd]

/-- `tickit_term_flush` on a buffer that is not over-full: everything pending is delivered as one chunk. -/
theorem flush_ext {st : State} (hle : st.buf.length ≤ st.bufLen) (hpos : st.bufLen = 0 → st.buf = []) :
    Ext st (flush st) [] ∧ (flush st).buf = [] := by
  unfold flush
  by_cases h0 : st.buf.length = 0
  · have hnil : st.buf = [] := List.eq_nil_of_length_eq_zero h0
    simp only [h0, if_true]
    refine ⟨⟨rfl, rfl, rfl, rfl, ⟨[], by simp⟩, by simp, ?_⟩, hnil⟩
    unfold WF; rw [hnil]; constructor
    · intro _; rfl
    · intro h; simpa using h
  · simp only [h0, if_false]
    obtain ⟨hf, hd, hn, hm, _⟩ := deliver_frame st st.buf
    refine ⟨⟨hf, hd, hn, hm, ?_, ?_, ?_⟩, trivial⟩
    · rcases deliver_out st st.buf with ⟨_, ho⟩ | ⟨_, ho⟩
      · refine ⟨[.data (sink st) st.buf], ho, ?_⟩
        intro c hc
        simp at hc; subst hc
        exact Or.inr ⟨st.buf, rfl, fun _ => ⟨Nat.pos_of_ne_zero h0, hle⟩⟩
      · exact ⟨[], by simp [ho], by simp⟩
    · intro hat
      rcases deliver_out st st.buf with ⟨_, ho⟩ | ⟨hna, _⟩
      · simp [ho]
      · exact absurd hat hna
    · unfold WF; simp only [hn]; constructor
      · intro _; trivial
      · intro h; simpa using h

theorem flush_buf (st : State) : (flush st).buf = [] := by
  unfold flush
  by_cases h0 : st.buf.length = 0
  · simp only [h0, if_true]; exact List.eq_nil_of_length_eq_zero h0
  · simp only [h0, if_false]

theorem WF.le {st : State} (h : WF st) : st.buf.length ≤ st.bufLen := by
  rcases Nat.eq_zero_or_pos st.bufLen with h0 | hp
  · rw [h.1 h0]; simp
  · exact Nat.le_of_lt (h.2 hp)

theorem flush_ext_wf {st : State} (h : WF st) : Ext st (flush st) [] :=
  (flush_ext h.le h.1).1

/-! ### the copy loop of write_str -/

theorem writeLoop_ext : ∀ (fuel : Nat) (st : State) (str : Bytes) (st' : State),
    0 < st.bufLen → st.buf.length < st.bufLen → writeLoop fuel st str = .ok st' → Ext st st' str := by
  intro fuel
  induction fuel with
  | zero => intro st str st' _ _ h; simp [writeLoop] at h
  | succ fuel ih =>
    intro st str st' hpos hlt h
    have hwf : WF st := ⟨fun h0 => by omega, fun _ => hlt⟩
    unfold writeLoop at h
    by_cases hs : str.length = 0
    · simp only [hs, if_true] at h
      injection h with h; subst h
      have : str = [] := List.eq_nil_of_length_eq_zero hs
      subst this
      exact Ext.refl hwf
    · simp only [hs, if_false] at h
      have hnub : ¬ st.bufLen < st.buf.length := by omega
      simp only [hnub, if_false] at h
      -- one iteration
      generalize hspace : (if str.length < st.bufLen - st.buf.length then str.length else st.bufLen - st.buf.length) = space at h
      have hsp_pos : 0 < space := by
        subst hspace; split <;> omega
      have hsp_le : space ≤ st.bufLen - st.buf.length := by
        subst hspace; split <;> omega
      have hsp_str : space ≤ str.length := by
        subst hspace; split <;> omega
      have htl : (str.take space).length = space := by
        simp [List.length_take]; omega
      obtain ⟨st1, hst1⟩ : ∃ st1 : State, st1 = { st with buf := st.buf ++ str.take space } := ⟨_, rfl⟩
      have hb1 : st1.buf = st.buf ++ str.take space := by rw [hst1]
      have hn1 : st1.bufLen = st.bufLen := by rw [hst1]
      have hst1len : st1.buf.length = st.buf.length + space := by
        rw [hb1, List.length_append, htl]
      by_cases hfull : List.length (st.buf ++ List.take space str) ≥ st.bufLen
      · -- buffer full: flushed
        rw [if_pos hfull, ← hst1] at h
        have hstep : Ext st (flush st1) (str.take space) := by
          have hle1 : st1.buf.length ≤ st1.bufLen := by omega
          obtain ⟨hx, _⟩ := flush_ext (st := st1) hle1 (by intro h0; omega)
          obtain ⟨f, d, n, m, ⟨new, o, c⟩, e, w⟩ := hx
          have hsk : sink st1 = sink st := by rw [hst1]; rfl
          refine ⟨by rw [f, hst1], by rw [d, hst1], by rw [n, hn1], by rw [m, hst1], ⟨new, by rw [o, hst1], ?_⟩, ?_, w⟩
          · intro ch hch; have := c ch hch; rwa [hn1, hsk] at this
          · intro hat
            have hat1 : Attached st1 := by rw [hst1]; exact hat
            have := e hat1
            rw [this, hb1]
            have : st1.out = st.out := by rw [hst1]
            rw [this]; simp [List.append_assoc]
        have hbuf0 : (flush st1).buf = [] := flush_buf st1
        have hn : (flush st1).bufLen = st.bufLen := hstep.bufLen
        have := ih (flush st1) (str.drop space) st' (by rw [hn]; exact hpos) (by rw [hbuf0, hn]; simpa using hpos) h
        have hh := Ext.trans hstep this
        rwa [List.take_append_drop] at hh
      · -- still room: nothing delivered
        rw [if_neg hfull, ← hst1] at h
        have hlt1 : st1.buf.length < st1.bufLen := by
          rw [hb1, hn1]; exact Nat.lt_of_not_ge hfull
        have hstep : Ext st st1 (str.take space) := by
          refine ⟨by rw [hst1], by rw [hst1], hn1, by rw [hst1], ⟨[], by rw [hst1]; simp⟩, ?_, ?_⟩
          · intro _; rw [hb1]; have : st1.out = st.out := by rw [hst1]
            rw [this]; simp [List.append_assoc]
          · constructor
            · intro h0; omega
            · intro _; exact hlt1
        have := ih st1 (str.drop space) st' (by rw [hn1]; exact hpos) hlt1 h
        have hh := Ext.trans hstep this
        rwa [List.take_append_drop] at hh

/-- Enough fuel: the loop never runs out and never hits the wrap-around. -/
theorem writeLoop_total : ∀ (fuel : Nat) (st : State) (str : Bytes),
    0 < st.bufLen → st.buf.length < st.bufLen → str.length < fuel → ∃ st', writeLoop fuel st str = .ok st' := by
  intro fuel
  induction fuel with
  | zero => intro st str _ _ h; omega
  | succ fuel ih =>
    intro st str hpos hlt hf
    unfold writeLoop
    by_cases hs : str.length = 0
    · exact ⟨st, by simp [hs]⟩
    · simp only [hs, if_false]
      have hnub : ¬ st.bufLen < st.buf.length := by omega
      simp only [hnub, if_false]
      generalize hspace : (if str.length < st.bufLen - st.buf.length then str.length else st.bufLen - st.buf.length) = space
      have hsp_pos : 0 < space := by
        subst hspace; split <;> omega
      have hsp_le : space ≤ st.bufLen - st.buf.length := by
        subst hspace; split <;> omega
      have hsp_str : space ≤ str.length := by
        subst hspace; split <;> omega
      have hdrop : (str.drop space).length < fuel := by
        simp [List.length_drop]; omega
      have htl : (str.take space).length = space := by
        simp [List.length_take]; omega
      obtain ⟨st1, hst1⟩ : ∃ st1 : State, st1 = { st with buf := st.buf ++ str.take space } := ⟨_, rfl⟩
      have hb1 : st1.buf = st.buf ++ str.take space := by rw [hst1]
      have hn1 : st1.bufLen = st.bufLen := by rw [hst1]
      by_cases hfull : List.length (st.buf ++ List.take space str) ≥ st.bufLen
      · rw [if_pos hfull, ← hst1]
        have hn : (flush st1).bufLen = st.bufLen := by
          unfold flush; split
          · exact hn1
          · exact (deliver_frame st1 st1.buf).2.2.1.trans hn1
        exact ih (flush st1) (str.drop space) (by rw [hn]; exact hpos) (by rw [flush_buf, hn]; simpa using hpos) hdrop
      · rw [if_neg hfull, ← hst1]
        exact ih st1 (str.drop space) (by rw [hn1]; exact hpos) (by rw [hb1, hn1]; exact Nat.lt_of_not_ge hfull) hdrop

/-! ### write_str -/

/-- A `write_str(tt, str, len)` request that stays inside the memory at `str`. -/
def ReqOK (mem : Bytes) (len : Nat) : Prop :=
  len ≤ mem.length ∧ (len = 0 → mem.contains 0 = true)

theorem effective_take (mem : Bytes) (len : Nat) :
    mem.take (if len = 0 then cstrlen mem else len) = effective mem len := by
  unfold effective
  split
  · exact take_cstrlen mem
  · rfl

theorem writeStr_ext {st st' : State} {mem : Bytes} {len : Nat} (hwf : WF st)
    (h : writeStr st mem len = .ok st') : Ext st st' (effective mem len) := by
  unfold writeStr at h
  by_cases h1 : (len = 0 ∧ (!(mem.contains 0)) = true)
  · rw [if_pos h1] at h; cases h
  · rw [if_neg h1] at h
    simp only at h
    generalize hl : (if len = 0 then cstrlen mem else len) = len' at h
    by_cases h2 : mem.length < len'
    · rw [if_pos h2] at h; cases h
    · rw [if_neg h2] at h
      have heff : mem.take len' = effective mem len := by rw [← hl]; exact effective_take mem len
      rw [heff] at h
      by_cases hn : st.bufLen ≠ 0
      · rw [if_pos hn] at h
        have hpos : 0 < st.bufLen := Nat.pos_of_ne_zero hn
        exact writeLoop_ext _ st _ st' hpos (hwf.2 hpos) h
      · rw [if_neg hn, deliverWith_write_str] at h
        have hn0 : st.bufLen = 0 := by simpa using hn
        have hb : st.buf = [] := hwf.1 hn0
        injection h with h; subst h
        obtain ⟨hf, hd, hnn, hm, _⟩ := deliver_frame st (effective mem len)
        refine ⟨hf, hd, hnn, hm, ?_, ?_, ?_⟩
        · rcases deliver_out st (effective mem len) with ⟨_, ho⟩ | ⟨_, ho⟩
          · refine ⟨[.data (sink st) (effective mem len)], ho, ?_⟩
            intro c hc
            simp at hc; subst hc
            exact Or.inr ⟨_, rfl, fun hp => by omega⟩
          · exact ⟨[], by simp [ho], by simp⟩
        · intro hat
          rcases deliver_out st (effective mem len) with ⟨_, ho⟩ | ⟨hna, _⟩
          · rw [ho, deliver_buf, hb]; simp
          · exact absurd hat hna
        · unfold WF; rw [hnn, deliver_buf, hb, hn0]; simp

theorem writeStr_total {st : State} {mem : Bytes} {len : Nat} (hwf : WF st) (hr : ReqOK mem len) :
    ∃ st', writeStr st mem len = .ok st' := by
  obtain ⟨hle, hnul⟩ := hr
  unfold writeStr
  have h1 : ¬ (len = 0 ∧ (!(mem.contains 0)) = true) := by
    intro ⟨h0, hc⟩
    have := hnul h0
    rw [this] at hc
    exact absurd hc (by decide)
  rw [if_neg h1]
  simp only
  have h2 : ¬ mem.length < (if len = 0 then cstrlen mem else len) := by
    split
    · have := cstrlen_le mem; omega
    · omega
  rw [if_neg h2]
  split
  · rename_i hn
    have hpos : 0 < st.bufLen := Nat.pos_of_ne_zero hn
    apply writeLoop_total _ st _ hpos (hwf.2 hpos)
    simp [List.length_take]; omega
  · exact ⟨_, rfl⟩

/-! ### write_vstrf and tickit_term_vprintf: the two formatting passes -/

theorem store_eq {cap : Nat} {s : Bytes} (h : s.length < cap) : vsnprintfStore cap s = s ++ [0] := by
  unfold vsnprintfStore
  have : ¬ cap = 0 := by omega
  rw [if_neg this, List.take_of_length_le (by omega)]

theorem effective_store (s : Bytes) : effective (s ++ [0]) s.length = s := by
  unfold effective
  split
  · rename_i h
    have : s = [] := List.eq_nil_of_length_eq_zero h
    subst this; simp [cstr]
  · simp

theorem reqOK_store (s : Bytes) : ReqOK (s ++ [0]) s.length := by
  constructor
  · simp
  · intro _; simp

theorem getTmpbuffer_ext {st : State} (hwf : WF st) (len : Nat) : Ext st (getTmpbuffer st len) [] := by
  unfold getTmpbuffer
  split
  · exact Ext.of_same hwf rfl rfl rfl rfl rfl rfl
  · exact Ext.refl hwf

theorem writeVstrf_ext {st st' : State} {s : Bytes} (hwf : WF st) (h : writeVstrf st s = .ok st') :
    Ext st st' s := by
  unfold writeVstrf at h
  simp only at h
  split at h
  · rename_i hlt
    rw [store_eq hlt] at h
    have := writeStr_ext hwf h
    rwa [effective_store] at this
  · rw [store_eq (Nat.lt_succ_self _)] at h
    have h1 := getTmpbuffer_ext hwf (s.length + 1)
    have h2 := writeStr_ext h1.wf h
    rw [effective_store] at h2
    simpa using Ext.trans h1 h2

theorem writeVstrf_total {st : State} (s : Bytes) (hwf : WF st) : ∃ st', writeVstrf st s = .ok st' := by
  unfold writeVstrf
  simp only
  split
  · rename_i hlt
    rw [store_eq hlt]
    exact writeStr_total hwf (reqOK_store s)
  · rw [store_eq (Nat.lt_succ_self _)]
    exact writeStr_total (getTmpbuffer_ext hwf _).wf (reqOK_store s)

theorem termVprintf_ext {st st' : State} {s : Bytes} (hwf : WF st) (h : termVprintf st s = .ok st') :
    Ext st st' s := by
  unfold termVprintf drvPrint at h
  simp only at h
  rw [store_eq (Nat.lt_succ_self _)] at h
  have h1 := getTmpbuffer_ext hwf (s.length + 1)
  have h2 := writeStr_ext h1.wf h
  rw [effective_store] at h2
  simpa using Ext.trans h1 h2

theorem termVprintf_total {st : State} (s : Bytes) (hwf : WF st) : ∃ st', termVprintf st s = .ok st' := by
  unfold termVprintf drvPrint
  simp only
  rw [store_eq (Nat.lt_succ_self _)]
  exact writeStr_total (getTmpbuffer_ext hwf _).wf (reqOK_store s)

/-! ### what each public call requests: a function of the mode only (the unbuffered stream) -/

def litBytes (b : Bytes) (len : Nat) : Bytes := effective (literal b) len

/-- xterm `teardown()` (`.stop`, `.pause`). -/
def teardownBytes (m : Mode) : Bytes :=
  (if (!m.cursorvis) = true then litBytes teardown_cursorvis teardown_cursorvis_len else []) ++
  ((if m.altscreen = true then litBytes teardown_altscreen teardown_altscreen_len else []) ++
   litBytes teardown_pen_reset teardown_pen_reset_len)

/-- xterm `resume()`. -/
def resumeBytes (m : Mode) : Bytes :=
  (if m.altscreen = true then litBytes resume_altscreen resume_altscreen_len else []) ++
  (if (!m.cursorvis) = true then litBytes resume_cursorvis resume_cursorvis_len else [])

def fmtsBytes : List (List Piece) → Bytes
  | [] => []
  | f :: r => render f [] [] ++ fmtsBytes r

/-- xterm `start()`. -/
def startBytes : Bytes := fmtsBytes start_fmts

def gotoBytes (line col : Int) : Bytes :=
  if line ≠ -1 ∧ col > 0 then render goto_fmt_line_col [line + 1, col + 1] []
  else if line ≠ -1 ∧ col = 0 then render goto_fmt_line_col0 [line + 1] []
  else if line ≠ -1 then render goto_fmt_line [line + 1] []
  else if col > 0 then render goto_fmt_col [col + 1] []
  else if col ≠ -1 then litBytes goto_col0 goto_col0_len
  else []

def ctlBytes (m : Mode) : Ctl → Bool → Bytes
  | .altscreen, v => if m.altscreen = v then [] else litBytes (if v then altscreen_on else altscreen_off) altscreen_setctl_len
  | .cursorvis, v => if m.cursorvis = v then [] else litBytes (if v then cursorvis_on else cursorvis_off) cursorvis_setctl_len

/-- `tickit_term_teardown` before its flush. -/
def stopBytes (m : Mode) : Bytes :=
  if m.started = true then (if stop_is_teardown = true then teardownBytes m else []) else []

/-- The bytes operation `o` asks to be output when the mode is `m`. -/
def requested (m : Mode) : Op → Bytes
  | .printn mem len => printnBytes mem len
  | .print mem => cstr mem
  | .printf mem d => render printfFmt [d] [mem]
  | .title mem => render title_fmt [] [mem]
  | .goto l c => gotoBytes l c
  | .ctl c v => ctlBytes m c v
  | .flush => []
  | .pause => if pause_is_teardown = true then teardownBytes m else []
  | .resume => resumeBytes m
  | .teardown => stopBytes m
  | .setbuf _ => []
  | .setFd _ => if m.started = true then [] else startBytes
  | .setFunc => if m.started = true then [] else startBytes
  | .destroy => stopBytes m

def nextMode (m : Mode) : Op → Mode
  | .ctl .altscreen v => { m with altscreen := v }
  | .ctl .cursorvis v => { m with cursorvis := v }
  | .teardown => { m with started := false }
  | .destroy => { m with started := false }
  | .setFd _ => { m with started := true }
  | .setFunc => { m with started := true }
  | _ => m

/-- The unbuffered stream of a history. -/
def written (m : Mode) : List Op → Bytes
  | [] => []
  | o :: os => requested m o ++ written (nextMode m o) os

/-! ### the callers, one by one -/

theorem effective_cstrlen (mem : Bytes) : effective mem (cstrlen mem) = cstr mem := by
  unfold effective
  split
  · rfl
  · exact take_cstrlen mem

theorem condFlush_ext {st : State} (b : Bool) (hwf : WF st) : Ext st (if b = true then flush st else st) [] := by
  split
  · exact flush_ext_wf hwf
  · exact Ext.refl hwf

theorem condFlush_buf {st : State} : (if true = true then flush st else st).buf = [] := by
  simp [flush_buf]

theorem condWrite_ext {st st' : State} {mem : Bytes} {len : Nat} (c : Prop) [Decidable c] (hwf : WF st)
    (h : (if c then writeStr st mem len else .ok st) = .ok st') :
    Ext st st' (if c then effective mem len else []) := by
  split at h
  · rename_i hc; rw [if_pos hc]; exact writeStr_ext hwf h
  · rename_i hc; rw [if_neg hc]; injection h with h; subst h; exact Ext.refl hwf

theorem writeStrf_ext {st st' : State} {fmt : List Piece} {is : List Int} {ss : List Bytes} (hwf : WF st)
    (h : writeStrf st fmt is ss = .ok st') : Ext st st' (render fmt is ss) :=
  writeVstrf_ext hwf h

theorem drvGoto_ext {st st' : State} {l c : Int} (hwf : WF st) (h : drvGoto st l c = .ok st') :
    Ext st st' (gotoBytes l c) := by
  unfold drvGoto at h
  unfold gotoBytes
  split
  · rename_i h1; rw [if_pos h1] at h; exact writeStrf_ext hwf h
  · rename_i h1; rw [if_neg h1] at h
    split
    · rename_i h2; rw [if_pos h2] at h; exact writeStrf_ext hwf h
    · rename_i h2; rw [if_neg h2] at h
      split
      · rename_i h3; rw [if_pos h3] at h; exact writeStrf_ext hwf h
      · rename_i h3; rw [if_neg h3] at h
        split
        · rename_i h4; rw [if_pos h4] at h; exact writeStrf_ext hwf h
        · rename_i h4; rw [if_neg h4] at h
          split
          · rename_i h5; rw [if_pos h5] at h; exact writeStr_ext hwf h
          · rename_i h5; rw [if_neg h5] at h; injection h with h; subst h; exact Ext.refl hwf

theorem drvSetctl_ext {st st' : State} {c : Ctl} {v : Bool} (hwf : WF st) (h : drvSetctl st c v = .ok st') :
    ExtM st st' (ctlBytes st.mode c v) (nextMode st.mode (.ctl c v)) := by
  unfold drvSetctl at h
  cases c with
  | altscreen =>
    simp only at h
    simp only [ctlBytes, nextMode]
    split at h
    · rename_i he; injection h with h; subst h; subst he
      rw [if_pos (rfl : st.mode.altscreen = st.mode.altscreen)]
      exact Ext.refl hwf
    · rename_i he
      obtain ⟨s1, h1, h⟩ := bind_eq_ok.1 h
      injection h with h; subst h
      rw [if_neg he]
      have e1 := writeStr_ext hwf h1
      have := ExtM.setMode e1 { st.mode with altscreen := v }
      rw [e1.mode]
      exact this
  | cursorvis =>
    simp only at h
    simp only [ctlBytes, nextMode]
    split at h
    · rename_i he; injection h with h; subst h; subst he
      rw [if_pos (rfl : st.mode.cursorvis = st.mode.cursorvis)]
      exact Ext.refl hwf
    · rename_i he
      obtain ⟨s1, h1, h⟩ := bind_eq_ok.1 h
      injection h with h; subst h
      rw [if_neg he]
      have e1 := writeStr_ext hwf h1
      have := ExtM.setMode e1 { st.mode with cursorvis := v }
      rw [e1.mode]
      exact this

theorem writeFmts_ext : ∀ (fs : List (List Piece)) (st st' : State), WF st → writeFmts st fs = .ok st' →
    Ext st st' (fmtsBytes fs) := by
  intro fs
  induction fs with
  | nil => intro st st' hwf h; simp [writeFmts] at h; subst h; exact Ext.refl hwf
  | cons f r ih =>
    intro st st' hwf h
    unfold writeFmts at h
    obtain ⟨s1, h1, h⟩ := bind_eq_ok.1 h
    have e1 := writeStrf_ext hwf h1
    have e2 := ih s1 st' e1.wf h
    exact Ext.trans e1 e2

theorem drvStart_ext {st st' : State} (hwf : WF st) (h : drvStart st = .ok st') : Ext st st' startBytes := by
  unfold drvStart at h
  obtain ⟨s1, h1, h⟩ := bind_eq_ok.1 h
  injection h with h; subst h
  have e1 := writeFmts_ext _ _ _ hwf h1
  have e2 := condFlush_ext start_ends_with_flush e1.wf
  simpa [startBytes] using Ext.trans e1 e2

theorem drvTeardown_ext {st st' : State} (hwf : WF st) (h : drvTeardown st = .ok st') :
    Ext st st' (teardownBytes st.mode) := by
  unfold drvTeardown at h
  obtain ⟨s1, h1, h⟩ := bind_eq_ok.1 h
  obtain ⟨s2, h2, h⟩ := bind_eq_ok.1 h
  obtain ⟨s3, h3, h⟩ := bind_eq_ok.1 h
  injection h with h; subst h
  have e1 := condWrite_ext _ hwf h1
  have e2 := condWrite_ext _ e1.wf h2
  have e3 := writeStr_ext e2.wf h3
  have e4 := condFlush_ext driver_teardown_flushes e3.wf
  have := Ext.trans e1 (Ext.trans e2 (Ext.trans e3 e4))
  rw [e1.mode] at this
  simpa [teardownBytes, litBytes] using this

theorem drvResume_ext {st st' : State} (hwf : WF st) (h : drvResume st = .ok st') :
    Ext st st' (resumeBytes st.mode) := by
  unfold drvResume at h
  obtain ⟨s1, h1, h⟩ := bind_eq_ok.1 h
  obtain ⟨s2, h2, h⟩ := bind_eq_ok.1 h
  injection h with h; subst h
  have e1 := condWrite_ext _ hwf h1
  have e2 := condWrite_ext _ e1.wf h2
  have e3 := condFlush_ext driver_resume_flushes e2.wf
  have := Ext.trans e1 (Ext.trans e2 e3)
  rw [e1.mode] at this
  simpa [resumeBytes, litBytes] using this

/-! ### term.c: the public calls -/

theorem mode_started_false (m : Mode) (h : m.started = false) : { m with started := false } = m := by
  cases m; simp_all

theorem mode_started_true (m : Mode) (h : m.started = true) : { m with started := true } = m := by
  cases m; simp_all

theorem termTeardown_ext {st st' : State} (hwf : WF st) (h : termTeardown st = .ok st') :
    ExtM st st' (stopBytes st.mode) { st.mode with started := false } ∧
    (term_teardown_flushes = true → st'.buf = []) := by
  unfold termTeardown at h
  obtain ⟨s1, h1, h⟩ := bind_eq_ok.1 h
  injection h with h; subst h
  have key : ExtM st s1 (stopBytes st.mode) { st.mode with started := false } := by
    unfold stopBytes
    by_cases hs : st.mode.started = true
    · rw [if_pos hs] at h1 ⊢
      obtain ⟨s0, h0, h1⟩ := bind_eq_ok.1 h1
      injection h1 with h1; subst h1
      have e0 : Ext st s0 (if stop_is_teardown = true then teardownBytes st.mode else []) := by
        by_cases hc : stop_is_teardown = true
        · rw [if_pos hc] at h0 ⊢; exact drvTeardown_ext hwf h0
        · rw [if_neg hc] at h0 ⊢; injection h0 with h0; subst h0; exact Ext.refl hwf
      have := ExtM.setMode e0 { st.mode with started := false }
      rw [e0.mode]
      exact this
    · rw [if_neg hs] at h1 ⊢
      injection h1 with h1; subst h1
      have hf : st.mode.started = false := by simpa using hs
      rw [mode_started_false _ hf]
      exact Ext.refl hwf
  refine ⟨?_, ?_⟩
  · have := ExtM.thenE key (condFlush_ext term_teardown_flushes key.wf)
    simpa using this
  · intro ht; rw [ht]; exact condFlush_buf

theorem termPause_ext {st st' : State} (hwf : WF st) (h : termPause st = .ok st') :
    Ext st st' (if pause_is_teardown = true then teardownBytes st.mode else []) := by
  unfold termPause at h
  obtain ⟨s1, h1, h⟩ := bind_eq_ok.1 h
  injection h with h; subst h
  have e0 : Ext st s1 (if pause_is_teardown = true then teardownBytes st.mode else []) := by
    by_cases hc : pause_is_teardown = true
    · rw [if_pos hc] at h1 ⊢; exact drvTeardown_ext hwf h1
    · rw [if_neg hc] at h1 ⊢; injection h1 with h1; subst h1; exact Ext.refl hwf
  simpa using Ext.trans e0 (condFlush_ext term_pause_flushes e0.wf)

theorem termResume_ext {st st' : State} (hwf : WF st) (h : termResume st = .ok st') :
    Ext st st' (resumeBytes st.mode) := by
  unfold termResume at h
  obtain ⟨s1, h1, h⟩ := bind_eq_ok.1 h
  injection h with h; subst h
  have e0 := drvResume_ext hwf h1
  simpa using Ext.trans e0 (condFlush_ext term_resume_flushes e0.wf)

/-- Appending the `(NULL, 0)` call. -/
theorem fin_ext {st : State} (hwf : WF st) :
    Ext st (if st.hasFunc = true then { st with out := st.out ++ [.fin] } else st) [] := by
  split
  · refine ⟨rfl, rfl, rfl, rfl, ⟨[.fin], rfl, ?_⟩, ?_, hwf⟩
    · intro c hc; simp at hc; subst hc; exact Or.inl rfl
    · intro _; simp
  · exact Ext.refl hwf

theorem termDestroy_ext {st st' : State} (hwf : WF st) (h : termDestroy st = .ok st') :
    ExtM st st' (stopBytes st.mode) { st.mode with started := false } ∧ st'.buf = [] := by
  unfold termDestroy at h
  obtain ⟨s1, h1, h⟩ := bind_eq_ok.1 h
  simp only at h
  injection h with h; subst h
  obtain ⟨e1, _⟩ := termTeardown_ext hwf h1
  have e2 := flush_ext_wf e1.wf
  have e3 := fin_ext e2.wf
  refine ⟨?_, ?_⟩
  · simpa using ExtM.thenE (ExtM.thenE e1 e2) e3
  · split <;> simp [flush_buf]

theorem startIfUnstarted_ext {st st' : State} (hwf : WF st) (h : startIfUnstarted st = .ok st') :
    ExtM st st' (if st.mode.started = true then [] else startBytes) { st.mode with started := true } := by
  unfold startIfUnstarted at h
  by_cases hs : st.mode.started = true
  · rw [if_pos hs] at h ⊢
    injection h with h; subst h
    rw [mode_started_true _ hs]
    exact Ext.refl hwf
  · rw [if_neg hs] at h ⊢
    obtain ⟨s1, h1, h⟩ := bind_eq_ok.1 h
    injection h with h; subst h
    have e1 := drvStart_ext hwf h1
    have := ExtM.setMode e1 { st.mode with started := true }
    rw [e1.mode]
    exact this

/-! ### one operation -/

/-- Operations that change the configuration (buffer size, output method) rather than write. -/
def IsConfig : Op → Prop
  | .setbuf _ => True
  | .setFd _ => True
  | .setFunc => True
  | _ => False

theorem step_ext {st st' : State} {o : Op} (hwf : WF st) (hnc : ¬ IsConfig o) (h : step st o = .ok st') :
    ExtM st st' (requested st.mode o) (nextMode st.mode o) := by
  cases o with
  | printn mem len =>
    simp only [step, termPrintn] at h
    simp only [requested, printnBytes, nextMode]
    by_cases hz : printn_zero_len_returns = true ∧ len = 0
    · rw [if_pos hz] at h ⊢; injection h with h; subst h; exact Ext.refl hwf
    · rw [if_neg hz] at h ⊢; exact writeStr_ext hwf h
  | print mem =>
    simp only [step, termPrint] at h
    split at h
    · cases h
    · have := writeStr_ext hwf h
      rwa [effective_cstrlen] at this
  | printf mem d =>
    simp only [step] at h
    split at h
    · cases h
    · exact termVprintf_ext hwf h
  | title mem =>
    simp only [step] at h
    split at h
    · cases h
    · exact writeStrf_ext hwf h
  | goto l c => exact drvGoto_ext hwf h
  | ctl c v => exact drvSetctl_ext hwf h
  | flush =>
    simp only [step] at h
    injection h with h; subst h
    exact flush_ext_wf hwf
  | pause => exact termPause_ext hwf h
  | resume => exact termResume_ext hwf h
  | teardown => exact (termTeardown_ext hwf h).1
  | destroy => exact (termDestroy_ext hwf h).1
  | setbuf n => exact absurd trivial hnc
  | setFd _ => exact absurd trivial hnc
  | setFunc => exact absurd trivial hnc

/-- The state in which `tickit_term_set_output_func` starts the driver. -/
def preFunc (st : State) : State :=
  { (if st.hasFunc = true then { st with out := st.out ++ [.fin] } else st) with hasFunc := true }

theorem postFd_outfd (st : State) (fd : Int) : (postFd st fd).outfd = fd := by
  simp [postFd, set_output_fd_stores]

theorem attached_postFd {st : State} {fd : Int} (h : fd ≠ -1) : Attached (postFd st fd) :=
  Or.inr (by rw [postFd_outfd]; exact h)

theorem step_setFd_ext {st st' : State} {fd : Int} (hwf : WF st) (h : step st (.setFd fd) = .ok st') :
    ExtM (postFd st fd) st' (requested st.mode (.setFd fd)) (nextMode st.mode (.setFd fd)) :=
  startIfUnstarted_ext (st := postFd st fd) hwf h

theorem preFunc_facts (st : State) :
    (preFunc st).buf = st.buf ∧ (preFunc st).bufLen = st.bufLen ∧ (preFunc st).mode = st.mode ∧
    (preFunc st).hasFunc = true ∧ (preFunc st).outfd = st.outfd ∧ stream (preFunc st).out = stream st.out ∧
    ∃ pre, (preFunc st).out = st.out ++ pre ∧ ∀ c ∈ pre, c = Chunk.fin := by
  unfold preFunc
  split
  · refine ⟨rfl, rfl, rfl, rfl, rfl, by simp, ⟨[.fin], rfl, by simp⟩⟩
  · refine ⟨rfl, rfl, rfl, rfl, rfl, rfl, ⟨[], by simp, by simp⟩⟩

theorem step_setFunc_ext {st st' : State} (hwf : WF st) (h : step st .setFunc = .ok st') :
    ExtM (preFunc st) st' (requested st.mode .setFunc) (nextMode st.mode .setFunc) := by
  have hwf' : WF (preFunc st) := by
    obtain ⟨hb, hn, _⟩ := preFunc_facts st
    unfold WF; rw [hb, hn]; exact hwf
  have := startIfUnstarted_ext (st := preFunc st) hwf' h
  rwa [(preFunc_facts st).2.2.1] at this

theorem step_cases {st st' : State} {o : Op} (hwf : WF st) (h : step st o = .ok st') :
    (¬ IsConfig o ∧ ExtM st st' (requested st.mode o) (nextMode st.mode o)) ∨
    (∃ n, o = .setbuf n ∧ st' = setOutputBuffer st n) ∨
    (∃ fd, o = .setFd fd ∧ ExtM (postFd st fd) st' (requested st.mode o) (nextMode st.mode o)) ∨
    (o = .setFunc ∧ ExtM (preFunc st) st' (requested st.mode o) (nextMode st.mode o)) := by
  by_cases hc : IsConfig o
  · cases o with
    | setbuf n =>
      simp only [step] at h; injection h with h
      exact Or.inr (Or.inl ⟨n, rfl, h.symm⟩)
    | setFd fd => exact Or.inr (Or.inr (Or.inl ⟨fd, rfl, step_setFd_ext hwf h⟩))
    | setFunc => exact Or.inr (Or.inr (Or.inr ⟨rfl, step_setFunc_ext hwf h⟩))
    | _ => exact absurd hc (by simp [IsConfig])
  · exact Or.inl ⟨hc, step_ext hwf hc h⟩

/-- "Fill level < n between calls": every call preserves it — also a change of buffer size with output pending. -/
theorem step_wf {st st' : State} {o : Op} (hwf : WF st) (h : step st o = .ok st') : WF st' := by
  rcases step_cases hwf h with ⟨_, e⟩ | ⟨n, _, rfl⟩ | ⟨fd, hfd, e⟩ | ⟨_, e⟩
  · exact e.wf
  · unfold WF setOutputBuffer; simp
  · exact e.wf
  · exact e.wf

theorem step_mode {st st' : State} {o : Op} (hwf : WF st) (h : step st o = .ok st') :
    st'.mode = nextMode st.mode o := by
  rcases step_cases hwf h with ⟨_, e⟩ | ⟨n, rfl, rfl⟩ | ⟨fd, _, e⟩ | ⟨_, e⟩
  · exact e.mode
  · rfl
  · exact e.mode
  · exact e.mode

theorem step_attached {st st' : State} {o : Op} (hwf : WF st) (h : step st o = .ok st') (ha : Attached st)
    (hnd : o ≠ .setFd (-1)) : Attached st' := by
  unfold Attached at *
  rcases step_cases hwf h with ⟨_, e⟩ | ⟨n, _, rfl⟩ | ⟨fd, hfd, e⟩ | ⟨_, e⟩
  · rw [e.hasFunc, e.outfd]; exact ha
  · exact ha
  · rw [e.outfd, postFd_outfd]; exact Or.inr (fun h0 => hnd (by rw [hfd, h0]))
  · rw [e.hasFunc]; exact Or.inl (preFunc_facts st).2.2.2.1

theorem step_bufLen {st st' : State} {o : Op} (hwf : WF st) (h : step st o = .ok st') (hns : ∀ n, o ≠ .setbuf n) :
    st'.bufLen = st.bufLen := by
  rcases step_cases hwf h with ⟨_, e⟩ | ⟨n, rfl, _⟩ | ⟨fd, _, e⟩ | ⟨_, e⟩
  · exact e.bufLen
  · exact absurd rfl (hns n)
  · exact e.bufLen
  · rw [e.bufLen]; exact (preFunc_facts st).2.1

/-- Every call appends only well-formed chunks: for the output method in force after the call, and — with a
    buffer of `n` bytes in force when the call was made — neither empty nor longer than `n`. -/
theorem step_chunks {st st' : State} {o : Op} (hwf : WF st) (h : step st o = .ok st') :
    ∃ new, st'.out = st.out ++ new ∧ ∀ c ∈ new, ChunkOK st.bufLen (sink st') c := by
  rcases step_cases hwf h with ⟨_, e⟩ | ⟨n, _, rfl⟩ | ⟨fd, hfd, e⟩ | ⟨_, e⟩
  · obtain ⟨new, ho, hc⟩ := e.out
    refine ⟨new, ho, ?_⟩
    rw [sink_congr e.hasFunc]; exact hc
  · exact ⟨[], by simp [setOutputBuffer], by simp⟩
  · obtain ⟨new, ho, hc⟩ := e.out
    refine ⟨new, ho, ?_⟩
    rw [sink_congr e.hasFunc]; exact hc
  · obtain ⟨new, ho, hc⟩ := e.out
    obtain ⟨_, hn, _, _, _, _, ⟨pre, hpre, hfin⟩⟩ := preFunc_facts st
    refine ⟨pre ++ new, by rw [ho, hpre, List.append_assoc], ?_⟩
    intro c hcm
    rcases List.mem_append.1 hcm with hp | hn'
    · exact Or.inl (hfin c hp)
    · have := hc c hn'
      rwa [hn, ← sink_congr e.hasFunc] at this

/-- The precondition of the property for one call: the buffer size changes only while nothing is pending,
    and bytes are written only when there is somewhere to deliver them. -/
def OpAdmissible (st : State) : Op → Prop
  | .setbuf _ => st.buf = []
  | .setFd fd => Attached (postFd st fd)
  | .setFunc => True
  | _ => Attached st

/-- `delivered ++ pending` grows by exactly the requested bytes. -/
theorem step_total {st st' : State} {o : Op} (hwf : WF st) (hadm : OpAdmissible st o) (h : step st o = .ok st') :
    stream st'.out ++ st'.buf = stream st.out ++ st.buf ++ requested st.mode o := by
  rcases step_cases hwf h with ⟨hnc, e⟩ | ⟨n, rfl, rfl⟩ | ⟨fd, rfl, e⟩ | ⟨rfl, e⟩
  · have hat : Attached st := by
      cases o <;> first | exact hadm | exact absurd trivial hnc
    exact e.eqn hat
  · have hb : st.buf = [] := hadm
    simp [setOutputBuffer, requested, hb]
  · exact e.eqn hadm
  · obtain ⟨hb, _, _, hf, _, hs, _⟩ := preFunc_facts st
    have := e.eqn (Or.inl hf)
    rwa [hs, hb] at this

/-! ### histories -/

def Admissible : State → List Op → Prop
  | _, [] => True
  | st, o :: os => OpAdmissible st o ∧ ∀ st', step st o = .ok st' → Admissible st' os

def NoSetbuf (ops : List Op) : Prop := ∀ o ∈ ops, ∀ n, o ≠ .setbuf n

/-- The history never takes the output descriptor away (`tickit_term_set_output_fd(tt, -1)`). -/
def NoDetach (ops : List Op) : Prop := ∀ o ∈ ops, o ≠ .setFd (-1)

theorem run_cons {st st' : State} {o : Op} {os : List Op} (h : run st (o :: os) = .ok st') :
    ∃ s1, step st o = .ok s1 ∧ run s1 os = .ok st' := bind_eq_ok.1 h

theorem run_append {st st' : State} {a b : List Op} :
    run st (a ++ b) = .ok st' ↔ ∃ s1, run st a = .ok s1 ∧ run s1 b = .ok st' := by
  induction a generalizing st with
  | nil => simp [run]
  | cons o os ih =>
    simp only [List.cons_append, run]
    constructor
    · intro h
      obtain ⟨s1, h1, h2⟩ := bind_eq_ok.1 h
      obtain ⟨s2, h3, h4⟩ := ih.1 h2
      exact ⟨s2, bind_eq_ok.2 ⟨s1, h1, h3⟩, h4⟩
    · intro ⟨s2, h1, h2⟩
      obtain ⟨s1, h3, h4⟩ := bind_eq_ok.1 h1
      exact bind_eq_ok.2 ⟨s1, h3, ih.2 ⟨s2, h4, h2⟩⟩

theorem run_wf : ∀ (ops : List Op) (st st' : State), WF st → run st ops = .ok st' → WF st' := by
  intro ops
  induction ops with
  | nil => intro st st' hwf h; simp [run] at h; subst h; exact hwf
  | cons o os ih =>
    intro st st' hwf h
    obtain ⟨s1, h1, h2⟩ := run_cons h
    exact ih s1 st' (step_wf hwf h1) h2

theorem run_mode_total : ∀ (ops : List Op) (st st' : State), WF st → Admissible st ops → run st ops = .ok st' →
    stream st'.out ++ st'.buf = stream st.out ++ st.buf ++ written st.mode ops := by
  intro ops
  induction ops with
  | nil => intro st st' _ _ h; simp [run] at h; subst h; simp [written]
  | cons o os ih =>
    intro st st' hwf hadm h
    obtain ⟨s1, h1, h2⟩ := run_cons h
    have e1 := step_total hwf hadm.1 h1
    have e2 := ih s1 st' (step_wf hwf h1) (hadm.2 s1 h1) h2
    rw [e2, e1, step_mode hwf h1]
    simp [written, List.append_assoc]

theorem admissible_of_noSetbuf : ∀ (ops : List Op) (st : State), WF st → Attached st → NoSetbuf ops → NoDetach ops →
    Admissible st ops := by
  intro ops
  induction ops with
  | nil => intro _ _ _ _ _; trivial
  | cons o os ih =>
    intro st hwf hat hns hnd
    refine ⟨?_, ?_⟩
    · cases o <;>
        first
        | exact hat
        | trivial
        | exact absurd rfl (hns _ (List.mem_cons_self ..) _)
        | exact attached_postFd (fun h0 => hnd _ (List.mem_cons_self ..) (by rw [h0]))
    · intro s1 h1
      exact ih s1 (step_wf hwf h1) (step_attached hwf h1 hat (hnd o (by simp))) (fun o ho => hns o (by simp [ho]))
        (fun o ho => hnd o (by simp [ho]))

/-- Dest-free form of `ChunkOK`, for histories in which the output method may change. -/
def ChunkFits (n : Nat) (c : Chunk) : Prop :=
  c = .fin ∨ ∃ d b, c = .data d b ∧ (0 < n → 0 < b.length ∧ b.length ≤ n)

theorem ChunkOK.fits {n : Nat} {d : Dest} {c : Chunk} (h : ChunkOK n d c) : ChunkFits n c := by
  rcases h with h | ⟨b, hb, hn⟩
  · exact Or.inl h
  · exact Or.inr ⟨d, b, hb, hn⟩

theorem run_chunks : ∀ (ops : List Op) (st st' : State), WF st → NoSetbuf ops → run st ops = .ok st' →
    st'.bufLen = st.bufLen ∧ ∃ new, st'.out = st.out ++ new ∧ ∀ c ∈ new, ChunkFits st.bufLen c := by
  intro ops
  induction ops with
  | nil => intro st st' _ _ h; simp [run] at h; subst h; exact ⟨rfl, [], by simp, by simp⟩
  | cons o os ih =>
    intro st st' hwf hns h
    obtain ⟨s1, h1, h2⟩ := run_cons h
    have hn1 := step_bufLen hwf h1 (hns o (by simp))
    obtain ⟨new1, ho1, hc1⟩ := step_chunks hwf h1
    obtain ⟨hn2, new2, ho2, hc2⟩ := ih s1 st' (step_wf hwf h1) (fun o ho => hns o (by simp [ho])) h2
    refine ⟨hn2.trans hn1, new1 ++ new2, by rw [ho2, ho1, List.append_assoc], ?_⟩
    intro c hc
    rcases List.mem_append.1 hc with hm | hm
    · exact (hc1 c hm).fits
    · have := hc2 c hm; rwa [hn1] at this

/-! ### no undefined behaviour, no exhausted fuel -/

/-- The caller's side of the contract: the memory at `str` really holds what is asked for. -/
def OpOK : Op → Prop
  | .printn mem len => ReqOK mem len
  | .print mem => mem.contains 0 = true
  | .printf mem _ => mem.contains 0 = true
  | .title mem => mem.contains 0 = true
  | _ => True

theorem reqOK_literal (b : Bytes) (len : Nat) (h : len ≤ b.length + 1) : ReqOK (literal b) len := by
  unfold ReqOK literal
  constructor
  · simpa using h
  · intro _; simp

theorem condWrite_total {st : State} {mem : Bytes} {len : Nat} (c : Prop) [Decidable c] (hwf : WF st)
    (hr : ReqOK mem len) : ∃ st', (if c then writeStr st mem len else .ok st) = .ok st' := by
  split
  · exact writeStr_total hwf hr
  · exact ⟨st, rfl⟩

theorem drvTeardown_total {st : State} (hwf : WF st) : ∃ st', drvTeardown st = .ok st' := by
  unfold drvTeardown
  obtain ⟨s1, h1⟩ := condWrite_total (st := st) ((!st.mode.cursorvis) = true) hwf
    (reqOK_literal teardown_cursorvis teardown_cursorvis_len (by decide))
  have e1 := condWrite_ext _ hwf h1
  obtain ⟨s2, h2⟩ := condWrite_total (st := s1) (s1.mode.altscreen = true) e1.wf
    (reqOK_literal teardown_altscreen teardown_altscreen_len (by decide))
  have e2 := condWrite_ext _ e1.wf h2
  obtain ⟨s3, h3⟩ := writeStr_total e2.wf (reqOK_literal teardown_pen_reset teardown_pen_reset_len (by decide))
  exact ⟨_, bind_eq_ok.2 ⟨s1, h1, bind_eq_ok.2 ⟨s2, h2, bind_eq_ok.2 ⟨s3, h3, rfl⟩⟩⟩⟩

theorem drvResume_total {st : State} (hwf : WF st) : ∃ st', drvResume st = .ok st' := by
  unfold drvResume
  obtain ⟨s1, h1⟩ := condWrite_total (st := st) (st.mode.altscreen = true) hwf
    (reqOK_literal resume_altscreen resume_altscreen_len (by decide))
  have e1 := condWrite_ext _ hwf h1
  obtain ⟨s2, h2⟩ := condWrite_total (st := s1) ((!s1.mode.cursorvis) = true) e1.wf
    (reqOK_literal resume_cursorvis resume_cursorvis_len (by decide))
  exact ⟨_, bind_eq_ok.2 ⟨s1, h1, bind_eq_ok.2 ⟨s2, h2, rfl⟩⟩⟩

theorem writeFmts_total : ∀ (fs : List (List Piece)) (st : State), WF st → ∃ st', writeFmts st fs = .ok st' := by
  intro fs
  induction fs with
  | nil => intro st _; exact ⟨st, rfl⟩
  | cons f r ih =>
    intro st hwf
    obtain ⟨s1, h1⟩ := writeVstrf_total (render f [] []) hwf
    obtain ⟨s2, h2⟩ := ih s1 (writeVstrf_ext hwf h1).wf
    exact ⟨s2, bind_eq_ok.2 ⟨s1, h1, h2⟩⟩

theorem startIfUnstarted_total {st : State} (hwf : WF st) : ∃ st', startIfUnstarted st = .ok st' := by
  unfold startIfUnstarted
  split
  · exact ⟨st, rfl⟩
  · obtain ⟨s1, h1⟩ := writeFmts_total start_fmts st hwf
    exact ⟨_, bind_eq_ok.2 ⟨_, bind_eq_ok.2 ⟨s1, h1, rfl⟩, rfl⟩⟩

theorem termTeardown_total {st : State} (hwf : WF st) : ∃ st', termTeardown st = .ok st' := by
  unfold termTeardown
  by_cases hs : st.mode.started = true
  · rw [if_pos hs]
    by_cases hc : stop_is_teardown = true
    · rw [if_pos hc]
      obtain ⟨s1, h1⟩ := drvTeardown_total hwf
      exact ⟨_, bind_eq_ok.2 ⟨_, bind_eq_ok.2 ⟨s1, h1, rfl⟩, rfl⟩⟩
    · rw [if_neg hc]
      exact ⟨_, bind_eq_ok.2 ⟨_, bind_eq_ok.2 ⟨st, rfl, rfl⟩, rfl⟩⟩
  · rw [if_neg hs]
    exact ⟨_, bind_eq_ok.2 ⟨st, rfl, rfl⟩⟩

/-- Given what the caller owes (`OpOK`), no call reads outside its argument, overruns the output buffer
    (`outbuffer_cur ≤ outbuffer_len` is never violated) or loops for ever. -/
theorem step_ok {st : State} {o : Op} (hwf : WF st) (hok : OpOK o) : ∃ st', step st o = .ok st' := by
  cases o with
  | printn mem len =>
    simp only [step, termPrintn]
    split
    · exact ⟨st, rfl⟩
    · exact writeStr_total hwf hok
  | print mem =>
    simp only [step, termPrint]
    have hk : mem.contains 0 = true := hok
    rw [hk]
    simp only [Bool.not_true, Bool.false_eq_true, if_false]
    exact writeStr_total hwf ⟨cstrlen_le mem, fun _ => hk⟩
  | printf mem d =>
    simp only [step]
    have hk : mem.contains 0 = true := hok
    rw [hk]
    simp only [Bool.not_true, Bool.false_eq_true, if_false]
    exact termVprintf_total _ hwf
  | title mem =>
    simp only [step]
    have hk : mem.contains 0 = true := hok
    rw [hk]
    simp only [Bool.not_true, Bool.false_eq_true, if_false]
    exact writeVstrf_total _ hwf
  | goto l c =>
    simp only [step, drvGoto, writeStrf]
    split
    · exact writeVstrf_total _ hwf
    · split
      · exact writeVstrf_total _ hwf
      · split
        · exact writeVstrf_total _ hwf
        · split
          · exact writeVstrf_total _ hwf
          · split
            · exact writeStr_total hwf (reqOK_literal goto_col0 goto_col0_len (by decide))
            · exact ⟨st, rfl⟩
  | ctl c v =>
    simp only [step, drvSetctl]
    cases c with
    | altscreen =>
      simp only
      split
      · exact ⟨st, rfl⟩
      · obtain ⟨s1, h1⟩ := writeStr_total hwf (reqOK_literal (if v = true then altscreen_on else altscreen_off) altscreen_setctl_len
          (by cases v <;> decide))
        exact ⟨_, bind_eq_ok.2 ⟨s1, h1, rfl⟩⟩
    | cursorvis =>
      simp only
      split
      · exact ⟨st, rfl⟩
      · obtain ⟨s1, h1⟩ := writeStr_total hwf (reqOK_literal (if v = true then cursorvis_on else cursorvis_off) cursorvis_setctl_len
          (by cases v <;> decide))
        exact ⟨_, bind_eq_ok.2 ⟨s1, h1, rfl⟩⟩
  | flush => exact ⟨_, rfl⟩
  | pause =>
    simp only [step, termPause]
    by_cases hc : pause_is_teardown = true
    · rw [if_pos hc]
      obtain ⟨s1, h1⟩ := drvTeardown_total hwf
      exact ⟨_, bind_eq_ok.2 ⟨s1, h1, rfl⟩⟩
    · rw [if_neg hc]
      exact ⟨_, bind_eq_ok.2 ⟨st, rfl, rfl⟩⟩
  | resume =>
    simp only [step, termResume]
    obtain ⟨s1, h1⟩ := drvResume_total hwf
    exact ⟨_, bind_eq_ok.2 ⟨s1, h1, rfl⟩⟩
  | teardown => exact termTeardown_total hwf
  | setbuf n => exact ⟨_, rfl⟩
  | setFd fd => exact startIfUnstarted_total (st := postFd st fd) hwf
  | setFunc =>
    have hwf' : WF (preFunc st) := by
      obtain ⟨hb, hn, _⟩ := preFunc_facts st
      unfold WF; rw [hb, hn]; exact hwf
    exact startIfUnstarted_total (st := preFunc st) hwf'
  | destroy =>
    simp only [step, termDestroy]
    obtain ⟨s1, h1⟩ := termTeardown_total hwf
    exact ⟨_, bind_eq_ok.2 ⟨s1, h1, rfl⟩⟩

theorem run_ok : ∀ (ops : List Op) (st : State), WF st → (∀ o ∈ ops, OpOK o) → ∃ st', run st ops = .ok st' := by
  intro ops
  induction ops with
  | nil => intro st _ _; exact ⟨st, rfl⟩
  | cons o os ih =>
    intro st hwf hok
    obtain ⟨s1, h1⟩ := step_ok hwf (hok o (by simp))
    obtain ⟨s2, h2⟩ := ih s1 (step_wf hwf h1) (fun o ho => hok o (by simp [ho]))
    exact ⟨s2, bind_eq_ok.2 ⟨s1, h1, h2⟩⟩

/-! ### histories that only write and flush (no change of configuration) -/

theorem run_chunks_sink : ∀ (ops : List Op) (st st' : State), WF st → (∀ o ∈ ops, ¬ IsConfig o) → run st ops = .ok st' →
    st'.bufLen = st.bufLen ∧ sink st' = sink st ∧
    ∃ new, st'.out = st.out ++ new ∧ ∀ c ∈ new, ChunkOK st.bufLen (sink st) c := by
  intro ops
  induction ops with
  | nil => intro st st' _ _ h; simp [run] at h; subst h; exact ⟨rfl, rfl, [], by simp, by simp⟩
  | cons o os ih =>
    intro st st' hwf hnc h
    obtain ⟨s1, h1, h2⟩ := run_cons h
    have e1 := step_ext hwf (hnc o (by simp)) h1
    obtain ⟨new1, ho1, hc1⟩ := e1.out
    obtain ⟨hn2, hs2, new2, ho2, hc2⟩ := ih s1 st' e1.wf (fun o ho => hnc o (by simp [ho])) h2
    have hs1 : sink s1 = sink st := sink_congr e1.hasFunc
    refine ⟨hn2.trans e1.bufLen, hs2.trans hs1, new1 ++ new2, by rw [ho2, ho1, List.append_assoc], ?_⟩
    intro c hc
    rcases List.mem_append.1 hc with hm | hm
    · exact hc1 c hm
    · have := hc2 c hm; rwa [e1.bufLen, hs1] at this

/-! ### a decidable sufficient test for `Admissible` (used by the non-vacuity examples) -/

def opAdmissibleB (st : State) : Op → Bool
  | .setbuf _ => st.buf.isEmpty
  | .setFd fd => st.hasFunc || decide (fd ≠ -1)
  | .setFunc => true
  | _ => st.hasFunc || decide (st.outfd ≠ -1)

def admissibleB : State → List Op → Bool
  | _, [] => true
  | st, o :: os => opAdmissibleB st o &&
    (match step st o with
     | .ok s1 => admissibleB s1 os
     | _ => true)

theorem opAdmissibleB_sound {st : State} {o : Op} (h : opAdmissibleB st o = true) : OpAdmissible st o := by
  cases o <;> simp [opAdmissibleB, OpAdmissible, Attached, postFd, set_output_fd_stores] at h ⊢ <;> exact h

theorem admissibleB_sound : ∀ (ops : List Op) (st : State), admissibleB st ops = true → Admissible st ops := by
  intro ops
  induction ops with
  | nil => intro _ _; trivial
  | cons o os ih =>
    intro st h
    simp only [admissibleB, Bool.and_eq_true] at h
    refine ⟨opAdmissibleB_sound h.1, ?_⟩
    intro s1 h1
    have h2 := h.2
    rw [h1] at h2
    exact ih s1 h2

/-! ### terminals as the harness builds them -/

theorem admissible_append : ∀ (a b : List Op) (st : State), Admissible st a →
    (∀ s1, run st a = .ok s1 → Admissible s1 b) → Admissible st (a ++ b) := by
  intro a
  induction a with
  | nil => intro b st _ h; exact h st rfl
  | cons o os ih =>
    intro b st ha hb
    refine ⟨ha.1, ?_⟩
    intro s1 h1
    exact ih b s1 (ha.2 s1 h1) (fun s2 h2 => hb s2 (bind_eq_ok.2 ⟨s1, h1, h2⟩))

def IsAttach (o : Op) : Prop := (∃ fd, o = .setFd fd ∧ fd ≠ -1) ∨ o = .setFunc

theorem admissible_attach : ∀ (ops : List Op) (st : State), (∀ o ∈ ops, IsAttach o) → Admissible st ops := by
  intro ops
  induction ops with
  | nil => intro _ _; trivial
  | cons o os ih =>
    intro st h
    refine ⟨?_, fun s1 _ => ih s1 (fun o ho => h o (by simp [ho]))⟩
    rcases h o (by simp) with ⟨fd, rfl, hfd⟩ | rfl
    · exact attached_postFd hfd
    · trivial

theorem step_attach_attached {st st' : State} {o : Op} (hwf : WF st) (ho : IsAttach o) (h : step st o = .ok st') :
    Attached st' := by
  rcases ho with ⟨fd, rfl, hfd⟩ | rfl
  · have e := step_setFd_ext hwf h
    exact Or.inr (by rw [e.outfd, postFd_outfd]; exact hfd)
  · have e := step_setFunc_ext hwf h
    exact Or.inl (by rw [e.hasFunc]; exact (preFunc_facts st).2.2.2.1)

theorem run_attached : ∀ (ops : List Op) (st st' : State), WF st → run st ops = .ok st' → NoDetach ops →
    (Attached st ∨ ∃ o ∈ ops, IsAttach o) → Attached st' := by
  intro ops
  induction ops with
  | nil =>
    intro st st' _ h _ hat; simp [run] at h; subst h
    rcases hat with h | ⟨o, ho, _⟩
    · exact h
    · simp at ho
  | cons o os ih =>
    intro st st' hwf h hnd hat
    obtain ⟨s1, h1, h2⟩ := run_cons h
    apply ih s1 st' (step_wf hwf h1) h2 (fun o ho => hnd o (by simp [ho]))
    rcases hat with hat | ⟨o', ho', ha⟩
    · exact Or.inl (step_attached hwf h1 hat (hnd o (by simp)))
    · rcases List.mem_cons.1 ho' with rfl | hm
      · exact Or.inl (step_attach_attached hwf ha h1)
      · exact Or.inr ⟨o', hm, ha⟩

def attachOps (useFunc useFd : Bool) (fd : Int) : List Op :=
  (if useFd then [Op.setFd fd] else []) ++ (if useFunc then [Op.setFunc] else [])

theorem buildOps_eq (n : Nat) (f d early : Bool) (fd : Int) :
    buildOps n f d early fd = if early then Op.setbuf n :: attachOps f d fd
      else attachOps f d fd ++ (if n ≠ 0 then [Op.setbuf n] else []) := rfl

theorem attachOps_isAttach (f d : Bool) (fd : Int) (hfd : fd ≠ -1) : ∀ o ∈ attachOps f d fd, IsAttach o := by
  intro o ho
  cases f <;> cases d <;> simp [attachOps] at ho
  · subst ho; exact Or.inl ⟨fd, rfl, hfd⟩
  · subst ho; exact Or.inr rfl
  · rcases ho with rfl | rfl
    · exact Or.inl ⟨fd, rfl, hfd⟩
    · exact Or.inr rfl

theorem attachOps_noSetbuf (f d : Bool) (fd : Int) : NoSetbuf (attachOps f d fd) := by
  intro o ho n hn
  subst hn
  cases f <;> cases d <;> simp [attachOps] at ho

theorem attachOps_nonempty (f d : Bool) (fd : Int) (hfd : fd ≠ -1) (h : f = true ∨ d = true) :
    ∃ o ∈ attachOps f d fd, IsAttach o := by
  cases f <;> cases d <;> simp [attachOps, IsAttach] at h ⊢ <;> first | exact hfd | exact Or.inr hfd | exact Or.inl hfd

theorem init_wf : WF init := by unfold WF init; simp

theorem buildOps_noDetach (n : Nat) (f d early : Bool) (fd : Int) (hfd : fd ≠ -1) : NoDetach (buildOps n f d early fd) := by
  intro o ho h0
  subst h0
  rw [buildOps_eq] at ho
  by_cases hn : n = 0 <;> cases early <;> cases f <;> cases d <;> simp [attachOps, hn] at ho <;> omega

/-- The construction sequence of the harness respects the property's provisos. -/
theorem admissible_build (n : Nat) (f d early : Bool) (fd : Int) (hfd : fd ≠ -1) :
    Admissible init (buildOps n f d early fd) := by
  rw [buildOps_eq]
  cases early with
  | true =>
    simp only [if_true]
    exact ⟨rfl, fun s1 _ => admissible_attach _ s1 (attachOps_isAttach f d fd hfd)⟩
  | false =>
    simp only [Bool.false_eq_true, if_false]
    apply admissible_append _ _ _ (admissible_attach _ _ (attachOps_isAttach f d fd hfd))
    intro s1 h1
    split
    · refine ⟨?_, fun _ _ => trivial⟩
      have hn : s1.bufLen = 0 := (run_chunks _ _ _ init_wf (attachOps_noSetbuf f d fd) h1).1
      exact (run_wf _ _ _ init_wf h1).1 hn
    · trivial

theorem build_attached (n : Nat) (f d early : Bool) (fd : Int) (hfd : fd ≠ -1) (hsink : f = true ∨ d = true) (s : State)
    (h : run init (buildOps n f d early fd) = .ok s) : WF s ∧ Attached s := by
  refine ⟨run_wf _ _ _ init_wf h, run_attached _ _ _ init_wf h (buildOps_noDetach n f d early fd hfd) (Or.inr ?_)⟩
  obtain ⟨o, ho, ha⟩ := attachOps_nonempty f d fd hfd hsink
  refine ⟨o, ?_, ha⟩
  rw [buildOps_eq]
  cases early <;> simp [ho]

/-- What the construction requests: the driver's start-up strings, once. -/
theorem written_build (n : Nat) (f d early : Bool) (fd : Int) (hsink : f = true ∨ d = true) (ops : List Op) :
    written {} (buildOps n f d early fd ++ ops) = startBytes ++ written { started := true } ops := by
  rw [buildOps_eq]
  by_cases hn : n = 0 <;> cases early <;> cases f <;> cases d <;>
    simp [attachOps, written, requested, nextMode, hn] at hsink ⊢

end Tickit.TermBuf
