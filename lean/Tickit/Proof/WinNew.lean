import Tickit.Proof.WinRelist
/-
  The invariant step of `tickit_window_new`: the store grows by one slot that no child list names yet (so no owner
  changes: `ownerAt_push`, through the fuel independence of `Proof/WinOrder.lean`), then `_do_hierarchy_change(INSERT_FIRST
  or INSERT_LAST)` lists it in the parent and exposes its rectangle there (`relist_step`).
-/
namespace Tickit
namespace WinFlush
open WinTree WinRB WinSpec

/-- What `tickit_window_new` comes to: a live parent `p` (after the `ROOT_PARENT` re-expression), the new slot, and the
    insertion. -/
theorem newWindow_shape (t t' : Tree) (fuel : Nat) (parent id : Id) (rect : Rect) (rootParent hidden lowest steal : Bool)
    (h : newWindow t fuel parent rect rootParent hidden lowest steal = .ok (t', id)) :
    ∃ (p : Id) (r : Rect) (ppw : Win), WinTree.get t p = .ok ppw ∧ id = t.wins.size ∧
      doHierarchyChange
        { t with wins := t.wins.push { parent := some p, rect := r, isVisible := !hidden, stealInput := steal } }
        fuel (if lowest then Change.insertLast else Change.insertFirst) p t.wins.size = .ok t' := by
  unfold newWindow at h
  simp only [bind, Bind.bind] at h
  split at h
  · split at h
    · rename_i a hc
      split at h
      · rename_i ppw hg
        split at h
        · rename_i t2 hd
          simp only [pure, Pure.pure, Res.ok.injEq, Prod.mk.injEq] at h
          obtain ⟨rfl, rfl⟩ := h
          exact ⟨_, _, ppw, hg, rfl, hd⟩
        · cases h
      · cases h
    · cases h
  · simp only [pure, Pure.pure] at h
    split at h
    · rename_i ppw hg
      split at h
      · rename_i t2 hd
        simp only [Res.ok.injEq, Prod.mk.injEq] at h
        obtain ⟨rfl, rfl⟩ := h
        exact ⟨_, _, ppw, hg, rfl, hd⟩
      · cases h
    · cases h

/-- A slot appended to the store that no child list names is invisible to the composition. -/
theorem ownerLoc_push (t t1 : Tree) (hw : ∀ x : Nat, x < t.wins.size → t1.wins[x]? = t.wins[x]?)
    (hch : ∀ (x : Nat) (w : Win), t.wins[x]? = some w → ∀ ch ∈ w.children, @LT.lt Nat _ ch t.wins.size) :
    ∀ (n : Nat) (id : Nat) (l c : Int), id < t.wins.size → ownerLoc t1 n id l c = ownerLoc t n id l c := by
  intro n
  induction n with
  | zero => intro id l c _; rfl
  | succ m ih =>
    intro id l c hid
    rw [ownerLoc_unfold, ownerLoc_unfold, hw id hid]
    cases hx : t.wins[id]? with
    | none => rfl
    | some w =>
      simp only
      have hall : ∀ ch ∈ w.children, ownerLoc t1 m ch (l - w.rect.top) (c - w.rect.left) =
          ownerLoc t m ch (l - w.rect.top) (c - w.rect.left) :=
        fun ch hch' => ih ch _ _ (hch id w hx ch hch')
      rw [findSome?_congr_mem _ _ _ hall]

theorem lt_size_of_some {t : Tree} {x : Nat} {w : Win} (h : t.wins[x]? = some w) : x < t.wins.size := by
  apply Classical.byContradiction
  intro hn
  rw [Array.getElem?_eq_none (Nat.le_of_not_lt hn)] at h
  cases h

/-- **`tickit_window_new`** keeps the invariants and "damaged or already right". -/
theorem newWindow_step (content : Id → Int → Int → Cell) (screen : Int → Int → Cell) (t t' : Tree) (parent id : Id)
    (rect : Rect) (rootParent hidden lowest steal : Bool) (hI : TInv content screen t)
    (h : newWindow t (t.wins.size + 1) parent rect rootParent hidden lowest steal = .ok (t', id)) :
    TInv content screen t' ∧ RootStep t t' ∧ t'.wins.size = t.wins.size + 1 ∧ id = t.wins.size ∧
      (ParentListed t → ParentListed t') ∧ RectsKept t t' := by
  obtain ⟨p, r, ppw, hgp, hid, hd⟩ := newWindow_shape t t' _ parent id rect rootParent hidden lowest steal h
  have hppw := get_ok hgp
  have hplt : @LT.lt Nat _ p t.wins.size := lt_size_of_some hppw.1
  generalize hw0 : ({ parent := some p, rect := r, isVisible := !hidden, stealInput := steal } : Win) = w0 at hd
  generalize ht1 : ({ t with wins := t.wins.push w0 } : Tree) = t1 at hd
  have hw0f : w0.parent = some p ∧ w0.isRoot = false ∧ w0.children = [] ∧ w0.freed = false := by
    rw [← hw0]; exact ⟨rfl, rfl, rfl, rfl⟩
  have h1_size : t1.wins.size = t.wins.size + 1 := by rw [← ht1]; simp
  have h1_old : ∀ x : Nat, x < t.wins.size → t1.wins[x]? = t.wins[x]? := by
    intro x hx; rw [← ht1]; simp [Array.getElem?_push, Nat.ne_of_lt hx]
  have h1_new : t1.wins[t.wins.size]? = some w0 := by rw [← ht1]; simp
  have h1_root : t1.root = t.root := by rw [← ht1]
  have hok := hI.ok
  -- children exist
  have hch : ∀ (x : Nat) (w : Win), t.wins[x]? = some w → ∀ ch ∈ w.children, @LT.lt Nat _ ch t.wins.size := by
    intro x w hw ch hc
    obtain ⟨cw, hcw, _⟩ := hok.wf.child x w hw ch hc
    exact lt_size_of_some hcw
  -- every window of `t1`: an old one, or the new slot
  have hcase : ∀ (x : Nat) (w : Win), t1.wins[x]? = some w → (x < t.wins.size ∧ t.wins[x]? = some w) ∨ (x = t.wins.size ∧ w = w0) := by
    intro x w hw
    have hx : x < t1.wins.size := lt_size_of_some hw
    rw [h1_size] at hx
    by_cases hlt : x < t.wins.size
    · rw [h1_old x hlt] at hw; exact Or.inl ⟨hlt, hw⟩
    · have : x = t.wins.size := by omega
      subst this
      rw [h1_new] at hw; cases hw
      exact Or.inr ⟨rfl, rfl⟩
  have hok1 : TreeOk t1 := by
    refine ⟨⟨?_⟩, ?_, ?_, ?_, ?_⟩
    · intro cur w hw ch hc
      rcases hcase cur w hw with ⟨_, hw'⟩ | ⟨_, hw'⟩
      · obtain ⟨cw, hcw, hcp, hcr⟩ := hok.wf.child cur w hw' ch hc
        exact ⟨cw, by rw [h1_old ch (lt_size_of_some hcw)]; exact hcw, hcp, hcr⟩
      · subst hw'; rw [hw0f.2.2.1] at hc; cases hc
    · intro cur w hw
      rcases hcase cur w hw with ⟨_, hw'⟩ | ⟨_, hw'⟩
      · exact hok.nodup cur w hw'
      · subst hw'; rw [hw0f.2.2.1]; exact List.nodup_nil
    · intro x w hw
      rcases hcase x w hw with ⟨_, hw'⟩ | ⟨hx, hw'⟩
      · exact hok.noSelf x w hw'
      · subst hw'; rw [hw0f.1, hx]
        intro hh
        have hpe : @Eq Nat p t.wins.size := Option.some.inj hh
        omega
    · intro x w hw hr
      rcases hcase x w hw with ⟨_, hw'⟩ | ⟨_, hw'⟩
      · exact hok.onlyRoot x w hw' hr
      · subst hw'; rw [hw0f.2.1] at hr; cases hr
    · obtain ⟨w, hw, rest⟩ := hok.rootWin.ex
      exact ⟨⟨w, by rw [h1_old 0 (lt_size_of_some hw)]; exact hw, rest⟩⟩
  have hord1 : Ordered t1 := by
    intro x w hw ch hc
    rcases hcase x w hw with ⟨_, hw'⟩ | ⟨_, hw'⟩
    · exact hI.ord x w hw' ch hc
    · subst hw'; rw [hw0f.2.2.1] at hc; cases hc
  have hpos1 : RootsPositive t1 := by
    intro x w hw hr
    rcases hcase x w hw with ⟨_, hw'⟩ | ⟨_, hw'⟩
    · exact hI.pos x w hw' hr
    · subst hw'; rw [hw0f.2.1] at hr; cases hr
  have h0lt : 0 < t.wins.size := by
    obtain ⟨w, hw, _⟩ := hok.rootWin.ex
    exact lt_size_of_some hw
  have hown : ∀ L C, ownerAt t1 L C = ownerAt t L C := by
    intro L C
    rw [← ownerAt_fuel t1 hord1 (t.wins.size + 1) (by omega), ← ownerAt_fuel t hI.ord (t.wins.size + 1) (by omega)]
    exact ownerLoc_push t t1 h1_old hch _ 0 L C h0lt
  have hI1 : TInv content screen t1 :=
    ⟨hok1, hord1, hpos1, by rw [h1_root]; exact hI.nonempty, by rw [h1_root]; exact hI.dinv, by
      intro L C w l c ho
      rw [hown] at ho
      rw [h1_root]
      exact hI.inv L C w l c ho⟩
  -- the insertion
  have h1_p : t1.wins[p]? = some ppw := by rw [h1_old p hplt]; exact hppw.1
  unfold doHierarchyChange at hd
  simp only [bind, Bind.bind] at hd
  have hg1p : WinTree.get t1 p = .ok ppw := by unfold WinTree.get; rw [h1_p]; simp [hppw.2]
  have hg1c : WinTree.get t1 t.wins.size = .ok w0 := by unfold WinTree.get; rw [h1_new]; simp [hw0f.2.2.2]
  rw [hg1p, hg1c] at hd
  simp only at hd
  have hnotin : t.wins.size ∉ ppw.children := by
    intro hm
    have := hch p ppw hppw.1 _ hm
    omega
  have honly : ∀ (x : Nat) (w : Win), x ≠ p → x ≠ t.wins.size → t1.wins[x]? = some w → t.wins.size ∉ w.children := by
    intro x w _ hxs hw hm
    rcases hcase x w hw with ⟨_, hw'⟩ | ⟨hx, _⟩
    · have := hch x w hw' _ hm
      omega
    · exact hxs hx
  have hfin : ∀ cs : List Id, cs.filter (fun x => decide (x ≠ t.wins.size)) = ppw.children.filter (fun x => decide (x ≠ t.wins.size)) →
      cs.Nodup →
      (if w0.isVisible then expose (WinTree.set t1 p { ppw with children := cs }) (t.wins.size + 1) p (some w0.rect)
        else pure (WinTree.set t1 p { ppw with children := cs })) = .ok t' →
      t.wins.size ∈ cs →
      TInv content screen t' ∧ RootStep t t' ∧ t'.wins.size = t.wins.size + 1 ∧ id = t.wins.size ∧
        (ParentListed t → ParentListed t') ∧ RectsKept t t' := by
    intro cs hfilter hnd hh hcm
    obtain ⟨a1, a2, a3, a4⟩ := relist_step content screen t1 t' p t.wins.size ppw w0 cs (t.wins.size + 1) hI1 (by omega) h1_p h1_new
      (Nat.ne_of_lt hplt) (Nat.ne_of_gt h0lt) honly hfilter hnd (fun _ => ⟨hw0f.1, hw0f.2.1, hplt⟩) hh
    refine ⟨a1, ?_, by rw [a3, set_size, h1_size], hid, fun hpl => a4 ?_ ?_, ?_⟩
    rotate_right
    · intro x w hw
      exact rectsKept_relist t1 t' p ppw cs h1_p a3 x w (by rw [h1_old x (lt_size_of_some hw)]; exact hw)
    · rcases a2 with a2 | ⟨x, y, z⟩
      · exact Or.inl (by rw [a2, h1_root])
      · exact Or.inr ⟨x, y, by rw [z, h1_root]⟩
    · intro x w q hx hw hq
      rcases hcase x w hw with ⟨_, hw'⟩ | ⟨hx', _⟩
      · obtain ⟨qw, hqw, hm⟩ := hpl x w q hw' hq
        exact ⟨qw, by rw [h1_old q (lt_size_of_some hqw)]; exact hqw, hm⟩
      · exact absurd hx' hx
    · intro q hq
      rw [hw0f.1] at hq
      exact ⟨(Option.some.inj hq).symm, hcm⟩
  cases lowest with
  | true =>
    simp only [if_true, pure, Pure.pure] at hd
    refine hfin _ ?_ ?_ hd ?_
    · rw [List.filter_append]; simp
    · exact List.nodup_append.2 ⟨hok.nodup p ppw hppw.1, List.pairwise_singleton _ _, by
        intro a ha b hb
        simp at hb; subst hb
        exact fun hab => hnotin (by rw [← hab]; exact ha)⟩
    · simp
  | false =>
    simp only [Bool.false_eq_true, if_false, pure, Pure.pure] at hd
    refine hfin _ ?_ ?_ hd ?_
    · simp [List.filter_cons]
    · exact List.nodup_cons.2 ⟨hnotin, hok.nodup p ppw hppw.1⟩
    · simp

end WinFlush
end Tickit
