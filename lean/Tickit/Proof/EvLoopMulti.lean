import Tickit.Model.EvLoopMulti
import Tickit.Proof.EvLoopObs
/-
  Several toplevel instances (Model/EvLoopMulti.lean): where `signal_observer` points.

  `Consistent w`: the `St` the world operates on sees the pointer as the world has it.  It holds in every
  reachable world; with it:
    * nothing but building and destroying an instance moves the pointer (`observer_step_other`);
    * destroying an instance that is *not* the observer leaves the pointer where it is
      (`observer_destroy_other`) — the statement the seeded change "reset on every destroy" breaks;
    * destroying the observer clears it (`observer_destroy_self`); the next instance built takes it
      (`observer_build`), one built while there is an observer does not.
-/
namespace Tickit.EvLoop

theorem abs_rel (cur : Nat) (old : Option Nat) : absObserver cur old (relObserver old cur) = old := by
  unfold absObserver relObserver
  cases old with
  | none => rfl
  | some j =>
    by_cases h : j = cur
    · simp only [h, if_true]
    · simp only [h, if_false]

theorem rel_abs (cur : Nat) (old : Option Nat) (r : Observer) (h : r = .other → relObserver old cur = .other) :
    relObserver (absObserver cur old r) cur = r := by
  cases r with
  | self => simp [absObserver, relObserver]
  | none => simp [absObserver, relObserver]
  | other => simpa [absObserver] using h rfl

namespace World

def Consistent (w : World) : Prop := w.st.observer = relObserver w.observer w.cur

theorem store_st (w : World) : w.store.st = w.st := rfl
theorem store_cur (w : World) : w.store.cur = w.cur := rfl
theorem store_observer (w : World) : w.store.observer = w.observer := rfl

theorem consistent_store {w : World} (h : w.Consistent) : w.store.Consistent := h

theorem consistent_load (w : World) (i : Nat) : (w.load i).Consistent := rfl

theorem sync_observer (w : World) (st' : St) : (w.sync st').observer = absObserver w.cur w.observer st'.observer := rfl
theorem sync_st (w : World) (st' : St) : (w.sync st').st = st' := rfl
theorem sync_cur (w : World) (st' : St) : (w.sync st').cur = w.cur := rfl

/-- After an operation that leaves the pointer at another loop only if it was there before. -/
theorem consistent_sync {w : World} (h : w.Consistent) (st' : St) (ho : st'.observer = .other → w.st.observer = .other) :
    (w.sync st').Consistent := by
  unfold Consistent
  rw [sync_st, sync_observer, sync_cur]
  exact (rel_abs w.cur w.observer st'.observer (fun hh => by rw [← h]; exact ho hh)).symm

theorem consistent_init (cfg : Config) : (init cfg).Consistent := by
  unfold init
  apply consistent_store
  unfold Consistent relObserver
  simp only [if_true]
  show (build cfg).observer = .self
  have h1 := ob_watchIo (build0 cfg) (-1) IO_IN 0 (-1)
  have h2 := ob_watchSignal (watchIo (build0 cfg) (-1) IO_IN 0 (-1)).1 SIGWINCH 0 (-2)
  unfold ObsEq at h1 h2
  show (watchSignal (watchIo (build0 cfg) (-1) IO_IN 0 (-1)).1 SIGWINCH 0 (-2)).1.observer = _
  rw [h2, h1]; rfl

/-- `tickit_build` of a further instance: `if(!signal_observer) signal_observer = evdata;`. -/
theorem observer_buildOn (st : St) : (buildOn st).observer = if st.observer = .none then .self else st.observer := by
  have h1 := ob_watchIo (build0On st) (-1) IO_IN 0 (-1)
  have h2 := ob_watchSignal (watchIo (build0On st) (-1) IO_IN 0 (-1)).1 SIGWINCH 0 (-2)
  unfold ObsEq at h1 h2
  show (watchSignal (watchIo (build0On st) (-1) IO_IN 0 (-1)).1 SIGWINCH 0 (-2)).1.observer = _
  rw [h2, h1]; rfl

theorem consistent_step {w : World} (h : w.Consistent) (op : WOp) : (w.step op).Consistent := by
  cases op with
  | use i =>
    unfold step
    simp only []
    split
    · exact h
    · exact consistent_load w i
  | inst i =>
    unfold step
    simp only []
    split
    · exact h
    · split
      · exact consistent_load w i
      · apply consistent_sync (consistent_load w i)
        intro hh
        rw [observer_buildOn] at hh
        split at hh
        · cases hh
        · exact hh
  | op o =>
    unfold step
    simp only []
    apply consistent_sync h
    intro hh
    cases observer_applyOp_cases w.st o with
    | inl e => rw [← e]; exact hh
    | inr e => rw [e.1] at hh; cases hh

/-- Every reachable world is consistent. -/
theorem consistent_run (cfg : Config) (ops : List WOp) : (run cfg ops).Consistent := by
  unfold run
  have : ∀ (l : List WOp) (w : World), w.Consistent → (l.foldl step w).Consistent := by
    intro l
    induction l with
    | nil => intro w h; exact h
    | cons o rest ih => intro w h; exact ih _ (consistent_step h o)
  exact this ops _ (consistent_init cfg)

/-- Nothing but building and destroying an instance moves `signal_observer`: switching instances and every
    operation on the current instance other than `destroy` — whole iterations and `tickit_run` with whatever
    their callbacks do included — leave it where it is. -/
theorem observer_step_other {w : World} (h : w.Consistent) (op : WOp)
    (hop : (∃ i, op = .use i) ∨ (∃ o, op = .op o ∧ o ≠ .destroy)) : (w.step op).observer = w.observer := by
  cases hop with
  | inl hu =>
    obtain ⟨i, rfl⟩ := hu
    unfold step
    simp only []
    split <;> rfl
  | inr ho =>
    obtain ⟨o, rfl, hne⟩ := ho
    unfold step
    simp only []
    rw [sync_observer, ob_applyOp w.st o hne, h]
    exact abs_rel _ _

/-- Destroying an instance whose loop is *not* the signal observer leaves `signal_observer` where it is. -/
theorem observer_destroy_other {w : World} (h : w.Consistent) (o : Nat) (ho : w.observer = some o) (hne : o ≠ w.cur) :
    (w.step (.op .destroy)).observer = some o := by
  have hs : w.st.observer = .other := by
    rw [h, ho]; unfold relObserver; simp only [hne, if_false]
  unfold step
  simp only []
  rw [sync_observer]
  cases observer_applyOp_cases w.st .destroy with
  | inl e => rw [e, hs, ho]; rfl
  | inr e => rw [hs] at e; cases e.2

/-- Destroying the observer (the destruction runs to its end) clears the pointer. -/
theorem observer_destroy_self {w : World} (h : w.Consistent) (ho : w.observer = some w.cur) (ha : w.st.alive = true)
    (hok : (destroy { w.st with log := [] }).isOk = true) : (w.step (.op .destroy)).observer = none := by
  have hs : w.st.observer = .self := by
    rw [h, ho]; unfold relObserver; simp only [if_true]
  have hok0 : w.st.isOk = true := by
    cases hh : w.st.isOk with
    | true => rfl
    | false =>
      have : ({ w.st with log := [] } : St).isOk = false := hh
      unfold destroy at hok
      rw [if_pos (by rw [this]; rfl)] at hok
      rw [this] at hok; cases hok
  unfold step
  simp only []
  rw [sync_observer]
  have e : ∀ s : St, s.isOk = true → s.alive = true → applyOp' s .destroy = destroy s := by
    intro s h1 h2
    unfold applyOp'
    rw [if_neg (by rw [h1]; simp)]
    simp only []
    rw [if_neg (by rw [h2]; simp)]
  have e : applyOp w.st .destroy = destroy { w.st with log := [] } := e _ hok0 ha
  rw [e, observer_destroy _ hok]
  show absObserver _ _ (observerAfterDestroy w.st.observer) = none
  rw [hs]; rfl

/-- Building an instance: it becomes the observer exactly when there is none. -/
theorem observer_build {w : World} (i : Nat) (hok : w.st.isOk = true) (hi : i < NINST)
    (hna : (w.load i).st.alive = false) :
    (w.step (.inst i)).observer = match w.observer with | none => some i | some o => some o := by
  unfold step
  simp only []
  rw [if_neg (by simp [hok]; omega), if_neg (by simp [hna])]
  rw [sync_observer, observer_buildOn]
  show absObserver i w.observer (if relObserver w.observer i = .none then .self else relObserver w.observer i) = _
  cases hw : w.observer with
  | none => simp [relObserver, absObserver]
  | some o =>
    by_cases h : o = i
    · simp [relObserver, absObserver, h]
    · simp [relObserver, absObserver, h]

end World

end Tickit.EvLoop
