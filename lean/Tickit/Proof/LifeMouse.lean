import Tickit.Proof.LifeKeys
/-
  C08 proofs, part 9: mouse events delivered to handlers that free nothing (`_handle_mouse` with its counted return,
  `on_term_mouse` with the drag context).  Same account as for key events (Proof/LifeKeys.lean); `_handle_mouse`
  returns a counted reference to the window that took the event, which its caller gives back.
-/
namespace Tickit.Life
open WinTree (Id Win Req Change Tree)
variable {gh : Ghost}

/-- The frames' tally with the counted reference `_handle_mouse` has returned. -/
def bumpOpt (int : Nat → Nat) : Option Nat → Nat → Nat
  | none => int
  | some w => bump int w

theorem bumpOpt_add (f cnt : Nat → Nat) (r : Option Nat) :
    bumpOpt (fun j => f j + cnt j) r = fun j => bumpOpt f r j + cnt j := by
  cases r with
  | none => rfl
  | some w => funext j; simp only [bumpOpt, bump]; split <;> omega

theorem unbump_bumpOpt_bump (int : Nat → Nat) (win : Nat) (r : Option Nat) :
    unbump (bumpOpt (bump int win) r) win = bumpOpt int r := by
  cases r with
  | none => exact unbump_bump int win
  | some w =>
    funext j
    simp only [bumpOpt, unbump, bump]
    by_cases hj : j = win
    · subst hj
      by_cases hw : j = w
      · subst hw; simp
      · simp [hw]
    · by_cases hw : j = w
      · subst hw; simp [hj]
      · simp [hj, hw]

theorem bumpOpt_ge (int : Nat → Nat) (r : Option Nat) (j : Nat) : int j ≤ bumpOpt int r j := by
  cases r with
  | none => exact Nat.le_refl _
  | some w => exact bump_ge int w j

/-- What the frames below give for `_handle_mouse`. -/
def RecOkM (gh : Ghost) (recM : St → Id → Mouse → Out (St × Option Id)) (win : Nat) (N : Nat) : Prop :=
  ∀ {st : St} {int : Nat → Nat} {child : Nat} {cw : Win} (info : Mouse), KInv gh st int → KeepingHandlers st →
    LiveW st.tree child cw → cw.parent = some win → st.tree.wins.size = N →
    ∃ st' r, recM st child info = .ok (st', r) ∧ KInv gh st' (bumpOpt int r) ∧ Pres st st' ∧ KeepingHandlers st' ∧
      (∀ w, r = some w → ∃ ww, LiveW st'.tree w ww)

theorem mouseLoop_keep {recM : St → Id → Mouse → Out (St × Option Id)} {win : Nat} {N : Nat} (hrec : RecOkM gh recM win N)
    (info : Mouse) :
    ∀ (cs : List Nat) {st : St} {int : Nat → Nat}, KInv gh st int → KeepingHandlers st →
    (∀ c ∈ cs, ∃ cw, LiveW st.tree c cw) → st.tree.wins.size = N →
    ∃ st' r, mouseLoop recM win info st cs = .ok (st', r) ∧ KInv gh st' (bumpOpt int r) ∧ Pres st st' ∧ KeepingHandlers st' ∧
      (∀ w, r = some w → ∃ ww, LiveW st'.tree w ww)
  | [], st, int, K, H, _, _ => ⟨st, none, by rw [mouseLoop]; rfl, K, Pres.refl st, H, fun w h => by cases h⟩
  | child :: rest, st, int, K, H, hl, hN => by
    obtain ⟨cw, hc⟩ := hl child (by simp)
    have hrest : ∀ c ∈ rest, ∃ cw, LiveW st.tree c cw := fun x hx => hl x (by simp [hx])
    rw [mouseLoop]
    simp only [getW, get_live hc, bind_ok]
    by_cases hp : cw.parent ≠ some win
    · rw [if_pos hp]
      exact mouseLoop_keep hrec info rest K H hrest hN
    · rw [if_neg hp]
      have hp' : cw.parent = some win := by
        cases h : cw.parent with
        | none => rw [h] at hp; simp at hp
        | some p => rw [h] at hp; simpa using hp
      split
      · exact mouseLoop_keep hrec info rest K H hrest hN
      · obtain ⟨st1, r1, h1, K1, P1, H1, L1⟩ := hrec { info with line := info.line - cw.rect.top, col := info.col - cw.rect.left } K H hc hp' hN
        simp only [h1, bind_ok]
        by_cases hs : r1.isSome = true
        · rw [if_pos hs]
          exact ⟨st1, r1, rfl, K1, P1, H1, L1⟩
        · rw [if_neg hs]
          have hn : r1 = none := by cases r1 <;> simp_all
          subst hn
          obtain ⟨st2, r2, h2, K2, P2, H2, L2⟩ := mouseLoop_keep hrec info rest K1 H1 (fun x hx => by
            obtain ⟨xw, hxl⟩ := hrest x hx; exact P1.live x xw hxl) (P1.size.trans hN)
          exact ⟨st2, r2, h2, K2, P1.trans P2, H2, L2⟩

/-- The end of the body of `_handle_mouse` (the join point of its `do` block): the frame's own reference goes. -/
def mStage2 (cfg : Cfg) (win : Id) (r2 : St × Option Id) : Out (St × Option Id) := do
  let st ← unrefW cfg r2.1 win
  pure (st, r2.2)

theorem handleMouseBody_eq (cfg : Cfg) (recM : St → Id → Mouse → Out (St × Option Id)) (st : St) (win : Id) (info : Mouse) :
    handleMouseBody cfg recM st win info = (do
      let shown ← isShownW st win
      if !shown then pure (st, none)
      else do
        let st ← refW st win
        let sn ← refChildren st win
        let r ← mouseLoop recM win info sn.1 sn.2
        let st ← unrefChildren cfg r.1 sn.2
        if r.2.isSome then mStage2 cfg win (st, r.2) else do
          let shown ← isShownW st win
          if shown then do
            let h ← runBinds cfg st win .mouse (logMouse win info)
            if h.2 then do
              let st ← refW h.1 win
              mStage2 cfg win (st, some win)
            else mStage2 cfg win (h.1, none)
          else mStage2 cfg win (st, none)) := by
  rfl

theorem mStage2_keep (cfg : Cfg) {win : Nat} {r2 : St × Option Id} {int : Nat → Nat} (K : KInv gh r2.1 (bumpOpt (bump int win) r2.2))
    (H : KeepingHandlers r2.1) (hw : ∃ w, LiveW r2.1.tree win w) (hr : ∀ w, r2.2 = some w → ∃ ww, LiveW r2.1.tree w ww) :
    ∃ st' r, mStage2 cfg win r2 = .ok (st', r) ∧ KInv gh st' (bumpOpt int r) ∧ Pres r2.1 st' ∧ KeepingHandlers st' ∧
      (∀ w, r = some w → ∃ ww, LiveW st'.tree w ww) := by
  obtain ⟨w, hw⟩ := hw
  unfold mStage2
  obtain ⟨st1, h1, K1, P1, hx1⟩ := K.unrefI cfg hw (Nat.le_trans (bump_self int win) (bumpOpt_ge _ _ _))
  rw [unbump_bumpOpt_bump] at K1
  simp only [h1, bind_ok, pure_ok]
  exact ⟨st1, r2.2, rfl, K1, P1, H.of_wx hx1, fun x hx => by obtain ⟨xw, hxl⟩ := hr x hx; exact P1.live x xw hxl⟩

/-- The body of `_handle_mouse`, the frames below being in order. -/
theorem handleMouseBody_keep {cfg : Cfg} (R : Repaired cfg) {recM : St → Id → Mouse → Out (St × Option Id)} {win : Nat} {N : Nat}
    (hrec : RecOkM gh recM win N) {st : St} {int : Nat → Nat} (K : KInv gh st int) (H : KeepingHandlers st) {ww : Win}
    (hw : LiveW st.tree win ww) (hN : st.tree.wins.size = N) (info : Mouse) :
    ∃ st' r, handleMouseBody cfg recM st win info = .ok (st', r) ∧ KInv gh st' (bumpOpt int r) ∧ Pres st st' ∧ KeepingHandlers st' ∧
      (∀ w, r = some w → ∃ ww, LiveW st'.tree w ww) := by
  rw [handleMouseBody_eq]
  obtain ⟨sh, hsh⟩ := isShown_ok K.tinv win ww hw _ (chainFuel_gt hw)
  simp only [isShownW, hsh, bind_ok]
  by_cases hs : (!sh) = true
  · rw [if_pos hs]
    exact ⟨st, none, rfl, K, Pres.refl st, H, fun w h => by cases h⟩
  · rw [if_neg hs]
    obtain ⟨st1, h1, K1, P1, hx1⟩ := K.refI hw
    simp only [h1, bind_ok]
    obtain ⟨w1, hw1⟩ := P1.live win ww hw
    have H1 := H.of_wx hx1
    unfold refChildren
    simp only [getW, get_live hw1, bind_ok]
    have hch : ∀ c ∈ w1.children, ∃ cw, LiveW st1.tree c cw := fun c hc => by
      obtain ⟨cw, hcl, _⟩ := K1.tinv.child_ok win w1 hw1 c hc; exact ⟨cw, hcl⟩
    obtain ⟨st2, h2, K2, P2, hx2⟩ := foldl_refW_keep w1.children K1 hch
    simp only [h2, bind_ok, pure_ok]
    obtain ⟨st3, r3, h3, K3, P3, H3, L3⟩ := mouseLoop_keep hrec info w1.children K2 (H1.of_wx hx2)
      (fun c hc => by obtain ⟨cw, hcl⟩ := hch c hc; exact P2.live c cw hcl) ((P1.trans P2).size.trans hN)
    simp only [h3, bind_ok]
    unfold unrefChildren
    rw [bumpOpt_add] at K3
    obtain ⟨st4, h4, K4, P4, hx4⟩ := foldl_unrefW_keep cfg w1.children K3
      (fun c hc => by obtain ⟨cw, hcl⟩ := hch c hc; exact (P2.trans P3).live c cw hcl)
    simp only [h4, bind_ok]
    have H4 := H3.of_wx hx4
    have P14 := ((P1.trans P2).trans P3).trans P4
    obtain ⟨w4, hw4⟩ := P14.live win ww hw
    have L4 : ∀ w, r3 = some w → ∃ ww, LiveW st4.tree w ww := fun x hx => by
      obtain ⟨xw, hxl⟩ := L3 x hx; exact P4.live x xw hxl
    by_cases hsome : r3.isSome = true
    · rw [if_pos hsome]
      obtain ⟨st5, r5, h5, K5, P5, H5, L5⟩ := mStage2_keep cfg (r2 := (st4, r3)) K4 H4 ⟨w4, hw4⟩ L4
      exact ⟨st5, r5, h5, K5, P14.trans P5, H5, L5⟩
    · rw [if_neg hsome]
      have hn : r3 = none := by cases r3 <;> simp_all
      subst hn
      have K4' : KInv gh st4 (bump int win) := K4
      obtain ⟨sh2, hsh2⟩ := isShown_ok K4'.tinv win w4 hw4 _ (chainFuel_gt hw4)
      simp only [hsh2, bind_ok]
      by_cases hs2 : sh2 = true
      · rw [if_pos hs2]
        obtain ⟨st5, b5, h5, K5, P5, H5⟩ := runBinds_keep R K4' H4 hw4 .mouse (logMouse win info)
        simp only [h5, bind_ok]
        obtain ⟨w5, hw5⟩ := P5.live win w4 hw4
        by_cases hb : b5 = true
        · rw [if_pos hb]
          obtain ⟨st6, h6, K6, P6, hx6⟩ := K5.refI hw5
          simp only [h6, bind_ok]
          obtain ⟨w6, hw6⟩ := P6.live win w5 hw5
          obtain ⟨st7, r7, h7, K7, P7, H7, L7⟩ := mStage2_keep cfg (r2 := (st6, some win)) (int := int)
            (by show KInv gh st6 (bump (bump int win) win); exact K6) (H5.of_wx hx6) ⟨w6, hw6⟩
            (fun x hx => by cases hx; exact ⟨w6, hw6⟩)
          exact ⟨st7, r7, h7, K7, ((P14.trans P5).trans P6).trans P7, H7, L7⟩
        · rw [if_neg hb]
          obtain ⟨st7, r7, h7, K7, P7, H7, L7⟩ := mStage2_keep cfg (r2 := (st5, none)) (int := int) K5 H5 ⟨w5, hw5⟩
            (fun x hx => by cases hx)
          exact ⟨st7, r7, h7, K7, (P14.trans P5).trans P7, H7, L7⟩
      · rw [if_neg hs2]
        obtain ⟨st7, r7, h7, K7, P7, H7, L7⟩ := mStage2_keep cfg (r2 := (st4, none)) (int := int) K4' H4 ⟨w4, hw4⟩
          (fun x hx => by cases hx)
        exact ⟨st7, r7, h7, K7, P14.trans P7, H7, L7⟩

/-- `_handle_mouse` with enough recursion budget. -/
theorem handleMouse_keep {cfg : Cfg} (R : Repaired cfg) : ∀ (fuel : Nat) {st : St} {int : Nat → Nat} {win : Nat} {ww : Win} (info : Mouse),
    KInv gh st int → KeepingHandlers st → LiveW st.tree win ww → st.tree.wins.size ≤ win + fuel →
    ∃ st' r, handleMouse cfg fuel st win info = .ok (st', r) ∧ KInv gh st' (bumpOpt int r) ∧ Pres st st' ∧ KeepingHandlers st' ∧
      (∀ w, r = some w → ∃ ww, LiveW st'.tree w ww)
  | 0, st, int, win, ww, _, _, _, hw, hsz => by have := hw.lt; omega
  | fuel + 1, st, int, win, ww, info, K, H, hw, hsz => by
    unfold handleMouse
    refine handleMouseBody_keep R (N := st.tree.wins.size) ?_ K H hw rfl info
    intro st1 int1 child cw info1 K1 H1 hcl hcp hN1
    have hlt := (K1.tinv.parent_ok child cw hcl win hcp).1
    exact handleMouse_keep R fuel info1 K1 H1 hcl (by omega)

/-! ## `on_term_mouse` -/

/-- The root window's own fields change; the queue stays, the drag source is cleared, kept, or set to a live window
    below the root. -/
theorem KInv.setRoot {st : St} {int : Nat → Nat} (K : KInv gh st int) (f : WinTree.Root → WinTree.Root)
    (hc : (f st.tree.root).changes = st.tree.root.changes)
    (hd : ∀ (s : Nat), (f st.tree.root).dragSource = some s → ∃ w, LiveW st.tree s w ∧ Reach st.tree s 0) :
    KInv gh (setRoot st f) int ∧ Pres st (setRoot st f) ∧ (setRoot st f).wx = st.wx := by
  have hrel : TRel st.tree { st.tree with root := f st.tree.root } := ⟨rfl, fun i w h => ⟨w, h, WRel.refl w⟩⟩
  have hinv : TInv { st.tree with root := f st.tree.root } :=
    K.tinv.of_rel_gen hrel (fun r hr => by
      have : r ∈ st.tree.root.changes := by rw [← hc]; exact hr
      exact K.tinv.req_ok r this) hd
  obtain ⟨K1, P1⟩ := K.of_tree hinv rfl (fun i w h => ⟨w, h, rfl, fun _ => rfl⟩)
  exact ⟨K1, P1, rfl⟩

/-- The counted reference `_handle_mouse` returned is given back. -/
theorem unrefOpt_keep (cfg : Cfg) {st : St} {int : Nat → Nat} {r : Option Nat} (K : KInv gh st (bumpOpt int r))
    (hr : ∀ w, r = some w → ∃ ww, LiveW st.tree w ww) :
    ∃ st', unrefOpt cfg st r = .ok st' ∧ KInv gh st' int ∧ Pres st st' ∧ st'.wx = st.wx := by
  cases r with
  | none => exact ⟨st, rfl, K, Pres.refl st, rfl⟩
  | some w =>
    obtain ⟨ww, hw⟩ := hr w rfl
    unfold unrefOpt
    obtain ⟨st1, h1, K1, P1, hx1⟩ := KInv.unrefI cfg (int := bump int w) K hw (bump_self int w)
    rw [unbump_bump] at K1
    exact ⟨st1, h1, K1, P1, hx1⟩

/-- `for(w = source; w; w = w->parent) if(w == win) …`: the walk ends, and says yes only for a window below `top`. -/
theorem reachesTop_ok {t : Tree} (inv : TInv t) (top : Nat) :
    ∀ (w : Nat) (ww : Win), LiveW t w ww → ∀ fuel, w < fuel → ∀ acc,
      ∃ b, reachesTop t fuel w top acc = .ok b ∧ (b = true → acc = true ∨ Reach t w top) := by
  intro w
  induction w using Nat.strongRecOn with
  | ind w ih =>
    intro ww hl fuel hf acc
    cases fuel with
    | zero => omega
    | succ fuel =>
      unfold reachesTop
      simp only [get_live hl, bind_ok]
      cases hp : ww.parent with
      | none =>
        simp only [pure_ok]
        refine ⟨_, rfl, fun hb => ?_⟩
        simp only [Bool.or_eq_true, decide_eq_true_eq] at hb
        rcases hb with hb | hb
        · exact .inl hb
        · subst hb; exact .inr (.refl _)
      | some p =>
        simp only
        obtain ⟨hlt, pw, hpl, _⟩ := inv.parent_ok w ww hl p hp
        obtain ⟨b, hb, hspec⟩ := ih p hlt pw hpl fuel (by omega) (acc || decide (w = top))
        refine ⟨b, hb, fun hbt => ?_⟩
        rcases hspec hbt with h | h
        · simp only [Bool.or_eq_true, decide_eq_true_eq] at h
          rcases h with h | h
          · exact .inl h
          · subst h; exact .inr (.refl _)
        · exact .inr (.step hl.1 hp h)

/-- `_handle_mouse` on the drag source, and its counted return given back. -/
theorem toSource_keep {cfg : Cfg} (R : Repaired cfg) {fuel N : Nat} (hF : N ≤ fuel) {st : St} {int : Nat → Nat} (K : KInv gh st int)
    (H : KeepingHandlers st) (hN : st.tree.wins.size = N) {src : Nat} {sw : Win} (hs : LiveW st.tree src sw) (m : Mouse) :
    ∃ st', (do let r ← handleMouse cfg fuel st src m; unrefOpt cfg r.1 r.2) = .ok st' ∧ KInv gh st' int ∧ Pres st st' ∧
      KeepingHandlers st' := by
  obtain ⟨st1, r1, h1, K1, P1, H1, L1⟩ := handleMouse_keep R fuel m K H hs (by omega)
  simp only [h1, bind_ok]
  obtain ⟨st2, h2, K2, P2, hx2⟩ := unrefOpt_keep cfg K1 L1
  exact ⟨st2, h2, K2, P1.trans P2, H1.of_wx hx2⟩

theorem dragOutside_keep {cfg : Cfg} (R : Repaired cfg) {fuel N : Nat} (hF : N ≤ fuel) {st : St} {int : Nat → Nat} (K : KInv gh st int)
    (H : KeepingHandlers st) (hroot : ∃ r, LiveW st.tree 0 r) (hN : st.tree.wins.size = N) (info : Mouse) (handled : Option Id) :
    ∃ st', dragOutside cfg fuel st info handled = .ok st' ∧ KInv gh st' int ∧ Pres st st' ∧ KeepingHandlers st' := by
  unfold dragOutside
  obtain ⟨r, hr⟩ := hroot
  by_cases hd : info.type = mDRAG
  · rw [if_pos hd]
    simp only [getW, get_live hr, bind_ok]
    cases hsrc : st.tree.root.dragSource with
    | none => exact ⟨st, rfl, K, Pres.refl st, H⟩
    | some src =>
      simp only
      obtain ⟨sw, hsl, _⟩ := K.tinv.drag_ok src hsrc
      by_cases hh : handled ≠ some src
      · rw [if_pos hh]
        obtain ⟨g, hg⟩ := absGeom_ok K.tinv hsl
        simp only [hg, bind_ok]
        exact toSource_keep R hF K H hN hsl _
      · rw [if_neg hh]; exact ⟨st, rfl, K, Pres.refl st, H⟩
  · rw [if_neg hd]; exact ⟨st, rfl, K, Pres.refl st, H⟩

theorem mouseDeliver_keep {cfg : Cfg} (R : Repaired cfg) {fuel N : Nat} (hF : N ≤ fuel) {st : St} {int : Nat → Nat}
    (K : KInv gh st (bump int 0)) (H : KeepingHandlers st) {rw : Win} (hroot : LiveW st.tree 0 rw) (hN : st.tree.wins.size = N)
    (info : Mouse) :
    ∃ st' b, mouseDeliver cfg fuel st info = .ok (st', b) ∧ KInv gh st' int ∧ Pres st st' ∧ KeepingHandlers st' := by
  unfold mouseDeliver
  obtain ⟨st1, r1, h1, K1, P1, H1, L1⟩ := handleMouse_keep R fuel info K H hroot (by omega)
  simp only [h1, bind_ok]
  obtain ⟨st2, h2, K2, P2, H2⟩ := dragOutside_keep R hF K1 H1 (P1.live 0 rw hroot) (P1.size.trans hN) info r1
  simp only [h2, bind_ok]
  obtain ⟨st3, h3, K3, P3, hx3⟩ := unrefOpt_keep cfg K2 (fun w hw => by obtain ⟨ww, hl⟩ := L1 w hw; exact P2.live w ww hl)
  simp only [h3, bind_ok]
  obtain ⟨r3, hr3⟩ := ((P1.trans P2).trans P3).live 0 rw hroot
  unfold dropRoot
  simp only [R.mouseKeepsRoot, if_true]
  obtain ⟨st4, h4, K4, P4, hx4⟩ := K3.unrefI cfg hr3 (bump_self int 0)
  rw [unbump_bump] at K4
  simp only [h4, bind_ok, pure_ok]
  exact ⟨st4, _, rfl, K4, ((P1.trans P2).trans P3).trans P4, (H2.of_wx hx3).of_wx hx4⟩

theorem dragSourceSet_keep {cfg : Cfg} {st : St} {int : Nat → Nat} {source : Option Nat} (K : KInv gh st (bumpOpt int source))
    (H : KeepingHandlers st) (hs : ∀ w, source = some w → ∃ ww, LiveW st.tree w ww) :
    ∃ st', dragSourceSet cfg st source = .ok st' ∧ KInv gh st' int ∧ Pres st st' ∧ KeepingHandlers st' := by
  cases source with
  | none => exact ⟨st, rfl, K, Pres.refl st, H⟩
  | some src =>
    obtain ⟨sw, hsl⟩ := hs src rfl
    unfold dragSourceSet
    obtain ⟨b, hb, hspec⟩ := reachesTop_ok K.tinv 0 src sw hsl _ (chainFuel_gt hsl) false
    simp only [hb, bind_ok]
    by_cases hbt : b = true
    · simp only [hbt, if_true]
      have hreach : Reach st.tree src 0 := by
        rcases hspec hbt with h | h
        · cases h
        · exact h
      obtain ⟨K1, P1, hx1⟩ := K.setRoot (fun r => { r with dragSource := some src }) rfl
        (fun s hs' => by simp only [Option.some.injEq] at hs'; subst hs'; exact ⟨sw, hsl, hreach⟩)
      obtain ⟨sw1, hsl1⟩ := P1.live src sw hsl
      obtain ⟨st2, h2, K2, P2, hx2⟩ := KInv.unrefI cfg (int := bump int src) K1 hsl1 (bump_self int src)
      rw [unbump_bump] at K2
      exact ⟨st2, h2, K2, P1.trans P2, (H.of_wx hx1).of_wx hx2⟩
    · have hbf : b = false := by cases b <;> simp_all
      simp only [hbf, Bool.false_eq_true, if_false]
      obtain ⟨st2, h2, K2, P2, hx2⟩ := KInv.unrefI cfg (int := bump int src) K hsl (bump_self int src)
      rw [unbump_bump] at K2
      exact ⟨st2, h2, K2, P2, H.of_wx hx2⟩

theorem mouseDragStart_keep {cfg : Cfg} (R : Repaired cfg) {fuel N : Nat} (hF : N ≤ fuel) {st : St} {int : Nat → Nat}
    (K : KInv gh st int) (H : KeepingHandlers st) {rw : Win} (hroot : LiveW st.tree 0 rw) (hN : st.tree.wins.size = N) :
    ∃ st', mouseDragStart cfg fuel st = .ok st' ∧ KInv gh st' int ∧ Pres st st' ∧ KeepingHandlers st' := by
  unfold mouseDragStart
  obtain ⟨st1, r1, h1, K1, P1, H1, L1⟩ := handleMouse_keep R fuel
    (if (st.pressSeen || cfg.lastPressInit) = true
      then ⟨mDRAG_START, st.tree.root.mouseLastButton, st.tree.root.mouseLastLine, st.tree.root.mouseLastCol⟩
      else ⟨mDRAG_START, uninitInt, uninitInt, uninitInt⟩) K H hroot (by omega)
  simp only [h1, bind_ok]
  obtain ⟨r1w, hr1⟩ := P1.live 0 rw hroot
  simp only [getW, get_live hr1, bind_ok]
  obtain ⟨K2, P2, hx2⟩ := K1.setRoot (fun r => { r with dragSource := none }) rfl (fun s hs => by cases hs)
  obtain ⟨st3, h3, K3, P3, H3⟩ := dragSourceSet_keep (cfg := cfg) K2 (H1.of_wx hx2)
    (fun w hw => by obtain ⟨ww, hl⟩ := L1 w hw; exact P2.live w ww hl)
  simp only [h3, bind_ok]
  obtain ⟨r3w, hr3⟩ := (P2.trans P3).live 0 r1w hr1
  simp only [get_live hr3, bind_ok, pure_ok]
  obtain ⟨K4, P4, hx4⟩ := K3.setRoot (fun r => { r with mouseDragging := true }) rfl (fun s hs => K3.tinv.drag_ok s hs)
  exact ⟨_, rfl, K4, ((P1.trans P2).trans P3).trans P4, H3.of_wx hx4⟩

theorem dragStop_keep {cfg : Cfg} (R : Repaired cfg) {fuel N : Nat} (hF : N ≤ fuel) {st : St} {int : Nat → Nat} (K : KInv gh st int)
    (H : KeepingHandlers st) (hN : st.tree.wins.size = N) (info : Mouse) :
    ∃ st', dragStop cfg fuel st info = .ok st' ∧ KInv gh st' int ∧ Pres st st' ∧ KeepingHandlers st' := by
  unfold dragStop
  cases hsrc : st.tree.root.dragSource with
  | none => exact ⟨st, rfl, K, Pres.refl st, H⟩
  | some src =>
    simp only
    obtain ⟨sw, hsl, _⟩ := K.tinv.drag_ok src hsrc
    obtain ⟨g, hg⟩ := absGeom_ok K.tinv hsl
    simp only [hg, bind_ok]
    exact toSource_keep R hF K H hN hsl _

theorem mouseRelease_keep {cfg : Cfg} (R : Repaired cfg) {fuel N : Nat} (hF : N ≤ fuel) {st : St} {int : Nat → Nat}
    (K : KInv gh st int) (H : KeepingHandlers st) {rw : Win} (hroot : LiveW st.tree 0 rw) (hN : st.tree.wins.size = N) (info : Mouse) :
    ∃ st', mouseRelease cfg fuel st info = .ok st' ∧ KInv gh st' int ∧ Pres st st' ∧ KeepingHandlers st' := by
  unfold mouseRelease
  obtain ⟨st1, r1, h1, K1, P1, H1, L1⟩ := handleMouse_keep R fuel { info with type := mDRAG_DROP } K H hroot (by omega)
  simp only [h1, bind_ok]
  obtain ⟨st2, h2, K2, P2, hx2⟩ := unrefOpt_keep cfg K1 L1
  simp only [h2, bind_ok]
  obtain ⟨r2w, hr2⟩ := (P1.trans P2).live 0 rw hroot
  simp only [getW, get_live hr2, bind_ok]
  obtain ⟨st3, h3, K3, P3, H3⟩ := dragStop_keep R hF K2 (H1.of_wx hx2) ((P1.trans P2).size.trans hN) info
  simp only [h3, bind_ok]
  obtain ⟨r3w, hr3⟩ := P3.live 0 r2w hr2
  simp only [get_live hr3, bind_ok, pure_ok]
  obtain ⟨K4, P4, hx4⟩ := K3.setRoot (fun r => { r with mouseDragging := false }) rfl (fun s hs => K3.tinv.drag_ok s hs)
  exact ⟨_, rfl, K4, ((P1.trans P2).trans P3).trans P4, H3.of_wx hx4⟩

theorem mousePrepare_keep {cfg : Cfg} (R : Repaired cfg) {fuel N : Nat} (hF : N ≤ fuel) {st : St} {int : Nat → Nat}
    (K : KInv gh st int) (H : KeepingHandlers st) {rw : Win} (hroot : LiveW st.tree 0 rw) (hN : st.tree.wins.size = N) (info : Mouse) :
    ∃ st', mousePrepare cfg fuel st info = .ok st' ∧ KInv gh st' int ∧ Pres st st' ∧ KeepingHandlers st' := by
  unfold mousePrepare
  split
  · obtain ⟨K1, P1, hx1⟩ := K.setRoot (fun r => { r with mouseLastButton := info.button, mouseLastLine := info.line, mouseLastCol := info.col })
      rfl (fun s hs => K.tinv.drag_ok s hs)
    refine ⟨_, rfl, ⟨K1.toSInvB.of_wx rfl rfl rfl rfl rfl rfl, K1.up, K1.lo, K1.glive⟩, ⟨P1.size, P1.live, P1.term⟩, (H.of_wx hx1).of_wx rfl⟩
  · split
    · exact mouseDragStart_keep R hF K H hroot hN
    · split
      · exact mouseRelease_keep R hF K H hroot hN info
      · exact ⟨st, rfl, K, Pres.refl st, H⟩

/-- `on_term_mouse` with handlers that free nothing. -/
theorem onTermMouse_keep {cfg : Cfg} (R : Repaired cfg) {st : St} {int : Nat → Nat} (K : KInv gh st int) (H : KeepingHandlers st)
    {rw : Win} (hroot : LiveW st.tree 0 rw) (info : Mouse) :
    ∃ st' b, onTermMouse cfg st info = .ok (st', b) ∧ KInv gh st' int ∧ Pres st st' ∧ KeepingHandlers st' := by
  unfold onTermMouse keepRoot
  simp only [R.mouseKeepsRoot, if_true]
  obtain ⟨st1, h1, K1, P1, hx1⟩ := K.refI hroot
  simp only [h1, bind_ok]
  have hF : st.tree.wins.size ≤ routeFuel st := by simp only [routeFuel]; omega
  obtain ⟨r1, hr1⟩ := P1.live 0 rw hroot
  obtain ⟨st2, h2, K2, P2, H2⟩ := mousePrepare_keep R hF K1 (H.of_wx hx1) hr1 P1.size info
  simp only [h2, bind_ok]
  obtain ⟨r2, hr2⟩ := P2.live 0 r1 hr1
  obtain ⟨st3, b3, h3, K3, P3, H3⟩ := mouseDeliver_keep R hF K2 H2 hr2 ((P1.trans P2).size) info
  exact ⟨st3, b3, h3, K3, (P1.trans P2).trans P3, H3⟩

theorem emitMouseNew_keep {cfg : Cfg} (R : Repaired cfg) {st : St} (inv : SInv gh st) (H : KeepingHandlers st) (hT : heldT st = true)
    (info : Mouse) : ∃ st', emitMouseNew cfg st info = .ok st' ∧ SInv gh st' ∧ KeepingHandlers st' := by
  have hfree : st.term.freed = false := by
    unfold heldT at hT
    cases h : st.term.freed <;> simp [h] at hT ⊢
  unfold emitMouseNew
  simp only [hfree, Bool.false_eq_true, if_false]
  obtain ⟨r, hr, _, _⟩ := inv.tinv.root_ex
  simp only [hr]
  by_cases hrf : r.freed = true
  · rw [if_pos hrf]; exact ⟨st, rfl, inv, H⟩
  · rw [if_neg hrf]
    have hrl : LiveW st.tree 0 r := ⟨hr, by cases h : r.freed <;> simp_all⟩
    have K0 : KInv gh { st with termIter := true } (fun _ => 0) := by
      have K := KInv.of_inv inv
      exact ⟨K.toSInvB.of_wx rfl rfl rfl rfl rfl rfl, K.up, K.lo, K.glive⟩
    have H0 : KeepingHandlers { st with termIter := true } := H.of_wx rfl
    obtain ⟨st1, b1, h1, K1, P1, H1⟩ := onTermMouse_keep R K0 H0 (rw := r) hrl info
    simp only [h1, bind_ok]
    have ht1 : st1.term.freed = false := by rw [P1.term]; exact hfree
    simp only [ht1, Bool.false_eq_true, if_false, pure_ok]
    refine ⟨_, rfl, ?_, H1.of_wx rfl⟩
    have K2 : KInv gh { st1 with termIter := false } (fun _ => 0) := ⟨K1.toSInvB.of_wx rfl rfl rfl rfl rfl rfl, K1.up, K1.lo, K1.glive⟩
    exact K2.to_inv

/-- The operation `mouse`: `tickit_term_emit_mouse` with handlers that free nothing. -/
theorem step_mouse_ok {cfg : Cfg} (R : Repaired cfg) {st : St} (inv : SInv gh st) (H : KeepingHandlers st) (m : Mouse) :
    ∃ st' r, step cfg st (.mouse m) = .ok (st', r) ∧ SInv gh st' ∧ KeepingHandlers st' := by
  unfold step
  by_cases hT : heldT st = true
  · simp only [hT, Bool.not_true, Bool.false_eq_true, if_false, okR, emitMouse, R.snapshotRouting, if_true]
    obtain ⟨st1, h1, inv1, H1⟩ := emitMouseNew_keep R inv H hT m
    simp only [h1, bind_ok, pure_ok]
    exact ⟨_, _, rfl, inv1, H1⟩
  · simp only [hT, Bool.not_false, if_true, skipR, pure_ok]
    exact ⟨_, _, rfl, inv, H⟩

end Tickit.Life
