import Tickit.Model.Utf8
/-
  Helper lemmas for C07 (utf8.c, unicode.h).  Core Lean only.
-/
namespace Tickit
namespace Width

/-! ### interval tables and `bisearch` -/

theorem chainOk_head_lt : ∀ (e : Nat × Nat) (rest : List (Nat × Nat)), chainOk (e :: rest) = true →
    ∀ x ∈ rest, e.2 < x.1 := by
  intro e rest
  induction rest generalizing e with
  | nil => intro _ x hx; cases hx
  | cons f r ih =>
    intro h x hx
    simp only [chainOk, Bool.and_eq_true, decide_eq_true_eq] at h
    obtain ⟨⟨_, h2⟩, h3⟩ := h
    rcases List.mem_cons.1 hx with rfl | hx
    · exact h2
    · have := ih f h3 x hx
      have hf : f.1 ≤ f.2 := by
        cases r with
        | nil => simpa [chainOk] using h3
        | cons g r' => simp only [chainOk, Bool.and_eq_true, decide_eq_true_eq] at h3; exact h3.1.1
      omega

theorem chainOk_tail : ∀ (e : Nat × Nat) (rest : List (Nat × Nat)), chainOk (e :: rest) = true → chainOk rest = true := by
  intro e rest h
  cases rest with
  | nil => rfl
  | cons f r => simp only [chainOk, Bool.and_eq_true] at h; exact h.2

theorem chainOk_wf : ∀ (l : List (Nat × Nat)), chainOk l = true → ∀ e ∈ l, e.1 ≤ e.2 := by
  intro l
  induction l with
  | nil => intro _ e he; cases he
  | cons f r ih =>
    intro h e he
    rcases List.mem_cons.1 he with rfl | he
    · cases r with
      | nil => simpa [chainOk] using h
      | cons g r' => simp only [chainOk, Bool.and_eq_true, decide_eq_true_eq] at h; exact h.1.1
    · exact ih (chainOk_tail f r h) e he

theorem chainOk_pairwise : ∀ (l : List (Nat × Nat)), chainOk l = true → l.Pairwise (fun a b => a.2 < b.1) := by
  intro l
  induction l with
  | nil => intro _; exact List.Pairwise.nil
  | cons f r ih =>
    intro h
    exact List.Pairwise.cons (chainOk_head_lt f r h) (ih (chainOk_tail f r h))

/-- A table is sorted and non-overlapping. -/
def Sorted (t : Table) : Prop := chainOk t.toList = true

theorem at_eq (t : Table) (i : Int) (h0 : 0 ≤ i) (h1 : i < t.size) :
    ∃ h : i.toNat < t.size, t.at i = t[i.toNat] := by
  have h : i.toNat < t.size := by omega
  refine ⟨h, ?_⟩
  simp [Table.at, Array.getD, h]

theorem sorted_wf {t : Table} (hs : Sorted t) (i : Int) (h0 : 0 ≤ i) (h1 : i < t.size) :
    (t.at i).1 ≤ (t.at i).2 := by
  obtain ⟨h, he⟩ := at_eq t i h0 h1
  rw [he]
  exact chainOk_wf _ hs _ (by simp [Array.mem_toList_iff])

theorem sorted_lt {t : Table} (hs : Sorted t) (i j : Int) (h0 : 0 ≤ i) (hij : i < j) (h1 : j < t.size) :
    (t.at i).2 < (t.at j).1 := by
  obtain ⟨hi, hei⟩ := at_eq t i h0 (by omega)
  obtain ⟨hj, hej⟩ := at_eq t j (by omega) h1
  rw [hei, hej]
  have hp := chainOk_pairwise _ hs
  rw [List.pairwise_iff_getElem] at hp
  have := hp i.toNat j.toNat (by simpa using hi) (by simpa using hj) (by omega)
  simpa using this

/-- `ucs` lies in the interval with index `k`. -/
def Hit (t : Table) (ucs : Nat) (k : Int) : Prop := (t.at k).1 ≤ ucs ∧ ucs ≤ (t.at k).2

theorem bisearchLoop_spec {t : Table} (hs : Sorted t) (ucs : Nat) :
    ∀ (fuel : Nat) (min max : Int), 0 ≤ min → max < t.size → min ≤ max + 1 → max + 2 - min ≤ fuel →
      ∃ b, bisearchLoop t ucs fuel min max = some b ∧
        (b = true ↔ ∃ k, min ≤ k ∧ k ≤ max ∧ Hit t ucs k) := by
  intro fuel
  induction fuel with
  | zero =>
    intro min max h0 h1 hr hf
    exfalso; omega
  | succ n ih =>
    intro min max h0 h1 hr hf
    unfold bisearchLoop
    by_cases hmm : max ≥ min
    · simp only [hmm, if_true]
      have hmid0 : min ≤ (min + max) / 2 := by omega
      have hmid1 : (min + max) / 2 ≤ max := by omega
      generalize hm : (min + max) / 2 = mid at *
      by_cases hgt : ucs > (t.at mid).2
      · simp only [hgt, if_true]
        obtain ⟨b, hb, hiff⟩ := ih (mid + 1) max (by omega) h1 (by omega) (by omega)
        refine ⟨b, hb, hiff.trans ⟨?_, ?_⟩⟩
        · rintro ⟨k, h2, h3, h4⟩; exact ⟨k, by omega, h3, h4⟩
        · rintro ⟨k, h2, h3, h4⟩
          refine ⟨k, ?_, h3, h4⟩
          rcases Int.lt_or_le mid k with h | h
          · omega
          · exfalso
            have : (t.at k).2 ≤ (t.at mid).2 := by
              rcases Int.lt_or_le k mid with h' | h'
              · have := sorted_lt hs k mid (by omega) h' (by omega)
                have := sorted_wf hs mid (by omega) (by omega)
                omega
              · have : k = mid := by omega
                subst this; omega
            unfold Hit at h4; omega
      · simp only [hgt, if_false]
        by_cases hlt : ucs < (t.at mid).1
        · simp only [hlt, if_true]
          obtain ⟨b, hb, hiff⟩ := ih min (mid - 1) h0 (by omega) (by omega) (by omega)
          refine ⟨b, hb, hiff.trans ⟨?_, ?_⟩⟩
          · rintro ⟨k, h2, h3, h4⟩; exact ⟨k, h2, by omega, h4⟩
          · rintro ⟨k, h2, h3, h4⟩
            refine ⟨k, h2, ?_, h4⟩
            rcases Int.lt_or_le k mid with h | h
            · omega
            · exfalso
              have : (t.at mid).1 ≤ (t.at k).1 := by
                rcases Int.lt_or_le mid k with h' | h'
                · have := sorted_lt hs mid k (by omega) h' (by omega)
                  have := sorted_wf hs mid (by omega) (by omega)
                  omega
                · have : k = mid := by omega
                  subst this; omega
              unfold Hit at h4; omega
        · simp only [hlt, if_false]
          exact ⟨true, rfl, by simp; exact ⟨mid, by omega, by omega, by unfold Hit; omega⟩⟩
    · simp only [hmm, if_false]
      exact ⟨false, rfl, by simp; intro k h2 h3; omega⟩

theorem inTable_iff_hit (t : Table) (c : Nat) :
    InTable t c ↔ ∃ k : Int, 0 ≤ k ∧ k ≤ (t.size : Int) - 1 ∧ Hit t c k := by
  constructor
  · rintro ⟨e, he, h1, h2⟩
    obtain ⟨i, hi, rfl⟩ := List.getElem_of_mem he
    have hi' : i < t.size := by simpa using hi
    refine ⟨(i : Int), by omega, by omega, ?_⟩
    obtain ⟨_, hat⟩ := at_eq t (i : Int) (by omega) (by omega)
    unfold Hit; rw [hat]; simpa using ⟨h1, h2⟩
  · rintro ⟨k, h0, h1, hh⟩
    obtain ⟨hk, hat⟩ := at_eq t k h0 (by omega)
    unfold Hit at hh; rw [hat] at hh
    exact ⟨t[k.toNat], by simp [Array.mem_toList_iff], hh.1, hh.2⟩

/-- `bisearch` decides membership in a sorted, non-overlapping table. -/
theorem bisearch_iff_inTable {t : Table} (hs : Sorted t) (c : Nat) :
    bisearch t c = true ↔ InTable t c := by
  rw [inTable_iff_hit]
  unfold bisearch
  by_cases h0 : t.size = 0
  · simp only [h0, if_true]
    constructor
    · intro h; cases h
    · rintro ⟨k, h1, h2, _⟩; simp at h2; omega
  · simp only [h0, if_false]
    have hpos : 0 < t.size := Nat.pos_of_ne_zero h0
    by_cases hout : c < (t.at 0).1 ∨ c > (t.at ((t.size : Int) - 1)).2
    · simp only [hout, if_true]
      constructor
      · intro h; cases h
      · rintro ⟨k, h1, h2, h3⟩
        exfalso
        unfold Hit at h3
        rcases hout with h | h
        · have : (t.at 0).1 ≤ (t.at k).1 := by
            rcases Int.lt_or_le 0 k with h' | h'
            · have := sorted_lt hs 0 k (by omega) h' (by omega)
              have := sorted_wf hs 0 (by omega) (by omega)
              omega
            · have : k = 0 := by omega
              subst this; omega
          omega
        · have : (t.at k).2 ≤ (t.at ((t.size : Int) - 1)).2 := by
            rcases Int.lt_or_le k ((t.size : Int) - 1) with h' | h'
            · have := sorted_lt hs k ((t.size : Int) - 1) h1 h' (by omega)
              have := sorted_wf hs ((t.size : Int) - 1) (by omega) (by omega)
              omega
            · have : k = (t.size : Int) - 1 := by omega
              subst this; omega
          omega
    · simp only [hout, if_false]
      obtain ⟨b, hb, hiff⟩ := bisearchLoop_spec hs c (t.size + 1) 0 ((t.size : Int) - 1) (by omega) (by omega) (by omega) (by omega)
      rw [hb]
      simpa using hiff

/-- Fuel `size + 1` is always enough: the `none` (out of fuel) arm of `bisearch` is dead. -/
theorem bisearchLoop_fuel {t : Table} (hs : Sorted t) (c : Nat) (_h : 0 < t.size) :
    bisearchLoop t c (t.size + 1) 0 ((t.size : Int) - 1) ≠ none := by
  obtain ⟨b, hb, _⟩ := bisearchLoop_spec hs c (t.size + 1) 0 ((t.size : Int) - 1) (by omega) (by omega) (by omega) (by omega)
  rw [hb]; simp

theorem inTableLin_iff (t : Table) (c : Nat) : inTableLin t c = true ↔ InTable t c := by
  unfold inTableLin InTable
  rw [List.any_eq_true]
  constructor
  · rintro ⟨e, he, h⟩
    simp only [Bool.and_eq_true, decide_eq_true_eq] at h
    exact ⟨e, he, h⟩
  · rintro ⟨e, he, h⟩
    exact ⟨e, he, by simpa using h⟩

end Width
end Tickit

namespace Tickit
namespace Utf8

/-! ### bit operations as arithmetic -/

theorem and_3f (x : Nat) : x &&& 0x3f = x % 64 := Nat.and_two_pow_sub_one_eq_mod x 6
theorem and_1f (x : Nat) : x &&& 0x1f = x % 32 := Nat.and_two_pow_sub_one_eq_mod x 5
theorem and_0f (x : Nat) : x &&& 0x0f = x % 16 := Nat.and_two_pow_sub_one_eq_mod x 4
theorem and_07 (x : Nat) : x &&& 0x07 = x % 8 := Nat.and_two_pow_sub_one_eq_mod x 3
theorem and_03 (x : Nat) : x &&& 0x03 = x % 4 := Nat.and_two_pow_sub_one_eq_mod x 2
theorem and_01 (x : Nat) : x &&& 0x01 = x % 2 := Nat.and_two_pow_sub_one_eq_mod x 1
theorem and_7f (x : Nat) : x &&& 0x7f = x % 128 := Nat.and_two_pow_sub_one_eq_mod x 7
theorem shr_6 (x : Nat) : x >>> 6 = x / 64 := Nat.shiftRight_eq_div_pow x 6

theorem or_80 (y : Nat) (h : y < 64) : 0x80 ||| y = 128 + y := by
  have := Nat.two_pow_add_eq_or_of_lt (i := 7) (b := y) (by omega) 1
  simpa using this.symm
theorem or_c0 (y : Nat) (h : y < 32) : 0xc0 ||| y = 192 + y := by
  have := Nat.two_pow_add_eq_or_of_lt (i := 5) (b := y) (by omega) 6
  simpa using this.symm
theorem or_e0 (y : Nat) (h : y < 16) : 0xe0 ||| y = 224 + y := by
  have := Nat.two_pow_add_eq_or_of_lt (i := 4) (b := y) (by omega) 14
  simpa using this.symm
theorem or_f0 (y : Nat) (h : y < 8) : 0xf0 ||| y = 240 + y := by
  have := Nat.two_pow_add_eq_or_of_lt (i := 3) (b := y) (by omega) 30
  simpa using this.symm
theorem or_f8 (y : Nat) (h : y < 4) : 0xf8 ||| y = 248 + y := by
  have := Nat.two_pow_add_eq_or_of_lt (i := 2) (b := y) (by omega) 62
  simpa using this.symm
theorem or_fc (y : Nat) (h : y < 2) : 0xfc ||| y = 252 + y := by
  have := Nat.two_pow_add_eq_or_of_lt (i := 1) (b := y) (by omega) 126
  simpa using this.symm

theorem contAcc_eq (cp b : Nat) : contAcc cp b = cp * 64 + b % 64 := by
  unfold contAcc
  rw [Nat.shiftLeft_eq, and_3f]
  have := Nat.two_pow_add_eq_or_of_lt (i := 6) (b := b % 64) (by omega) cp
  rw [Nat.mul_comm] at this
  simpa using this.symm

theorem leadBits_eq (b0 : Nat) :
    leadBits b0 = if b0 < 0xe0 then b0 % 32 else if b0 < 0xf0 then b0 % 16 else b0 % 8 := by
  unfold leadBits; rw [and_1f, and_0f, and_07]

/-! ### `next_utf8` in arithmetic form -/

theorem nextUtf8_ascii (mem : Mem) (p : Nat) (len : Option Nat) (hl : len ≠ some 0)
    (h0 : (mem p).toNat ≠ 0) (h1 : (mem p).toNat < 0x80) :
    nextUtf8 mem p len = .ok 1 (mem p).toNat (p + 1) := by
  unfold nextUtf8; simp [hl, h0, h1]

theorem nextUtf8_2 (mem : Mem) (p : Nat) (len : Option Nat) (hl : lenLt len 2 = false)
    (h0 : 0xc0 ≤ (mem p).toNat) (h1 : (mem p).toNat < 0xe0) (c1 : (mem (p + 1)).toNat ≠ 0) :
    nextUtf8 mem p len = .ok 2 ((mem p).toNat % 32 * 64 + (mem (p + 1)).toNat % 64) (p + 2) := by
  have hl0 : len ≠ some 0 := by rintro rfl; simp [lenLt] at hl
  have hll : leadLen (mem p).toNat = 2 := by unfold leadLen; (repeat' split) <;> omega
  have hb0 : (mem p).toNat ≠ 0 := by omega
  have h80 : ¬ (mem p).toNat < 0x80 := by omega
  unfold nextUtf8
  simp only [hl0, hb0, h80, hll, hl, if_false]
  simp [contLoop, c1, contAcc_eq, leadBits_eq, h1]

theorem nextUtf8_3 (mem : Mem) (p : Nat) (len : Option Nat) (hl : lenLt len 3 = false)
    (h0 : 0xe0 ≤ (mem p).toNat) (h1 : (mem p).toNat < 0xf0)
    (c1 : (mem (p + 1)).toNat ≠ 0) (c2 : (mem (p + 2)).toNat ≠ 0) :
    nextUtf8 mem p len =
      .ok 3 (((mem p).toNat % 16 * 64 + (mem (p + 1)).toNat % 64) * 64 + (mem (p + 2)).toNat % 64) (p + 3) := by
  have hl0 : len ≠ some 0 := by rintro rfl; simp [lenLt] at hl
  have hll : leadLen (mem p).toNat = 3 := by unfold leadLen; (repeat' split) <;> omega
  have hb0 : (mem p).toNat ≠ 0 := by omega
  have h80 : ¬ (mem p).toNat < 0x80 := by omega
  have he0 : ¬ (mem p).toNat < 0xe0 := by omega
  unfold nextUtf8
  simp only [hl0, hb0, h80, hll, hl, if_false]
  simp [contLoop, c1, c2, contAcc_eq, leadBits_eq, he0, h1, Nat.add_assoc]

theorem nextUtf8_4 (mem : Mem) (p : Nat) (len : Option Nat) (hl : lenLt len 4 = false)
    (h0 : 0xf0 ≤ (mem p).toNat) (h1 : (mem p).toNat < 0xf8)
    (c1 : (mem (p + 1)).toNat ≠ 0) (c2 : (mem (p + 2)).toNat ≠ 0) (c3 : (mem (p + 3)).toNat ≠ 0) :
    nextUtf8 mem p len =
      .ok 4 ((((mem p).toNat % 8 * 64 + (mem (p + 1)).toNat % 64) * 64 + (mem (p + 2)).toNat % 64) * 64
              + (mem (p + 3)).toNat % 64) (p + 4) := by
  have hl0 : len ≠ some 0 := by rintro rfl; simp [lenLt] at hl
  have hll : leadLen (mem p).toNat = 4 := by unfold leadLen; (repeat' split) <;> omega
  have hb0 : (mem p).toNat ≠ 0 := by omega
  have h80 : ¬ (mem p).toNat < 0x80 := by omega
  have he0 : ¬ (mem p).toNat < 0xe0 := by omega
  have hf0 : ¬ (mem p).toNat < 0xf0 := by omega
  unfold nextUtf8
  simp only [hl0, hb0, h80, hll, hl, if_false]
  simp [contLoop, c1, c2, c3, contAcc_eq, leadBits_eq, he0, hf0, Nat.add_assoc]

/-! ### `tickit_utf8_put` in arithmetic form -/

theorem putBytes_1 (cp : Nat) (h : cp < 0x80) : putBytes cp = [cp] := by
  have : seqlen cp = 1 := by unfold seqlen; simp [h]
  unfold putBytes; rw [this]; simp [putTail, putLead, and_7f]; omega

theorem putBytes_2 (cp : Nat) (h0 : 0x80 ≤ cp) (h1 : cp < 0x800) :
    putBytes cp = [192 + cp / 64, 128 + cp % 64] := by
  have : seqlen cp = 2 := by unfold seqlen; (repeat' split) <;> omega
  unfold putBytes; rw [this]
  simp only [putTail, putLead, shr_6, and_3f, and_1f]
  rw [or_80 _ (by omega), or_c0 _ (by omega)]
  have : cp / 64 % 32 = cp / 64 := by omega
  rw [this]

theorem putBytes_3 (cp : Nat) (h0 : 0x800 ≤ cp) (h1 : cp < 0x10000) :
    putBytes cp = [224 + cp / 4096, 128 + cp / 64 % 64, 128 + cp % 64] := by
  have : seqlen cp = 3 := by unfold seqlen; (repeat' split) <;> omega
  unfold putBytes; rw [this]
  simp only [putTail, putLead, shr_6, and_3f, and_0f]
  rw [or_80 _ (by omega), or_80 _ (by omega), or_e0 _ (by omega)]
  have : cp / 64 / 64 % 16 = cp / 4096 := by omega
  rw [this]

theorem putBytes_4 (cp : Nat) (h0 : 0x10000 ≤ cp) (h1 : cp < 0x200000) :
    putBytes cp = [240 + cp / 262144, 128 + cp / 4096 % 64, 128 + cp / 64 % 64, 128 + cp % 64] := by
  have : seqlen cp = 4 := by unfold seqlen; (repeat' split) <;> omega
  unfold putBytes; rw [this]
  simp only [putTail, putLead, shr_6, and_3f, and_07]
  rw [or_80 _ (by omega), or_80 _ (by omega), or_80 _ (by omega), or_f0 _ (by omega)]
  have h1 : cp / 64 / 64 / 64 % 8 = cp / 262144 := by omega
  have h2 : cp / 64 / 64 % 64 = cp / 4096 % 64 := by omega
  rw [h1, h2]

theorem memOfBytes_toNat (l : List Nat) (i : Nat) (h : ∀ x ∈ l, x < 256) :
    (memOfBytes l i).toNat = l.getD i 0 := by
  unfold memOfBytes
  rw [UInt8.toNat_ofNat']
  have : l.getD i 0 < 256 := by
    rw [List.getD_eq_getElem?_getD]
    cases hh : l[i]? with
    | none => simp
    | some x => simp; exact h x (List.mem_of_getElem? hh)
  omega


/-! ### limits -/

/-- Componentwise order of counters. -/
def Pos.le (p q : Pos) : Prop :=
  p.bytes ≤ q.bytes ∧ p.codepoints ≤ q.codepoints ∧ p.graphemes ≤ q.graphemes ∧ p.columns ≤ q.columns

theorem Pos.le_refl (p : Pos) : Pos.le p p := ⟨Nat.le_refl _, Int.le_refl _, Int.le_refl _, Int.le_refl _⟩

theorem Pos.le_trans {p q r : Pos} (h1 : Pos.le p q) (h2 : Pos.le q r) : Pos.le p r := by
  unfold Pos.le at *; omega

theorem Pos.le_adv (p : Pos) (n : Nat) (w : Int) (hw : 0 ≤ w) : Pos.le p (p.adv n w) := by
  unfold Pos.le Pos.adv; simp only; split <;> omega

theorem le_sumPos : ∀ (cs : List Ch) (p : Pos), (∀ c ∈ cs, 0 ≤ c.w) → Pos.le p (sumPos p cs) := by
  intro cs
  induction cs with
  | nil => intro p _; exact Pos.le_refl p
  | cons c cs ih =>
    intro p h
    unfold sumPos
    exact Pos.le_trans (Pos.le_adv p c.n c.w (h c (by simp))) (ih _ (fun x hx => h x (by simp [hx])))

theorem within_of_le {L : Option Limit} {p q : Pos} (h : Pos.le p q) (hq : Within L q) : Within L p := by
  unfold Within at *
  cases L with
  | none => trivial
  | some l =>
    simp only at *
    unfold Pos.le at h
    refine ⟨?_, by omega, by omega, by omega⟩
    cases hb : l.bytes with
    | none => simp [leOpt]
    | some lb => rw [hb] at hq; simp only [leOpt] at *; omega

theorem exceeds_iff (L : Option Limit) (here : Pos) (n : Nat) (w : Int) :
    exceeds L here n w = true ↔ ¬ Within L (here.adv n w) := by
  unfold exceeds Within
  cases L with
  | none => simp
  | some l =>
    simp only [Pos.adv]
    cases hb : l.bytes with
    | none =>
      simp only [leOpt, Bool.false_or, Bool.or_eq_true, Bool.and_eq_true, decide_eq_true_eq, true_and]
      omega
    | some lb =>
      simp only [leOpt, Bool.or_eq_true, Bool.and_eq_true, decide_eq_true_eq]
      omega

theorem sumPos_append (p : Pos) (a b : List Ch) : sumPos p (a ++ b) = sumPos (sumPos p a) b := by
  induction a generalizing p with
  | nil => rfl
  | cons c a ih => simp only [List.cons_append, sumPos]; exact ih _

/-! ### the loop over characters, grapheme by grapheme -/

/-- A grapheme: one character of non-negative width followed by zero-width characters. -/
def IsCluster (g : List Ch) : Prop := ∃ c z, g = c :: z ∧ 0 ≤ c.w ∧ ∀ x ∈ z, x.w = 0

/-- A grapheme that starts with a spacing character. -/
def Spacing (g : List Ch) : Prop := ∃ c z, g = c :: z ∧ 0 < c.w

theorem runChars_zero_run (L : Option Limit) (t : Tail) :
    ∀ (z : List Ch), (∀ x ∈ z, x.w = 0) → ∀ (rest : List Ch) (here pos : Pos), Within L here →
      runChars L (z ++ rest) t here pos =
        if Within L (sumPos here z) then runChars L rest t (sumPos here z) pos else ⟨false, pos⟩ := by
  intro z
  induction z with
  | nil => intro _ rest here pos hw; simp [sumPos, hw]
  | cons x z ih =>
    intro hz rest here pos hw
    have hx : x.w = 0 := hz x (by simp)
    have hz' : ∀ y ∈ z, y.w = 0 := fun y hy => hz y (by simp [hy])
    simp only [List.cons_append, runChars, sumPos]
    have hnot : ¬ (x.w > 0) := by omega
    simp only [hnot, if_false]
    by_cases hex : exceeds L here x.n x.w = true
    · simp only [hex, if_true]
      have hnw := (exceeds_iff L here x.n x.w).1 hex
      have : ¬ Within L (sumPos (here.adv x.n x.w) z) := fun h =>
        hnw (within_of_le (le_sumPos z _ (fun y hy => by rw [hz' y hy]; exact Int.le_refl 0)) h)
      simp [this]
    · have hex' : exceeds L here x.n x.w = false := by simpa using hex
      simp only [hex']
      have hw' : Within L (here.adv x.n x.w) :=
        Classical.byContradiction (fun hn => hex ((exceeds_iff L here x.n x.w).2 hn))
      exact ih hz' rest _ pos hw'

theorem runChars_cluster (L : Option Limit) (t : Tail) (c : Ch) (z : List Ch) (hc : 0 ≤ c.w)
    (hz : ∀ x ∈ z, x.w = 0) (rest : List Ch) (here pos : Pos) :
    runChars L ((c :: z) ++ rest) t here pos =
      if Within L (sumPos here (c :: z)) then
        runChars L rest t (sumPos here (c :: z)) (if c.w > 0 then here else pos)
      else ⟨false, if c.w > 0 then here else pos⟩ := by
  simp only [List.cons_append, runChars, sumPos]
  by_cases hex : exceeds L here c.n c.w = true
  · simp only [hex, if_true]
    have hnw := (exceeds_iff L here c.n c.w).1 hex
    have : ¬ Within L (sumPos (here.adv c.n c.w) z) := fun h =>
      hnw (within_of_le (le_sumPos z _ (fun y hy => by rw [hz y hy]; exact Int.le_refl 0)) h)
    simp [this]
  · have hex' : exceeds L here c.n c.w = false := by simpa using hex
    simp only [hex']
    have hw' : Within L (here.adv c.n c.w) :=
      Classical.byContradiction (fun hn => hex ((exceeds_iff L here c.n c.w).2 hn))
    exact runChars_zero_run L t z hz rest _ _ hw'

/-- **Refinement**: the character loop of the C code computes the grapheme-wise specification. -/
theorem runChars_eq_specRun (L : Option Limit) (t : Tail) :
    ∀ (gs : List (List Ch)), (∀ g ∈ gs, IsCluster g) → (∀ g ∈ gs.tail, Spacing g) →
      ∀ (here pos : Pos), (pos = here ∨ ∃ g, gs.head? = some g ∧ Spacing g) →
        runChars L gs.flatten t here pos = specRun L gs t here := by
  intro gs
  induction gs with
  | nil =>
    intro _ _ here pos h
    have hp : pos = here := by
      rcases h with h | ⟨g, hg, _⟩
      · exact h
      · simp at hg
    subst hp
    cases t <;> simp [runChars, specRun]
  | cons g gs ih =>
    intro hcl hsp here pos h
    obtain ⟨c, z, rfl, hc, hz⟩ := hcl g (by simp)
    have hpos : (if c.w > 0 then here else pos) = here := by
      by_cases hcw : c.w > 0
      · simp [hcw]
      · simp only [hcw, if_false]
        rcases h with h | ⟨g', hg', c', z', e, hc'⟩
        · exact h
        · simp only [List.head?_cons, Option.some.injEq] at hg'
          subst hg'
          injection e with e1 _
          subst e1
          exact absurd hc' hcw
    rw [List.flatten_cons, runChars_cluster L t c z hc hz, hpos]
    unfold specRun
    by_cases hw : Within L (sumPos here (c :: z))
    · simp only [hw, if_true]
      cases gs with
      | nil =>
        cases t <;> simp [runChars, specRun]
      | cons g' gs' =>
        have hne : ¬ (g' :: gs' = [] ∧ t = Tail.err) := by simp
        simp only [hne, if_false]
        exact ih (fun x hx => hcl x (by simp [hx])) (fun x hx => hsp x (by
            simp only [List.tail_cons] at hx ⊢
            exact List.mem_of_mem_tail hx)) _ _
          (Or.inr ⟨g', by simp, hsp g' (by simp)⟩)
    · simp only [hw, if_false]


/-! ### `clusters` groups characters into well-formed graphemes -/

theorem clusters_flatten : ∀ (cs : List Ch), (clusters cs).flatten = cs := by
  intro cs
  induction cs with
  | nil => rfl
  | cons c cs ih =>
    unfold clusters
    cases hcl : clusters cs with
    | nil => rw [hcl] at ih; simp at ih; simp [← ih]
    | cons g gs =>
      rw [hcl] at ih
      cases g with
      | nil => simp at ih ⊢; exact ih
      | cons d r =>
        simp only
        split
        · simp only [List.flatten_cons] at ih ⊢; simp [ih]
        · simp only [List.flatten_cons] at ih ⊢; simp [ih]

theorem clusters_wf : ∀ (cs : List Ch), (∀ c ∈ cs, 0 ≤ c.w) →
    (∀ g ∈ clusters cs, IsCluster g) ∧ (∀ g ∈ (clusters cs).tail, Spacing g) := by
  intro cs
  induction cs with
  | nil => intro _; simp [clusters]
  | cons c cs ih =>
    intro h
    have hc : 0 ≤ c.w := h c (by simp)
    obtain ⟨ih1, ih2⟩ := ih (fun x hx => h x (by simp [hx]))
    unfold clusters
    cases hcl : clusters cs with
    | nil =>
      simp only [List.mem_singleton, List.tail_cons, List.not_mem_nil, false_imp_iff, implies_true, and_true]
      rintro g rfl; exact ⟨c, [], rfl, hc, by simp⟩
    | cons g gs =>
      rw [hcl] at ih1 ih2
      cases g with
      | nil =>
        obtain ⟨_, _, e, _⟩ := ih1 [] (by simp)
        cases e
      | cons d r =>
        simp only
        obtain ⟨d', r', e, hd, hr⟩ := ih1 (d :: r) (by simp)
        injection e with e1 e2; subst e1; subst e2
        split
        · rename_i hdw
          refine ⟨?_, ?_⟩
          · intro g hg
            rcases List.mem_cons.1 hg with rfl | hg
            · exact ⟨c, [], rfl, hc, by simp⟩
            · exact ih1 g hg
          · intro g hg
            simp only [List.tail_cons] at hg
            rcases List.mem_cons.1 hg with rfl | hg
            · exact ⟨d, r, rfl, hdw⟩
            · exact ih2 g (by simpa using hg)
        · rename_i hdw
          refine ⟨?_, ?_⟩
          · intro g hg
            rcases List.mem_cons.1 hg with rfl | hg
            · refine ⟨c, d :: r, rfl, hc, ?_⟩
              intro x hx
              rcases List.mem_cons.1 hx with rfl | hx
              · omega
              · exact hr x hx
            · exact ih1 g (by simp [hg])
          · intro g hg
            simp only [List.tail_cons] at hg
            exact ih2 g (by simpa using hg)

/-! ### the loop over memory is the loop over the scanned characters -/

theorem wcwidth_cases (cp : Nat) : Width.wcwidth cp = -1 ∨ 0 ≤ Width.wcwidth cp := by
  unfold Width.wcwidth
  split
  · right; decide
  · unfold Width.mkWcwidth
    split
    · right; omega
    · split
      · left; rfl
      · split
        · right; omega
        · right; split <;> omega

theorem stepAt_ch_nonneg {mem : Mem} {str : Nat} {len : Option Nat} {n cp hi : Nat} {w : Int}
    (h : stepAt mem str len = .ch n cp w hi) : 0 ≤ w ∧ w = Width.wcwidth cp := by
  unfold stepAt at h
  split at h
  · cases h
  · split at h
    · cases h
    · split at h
      · cases h
      · split at h
        · cases h
        · split at h
          · cases h
          · rename_i hne
            injection h with _ e2 e3 _
            subst e2
            rcases wcwidth_cases _ with h | h
            · exact absurd h hne
            · exact ⟨e3 ▸ h, e3.symm⟩

theorem scan_nonneg (mem : Mem) : ∀ (fuel str : Nat) (len : Option Nat) (cs : List Ch) (t : Tail),
    scan mem fuel str len = some (cs, t) → ∀ c ∈ cs, 0 ≤ c.w := by
  intro fuel
  induction fuel with
  | zero => intro str len cs t h; simp [scan] at h
  | succ f ih =>
    intro str len cs t h
    unfold scan at h
    split at h
    · injection h with h; injection h with h1 _; subst h1; simp
    · injection h with h; injection h with h1 _; subst h1; simp
    · rename_i n cp w hi hst
      split at h
      · cases h
      · rename_i cs' t' hsc
        injection h with h; injection h with h1 h2; subst h1; subst h2
        intro c hc
        rcases List.mem_cons.1 hc with rfl | hc
        · exact (stepAt_ch_nonneg hst).1
        · exact ih _ _ _ _ hsc c hc

theorem loop_eq_runChars (mem : Mem) (L : Option Limit) (start : Nat) :
    ∀ (fuel str : Nat) (len : Option Nat) (here pos : Pos) (hi : Nat) (cs : List Ch) (t : Tail),
      scan mem fuel str len = some (cs, t) →
      ∃ hi', loop mem L start fuel str len here pos hi =
        .ret ((runChars L cs t here pos).ret start) (runChars L cs t here pos).pos hi' := by
  intro fuel
  induction fuel with
  | zero => intro str len here pos hi cs t h; simp [scan] at h
  | succ f ih =>
    intro str len here pos hi cs t h
    unfold scan at h
    unfold loop
    split at h
    · rename_i hh hst
      injection h with h; injection h with h1 h2; subst h1; subst h2
      exact ⟨max hi hh, by simp [runChars, Res.ret]⟩
    · rename_i hh hst
      injection h with h; injection h with h1 h2; subst h1; subst h2
      exact ⟨max hi hh, by simp [runChars, Res.ret]⟩
    · rename_i n cp w hh hst
      split at h
      · cases h
      · rename_i cs' t' hsc
        injection h with h; injection h with h1 h2; subst h1; subst h2
        simp only [runChars]
        by_cases hex : exceeds L here n w = true
        · simp only [hex, if_true]; exact ⟨max hi hh, by simp [Res.ret]⟩
        · have hex' : exceeds L here n w = false := by simpa using hex
          simp only [hex']
          exact ih _ _ _ _ _ _ _ hsc

/-- **`tickit_utf8_ncountmore` computes the specification** over the characters its loop meets. -/
theorem ncountmore_eq_spec (mem : Mem) (fuel : Nat) (len : Option Nat) (pos : Pos) (L : Option Limit)
    (cs : List Ch) (t : Tail) (h : scan mem fuel pos.bytes (lenSub len pos.bytes) = some (cs, t)) :
    ∃ hi, ncountmore mem fuel len pos L =
      .ret ((specRun L (clusters cs) t pos).ret pos.bytes) (specRun L (clusters cs) t pos).pos hi := by
  obtain ⟨hi, hl⟩ := loop_eq_runChars mem L pos.bytes fuel pos.bytes (lenSub len pos.bytes) pos pos 0 cs t h
  obtain ⟨w1, w2⟩ := clusters_wf cs (scan_nonneg mem _ _ _ _ _ h)
  have := runChars_eq_specRun L t (clusters cs) w1 w2 pos pos (Or.inl rfl)
  rw [clusters_flatten] at this
  rw [this] at hl
  exact ⟨hi, hl⟩


/-! ### the clauses of the property, on the grapheme-wise specification -/

theorem specRun_pos (L : Option Limit) (t : Tail) : ∀ (gs : List (List Ch)) (here : Pos),
    (specRun L gs t here).pos = sumPos here (gs.take (specTaken L gs t here)).flatten ∧
    specTaken L gs t here ≤ gs.length := by
  intro gs
  induction gs with
  | nil => intro here; cases t <;> simp [specRun, specTaken, sumPos]
  | cons g gs ih =>
    intro here
    unfold specRun specTaken
    by_cases hw : Within L (sumPos here g)
    · simp only [hw, if_true]
      by_cases he : gs = [] ∧ t = Tail.err
      · simp [he, sumPos]
      · simp only [he, if_false]
        obtain ⟨h1, h2⟩ := ih (sumPos here g)
        refine ⟨?_, by simp; omega⟩
        rw [h1, Nat.add_comm 1, List.take_succ_cons, List.flatten_cons, sumPos_append]
    · simp [hw, sumPos]

theorem specRun_within (L : Option Limit) (t : Tail) : ∀ (gs : List (List Ch)) (here : Pos),
    (specRun L gs t here).pos = here ∨ Within L (specRun L gs t here).pos := by
  intro gs
  induction gs with
  | nil => intro here; cases t <;> simp [specRun]
  | cons g gs ih =>
    intro here
    unfold specRun
    by_cases hw : Within L (sumPos here g)
    · simp only [hw, if_true]
      by_cases he : gs = [] ∧ t = Tail.err
      · simp [he]
      · simp only [he, if_false]
        rcases ih (sumPos here g) with h | h
        · right; rw [h]; exact hw
        · right; exact h
    · simp [hw]

/-- Every grapheme-prefix that was counted fits (not only the last one). -/
theorem specRun_prefix_within (L : Option Limit) (t : Tail) : ∀ (gs : List (List Ch)) (here : Pos) (i : Nat),
    0 < i → i ≤ specTaken L gs t here → Within L (sumPos here (gs.take i).flatten) := by
  intro gs
  induction gs with
  | nil => intro here i h0 h1; simp [specTaken] at h1; omega
  | cons g gs ih =>
    intro here i h0 h1
    unfold specTaken at h1
    by_cases hw : Within L (sumPos here g)
    · simp only [hw, if_true] at h1
      by_cases he : gs = [] ∧ t = Tail.err
      · simp [he] at h1; omega
      · simp only [he, if_false] at h1
        cases i with
        | zero => omega
        | succ k =>
          rw [List.take_succ_cons, List.flatten_cons, sumPos_append]
          cases k with
          | zero => simpa [sumPos] using hw
          | succ k' => exact ih (sumPos here g) (k' + 1) (by omega) (by omega)
    · simp [hw] at h1; omega

theorem specRun_maximal (L : Option Limit) (t : Tail) : ∀ (gs : List (List Ch)) (here : Pos),
    (specRun L gs t here).err = false → ∀ g rest, gs.drop (specTaken L gs t here) = g :: rest →
      ¬ Within L (sumPos (specRun L gs t here).pos g) := by
  intro gs
  induction gs with
  | nil => intro here _ g rest h; simp at h
  | cons g0 gs ih =>
    intro here herr g rest hd
    unfold specRun at herr ⊢
    unfold specTaken at hd
    by_cases hw : Within L (sumPos here g0)
    · simp only [hw, if_true] at herr hd ⊢
      by_cases he : gs = [] ∧ t = Tail.err
      · simp [he] at herr
      · simp only [he, if_false] at herr hd ⊢
        rw [Nat.add_comm 1, List.drop_succ_cons] at hd
        exact ih (sumPos here g0) herr g rest hd
    · simp only [hw, if_false] at hd ⊢
      simp only [List.drop_zero, List.cons.injEq] at hd
      rw [← hd.1]; exact hw

theorem specRun_err_iff (L : Option Limit) (t : Tail) : ∀ (gs : List (List Ch)) (here : Pos),
    (specRun L gs t here).err = true ↔ (t = Tail.err ∧ AllFit L here gs) := by
  intro gs
  induction gs with
  | nil => intro here; cases t <;> simp [specRun, AllFit]
  | cons g gs ih =>
    intro here
    unfold specRun AllFit
    by_cases hw : Within L (sumPos here g)
    · simp only [hw, if_true, true_and]
      by_cases he : gs = [] ∧ t = Tail.err
      · obtain ⟨rfl, rfl⟩ := he; simp [AllFit]
      · simp only [he, if_false]; exact ih (sumPos here g)
    · simp [hw]

/-- Not an error and everything counted: the input ended at the terminator / length. -/
theorem specRun_all_eof (L : Option Limit) (t : Tail) : ∀ (gs : List (List Ch)) (here : Pos),
    (specRun L gs t here).err = false → specTaken L gs t here = gs.length → t = Tail.eof := by
  intro gs
  induction gs with
  | nil => intro here h _; cases t <;> simp_all [specRun]
  | cons g gs ih =>
    intro here herr hl
    unfold specRun at herr
    unfold specTaken at hl
    by_cases hw : Within L (sumPos here g)
    · simp only [hw, if_true] at herr hl
      by_cases he : gs = [] ∧ t = Tail.err
      · simp [he] at herr
      · simp only [he, if_false] at herr hl
        exact ih (sumPos here g) herr (by simp at hl; omega)
    · simp [hw] at hl

/-- **Resumption** on the specification: counting on from where a smaller limit stopped gives the same
    result as counting in one go, error outcome included. -/
theorem specRun_resume (L1 L2 : Option Limit) (hle : LimitLe L1 L2) (t : Tail) :
    ∀ (gs : List (List Ch)) (here : Pos),
      specRun L2 (gs.drop (specTaken L1 gs t here)) t (specRun L1 gs t here).pos = specRun L2 gs t here := by
  intro gs
  induction gs with
  | nil => intro here; cases t <;> simp [specRun, specTaken]
  | cons g gs ih =>
    intro here
    by_cases hw : Within L1 (sumPos here g)
    · have hw2 : Within L2 (sumPos here g) := hle _ hw
      by_cases he : gs = [] ∧ t = Tail.err
      · simp [specRun, specTaken, hw, he]
      · have e1 : specRun L1 (g :: gs) t here = specRun L1 gs t (sumPos here g) := by
          rw [specRun]; simp only [hw, he, if_true, if_false]
        have e2 : specTaken L1 (g :: gs) t here = specTaken L1 gs t (sumPos here g) + 1 := by
          rw [specTaken]; simp only [hw, he, if_true, if_false]; omega
        have e3 : specRun L2 (g :: gs) t here = specRun L2 gs t (sumPos here g) := by
          rw [specRun]; simp only [hw2, he, if_true, if_false]
        rw [e1, e2, e3, List.drop_succ_cons]
        exact ih (sumPos here g)
    · have e1 : specRun L1 (g :: gs) t here = ⟨false, here⟩ := by
        rw [specRun]; simp only [hw, if_false]
      have e2 : specTaken L1 (g :: gs) t here = 0 := by
        rw [specTaken]; simp only [hw, if_false]
      rw [e1, e2]; rfl


/-! ### reads stay inside the input -/

theorem contLoop_hi (mem : Mem) : ∀ (k q cp : Nat), (contLoop mem k q cp).2 ≤ q + k := by
  intro k
  induction k with
  | zero => intro q cp; simp [contLoop]
  | succ k ih =>
    intro q cp
    unfold contLoop
    split
    · simp
    · have := ih (q + 1) (contAcc cp (mem q).toNat); omega

theorem contLoop_some (mem : Mem) : ∀ (k q cp cp' hi : Nat), contLoop mem k q cp = (some cp', hi) →
    hi = q + k ∧ ∀ i, q ≤ i → i < q + k → (mem i).toNat ≠ 0 := by
  intro k
  induction k with
  | zero => intro q cp cp' hi h; simp [contLoop] at h; exact ⟨by omega, fun i h1 h2 => by omega⟩
  | succ k ih =>
    intro q cp cp' hi h
    unfold contLoop at h
    split at h
    · cases h
    · rename_i hne
      obtain ⟨h1, h2⟩ := ih _ _ _ _ h
      refine ⟨by omega, fun i hi1 hi2 => ?_⟩
      by_cases hiq : i = q
      · subst hiq; exact hne
      · exact h2 i (by omega) (by omega)

theorem contLoop_none_nul (mem : Mem) (nul : Nat) (hz : (mem nul).toNat = 0) :
    ∀ (k q cp hi : Nat), q ≤ nul → contLoop mem k q cp = (none, hi) → hi ≤ nul + 1 := by
  intro k
  induction k with
  | zero => intro q cp hi _ h; simp [contLoop] at h
  | succ k ih =>
    intro q cp hi hq h
    unfold contLoop at h
    split at h
    · injection h with _ h2; omega
    · rename_i hne
      have : q ≠ nul := by rintro rfl; exact hne hz
      exact ih _ _ _ (by omega) h

theorem contLoop_some_nul (mem : Mem) (nul : Nat) (hz : (mem nul).toNat = 0)
    (k q cp cp' hi : Nat) (hq : q ≤ nul) (h : contLoop mem k q cp = (some cp', hi)) :
    hi = q + k ∧ q + k ≤ nul := by
  obtain ⟨h1, h2⟩ := contLoop_some mem k q cp cp' hi h
  refine ⟨h1, ?_⟩
  rcases Nat.lt_or_ge nul (q + k) with hlt | hge
  · exact absurd hz (h2 nul hq hlt)
  · exact hge


/-- `e` bounds (exclusively) the indices a call at offset `str` with remaining length `len` may read:
    the end of the length, resp. one past the first NUL. -/
def ReadBound (mem : Mem) (str : Nat) (len : Option Nat) (e : Nat) : Prop :=
  match len with
  | some l => str + l ≤ e
  | none => ∃ nul, FirstNul mem str nul ∧ nul + 1 ≤ e

theorem leadLen_cases (b : Nat) : leadLen b = 0 ∨ leadLen b = 2 ∨ leadLen b = 3 ∨ leadLen b = 4 := by
  unfold leadLen; (repeat' split) <;> simp

theorem nextUtf8_bound (mem : Mem) (p : Nat) (len : Option Nat) (e : Nat) (hb : ReadBound mem p len e)
    (hl : len ≠ some 0) (h0 : (mem p).toNat ≠ 0) :
    match nextUtf8 mem p len with
    | .err hi => hi ≤ e
    | .ok n _ hi => hi ≤ e ∧ ReadBound mem (p + n) (lenDec len n) e ∧ 0 < n := by
  have hp1 : p + 1 ≤ e := by
    unfold ReadBound at hb
    cases len with
    | some l => simp only at hb; have : l ≠ 0 := fun h => hl (by rw [h]); omega
    | none =>
      obtain ⟨nul, ⟨h1, h2, _⟩, h4⟩ := hb
      have : p ≠ nul := by rintro rfl; exact h0 h2
      omega
  unfold nextUtf8
  simp only [hl, h0, if_false]
  by_cases hascii : (mem p).toNat < 0x80
  · simp only [hascii, if_true]
    refine ⟨hp1, ?_, by omega⟩
    unfold ReadBound at hb ⊢
    cases len with
    | some l => simp only [lenDec, Option.map] at hb ⊢; have : l ≠ 0 := fun h => hl (by rw [h]); omega
    | none =>
      obtain ⟨nul, ⟨h1, h2, h3⟩, h4⟩ := hb
      have : p ≠ nul := by rintro rfl; exact h0 h2
      exact ⟨nul, ⟨by omega, h2, fun i hi1 hi2 => h3 i (by omega) hi2⟩, h4⟩
  · simp only [hascii, if_false]
    by_cases hll : leadLen (mem p).toNat = 0
    · simp only [hll, if_true]; exact hp1
    · simp only [hll, if_false]
      by_cases hlt : lenLt len (leadLen (mem p).toNat) = true
      · simp only [hlt, if_true]; exact hp1
      · simp only [hlt, Bool.false_eq_true, if_false]
        have hn : 2 ≤ leadLen (mem p).toNat := by
          rcases leadLen_cases (mem p).toNat with h | h | h | h <;> omega
        generalize hN : leadLen (mem p).toNat = N at *
        cases hcl : contLoop mem (N - 1) (p + 1) (leadBits (mem p).toNat) with
        | mk o hi =>
          cases o with
          | none =>
            simp only
            cases len with
            | some l =>
              unfold ReadBound at hb; simp only at hb
              have := contLoop_hi mem (N - 1) (p + 1) (leadBits (mem p).toNat)
              rw [hcl] at this; simp only at this
              simp only [lenLt, decide_eq_true_eq] at hlt
              omega
            | none =>
              obtain ⟨nul, ⟨h1, h2, h3⟩, h4⟩ := hb
              have : p ≠ nul := by rintro rfl; exact h0 h2
              have := contLoop_none_nul mem nul h2 _ _ _ _ (by omega) hcl
              omega
          | some cp' =>
            simp only
            cases len with
            | some l =>
              unfold ReadBound at hb ⊢; simp only [lenDec, Option.map] at hb ⊢
              obtain ⟨h1, _⟩ := contLoop_some mem _ _ _ _ _ hcl
              simp only [lenLt, decide_eq_true_eq] at hlt
              refine ⟨by omega, by omega, by omega⟩
            | none =>
              obtain ⟨nul, ⟨h1, h2, h3⟩, h4⟩ := hb
              have hpn : p ≠ nul := by rintro rfl; exact h0 h2
              obtain ⟨e1, e2⟩ := contLoop_some_nul mem nul h2 _ _ _ _ _ (by omega) hcl
              refine ⟨by omega, ?_, by omega⟩
              exact ⟨nul, ⟨by omega, h2, fun i hi1 hi2 => h3 i (by omega) hi2⟩, h4⟩

theorem stepAt_bound (mem : Mem) (str : Nat) (len : Option Nat) (e : Nat) (hb : ReadBound mem str len e) :
    match stepAt mem str len with
    | .stop hi => hi ≤ e
    | .err hi => hi ≤ e
    | .ch n _ _ hi => hi ≤ e ∧ ReadBound mem (str + n) (lenDec len n) e ∧ 0 < n := by
  unfold stepAt
  by_cases hl : len = some 0
  · simp [hl]
  · simp only [hl, if_false]
    by_cases h0 : (mem str).toNat = 0
    · simp only [h0, if_true]
      unfold ReadBound at hb
      cases len with
      | some l => simp only at hb; have : l ≠ 0 := fun h => hl (by rw [h]); omega
      | none => obtain ⟨nul, ⟨h1, _, _⟩, h4⟩ := hb; omega
    · simp only [h0, if_false]
      have := nextUtf8_bound mem str len e hb hl h0
      cases hn : nextUtf8 mem str len with
      | err hi => rw [hn] at this; simpa using this
      | ok n cp hi =>
        rw [hn] at this
        simp only at this ⊢
        by_cases hc : cp < 0x20 ∨ (cp ≥ 0x80 ∧ cp < 0xa0)
        · simp only [hc, if_true]; exact this.1
        · simp only [hc, if_false]
          by_cases hw : Width.wcwidth cp = -1
          · simp only [hw, if_true]; exact this.1
          · simp only [hw, if_false]; exact this

theorem loop_bound (mem : Mem) (L : Option Limit) (start e : Nat) :
    ∀ (fuel str : Nat) (len : Option Nat) (here pos : Pos) (hi : Nat) (r : Int) (p : Pos) (hi' : Nat),
      ReadBound mem str len e → hi ≤ e →
      loop mem L start fuel str len here pos hi = .ret r p hi' → hi' ≤ e := by
  intro fuel
  induction fuel with
  | zero => intro str len here pos hi r p hi' _ _ h; simp [loop] at h
  | succ f ih =>
    intro str len here pos hi r p hi' hb hhi h
    have hs := stepAt_bound mem str len e hb
    unfold loop at h
    split at h
    · rename_i hh hst; rw [hst] at hs; simp only at hs
      injection h with _ _ h3; omega
    · rename_i hh hst; rw [hst] at hs; simp only at hs
      injection h with _ _ h3; omega
    · rename_i n cp w hh hst; rw [hst] at hs; simp only at hs
      simp only at h
      split at h
      · injection h with _ _ h3; omega
      · exact ih _ _ _ _ _ _ _ _ hs.2.1 (by omega) h


/-! ### encode, then decode / count -/

theorem wcwidth_ne_neg_one (cp : Nat) (hz : cp ≠ 0) (hc : ¬ (cp < 32 ∨ (0x7f ≤ cp ∧ cp < 0xa0))) :
    Width.wcwidth cp ≠ -1 := by
  unfold Width.wcwidth
  split
  · decide
  · unfold Width.mkWcwidth
    simp only [hz, if_false]
    have : ¬ (cp < 32 ∨ cp ≥ 0x7f ∧ cp < 0xa0) := by omega
    simp only [this, if_false]
    split
    · decide
    · split <;> omega

theorem seqlen_pos (cp : Nat) : 1 ≤ seqlen cp := by
  unfold seqlen; (repeat' split) <;> omega

/-- Decoding what `tickit_utf8_put` wrote gives the code point back, and reads exactly its bytes. -/
theorem nextUtf8_putBytes (cp : Nat) (h0 : 0 < cp) (h1 : cp < 0x200000) :
    nextUtf8 (memOfBytes (putBytes cp)) 0 none = .ok (seqlen cp) cp (seqlen cp) ∧
    (putBytes cp).length = seqlen cp ∧ (∀ x ∈ putBytes cp, x < 256) ∧
    (memOfBytes (putBytes cp) 0).toNat ≠ 0 := by
  rcases Nat.lt_or_ge cp 0x80 with hA | hA
  · have hs : seqlen cp = 1 := by unfold seqlen; simp [hA]
    have hb : ∀ x ∈ putBytes cp, x < 256 := by rw [putBytes_1 cp hA]; simp; omega
    have m0 : (memOfBytes (putBytes cp) 0).toNat = cp := by
      rw [memOfBytes_toNat _ _ hb, putBytes_1 cp hA]; rfl
    refine ⟨?_, by rw [putBytes_1 cp hA, hs]; rfl, hb, by omega⟩
    rw [nextUtf8_ascii _ _ _ (by simp) (by omega) (by omega), m0, hs]
  · rcases Nat.lt_or_ge cp 0x800 with hB | hB
    · have hs : seqlen cp = 2 := by unfold seqlen; (repeat' split) <;> omega
      have hb : ∀ x ∈ putBytes cp, x < 256 := by
        rw [putBytes_2 cp hA hB]; intro x hx; simp at hx; omega
      have m0 : (memOfBytes (putBytes cp) 0).toNat = 192 + cp / 64 := by
        rw [memOfBytes_toNat _ _ hb, putBytes_2 cp hA hB]; rfl
      have m1 : (memOfBytes (putBytes cp) (0 + 1)).toNat = 128 + cp % 64 := by
        rw [memOfBytes_toNat _ _ hb, putBytes_2 cp hA hB]; rfl
      refine ⟨?_, by rw [putBytes_2 cp hA hB, hs]; rfl, hb, by omega⟩
      rw [nextUtf8_2 _ _ _ (by simp [lenLt]) (by omega) (by omega) (by omega), m0, m1, hs]
      congr 1; omega
    · rcases Nat.lt_or_ge cp 0x10000 with hC | hC
      · have hs : seqlen cp = 3 := by unfold seqlen; (repeat' split) <;> omega
        have hb : ∀ x ∈ putBytes cp, x < 256 := by
          rw [putBytes_3 cp hB hC]; intro x hx; simp at hx; omega
        have m0 : (memOfBytes (putBytes cp) 0).toNat = 224 + cp / 4096 := by
          rw [memOfBytes_toNat _ _ hb, putBytes_3 cp hB hC]; rfl
        have m1 : (memOfBytes (putBytes cp) (0 + 1)).toNat = 128 + cp / 64 % 64 := by
          rw [memOfBytes_toNat _ _ hb, putBytes_3 cp hB hC]; rfl
        have m2 : (memOfBytes (putBytes cp) (0 + 2)).toNat = 128 + cp % 64 := by
          rw [memOfBytes_toNat _ _ hb, putBytes_3 cp hB hC]; rfl
        refine ⟨?_, by rw [putBytes_3 cp hB hC, hs]; rfl, hb, by omega⟩
        rw [nextUtf8_3 _ _ _ (by simp [lenLt]) (by omega) (by omega) (by omega) (by omega), m0, m1, m2, hs]
        congr 1; omega
      · have hs : seqlen cp = 4 := by unfold seqlen; (repeat' split) <;> omega
        have hb : ∀ x ∈ putBytes cp, x < 256 := by
          rw [putBytes_4 cp hC h1]; intro x hx; simp at hx; omega
        have m0 : (memOfBytes (putBytes cp) 0).toNat = 240 + cp / 262144 := by
          rw [memOfBytes_toNat _ _ hb, putBytes_4 cp hC h1]; rfl
        have m1 : (memOfBytes (putBytes cp) (0 + 1)).toNat = 128 + cp / 4096 % 64 := by
          rw [memOfBytes_toNat _ _ hb, putBytes_4 cp hC h1]; rfl
        have m2 : (memOfBytes (putBytes cp) (0 + 2)).toNat = 128 + cp / 64 % 64 := by
          rw [memOfBytes_toNat _ _ hb, putBytes_4 cp hC h1]; rfl
        have m3 : (memOfBytes (putBytes cp) (0 + 3)).toNat = 128 + cp % 64 := by
          rw [memOfBytes_toNat _ _ hb, putBytes_4 cp hC h1]; rfl
        refine ⟨?_, by rw [putBytes_4 cp hC h1, hs]; rfl, hb, by omega⟩
        rw [nextUtf8_4 _ _ _ (by simp [lenLt]) (by omega) (by omega) (by omega) (by omega) (by omega),
          m0, m1, m2, m3, hs]
        congr 1; omega

/-- Counting what `tickit_utf8_put` wrote for a non-control code point. -/
theorem count_putBytes (cp : Nat) (h0 : 0x20 ≤ cp) (hc : ¬ (0x7f ≤ cp ∧ cp < 0xa0)) (h1 : cp < 0x200000)
    (fuel : Nat) :
    count (memOfBytes (putBytes cp)) (fuel + 2) none =
      .ret (seqlen cp) ⟨seqlen cp, 1, if Width.wcwidth cp > 0 then 1 else 0, Width.wcwidth cp⟩ (seqlen cp + 1) := by
  obtain ⟨hdec, hlen, hb, hm0⟩ := nextUtf8_putBytes cp (by omega) h1
  have hw := wcwidth_ne_neg_one cp (by omega) (by omega)
  have hst : stepAt (memOfBytes (putBytes cp)) 0 none = .ch (seqlen cp) cp (Width.wcwidth cp) (seqlen cp) := by
    unfold stepAt
    simp only [hm0, hdec, hw, if_false]
    have : ¬ (cp < 0x20 ∨ (cp ≥ 0x80 ∧ cp < 0xa0)) := by omega
    simp [this]
  have hend : (memOfBytes (putBytes cp) (seqlen cp)).toNat = 0 := by
    rw [memOfBytes_toNat _ _ hb, ← hlen]; simp
  have hst2 : stepAt (memOfBytes (putBytes cp)) (0 + seqlen cp) (lenDec none (seqlen cp)) = .stop (seqlen cp + 1) := by
    unfold stepAt
    simp [lenDec, hend]
  unfold count ncountmore
  simp only [Pos.zero, lenSub]
  rw [loop]
  simp only [hst, exceeds]
  rw [loop]
  simp only [hst2, Pos.adv, Bool.false_eq_true, if_false]
  have := seqlen_pos cp
  congr 1
  · simp
  · simp
  · omega


/-! ### what makes a step an error, declaratively -/

theorem fullwidth_lo : 0xa0 ≤ (Width.Table.at Gen.Width.fullwidth 0).1 := by decide +kernel

theorem bisearch_fullwidth_low (cp : Nat) (h : cp < 0xa0) : Width.bisearch Gen.Width.fullwidth cp = false := by
  unfold Width.bisearch
  have := fullwidth_lo
  split
  · rfl
  · have hlt : cp < (Width.Table.at Gen.Width.fullwidth 0).1 := by omega
    simp only [hlt, true_or, if_true]

/-- The three error tests on a decoded code point (`cp < 0x20`, `0x80 ≤ cp < 0xa0`, `wcwidth = -1`)
    together say: C0 control, DEL or C1 control. -/
theorem ctl_iff (cp : Nat) :
    ((cp < 0x20 ∨ (cp ≥ 0x80 ∧ cp < 0xa0)) ∨ Width.wcwidth cp = -1) ↔ IsControl cp := by
  unfold IsControl
  constructor
  · rintro (h | h)
    · omega
    · by_cases hz : cp = 0
      · omega
      · by_cases hc : cp < 32 ∨ (0x7f ≤ cp ∧ cp < 0xa0)
        · omega
        · exact absurd h (wcwidth_ne_neg_one cp hz hc)
  · intro h
    by_cases h7 : cp = 0x7f
    · right
      subst h7
      unfold Width.wcwidth
      rw [bisearch_fullwidth_low _ (by omega)]
      decide
    · left; omega

theorem contLoop_none_of_zero (mem : Mem) : ∀ (k q cp : Nat), (∃ i, i < k ∧ (mem (q + i)).toNat = 0) →
    ∃ hi, contLoop mem k q cp = (none, hi) := by
  intro k
  induction k with
  | zero => rintro q cp ⟨i, hi, _⟩; omega
  | succ k ih =>
    rintro q cp ⟨i, hi, hz⟩
    unfold contLoop
    by_cases h0 : (mem q).toNat = 0
    · exact ⟨q + 1, by simp [h0]⟩
    · simp only [h0, if_false]
      have hi0 : i ≠ 0 := by rintro rfl; exact h0 (by simpa using hz)
      exact ih (q + 1) _ ⟨i - 1, by omega, by rw [show q + 1 + (i - 1) = q + i by omega]; exact hz⟩

theorem nextUtf8_trunc_nul (mem : Mem) (p : Nat) (len : Option Nat) (hl : len ≠ some 0)
    (hn : leadLen (mem p).toNat ≠ 0) (hlt : lenLt len (leadLen (mem p).toNat) = false)
    (hz : ∃ i, 1 ≤ i ∧ i < leadLen (mem p).toNat ∧ (mem (p + i)).toNat = 0) :
    ∃ hi, nextUtf8 mem p len = .err hi := by
  have hb : 0xc0 ≤ (mem p).toNat := by
    unfold leadLen at hn; split at hn
    · exact absurd rfl hn
    · omega
  obtain ⟨i, h1, h2, h3⟩ := hz
  obtain ⟨hi, hcl⟩ := contLoop_none_of_zero mem (leadLen (mem p).toNat - 1) (p + 1) (leadBits (mem p).toNat)
    ⟨i - 1, by omega, by rw [show p + 1 + (i - 1) = p + i by omega]; exact h3⟩
  refine ⟨hi, ?_⟩
  unfold nextUtf8
  have h00 : (mem p).toNat ≠ 0 := by omega
  have h80 : ¬ (mem p).toNat < 0x80 := by omega
  simp only [hl, h00, h80, hn, hlt, Bool.false_eq_true, if_false, hcl]

theorem nextUtf8_complete (mem : Mem) (p : Nat) (len : Option Nat)
    (hn : leadLen (mem p).toNat ≠ 0) (hlt : lenLt len (leadLen (mem p).toNat) = false)
    (hnz : ∀ i, 1 ≤ i → i < leadLen (mem p).toNat → (mem (p + i)).toNat ≠ 0) :
    nextUtf8 mem p len = .ok (leadLen (mem p).toNat) (seqValue mem p (leadLen (mem p).toNat))
      (p + leadLen (mem p).toNat) := by
  have hcases : leadLen (mem p).toNat = 2 ∨ leadLen (mem p).toNat = 3 ∨ leadLen (mem p).toNat = 4 := by
    rcases leadLen_cases (mem p).toNat with h | h | h | h
    · exact absurd h hn
    · exact Or.inl h
    · exact Or.inr (Or.inl h)
    · exact Or.inr (Or.inr h)
  rcases hcases with h | h | h
  · have hr : 0xc0 ≤ (mem p).toNat ∧ (mem p).toNat < 0xe0 := by
      unfold leadLen at h; (repeat' split at h) <;> omega
    rw [h] at hlt hnz ⊢
    rw [nextUtf8_2 mem p len hlt hr.1 hr.2 (hnz 1 (by omega) (by omega))]; rfl
  · have hr : 0xe0 ≤ (mem p).toNat ∧ (mem p).toNat < 0xf0 := by
      unfold leadLen at h; (repeat' split at h) <;> omega
    rw [h] at hlt hnz ⊢
    rw [nextUtf8_3 mem p len hlt hr.1 hr.2 (hnz 1 (by omega) (by omega)) (hnz 2 (by omega) (by omega))]; rfl
  · have hr : 0xf0 ≤ (mem p).toNat ∧ (mem p).toNat < 0xf8 := by
      unfold leadLen at h; (repeat' split at h) <;> omega
    rw [h] at hlt hnz ⊢
    rw [nextUtf8_4 mem p len hlt hr.1 hr.2 (hnz 1 (by omega) (by omega)) (hnz 2 (by omega) (by omega))
      (hnz 3 (by omega) (by omega))]; rfl

/-- The step after `nextUtf8` succeeded: error iff the code point is a control. -/
theorem stepAt_of_ok (mem : Mem) (p : Nat) (len : Option Nat) (hl : len ≠ some 0) (h0 : (mem p).toNat ≠ 0)
    (n cp hi : Nat) (hd : nextUtf8 mem p len = .ok n cp hi) :
    ((∃ h, stepAt mem p len = .err h) ↔ IsControl cp) ∧
    (¬ IsControl cp → stepAt mem p len = .ch n cp (Width.wcwidth cp) hi) := by
  unfold stepAt
  simp only [hl, h0, hd, if_false]
  have hc := ctl_iff cp
  by_cases h1 : cp < 0x20 ∨ (cp ≥ 0x80 ∧ cp < 0xa0)
  · simp only [h1, if_true]
    exact ⟨⟨fun _ => hc.1 (Or.inl h1), fun _ => ⟨_, rfl⟩⟩, fun hn => absurd (hc.1 (Or.inl h1)) hn⟩
  · simp only [h1, if_false]
    by_cases h2 : Width.wcwidth cp = -1
    · simp only [h2, if_true]
      exact ⟨⟨fun _ => hc.1 (Or.inr h2), fun _ => ⟨_, rfl⟩⟩, fun hn => absurd (hc.1 (Or.inr h2)) hn⟩
    · simp only [h2, if_false]
      refine ⟨⟨fun ⟨h, e⟩ => (nomatch e), fun hcc => ?_⟩, fun _ => trivial⟩
      rcases hc.2 hcc with h | h
      · exact absurd h h1
      · exact absurd h h2

theorem stepAt_err_iff (mem : Mem) (p : Nat) (len : Option Nat) :
    (∃ hi, stepAt mem p len = .err hi) ↔ ErrAt mem p len := by
  unfold ErrAt
  by_cases hl : len = some 0
  · unfold stepAt; simp [hl]
  · by_cases h0 : (mem p).toNat = 0
    · unfold stepAt; simp [hl, h0]
    · simp only [ne_eq, hl, not_false_eq_true, h0, true_and]
      by_cases ha : (mem p).toNat < 0x80
      · -- one byte
        have hd := nextUtf8_ascii mem p len hl h0 ha
        have hll : leadLen (mem p).toNat = 0 := by unfold leadLen; simp; omega
        rw [(stepAt_of_ok mem p len hl h0 _ _ _ hd).1]
        simp only [ha, true_and, hll, not_true_eq_false, false_and, or_false]
        constructor
        · intro h; exact Or.inl h
        · rintro (h | h)
          · exact h
          · omega
      · by_cases hn : leadLen (mem p).toNat = 0
        · -- invalid lead byte
          have : ∃ hi, stepAt mem p len = .err hi := by
            unfold stepAt nextUtf8
            simp [hl, h0, ha, hn]
          simp only [this, true_iff]
          exact Or.inr (Or.inl ⟨by omega, hn⟩)
        · by_cases hlt : lenLt len (leadLen (mem p).toNat) = true
          · have : ∃ hi, stepAt mem p len = .err hi := by
              unfold stepAt nextUtf8
              simp [hl, h0, ha, hn, hlt]
            simp only [this, true_iff]
            exact Or.inr (Or.inr (Or.inl ⟨hn, Or.inl hlt⟩))
          · have hlt' : lenLt len (leadLen (mem p).toNat) = false := by simpa using hlt
            by_cases hz : ∃ i, 1 ≤ i ∧ i < leadLen (mem p).toNat ∧ (mem (p + i)).toNat = 0
            · obtain ⟨hi, he⟩ := nextUtf8_trunc_nul mem p len hl hn hlt' hz
              have : ∃ hi, stepAt mem p len = .err hi := by
                unfold stepAt
                simp [hl, h0, he]
              simp only [this, true_iff]
              exact Or.inr (Or.inr (Or.inl ⟨hn, Or.inr hz⟩))
            · have hnz : ∀ i, 1 ≤ i → i < leadLen (mem p).toNat → (mem (p + i)).toNat ≠ 0 :=
                fun i h1 h2 h3 => hz ⟨i, h1, h2, h3⟩
              have hd := nextUtf8_complete mem p len hn hlt' hnz
              rw [(stepAt_of_ok mem p len hl h0 _ _ _ hd).1]
              constructor
              · intro h; exact Or.inr (Or.inr (Or.inr ⟨hn, hlt', hnz, h⟩))
              · rintro (h | h | h | h)
                · omega
                · exact absurd h.2 hn
                · rcases h.2 with h | h
                  · exact absurd h hlt
                  · exact absurd h hz
                · exact h.2.2.2


/-! ### structure of `scan` -/

theorem lenDec_lenDec (len : Option Nat) (a b : Nat) : lenDec (lenDec len a) b = lenDec len (a + b) := by
  cases len with
  | none => rfl
  | some l => simp only [lenDec, Option.map]; congr 1; omega

theorem lenDec_zero (len : Option Nat) : lenDec len 0 = len := by
  cases len <;> simp [lenDec]

theorem sumPos_bytes : ∀ (cs : List Ch) (p : Pos), (sumPos p cs).bytes = p.bytes + bytesOf cs := by
  intro cs
  induction cs with
  | nil => intro p; simp [sumPos, bytesOf]
  | cons c cs ih => intro p; simp only [sumPos, bytesOf, ih, Pos.adv]; omega

theorem bytesOf_append (a b : List Ch) : bytesOf (a ++ b) = bytesOf a + bytesOf b := by
  induction a with
  | nil => simp [bytesOf]
  | cons c a ih => simp only [List.cons_append, bytesOf, ih]; omega

theorem scan_mono (mem : Mem) : ∀ (fuel str : Nat) (len : Option Nat) (x : List Ch × Tail),
    scan mem fuel str len = some x → scan mem (fuel + 1) str len = some x := by
  intro fuel
  induction fuel with
  | zero => intro str len x h; simp [scan] at h
  | succ f ih =>
    intro str len x h
    rw [scan] at h ⊢
    split at h
    · exact h
    · exact h
    · rename_i n cp w hi hst
      split at h
      · cases h
      · rename_i cs t hsc
        rw [ih _ _ _ hsc]; exact h

theorem scan_mono_le (mem : Mem) (f g str : Nat) (len : Option Nat) (x : List Ch × Tail) (hfg : f ≤ g)
    (h : scan mem f str len = some x) : scan mem g str len = some x := by
  induction g with
  | zero => have : f = 0 := by omega
            subst this; exact h
  | succ g ih =>
    rcases Nat.lt_or_ge f (g + 1) with hlt | hge
    · exact scan_mono mem g str len x (ih (by omega))
    · have : f = g + 1 := by omega
      subst this; exact h

/-- The characters after a prefix `a` of the scan are the scan from where `a` ends. -/
theorem scan_append (mem : Mem) : ∀ (a : List Ch) (fuel str : Nat) (len : Option Nat) (b : List Ch) (t : Tail),
    scan mem fuel str len = some (a ++ b, t) →
    scan mem fuel (str + bytesOf a) (lenDec len (bytesOf a)) = some (b, t) := by
  intro a
  induction a with
  | nil => intro fuel str len b t h; simpa [bytesOf, lenDec_zero] using h
  | cons c a ih =>
    intro fuel str len b t h
    cases fuel with
    | zero => simp [scan] at h
    | succ f =>
      rw [scan] at h
      split at h
      · injection h with h; injection h with h1 _; cases h1
      · injection h with h; injection h with h1 _; cases h1
      · rename_i n cp w hi hst
        split at h
        · cases h
        · rename_i cs t' hsc
          injection h with h; injection h with h1 h2
          simp only [List.cons_append, List.cons.injEq] at h1
          obtain ⟨hc, hcs⟩ := h1
          subst hc; subst h2; subst hcs
          have := ih f (str + n) (lenDec len n) b t' hsc
          simp only [bytesOf]
          rw [lenDec_lenDec] at this
          have := scan_mono mem f _ _ _ this
          rwa [Nat.add_assoc] at this

/-- The head of the scan is what `stepAt` finds. -/
theorem scan_head (mem : Mem) (fuel str : Nat) (len : Option Nat) (c : Ch) (cs : List Ch) (t : Tail)
    (h : scan mem fuel str len = some (c :: cs, t)) :
    ∃ hi, stepAt mem str len = .ch c.n c.cp c.w hi := by
  cases fuel with
  | zero => simp [scan] at h
  | succ f =>
    rw [scan] at h
    split at h
    · injection h with h; injection h with h1 _; cases h1
    · injection h with h; injection h with h1 _; cases h1
    · rename_i n cp w hi hst
      split at h
      · cases h
      · injection h with h; injection h with h1 _
        injection h1 with hc _
        subst hc
        exact ⟨hi, hst⟩

/-- How the scan ends. -/
theorem scan_nil (mem : Mem) (fuel str : Nat) (len : Option Nat) (t : Tail)
    (h : scan mem fuel str len = some ([], t)) :
    (t = .eof → ∃ hi, stepAt mem str len = .stop hi) ∧ (t = .err → ∃ hi, stepAt mem str len = .err hi) := by
  cases fuel with
  | zero => simp [scan] at h
  | succ f =>
    rw [scan] at h
    split at h
    · rename_i hi hst
      injection h with h; injection h with _ h2; subst h2
      exact ⟨fun _ => ⟨hi, hst⟩, fun e => (nomatch e)⟩
    · rename_i hi hst
      injection h with h; injection h with _ h2; subst h2
      exact ⟨fun e => (nomatch e), fun _ => ⟨hi, hst⟩⟩
    · split at h
      · cases h
      · injection h with h; injection h with h1 _; cases h1

theorem scan_end (mem : Mem) (fuel str : Nat) (len : Option Nat) (cs : List Ch) (t : Tail)
    (h : scan mem fuel str len = some (cs, t)) :
    (t = .eof → ∃ hi, stepAt mem (str + bytesOf cs) (lenDec len (bytesOf cs)) = .stop hi) ∧
    (t = .err → ∃ hi, stepAt mem (str + bytesOf cs) (lenDec len (bytesOf cs)) = .err hi) := by
  have := scan_append mem cs fuel str len [] t (by simpa using h)
  exact scan_nil mem fuel _ _ t this

theorem stepAt_ch_len (mem : Mem) (str l n cp hi : Nat) (w : Int)
    (h : stepAt mem str (some l) = .ch n cp w hi) : n ≤ l := by
  have hb : ReadBound mem str (some l) (str + l) := by simp [ReadBound]
  have := stepAt_bound mem str (some l) (str + l) hb
  rw [h] at this
  simp only [ReadBound, lenDec, Option.map] at this
  by_cases hn : n ≤ l
  · exact hn
  · omega

theorem scan_bytes_le (mem : Mem) : ∀ (fuel str l : Nat) (cs : List Ch) (t : Tail),
    scan mem fuel str (some l) = some (cs, t) → bytesOf cs ≤ l := by
  intro fuel
  induction fuel with
  | zero => intro str l cs t h; simp [scan] at h
  | succ f ih =>
    intro str l cs t h
    rw [scan] at h
    split at h
    · injection h with h; injection h with h1 _; subst h1; simp [bytesOf]
    · injection h with h; injection h with h1 _; subst h1; simp [bytesOf]
    · rename_i n cp w hi hst
      split at h
      · cases h
      · rename_i cs' t' hsc
        injection h with h; injection h with h1 _; subst h1
        have h1 := stepAt_ch_len mem str l n cp hi w hst
        simp only [lenDec, Option.map] at hsc
        have h2 := ih _ _ _ _ hsc
        simp only [bytesOf]; omega

/-! ### `clusters` is the inverse of flattening well-formed graphemes -/

theorem clusters_of_wf : ∀ (gs : List (List Ch)), (∀ g ∈ gs, IsCluster g) → (∀ g ∈ gs.tail, Spacing g) →
    clusters gs.flatten = gs := by
  intro gs
  induction gs with
  | nil => intro _ _; rfl
  | cons g gs ih =>
    intro hcl hsp
    obtain ⟨c, z, rfl, hc, hz⟩ := hcl g (by simp)
    have ihgs : clusters gs.flatten = gs :=
      ih (fun x hx => hcl x (by simp [hx])) (fun x hx => hsp x (by
        simp only [List.tail_cons]; exact List.mem_of_mem_tail hx))
    -- peel the zero-width tail `z` first
    have key : ∀ (z : List Ch), (∀ x ∈ z, x.w = 0) → ∀ (c : Ch),
        clusters ((c :: z) ++ gs.flatten) = (c :: z) :: gs := by
      intro z
      induction z with
      | nil =>
        intro _ c
        simp only [List.cons_append, List.nil_append]
        rw [clusters, ihgs]
        cases gs with
        | nil => rfl
        | cons g' gs' =>
          obtain ⟨d, r, e, hd⟩ := hsp g' (by simp)
          subst e
          simp [hd]
      | cons y z ihz =>
        intro hz c
        have hy : y.w = 0 := hz y (by simp)
        have := ihz (fun x hx => hz x (by simp [hx])) y
        simp only [List.cons_append] at this ⊢
        rw [clusters, this]
        have : ¬ (y.w > 0) := by omega
        simp [this]
    simpa using key z hz c


/-! ### the counters are sums over the counted characters -/

theorem sumPos_codepoints : ∀ (cs : List Ch) (p : Pos), (sumPos p cs).codepoints = p.codepoints + cs.length := by
  intro cs
  induction cs with
  | nil => intro p; simp [sumPos]
  | cons c cs ih => intro p; simp only [sumPos, ih, Pos.adv, List.length_cons]; omega

theorem sumPos_graphemes : ∀ (cs : List Ch) (p : Pos),
    (sumPos p cs).graphemes = p.graphemes + (cs.filter (fun c => decide (c.w > 0))).length := by
  intro cs
  induction cs with
  | nil => intro p; simp [sumPos]
  | cons c cs ih =>
    intro p
    simp only [sumPos, ih, Pos.adv, List.filter_cons]
    by_cases h : c.w > 0
    · simp [h]; omega
    · simp [h]

theorem sumPos_columns : ∀ (cs : List Ch) (p : Pos),
    (sumPos p cs).columns = p.columns + (cs.map (·.w)).sum := by
  intro cs
  induction cs with
  | nil => intro p; simp [sumPos]
  | cons c cs ih => intro p; simp only [sumPos, ih, Pos.adv, List.map_cons, List.sum_cons]; omega

/-! ### resumption at the level of memory -/

theorem lenSub_resume (len : Option Nat) (a k : Nat) (h : ∀ l, len = some l → a + k ≤ l) :
    lenSub len (a + k) = lenDec (lenSub len a) k := by
  cases len with
  | none => rfl
  | some l =>
    have := h l rfl
    unfold lenSub lenDec
    simp only [show a + k ≤ l from this, show a ≤ l by omega, if_true, Option.map]
    congr 1; omega

theorem drop_wf (gs : List (List Ch)) (j : Nat) (h1 : ∀ g ∈ gs, IsCluster g) (h2 : ∀ g ∈ gs.tail, Spacing g) :
    (∀ g ∈ gs.drop j, IsCluster g) ∧ (∀ g ∈ (gs.drop j).tail, Spacing g) := by
  refine ⟨fun g hg => h1 g (List.mem_of_mem_drop hg), fun g hg => ?_⟩
  rw [List.tail_drop] at hg
  have hg' : g ∈ gs.drop 1 := by
    rw [show j + 1 = 1 + j by omega, ← List.drop_drop] at hg
    exact List.mem_of_mem_drop hg
  rw [List.drop_one] at hg'
  exact h2 g hg'

theorem ncountmore_resume (mem : Mem) (fuel : Nat) (len : Option Nat) (pos : Pos) (L1 L2 : Option Limit)
    (cs : List Ch) (t : Tail) (hle : LimitLe L1 L2) (hpre : ∀ l, len = some l → pos.bytes ≤ l)
    (hs : scan mem fuel pos.bytes (lenSub len pos.bytes) = some (cs, t)) :
    ∃ h2, ncountmore mem fuel len (specRun L1 (clusters cs) t pos).pos L2 =
      .ret ((specRun L2 (clusters cs) t pos).ret (specRun L1 (clusters cs) t pos).pos.bytes)
        (specRun L2 (clusters cs) t pos).pos h2 := by
  obtain ⟨w1, w2⟩ := clusters_wf cs (scan_nonneg mem _ _ _ _ _ hs)
  generalize hgs : clusters cs = gs at *
  have hfl : gs.flatten = cs := by rw [← hgs]; exact clusters_flatten cs
  obtain ⟨hp1, _⟩ := specRun_pos L1 t gs pos
  generalize hj : specTaken L1 gs t pos = j at *
  have hsplit : cs = (gs.take j).flatten ++ (gs.drop j).flatten := by
    rw [← List.flatten_append, List.take_append_drop, hfl]
  have hb1 : (specRun L1 gs t pos).pos.bytes = pos.bytes + bytesOf (gs.take j).flatten := by
    rw [hp1, sumPos_bytes]
  have hsc := scan_append mem (gs.take j).flatten fuel pos.bytes (lenSub len pos.bytes) (gs.drop j).flatten t
    (by rw [← hsplit]; exact hs)
  have hlen : lenSub len (specRun L1 gs t pos).pos.bytes =
      lenDec (lenSub len pos.bytes) (bytesOf (gs.take j).flatten) := by
    rw [hb1]
    apply lenSub_resume
    intro l hl
    have h0 := hpre l hl
    subst hl
    have hls : lenSub (some l) pos.bytes = some (l - pos.bytes) := by simp [lenSub, h0]
    rw [hls] at hs
    have := scan_bytes_le mem _ _ _ _ _ hs
    rw [hsplit, bytesOf_append] at this
    omega
  have hsc' : scan mem fuel (specRun L1 gs t pos).pos.bytes (lenSub len (specRun L1 gs t pos).pos.bytes) =
      some ((gs.drop j).flatten, t) := by rw [hlen, hb1]; exact hsc
  obtain ⟨h2, he⟩ := ncountmore_eq_spec mem fuel len (specRun L1 gs t pos).pos L2 _ t hsc'
  obtain ⟨d1, d2⟩ := drop_wf gs j w1 w2
  rw [clusters_of_wf _ d1 d2] at he
  have hres := specRun_resume L1 L2 hle t gs pos
  rw [hj] at hres
  rw [hres] at he
  exact ⟨h2, he⟩


theorem bytesOf_eq_sum : ∀ (l : List Ch), bytesOf l = (l.map (·.n)).sum := by
  intro l
  induction l with
  | nil => rfl
  | cons c cs ih => simp [bytesOf, ih]

theorem specRun_bytes_ge (L : Option Limit) (t : Tail) (gs : List (List Ch)) (here : Pos) :
    here.bytes ≤ (specRun L gs t here).pos.bytes := by
  rw [(specRun_pos L t gs here).1, sumPos_bytes]; omega


theorem ret_inj {mem : Mem} {fuel : Nat} {len : Option Nat} {pos : Pos} {L : Option Limit}
    {cs : List Ch} {t : Tail} (hs : scan mem fuel pos.bytes (lenSub len pos.bytes) = some (cs, t)) {r : Int} {p : Pos} {hi : Nat}
    (h : ncountmore mem fuel len pos L = .ret r p hi) :
    r = (specRun L (clusters cs) t pos).ret pos.bytes ∧ p = (specRun L (clusters cs) t pos).pos := by
  obtain ⟨hi', he⟩ := ncountmore_eq_spec mem fuel len pos L cs t hs
  rw [he] at h
  injection h with h1 h2 _
  exact ⟨h1.symm, h2.symm⟩

theorem ret_neg_iff (L : Option Limit) (gs : List (List Ch)) (t : Tail) (pos : Pos) :
    (specRun L gs t pos).ret pos.bytes = -1 ↔ (specRun L gs t pos).err = true := by
  unfold Res.ret
  obtain ⟨hp, _⟩ := specRun_pos L t gs pos
  have hb : (specRun L gs t pos).pos.bytes = pos.bytes + bytesOf (gs.take (specTaken L gs t pos)).flatten := by
    rw [hp, sumPos_bytes]
  cases he : (specRun L gs t pos).err with
  | true => simp
  | false => simp; omega



/-! ### more fuel never changes a result -/

theorem loop_mono (mem : Mem) (L : Option Limit) (start : Nat) :
    ∀ (fuel str : Nat) (len : Option Nat) (here pos : Pos) (hi : Nat) (r : Int) (p : Pos) (hi' : Nat),
      loop mem L start fuel str len here pos hi = .ret r p hi' →
      loop mem L start (fuel + 1) str len here pos hi = .ret r p hi' := by
  intro fuel
  induction fuel with
  | zero => intro str len here pos hi r p hi' h; simp [loop] at h
  | succ f ih =>
    intro str len here pos hi r p hi' h
    rw [loop] at h ⊢
    split at h
    · exact h
    · exact h
    · rename_i n cp w hh hst
      simp only at h ⊢
      by_cases hex : exceeds L here n w = true
      · simp only [hex, if_true] at h ⊢; exact h
      · have hex' : exceeds L here n w = false := by simpa using hex
        simp only [hex', Bool.false_eq_true, if_false] at h ⊢
        exact ih _ _ _ _ _ _ _ _ h

theorem ncountmore_mono (mem : Mem) (f g : Nat) (len : Option Nat) (pos : Pos) (L : Option Limit)
    (r : Int) (p : Pos) (hi : Nat) (hfg : f ≤ g)
    (h : ncountmore mem f len pos L = .ret r p hi) : ncountmore mem g len pos L = .ret r p hi := by
  induction g with
  | zero => have : f = 0 := by omega
            subst this; exact h
  | succ g ih =>
    rcases Nat.lt_or_ge f (g + 1) with hlt | hge
    · exact loop_mono mem L _ g _ _ _ _ _ _ _ _ (ih (by omega))
    · have : f = g + 1 := by omega
      subst this; exact h


/-! ### the runtime oracle's reference decoder agrees with the strict scan -/

theorem refClassify_spec (n cp : Nat) :
    (IsControl cp → ∃ why, refClassify Width.wcwidth n cp = .err why) ∧
    (¬ IsControl cp → refClassify Width.wcwidth n cp = .ch ⟨n, cp, Width.wcwidth cp⟩) := by
  unfold refClassify IsControl
  constructor
  · intro h
    by_cases h1 : cp < 0x20
    · exact ⟨"C0 control", by simp [h1]⟩
    · by_cases h2 : cp = 0x7f
      · exact ⟨"DEL", by simp [h2]⟩
      · have h3 : 0x80 ≤ cp ∧ cp < 0xa0 := by omega
        exact ⟨"C1 control", by simp only [h1, h2, if_false]; simp [h3]⟩
  · intro h
    have h1 : ¬ cp < 0x20 := by omega
    have h2 : ¬ cp = 0x7f := by omega
    have h3 : ¬ (0x80 ≤ cp ∧ cp < 0xa0) := by omega
    have h4 : ¬ Width.wcwidth cp < 0 := by
      rcases wcwidth_cases cp with hw | hw
      · exact absurd ((ctl_iff cp).1 (Or.inr hw)) h
      · omega
    simp only [h1, h2, h3, h4, if_false]

theorem badCont_iff (mem : Mem) (p : Nat) (len : Option Nat) :
    badCont mem p len = true ↔
      (len ≠ some 0 ∧ (mem p).toNat ≠ 0 ∧ leadLen (mem p).toNat ≠ 0 ∧ lenLt len (leadLen (mem p).toNat) = false ∧
        ∃ i, 1 ≤ i ∧ i < leadLen (mem p).toNat ∧ (mem (p + i)).toNat ≠ 0 ∧ isContByte (mem (p + i)).toNat = false) := by
  unfold badCont
  simp only [Bool.and_eq_true, decide_eq_true_eq, Bool.not_eq_true', List.any_eq_true, List.mem_range]
  constructor
  · rintro ⟨⟨⟨⟨h1, h2⟩, h3⟩, h4⟩, i, hi, ⟨h5, h6⟩, h7⟩
    exact ⟨h1, h2, h3, h4, i, h5, hi, h6, h7⟩
  · rintro ⟨h1, h2, h3, h4, i, h5, hi, h6, h7⟩
    exact ⟨⟨⟨⟨h1, h2⟩, h3⟩, h4⟩, i, hi, ⟨h5, h6⟩, h7⟩

/-- `stepStrict` on a lead byte: the four situations. -/
theorem stepStrict_short (mem : Mem) (p : Nat) (len : Option Nat) (hl : len ≠ some 0) (h0 : (mem p).toNat ≠ 0)
    (hn : leadLen (mem p).toNat ≠ 0) (hlt : lenLt len (leadLen (mem p).toNat) = true) :
    ∃ hi, stepStrict mem p len = .err hi := by
  unfold stepStrict
  have hb : badCont mem p len = false := by
    cases hbc : badCont mem p len with
    | false => rfl
    | true => have := (badCont_iff mem p len).1 hbc; rw [hlt] at this; exact absurd this.2.2.2.1 (by simp)
  simp only [hb, Bool.false_eq_true, if_false]
  exact (stepAt_err_iff mem p len).2 ⟨hl, h0, Or.inr (Or.inr (Or.inl ⟨hn, Or.inl hlt⟩))⟩

theorem stepStrict_nul (mem : Mem) (p : Nat) (len : Option Nat) (hl : len ≠ some 0) (h0 : (mem p).toNat ≠ 0)
    (hn : leadLen (mem p).toNat ≠ 0)
    (hz : ∃ i, 1 ≤ i ∧ i < leadLen (mem p).toNat ∧ (mem (p + i)).toNat = 0) :
    ∃ hi, stepStrict mem p len = .err hi := by
  unfold stepStrict
  cases hbc : badCont mem p len with
  | true => exact ⟨p + 1, by simp⟩
  | false =>
    simp only [Bool.false_eq_true, if_false]
    exact (stepAt_err_iff mem p len).2 ⟨hl, h0, Or.inr (Or.inr (Or.inl ⟨hn, Or.inr hz⟩))⟩

theorem stepStrict_bad (mem : Mem) (p : Nat) (len : Option Nat) (hl : len ≠ some 0) (h0 : (mem p).toNat ≠ 0)
    (hn : leadLen (mem p).toNat ≠ 0) (hlt : lenLt len (leadLen (mem p).toNat) = false)
    (hb : ∃ i, 1 ≤ i ∧ i < leadLen (mem p).toNat ∧ (mem (p + i)).toNat ≠ 0 ∧ isContByte (mem (p + i)).toNat = false) :
    ∃ hi, stepStrict mem p len = .err hi := by
  unfold stepStrict
  have : badCont mem p len = true := (badCont_iff mem p len).2 ⟨hl, h0, hn, hlt, hb⟩
  exact ⟨p + 1, by simp [this]⟩

theorem stepStrict_good (mem : Mem) (p : Nat) (len : Option Nat) (hl : len ≠ some 0) (h0 : (mem p).toNat ≠ 0)
    (hn : leadLen (mem p).toNat ≠ 0) (hlt : lenLt len (leadLen (mem p).toNat) = false)
    (hc : ∀ i, 1 ≤ i → i < leadLen (mem p).toNat → isContByte (mem (p + i)).toNat = true) :
    (IsControl (seqValue mem p (leadLen (mem p).toNat)) → ∃ hi, stepStrict mem p len = .err hi) ∧
    (¬ IsControl (seqValue mem p (leadLen (mem p).toNat)) →
      stepStrict mem p len = .ch (leadLen (mem p).toNat) (seqValue mem p (leadLen (mem p).toNat))
        (Width.wcwidth (seqValue mem p (leadLen (mem p).toNat))) (p + leadLen (mem p).toNat)) := by
  have hnz : ∀ i, 1 ≤ i → i < leadLen (mem p).toNat → (mem (p + i)).toNat ≠ 0 := by
    intro i h1 h2 h3
    have := hc i h1 h2
    rw [h3] at this
    simp [isContByte] at this
  have hb : badCont mem p len = false := by
    cases hbc : badCont mem p len with
    | false => rfl
    | true =>
      obtain ⟨_, _, _, _, i, h1, h2, _, h4⟩ := (badCont_iff mem p len).1 hbc
      rw [hc i h1 h2] at h4; cases h4
  have hd := nextUtf8_complete mem p len hn hlt hnz
  obtain ⟨s1, s2⟩ := stepAt_of_ok mem p len hl h0 _ _ _ hd
  unfold stepStrict
  simp only [hb, Bool.false_eq_true, if_false]
  exact ⟨fun h => s1.2 h, s2⟩

theorem stepStrict_single (mem : Mem) (p : Nat) (len : Option Nat)
    (hn : leadLen (mem p).toNat = 0) : stepStrict mem p len = stepAt mem p len := by
  unfold stepStrict
  have hb : badCont mem p len = false := by
    cases hbc : badCont mem p len with
    | false => rfl
    | true => exact absurd hn ((badCont_iff mem p len).1 hbc).2.2.1
  simp [hb]


/-- When do a step of the model and a step of the reference decoder say the same. -/
def StepRel : Step → RefStep → Prop
  | .stop _, .eof => True
  | .err _, .err _ => True
  | .ch n cp w _, .ch c => c = ⟨n, cp, w⟩
  | _, _ => False

theorem stepRel_err {s : Step} {r : RefStep} (hs : ∃ hi, s = .err hi) (hr : ∃ why, r = .err why) : StepRel s r := by
  obtain ⟨hi, rfl⟩ := hs; obtain ⟨why, rfl⟩ := hr; trivial

theorem leadLen_range (b : Nat) :
    (leadLen b = 0 ↔ (b < 0xc0 ∨ 0xf8 ≤ b)) ∧ (leadLen b = 2 ↔ (0xc0 ≤ b ∧ b < 0xe0)) ∧
    (leadLen b = 3 ↔ (0xe0 ≤ b ∧ b < 0xf0)) ∧ (leadLen b = 4 ↔ (0xf0 ≤ b ∧ b < 0xf8)) := by
  unfold leadLen
  (repeat' split) <;> omega

theorem effective_drop (mem : Mem) (str : Nat) (len : Option Nat) (bs : List Nat) (n : Nat)
    (hE : Effective mem str len bs) (hn : n ≤ bs.length) (hl : ∀ l, len = some l → n ≤ l) :
    Effective mem (str + n) (lenDec len n) (bs.drop n) := by
  obtain ⟨h1, h2⟩ := hE
  refine ⟨?_, ?_⟩
  · intro i hi
    simp only [List.length_drop] at hi
    have := h1 (n + i) (by omega)
    rw [List.getD_eq_getElem?_getD, List.getElem?_drop, ← List.getD_eq_getElem?_getD, Nat.add_assoc]
    exact this
  · simp only [List.length_drop]
    rcases h2 with h | ⟨hz, hlt⟩
    · left; subst h; simp only [lenDec, Option.map]
    · right
      refine ⟨by rw [Nat.add_assoc, show n + (bs.length - n) = bs.length by omega]; exact hz, ?_⟩
      intro l hl'
      cases len with
      | none => simp [lenDec] at hl'
      | some l0 =>
        simp only [lenDec, Option.map, Option.some.injEq] at hl'
        have := hlt l0 rfl
        have := hl l0 rfl
        omega

/-- Too few bytes after a lead byte: the reference decoder reports a truncated sequence. -/
theorem refStep_short (w : Nat → Int) (b0 : Nat) (rest : List Nat) (hn : leadLen b0 ≠ 0)
    (hlen : rest.length + 1 < leadLen b0) : ∃ why, refStep w (b0 :: rest) = .err why := by
  obtain ⟨r0, r2, r3, r4⟩ := leadLen_range b0
  rcases leadLen_cases b0 with h | h | h | h
  · exact absurd h hn
  · have hb := r2.1 h
    rw [h] at hlen
    have : rest = [] := by cases rest with | nil => rfl | cons _ _ => simp at hlen; omega
    subst this
    refine ⟨"truncated sequence", ?_⟩
    unfold refStep
    simp only [show ¬ b0 < 0x80 by omega, show ¬ b0 < 0xc0 by omega, show b0 < 0xe0 by omega, if_true, if_false]
  · have hb := r3.1 h
    rw [h] at hlen
    refine ⟨"truncated sequence", ?_⟩
    unfold refStep
    simp only [show ¬ b0 < 0x80 by omega, show ¬ b0 < 0xc0 by omega, show ¬ b0 < 0xe0 by omega,
      show b0 < 0xf0 by omega, if_true, if_false]
    match rest, hlen with
    | [], _ => rfl
    | [_], _ => rfl
    | _ :: _ :: _, hlen => simp at hlen; omega
  · have hb := r4.1 h
    rw [h] at hlen
    refine ⟨"truncated sequence", ?_⟩
    unfold refStep
    simp only [show ¬ b0 < 0x80 by omega, show ¬ b0 < 0xc0 by omega, show ¬ b0 < 0xe0 by omega,
      show ¬ b0 < 0xf0 by omega, show b0 < 0xf8 by omega, if_true, if_false]
    match rest, hlen with
    | [], _ => rfl
    | [_], _ => rfl
    | [_, _], _ => rfl
    | _ :: _ :: _ :: _, hlen => simp at hlen; omega


/-- Enough bytes after a lead byte: the reference decoder checks the continuation bytes and classifies
    the same value the model decodes. -/
theorem refStep_long (w : Nat → Int) (mem : Mem) (str : Nat) (b0 : Nat) (rest : List Nat)
    (hn : leadLen b0 ≠ 0) (hlen : leadLen b0 ≤ rest.length + 1) (hb0 : b0 = (mem str).toNat)
    (hbi : ∀ i, 1 ≤ i → i < leadLen b0 → (b0 :: rest).getD i 0 = (mem (str + i)).toNat) :
    ((∀ i, 1 ≤ i → i < leadLen b0 → isContByte (mem (str + i)).toNat = true) →
      refStep w (b0 :: rest) = refClassify w (leadLen b0) (seqValue mem str (leadLen b0))) ∧
    ((∃ i, 1 ≤ i ∧ i < leadLen b0 ∧ isContByte (mem (str + i)).toNat = false) →
      ∃ why, refStep w (b0 :: rest) = .err why) := by
  obtain ⟨r0, r2, r3, r4⟩ := leadLen_range b0
  rcases leadLen_cases b0 with h | h | h | h
  · exact absurd h hn
  · have hb := r2.1 h
    rw [h] at hlen hbi ⊢
    match rest, hlen, hbi with
    | b1 :: r1, _, hbi =>
      have e1 : b1 = (mem (str + 1)).toNat := by simpa using hbi 1 (by omega) (by omega)
      have hrs : refStep w (b0 :: b1 :: r1) =
          if isCont b1 then refClassify w 2 (b0 % 32 * 64 + b1 % 64) else .err "truncated sequence (bad continuation)" := by
        unfold refStep
        simp only [show ¬ b0 < 0x80 by omega, show ¬ b0 < 0xc0 by omega, show b0 < 0xe0 by omega, if_true, if_false]
      rw [hrs]
      constructor
      · intro hc
        have := hc 1 (by omega) (by omega)
        rw [← e1] at this
        simp only [isCont, this, if_true, seqValue, ← hb0, ← e1]
      · rintro ⟨i, h1, h2, h3⟩
        have : i = 1 := by omega
        subst this
        rw [← e1] at h3
        exact ⟨_, by simp only [isCont, h3]; rfl⟩
  · have hb := r3.1 h
    rw [h] at hlen hbi ⊢
    match rest, hlen, hbi with
    | b1 :: b2 :: r2', _, hbi =>
      have e1 : b1 = (mem (str + 1)).toNat := by simpa using hbi 1 (by omega) (by omega)
      have e2 : b2 = (mem (str + 2)).toNat := by simpa using hbi 2 (by omega) (by omega)
      have hrs : refStep w (b0 :: b1 :: b2 :: r2') =
          if isCont b1 && isCont b2 then refClassify w 3 ((b0 % 16 * 64 + b1 % 64) * 64 + b2 % 64)
          else .err "truncated sequence (bad continuation)" := by
        unfold refStep
        simp only [show ¬ b0 < 0x80 by omega, show ¬ b0 < 0xc0 by omega, show ¬ b0 < 0xe0 by omega,
          show b0 < 0xf0 by omega, if_true, if_false]
      rw [hrs]
      constructor
      · intro hc
        have c1 := hc 1 (by omega) (by omega)
        have c2 := hc 2 (by omega) (by omega)
        rw [← e1] at c1; rw [← e2] at c2
        simp only [isCont, c1, c2, Bool.and_self, if_true, seqValue, ← hb0, ← e1, ← e2]
      · rintro ⟨i, h1, h2, h3⟩
        have : i = 1 ∨ i = 2 := by omega
        rcases this with rfl | rfl
        · rw [← e1] at h3; exact ⟨_, by simp only [isCont, h3, Bool.false_and]; rfl⟩
        · rw [← e2] at h3; exact ⟨_, by simp only [isCont, h3, Bool.and_false]; rfl⟩
  · have hb := r4.1 h
    rw [h] at hlen hbi ⊢
    match rest, hlen, hbi with
    | b1 :: b2 :: b3 :: r3', _, hbi =>
      have e1 : b1 = (mem (str + 1)).toNat := by simpa using hbi 1 (by omega) (by omega)
      have e2 : b2 = (mem (str + 2)).toNat := by simpa using hbi 2 (by omega) (by omega)
      have e3 : b3 = (mem (str + 3)).toNat := by simpa using hbi 3 (by omega) (by omega)
      have hrs : refStep w (b0 :: b1 :: b2 :: b3 :: r3') =
          if isCont b1 && isCont b2 && isCont b3 then
            refClassify w 4 (((b0 % 8 * 64 + b1 % 64) * 64 + b2 % 64) * 64 + b3 % 64)
          else .err "truncated sequence (bad continuation)" := by
        unfold refStep
        simp only [show ¬ b0 < 0x80 by omega, show ¬ b0 < 0xc0 by omega, show ¬ b0 < 0xe0 by omega,
          show ¬ b0 < 0xf0 by omega, show b0 < 0xf8 by omega, if_true, if_false]
      rw [hrs]
      constructor
      · intro hc
        have c1 := hc 1 (by omega) (by omega)
        have c2 := hc 2 (by omega) (by omega)
        have c3 := hc 3 (by omega) (by omega)
        rw [← e1] at c1; rw [← e2] at c2; rw [← e3] at c3
        simp only [isCont, c1, c2, c3, Bool.and_self, if_true, seqValue, ← hb0, ← e1, ← e2, ← e3]
      · rintro ⟨i, h1, h2, h3⟩
        have : i = 1 ∨ i = 2 ∨ i = 3 := by omega
        rcases this with rfl | rfl | rfl
        · rw [← e1] at h3; exact ⟨_, by simp only [isCont, h3, Bool.false_and]; rfl⟩
        · rw [← e2] at h3; exact ⟨_, by simp only [isCont, h3, Bool.and_false, Bool.false_and]; rfl⟩
        · rw [← e3] at h3; exact ⟨_, by simp only [isCont, h3, Bool.and_false]; rfl⟩


/-- One step of the strict scan over memory and one step of the reference decoder over the effective
    bytes agree, and the effective bytes of the rest are the rest of the effective bytes. -/
theorem refStep_stepStrict (mem : Mem) (str : Nat) (len : Option Nat) (bs : List Nat)
    (hE : Effective mem str len bs) :
    StepRel (stepStrict mem str len) (refStep Width.wcwidth bs) ∧
    ∀ n cp w hi, stepStrict mem str len = .ch n cp w hi →
      0 < n ∧ n ≤ bs.length ∧ Effective mem (str + n) (lenDec len n) (bs.drop n) := by
  cases bs with
  | nil =>
    obtain ⟨_, h2⟩ := hE
    have hstop : ∃ hi, stepStrict mem str len = .stop hi := by
      rcases h2 with h | ⟨hz, _⟩
      · simp only [List.length_nil] at h
        exact ⟨0, by unfold stepStrict badCont stepAt; simp [h]⟩
      · simp only [List.length_nil, Nat.add_zero] at hz
        by_cases hl : len = some 0
        · exact ⟨0, by unfold stepStrict badCont stepAt; simp [hl]⟩
        · exact ⟨str + 1, by unfold stepStrict badCont stepAt; simp [hl, hz]⟩
    obtain ⟨hi, hs⟩ := hstop
    rw [hs]
    exact ⟨trivial, fun _ _ _ _ h => nomatch h⟩
  | cons b0 rest =>
    have hb0' := hE.1 0 (by simp)
    simp only [List.getD_cons_zero, Nat.add_zero] at hb0'
    obtain ⟨hb0, h0⟩ := hb0'
    have hbound : ∀ l, len = some l → rest.length + 1 ≤ l := by
      intro l hl
      rcases hE.2 with h | ⟨_, h⟩
      · rw [hl] at h; simp only [List.length_cons, Option.some.injEq] at h; omega
      · have := h l hl; simp only [List.length_cons] at this; omega
    have hl : len ≠ some 0 := by intro h; have := hbound 0 h; omega
    by_cases hN : leadLen b0 = 0
    · -- one byte, or an invalid lead byte
      have hN' : leadLen (mem str).toNat = 0 := by rw [← hb0]; exact hN
      rw [stepStrict_single mem str len hN']
      by_cases ha : b0 < 0x80
      · have hd := nextUtf8_ascii mem str len hl h0 (by rw [← hb0]; exact ha)
        obtain ⟨s1, s2⟩ := stepAt_of_ok mem str len hl h0 _ _ _ hd
        rw [← hb0] at s1 s2
        have hrs : refStep Width.wcwidth (b0 :: rest) = refClassify Width.wcwidth 1 b0 := by
          unfold refStep; simp only [ha, if_true]
        rw [hrs]
        by_cases hc : IsControl b0
        · obtain ⟨hi, he⟩ := s1.2 hc
          rw [he]
          exact ⟨stepRel_err ⟨hi, rfl⟩ ((refClassify_spec 1 b0).1 hc), fun _ _ _ _ h => nomatch h⟩
        · rw [s2 hc, (refClassify_spec 1 b0).2 hc]
          refine ⟨rfl, ?_⟩
          intro n cp w hi h
          injection h with h1 _ _ _
          subst h1
          exact ⟨by omega, by simp, effective_drop mem str len _ 1 hE (by simp) (fun l hl' => by have := hbound l hl'; omega)⟩
      · have herr : ∃ hi, stepAt mem str len = .err hi :=
          (stepAt_err_iff mem str len).2 ⟨hl, h0, Or.inr (Or.inl ⟨by rw [← hb0]; omega, hN'⟩)⟩
        obtain ⟨hi, he⟩ := herr
        rw [he]
        refine ⟨stepRel_err ⟨hi, rfl⟩ ?_, fun _ _ _ _ h => nomatch h⟩
        have hr := (leadLen_range b0).1.1 hN
        unfold refStep
        rcases hr with hr | hr
        · exact ⟨"invalid lead byte (continuation or C1 byte)", by simp only [ha, show b0 < 0xc0 from hr, if_true, if_false]⟩
        · exact ⟨"invalid lead byte (>= 0xf8)", by simp only [ha, show ¬ b0 < 0xc0 by omega, show ¬ b0 < 0xe0 by omega,
            show ¬ b0 < 0xf0 by omega, show ¬ b0 < 0xf8 by omega, if_false]⟩
    · -- a lead byte announcing `leadLen b0` bytes
      have hN' : leadLen (mem str).toNat ≠ 0 := by rw [← hb0]; exact hN
      by_cases hshort : rest.length + 1 < leadLen b0
      · have hserr : ∃ hi, stepStrict mem str len = .err hi := by
          by_cases hlt : lenLt len (leadLen (mem str).toNat) = true
          · exact stepStrict_short mem str len hl h0 hN' hlt
          · have hlt' : lenLt len (leadLen (mem str).toNat) = false := by simpa using hlt
            apply stepStrict_nul mem str len hl h0 hN'
            refine ⟨rest.length + 1, by omega, by rw [← hb0]; exact hshort, ?_⟩
            rcases hE.2 with h | ⟨hz, _⟩
            · exfalso
              rw [h, ← hb0] at hlt'
              simp only [lenLt, List.length_cons, decide_eq_false_iff_not] at hlt'
              omega
            · simpa using hz
        obtain ⟨hi, he⟩ := hserr
        rw [he]
        exact ⟨stepRel_err ⟨hi, rfl⟩ (refStep_short _ b0 rest hN hshort), fun _ _ _ _ h => nomatch h⟩
      · have hlong : leadLen b0 ≤ rest.length + 1 := by omega
        have hlt : lenLt len (leadLen (mem str).toNat) = false := by
          rw [← hb0]
          cases hlen : len with
          | none => rfl
          | some l => have := hbound l hlen; simp only [lenLt, decide_eq_false_iff_not]; omega
        have hbi : ∀ i, 1 ≤ i → i < leadLen b0 → (b0 :: rest).getD i 0 = (mem (str + i)).toNat :=
          fun i _ h2 => (hE.1 i (by simp only [List.length_cons]; omega)).1
        obtain ⟨l1, l2⟩ := refStep_long Width.wcwidth mem str b0 rest hN hlong hb0 hbi
        by_cases hc : ∀ i, 1 ≤ i → i < leadLen b0 → isContByte (mem (str + i)).toNat = true
        · obtain ⟨g1, g2⟩ := stepStrict_good mem str len hl h0 hN' hlt (by rw [← hb0]; exact hc)
          rw [← hb0] at g1 g2
          rw [l1 hc]
          by_cases hctl : IsControl (seqValue mem str (leadLen b0))
          · obtain ⟨hi, he⟩ := g1 hctl
            rw [he]
            exact ⟨stepRel_err ⟨hi, rfl⟩ ((refClassify_spec _ _).1 hctl), fun _ _ _ _ h => nomatch h⟩
          · rw [g2 hctl, (refClassify_spec _ _).2 hctl]
            refine ⟨rfl, ?_⟩
            intro n cp w hi h
            injection h with h1 _ _ _
            subst h1
            have hpos : 0 < leadLen b0 := Nat.pos_of_ne_zero hN
            refine ⟨hpos, by simp only [List.length_cons]; omega, ?_⟩
            apply effective_drop mem str len _ _ hE (by simp only [List.length_cons]; omega)
            intro l hl'
            have := hbound l hl'; omega
        · have hbad : ∃ i, 1 ≤ i ∧ i < leadLen b0 ∧ isContByte (mem (str + i)).toNat = false := by
            apply Classical.byContradiction
            intro hne
            apply hc
            intro i h1 h2
            cases hcb : isContByte (mem (str + i)).toNat with
            | true => rfl
            | false => exact absurd ⟨i, h1, h2, hcb⟩ hne
          have hserr : ∃ hi, stepStrict mem str len = .err hi := by
            apply stepStrict_bad mem str len hl h0 hN' hlt
            obtain ⟨i, h1, h2, h3⟩ := hbad
            exact ⟨i, h1, by rw [← hb0]; exact h2, (hE.1 i (by simp only [List.length_cons]; omega)).2, h3⟩
          obtain ⟨hi, he⟩ := hserr
          rw [he]
          exact ⟨stepRel_err ⟨hi, rfl⟩ (l2 hbad), fun _ _ _ _ h => nomatch h⟩

/-- **The runtime oracle's decoder is the strict scan**: on the effective bytes of the input, `refScan`
    finds the characters and the ending that `scanStrict` finds over memory. -/
theorem refScan_eq_scanStrict (mem : Mem) : ∀ (fuel str : Nat) (len : Option Nat) (bs : List Nat)
    (cs : List Ch) (t : Tail), Effective mem str len bs →
    scanStrict mem fuel str len = some (cs, t) →
    ∀ rfuel, bs.length < rfuel →
      (refScan Width.wcwidth rfuel bs).1 = cs ∧ (refScan Width.wcwidth rfuel bs).2.1 = t := by
  intro fuel
  induction fuel with
  | zero => intro str len bs cs t _ h; simp [scanStrict] at h
  | succ f ih =>
    intro str len bs cs t hE h rfuel hrf
    obtain ⟨hrel, hch⟩ := refStep_stepStrict mem str len bs hE
    cases rfuel with
    | zero => omega
    | succ rf =>
      rw [scanStrict] at h
      rw [refScan]
      cases hst : stepStrict mem str len with
      | stop hi =>
        rw [hst] at h hrel
        injection h with h; injection h with h1 h2; subst h1; subst h2
        cases hr : refStep Width.wcwidth bs with
        | eof => simp
        | err why => rw [hr] at hrel; exact absurd hrel (by simp [StepRel])
        | ch c => rw [hr] at hrel; exact absurd hrel (by simp [StepRel])
      | err hi =>
        rw [hst] at h hrel
        injection h with h; injection h with h1 h2; subst h1; subst h2
        cases hr : refStep Width.wcwidth bs with
        | eof => rw [hr] at hrel; exact absurd hrel (by simp [StepRel])
        | err why => simp
        | ch c => rw [hr] at hrel; exact absurd hrel (by simp [StepRel])
      | ch n cp w hi =>
        rw [hst] at h hrel
        obtain ⟨hpos, hnl, hE'⟩ := hch n cp w hi hst
        simp only at h
        cases hsc : scanStrict mem f (str + n) (lenDec len n) with
        | none => rw [hsc] at h; cases h
        | some x =>
          obtain ⟨cs', t'⟩ := x
          rw [hsc] at h
          injection h with h; injection h with h1 h2; subst h1; subst h2
          cases hr : refStep Width.wcwidth bs with
          | eof => rw [hr] at hrel; exact absurd hrel (by simp [StepRel])
          | err why => rw [hr] at hrel; exact absurd hrel (by simp [StepRel])
          | ch c =>
            rw [hr] at hrel
            simp only [StepRel] at hrel
            subst hrel
            simp only
            obtain ⟨i1, i2⟩ := ih (str + n) (lenDec len n) (bs.drop n) cs' t' hE' hsc rf
              (by simp only [List.length_drop]; omega)
            rw [← i1, ← i2]
            simp


/-! ### the oracle's input: the effective bytes of a buffer -/

theorem takeWhile_nz_spec : ∀ (l : List Nat),
    (∀ i, i < (l.takeWhile (· != 0)).length →
      (l.takeWhile (· != 0)).getD i 0 = l.getD i 0 ∧ l.getD i 0 ≠ 0) ∧
    (l.any (· == 0) = true → (l.takeWhile (· != 0)).length < l.length ∧
      l.getD (l.takeWhile (· != 0)).length 0 = 0) ∧
    (l.any (· == 0) = false → l.takeWhile (· != 0) = l) := by
  intro l
  induction l with
  | nil => simp
  | cons x xs ih =>
    obtain ⟨ih1, ih2, ih3⟩ := ih
    by_cases hx : x = 0
    · subst hx
      simp
    · have hx' : (x != 0) = true := by simpa using hx
      have hx'' : (x == 0) = false := by simpa using hx
      simp only [List.takeWhile_cons, hx', if_true, List.length_cons, List.any_cons, hx'', Bool.false_or]
      refine ⟨?_, ?_, ?_⟩
      · intro i hi
        cases i with
        | zero => simpa using hx
        | succ j => simpa using ih1 j (by omega)
      · intro h
        obtain ⟨a, b⟩ := ih2 h
        exact ⟨by omega, by simpa using b⟩
      · intro h; rw [ih3 h]

theorem bytes_getD (a : Array UInt8) (start i : Nat) :
    ((a.toList.map (·.toNat)).drop start).getD i 0 = (memOfArray a (start + i)).toNat := by
  unfold memOfArray
  rw [List.getD_eq_getElem?_getD, List.getElem?_drop, List.getElem?_map]
  by_cases h : start + i < a.size
  · simp [h, Array.getD]
  · simp [h, Array.getD]

theorem effectiveOf_sound (a : Array UInt8) (len : Option Nat) (start : Nat) (bs : List Nat)
    (h : effectiveOf a len start = some bs) :
    Effective (memOfArray a) start (lenSub len start) bs := by
  unfold effectiveOf at h
  generalize hb0 : (a.toList.map (·.toNat)).drop start = bs0 at h
  have hget : ∀ i, bs0.getD i 0 = (memOfArray a (start + i)).toNat := by
    intro i; rw [← hb0]; exact bytes_getD a start i
  cases len with
  | none =>
    simp only at h
    split at h
    · rename_i hc
      injection h with h
      subst h
      obtain ⟨t1, t2, _⟩ := takeWhile_nz_spec bs0
      refine ⟨?_, Or.inr ⟨?_, fun l hl => by simp [lenSub] at hl⟩⟩
      · intro i hi
        obtain ⟨e1, e2⟩ := t1 i hi
        rw [e1, hget i] at *
        exact ⟨rfl, e2⟩
      · obtain ⟨_, z⟩ := t2 hc.2
        rw [← hget]; exact z
    · cases h
  | some l =>
    simp only at h
    split at h
    · cases h
    · rename_i hsl
      have hsl' : start ≤ l := by omega
      have hls : lenSub (some l) start = some (l - start) := by simp [lenSub, hsl']
      rw [hls]
      have hwin : ∀ i, i < (bs0.take (l - start)).length → (bs0.take (l - start)).getD i 0 = bs0.getD i 0 := by
        intro i hi
        simp only [List.length_take] at hi
        rw [List.getD_eq_getElem?_getD, List.getElem?_take, if_pos (by omega), ← List.getD_eq_getElem?_getD]
      split at h
      · rename_i hany
        injection h with h
        subst h
        obtain ⟨t1, t2, _⟩ := takeWhile_nz_spec (bs0.take (l - start))
        obtain ⟨z1, z2⟩ := t2 hany
        refine ⟨?_, Or.inr ⟨?_, ?_⟩⟩
        · intro i hi
          obtain ⟨e1, e2⟩ := t1 i hi
          rw [hwin i (by omega)] at e1 e2
          rw [e1, hget i] at *
          exact ⟨rfl, e2⟩
        · rw [hwin _ z1, hget] at z2; exact z2
        · intro l' hl'
          injection hl' with hl'
          subst hl'
          have : (bs0.take (l - start)).length ≤ l - start := by simp [List.length_take]; omega
          omega
      · rename_i hnone
        split at h
        · rename_i hla
          injection h with h
          subst h
          have hany : (bs0.take (l - start)).any (· == 0) = false := Bool.eq_false_iff.mpr hnone
          obtain ⟨t1, _, t3⟩ := takeWhile_nz_spec (bs0.take (l - start))
          have hlen : (bs0.take (l - start)).length = l - start := by
            rw [List.length_take, ← hb0]
            simp only [List.length_drop, List.length_map, Array.length_toList]
            omega
          refine ⟨?_, Or.inl (by rw [hlen])⟩
          intro i hi
          rw [t3 hany] at t1
          obtain ⟨_, e2⟩ := t1 i hi
          rw [hwin i hi] at e2 ⊢
          rw [hget i] at *
          exact ⟨rfl, e2⟩
        · cases h

end Utf8
end Tickit
