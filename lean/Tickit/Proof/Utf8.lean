import Tickit.Model.Utf8
namespace Tickit
namespace Utf8
end Utf8
end Tickit
