import Tickit.Proof.EvLoopLog
import Tickit.Model.EvLoopFb
/-
  The self-pipe configuration (Model/EvLoopFb.lean): the lemma family of Proof/EvLoopSig.lean (`G2`, `SigStep`: what
  any step does to the list of signal watches) for the functions that configuration restates.  The relations, the
  lemmas about the shared functions and the theorems about the shared loop `sigSnapLoopG` are those of
  Proof/EvLoopSig.lean; the proofs of the restated mid-level functions are the same compositions, the differing leaves
  (`raiseSig`, `ensurePipe`, `installHandler`, `unwatchSignal`, `ppoll`, `onSigpipeReadable`, `ioCb`) are written out.
-/
namespace Tickit.EvLoop.Fb
open Tickit.EvLoop

theorem g2_sigRecord (st : St) (s : Int) : G2 st (sigRecord st s) := by
  unfold sigRecord
  split
  · exact G2.of_eq rfl rfl
  · exact G2.refl _

theorem g2_raiseSig (st : St) (s : Int) : G2 st (raiseSig st s) := by
  unfold raiseSig
  split
  · exact G2.refl st
  · split
    · exact g2_sigRecord _ _
    · split
      · exact G2.of_eq rfl rfl
      · exact G2.refl st

theorem g2_ensurePipe (st : St) : G2 st (ensurePipe st) := by
  unfold ensurePipe
  split
  · exact G2.refl _
  · exact ((G2.of_eq rfl rfl : G2 st { st with pipesMade := st.pipesMade + 1, pipeBytes := 0 }).trans
      (g2_watchIo _ _ _ _ _)).trans (G2.of_eq rfl rfl)

theorem g2_installHandler (st : St) (signum : Int) : G2 st (installHandler st signum) := by
  unfold installHandler
  split
  · exact G2.refl _
  · exact G2.of_eq rfl rfl

theorem g2_unwatchSignal (st : St) (signum : Int) : G2 st (unwatchSignal st signum) := by
  unfold unwatchSignal
  split
  · exact g2_fail _ _
  · split
    · exact G2.refl _
    · exact G2.of_eq rfl rfl

theorem g2_cancelHook (st : St) (w : Watch) : G2 st (cancelHook st w) := by
  unfold cancelHook
  split
  · exact g2_evloopCancelIo _ _
  · exact g2_unwatchSignal _ _
  · exact G2.refl _

/-- Registering a signal watch: the new address goes to the front (BIND_FIRST) or to the back. -/
theorem step_watchSignal (st : St) (signum : Int) (flags : Nat) (slot : Int) :
    SigStep st (watchSignal st signum flags slot).1 := by
  intro i
  unfold watchSignal
  simp only []
  have g : G2 st (installHandler (ensurePipe (st.alloc { type := .signal, flags := flags &&& (BIND_UNBIND ||| BIND_DESTROY), slot := slot, signum := signum }).1) signum) :=
    ((g2_alloc st _).trans (g2_ensurePipe _)).trans (g2_installHandler _ _)
  have hlen : st.heap.length < (installHandler (ensurePipe (st.alloc { type := .signal, flags := flags &&& (BIND_UNBIND ||| BIND_DESTROY), slot := slot, signum := signum }).1) signum).heap.length := by
    have h1 := alloc_len st { type := .signal, flags := flags &&& (BIND_UNBIND ||| BIND_DESTROY), slot := slot, signum := signum }
    have h2 := ((g2_ensurePipe (st.alloc { type := .signal, flags := flags &&& (BIND_UNBIND ||| BIND_DESTROY), slot := slot, signum := signum }).1).trans (g2_installHandler _ signum)).ext.len
    omega
  generalize installHandler (ensurePipe (st.alloc { type := .signal, flags := flags &&& (BIND_UNBIND ||| BIND_DESTROY), slot := slot, signum := signum }).1) signum = s1 at g hlen ⊢
  have hnew : st.heap.length ∉ st.signals := fun h => Nat.lt_irrefl _ (i.alloc _ h)
  have gi := g2_insertWatch s1 s1.signals flags st.heap.length
  have hext : HExt2 st (insertWatch s1 s1.signals flags st.heap.length).1 := g.ext.trans gi.ext
  have hlist : (insertWatch s1 s1.signals flags st.heap.length).2 = st.heap.length :: st.signals ∨
      (insertWatch s1 s1.signals flags st.heap.length).2 = st.signals ++ [st.heap.length] ∨
      (insertWatch s1 s1.signals flags st.heap.length).2 = st.signals := by
    unfold insertWatch
    rw [g.sigs]
    split
    · exact Or.inl rfl
    · split
      · exact Or.inr (Or.inl rfl)
      · exact Or.inr (Or.inr rfl)
  have hlen2 : s1.heap.length ≤ (insertWatch s1 s1.signals flags st.heap.length).1.heap.length := gi.ext.len
  generalize (insertWatch s1 s1.signals flags st.heap.length).2 = l' at hlist ⊢
  generalize (insertWatch s1 s1.signals flags st.heap.length).1 = s2 at hext hlen2 ⊢
  show SigFacts st { s2 with signals := l' }
  have hext' : HExt2 st { s2 with signals := l' } := hext.trans (HExt2.of_heap_eq rfl)
  rcases hlist with h | h | h
  · subst h
    refine ⟨⟨List.nodup_cons.mpr ⟨hnew, i.nodup⟩, ?_⟩, hext', ?_, ?_, ?_⟩
    · intro x hx
      show x < s2.heap.length
      simp only [List.mem_cons] at hx
      cases hx with
      | inl h => omega
      | inr h => have := i.alloc x h; omega
    · intro x hx
      simp only [List.mem_cons] at hx
      cases hx with
      | inl h => exact Or.inr (by omega)
      | inr h => exact Or.inl h
    · intro x hx; exact Or.inl (List.mem_cons_of_mem _ hx)
    · intro a b ha _ _ hab
      have : st.heap.length ≠ a := fun h => hnew (h ▸ ha)
      exact mem_aft_cons_new a b _ _ this hab
  · subst h
    refine ⟨⟨?_, ?_⟩, hext', ?_, ?_, ?_⟩
    · rw [List.nodup_append]
      refine ⟨i.nodup, by simp, ?_⟩
      intro x hx y hy
      simp only [List.mem_singleton] at hy
      subst hy
      intro h; subst h; exact hnew hx
    · intro x hx
      show x < s2.heap.length
      simp only [List.mem_append, List.mem_singleton] at hx
      cases hx with
      | inl h => have := i.alloc x h; omega
      | inr h => omega
    · intro x hx
      simp only [List.mem_append, List.mem_singleton] at hx
      cases hx with
      | inl h => exact Or.inl h
      | inr h => exact Or.inr (by omega)
    · intro x hx; exact Or.inl (List.mem_append_left _ hx)
    · intro a b _ _ _ hab
      exact mem_aft_append a b _ _ hab
  · subst h
    refine ⟨⟨i.nodup, fun x hx => by show x < s2.heap.length; have := i.alloc x hx; omega⟩, hext', ?_, ?_, ?_⟩
    · intro x hx; exact Or.inl hx
    · intro x hx; exact Or.inl hx
    · intro a b _ _ _ h; exact h

/-- `tickit_watch_cancel` once the watch is found: it leaves its list and is freed. -/
theorem step_cancelFound (st : St) (a : Nat) (w : Watch) (l : List Nat) (hl : l = listOf st w.type) (ha : a ∈ l) :
    SigStep st (cancelFound st a w l) := by
  unfold cancelFound
  by_cases ht : w.type = .signal
  · intro i
    rw [ht] at hl ⊢
    have hl' : l = st.signals := hl
    subst hl'
    -- heap: only the tail of the composition matters
    have g : G2 { st with signals := st.signals.erase a }
        (cancelRest ((cancelHook (cancelNotify { st with signals := st.signals.erase a } a w) w).free a)
          (List.drop 1 (List.dropWhile (fun x => decide (x ≠ a)) st.signals))) :=
      (((g2_cancelNotify _ a w).trans (g2_cancelHook _ _)).trans (g2_free _ a)).trans (g2_cancelRest _ _)
    show SigFacts st (cancelRest ((cancelHook (cancelNotify { st with signals := st.signals.erase a } a w) w).free a)
          (List.drop 1 (List.dropWhile (fun x => decide (x ≠ a)) st.signals)))
    have halt : a < st.heap.length := i.alloc a ha
    have hdead : (cancelRest ((cancelHook (cancelNotify { st with signals := st.signals.erase a } a w) w).free a)
          (List.drop 1 (List.dropWhile (fun x => decide (x ≠ a)) st.signals))).live a = false := by
      have h1 : ((cancelHook (cancelNotify { st with signals := st.signals.erase a } a w) w).free a).live a = false :=
        live_free_false _ a
      have hlt : a < ((cancelHook (cancelNotify { st with signals := st.signals.erase a } a w) w).free a).heap.length :=
        Nat.lt_of_lt_of_le halt (((g2_cancelNotify { st with signals := st.signals.erase a } a w).trans (g2_cancelHook _ _)).trans (g2_free _ a)).ext.len
      exact (g2_cancelRest _ _).ext.dead a hlt h1
    generalize (cancelRest ((cancelHook (cancelNotify { st with signals := st.signals.erase a } a w) w).free a)
          (List.drop 1 (List.dropWhile (fun x => decide (x ≠ a)) st.signals))) = s' at g hdead ⊢
    have hs : s'.signals = st.signals.erase a := g.sigs
    have hext : HExt2 st s' := (HExt2.of_heap_eq rfl : HExt2 st { st with signals := st.signals.erase a }).trans g.ext
    have hne : ∀ x, x ∈ st.signals.erase a → x ≠ a := by
      intro x hx h; subst h
      exact (List.Nodup.mem_erase_iff i.nodup).mp hx |>.1 rfl
    refine ⟨⟨by rw [hs]; exact i.nodup.sublist List.erase_sublist, ?_⟩, hext, ?_, ?_, ?_⟩
    · intro x hx; rw [hs] at hx
      exact Nat.lt_of_lt_of_le (i.alloc x (List.erase_sublist.subset hx)) hext.len
    · intro x hx; rw [hs] at hx; exact Or.inl (List.erase_sublist.subset hx)
    · intro x hx
      by_cases hxa : x = a
      · subst hxa; exact Or.inr hdead
      · left; rw [hs]; exact (List.mem_erase_of_ne hxa).mpr hx
    · intro x y _ hx' hy' hxy
      rw [hs] at hx' hy' ⊢
      exact mem_aft_erase x y a (Ne.symm (hne x hx')) (Ne.symm (hne y hy')) _ hxy
  · exact (((((g2_setListOf_ne st w.type _ ht).trans (g2_cancelNotify _ a w)).trans (g2_cancelHook _ _)).trans (g2_free _ a)).trans
      (g2_cancelRest _ _)).step

theorem step_watchCancel0 (st : St) (a : Nat) : SigStep st (watchCancel0 st a) := by
  unfold watchCancel0
  split
  · exact SigStep.refl st
  · split
    · exact (g2_fail st _).step
    · split
      · exact SigStep.refl st
      · split
        · exact (g2_fail st _).step
        · split
          · split
            · exact (g2_cancelDetached st a).step
            · exact SigStep.refl st
          · rename_i hc
            have : a ∈ listOf st (st.getW a).type := by
              simpa using hc
            exact step_cancelFound st a _ _ rfl this

theorem step_watchCancel (st : St) (a : Nat) : SigStep st (watchCancel st a) := by
  unfold watchCancel
  split
  · split
    · exact (step_watchCancel0 st a).trans (step_watchCancel0 _ _)
    · exact step_watchCancel0 st a
  · exact step_watchCancel0 st a

theorem step_doCancel (st : St) (k : Int) : SigStep st (doCancel st k) := by
  unfold doCancel
  split
  · exact (g2_emit _ _).step
  · exact (g2_with_cancelReq _ _).step.trans (step_watchCancel _ _)

theorem step_ensureSigchld (st : St) : SigStep st (ensureSigchld st) := by
  unfold ensureSigchld
  split
  · exact SigStep.refl _
  · exact (step_watchSignal _ _ _ _).trans (g2_with_sigchldwatch _ _).step

theorem step_watchProcess (st : St) (pid : Int) (flags : Nat) (slot : Int) : SigStep st (watchProcess st pid flags slot).1 := by
  unfold watchProcess
  exact ((g2_alloc st _).step.trans (step_ensureSigchld _)).trans (g2_linkProcess _ _ _ _).step

/-- Everything a callback can do respects the list of signal watches. -/
theorem step_runAct (st : St) (act : Act) : SigStep st (runAct st act) := by
  unfold runAct
  split
  · exact SigStep.refl _
  · split
    · split
      · exact step_doRegister _ _ _ (fun s => (g2_watchTimerAfterMsec s _ _ _).step)
      · exact SigStep.refl _
    · split
      · exact step_doRegister _ _ _ (fun s => (g2_watchTimerAt s _ _ _).step)
      · exact SigStep.refl _
    · exact step_doRegister _ _ _ (fun s => (g2_watchLater s _ _ _).step)
    · exact step_doRegister _ _ _ (fun s => (g2_watchIo s _ _ _ _).step)
    · split
      · exact step_doRegister _ _ _ (fun s => step_watchSignal s _ _ _)
      · exact SigStep.refl _
    · split
      · exact step_doRegister _ _ _ (fun s => step_watchProcess s _ _ _)
      · exact SigStep.refl _
    · exact step_doCancel _ _
    · exact (g2_with_errno _ _).step
    · split
      · exact (g2_raiseSig _ _).step
      · exact SigStep.refl _
    · split
      · split
        · exact SigStep.refl _
        · exact (g2_with_children _ _).step
      · exact SigStep.refl _
    · exact (g2_with_stillRunning _ _).step
    · exact SigStep.refl _

theorem step_runActs (acts : List Act) : ∀ st : St,
    SigStep st (acts.foldl (fun st act => if st.isOk then runAct (st.emit .a) act else st) st) := by
  induction acts with
  | nil => intro st; exact SigStep.refl st
  | cons a rest ih =>
    intro st
    simp only [List.foldl_cons]
    refine SigStep.trans ?_ (ih _)
    split
    · exact (g2_emit _ _).step.trans (step_runAct _ _)
    · exact SigStep.refl _

theorem step_fireUser (st : St) (k : Int) (flags : Nat) (info : Info) : SigStep st (fireUser st k flags info) := by
  unfold fireUser
  simp only []
  split
  · exact (g2_emit _ _).step
  · split
    · exact (g2_emit _ _).step.trans (g2_with_slots _ _).step
    · exact ((g2_emit _ _).step.trans (g2_with_slots _ _).step).trans (step_runActs _ _)

theorem step_fireIf (st : St) (c : Prop) [Decidable c] (k : Int) (flags : Nat) (info : Info) :
    SigStep st (if c then fireUser st k flags info else st) := by
  split
  · exact step_fireUser _ _ _ _
  · exact SigStep.refl _

theorem step_invokeWatch (st : St) (a : Nat) (flags : Nat) (info : Info) : SigStep st (invokeWatch st a flags info) := by
  unfold invokeWatch
  have hf := step_fireIf st ((st.getW a).slot ≥ 0) (st.getW a).slot flags info
  generalize (if (st.getW a).slot ≥ 0 then fireUser st (st.getW a).slot flags info else st) = s1 at hf ⊢
  split
  · exact SigStep.refl _
  · split
    · exact (g2_fail _ _).step
    · split
      · exact hf
      · split
        · exact hf.trans (g2_unlinkOneshotSaved _ a _).step
        · exact hf.trans (g2_unlinkOneshot _ a).step

theorem step_procStep (st : St) (a : Nat) : SigStep st (procStep st a) := by
  unfold procStep
  split
  · exact (g2_waitpidV _ _).step
  · exact (g2_waitpidV _ _).step.trans (step_invokeWatch _ _ _ _)

theorem step_onSigchld (fuel : Nat) : ∀ (st : St) (this : Option Nat), SigStep st (onSigchld fuel st this) := by
  induction fuel with
  | zero => intro st this; unfold onSigchld; exact step_outOfFuel st
  | succ n ih =>
    intro st this
    unfold onSigchld
    split
    · exact SigStep.refl _
    · split
      · exact SigStep.refl _
      · split
        · exact (g2_fail _ _).step
        · exact (step_procStep _ _).trans (ih _ _)

theorem step_procSnapLoop (l : List Nat) : ∀ st : St, SigStep st (procSnapLoop st l) := by
  induction l with
  | nil => intro st; exact SigStep.refl st
  | cons a rest ih =>
    intro st
    unfold procSnapLoop
    split
    · exact SigStep.refl _
    · split
      · exact (g2_fail _ _).step
      · split
        · exact ih _
        · split
          · exact (g2_fail _ _).step
          · exact (step_procStep _ _).trans (ih _)

theorem step_onSigchldAny (fuel : Nat) (st : St) : SigStep st (onSigchldAny fuel st) := by
  unfold onSigchldAny
  split
  · split
    · exact (g2_fail _ _).step
    · exact step_procSnapLoop _ _
  · exact step_onSigchld _ _ _

/-- The callback of a signal watch (the harness's, `on_sigchld`, or `on_sigwinch`). -/
theorem step_sigCb (fuel : Nat) (st : St) (a : Nat) (s : Int) : SigStep st (sigCb fuel st a s) := by
  unfold sigCb
  split
  · split
    · exact step_fireUser _ _ _ _
    · split
      · exact step_onSigchldAny _ _
      · split
        · exact (g2_with_stillRunning _ _).step
        · exact SigStep.refl _
  · exact SigStep.refl _

theorem step_sigwatchLoopT (fuel : Nat) : ∀ (st : St) (s : Int) (this : Option Nat), SigStep st (sigwatchLoopT fuel st s this).1 := by
  induction fuel with
  | zero => intro st s this; unfold sigwatchLoopT; exact step_outOfFuel st
  | succ n ih =>
    intro st s this
    unfold sigwatchLoopT
    split
    · exact SigStep.refl _
    · split
      · exact SigStep.refl _
      · split
        · exact (g2_fail _ _).step
        · split
          · exact step_sigCb _ _ _ _
          · split
            · exact (step_sigCb _ _ _ _).trans (g2_fail _ _).step
            · exact (step_sigCb _ _ _ _).trans (ih _ _ _)

theorem step_processNotify (st : St) (a : Nat) : SigStep st (processNotify st a) := by
  unfold processNotify
  split
  · exact (g2_fail _ _).step
  · exact (g2_clearNotify _ _).step.trans (step_invokeWatch _ _ _ _)

theorem step_laterCb (st : St) (a : Nat) : SigStep st (laterCb st a) := by
  unfold laterCb
  split
  · exact step_fireUser _ _ _ _
  · split
    · exact step_processNotify _ _
    · exact SigStep.refl _

theorem step_laterLoop (l : List Nat) : ∀ st : St, SigStep st (laterLoop st l) := by
  induction l with
  | nil => intro st; exact SigStep.refl st
  | cons a rest ih =>
    intro st
    unfold laterLoop
    split
    · exact SigStep.refl _
    · split
      · exact (g2_fail _ _).step
      · split
        · exact (g2_free _ a).step.trans (ih _)
        · split
          · exact (g2_laterPre st a).step.trans (step_laterCb _ a)
          · split
            · exact ((g2_laterPre st a).step.trans (step_laterCb _ a)).trans (g2_fail _ _).step
            · exact (((g2_laterPre st a).step.trans (step_laterCb _ a)).trans (g2_free _ a).step).trans (ih _)

theorem step_timerLoop (fuel : Nat) : ∀ (st : St) (now : TV) (this : Option Nat), SigStep st (timerLoop fuel st now this).1 := by
  induction fuel with
  | zero => intro st now this; unfold timerLoop; exact step_outOfFuel st
  | succ n ih =>
    intro st now this
    unfold timerLoop
    split
    · exact SigStep.refl _
    · split
      · exact SigStep.refl _
      · rename_i a
        split
        · exact (g2_fail _ _).step
        · split
          · exact SigStep.refl _
          · split
            · exact step_fireUser _ _ _ _
            · split
              · exact (step_fireUser _ _ _ _).trans (g2_fail _ _).step
              · exact ((step_fireUser _ _ _ _).trans (g2_free _ a).step).trans (ih _ _ _)

theorem step_timerLoopPop (fuel : Nat) : ∀ (st : St) (now : TV), SigStep st (timerLoopPop fuel st now) := by
  induction fuel with
  | zero => intro st now; unfold timerLoopPop; exact step_outOfFuel st
  | succ n ih =>
    intro st now
    unfold timerLoopPop
    split
    · exact SigStep.refl _
    · split
      · exact SigStep.refl _
      · rename_i a rest hq
        split
        · exact (g2_fail _ _).step
        · split
          · exact SigStep.refl _
          · have h1 := (g2_with_timers st rest).step.trans (step_fireUser { st with timers := rest } (st.getW a).slot (EV_FIRE ||| EV_UNBIND) .none)
            split
            · exact h1
            · split
              · exact h1.trans (g2_fail _ _).step
              · exact (h1.trans (g2_free _ a).step).trans (ih _ _)

theorem step_timerPhaseShipped (fuel : Nat) (st : St) (now : TV) : SigStep st (timerPhaseShipped fuel st now) := by
  unfold timerPhaseShipped
  split
  · exact (step_timerLoop _ _ _ _).trans (g2_with_timers _ _).step
  · exact step_timerLoop _ _ _ _

theorem step_timerPhase (fuel : Nat) (st : St) : SigStep st (timerPhase fuel st) := by
  unfold timerPhase
  split
  · exact SigStep.refl _
  · split
    · exact (g2_emit _ _).step.trans (step_timerLoopPop _ _ _)
    · exact (g2_emit _ _).step.trans (step_timerPhaseShipped _ _ _)

theorem step_invokeTimers (fuel : Nat) (st : St) : SigStep st (invokeTimers fuel st) := by
  unfold invokeTimers
  split
  · exact SigStep.refl _
  · exact ((g2_with_laters st []).step.trans (step_timerPhase _ _)).trans (step_laterLoop _ _)

theorem step_sigSnapLoopT (fuel : Nat) (s : Int) (l : List Nat) : ∀ st : St, SigStep st (sigSnapLoopT fuel st s l).1 := by
  intro st
  unfold sigSnapLoopT
  exact stepG_sigSnapLoop _ (fun st a => step_sigCb fuel st a s) l st

theorem step_sigDispatch (fuel : Nat) (st : St) (s : Int) : SigStep st (sigDispatch fuel st s) := by
  unfold sigDispatch
  split
  · split
    · exact (g2_fail _ _).step
    · exact step_sigSnapLoopT _ _ _ _
  · exact step_sigwatchLoopT _ _ _ _

theorem step_dispatchSignals (fuel : Nat) (st : St) : SigStep st (dispatchSignals fuel st) := SigStep.refl st

theorem step_sigpipeLoop (fuel : Nat) : ∀ (st : St) (pending : List Int) (this : Option Nat),
    SigStep st (sigpipeLoop fuel st pending this) := by
  induction fuel with
  | zero => intro st pending this; unfold sigpipeLoop; exact step_outOfFuel st
  | succ n ih =>
    intro st pending this
    unfold sigpipeLoop
    split
    · exact SigStep.refl _
    · split
      · exact SigStep.refl _
      · split
        · exact (g2_fail _ _).step
        · split
          · exact ih _ _ _
          · split
            · exact step_sigCb _ _ _ _
            · split
              · exact (step_sigCb _ _ _ _).trans (g2_fail _ _).step
              · exact (step_sigCb _ _ _ _).trans (ih _ _ _)

theorem step_sigpipeInvoke (fuel : Nat) (pending : List Int) (l : List Int) : ∀ st : St, SigStep st (sigpipeInvoke fuel st pending l) := by
  induction l with
  | nil => intro st; exact SigStep.refl st
  | cons s rest ih =>
    intro st
    unfold sigpipeInvoke
    refine SigStep.trans ?_ (ih _)
    split
    · exact step_sigDispatch _ _ _
    · exact SigStep.refl _

theorem step_onSigpipeReadable (fuel : Nat) (st : St) : SigStep st (onSigpipeReadable fuel st) := by
  unfold onSigpipeReadable
  split
  · exact (G2.of_eq rfl rfl : G2 st { st with pipeBytes := st.pipeBytes - 1, pendingSig := [] }).step.trans (step_sigpipeInvoke _ _ _ _)
  · exact (G2.of_eq rfl rfl : G2 st { st with pipeBytes := st.pipeBytes - 1, pendingSig := [] }).step.trans (step_sigpipeLoop _ _ _ _)

theorem step_ioCb (fuel : Nat) (st : St) (s : PollSlot) : SigStep st (ioCb fuel st s) := by
  unfold ioCb
  split
  · split
    · exact (g2_fail _ _).step
    · split
      · exact step_onSigpipeReadable _ _
      · exact step_invokeWatch _ _ _ _
  · exact SigStep.refl _

theorem step_ioLoop (fuel : Nat) : ∀ (st : St) (idx : Nat), SigStep st (ioLoop fuel st idx) := by
  induction fuel with
  | zero => intro st idx; unfold ioLoop; exact step_outOfFuel st
  | succ n ih =>
    intro st idx
    unfold ioLoop
    split
    · exact SigStep.refl _
    · split
      · exact SigStep.refl _
      · split
        · exact ih _ _
        · split
          · exact ih _ _
          · exact (step_ioCb _ _ _).trans (ih _ _)

theorem g2_foldl_raiseSig (l : List Int) : ∀ st : St, G2 st (l.foldl raiseSig st) := by
  induction l with
  | nil => intro st; exact G2.refl st
  | cons s rest ih => intro st; exact (g2_raiseSig st s).trans (ih _)

theorem g2_pollScan (st : St) : G2 st (pollScan st) := G2.of_eq rfl rfl
theorem g2_with_inpoll (st : St) (l : List Int) : G2 st { st with inpoll := l } := G2.of_eq rfl rfl

theorem g2_pollRaise (st : St) : G2 st (pollRaise st) := by
  unfold pollRaise
  exact (g2_with_inpoll st []).trans (g2_foldl_raiseSig _ _)

theorem g2_ppoll (st : St) (t : Option Int) : G2 st (ppoll st t).1 := by
  unfold ppoll
  split
  · exact (g2_pollScan st).trans (g2_pollRaise _)
  · split
    · exact ((g2_pollScan st).trans (g2_pollRaise _)).trans (g2_emit _ _)
    · split
      · exact (((g2_pollScan st).trans (g2_pollRaise _)).trans (g2_with_errno _ _)).trans (g2_emit _ _)
      · exact (((g2_pollScan st).trans (g2_pollRaise _)).trans (g2_pollTimeout _ _)).trans (g2_emit _ _)

theorem step_tickAfterPoll (fuel : Nat) (st : St) (ret : Option Nat) : SigStep st (tickAfterPoll fuel st ret) := by
  unfold tickAfterPoll
  split
  · exact step_invokeTimers _ _
  · split
    · split
      · exact (step_invokeTimers _ _).trans (step_ioLoop _ _ _)
      · exact step_invokeTimers _ _
    · split
      · exact (step_invokeTimers _ _).trans (step_dispatchSignals _ _)
      · exact step_invokeTimers _ _

theorem step_tick (fuel : Nat) (st : St) (nohang : Bool) : SigStep st (tick fuel st nohang) := by
  unfold tick
  split
  · exact SigStep.refl _
  · split
    · exact (g2_nextTimerMsec _).step
    · split
      · exact ((g2_nextTimerMsec _).trans (g2_ppoll _ _)).step
      · exact ((g2_nextTimerMsec _).trans (g2_ppoll _ _)).step.trans (step_tickAfterPoll _ _ _)

theorem g2_ppollRun (st : St) (t : Option Int) : G2 st (ppollRun st t).1 := by
  unfold ppollRun
  split
  · exact g2_ppoll _ _
  · split
    · exact ((g2_ppoll st t).trans (G2.of_eq rfl rfl : G2 (ppoll st t).1
        { (ppoll st t).1 with runPolls := (ppoll st t).1.runPolls + 1, stillRunning := false })).trans (g2_emit _ _)
    · exact (g2_ppoll st t).trans (G2.of_eq rfl rfl : G2 (ppoll st t).1
        { (ppoll st t).1 with runPolls := (ppoll st t).1.runPolls + 1 })

theorem step_runIter (fuel : Nat) (st : St) : SigStep st (runIter fuel st) := by
  unfold runIter
  split
  · exact SigStep.refl _
  · split
    · exact (g2_nextTimerMsec _).step
    · split
      · exact ((g2_nextTimerMsec _).trans (g2_ppollRun _ _)).step
      · exact ((g2_nextTimerMsec _).trans (g2_ppollRun _ _)).step.trans (step_tickAfterPoll _ _ _)

theorem step_runLoop (fuel : Nat) (n : Nat) : ∀ st : St, SigStep st (runLoop fuel n st) := by
  induction n with
  | zero => intro st; unfold runLoop; exact step_outOfFuel st
  | succ k ih =>
    intro st
    unfold runLoop
    split
    · exact SigStep.refl _
    · split
      · exact SigStep.refl _
      · exact (step_runIter _ _).trans (ih _)

theorem step_run (fuel : Nat) (st : St) : SigStep st (run fuel st) := by
  have h0 : SigStep st { (watchSignal st 2 0 (-5)).1 with stillRunning := true, inRun := true, runPolls := 0 } :=
    (step_watchSignal st 2 0 (-5)).trans (g2_run_flags _).step
  unfold run
  split
  · exact SigStep.refl _
  · split
    · exact h0.trans (step_runLoop _ _ _)
    · exact ((h0.trans (step_runLoop _ _ _)).trans (g2_with_inRun _ _).step).trans (step_watchCancel _ _)

theorem g2_destroyList (t : WType) (l : List Nat) : ∀ st : St, G2 st (destroyList st t l) := by
  induction l with
  | nil => intro st; exact G2.refl st
  | cons a rest ih =>
    intro st
    unfold destroyList
    split
    · exact G2.refl _
    · split
      · exact g2_fail _ _
      · split
        · exact (((g2_destroyNotify _ _).trans (g2_evloopCancelIo _ _)).trans (g2_free _ a)).trans (ih _)
        · exact ((g2_destroyNotify _ _).trans (g2_free _ a)).trans (ih _)

theorem sinv_destroy (st : St) (i : SInv st) : SInv (destroy st) := by
  unfold destroy
  split
  · exact i
  · have hc : SigStep st (cancelSigchld st) := by
      unfold cancelSigchld
      split
      · exact step_watchCancel _ _
      · exact SigStep.refl _
    have hp : ∀ s : St, SigStep s (cancelPipewatch s) := by
      intro s
      unfold cancelPipewatch
      split
      · exact step_watchCancel _ _
      · exact SigStep.refl _
    have hr : ∀ s : St, SigStep s (restoreDefaults s) := by
      intro s
      unfold restoreDefaults
      split
      · exact G2.step (G2.of_eq rfl rfl)
      · exact SigStep.refl _
    have hd : ∀ (t : WType) (s : St), SigStep s (destroyOf t s) := fun t s => (g2_destroyList t _ s).step
    have h5 := ((((((hc.trans (hp _)).trans (hr _)).trans (hd .io _)).trans (hd .timer _)).trans (hd .later _)).trans (hd .signal _)).trans (hd .process _)
    have i5 := (h5 i).inv
    unfold destroyFinish
    split
    · exact ⟨List.nodup_nil, fun x hx => by cases hx⟩
    · exact i5

theorem sinv_applyOp (st : St) (op : Op) (i : SInv st) : SInv (applyOp st op) := by
  unfold applyOp
  have i0 : SInv { st with log := [] } := ((G2.of_eq rfl rfl : G2 st { st with log := [] }).step i).inv
  generalize ({ st with log := [] } : St) = s0 at i0 ⊢
  unfold applyOp'
  split
  · exact i0
  · split
    · exact i0
    · exact i0
    · exact i0
    · split
      · exact i0
      · split
        · exact SInv.of_same (st := s0) rfl rfl i0
        · exact (step_runAct _ _ i0).inv
        · exact SInv.of_same (st := s0) rfl rfl i0
        · exact SInv.of_same (st := s0) rfl rfl i0
        · exact SInv.of_same (st := s0) rfl rfl i0
        · exact (((g2_with_stillRunning s0 true).step.trans (step_tick _ _ _)) i0).inv
        · exact (((g2_with_stillRunning s0 true).step.trans (step_tick _ _ _)) i0).inv
        · exact (step_run _ _ i0).inv
        · exact sinv_destroy _ i0
        · exact i0

theorem sinv_build (cfg : Config) : SInv (build cfg) := by
  have h0 : SInv (build0 cfg) := ⟨List.nodup_nil, fun x hx => (by cases hx)⟩
  unfold build
  exact (((g2_watchIo _ _ _ _ _).step.trans (step_watchSignal _ _ _ _)).trans (g2_with_log _ _).step h0).inv

/-- In every reachable state, under any variant of the source, the list of signal watches holds
    distinct allocated watches. -/
theorem sinv_runOps (cfg : Config) (ops : List Op) : SInv (runOps cfg ops) := by
  unfold runOps
  have : ∀ (l : List Op) (st : St), SInv st → SInv (l.foldl applyOp st) := by
    intro l
    induction l with
    | nil => intro st h; exact h
    | cons o rest ih => intro st h; exact ih _ (sinv_applyOp st o h)
  exact this ops _ (sinv_build cfg)

theorem sigsnap_sublist (fuel : Nat) (s : Int) (l : List Nat) : ∀ st : St, (sigSnapLoopT fuel st s l).2.Sublist l := by
  intro st
  unfold sigSnapLoopT
  exact sigsnapG_sublist _ l st

theorem sigsnap_complete (fuel : Nat) (s : Int) (l : List Nat) : ∀ st : St, SInv st →
    (sigSnapLoopT fuel st s l).1.status = .ok →
    ∀ b ∈ l, b < st.heap.length → b ∈ (sigSnapLoopT fuel st s l).1.signals → b ∈ (sigSnapLoopT fuel st s l).2 := by
  intro st
  unfold sigSnapLoopT
  exact sigsnapG_complete _ (fun st a => step_sigCb fuel st a s) l st

end Tickit.EvLoop.Fb
