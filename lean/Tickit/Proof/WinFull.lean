import Tickit.Proof.WinCloseQ
/-
  The invariant of every reachable state of the window compositor, *with restacking requests queued*, and its steps.

  The invariant over a non-empty queue is the plain one: `InvC` is about the tree as it stands (the queue not applied),
  every owned cell is damaged or already right; nothing is assumed about the queued requests but their kinds.  When the
  flush applies the queue, each `_do_hierarchy_change` is one more step that keeps it (`applyChanges_step`), and the
  rendering then makes the screen exact for the re-stacked tree.
-/
namespace Tickit
namespace WinFlush
open WinTree WinRB WinSpec

structure GoodQ (content : Id → Int → Int → Cell) (st : St) : Prop where
  tinv : TInv content st.screen st.tree
  flags : Flags st.tree
  queue : QueueOk st.tree
  queueLater : st.tree.root.changes ≠ [] → st.tree.root.needsLater = true
  term : TermRoot st
  pc : ParentListed st.tree

/-- Every owned terminal cell shows what its owner paints there. -/
def ExactC (content : Id → Int → Int → Cell) (tree : Tree) (screen : Int → Int → Cell) : Prop :=
  ∀ L C w l c, ownerAt tree L C = some (w, l, c) → screen L C = content w l c

theorem termRoot_of_rectsKept {st : St} {t' : Tree} (h : RectsKept st.tree t') (ht : TermRoot st) :
    TermRoot { st with tree := t' } := by
  obtain ⟨w, hw, h1, h2⟩ := ht
  obtain ⟨w', hw', hr, _⟩ := h 0 w hw
  exact ⟨w', hw', by rw [hr]; exact h1, by rw [hr]; exact h2⟩

theorem queueLater_rootStep {t t' : Tree} (h : RootStep t t') (hq : t.root.changes ≠ [] → t.root.needsLater = true) :
    t'.root.changes ≠ [] → t'.root.needsLater = true := by
  rcases h with h | ⟨_, y, _⟩
  · rw [h]; exact hq
  · exact fun _ => y

/-- Assembling the state invariant after an operation that only changed the tree by a `RootStep`. -/
theorem goodQ_of_step (content : Id → Int → Int → Cell) (st : St) (t' : Tree) (hg : GoodQ content st)
    (hI : TInv content st.screen t') (hs : RootStep st.tree t') (hr : RectsKept st.tree t') (hp : ParentListed t') :
    GoodQ content { st with tree := t' } :=
  { tinv := hI
    flags := hs.flags hg.flags
    queue := queueOk_rootStep hs hg.queue
    queueLater := queueLater_rootStep hs hg.queueLater
    term := termRoot_of_rectsKept hr hg.term
    pc := hp }

/-! ### `tickit_window_expose` -/

theorem goodQ_expose (content : Id → Int → Int → Cell) (st : St) (id : Id) (e : Option Rect) (t' : Tree)
    (h : WinTree.expose st.tree st.fuel id e = .ok t') (hg : GoodQ content st) : GoodQ content { st with tree := t' } := by
  have hI := hg.tinv
  obtain ⟨hw, hne, hdi, hfl, hcov⟩ := expose_spec st.fuel st.tree id e t' h hI.nonempty hI.pos
  have hcore : ∀ x : Id, (t'.wins[x]?).map core = (st.tree.wins[x]?).map core := by intro x; rw [hw]
  refine goodQ_of_step content st t' hg
    ⟨treeOk_congr_core hcore hI.ok, ordered_congr hw hI.ord,
      rootsPositive_congr_core hcore hI.pos, hne, hdi hI.dinv, ?_⟩ ?_ (rectsKept_congr hw) (parentListed_congr hw hg.pc)
  · intro L C w l c ho
    rw [ownerAt_congr t' st.tree hw] at ho
    rcases hI.inv L C w l c ho with hc | hc
    · exact Or.inl ((hcov L C).2 (Or.inl hc))
    · exact Or.inr hc
  · rcases hfl with rfl | hx
    · exact RootStep.refl _
    · exact Or.inr hx

/-! ### `tickit_window_hide`, `tickit_window_show` -/

theorem termRoot_sameBut (st : St) {t1 t' : Tree} {id : Id} (h : SameBut st.tree t1 id) (hw : t'.wins = t1.wins)
    (ht : TermRoot st) : TermRoot { st with tree := t' } := by
  obtain ⟨w, hw0, h1, h2⟩ := ht
  obtain ⟨w', hw', hc⟩ := noVis_some (sameBut_noVis h 0) hw0
  simp only [coreNoVis, Prod.mk.injEq] at hc
  exact ⟨w', by show t'.wins[0]? = some w'; rw [hw]; exact hw', by rw [hc.2.1]; exact h1, by rw [hc.2.1]; exact h2⟩

/-- `hide` of any window but the root, `show` of any window (the root included). -/
theorem goodQ_vis (content : Id → Int → Int → Cell) (st : St) (id : Id) (t' : Tree)
    (h : (WinTree.hide st.tree st.fuel id = .ok t' ∧ id ≠ 0) ∨ WinTree.show st.tree st.fuel id = .ok t') (hg : GoodQ content st) :
    GoodQ content { st with tree := t' } := by
  have hI := hg.tinv
  have key : InvC content t' st.screen ∧ WFp t' ∧ RootWin t' ∧ (∀ x ∈ t'.root.damage, x.Nonempty) ∧
      (RectSet.Inv st.tree.root.damage → RectSet.Inv t'.root.damage) ∧ RootsPositive t' ∧
      t'.wins.size = st.tree.wins.size ∧
      (t'.root = st.tree.root ∨ (t'.root.needsExpose = true ∧ t'.root.needsLater = true ∧ t'.root.changes = st.tree.root.changes)) ∧
      (∃ t1, SameBut st.tree t1 id ∧ t'.wins = t1.wins) := by
    rcases h with ⟨h, hid⟩ | h
    · exact hide_step content st.screen st.tree t' id h hid hI.ok.wf hI.ok.rootWin hI.nonempty hI.pos hI.inv
    · exact show_step content st.screen st.tree t' id h hI.ok.wf hI.ok.rootWin hI.nonempty hI.pos hI.inv
  obtain ⟨hinv, hwf, hrw, hne, hdi, hpos, _, hfl, t1, hsb, hwins⟩ := key
  have hst := struct_sameBut hsb hI.ok.nodup hI.ok.noSelf
  have hst' := struct_congr_wins hwins hst.1 hst.2
  exact { tinv := ⟨⟨hwf, hst'.1, hst'.2, onlyRoot_congr hwins (onlyRoot_sameBut hsb hI.ok.onlyRoot), hrw⟩,
                   ordered_congr hwins (ordered_sameBut hsb hI.ord), hpos, hne, hdi hI.dinv, hinv⟩
          flags := RootStep.flags hfl hg.flags
          queue := queueOk_rootStep hfl hg.queue
          queueLater := queueLater_rootStep hfl hg.queueLater
          term := termRoot_sameBut st hsb hwins hg.term
          pc := parentListed_congr hwins (parentListed_sameBut hsb hg.pc) }

/-- `hide` of the root window: nothing is owned any more. -/
theorem goodQ_hide_root (content : Id → Int → Int → Cell) (st : St) (t' : Tree)
    (h : WinTree.hide st.tree st.fuel 0 = .ok t') (hg : GoodQ content st) : GoodQ content { st with tree := t' } := by
  have hI := hg.tinv
  obtain ⟨rw0, hrw0, hrf, hrr, hrp, hrt, hrl⟩ := hI.ok.rootWin.ex
  have hget : WinTree.get st.tree 0 = .ok rw0 := by unfold WinTree.get; rw [hrw0]; simp [hrf]
  unfold WinTree.hide at h
  simp only [WinTree.modify, bind, Bind.bind, hget, pure, Pure.pure] at h
  generalize ht1 : WinTree.set st.tree 0 { rw0 with isVisible := false } = t1 at h
  have h1_0 : t1.wins[0]? = some { rw0 with isVisible := false } := by rw [← ht1]; exact set_wins_self st.tree 0 rw0 _ hrw0
  have hget1 : WinTree.get t1 0 = .ok { rw0 with isVisible := false } := by
    unfold WinTree.get; rw [h1_0]; simp [hrf]
  rw [hget1] at h
  simp only [hrp, Res.ok.injEq] at h
  subst h
  have hsb : SameBut st.tree t1 0 := by
    rw [← ht1]
    exact sameBut_set st.tree 0 0 rw0 _ hrw0 (by simp [coreNoVis])
  have hst := struct_sameBut hsb hI.ok.nodup hI.ok.noSelf
  have hroot : t1.root = st.tree.root := by rw [← ht1]; rfl
  exact { tinv := ⟨⟨wfp_sameBut hsb hI.ok.wf, hst.1, hst.2, onlyRoot_sameBut hsb hI.ok.onlyRoot,
                    ⟨⟨_, h1_0, hrf, hrr, hrp, hrt, hrl⟩⟩⟩,
                   ordered_sameBut hsb hI.ord, (by
                     intro x w hx hr
                     obtain ⟨w', hw', hc⟩ := noVis_some (sameBut_noVis hsb x).symm hx
                     simp only [coreNoVis, Prod.mk.injEq] at hc
                     have := hI.pos x w' hw' (by rw [hc.2.2.2.2]; exact hr)
                     rw [hc.2.1] at this
                     exact this),
                   (by rw [hroot]; exact hI.nonempty), (by rw [hroot]; exact hI.dinv),
                   invC_of_hidden content st.screen t1 _ h1_0 rfl⟩
          flags := (by unfold Flags; rw [hroot]; exact hg.flags)
          queue := (by unfold QueueOk; rw [hroot]; exact hg.queue)
          queueLater := (by rw [hroot]; exact hg.queueLater)
          term := termRoot_sameBut st hsb rfl hg.term
          pc := parentListed_sameBut hsb hg.pc }

/-! ### geometry change with the proviso's exposes -/

theorem goodQ_geom (content : Id → Int → Int → Cell) (st : St) (id : Id) (rect : Rect) (t' : Tree) (hid : id ≠ 0)
    (h : setGeometryExposed st.tree st.fuel id rect = .ok t') (hg : GoodQ content st) :
    GoodQ content { st with tree := t' } := by
  have hI := hg.tinv
  obtain ⟨hinv, hwf, hrw, hor, hne, hdi, hpos, hfl, t1, hsb, hwins⟩ :=
    geom_step content st.screen st.tree t' id rect h hid hI.ok.wf hI.ok.rootWin hI.ok.onlyRoot hI.nonempty hI.pos hI.inv
  have hst := struct_sameButG hsb hI.ok.nodup hI.ok.noSelf
  have hst' := struct_congr_wins hwins hst.1 hst.2
  refine { tinv := ⟨⟨hwf, hst'.1, hst'.2, hor, hrw⟩,
                   ordered_congr hwins (ordered_sameButG hsb hI.ord),
                   hpos, hne, hdi hI.dinv, hinv⟩
           flags := RootStep.flags hfl hg.flags
           queue := queueOk_rootStep hfl hg.queue
           queueLater := queueLater_rootStep hfl hg.queueLater
           term := ?_
           pc := parentListed_congr hwins (parentListed_sameButG hsb hg.pc) }
  obtain ⟨w, hw0, h1, h2⟩ := hg.term
  obtain ⟨w', hw', hc⟩ := map_core_some (hsb.other 0 (Ne.symm hid)) hw0
  simp only [core, Prod.mk.injEq] at hc
  exact ⟨w', by show t'.wins[0]? = some w'; rw [hwins]; exact hw', by rw [hc.2.2.1]; exact h1, by rw [hc.2.2.1]; exact h2⟩

/-! ### `tickit_window_close` -/

/-- `close` of any window, the root included. -/
theorem goodQ_close (content : Id → Int → Int → Cell) (st : St) (id : Id) (t' : Tree)
    (h : WinTree.close st.tree st.fuel id = .ok t') (hg : GoodQ content st) : GoodQ content { st with tree := t' } := by
  have hI := hg.tinv
  obtain ⟨hI', hf⟩ := close_tinv content st.screen st.tree t' id h hI
  have hsh := close_shrinks st.tree t' st.fuel id h
  refine { tinv := hI'
           flags := hf hg.flags
           queue := queueOk_shrinks hsh hg.queue
           queueLater := ?_
           term := ?_
           pc := close_pc st.tree t' st.fuel id h hI.ok.noSelf hg.pc }
  · intro hq
    apply hsh.2.2
    apply hg.queueLater
    intro hq0
    cases hc : t'.root.changes with
    | nil => exact hq hc
    | cons r rest =>
      have := hsh.1 r (by rw [hc]; exact List.mem_cons_self)
      rw [hq0] at this
      cases this
  · obtain ⟨w', hw', _⟩ := hI'.ok.rootWin.ex
    obtain ⟨w, hw, _, hr⟩ := hsh.2.1 0 w' hw'
    obtain ⟨w0, hw0, h1, h2⟩ := hg.term
    rw [hw] at hw0; cases hw0
    exact ⟨w', hw', by rw [hr]; exact h1, by rw [hr]; exact h2⟩

/-! ### restacking requests -/

theorem goodQ_request (content : Id → Int → Int → Cell) (st : St) (ch : Change) (id : Id) (t' : Tree)
    (hch : isRestack ch = true)
    (h : requestHierarchyChange st.tree st.fuel ch id = .ok t') (hg : GoodQ content st) :
    GoodQ content { st with tree := t' } := by
  have hI := hg.tinv
  obtain ⟨hw, hd, he, hl, hq⟩ := request_spec st.tree t' st.fuel ch id h
  have hcore : ∀ x : Id, (t'.wins[x]?).map core = (st.tree.wins[x]?).map core := by intro x; rw [hw]
  refine { tinv := ⟨treeOk_congr_core hcore hI.ok, ordered_congr hw hI.ord,
                    rootsPositive_congr_core hcore hI.pos, by rw [hd]; exact hI.nonempty, by rw [hd]; exact hI.dinv, ?_⟩
           flags := ?_
           queue := ?_
           queueLater := ?_
           term := termRoot_of_rectsKept (rectsKept_congr hw) hg.term
           pc := parentListed_congr hw hg.pc }
  · intro L C w l c ho
    rw [ownerAt_congr t' st.tree hw] at ho
    show Covered t'.root.damage L C ∨ _
    rw [hd]
    exact hI.inv L C w l c ho
  · intro hdd
    show t'.root.needsExpose = true ∧ t'.root.needsLater = true
    have := hg.flags (by rw [← hd]; exact hdd)
    exact ⟨by rw [he]; exact this.1, hl this.2⟩
  · intro r hr
    show isRestack r.change = true
    rcases hq with hq | ⟨p, hq⟩
    · exact hg.queue r (by rw [← hq]; exact hr)
    · have hr' : r ∈ st.tree.root.changes ++ [⟨ch, p, id⟩] := by rw [← hq]; exact hr
      rcases List.mem_append.1 hr' with hm | hm
      · exact hg.queue r hm
      · simp at hm; subst hm; exact hch
  · intro hne
    show t'.root.needsLater = true
    -- either the queue was non-empty before (then the flag was up), or this request is the first and raises it
    unfold requestHierarchyChange at h
    simp only [bind, Bind.bind] at h
    cases hgw : WinTree.get st.tree id with
    | ub e => rw [hgw] at h; cases h
    | ok w =>
      rw [hgw] at h
      simp only at h
      cases hp : w.parent with
      | none =>
        simp only [hp, pure, Pure.pure] at h
        cases h
        exact hg.queueLater hne
      | some p =>
        simp only [hp] at h
        cases hr : getRoot st.tree st.fuel id with
        | ub e => rw [hr] at h; cases h
        | ok r =>
          rw [hr] at h
          simp only [pure, Pure.pure] at h
          cases h
          show (st.tree.root.needsLater || st.tree.root.changes.isEmpty) = true
          cases hq0 : st.tree.root.changes with
          | nil => simp
          | cons a b => simp [hg.queueLater (by rw [hq0]; simp)]

/-! ### `tickit_window_new` -/

theorem goodQ_new (content : Id → Int → Int → Cell) (st st' : St) (parent : Id) (rect : Rect)
    (rootParent hidden lowest steal : Bool) (pen : Option Pen) (id : Id)
    (h : newWin st parent rect rootParent hidden lowest steal pen = .ok (st', id)) (hg : GoodQ content st) :
    GoodQ content st' := by
  unfold newWin at h
  simp only [bind, Bind.bind] at h
  cases hn : newWindow st.tree st.fuel parent rect rootParent hidden lowest steal with
  | ub e => rw [hn] at h; cases h
  | ok r =>
    rw [hn] at h
    simp only [pure, Pure.pure, Res.ok.injEq, Prod.mk.injEq] at h
    obtain ⟨h1, _⟩ := h
    subst h1
    obtain ⟨a1, a2, _, _, a5, a6⟩ := newWindow_step content st.screen st.tree r.1 parent r.2 rect rootParent hidden lowest steal
      hg.tinv hn
    have := goodQ_of_step content st r.1 hg a1 a2 a6 (a5 hg.pc)
    exact { tinv := this.tinv, flags := this.flags, queue := this.queue, queueLater := this.queueLater,
            term := this.term, pc := this.pc }

/-! ### terminal resize -/

theorem goodQ_resize (content : Id → Int → Int → Cell) (st st' : St) (lines cols : Int) (hl : 0 < lines) (hc : 0 < cols)
    (h : termResize st lines cols = .ok st') (hg : GoodQ content st) : GoodQ content st' := by
  have hI := hg.tinv
  obtain ⟨root, hroot, hrl, hrc⟩ := hg.term
  rcases termResize_cases st st' lines cols h with ⟨e1, e2, rfl⟩ | ⟨_, t', ht', rfl⟩
  · -- same size: the grid is cut to the terminal, where nothing changes
    refine { tinv := ⟨hI.ok, hI.ord, hI.pos, hI.nonempty, hI.dinv, ?_⟩, flags := hg.flags, queue := hg.queue,
             queueLater := hg.queueLater, term := ⟨root, hroot, hrl, hrc⟩, pc := hg.pc }
    intro L C w l c ho
    have hvis : RootVisible st.tree := by
      rcases root_vis_cases st.tree hI.ok with hv | ⟨w0, hw0, hv0⟩
      · exact hv
      · have ho' : ownerAt st.tree L C = some (w, l, c) := ho
        rw [ownerAt_none_of_hidden st.tree w0 hw0 hv0] at ho'
        cases ho'
    obtain ⟨wr, hwr, h0, h1, h2, h3⟩ := ownerAt_some_memb st.tree (rootOk_of_visible hI.ok hvis) L C _ ho
    have hwr' : st.tree.wins[0]? = some wr := hwr
    rw [hroot] at hwr'; cases hwr'
    rcases hI.inv L C w l c ho with hcov | hright
    · exact Or.inl hcov
    · right
      show resizedScreen st lines cols L C = _
      unfold resizedScreen
      rw [if_pos ⟨h0, by omega, h2, by omega⟩]
      exact hright
  · obtain ⟨a1, a2, _, ⟨w', hw', hwl, hwc⟩, a5⟩ := termResizeTree_step content st.screen (resizedScreen st lines cols) st.tree t'
      lines cols hI hl hc root hroot (by
        intro L C h0 h1 h2 h3
        unfold resizedScreen
        rw [if_pos ⟨h0, by omega, h2, by omega⟩]) ht'
    exact { tinv := a1
            flags := a2.flags hg.flags
            queue := queueOk_rootStep a2 hg.queue
            queueLater := queueLater_rootStep a2 hg.queueLater
            term := ⟨w', hw', hwl, hwc⟩
            pc := a5 hg.pc }

/-! ### `tickit_window_flush` -/

/-- Pending damage is flagged `needs_expose`. -/
def Flagged' (t : Tree) : Prop := t.root.damage ≠ [] → t.root.needsExpose = true

/-- The rendering half of a flush turns "damaged or already right" into "right", whatever the tree, when every handler
    invocation repaints what it is asked to in the buffer it finds. -/
theorem flushRender_exact_at (beh : Id → Rect → List DrawOp) (content : Id → Int → Int → Cell)
    (st st' : St) (t : Tree) (shots : List Shot)
    (h : flushRender beh st t = .ok (st', shots)) (hroot : RootOk t) (hflag : Flagged' t)
    (hrep : ∀ sh ∈ shots, RepaintsAt content beh sh) (hinv : InvC content t st.screen) :
    st'.tree.root.damage = [] ∧ st'.tree.wins = t.wins ∧ ExactC content st'.tree st'.screen := by
  have hcases := flushRender_cases beh st st' t shots h
  cases hne : t.root.needsExpose with
  | false =>
    rcases hcases with ⟨_, hs, htr, _⟩ | ⟨_, _, _, _, hx, _⟩
    · have hdmg : t.root.damage = [] := by
        cases hdd : t.root.damage with
        | nil => rfl
        | cons a b =>
          have := hflag (by rw [hdd]; simp)
          rw [hne] at this; cases this
      have hw : st'.tree.wins = t.wins := by rw [htr]
      refine ⟨by rw [htr]; exact hdmg, hw, ?_⟩
      intro L C w l c ho
      rw [ownerAt_congr st'.tree t hw] at ho
      rcases hinv L C w l c ho with hc | hc
      · rw [hdmg] at hc; exact absurd hc (RectSet.covered_nil L C)
      · rw [hs]; exact hc
    · rw [hne] at hx; cases hx
  | true =>
    rcases hcases with ⟨_, _, _, hx⟩ | ⟨root, s', _, _, _, _, _, ht, _⟩
    · rw [hne] at hx; cases hx
    · refine ⟨by rw [ht]; rfl, by rw [ht]; rfl, ?_⟩
      intro L C w l c ho
      by_cases hc : Covered t.root.damage L C
      · exact flushRender_content_at beh content st st' t shots h hroot hne hrep L C hc w l c ho
      · have hsame : st'.screen L C = st.screen L C := by
          apply Classical.byContradiction
          intro hdiff
          exact hc (flushRender_frame beh st st' t shots h L C hdiff)
        rw [hsame]
        have hw : st'.tree.wins = t.wins := by rw [ht]; rfl
        rw [ownerAt_congr st'.tree t hw] at ho
        rcases hinv L C w l c ho with hc' | hc'
        · exact absurd hc' hc
        · exact hc'

/-- The rendering half of a flush turns "damaged or already right" into "right", whatever the tree. -/
theorem flushRender_exact (beh : Id → Rect → List DrawOp) (content : Id → Int → Int → Cell)
    (st st' : St) (t : Tree) (shots : List Shot)
    (h : flushRender beh st t = .ok (st', shots)) (hroot : RootOk t) (hflag : Flagged' t)
    (hrep : Repaints content beh) (hinv : InvC content t st.screen) :
    st'.tree.root.damage = [] ∧ st'.tree.wins = t.wins ∧ ExactC content st'.tree st'.screen :=
  flushRender_exact_at beh content st st' t shots h hroot hflag (fun sh _ => repaintsAt_of_repaints hrep sh) hinv

/-- `tickit_window_flush` keeps the invariant and leaves the screen exact, when every handler invocation of this flush
    repaints what it is asked to in the buffer it finds (`goodQ_flush`: under `Repaints`; `Proof/WinPen.lean`
    `goodQ_flush_pen`: under the pen-aware `RepaintsP`). -/
theorem goodQ_flush_at (beh : Id → Rect → List DrawOp) (content : Id → Int → Int → Cell) (st st' : St) (shots : List Shot)
    (h : WinFlush.flush beh st = .ok (st', shots)) (hrep : ∀ sh ∈ shots, RepaintsAt content beh sh) (hg : GoodQ content st) :
    GoodQ content st' ∧ ExactC content st'.tree st'.screen ∧ st'.tree.root.changes = [] ∧ st'.tree.root.damage = [] := by
  have hI := hg.tinv
  obtain ⟨root, hr, hf, hrr, hrp, _, _⟩ := hI.ok.rootWin.ex
  unfold WinFlush.flush at h
  have hget : WinTree.get st.tree 0 = .ok root := by
    unfold WinTree.get; rw [hr]; simp [hf]
  rw [hget] at h
  simp only [bind, Bind.bind, hrp, Option.isSome_none] at h
  cases hnl : st.tree.root.needsLater with
  | false =>
    simp only [hnl, pure, Pure.pure] at h
    simp at h
    obtain ⟨h1, h2⟩ := h
    subst h1 h2
    have hdmg : st.tree.root.damage = [] := by
      cases hdd : st.tree.root.damage with
      | nil => rfl
      | cons a b =>
        have := (hg.flags (by rw [hdd]; simp)).2
        rw [hnl] at this; cases this
    have hq : st.tree.root.changes = [] := by
      cases hdd : st.tree.root.changes with
      | nil => rfl
      | cons a b =>
        have := hg.queueLater (by rw [hdd]; simp)
        rw [hnl] at this; cases this
    refine ⟨hg, ?_, hq, hdmg⟩
    intro L C w l c ho
    rcases hI.inv L C w l c ho with hc | hc
    · rw [hdmg] at hc; exact absurd hc (RectSet.covered_nil L C)
    · exact hc
  | true =>
    simp only [hnl, Bool.false_eq_true, if_false, Bool.not_true] at h
    -- the queue loop
    generalize ht0 : ({ st.tree with root := { st.tree.root with needsLater := false, changes := [] } } : Tree) = t0
    have hfq : flushQueue st = applyChanges (t0.wins.size + 1) t0 st.tree.root.changes := by
      unfold flushQueue
      rw [← ht0]
      rfl
    have h0w : t0.wins = st.tree.wins := by rw [← ht0]
    have h0d : t0.root.damage = st.tree.root.damage := by rw [← ht0]
    have hcore0 : ∀ x : Id, (t0.wins[x]?).map core = (st.tree.wins[x]?).map core := by intro x; rw [h0w]
    have hI0 : TInv content st.screen t0 :=
      ⟨treeOk_congr_core hcore0 hI.ok, ordered_congr h0w hI.ord,
        rootsPositive_congr_core hcore0 hI.pos, by rw [h0d]; exact hI.nonempty, by rw [h0d]; exact hI.dinv, by
          intro L C w l c ho
          rw [ownerAt_congr t0 st.tree h0w] at ho
          rw [h0d]
          exact hI.inv L C w l c ho⟩
    cases hq : flushQueue st with
    | ub e => rw [hq] at h; cases h
    | ok t =>
      rw [hq] at h
      simp only at h
      rw [hfq] at hq
      obtain ⟨a1, a2, a3, a4, a5⟩ := applyChanges_step content st.screen st.tree.root.changes t0 t hg.queue hI0 hq
      have hflag : Flagged' t := by
        apply a2.flagged
        intro hd
        have := (hg.flags (by rw [← h0d]; exact hd)).1
        rw [← ht0]
        exact this
      -- the rendering: exact under a shown root; under a hidden root nothing is owned and nothing is painted
      obtain ⟨hw', hq', _, e1, e2⟩ := flushRender_tree beh st st' t shots h
      have hrend : st'.tree.root.damage = [] ∧ ExactC content st'.tree st'.screen := by
        rcases root_vis_cases t a1.ok with hv | ⟨w0, hw0, hv0⟩
        · obtain ⟨hd', _, hex⟩ := flushRender_exact_at beh content st st' t shots h (rootOk_of_visible a1.ok hv) hflag hrep a1.inv
          exact ⟨hd', hex⟩
        · refine ⟨?_, fun L C w l c ho => ?_⟩
          · rcases flushRender_cases beh st st' t shots h with ⟨_, _, htr, hne⟩ | ⟨_, _, _, _, _, _, _, htr, _⟩
            · rw [htr]
              show t.root.damage = []
              cases hdd : t.root.damage with
              | nil => rfl
              | cons a b =>
                have := hflag (by rw [hdd]; simp)
                rw [hne] at this; cases this
            · rw [htr]; rfl
          · rw [ownerAt_none_of_hidden st'.tree w0 (by rw [hw']; exact hw0) hv0] at ho
            cases ho
      obtain ⟨hd', hex⟩ := hrend
      have hqe : st'.tree.root.changes = [] := by
        rw [hq', a2.changes, ← ht0]
      have hcore' : ∀ x : Id, (st'.tree.wins[x]?).map core = (t.wins[x]?).map core := by intro x; rw [hw']
      have hterm : TermRoot st' := by
        obtain ⟨w0, hw0, h1, h2⟩ := hg.term
        obtain ⟨w1, hw1, hr1, _⟩ := a5 0 w0 (by rw [h0w]; exact hw0)
        exact ⟨w1, by rw [hw']; exact hw1, by rw [hr1, e1]; exact h1, by rw [hr1, e2]; exact h2⟩
      refine ⟨{ tinv := ⟨treeOk_congr_core hcore' a1.ok, ordered_congr hw' a1.ord,
                         rootsPositive_congr_core hcore' a1.pos, (by intro x hx; rw [hd'] at hx; cases hx),
                         (by rw [hd']; exact (RectSet.inv_iff _).2 RectSet.invS_nil),
                         fun L C w l c ho => Or.inr (hex L C w l c ho)⟩
                flags := fun hx => absurd hd' hx
                queue := (by intro r hr'; rw [hqe] at hr'; cases hr')
                queueLater := fun hx => absurd hqe hx
                term := hterm
                pc := parentListed_congr hw' (a4 (parentListed_congr h0w hg.pc)) }, hex, hqe, hd'⟩

theorem goodQ_flush (beh : Id → Rect → List DrawOp) (content : Id → Int → Int → Cell) (st st' : St) (shots : List Shot)
    (h : WinFlush.flush beh st = .ok (st', shots)) (hrep : Repaints content beh) (hg : GoodQ content st) :
    GoodQ content st' ∧ ExactC content st'.tree st'.screen ∧ st'.tree.root.changes = [] ∧ st'.tree.root.damage = [] :=
  goodQ_flush_at beh content st st' shots h (fun sh _ => repaintsAt_of_repaints hrep sh) hg

end WinFlush
end Tickit
