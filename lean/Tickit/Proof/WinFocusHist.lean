import Tickit.Proof.WinFocusReq
/-
  C15 over whole histories.  Part 1: the step for a change of one child list (window creation, restacking), from the
  window engine's locality lemma for child lists (`WinFlush.ownerLoc_localL`, `under_ctxL`) and its damage
  specification (`WinTree.expose_spec`) — the tail of C01's `close_step`, for any such change.
-/
namespace Tickit
namespace WinFocus
open WinTree WinSpec WinFlush

/-- The child list of `p` changes only in where (and whether) `c` occurs; then `c`'s rectangle is exposed in `p` when
    `c` is visible: "damaged or already right" is kept, and the root record is untouched or an expose is flagged. -/
theorem list_change_step (content : Nat → Int → Int → WinRB.Cell) (screen : Int → Int → WinRB.Cell)
    {t tb t' : Tree} {p c : Nat} {cvis : Bool} {crect : Rect}
    (hsbl : SameButL t tb p c) (hpc : p ≠ c) (hc0 : c ≠ 0) (hwfb : WFp tb) (hrwb : RootWin tb)
    (hcin : ∀ x y, (Cin t c x y ∨ Cin tb c x y) → cvis = true ∧ crect.memb x y = true)
    (hroot : tb.root = t.root) (hne : ∀ x ∈ t.root.damage, x.Nonempty) (hposb : RootsPositive tb)
    (hexp : (if cvis = true then expose tb (tb.wins.size + 1) p (some crect) else pure tb) = .ok t')
    (hinv : InvC content t screen) :
    InvC content t' screen ∧ t'.wins = tb.wins ∧ (∀ x ∈ t'.root.damage, x.Nonempty) ∧
    (t'.root = t.root ∨ (t'.root.needsExpose = true ∧ t'.root.needsLater = true ∧ t'.root.changes = t.root.changes ∧
      t'.root.needsRestore = t.root.needsRestore)) := by
  have hlocal : ∀ L C, ownerAt tb L C ≠ ownerAt t L C → cvis = true ∧
      ExposedRegion tb (tb.wins.size + 1) p (some crect) L C := by
    intro L C hne'
    unfold ownerAt at hne'
    rw [hsbl.size] at hne'
    have hu := ownerLoc_localL hsbl hpc _ 0 L C (Ne.symm hc0) hne'
    obtain ⟨rw1, hrw1, hrf1, hrr1, hrp1, hrt1, hrl1⟩ := hrwb.ex
    obtain ⟨x, y, k', hP, hk, hex⟩ := under_ctxL tb hwfb p _ (t.wins.size + 1) 0 L C 0 L C rw1 hrw1
      (by rw [hrr1, hrp1]; rfl) (fun _ => ⟨hrt1, hrl1⟩) (by rw [hrp1]; exact ⟨rfl, rfl⟩) hu
    obtain ⟨hv, hm⟩ := hcin x y hP
    refine ⟨hv, x, y, fun r hr' => by cases hr'; exact (WinRB.memb_true_iff _ _ _).1 hm, ?_⟩
    rw [hsbl.size]
    exact exposedAt_mono_le tb (by omega) hex
  have finish : ∀ (tc : Tree), tc.wins = tb.wins →
      (∀ L C, Covered t.root.damage L C → Covered tc.root.damage L C) →
      (∀ L C, ownerAt tb L C ≠ ownerAt t L C → Covered tc.root.damage L C) → InvC content tc screen := by
    intro tc hcw hgrow hcov L C w l c0 ho
    rw [ownerAt_congr tc tb hcw] at ho
    by_cases heq : ownerAt tb L C = ownerAt t L C
    · rw [heq] at ho
      rcases hinv L C w l c0 ho with hc | hc
      · exact Or.inl (hgrow L C hc)
      · exact Or.inr hc
    · exact Or.inl (hcov L C heq)
  cases hv : cvis with
  | true =>
    simp only [hv, if_true] at hexp
    obtain ⟨hwins, hne', _, hfl, hcov⟩ := expose_spec _ tb p _ t' hexp (by rw [hroot]; exact hne) hposb
    refine ⟨finish t' hwins (fun L C hc => (hcov L C).2 (Or.inl (by rw [hroot]; exact hc)))
      (fun L C hne'' => (hcov L C).2 (Or.inr (hlocal L C hne'').2)), hwins, hne', ?_⟩
    rcases hfl with rfl | ⟨a, b, cq⟩
    · exact .inl hroot
    · refine .inr ⟨a, b, by rw [cq, hroot], ?_⟩
      rw [← hroot]
      exact (expose_frame _ _ _ _ _ hexp).2.1
  | false =>
    simp only [hv, Bool.false_eq_true, if_false, pure_ok] at hexp
    subst hexp
    refine ⟨finish tb rfl (fun L C hc => by rw [hroot]; exact hc)
      (fun L C hne'' => by have := (hlocal L C hne'').1; rw [hv] at this; cases this), rfl,
      by rw [hroot]; exact hne, .inl hroot⟩

/-! ### Part 2: the invariants through every operation -/

/-- The structural part of `Good15` only reads `coreNoVis` (liveness, rectangle, child list, parent, root flag). -/
theorem struct_congr {t t' : Tree} (h : ∀ x : Nat, (t'.wins[x]?).map coreNoVis = (t.wins[x]?).map coreNoVis)
    (hwfp : WFp t) (hrw : RootWin t) (hor : OnlyRoot t) (hnd : ChildrenNodup t) (hns : NoSelfParent t)
    (hpos : RootsPositive t) :
    WFp t' ∧ RootWin t' ∧ OnlyRoot t' ∧ ChildrenNodup t' ∧ NoSelfParent t' ∧ RootsPositive t' := by
  have back : ∀ (x : Nat) (w' : Win), t'.wins[x]? = some w' → ∃ w, t.wins[x]? = some w ∧ coreNoVis w = coreNoVis w' :=
    fun x w' hw' => noVis_some (h x).symm hw'
  have fwd : ∀ (x : Nat) (w : Win), t.wins[x]? = some w → ∃ w', t'.wins[x]? = some w' ∧ coreNoVis w' = coreNoVis w :=
    fun x w hw => noVis_some (h x) hw
  refine ⟨⟨?_⟩, ?_, ?_, ?_, ?_, ?_⟩
  · intro cur w' hw' ch hch
    obtain ⟨w, hw, hc⟩ := back cur w' hw'
    simp only [coreNoVis, Prod.mk.injEq] at hc
    obtain ⟨cw, hcw, hcp, hcr⟩ := hwfp.child cur w hw ch (by rw [hc.2.2.1]; exact hch)
    obtain ⟨cw', hcw', hcc⟩ := fwd ch cw hcw
    simp only [coreNoVis, Prod.mk.injEq] at hcc
    exact ⟨cw', hcw', by rw [hcc.2.2.2.1]; exact hcp, by rw [hcc.2.2.2.2]; exact hcr⟩
  · obtain ⟨r, hr, hf, hroot, hp, htop, hleft⟩ := hrw.ex
    obtain ⟨r', hr', hc⟩ := fwd 0 r hr
    simp only [coreNoVis, Prod.mk.injEq] at hc
    exact ⟨⟨r', hr', by rw [hc.1]; exact hf, by rw [hc.2.2.2.2]; exact hroot, by rw [hc.2.2.2.1]; exact hp,
      by rw [hc.2.1]; exact htop, by rw [hc.2.1]; exact hleft⟩⟩
  · intro x w' hw' hr
    obtain ⟨w, hw, hc⟩ := back x w' hw'
    simp only [coreNoVis, Prod.mk.injEq] at hc
    exact hor x w hw (by rw [hc.2.2.2.2]; exact hr)
  · intro cur w' hw'
    obtain ⟨w, hw, hc⟩ := back cur w' hw'
    simp only [coreNoVis, Prod.mk.injEq] at hc
    rw [← hc.2.2.1]; exact hnd cur w hw
  · intro x w' hw'
    obtain ⟨w, hw, hc⟩ := back x w' hw'
    simp only [coreNoVis, Prod.mk.injEq] at hc
    rw [← hc.2.2.2.1]; exact hns x w hw
  · intro x w' hw' hr
    obtain ⟨w, hw, hc⟩ := back x w' hw'
    simp only [coreNoVis, Prod.mk.injEq] at hc
    rw [← hc.2.1]; exact hpos x w hw (by rw [hc.2.2.2.2]; exact hr)

/-- Assembling `Good15` from a store with the same `coreNoVis` and a root record with the same damage. -/
theorem good15_congr {t t' : Tree} (hg : Good15 t) (hwf' : wfB t' = true)
    (h : ∀ x : Nat, (t'.wins[x]?).map coreNoVis = (t.wins[x]?).map coreNoVis)
    (hd : t'.root.damage = t.root.damage)
    (hfl : t.root.needsExpose = true → t'.root.needsExpose = true)
    (hlat : (t'.root.needsExpose = true ∨ t'.root.needsRestore = true) → t'.root.needsLater = true) : Good15 t' := by
  obtain ⟨a, b, c, d, e, f⟩ := struct_congr h hg.wfp hg.rootWin hg.onlyRoot hg.nodup hg.noSelf hg.pos
  exact { wf := hwf', wfp := a, rootWin := b, onlyRoot := c, nodup := d, noSelf := e, pos := f
          nonempty := by rw [hd]; exact hg.nonempty
          flagged := fun hne => hfl (hg.flagged (by rw [← hd]; exact hne))
          later := hlat }

/-- The structural fields (`WinFlush.coreNoVis`). -/
def cn (w : Win) : Bool × Rect × List Nat × Option Nat × Bool := WinFlush.coreNoVis w

/-- Same structural fields, same root record. -/
def SameCN (t t' : Tree) : Prop := t'.root = t.root ∧ ∀ i : Nat, (t'.wins[i]?).map cn = (t.wins[i]?).map cn

theorem sameCN_refl (t : Tree) : SameCN t t := ⟨rfl, fun _ => rfl⟩
theorem sameCN_trans {a b c : Tree} (h1 : SameCN a b) (h2 : SameCN b c) : SameCN a c :=
  ⟨h2.1.trans h1.1, fun i => (h2.2 i).trans (h1.2 i)⟩

theorem sameCN_set {t : Tree} {i : Nat} {w w' : Win} (hw : t.wins[i]? = some w) (hs : cn w' = cn w) :
    SameCN t (WinTree.set t i w') := by
  refine ⟨rfl, fun j => ?_⟩
  simp only [WinTree.set, Array.getElem?_setIfInBounds]
  by_cases hij : i = j
  · subst hij
    have hi : i < t.wins.size := (Array.getElem?_eq_some_iff.mp hw).1
    rw [hw]; simp [hi, hs]
  · simp [hij]

theorem focusLostSelf_cn {t : Tree} {win : Nat} {evs : List Event} {r : Tree × List Event}
    (h : focusLostSelf t win evs = .ok r) : SameCN t r.1 := by
  simp only [focusLostSelf, bind_ok] at h
  obtain ⟨w, hg, h⟩ := h
  split at h
  · simp only [pure_ok] at h; subst h; exact sameCN_set (get_ok.mp hg).1 rfl
  · simp only [pure_ok] at h; subst h; exact sameCN_refl _

theorem focusLost_cn : ∀ (fuel : Nat) (t : Tree) (win : Nat) (r : Tree × List Event),
    focusLost fuel t win = .ok r → SameCN t r.1 := by
  intro fuel
  induction fuel with
  | zero => intro t win r h; simp [focusLost] at h
  | succ n ih =>
    intro t win r h
    simp only [focusLost, bind_ok] at h
    obtain ⟨r1, h1, h2⟩ := h
    have hs1 : SameCN t r1.1 := by
      simp only [focusLostChild, bind_ok] at h1
      obtain ⟨w, _, h1⟩ := h1
      split at h1
      · simp only [pure_ok] at h1; subst h1; exact sameCN_refl _
      · simp only [bind_ok, pure_ok] at h1
        obtain ⟨r0, h0, w', _, h1⟩ := h1
        subst h1
        exact ih _ _ r0 h0
    exact sameCN_trans hs1 (focusLostSelf_cn h2)

theorem gainLoseOld_cn {fx : Fixes} {t : Tree} {win : Nat} {child : Option Nat} {r : Tree × List Event}
    (h : gainLoseOld fx t win child = .ok r) : SameCN t r.1 := by
  simp only [gainLoseOld, bind_ok] at h
  obtain ⟨w, _, h⟩ := h
  split at h
  · simp only [pure_ok] at h; subst h; exact sameCN_refl _
  · split at h
    · simp only [bind_ok, pure_ok] at h
      obtain ⟨r0, h0, w', _, h⟩ := h
      subst h
      exact focusLost_cn _ _ _ r0 h0
    · simp only [pure_ok] at h; subst h; exact sameCN_refl _

theorem gainSelfOut_cn {fx : Fixes} {t : Tree} {win : Nat} {child : Option Nat} {evs : List Event}
    {r : Tree × List Event} (h : gainSelfOut fx t win child evs = .ok r) : SameCN t r.1 := by
  simp only [gainSelfOut, bind_ok] at h
  obtain ⟨w, hg, h⟩ := h
  split at h
  · simp only [pure_ok] at h; subst h; exact sameCN_set (get_ok.mp hg).1 rfl
  · simp only [pure_ok] at h; subst h; exact sameCN_refl _

theorem gainSelfIn_cn {t : Tree} {win : Nat} {child : Option Nat} {evs : List Event}
    {r : Tree × List Event} (h : gainSelfIn t win child evs = .ok r) : SameCN t r.1 := by
  simp only [gainSelfIn, bind_ok] at h
  obtain ⟨w, hg, h⟩ := h
  split at h
  · simp only [pure_ok] at h; subst h; exact sameCN_set (get_ok.mp hg).1 rfl
  · simp only [pure_ok] at h; subst h; exact sameCN_set (get_ok.mp hg).1 rfl

/-- The window part of `SameCN`, through a whole `_focus_gained` (which may write the root record). -/
theorem focusGained_cnw (fx : Fixes) : ∀ (fuel : Nat) (t : Tree) (win : Nat) (child : Option Nat)
    (r : Tree × List Event), focusGained fx fuel t win child = .ok r →
    ∀ i : Nat, (r.1.wins[i]?).map cn = (t.wins[i]?).map cn := by
  intro fuel
  induction fuel with
  | zero => intro t win child r h; simp [focusGained] at h
  | succ n ih =>
    intro t win child r h i
    simp only [focusGained, bind_ok] at h
    obtain ⟨r1, h1, r2, h2, r3, h3, h4⟩ := h
    have hs2 : SameCN t r2.1 := sameCN_trans (gainLoseOld_cn h1) (gainSelfOut_cn h2)
    have hs3 : (r3.1.wins[i]?).map cn = (r2.1.wins[i]?).map cn := by
      simp only [gainClimb, bind_ok] at h3
      obtain ⟨w, _, h3⟩ := h3
      split at h3
      · split at h3
        · exact ih _ _ _ _ h3 i
        · simp only [pure_ok] at h3; subst h3; rfl
      · simp only [bind_ok, pure_ok] at h3
        obtain ⟨t', ht', h3⟩ := h3
        subst h3
        unfold requestRestoreOf at ht'
        simp only [bind_ok, pure_ok] at ht'
        obtain ⟨_, _, ht'⟩ := ht'
        subst ht'; rfl
    rw [(gainSelfIn_cn h4).2 i, hs3, hs2.2 i]


theorem good15_of {t t' : Tree} (hg : Good15 t) (hwf' : wfB t' = true)
    (h : ∀ x : Nat, (t'.wins[x]?).map coreNoVis = (t.wins[x]?).map coreNoVis)
    (hne : ∀ x ∈ t'.root.damage, x.Nonempty)
    (hfl : t'.root.damage ≠ [] → t'.root.needsExpose = true)
    (hlat : (t'.root.needsExpose = true ∨ t'.root.needsRestore = true) → t'.root.needsLater = true) : Good15 t' := by
  obtain ⟨a, b, c, d, e, f⟩ := struct_congr h hg.wfp hg.rootWin hg.onlyRoot hg.nodup hg.noSelf hg.pos
  exact { wf := hwf', wfp := a, rootWin := b, onlyRoot := c, nodup := d, noSelf := e, pos := f
          nonempty := hne, flagged := hfl, later := hlat }

/-- The root record after an operation that can only request a restore. -/
def RootStep (r r' : Root) : Prop := r' = r ∨ r' = { r with needsRestore := true, needsLater := true }

theorem good15_rootStep {t t' : Tree} (hg : Good15 t) (hwf' : wfB t' = true)
    (h : ∀ x : Nat, (t'.wins[x]?).map coreNoVis = (t.wins[x]?).map coreNoVis) (hr : RootStep t.root t'.root) :
    Good15 t' := by
  rcases hr with hr | hr
  · exact good15_of hg hwf' h (by rw [hr]; exact hg.nonempty) (by rw [hr]; exact hg.flagged) (by rw [hr]; exact hg.later)
  · exact good15_of hg hwf' h (by rw [hr]; exact hg.nonempty) (by rw [hr]; exact hg.flagged) (by rw [hr]; intro _; rfl)

theorem cn_set {t : Tree} {x : Nat} {w w' : Win} (hw : t.wins[x]? = some w) (hs : coreNoVis w' = coreNoVis w) :
    ∀ i : Nat, ((WinTree.set t x w').wins[i]?).map coreNoVis = (t.wins[i]?).map coreNoVis := by
  intro i
  rw [set_lookup hw]
  by_cases hi : x = i
  · subst hi; simp [hw, hs]
  · simp [hi]

theorem restoreIfFocused_rootStep {t t' : Tree} {win : Nat} (h : restoreIfFocused t win = .ok t') :
    t'.wins = t.wins ∧ RootStep t.root t'.root := by
  unfold restoreIfFocused at h
  simp only [bind_ok] at h
  obtain ⟨w, _, h⟩ := h
  split at h
  · unfold requestRestoreOf at h
    simp only [bind_ok, pure_ok] at h
    obtain ⟨_, _, h⟩ := h
    subst h; exact ⟨rfl, .inr rfl⟩
  · simp only [pure_ok] at h; subst h; exact ⟨rfl, .inl rfl⟩

theorem cursor_setter_good {t t' : Tree} {win : Nat} (f : Cursor → Cursor) (hg : Good15 t)
    (hh : (WinTree.modify t win (fun w => { w with cursor := f w.cursor }) >>= fun t1 => restoreIfFocused t1 win) = .ok t') :
    Good15 t' := by
  have hwf' := cursor_setter_wf f hg.wf hh
  simp only [bind_ok] at hh
  obtain ⟨t1, hm, hr⟩ := hh
  unfold WinTree.modify at hm
  simp only [bind_ok, pure_ok] at hm
  obtain ⟨w, hgw, ht1⟩ := hm
  subst ht1
  obtain ⟨hwins, hrs⟩ := restoreIfFocused_rootStep hr
  refine good15_rootStep hg hwf' (fun i => ?_) hrs
  rw [hwins]; exact cn_set (w' := { w with cursor := f w.cursor }) (get_ok.mp hgw).1 rfl i

theorem notify_good {t t' : Tree} {win : Nat} {v : Int} (hg : Good15 t) (hh : setFocusChildNotify t win v = .ok t') :
    Good15 t' := by
  have hwf' := notify_wf hg.wf hh
  unfold setFocusChildNotify WinTree.modify at hh
  simp only [bind_ok, pure_ok] at hh
  obtain ⟨w, hgw, ht1⟩ := hh
  subst ht1
  exact good15_rootStep hg hwf' (cn_set (w' := { w with focusChildNotify := bit1 v }) (get_ok.mp hgw).1 rfl) (.inl rfl)

theorem focusGained_rootStep (fx : Fixes) : ∀ (fuel : Nat) (t : Tree) (x : Nat) (child : Option Nat)
    (r : Tree × List Event), focusGained fx fuel t x child = .ok r → RootStep t.root r.1.root := by
  intro fuel
  induction fuel with
  | zero => intro t x child r h; simp [focusGained] at h
  | succ n ih =>
    intro t x child r h
    simp only [focusGained, bind_ok] at h
    obtain ⟨r1, h1, r2, h2, r3, h3, h4⟩ := h
    have hr2 : r2.1.root = t.root := (gainSelfOut_pv h2).1.trans (gainLoseOld_pv h1).1
    have hr3 : RootStep t.root r3.1.root := by
      simp only [gainClimb, bind_ok] at h3
      obtain ⟨w, _, h3⟩ := h3
      split at h3
      · split at h3
        · have := ih _ _ _ _ h3; rw [hr2] at this; exact this
        · simp only [pure_ok] at h3; subst h3; exact .inl hr2
      · simp only [bind_ok, pure_ok] at h3
        obtain ⟨t', ht', h3⟩ := h3
        subst h3
        unfold requestRestoreOf at ht'
        simp only [bind_ok, pure_ok] at ht'
        obtain ⟨_, _, ht'⟩ := ht'
        subst ht'
        right; show (requestRestore r2.1).root = _
        unfold requestRestore; rw [hr2]
    rw [(gainSelfIn_pv h4).1]; exact hr3

theorem takeFocus_good {fx : Fixes} {t : Tree} {win : Nat} {r : Tree × List Event} (hg : Good15 t)
    (h : takeFocus fx t win = .ok r) : Good15 r.1 :=
  good15_rootStep hg (takeFocus_wf hg.wf h) (focusGained_cnw fx _ _ _ _ _ h) (focusGained_rootStep fx _ _ _ _ _ h)

theorem chainRestoreAfter_rootStep (fx : Fixes) (t t'' : Tree) (p : Option Nat) :
    RootStep t''.root (chainRestoreAfter fx t t'' p).root := by
  unfold chainRestoreAfter
  split
  · exact .inl rfl
  · split
    · split
      · unfold requestRestoreAbove; split
        · exact .inr rfl
        · exact .inl rfl
      · exact .inl rfl
    · exact .inl rfl

theorem good15_flags {t t'' : Tree} (hg : Good15 t) (hwf'' : wfB t'' = true)
    (hcn : ∀ x : Nat, (t''.wins[x]?).map coreNoVis = (t.wins[x]?).map coreNoVis)
    (hne : ∀ x ∈ t''.root.damage, x.Nonempty)
    (hfl : t''.root = t.root ∨ (t''.root.needsExpose = true ∧ t''.root.needsLater = true)) : Good15 t'' := by
  refine good15_of hg hwf'' hcn hne ?_ ?_
  · rcases hfl with h | ⟨a, _⟩
    · rw [h]; exact hg.flagged
    · exact fun _ => a
  · rcases hfl with h | ⟨_, b⟩
    · rw [h]; exact hg.later
    · exact fun _ => b

theorem hide_good {fx : Fixes} {t t' : Tree} {win : Nat} (hg : Good15 t) (hh : hideWin fx t win = .ok t') :
    Good15 t' := by
  unfold hideWin at hh
  simp only [bind_ok] at hh
  obtain ⟨w, hgw, t'', h2, hh⟩ := hh
  have hw := get_ok.mp hgw
  have hwf'' := hide_wf hg.wf h2
  -- the store: visibility of `win`, perhaps the parent's link
  have hcn : ∀ x : Nat, (t''.wins[x]?).map coreNoVis = (t.wins[x]?).map coreNoVis := by
    intro x
    rcases hide_struct h2 hw with ⟨_, ht''⟩ | ⟨p, pw, _, hpw, hwins⟩
    · rw [ht'']; exact cn_set (w' := { w with isVisible := false }) hw.1 rfl x
    · rw [hwins]
      split
      · rw [cn_set (w' := { pw with focusedChild := none }) hpw.1 rfl x]
        exact cn_set (w' := { w with isVisible := false }) hw.1 rfl x
      · exact cn_set (w' := { w with isVisible := false }) hw.1 rfl x
  have hg'' : Good15 t'' := by
    by_cases h0 : win = 0
    · subst h0
      obtain ⟨r0, hr0, _, _, hr0p, _, _⟩ := hg.rootWin.ex
      have := hw.1.symm.trans hr0; simp at this; subst this
      rcases hide_struct h2 hw with ⟨_, ht''⟩ | ⟨p, _, hp, _, _⟩
      · refine good15_flags hg hwf'' hcn ?_ (.inl (by rw [ht'']; rfl))
        rw [ht'']; exact hg.nonempty
      · rw [hr0p] at hp; cases hp
    · obtain ⟨_, _, _, hne, _, _, _, hflags, _⟩ :=
        hide_step encCell (snapshot t) t t'' win h2 h0 hg.wfp hg.rootWin hg.nonempty hg.pos (invC_snapshot t)
      refine good15_flags hg hwf'' hcn hne ?_
      rcases hflags with h | ⟨a, b, _⟩
      · exact .inl h
      · exact .inr ⟨a, b⟩
  split at hh
  · simp only [pure_ok] at hh; subst hh
    exact good15_rootStep hg'' (by exact hwf'') (fun _ => rfl) (.inr rfl)
  · simp only [pure_ok] at hh; subst hh
    refine good15_rootStep hg'' ?_ (fun x => by rw [chainRestoreAfter_wins]) (chainRestoreAfter_rootStep _ _ _ _)
    rw [wfB_wins (chainRestoreAfter_wins _ _ _ _)]; exact hwf''

theorem show_good {fx : Fixes} {t t' : Tree} {win : Nat} (hg : Good15 t) (hh : showWin fx t win = .ok t') :
    Good15 t' := by
  unfold showWin at hh
  simp only [bind_ok, pure_ok] at hh
  obtain ⟨w, hgw, t'', h2, hh⟩ := hh
  have hw := get_ok.mp hgw
  have hwf'' := show_wf hg.wf h2
  have hcn : ∀ x : Nat, (t''.wins[x]?).map coreNoVis = (t.wins[x]?).map coreNoVis := by
    intro x
    rcases show_struct h2 hw with ⟨_, hwins⟩ | ⟨p, pw, _, hpw, hwins⟩
    · rw [hwins]; exact cn_set (w' := { w with isVisible := true }) hw.1 rfl x
    · rw [hwins]
      split
      · rw [cn_set (w' := { pw with focusedChild := some win }) hpw.1 rfl x]
        exact cn_set (w' := { w with isVisible := true }) hw.1 rfl x
      · exact cn_set (w' := { w with isVisible := true }) hw.1 rfl x
  obtain ⟨_, _, _, hne, _, _, _, hflags, _⟩ :=
    show_step encCell (snapshot t) t t'' win h2 hg.wfp hg.rootWin hg.nonempty hg.pos (invC_snapshot t)
  have hg'' : Good15 t'' := by
    refine good15_flags hg hwf'' hcn hne ?_
    rcases hflags with h | ⟨a, b, _⟩
    · exact .inl h
    · exact .inr ⟨a, b⟩
  subst hh
  refine good15_rootStep hg'' ?_ (fun x => by rw [chainRestoreAfter_wins]) (chainRestoreAfter_rootStep _ _ _ _)
  rw [wfB_wins (chainRestoreAfter_wins _ _ _ _)]; exact hwf''

theorem expose_good {t t' : Tree} {win : Nat} {r : Option Rect} (hg : Good15 t)
    (h : expose t (treeFuel t) win r = .ok t') : Good15 t' := by
  obtain ⟨hw, hne, _, hfl, _⟩ := expose_spec _ t win r t' h hg.nonempty hg.pos
  refine good15_flags hg (by rw [wfB_wins hw]; exact hg.wf) (fun x => by rw [hw]) hne ?_
  rcases hfl with h | ⟨a, b, _⟩
  · exact .inl (by rw [h])
  · exact .inr ⟨a, b⟩

theorem restack_request_good {t t' : Tree} {ch : Change} {win : Nat} (hg : Good15 t)
    (h : requestHierarchyChange t (treeFuel t) ch win = .ok t') : Good15 t' := by
  unfold requestHierarchyChange at h
  simp only [bind_ok] at h
  obtain ⟨w, _, h⟩ := h
  split at h
  · simp only [pure_ok] at h; subst h; exact hg
  · simp only [bind_ok, pure_ok] at h
    obtain ⟨_, _, h⟩ := h
    subst h
    refine good15_of hg hg.wf (fun _ => rfl) hg.nonempty hg.flagged ?_
    intro hp
    simp only [Bool.or_eq_true]
    exact .inl (hg.later hp)

theorem move_good {t t' : Tree} {win : Nat} {r : Rect} (hg : Good15 t) (h0 : win ≠ 0)
    (hh : setGeometryExposed t (treeFuel t) win r = .ok t') : Good15 t' := by
  obtain ⟨_, hwf, hrw, hor, hne, _, hpos, hflags, t1', hsb, hwins1⟩ :=
    geom_step encCell (snapshot t) t t' win r hh h0 hg.wfp hg.rootWin hg.onlyRoot hg.nonempty hg.pos (invC_snapshot t)
  have hst := struct_congr_wins hwins1 (struct_sameButG hsb hg.nodup hg.noSelf).1 (struct_sameButG hsb hg.nodup hg.noSelf).2
  exact { wf := setGeometryExposed_wf hg.wf hh, wfp := hwf, rootWin := hrw, onlyRoot := hor
          nodup := hst.1, noSelf := hst.2, pos := hpos, nonempty := hne
          flagged := by
            rcases hflags with h | ⟨a, _⟩
            · rw [h]; exact hg.flagged
            · exact fun _ => a
          later := by
            rcases hflags with h | ⟨_, b, _⟩
            · rw [h]; exact hg.later
            · exact fun _ => b }

/-! ### `tickit_window_close` -/

/-- The store after REMOVE, before the expose and the `closed` mark. -/
def removedStore (t : Tree) (win p : Nat) (w pw : Win) (i : Nat) : Option Win :=
  if i = win then some { w with parent := none }
  else if i = p then some (closedParent pw win)
  else t.wins[i]?

/-- `tickit_window_close` of a window with a parent, in pieces: purge, REMOVE, the expose in the parent, the mark. -/
theorem close_pieces {t t' : Tree} {fuel win p : Nat} {w : Win} (hh : WinTree.close t fuel win = .ok t') (hw : Live t win w)
    (hp : w.parent = some p) (hpne : p ≠ win) :
    ∃ pw tb tc, Live t p pw ∧ win ∈ pw.children ∧ (∀ i : Nat, tb.wins[i]? = removedStore t win p w pw i) ∧
      tb.wins.size = t.wins.size ∧ tb.root.damage = t.root.damage ∧ tb.root.needsExpose = t.root.needsExpose ∧
      tb.root.needsLater = t.root.needsLater ∧ tb.root.needsRestore = t.root.needsRestore ∧
      (∀ q ∈ tb.root.changes, q ∈ t.root.changes) ∧
      (if w.isVisible = true then expose tb fuel p (some w.rect) else pure tb) = .ok tc ∧
      t'.root = tc.root ∧ ∀ i : Nat, t'.wins[i]? = closedStore t win p w pw i := by
  unfold WinTree.close at hh
  simp only [bind_ok] at hh
  obtain ⟨w0, hg, hh⟩ := hh
  have := live_unique (get_ok.mp hg) hw; subst this
  simp only [hp, bind_ok] at hh
  obtain ⟨t1, hpurge, t3, hrem, hmod⟩ := hh
  obtain ⟨hw1, hd1, he1, hl1, hq1⟩ := purge_spec t fuel win t1 hpurge
  have hr1 : t1.root.needsRestore = t.root.needsRestore ∧ ∀ q ∈ t1.root.changes, q ∈ t.root.changes := by
    unfold purgeHierarchyChanges at hpurge
    simp only [bind_ok] at hpurge
    obtain ⟨_, _, _, _, hpurge⟩ := hpurge
    split at hpurge
    · simp only [pure_ok] at hpurge; subst hpurge; exact ⟨rfl, fun _ => id⟩
    · simp only [bind_ok, pure_ok] at hpurge
      obtain ⟨_, _, hpurge⟩ := hpurge
      subst hpurge; exact ⟨rfl, fun q hq => (List.mem_filter.mp hq).1⟩
  obtain ⟨hr1, hq1'⟩ := hr1
  unfold doHierarchyChange at hrem
  simp only [bind_ok, pure_ok] at hrem
  obtain ⟨pw, hgp, w1, hgw1, cs, hcs, w2, hgw2, t2, ht2, hrem⟩ := hrem
  have hpw1 := get_ok.mp hgp
  have hpw : Live t p pw := ⟨by rw [← hw1]; exact hpw1.1, hpw1.2⟩
  have hw1' : w1 = w0 := by
    have := (get_ok.mp hgw1).1; rw [hw1, hw.1] at this; cases this; rfl
  subst hw1'
  obtain ⟨hin, _⟩ := listRemove_mem hcs
  have hcs' : cs = pw.children.erase win := by
    unfold listRemove at hcs; split at hcs
    · cases hcs; rfl
    · cases hcs
  have hw2 : w2 = w1 := by
    have := (get_ok.mp hgw2).1
    rw [set_lookup hpw1.1] at this
    simp only [hpne, if_false] at this
    rw [hw1, hw.1] at this; cases this; rfl
  subst hw2
  have hl2 : ∀ i : Nat, t2.wins[i]? = removedStore t win p w2 pw i := by
    intro i
    rw [← ht2]
    have hwin2 : (WinTree.set t1 p { pw with children := cs, focusedChild := if pw.focusedChild = some win then none else pw.focusedChild }).wins[win]? = some w2 := by
      rw [set_lookup hpw1.1]; simp only [hpne, if_false]; rw [hw1]; exact hw.1
    rw [set_lookup hwin2]
    unfold removedStore
    by_cases hi : i = win
    · subst hi; simp
    · have h1 : ¬ win = i := fun h => hi h.symm
      simp only [h1, hi, if_false]
      rw [set_lookup hpw1.1]
      by_cases hip : i = p
      · subst hip; simp [closedParent, hcs']
      · have h2 : ¬ p = i := fun h => hip h.symm
        simp only [h2, hip, if_false]; rw [hw1]
  have hr2 : t2.root = t1.root := by rw [← ht2]; rfl
  unfold WinTree.modify at hmod
  simp only [bind_ok, pure_ok] at hmod
  obtain ⟨w4, hg4, hmod⟩ := hmod
  have hwins3 : t3.wins = t2.wins := by
    split at hrem
    · obtain ⟨a, _, _⟩ := expose_frame _ _ _ _ _ hrem; exact a
    · simp only [pure_ok] at hrem; subst hrem; rfl
  have hw4 : w4 = { w2 with parent := none } := by
    have := (get_ok.mp hg4).1
    rw [hwins3, hl2 win] at this
    unfold removedStore at this
    simp at this; exact this.symm
  subst hw4
  refine ⟨pw, t2, t3, hpw, hin, hl2, by rw [← ht2]; simp [WinTree.set, hw1], by rw [hr2]; exact hd1, by rw [hr2]; exact he1,
    by rw [hr2]; exact hl1, by rw [hr2]; exact hr1, by rw [hr2]; exact hq1', hrem, ?_, ?_⟩
  · rw [← hmod]; rfl
  · intro i
    rw [← hmod]
    have hl3 : t3.wins[win]? = some { w2 with parent := none } := by
      rw [hwins3, hl2 win]; unfold removedStore; simp
    rw [set_lookup hl3]
    unfold closedStore
    by_cases hi : i = win
    · subst hi; simp
    · have h1 : ¬ win = i := fun h => hi h.symm
      simp only [h1, hi, if_false]
      rw [hwins3, hl2 i]
      unfold removedStore
      simp only [hi, if_false]

/-- The structural invariants after REMOVE (with or without the `closed` mark). -/
theorem struct_removed {t T : Tree} {win p : Nat} {w w' pw : Win}
    (hwfp : WFp t) (hrw : RootWin t) (hor : OnlyRoot t) (hnd : ChildrenNodup t) (hns : NoSelfParent t)
    (hpos : RootsPositive t)
    (hw : t.wins[win]? = some w) (hp : w.parent = some p) (hpw : t.wins[p]? = some pw) (hpne : p ≠ win) (h0 : win ≠ 0)
    (hw' : w'.children = w.children ∧ w'.isRoot = w.isRoot ∧ w'.rect = w.rect ∧ w'.freed = w.freed ∧ w'.parent = none)
    (hl : ∀ i : Nat, T.wins[i]? = if i = win then some w' else if i = p then some (closedParent pw win) else t.wins[i]?) :
    WFp T ∧ RootWin T ∧ OnlyRoot T ∧ ChildrenNodup T ∧ NoSelfParent T ∧ RootsPositive T := by
  have hlw : T.wins[win]? = some w' := by rw [hl win]; simp
  have hlp : T.wins[p]? = some (closedParent pw win) := by rw [hl p]; simp [hpne]
  have hlo : ∀ i : Nat, i ≠ win → i ≠ p → T.wins[i]? = t.wins[i]? := by
    intro i h1 h2; rw [hl i]; simp [h1, h2]
  have hcp : (closedParent pw win).isRoot = pw.isRoot ∧ (closedParent pw win).parent = pw.parent ∧
      (closedParent pw win).rect = pw.rect ∧ (closedParent pw win).freed = pw.freed ∧
      (closedParent pw win).children = pw.children.erase win := ⟨rfl, rfl, rfl, rfl, rfl⟩
  -- every window of `T` against the window of `t`
  have hrel : ∀ (x : Nat) (wb : Win), T.wins[x]? = some wb → ∃ w0, t.wins[x]? = some w0 ∧ wb.isRoot = w0.isRoot ∧
      wb.rect = w0.rect ∧ wb.freed = w0.freed ∧
      (x ≠ win → wb.parent = w0.parent) ∧ (x = win → wb.parent = none) ∧
      (x ≠ p → wb.children = w0.children) ∧ (x = p → wb.children = w0.children.erase win) := by
    intro x wb hwb
    by_cases hxi : x = win
    · subst hxi
      rw [hlw] at hwb; cases hwb
      exact ⟨w, hw, hw'.2.1, hw'.2.2.1, hw'.2.2.2.1, fun hx => absurd rfl hx, fun _ => hw'.2.2.2.2, fun _ => hw'.1,
        fun hx => absurd hx.symm hpne⟩
    · by_cases hxp : x = p
      · subst hxp
        rw [hlp] at hwb; cases hwb
        exact ⟨pw, hpw, hcp.1, hcp.2.2.1, hcp.2.2.2.1, fun _ => hcp.2.1, fun hx => absurd hx hxi,
          fun hx => absurd rfl hx, fun _ => hcp.2.2.2.2⟩
      · rw [hlo x hxi hxp] at hwb
        exact ⟨wb, hwb, rfl, rfl, rfl, fun _ => rfl, fun hx => absurd hx hxi, fun _ => rfl, fun hx => absurd hx hxp⟩
  have hrel' : ∀ (x : Nat) (w0 : Win), t.wins[x]? = some w0 → ∃ wb, T.wins[x]? = some wb := by
    intro x w0 hw0
    by_cases hxi : x = win
    · exact ⟨_, by rw [hxi]; exact hlw⟩
    · by_cases hxp : x = p
      · exact ⟨_, by rw [hxp]; exact hlp⟩
      · exact ⟨w0, by rw [hlo x hxi hxp]; exact hw0⟩
  have honly : ∀ (x : Nat) (w0 : Win), x ≠ p → t.wins[x]? = some w0 → win ∉ w0.children := by
    intro x w0 hx hw0 hmem
    obtain ⟨cw, hcw, hcpar, _⟩ := hwfp.child x w0 hw0 win hmem
    rw [hw] at hcw; cases hcw
    rw [hp] at hcpar
    exact hx (Option.some.inj hcpar).symm
  have hnotin : win ∉ pw.children.erase win := fun hmem => (List.Nodup.not_mem_erase (hnd p pw hpw)) hmem
  refine ⟨⟨?_⟩, ?_, ?_, ?_, ?_, ?_⟩
  · intro cur wb hwb ch hch
    obtain ⟨w0, hw0, _, _, _, _, _, hc1, hc2⟩ := hrel cur wb hwb
    have hch' : ch ∈ w0.children ∧ ch ≠ win := by
      by_cases hcp' : cur = p
      · rw [hc2 hcp'] at hch
        subst hcp'
        rw [hpw] at hw0; cases hw0
        exact ⟨List.mem_of_mem_erase hch, fun hx => hnotin (by rw [hx] at hch; exact hch)⟩
      · rw [hc1 hcp'] at hch
        exact ⟨hch, fun hx => honly cur w0 hcp' hw0 (by rw [hx] at hch; exact hch)⟩
    obtain ⟨cw, hcw, hcpar, hcr⟩ := hwfp.child cur w0 hw0 ch hch'.1
    obtain ⟨cwb, hcwb⟩ := hrel' ch cw hcw
    obtain ⟨cw2, hcw2, hr2, _, _, hp2, _, _, _⟩ := hrel ch cwb hcwb
    rw [hcw] at hcw2; cases hcw2
    exact ⟨cwb, hcwb, by rw [hp2 hch'.2]; exact hcpar, by rw [hr2]; exact hcr⟩
  · obtain ⟨r, hr, hf, hroot, hpar, htop, hleft⟩ := hrw.ex
    obtain ⟨rb, hrb⟩ := hrel' 0 r hr
    obtain ⟨r2, hr2, e1, e2, e3, e4, _, _, _⟩ := hrel 0 rb hrb
    rw [hr] at hr2; cases hr2
    exact ⟨⟨rb, hrb, by rw [e3]; exact hf, by rw [e1]; exact hroot, by rw [e4 (fun h => h0 h.symm)]; exact hpar,
      by rw [e2]; exact htop, by rw [e2]; exact hleft⟩⟩
  · intro x wb hwb hr
    obtain ⟨w0, hw0, hr1, _⟩ := hrel x wb hwb
    exact hor x w0 hw0 (by rw [← hr1]; exact hr)
  · intro cur wb hwb
    obtain ⟨w0, hw0, _, _, _, _, _, hc1, hc2⟩ := hrel cur wb hwb
    by_cases hcp' : cur = p
    · rw [hc2 hcp']; exact (hnd cur w0 hw0).erase win
    · rw [hc1 hcp']; exact hnd cur w0 hw0
  · intro x wb hwb
    obtain ⟨w0, hw0, _, _, _, hp1, hp2, _, _⟩ := hrel x wb hwb
    by_cases hxi : x = win
    · rw [hp2 hxi]; exact fun hx => by cases hx
    · rw [hp1 hxi]; exact hns x w0 hw0
  · intro x wb hwb hr
    obtain ⟨w0, hw0, hr1, hr2, _⟩ := hrel x wb hwb
    rw [hr2]; exact hpos x w0 hw0 (by rw [← hr1]; exact hr)

theorem close_good {fx : Fixes} {t t' : Tree} {win : Nat} (hg : Good15 t) (hh : closeWin fx t win = .ok t') :
    Good15 t' := by
  unfold closeWin at hh
  simp only [bind_ok, pure_ok] at hh
  obtain ⟨w, hgw, t'', h2, hh⟩ := hh
  have hw := get_ok.mp hgw
  have hwf'' := close_wf hg.wf hg.nodup h2
  have hne : ∀ p, w.parent = some p → p ≠ win := fun p hp hc => by
    have := (wf_parent hg.wf hw hp).1
    exact absurd (hc ▸ this) (Nat.lt_irrefl _)
  have hg'' : Good15 t'' := by
    cases hp : w.parent with
    | none =>
      obtain ⟨_, hcase⟩ := close_struct h2 hw hne
      rcases hcase with ⟨_, hwins, hroot⟩ | ⟨p, _, hp', _⟩
      · refine good15_rootStep hg hwf'' (fun x => ?_) (.inl hroot)
        rw [hwins]; exact cn_set (w' := { w with isClosed := true }) hw.1 rfl x
      · rw [hp] at hp'; cases hp'
    | some p =>
      have hplt := (wf_parent hg.wf hw hp).1
      have h0 : win ≠ 0 := fun h => by subst h; omega
      obtain ⟨pw, tb, tc, hpw, hin, hlb, hszb, hdb, heb, hlatb, hrb, _, hexp, hroot', hl'⟩ :=
        close_pieces h2 hw hp (hne p hp)
      obtain ⟨b1, b2, b3, b4, b5, b6⟩ := struct_removed (T := tb) (w' := { w with parent := none })
        hg.wfp hg.rootWin hg.onlyRoot hg.nodup hg.noSelf hg.pos hw.1 hp hpw.1 (hne p hp) h0
        ⟨rfl, rfl, rfl, rfl, rfl⟩ (fun i => by rw [hlb i]; rfl)
      obtain ⟨c1, c2, c3, c4, c5, c6⟩ := struct_removed (T := t'') (w' := { w with parent := none, isClosed := true })
        hg.wfp hg.rootWin hg.onlyRoot hg.nodup hg.noSelf hg.pos hw.1 hp hpw.1 (hne p hp) h0
        ⟨rfl, rfl, rfl, rfl, rfl⟩ (fun i => by rw [hl' i]; rfl)
      have hneb : ∀ x ∈ tb.root.damage, x.Nonempty := by rw [hdb]; exact hg.nonempty
      have hroots : (∀ x ∈ tc.root.damage, x.Nonempty) ∧
          (tc.root.damage ≠ [] → tc.root.needsExpose = true) ∧
          ((tc.root.needsExpose = true ∨ tc.root.needsRestore = true) → tc.root.needsLater = true) := by
        have hsame : (∀ x ∈ tb.root.damage, x.Nonempty) ∧ (tb.root.damage ≠ [] → tb.root.needsExpose = true) ∧
            ((tb.root.needsExpose = true ∨ tb.root.needsRestore = true) → tb.root.needsLater = true) :=
          ⟨hneb, by rw [hdb, heb]; exact hg.flagged, by rw [heb, hrb, hlatb]; exact hg.later⟩
        split at hexp
        · obtain ⟨_, hne', _, hfl, _⟩ := expose_spec _ tb p _ tc hexp hneb b6
          rcases hfl with h | ⟨a, b, _⟩
          · rw [h]; exact hsame
          · exact ⟨hne', fun _ => a, fun _ => b⟩
        · simp only [pure_ok] at hexp; subst hexp; exact hsame
      exact { wf := hwf'', wfp := c1, rootWin := c2, onlyRoot := c3, nodup := c4, noSelf := c5, pos := c6
              nonempty := by rw [hroot']; exact hroots.1
              flagged := by rw [hroot']; exact hroots.2.1
              later := by rw [hroot']; exact hroots.2.2 }
  subst hh
  refine good15_rootStep hg'' ?_ (fun x => by rw [chainRestoreAfter_wins]) (chainRestoreAfter_rootStep _ _ _ _)
  rw [wfB_wins (chainRestoreAfter_wins _ _ _ _)]; exact hwf''

/-! ### `tickit_window_new` -/

/-- The record `tickit_window_new` starts a window with. -/
def newWin (par : Nat) (rect : Rect) (hid st : Bool) : Win :=
  { parent := some par, rect := rect, isVisible := !hid, stealInput := st }

/-- The store after the new window is linked into its parent. -/
def insertedStore (t : Tree) (par : Nat) (pw wn : Win) (low : Bool) (i : Nat) : Option Win :=
  if i = t.wins.size then some wn
  else if i = par then
    some { pw with children := if low then pw.children ++ [t.wins.size] else t.wins.size :: pw.children }
  else t.wins[i]?

theorem push_lookup (t : Tree) (wn : Win) (i : Nat) :
    (t.wins.push wn)[i]? = if i = t.wins.size then some wn else t.wins[i]? := by
  by_cases hi : i = t.wins.size
  · subst hi; simp
  · simp only [hi, if_false]
    by_cases hlt : i < t.wins.size
    · simp [Array.getElem?_push, hi]
    · have : t.wins.size ≤ i := Nat.le_of_not_lt hlt
      rw [Array.getElem?_eq_none (by simp; omega), Array.getElem?_eq_none this]

/-- The body of `tickit_window_new` after the ROOT_PARENT walk. -/
theorem newWindow_body {t t' : Tree} {F : Nat} {hid low st : Bool} {id : Nat} (x : Nat × Rect)
    (hb : (do
      let _ ← WinTree.get t x.fst
      let t_1 ← doHierarchyChange
          { wins := t.wins.push { parent := some x.fst, rect := x.snd, isVisible := !hid, stealInput := st },
            root := t.root }
          F (if low = true then Change.insertLast else Change.insertFirst) x.fst t.wins.size
      pure (t_1, t.wins.size)) = Res.ok (t', id)) :
    id = t.wins.size ∧ ∃ par rect pw tb, Live t par pw ∧
      (∀ i : Nat, tb.wins[i]? = insertedStore t par pw (newWin par rect hid st) low i) ∧
      tb.wins.size = t.wins.size + 1 ∧ tb.root = t.root ∧
      (if (!hid) = true then expose tb F par (some rect) else pure tb) = .ok t' := by
  simp only [bind_ok, pure_ok] at hb
  obtain ⟨pw, hgp, t1, hdc, hfin⟩ := hb
  simp only [Prod.mk.injEq] at hfin
  obtain ⟨ht1, hid'⟩ := hfin
  subst ht1
  refine ⟨hid'.symm, x.1, x.2, pw, ?_⟩
  have hpw := get_ok.mp hgp
  have hplt := live_lt hpw
  unfold doHierarchyChange at hdc
  simp only [bind_ok] at hdc
  obtain ⟨pw0, hg0, wn0, hgn, hdc⟩ := hdc
  have hpw0 : pw0 = pw := by
    have := (get_ok.mp hg0).1
    simp only [] at this
    rw [push_lookup] at this
    simp only [Nat.ne_of_lt hplt, if_false] at this
    rw [hpw.1] at this; cases this; rfl
  subst hpw0
  have hwn0 : wn0 = newWin x.1 x.2 hid st := by
    have := (get_ok.mp hgn).1
    simp only [] at this
    rw [push_lookup] at this
    simp at this; exact this.symm
  subst hwn0
  have key : ∀ (cs' : List Nat),
      (∀ i : Nat, (WinTree.set { wins := t.wins.push (newWin x.1 x.2 hid st), root := t.root } x.1
          { pw0 with children := cs' }).wins[i]? =
        if i = t.wins.size then some (newWin x.1 x.2 hid st) else if i = x.1 then some { pw0 with children := cs' }
        else t.wins[i]?) := by
    intro cs' i
    have hl : ({ wins := t.wins.push (newWin x.1 x.2 hid st), root := t.root } : Tree).wins[x.1]? = some pw0 := by
      simp only []
      rw [push_lookup]; simp only [Nat.ne_of_lt hplt, if_false]; exact hpw.1
    rw [set_lookup hl]
    by_cases hi : i = t.wins.size
    · subst hi
      have : ¬ x.1 = t.wins.size := Nat.ne_of_lt hplt
      simp only [this, if_false]
      rw [push_lookup]; simp
    · simp only [hi, if_false]
      by_cases hip : i = x.1
      · subst hip; simp
      · have : ¬ x.1 = i := fun h => hip h.symm
        simp only [this, hip, if_false]
        rw [push_lookup]; simp only [hi, if_false]
  cases low with
  | true =>
    simp only [if_true, bind_ok, pure_ok] at hdc
    obtain ⟨tb, htb, hdc⟩ := hdc
    subst htb
    refine ⟨WinTree.set { wins := t.wins.push (newWin x.1 x.2 hid st), root := t.root } x.1
        { pw0 with children := pw0.children ++ [t.wins.size] }, hpw, ?_, by simp [WinTree.set], rfl, hdc⟩
    intro i; rw [key]; unfold insertedStore; simp
  | false =>
    simp only [Bool.false_eq_true, if_false, bind_ok, pure_ok] at hdc
    obtain ⟨tb, htb, hdc⟩ := hdc
    subst htb
    refine ⟨WinTree.set { wins := t.wins.push (newWin x.1 x.2 hid st), root := t.root } x.1
        { pw0 with children := t.wins.size :: pw0.children }, hpw, ?_, by simp [WinTree.set], rfl, hdc⟩
    intro i; rw [key]; unfold insertedStore; simp

/-- `tickit_window_new` in pieces: the ROOT_PARENT walk, the push, the link, the expose. -/
theorem newWindow_pieces {t t' : Tree} {F par0 : Nat} {rect0 : Rect} {rp hid low st : Bool} {id : Nat}
    (h : newWindow t F par0 rect0 rp hid low st = .ok (t', id)) :
    id = t.wins.size ∧ ∃ par rect pw tb, Live t par pw ∧
      (∀ i : Nat, tb.wins[i]? = insertedStore t par pw (newWin par rect hid st) low i) ∧
      tb.wins.size = t.wins.size + 1 ∧ tb.root = t.root ∧
      (if (!hid) = true then expose tb F par (some rect) else pure tb) = .ok t' := by
  unfold newWindow at h
  cases rp with
  | true =>
    simp only [if_true, bind_ok] at h
    obtain ⟨x, _, h⟩ := h
    exact newWindow_body x (by simpa only [bind_ok] using h)
  | false =>
    have := newWindow_body (t := t) (t' := t') (F := F) (hid := hid) (low := low) (st := st) (id := id) (par0, rect0)
    simp only [Bool.false_eq_true, if_false, bind_ok, pure_ok] at h this
    obtain ⟨x, hx, h⟩ := h
    subst hx
    exact this h

/-- The new child list contains the old one and the new window. -/
theorem mem_inserted (cs : List Nat) (n : Nat) (low : Bool) (c : Nat) :
    c ∈ (if low then cs ++ [n] else n :: cs) ↔ (c ∈ cs ∨ c = n) := by
  cases low <;> simp [or_comm]

/-- The store invariant after a window is created. -/
theorem wfB_inserted {t T : Tree} {par : Nat} {pw : Win} {rect : Rect} {hid st low : Bool} (hwf : wfB t = true)
    (hpw : Live t par pw) (hl : ∀ i : Nat, T.wins[i]? = insertedStore t par pw (newWin par rect hid st) low i) :
    wfB T = true := by
  have hplt := live_lt hpw
  have hpn : par ≠ t.wins.size := Nat.ne_of_lt hplt
  have hln : T.wins[t.wins.size]? = some (newWin par rect hid st) := by rw [hl]; unfold insertedStore; simp
  have hlp : T.wins[par]? = some { pw with children := if low then pw.children ++ [t.wins.size] else t.wins.size :: pw.children } := by
    rw [hl]; unfold insertedStore; simp [hpn]
  have hlo : ∀ i : Nat, i ≠ t.wins.size → i ≠ par → T.wins[i]? = t.wins[i]? := by
    intro i h1 h2; rw [hl]; unfold insertedStore; simp [h1, h2]
  -- an old live window seen from the new store
  have look : ∀ (c : Nat) (cw : Win), Live t c cw →
      ∃ cw', T.wins[c]? = some cw' ∧ cw'.freed = false ∧ cw'.parent = cw.parent ∧ cw'.isVisible = cw.isVisible ∧
        (∀ j, j ∈ cw.children → j ∈ cw'.children) := by
    intro c cw hcw
    have hcn : c ≠ t.wins.size := Nat.ne_of_lt (live_lt hcw)
    by_cases hcp : c = par
    · subst hcp
      have := live_unique hcw hpw; subst this
      exact ⟨_, hlp, hcw.2, rfl, rfl, fun j hj => (mem_inserted _ _ _ j).mpr (.inl hj)⟩
    · exact ⟨cw, by rw [hlo c hcn hcp]; exact hcw.1, hcw.2, rfl, rfl, fun _ hj => hj⟩
  apply wfB_of
  · obtain ⟨r, hr0, h1, h2, h3⟩ := wf_root' hwf
    obtain ⟨r', hr', hf', hp', _, _⟩ := look 0 r ⟨hr0, h2⟩
    by_cases h0p : (0 : Nat) = par
    · subst h0p
      have := hpw.1; rw [hr0] at this; cases this
      exact ⟨_, hlp, h1, h2, h3⟩
    · have h0n : (0 : Nat) ≠ t.wins.size := fun h => by rw [← h] at hplt; omega
      exact ⟨r, by rw [hlo 0 h0n h0p]; exact hr0, h1, h2, h3⟩
  · intro j x hx hf
    by_cases hjn : j = t.wins.size
    · subst hjn
      rw [hln] at hx; cases hx
      apply winOk_intro
      · intro q hq
        simp only [newWin, Option.some.injEq] at hq
        subst hq
        exact ⟨hplt, rfl, _, hlp, hpw.2, (mem_inserted _ _ _ _).mpr (.inr rfl)⟩
      · intro c hc; simp [newWin] at hc
      · intro c hc; simp [newWin] at hc
    · by_cases hjp : j = par
      · subst hjp
        rw [hlp] at hx; cases hx
        apply winOk_intro
        · intro q hq
          obtain ⟨h1, h2, qw, hqw, hmem⟩ := wf_parent hwf hpw hq
          obtain ⟨qw', a, b, _, _, e⟩ := look q qw hqw
          exact ⟨h1, h2, qw', a, b, e _ hmem⟩
        · intro c hc
          rcases (mem_inserted _ _ _ c).mp hc with hc | hc
          · obtain ⟨cw, hcw, hcp⟩ := wf_child hwf hpw hc
            obtain ⟨cw', a, b, c', _, _⟩ := look c cw hcw
            exact ⟨cw', a, b, c'.trans hcp⟩
          · subst hc; exact ⟨_, hln, rfl, rfl⟩
        · intro c hc
          obtain ⟨cw, hcw, hcp, hcv⟩ := wf_focused hwf hpw hc
          obtain ⟨cw', a, b, c', d, _⟩ := look c cw hcw
          exact ⟨cw', a, b, c'.trans hcp, d.trans hcv⟩
      · rw [hlo j hjn hjp] at hx
        have hxl : Live t j x := ⟨hx, hf⟩
        apply winOk_intro
        · intro q hq
          obtain ⟨h1, h2, qw, hqw, hmem⟩ := wf_parent hwf hxl hq
          obtain ⟨qw', a, b, _, _, e⟩ := look q qw hqw
          exact ⟨h1, h2, qw', a, b, e _ hmem⟩
        · intro c hc
          obtain ⟨cw, hcw, hcp⟩ := wf_child hwf hxl hc
          obtain ⟨cw', a, b, c', _, _⟩ := look c cw hcw
          exact ⟨cw', a, b, c'.trans hcp⟩
        · intro c hc
          obtain ⟨cw, hcw, hcp, hcv⟩ := wf_focused hwf hxl hc
          obtain ⟨cw', a, b, c', d, _⟩ := look c cw hcw
          exact ⟨cw', a, b, c'.trans hcp, d.trans hcv⟩

/-- The structural invariants after a window is created. -/
theorem struct_inserted {t T : Tree} {par : Nat} {pw : Win} {rect : Rect} {hid st low : Bool}
    (hwfp : WFp t) (hrw : RootWin t) (hor : OnlyRoot t) (hnd : ChildrenNodup t) (hns : NoSelfParent t)
    (hpos : RootsPositive t) (hpw : Live t par pw)
    (hl : ∀ i : Nat, T.wins[i]? = insertedStore t par pw (newWin par rect hid st) low i) :
    WFp T ∧ RootWin T ∧ OnlyRoot T ∧ ChildrenNodup T ∧ NoSelfParent T ∧ RootsPositive T := by
  have hplt := live_lt hpw
  have hpn : par ≠ t.wins.size := Nat.ne_of_lt hplt
  have hln : T.wins[t.wins.size]? = some (newWin par rect hid st) := by rw [hl]; unfold insertedStore; simp
  have hlp : T.wins[par]? = some { pw with children := if low then pw.children ++ [t.wins.size] else t.wins.size :: pw.children } := by
    rw [hl]; unfold insertedStore; simp [hpn]
  have hlo : ∀ i : Nat, i ≠ t.wins.size → i ≠ par → T.wins[i]? = t.wins[i]? := by
    intro i h1 h2; rw [hl]; unfold insertedStore; simp [h1, h2]
  have hlt_of : ∀ (c : Nat) (cw : Win), t.wins[c]? = some cw → c ≠ t.wins.size := fun c cw h =>
    Nat.ne_of_lt (Array.getElem?_eq_some_iff.mp h).1
  have hnotin : t.wins.size ∉ pw.children := by
    intro hmem
    obtain ⟨cw, hcw, _, _⟩ := hwfp.child par pw hpw.1 _ hmem
    exact hlt_of _ cw hcw rfl
  -- every window of `T` against `t`
  have hrel : ∀ (x : Nat) (wb : Win), T.wins[x]? = some wb →
      (x = t.wins.size ∧ wb = newWin par rect hid st) ∨
      (x ≠ t.wins.size ∧ ∃ w0, t.wins[x]? = some w0 ∧ wb.isRoot = w0.isRoot ∧ wb.rect = w0.rect ∧ wb.freed = w0.freed ∧
        wb.parent = w0.parent ∧ (x ≠ par → wb.children = w0.children) ∧
        (x = par → wb.children = if low then w0.children ++ [t.wins.size] else t.wins.size :: w0.children)) := by
    intro x wb hwb
    by_cases hxn : x = t.wins.size
    · subst hxn; rw [hln] at hwb; cases hwb; exact .inl ⟨rfl, rfl⟩
    · right
      refine ⟨hxn, ?_⟩
      by_cases hxp : x = par
      · subst hxp
        rw [hlp] at hwb; cases hwb
        exact ⟨pw, hpw.1, rfl, rfl, rfl, rfl, fun h => absurd rfl h, fun _ => rfl⟩
      · rw [hlo x hxn hxp] at hwb
        exact ⟨wb, hwb, rfl, rfl, rfl, rfl, fun _ => rfl, fun h => absurd h hxp⟩
  have hfwd : ∀ (x : Nat) (w0 : Win), t.wins[x]? = some w0 → ∃ wb, T.wins[x]? = some wb ∧ wb.isRoot = w0.isRoot ∧
      wb.parent = w0.parent ∧ wb.rect = w0.rect ∧ wb.freed = w0.freed := by
    intro x w0 hw0
    have hxn := hlt_of x w0 hw0
    by_cases hxp : x = par
    · subst hxp
      rw [hpw.1] at hw0; cases hw0
      exact ⟨_, hlp, rfl, rfl, rfl, rfl⟩
    · exact ⟨w0, by rw [hlo x hxn hxp]; exact hw0, rfl, rfl, rfl, rfl⟩
  refine ⟨⟨?_⟩, ?_, ?_, ?_, ?_, ?_⟩
  · intro cur wb hwb ch hch
    rcases hrel cur wb hwb with ⟨_, rfl⟩ | ⟨hcn, w0, hw0, _, _, _, _, hc1, hc2⟩
    · simp [newWin] at hch
    · by_cases hcp : cur = par
      · subst hcp
        rw [hpw.1] at hw0; cases hw0
        rw [hc2 rfl] at hch
        rcases (mem_inserted _ _ _ ch).mp hch with hch | hch
        · obtain ⟨cw, hcw, hcpar, hcr⟩ := hwfp.child cur _ hpw.1 ch hch
          obtain ⟨cwb, a, b, c, _, _⟩ := hfwd ch cw hcw
          exact ⟨cwb, a, by rw [c]; exact hcpar, by rw [b]; exact hcr⟩
        · subst hch; exact ⟨_, hln, rfl, rfl⟩
      · rw [hc1 hcp] at hch
        obtain ⟨cw, hcw, hcpar, hcr⟩ := hwfp.child cur w0 hw0 ch hch
        obtain ⟨cwb, a, b, c, _, _⟩ := hfwd ch cw hcw
        exact ⟨cwb, a, by rw [c]; exact hcpar, by rw [b]; exact hcr⟩
  · obtain ⟨r, hr, hf, hroot, hpar, htop, hleft⟩ := hrw.ex
    obtain ⟨rb, a, b, c, d, e⟩ := hfwd 0 r hr
    exact ⟨⟨rb, a, by rw [e]; exact hf, by rw [b]; exact hroot, by rw [c]; exact hpar, by rw [d]; exact htop,
      by rw [d]; exact hleft⟩⟩
  · intro x wb hwb hr
    rcases hrel x wb hwb with ⟨_, rfl⟩ | ⟨_, w0, hw0, hr1, _⟩
    · simp [newWin] at hr
    · exact hor x w0 hw0 (by rw [← hr1]; exact hr)
  · intro cur wb hwb
    rcases hrel cur wb hwb with ⟨_, rfl⟩ | ⟨hcn, w0, hw0, _, _, _, _, hc1, hc2⟩
    · simp [newWin]
    · by_cases hcp : cur = par
      · subst hcp
        rw [hpw.1] at hw0; cases hw0
        rw [hc2 rfl]
        have hnd0 := hnd cur _ hpw.1
        cases low with
        | true =>
          simp only [if_true]
          exact List.nodup_append.mpr ⟨hnd0, by simp, fun a ha b hb => by simp at hb; subst hb; exact fun h => hnotin (h ▸ ha)⟩
        | false =>
          simp only [Bool.false_eq_true, if_false]
          exact List.nodup_cons.mpr ⟨hnotin, hnd0⟩
      · rw [hc1 hcp]; exact hnd cur w0 hw0
  · intro x wb hwb
    rcases hrel x wb hwb with ⟨rfl, rfl⟩ | ⟨_, w0, hw0, _, _, _, hp1, _⟩
    · simp only [newWin]; intro h; cases h; exact hpn rfl
    · rw [hp1]; exact hns x w0 hw0
  · intro x wb hwb hr
    rcases hrel x wb hwb with ⟨_, rfl⟩ | ⟨_, w0, hw0, hr1, hr2, _⟩
    · simp [newWin] at hr
    · rw [hr2]; exact hpos x w0 hw0 (by rw [← hr1]; exact hr)

/-! ### the store with one dead slot appended (same size as after `tickit_window_new`) -/

def padded (t : Tree) : Tree := { t with wins := t.wins.push { freed := true } }

theorem padded_lookup (t : Tree) (i : Nat) :
    (padded t).wins[i]? = if i = t.wins.size then some { freed := true } else t.wins[i]? := push_lookup t _ i

theorem padded_size (t : Tree) : (padded t).wins.size = t.wins.size + 1 := by simp [padded]

/-- The dead slot changes nothing for the composition, whatever (sufficient) fuel is used. -/
theorem ownerLoc_padded {t : Tree} (h : wfB t = true) : ∀ (k k' x : Nat) (l c : Int),
    t.wins.size < k + x → t.wins.size < k' + x → ownerLoc (padded t) k x l c = ownerLoc t k' x l c := by
  intro k
  induction k with
  | zero =>
    intro k' x l c h1 _
    have hx : t.wins[x]? = none := by simp; omega
    cases k' with
    | zero => rfl
    | succ k' => rw [ownerLoc, ownerLoc, hx]
  | succ k ih =>
    intro k' x l c h1 h2
    rw [ownerLoc, padded_lookup]
    by_cases hxs : x = t.wins.size
    · subst hxs
      have hx : t.wins[t.wins.size]? = none := by simp
      cases k' with
      | zero => simp [ownerLoc]
      | succ k' => rw [ownerLoc, hx]; simp
    · simp only [hxs, if_false]
      cases k' with
      | zero =>
        have hx : t.wins[x]? = none := by simp; omega
        rw [hx]; rfl
      | succ k' =>
        rw [ownerLoc]
        cases hw : t.wins[x]? with
        | none => rfl
        | some w =>
          simp only []
          by_cases h1' : (!w.isVisible || w.freed) = true
          · simp [h1']
          · simp only [h1', Bool.false_eq_true, if_false]
            by_cases h2' : (!w.rect.memb l c) = true
            · simp [h2']
            · simp only [h2', Bool.false_eq_true, if_false]
              have hfree : w.freed = false := by
                cases hf : w.freed with
                | false => rfl
                | true => simp [hf] at h1'
              have : w.children.findSome? (fun ch => ownerLoc (padded t) k ch (l - w.rect.top) (c - w.rect.left)) =
                     w.children.findSome? (fun ch => ownerLoc t k' ch (l - w.rect.top) (c - w.rect.left)) := by
                apply findSome_congr
                intro ch hch
                obtain ⟨cw, hcw, hcp⟩ := wf_child h ⟨hw, hfree⟩ hch
                have := (wf_parent h hcw hcp).1
                exact ih k' ch _ _ (by omega) (by omega)
              rw [this]

theorem ownerAt_padded {t : Tree} (h : wfB t = true) (L C : Int) : ownerAt (padded t) L C = ownerAt t L C := by
  unfold ownerAt
  exact ownerLoc_padded h _ _ 0 L C (by rw [padded_size]; omega) (by omega)

theorem chainEnd_padded {t : Tree} (h : wfB t = true) : ∀ (f f' x : Nat) (w : Win), Live t x w →
    t.wins.size < f + x → t.wins.size < f' + x → chainEnd (padded t) f x = chainEnd t f' x := by
  intro f
  induction f with
  | zero => intro f' x w hw h1 _; have := live_lt hw; omega
  | succ f ih =>
    intro f' x w hw h1 h2
    have hxs : x ≠ t.wins.size := Nat.ne_of_lt (live_lt hw)
    cases f' with
    | zero => have := live_lt hw; omega
    | succ f' =>
      rw [chainEnd, padded_lookup]
      simp only [hxs, if_false]
      cases hfc : w.focusedChild with
      | none => rw [hw.1, chainEnd_none hw hfc]; simp only [hfc]
      | some c =>
        rw [hw.1, chainEnd_some hw hfc]
        simp only [hfc]
        obtain ⟨cw, hcw, hcp, _⟩ := wf_focused h hw hfc
        have := (wf_parent h hcw hcp).1
        exact ih f' c cw hcw (by omega) (by omega)

theorem winOk_padded {t : Tree} {j : Nat} {x : Win} (hj : t.wins[j]? = some x) (hf : x.freed = false)
    (h : winOk t j x = true) (hwf : wfB t = true) : winOk (padded t) j x = true := by
  have hxl : Live t j x := ⟨hj, hf⟩
  apply winOk_intro
  · intro q hq
    obtain ⟨h1, h2, qw, hqw, hmem⟩ := wf_parent hwf hxl hq
    exact ⟨h1, h2, qw, by rw [padded_lookup]; simp [Nat.ne_of_lt (live_lt hqw)]; exact hqw.1, hqw.2, hmem⟩
  · intro c hc
    obtain ⟨cw, hcw, hcp⟩ := wf_child hwf hxl hc
    exact ⟨cw, by rw [padded_lookup]; simp [Nat.ne_of_lt (live_lt hcw)]; exact hcw.1, hcw.2, hcp⟩
  · intro c hc
    obtain ⟨cw, hcw, hcp, hcv⟩ := wf_focused hwf hxl hc
    exact ⟨cw, by rw [padded_lookup]; simp [Nat.ne_of_lt (live_lt hcw)]; exact hcw.1, hcw.2, hcp, hcv⟩

theorem wfB_padded {t : Tree} (hwf : wfB t = true) : wfB (padded t) = true := by
  apply wfB_of
  · obtain ⟨r, hr0, h1, h2, h3⟩ := wf_root' hwf
    have : (0 : Nat) ≠ t.wins.size := fun h => by
      have := (Array.getElem?_eq_some_iff.mp hr0).1; omega
    exact ⟨r, by rw [padded_lookup]; simp [this]; exact hr0, h1, h2, h3⟩
  · intro j x hx hf
    rw [padded_lookup] at hx
    by_cases hj : j = t.wins.size
    · simp [hj] at hx; subst hx; simp at hf
    · simp only [hj, if_false] at hx
      exact winOk_padded hx hf (wf_winOk hwf hx hf) hwf

theorem good15_padded {t : Tree} (hg : Good15 t) : Good15 (padded t) := by
  have hlt_of : ∀ (c : Nat) (cw : Win), t.wins[c]? = some cw → c ≠ t.wins.size := fun c cw h =>
    Nat.ne_of_lt (Array.getElem?_eq_some_iff.mp h).1
  have back : ∀ (x : Nat) (wb : Win), (padded t).wins[x]? = some wb →
      (x = t.wins.size ∧ wb = { freed := true }) ∨ t.wins[x]? = some wb := by
    intro x wb hwb
    rw [padded_lookup] at hwb
    by_cases hx : x = t.wins.size
    · simp [hx] at hwb; exact .inl ⟨hx, hwb.symm⟩
    · simp only [hx, if_false] at hwb; exact .inr hwb
  have fwd : ∀ (x : Nat) (w0 : Win), t.wins[x]? = some w0 → (padded t).wins[x]? = some w0 := by
    intro x w0 hw0; rw [padded_lookup]; simp [hlt_of x w0 hw0]; exact hw0
  exact { wf := wfB_padded hg.wf
          wfp := ⟨fun cur wb hwb ch hch => by
            rcases back cur wb hwb with ⟨_, rfl⟩ | hw0
            · simp at hch
            · obtain ⟨cw, hcw, a, b⟩ := hg.wfp.child cur wb hw0 ch hch
              exact ⟨cw, fwd ch cw hcw, a, b⟩⟩
          rootWin := by
            obtain ⟨r, hr, a, b, c, d, e⟩ := hg.rootWin.ex
            exact ⟨⟨r, fwd 0 r hr, a, b, c, d, e⟩⟩
          onlyRoot := fun x wb hwb hr => by
            rcases back x wb hwb with ⟨_, rfl⟩ | hw0
            · simp at hr
            · exact hg.onlyRoot x wb hw0 hr
          nodup := fun cur wb hwb => by
            rcases back cur wb hwb with ⟨_, rfl⟩ | hw0
            · simp
            · exact hg.nodup cur wb hw0
          noSelf := fun x wb hwb => by
            rcases back x wb hwb with ⟨_, rfl⟩ | hw0
            · simp
            · exact hg.noSelf x wb hw0
          pos := fun x wb hwb hr => by
            rcases back x wb hwb with ⟨_, rfl⟩ | hw0
            · simp at hr
            · exact hg.pos x wb hw0 hr
          nonempty := hg.nonempty
          flagged := hg.flagged
          later := hg.later }

theorem cursorSpec_padded {t : Tree} (hwf : wfB t = true) : cursorSpec (padded t) = cursorSpec t := by
  obtain ⟨r, hr, _, _⟩ := wf_root hwf
  have hce : chainEnd (padded t) (treeFuel (padded t)) 0 = chainEnd t (treeFuel t) 0 :=
    chainEnd_padded hwf _ _ 0 r hr (by unfold treeFuel; rw [padded_size]; omega) (by unfold treeFuel; omega)
  obtain ⟨ew, hew, _⟩ := chainEnd_live hwf (treeFuel t) 0 r (by unfold treeFuel; omega) hr (.refl 0)
  have hne : chainEnd t (treeFuel t) 0 ≠ t.wins.size := Nat.ne_of_lt (live_lt hew)
  apply cursorSpec_ext hwf (wfB_padded hwf)
  intro L C s
  unfold ShownAt
  rw [hce, ownerAt_padded hwf]
  constructor
  · rintro ⟨w, hw, rest⟩
    refine ⟨w, ?_, rest⟩
    have := hw.1; rw [padded_lookup] at this; simp only [hne, if_false] at this
    exact ⟨this, hw.2⟩
  · rintro ⟨w, hw, rest⟩
    refine ⟨w, ?_, rest⟩
    exact ⟨by rw [padded_lookup]; simp only [hne, if_false]; exact hw.1, hw.2⟩

theorem filter_inserted (cs : List Nat) (n : Nat) (low : Bool) (hn : n ∉ cs) :
    (if low then cs ++ [n] else n :: cs).filter (fun x => decide (x ≠ n)) = cs.filter (fun x => decide (x ≠ n)) := by
  cases low <;> simp

/-- `tickit_window_new` keeps the invariants and requests what the property needs (fuel: one more than the size of the
    store, so that it suffices for the store with the new window). -/
theorem newWindow_step {t t' : Tree} {par0 : Nat} {rect0 : Rect} {rp hid low st : Bool} {id : Nat} (hg : Good15 t)
    (h : newWindow t (treeFuel t + 1) par0 rect0 rp hid low st = .ok (t', id)) :
    Good15 t' ∧ (Pending t' ∨ cursorSpec t' = cursorSpec t) := by
  obtain ⟨_, par, rect, pw, tb, hpw, hl, hsz, hroot, hexp⟩ := newWindow_pieces h
  have hplt := live_lt hpw
  have hpn : par ≠ t.wins.size := Nat.ne_of_lt hplt
  obtain ⟨b1, b2, b3, b4, b5, b6⟩ := struct_inserted hg.wfp hg.rootWin hg.onlyRoot hg.nodup hg.noSelf hg.pos hpw hl
  have hwfb := wfB_inserted hg.wf hpw hl
  have hln : tb.wins[t.wins.size]? = some (newWin par rect hid st) := by rw [hl]; unfold insertedStore; simp
  have hlp : tb.wins[par]? = some { pw with children := if low then pw.children ++ [t.wins.size] else t.wins.size :: pw.children } := by
    rw [hl]; unfold insertedStore; simp [hpn]
  have hlo : ∀ i : Nat, i ≠ t.wins.size → i ≠ par → tb.wins[i]? = t.wins[i]? := by
    intro i h1 h2; rw [hl]; unfold insertedStore; simp [h1, h2]
  have hnotin : t.wins.size ∉ pw.children := by
    intro hmem
    obtain ⟨cw, hcw, _, _⟩ := hg.wfp.child par pw hpw.1 _ hmem
    exact Nat.lt_irrefl _ (Array.getElem?_eq_some_iff.mp hcw).1
  have hsbl : SameButL (padded t) tb par t.wins.size :=
    { other := fun x hxp hxn => by rw [hlo x hxn hxp, padded_lookup]; simp [hxn]
      parNone := fun hn => by rw [padded_lookup] at hn; simp [hpn, hpw.1] at hn
      par := fun pw2 hpw2 => by
        rw [padded_lookup] at hpw2; simp only [hpn, if_false] at hpw2
        rw [hpw.1] at hpw2; cases hpw2
        exact ⟨_, hlp, rfl, rfl, rfl, filter_inserted _ _ _ hnotin⟩
      size := by rw [hsz, padded_size]
      only := fun x w hxp hxn hw => by
        rw [padded_lookup] at hw; simp only [hxn, if_false] at hw
        intro hmem
        obtain ⟨cw, hcw, _, _⟩ := hg.wfp.child x w hw _ hmem
        exact Nat.lt_irrefl _ (Array.getElem?_eq_some_iff.mp hcw).1 }
  have hsize0 : t.wins.size ≠ 0 := by
    obtain ⟨r, hr, _⟩ := hg.rootWin.ex
    have := (Array.getElem?_eq_some_iff.mp hr).1; omega
  have hexp' : (if (!hid) = true then expose tb (tb.wins.size + 1) par (some rect) else pure tb) = .ok t' := by
    have : treeFuel t + 1 = tb.wins.size + 1 := by unfold treeFuel; rw [hsz]
    rw [← this]; exact hexp
  obtain ⟨hinv, hwins, hne', hflags⟩ := list_change_step encCell (snapshot (padded t)) hsbl hpn hsize0 b1 b2
    (fun x y hc => by
      rcases hc with ⟨cw, hcw, _, hf, _⟩ | ⟨cw, hcw, hv, _, hm⟩
      · rw [padded_lookup] at hcw; simp at hcw; subst hcw; simp at hf
      · rw [hln] at hcw; cases hcw; exact ⟨hv, hm⟩)
    (by rw [hroot]; rfl) hg.nonempty b6 hexp' (invC_snapshot (padded t))
  have hroot' : t'.root = t.root ∨ (t'.root.needsExpose = true ∧ t'.root.needsLater = true) := by
    rcases hflags with h | ⟨a, b, _⟩
    · exact .inl h
    · exact .inr ⟨a, b⟩
  have hwf' : wfB t' = true := by rw [wfB_wins hwins]; exact hwfb
  obtain ⟨c1, c2, c3, c4, c5, c6⟩ := struct_congr (t := tb) (t' := t') (fun x => by rw [hwins]) b1 b2 b3 b4 b5 b6
  have hg' : Good15 t' :=
    { wf := hwf', wfp := c1, rootWin := c2, onlyRoot := c3, nodup := c4, noSelf := c5, pos := c6, nonempty := hne'
      flagged := by
        rcases hroot' with h | ⟨a, _⟩
        · rw [h]; exact hg.flagged
        · exact fun _ => a
      later := by
        rcases hroot' with h | ⟨_, b⟩
        · rw [h]; exact hg.later
        · exact fun _ => b }
  refine ⟨hg', ?_⟩
  rw [← cursorSpec_padded hg.wf]
  refine requests_of_step (good15_padded hg) hwf' hinv ?_ ?_ ?_
  · rcases hroot' with h | h
    · exact .inl ⟨by rw [h]; rfl, by rw [h]; rfl, by rw [h]; rfl⟩
    · exact .inr h
  · rw [hwins, padded_lookup]
    simp only [Ne.symm hsize0, if_false]
    by_cases h0p : (0 : Nat) = par
    · subst h0p; rw [hlp, hpw.1]; rfl
    · rw [hlo 0 (Ne.symm hsize0) h0p]
  · refine ⟨by rw [hwins, hsz, padded_size], fun y wy _ hwy => ?_⟩
    have hy := hwy.1
    rw [padded_lookup] at hy
    by_cases hys : y = t.wins.size
    · simp [hys] at hy; subst hy; have := hwy.2; simp at this
    · simp only [hys, if_false] at hy
      by_cases hyp : y = par
      · subst hyp
        rw [hpw.1] at hy; cases hy
        exact ⟨{ pw with children := if low then pw.children ++ [t.wins.size] else t.wins.size :: pw.children },
          ⟨by rw [hwins]; exact hlp, hwy.2⟩, rfl, rfl, rfl⟩
      · exact ⟨wy, ⟨by rw [hwins, hlo y hys hyp]; exact hy, hwy.2⟩, rfl, rfl, rfl⟩

/-! ### Part 3: what every operation does to the flags -/

/-- Flags only go up, and nothing is added to the queue. -/
def RootKeeps (r r' : Root) : Prop :=
  (r.needsRestore = true → r'.needsRestore = true) ∧ (r.needsExpose = true → r'.needsExpose = true) ∧
  (r.needsLater = true → r'.needsLater = true) ∧ (∀ q ∈ r'.changes, q ∈ r.changes)

theorem rootKeeps_refl (r : Root) : RootKeeps r r := ⟨id, id, id, fun _ => id⟩
theorem rootKeeps_trans {a b c : Root} (h1 : RootKeeps a b) (h2 : RootKeeps b c) : RootKeeps a c :=
  ⟨fun h => h2.1 (h1.1 h), fun h => h2.2.1 (h1.2.1 h), fun h => h2.2.2.1 (h1.2.2.1 h),
   fun q h => h1.2.2.2 q (h2.2.2.2 q h)⟩

theorem rootKeeps_of_step {r r' : Root} (h : RootStep r r') : RootKeeps r r' := by
  rcases h with h | h
  · rw [h]; exact rootKeeps_refl _
  · rw [h]; exact ⟨fun _ => rfl, id, fun _ => rfl, fun _ => id⟩

theorem expose_keeps : ∀ (fuel : Nat) (t : Tree) (win : Nat) (r : Option Rect) (t' : Tree),
    expose t fuel win r = .ok t' → RootKeeps t.root t'.root := by
  intro fuel
  induction fuel with
  | zero => intro t win r t' h; simp [expose] at h
  | succ f ih =>
    intro t win r t' h
    rw [expose] at h
    simp only [bind_ok] at h
    obtain ⟨w, _, h⟩ := h
    split at h
    · simp only [pure_ok] at h; subst h; exact rootKeeps_refl _
    · split at h
      · simp only [pure_ok] at h; subst h; exact rootKeeps_refl _
      · split at h
        · split at h
          · simp only [pure_ok] at h; subst h; exact rootKeeps_refl _
          · exact ih _ _ _ _ h
        · split at h
          · cases h
          · simp only [pure_ok] at h; subst h; exact rootKeeps_refl _
          · split at h
            · cases h
            · simp only [pure_ok] at h; subst h; exact ⟨id, fun _ => rfl, fun _ => rfl, fun _ => id⟩

theorem pending_keeps {t t' : Tree} (h : RootKeeps t.root t'.root) (hp : Pending t) : Pending t' := by
  obtain ⟨h1, h2⟩ := hp
  refine ⟨?_, h.2.2.1 h2⟩
  rcases h1 with h1 | h1
  · exact .inl (h.1 h1)
  · exact .inr (h.2.1 h1)

theorem hide_keeps {t t'' : Tree} {fuel win : Nat} (hh : WinTree.hide t fuel win = .ok t'') :
    RootKeeps t.root t''.root := by
  unfold WinTree.hide at hh
  simp only [bind_ok] at hh
  obtain ⟨t1, hm, w1, hg1, hh⟩ := hh
  unfold WinTree.modify at hm
  simp only [bind_ok, pure_ok] at hm
  obtain ⟨w0, hg0, ht1⟩ := hm
  subst ht1
  split at hh
  · simp only [bind_ok] at hh
    obtain ⟨pw, hgp, hh⟩ := hh
    have := expose_keeps _ _ _ _ _ hh
    split at this <;> exact this
  · simp only [pure_ok] at hh; subst hh; exact rootKeeps_refl _

theorem show_keeps {t t'' : Tree} {fuel win : Nat} (hh : WinTree.show t fuel win = .ok t'') :
    RootKeeps t.root t''.root := by
  unfold WinTree.show at hh
  simp only [bind_ok] at hh
  obtain ⟨t1, hm, w1, hg1, hh⟩ := hh
  unfold WinTree.modify at hm
  simp only [bind_ok, pure_ok] at hm
  obtain ⟨w0, hg0, ht1⟩ := hm
  subst ht1
  split at hh
  · simp only [bind_ok] at hh
    obtain ⟨pw, hgp, hh⟩ := hh
    split at hh
    · simp only [bind_ok, pure_ok] at hh
      obtain ⟨t2, ht2, hh⟩ := hh
      subst ht2
      have := expose_keeps _ _ _ _ _ hh
      exact this
    · simp only [bind_ok, pure_ok] at hh
      obtain ⟨t2, ht2, hh⟩ := hh
      subst ht2
      have := expose_keeps _ _ _ _ _ hh
      exact this
  · simp only [bind_ok, pure_ok] at hh
    obtain ⟨t2, ht2, hh⟩ := hh
    subst ht2
    have := expose_keeps _ _ _ _ _ hh
    exact this

theorem chainRestoreAfter_keeps (fx : Fixes) (t t'' : Tree) (p : Option Nat) :
    RootKeeps t''.root (chainRestoreAfter fx t t'' p).root :=
  rootKeeps_of_step (chainRestoreAfter_rootStep fx t t'' p)

theorem hideWin_keeps {fx : Fixes} {t t' : Tree} {win : Nat} (hg : Good15 t) (hh : hideWin fx t win = .ok t') :
    RootKeeps t.root t'.root := by
  unfold hideWin at hh
  simp only [bind_ok] at hh
  obtain ⟨w, _, t'', h2, hh⟩ := hh
  have hk := hide_keeps h2
  split at hh
  · simp only [pure_ok] at hh; subst hh
    exact rootKeeps_trans hk (rootKeeps_of_step (.inr rfl))
  · simp only [pure_ok] at hh; subst hh
    exact rootKeeps_trans hk (chainRestoreAfter_keeps _ _ _ _)

theorem showWin_keeps {fx : Fixes} {t t' : Tree} {win : Nat} (hg : Good15 t) (hh : showWin fx t win = .ok t') :
    RootKeeps t.root t'.root := by
  unfold showWin at hh
  simp only [bind_ok, pure_ok] at hh
  obtain ⟨w, _, t'', h2, hh⟩ := hh
  subst hh
  exact rootKeeps_trans (show_keeps h2) (chainRestoreAfter_keeps _ _ _ _)

theorem closeWin_keeps {fx : Fixes} {t t' : Tree} {win : Nat} (hg : Good15 t) (hh : closeWin fx t win = .ok t') :
    RootKeeps t.root t'.root := by
  unfold closeWin at hh
  simp only [bind_ok, pure_ok] at hh
  obtain ⟨w, hgw, t'', h2, hh⟩ := hh
  have hw := get_ok.mp hgw
  subst hh
  refine rootKeeps_trans ?_ (chainRestoreAfter_keeps _ _ _ _)
  have hne : ∀ p, w.parent = some p → p ≠ win := fun p hp hc => by
    have := (wf_parent hg.wf hw hp).1
    exact absurd (hc ▸ this) (Nat.lt_irrefl _)
  cases hp : w.parent with
  | none =>
    obtain ⟨_, hcase⟩ := close_struct h2 hw hne
    rcases hcase with ⟨_, _, hroot⟩ | ⟨p, _, hp', _⟩
    · rw [hroot]; exact rootKeeps_refl _
    · rw [hp] at hp'; cases hp'
  | some p =>
    have hplt := (wf_parent hg.wf hw hp).1
    have h0 : win ≠ 0 := fun h => by subst h; omega
    obtain ⟨pw, tb, tc, hpw, _, hlb, _, hdb, heb, hlatb, hrb, hqb, hexp, hroot', _⟩ := close_pieces h2 hw hp (hne p hp)
    have hkb : RootKeeps t.root tb.root :=
      ⟨fun h => by rw [hrb]; exact h, fun h => by rw [heb]; exact h, fun h => by rw [hlatb]; exact h, hqb⟩
    rw [hroot']
    refine rootKeeps_trans hkb ?_
    split at hexp
    · exact expose_keeps _ _ _ _ _ hexp
    · simp only [pure_ok] at hexp; subst hexp; exact rootKeeps_refl _

theorem move_keeps {t t' : Tree} {fuel win : Nat} {r : Rect}
    (hh : setGeometryExposed t fuel win r = .ok t') : RootKeeps t.root t'.root := by
  unfold setGeometryExposed at hh
  simp only [bind_ok] at hh
  obtain ⟨w0, hg0, x, hx, hh⟩ := hh
  have hx1 : x.1.root = t.root := by
    unfold setGeometry at hx
    simp only [bind_ok] at hx
    obtain ⟨w1, hg1, hx⟩ := hx
    split at hx
    · simp only [pure_ok] at hx; subst hx; rfl
    · simp only [pure_ok] at hx; subst hx; rfl
  obtain ⟨t1, b⟩ := x
  simp only [] at hh hx1
  split at hh
  · simp only [bind_ok] at hh
    obtain ⟨t2, h2, h3⟩ := hh
    rw [← hx1]
    exact rootKeeps_trans (expose_keeps _ _ _ _ _ h2) (expose_keeps _ _ _ _ _ h3)
  · simp only [pure_ok] at hh; subst hh; rw [hx1]; exact rootKeeps_refl _

theorem newWindow_keeps {t t' : Tree} {F par0 : Nat} {rect0 : Rect} {rp hid low st : Bool} {id : Nat}
    (h : newWindow t F par0 rect0 rp hid low st = .ok (t', id)) : RootKeeps t.root t'.root := by
  obtain ⟨_, par, rect, pw, tb, _, _, _, hroot, hexp⟩ := newWindow_pieces h
  rw [← hroot]
  split at hexp
  · exact expose_keeps _ _ _ _ _ hexp
  · simp only [pure_ok] at hexp; subst hexp; exact rootKeeps_refl _

end WinFocus
end Tickit
