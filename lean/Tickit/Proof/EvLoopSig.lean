import Tickit.Proof.EvLoop
/-
  C18, the walk of `tickit_evloop_invoke_sigwatches` over a list that callbacks mutate.

  `aft a l`: what follows the first occurrence of `a` in `l`.  The walk reads `this->next` after the
  callback, i.e. it continues with the head of `aft this (signals after the callback)`.
  `SigStep`: what any step a callback can take does to the list of signal watches (only fresh
  addresses enter, a watch leaves only by being freed, survivors keep their relative order) and to the
  heap (signal number and callback of a watch never change, a freed watch stays freed).
  Result (`sigwalk_complete`): a walk that returns normally has visited every watch that was in
  the list behind its starting point and is still in the list at the end — nothing is skipped.
-/
namespace Tickit.EvLoop

/-! ### `aft` -/

def aft (a : Nat) (l : List Nat) : List Nat := (l.dropWhile (· ≠ a)).drop 1

theorem aft_nil (a : Nat) : aft a [] = [] := rfl

theorem aft_cons_self (a : Nat) (l : List Nat) : aft a (a :: l) = l := by
  simp [aft, List.dropWhile_cons]

theorem aft_cons_ne {a x : Nat} (l : List Nat) (h : x ≠ a) : aft a (x :: l) = aft a l := by
  simp [aft, List.dropWhile_cons, h]

theorem succOf_eq_head_aft (a : Nat) : ∀ l : List Nat, succOf a l = (aft a l).head? := by
  intro l
  induction l with
  | nil => rfl
  | cons x rest ih =>
    simp only [succOf]
    split
    · rename_i h; subst h; rw [aft_cons_self]
    · rename_i h; rw [aft_cons_ne rest h]; exact ih

theorem aft_sublist (a : Nat) (l : List Nat) : (aft a l).Sublist l :=
  (List.drop_sublist 1 _).trans (List.dropWhile_sublist _)

theorem mem_of_mem_aft {a b : Nat} {l : List Nat} (h : b ∈ aft a l) : b ∈ l := (aft_sublist a l).subset h

theorem not_mem_aft_self (a : Nat) (l : List Nat) (h : l.Nodup) : a ∉ aft a l := not_mem_after_first a l h

/-- Under `Nodup`, what follows the head of `aft a l` is the tail of `aft a l`. -/
theorem aft_of_aft_cons (a n : Nat) : ∀ (l t : List Nat), l.Nodup → aft a l = n :: t → aft n l = t := by
  intro l
  induction l with
  | nil => intro t _ h; simp [aft] at h
  | cons x rest ih =>
    intro t hnd h
    rw [List.nodup_cons] at hnd
    by_cases hx : x = a
    · subst hx
      rw [aft_cons_self] at h
      -- rest = n :: t, x ≠ n because x ∉ rest
      have hn : x ≠ n := by
        intro hh; subst hh; rw [h] at hnd; exact hnd.1 List.mem_cons_self
      rw [aft_cons_ne _ hn, h, aft_cons_self]
    · rw [aft_cons_ne _ hx] at h
      have hn : x ≠ n := by
        intro hh; subst hh
        have : x ∈ rest := mem_of_mem_aft (by rw [h]; exact List.mem_cons_self)
        exact hnd.1 this
      rw [aft_cons_ne _ hn]
      exact ih t hnd.2 h

/-- Erasing some other element keeps `b` behind `a`. -/
theorem mem_aft_erase (a b z : Nat) (hza : z ≠ a) (hzb : z ≠ b) : ∀ l : List Nat, b ∈ aft a l → b ∈ aft a (l.erase z) := by
  intro l
  induction l with
  | nil => intro h; simp [aft] at h
  | cons x rest ih =>
    intro h
    by_cases hxz : x = z
    · subst hxz
      rw [List.erase_cons_head]
      rw [aft_cons_ne _ hza] at h
      exact h
    · rw [List.erase_cons_tail (by simpa using hxz)]
      by_cases hxa : x = a
      · subst hxa
        rw [aft_cons_self] at h ⊢
        exact (List.mem_erase_of_ne (Ne.symm hzb)).mpr h
      · rw [aft_cons_ne _ hxa] at h ⊢
        exact ih h

theorem mem_aft_cons_new (a b n : Nat) (l : List Nat) (hn : n ≠ a) (h : b ∈ aft a l) : b ∈ aft a (n :: l) := by
  rw [aft_cons_ne _ hn]; exact h

theorem mem_aft_append (a b : Nat) (l m : List Nat) : b ∈ aft a l → b ∈ aft a (l ++ m) := by
  induction l with
  | nil => intro h; simp [aft] at h
  | cons x rest ih =>
    intro h
    by_cases hxa : x = a
    · subst hxa
      rw [List.cons_append, aft_cons_self] at *
      exact List.mem_append_left _ h
    · rw [List.cons_append, aft_cons_ne _ hxa] at *
      exact ih h

/-! ### what a step does to the heap, as far as the signal walk cares -/

structure HExt2 (st st' : St) : Prop where
  len : st.heap.length ≤ st'.heap.length
  same : ∀ x, x < st.heap.length → (st'.getW x).signum = (st.getW x).signum ∧ (st'.getW x).slot = (st.getW x).slot
  dead : ∀ x, x < st.heap.length → st.live x = false → st'.live x = false

theorem HExt2.refl (st : St) : HExt2 st st := ⟨Nat.le_refl _, fun _ _ => ⟨rfl, rfl⟩, fun _ _ h => h⟩

theorem HExt2.trans {a b c : St} (h1 : HExt2 a b) (h2 : HExt2 b c) : HExt2 a c :=
  ⟨Nat.le_trans h1.len h2.len,
   fun x hx => by
     have hx' := Nat.lt_of_lt_of_le hx h1.len
     exact ⟨(h2.same x hx').1.trans (h1.same x hx).1, (h2.same x hx').2.trans (h1.same x hx).2⟩,
   fun x hx hd => h2.dead x (Nat.lt_of_lt_of_le hx h1.len) (h1.dead x hx hd)⟩

theorem HExt2.of_heap_eq {st st' : St} (h : st'.heap = st.heap) : HExt2 st st' :=
  ⟨by rw [h]; exact Nat.le_refl _, fun x _ => by rw [getW_of_heap_eq h]; exact ⟨rfl, rfl⟩,
   fun x _ hd => by rw [live_of_heap_eq h]; exact hd⟩

/-- Heap extended, list of signal watches untouched. -/
structure G2 (st st' : St) : Prop where
  ext : HExt2 st st'
  sigs : st'.signals = st.signals

theorem G2.refl (st : St) : G2 st st := ⟨HExt2.refl st, rfl⟩
theorem G2.trans {a b c : St} (h1 : G2 a b) (h2 : G2 b c) : G2 a c := ⟨h1.ext.trans h2.ext, by rw [h2.sigs, h1.sigs]⟩
theorem G2.of_eq {st st' : St} (hh : st'.heap = st.heap) (hs : st'.signals = st.signals) : G2 st st' :=
  ⟨HExt2.of_heap_eq hh, hs⟩

theorem g2_emit (st : St) (e : Ev) : G2 st (st.emit e) := G2.of_eq rfl rfl
theorem g2_fail (st : St) (w : Ub) : G2 st (st.fail w) := G2.of_eq (St.heap_fail st w) (by unfold St.fail; split <;> rfl)

theorem getW_alloc_old (st : St) (w : Watch) (a : Nat) (h : a < st.heap.length) : (st.alloc w).1.getW a = st.getW a := by
  simp only [St.getW, St.alloc, List.getD_eq_getElem?_getD, List.getElem?_append_left h]

theorem live_alloc_old (st : St) (w : Watch) (a : Nat) (h : a < st.heap.length) : (st.alloc w).1.live a = st.live a := by
  simp only [St.live, St.alloc, List.getElem?_append_left h]

theorem g2_alloc (st : St) (w : Watch) : G2 st (st.alloc w).1 :=
  ⟨⟨by rw [alloc_len]; omega, fun x hx => by rw [getW_alloc_old st w x hx]; exact ⟨rfl, rfl⟩,
    fun x hx hd => by rw [live_alloc_old st w x hx]; exact hd⟩, rfl⟩

theorem live_eq_not_freed (st : St) (a : Nat) (h : a < st.heap.length) : st.live a = !(st.getW a).freed := by
  have : st.heap[a]? = some st.heap[a] := List.getElem?_eq_getElem h
  simp only [St.live, St.getW, List.getD_eq_getElem?_getD, this, Option.getD_some]

/-- Overwriting a watch keeping its signal number and callback, and not reviving it. -/
theorem g2_setW (st : St) (a : Nat) (w : Watch) (h1 : w.signum = (st.getW a).signum) (h2 : w.slot = (st.getW a).slot)
    (h3 : (st.getW a).freed = true → w.freed = true) : G2 st (st.setW a w) := by
  refine ⟨⟨by rw [St.length_setW]; exact Nat.le_refl _, ?_, ?_⟩, rfl⟩
  · intro x hx
    by_cases hax : a = x
    · subst hax; rw [St.getW_setW_self st a w hx]; exact ⟨h1, h2⟩
    · rw [St.getW_setW_ne st a x w hax]; exact ⟨rfl, rfl⟩
  · intro x hx hd
    by_cases hax : a = x
    · subst hax
      have hx' : a < (st.setW a w).heap.length := by rw [St.length_setW]; exact hx
      rw [live_eq_not_freed _ _ hx', St.getW_setW_self st a w hx]
      rw [live_eq_not_freed _ _ hx] at hd
      have : (st.getW a).freed = true := by simpa using hd
      rw [h3 this]; rfl
    · rw [St.live_setW_ne _ _ _ _ hax]; exact hd

theorem g2_setEvi (st : St) (a idx : Nat) : G2 st (st.setW a { st.getW a with evi := idx }) := g2_setW st a _ rfl rfl id
theorem g2_setWstatus (st : St) (a : Nat) (ws : Int) : G2 st (st.setW a { st.getW a with wstatus := ws }) := g2_setW st a _ rfl rfl id
theorem g2_setTypeNone (st : St) (a : Nat) : G2 st (st.setW a { st.getW a with type := .none }) := g2_setW st a _ rfl rfl id

theorem g2_free (st : St) (a : Nat) : G2 st (st.free a) := by
  unfold St.free
  split
  · exact g2_setW st a _ rfl rfl (fun _ => rfl)
  · exact g2_fail st _

theorem g2_raiseSig (st : St) (s : Int) : G2 st (raiseSig st s) := by
  unfold raiseSig
  split
  · exact G2.refl st
  · split
    · exact G2.of_eq rfl rfl
    · split
      · unfold sigRecord; split <;> first | exact G2.of_eq rfl rfl | exact G2.refl _
      · split
        · exact G2.of_eq rfl rfl
        · exact G2.refl st

theorem g2_evloopIo (st : St) (fd : Int) (cond : Nat) (w : Nat) : G2 st (evloopIo st fd cond w).1 := by
  unfold evloopIo
  split <;> exact G2.of_eq rfl rfl

theorem g2_evloopCancelIo (st : St) (idx : Nat) : G2 st (evloopCancelIo st idx) := G2.of_eq rfl rfl

theorem g2_evloopSignal (st : St) (s : Int) : G2 st (evloopSignal st s).1 := by
  unfold evloopSignal
  simp only []
  split <;> exact G2.of_eq rfl rfl

theorem g2_evloopCancelSignal (st : St) (idx : Nat) : G2 st (evloopCancelSignal st idx) := by
  unfold evloopCancelSignal
  simp only []
  split
  · exact G2.of_eq rfl rfl
  · split
    · split <;> exact G2.of_eq rfl rfl
    · exact G2.of_eq rfl rfl

theorem g2_insertWatch (st : St) (l : List Nat) (flags new : Nat) : G2 st (insertWatch st l flags new).1 := by
  unfold insertWatch
  split
  · exact G2.refl st
  · split
    · exact G2.refl st
    · exact g2_fail st _

theorem g2_notify (st : St) (a flags : Nat) : G2 st (notify st a flags) := by
  unfold notify
  simp only []
  split
  · exact g2_emit st _
  · exact G2.refl st

theorem g2_with_laters (st : St) (l : List Nat) : G2 st { st with laters := l } := G2.of_eq rfl rfl
theorem g2_with_iow (st : St) (l : List Nat) : G2 st { st with iow := l } := G2.of_eq rfl rfl
theorem g2_with_procs (st : St) (l : List Nat) : G2 st { st with procs := l } := G2.of_eq rfl rfl
theorem g2_with_timers (st : St) (l : List Nat) : G2 st { st with timers := l } := G2.of_eq rfl rfl
theorem g2_with_slots (st : St) (l : List SlotRec) : G2 st { st with slots := l } := G2.of_eq rfl rfl
theorem g2_with_errno (st : St) (e : Int) : G2 st { st with errno := e } := G2.of_eq rfl rfl
theorem g2_with_children (st : St) (l : List Proc) : G2 st { st with children := l } := G2.of_eq rfl rfl
theorem g2_with_status (st : St) (x : Status) : G2 st { st with status := x } := G2.of_eq rfl rfl
theorem g2_with_stillRunning (st : St) (b : Bool) : G2 st { st with stillRunning := b } := G2.of_eq rfl rfl
theorem g2_with_inRun (st : St) (b : Bool) : G2 st { st with inRun := b } := G2.of_eq rfl rfl
theorem g2_run_flags (st : St) : G2 st { st with stillRunning := true, inRun := true, runPolls := 0 } := G2.of_eq rfl rfl

theorem g2_watchLater (st : St) (flags : Nat) (slot : Int) (puser : Nat) : G2 st (watchLater st flags slot puser).1 := by
  unfold watchLater
  exact ((g2_alloc st _).trans (g2_insertWatch _ _ _ _)).trans (g2_with_laters _ _)

theorem g2_watchIo (st : St) (fd : Int) (cond flags : Nat) (slot : Int) : G2 st (watchIo st fd cond flags slot).1 := by
  unfold watchIo
  exact ((((g2_alloc st _).trans (g2_evloopIo _ _ _ _)).trans (g2_setEvi _ _ _)).trans
    (g2_insertWatch _ _ _ _)).trans (g2_with_iow _ _)

theorem g2_watchTimerAt (st : St) (due : TV) (flags : Nat) (slot : Int) : G2 st (watchTimerAt st due flags slot).1 := by
  unfold watchTimerAt
  simp only []
  split
  · exact (g2_alloc st _).trans (g2_with_timers _ _)
  · exact (g2_alloc st _).trans (g2_fail _ _)

theorem g2_watchTimerAfterMsec (st : St) (msec : Int) (flags : Nat) (slot : Int) :
    G2 st (watchTimerAfterMsec st msec flags slot).1 := by
  unfold watchTimerAfterMsec
  exact (g2_emit st _).trans (g2_watchTimerAt _ _ _ _)

theorem g2_waitpid (st : St) (pid : Int) : G2 st (waitpid st pid).st := by
  unfold waitpid
  split
  · split
    · exact G2.of_eq rfl rfl
    · split <;> exact G2.of_eq rfl rfl
  · exact G2.refl st

theorem g2_waitpidV (st : St) (pid : Int) : G2 st (waitpidV st pid).st := by
  unfold waitpidV
  split
  · exact g2_waitpid _ _
  · exact G2.refl _

theorem g2_cancelHook (st : St) (t : WType) (evi : Nat) : G2 st (cancelHook st t evi) := by
  unfold cancelHook
  split
  · exact g2_evloopCancelIo _ _
  · exact g2_evloopCancelSignal _ _
  · exact G2.refl _

theorem g2_cancelNotify (st : St) (a : Nat) (w : Watch) : G2 st (cancelNotify st a w) := by
  unfold cancelNotify
  split
  · exact g2_notify _ _ _
  · exact G2.refl _

theorem g2_cancelRest (st : St) (rest : List Nat) : G2 st (cancelRest st rest) := by
  unfold cancelRest
  split
  · exact G2.refl _
  · split
    · exact g2_fail _ _
    · exact G2.refl _

/-! ### the step relation on the list of signal watches -/

structure SInv (st : St) : Prop where
  nodup : st.signals.Nodup
  alloc : ∀ x ∈ st.signals, x < st.heap.length

structure SigFacts (st st' : St) : Prop where
  inv : SInv st'
  ext : HExt2 st st'
  /-- only freshly allocated watches enter the list -/
  fresh : ∀ x ∈ st'.signals, x ∈ st.signals ∨ st.heap.length ≤ x
  /-- a watch leaves the list only by being freed -/
  leave : ∀ x ∈ st.signals, x ∈ st'.signals ∨ st'.live x = false
  /-- survivors keep their order -/
  fwd : ∀ a b, a ∈ st.signals → a ∈ st'.signals → b ∈ st'.signals → b ∈ aft a st.signals → b ∈ aft a st'.signals

def SigStep (st st' : St) : Prop := SInv st → SigFacts st st'

theorem SigStep.refl (st : St) : SigStep st st :=
  fun i => ⟨i, HExt2.refl st, fun _ h => Or.inl h, fun _ h => Or.inl h, fun _ _ _ _ _ h => h⟩

theorem SigStep.trans {a b c : St} (h1 : SigStep a b) (h2 : SigStep b c) : SigStep a c := by
  intro ia
  have f1 := h1 ia
  have f2 := h2 f1.inv
  refine ⟨f2.inv, f1.ext.trans f2.ext, ?_, ?_, ?_⟩
  · intro x hx
    cases f2.fresh x hx with
    | inl h => exact f1.fresh x h
    | inr h => exact Or.inr (Nat.le_trans f1.ext.len h)
  · intro x hx
    cases f1.leave x hx with
    | inl h => exact f2.leave x h
    | inr h =>
      right
      exact f2.ext.dead x (Nat.lt_of_lt_of_le (ia.alloc x hx) f1.ext.len) h
  · intro x y hxa hxc hyc hxy
    -- x and y are in the middle list as well: they are old addresses
    have hxlt : x < a.heap.length := ia.alloc x hxa
    have hya : y ∈ a.signals := mem_of_mem_aft hxy
    have hylt : y < a.heap.length := ia.alloc y hya
    have hxb : x ∈ b.signals := by
      cases f2.fresh x hxc with
      | inl h => exact h
      | inr h => have := f1.ext.len; omega
    have hyb : y ∈ b.signals := by
      cases f2.fresh y hyc with
      | inl h => exact h
      | inr h => have := f1.ext.len; omega
    exact f2.fwd x y hxb hxc hyc (f1.fwd x y hxa hxb hyb hxy)

theorem G2.step {st st' : St} (g : G2 st st') : SigStep st st' := by
  intro i
  refine ⟨⟨by rw [g.sigs]; exact i.nodup, fun x hx => by rw [g.sigs] at hx; exact Nat.lt_of_lt_of_le (i.alloc x hx) g.ext.len⟩,
    g.ext, ?_, ?_, ?_⟩
  · intro x hx; rw [g.sigs] at hx; exact Or.inl hx
  · intro x hx; left; rw [g.sigs]; exact hx
  · intro a b _ _ _ h; rw [g.sigs]; exact h

theorem g2_watchSignalPre (st : St) (signum : Int) (flags : Nat) (slot : Int) :
    G2 st (watchSignalPre st signum flags slot) := by
  unfold watchSignalPre
  exact ((g2_alloc st _).trans (g2_evloopSignal _ _)).trans (g2_setEvi _ _ _)

theorem len_watchSignalPre (st : St) (signum : Int) (flags : Nat) (slot : Int) :
    st.heap.length < (watchSignalPre st signum flags slot).heap.length := by
  unfold watchSignalPre
  have h1 := alloc_len st { type := .signal, flags := flags &&& (BIND_UNBIND ||| BIND_DESTROY), slot := slot, signum := signum }
  have h2 := (g2_evloopSignal (st.alloc { type := .signal, flags := flags &&& (BIND_UNBIND ||| BIND_DESTROY), slot := slot, signum := signum }).1 signum).ext.len
  rw [St.length_setW]
  omega

/-- Registering a signal watch: the new address goes to the front (BIND_FIRST) or to the back. -/
theorem step_watchSignal (st : St) (signum : Int) (flags : Nat) (slot : Int) :
    SigStep st (watchSignal st signum flags slot).1 := by
  intro i
  unfold watchSignal
  have g := g2_watchSignalPre st signum flags slot
  have hlen := len_watchSignalPre st signum flags slot
  generalize watchSignalPre st signum flags slot = s1 at g hlen ⊢
  have hnew : st.heap.length ∉ st.signals := fun h => Nat.lt_irrefl _ (i.alloc _ h)
  have gi := g2_insertWatch s1 s1.signals flags st.heap.length
  have hext : HExt2 st (insertWatch s1 s1.signals flags st.heap.length).1 := g.ext.trans gi.ext
  have hlist : (insertWatch s1 s1.signals flags st.heap.length).2 = st.heap.length :: st.signals ∨
      (insertWatch s1 s1.signals flags st.heap.length).2 = st.signals ++ [st.heap.length] ∨
      (insertWatch s1 s1.signals flags st.heap.length).2 = st.signals := by
    unfold insertWatch
    rw [g.sigs]
    split
    · exact Or.inl rfl
    · split
      · exact Or.inr (Or.inl rfl)
      · exact Or.inr (Or.inr rfl)
  have hlen2 : s1.heap.length ≤ (insertWatch s1 s1.signals flags st.heap.length).1.heap.length := gi.ext.len
  generalize (insertWatch s1 s1.signals flags st.heap.length).2 = l' at hlist ⊢
  generalize (insertWatch s1 s1.signals flags st.heap.length).1 = s2 at hext hlen2 ⊢
  show SigFacts st { s2 with signals := l' }
  have hext' : HExt2 st { s2 with signals := l' } := hext.trans (HExt2.of_heap_eq rfl)
  rcases hlist with h | h | h
  · subst h
    refine ⟨⟨List.nodup_cons.mpr ⟨hnew, i.nodup⟩, ?_⟩, hext', ?_, ?_, ?_⟩
    · intro x hx
      show x < s2.heap.length
      simp only [List.mem_cons] at hx
      cases hx with
      | inl h => omega
      | inr h => have := i.alloc x h; omega
    · intro x hx
      simp only [List.mem_cons] at hx
      cases hx with
      | inl h => exact Or.inr (by omega)
      | inr h => exact Or.inl h
    · intro x hx; exact Or.inl (List.mem_cons_of_mem _ hx)
    · intro a b ha _ _ hab
      have : st.heap.length ≠ a := fun h => hnew (h ▸ ha)
      exact mem_aft_cons_new a b _ _ this hab
  · subst h
    refine ⟨⟨?_, ?_⟩, hext', ?_, ?_, ?_⟩
    · rw [List.nodup_append]
      refine ⟨i.nodup, by simp, ?_⟩
      intro x hx y hy
      simp only [List.mem_singleton] at hy
      subst hy
      intro h; subst h; exact hnew hx
    · intro x hx
      show x < s2.heap.length
      simp only [List.mem_append, List.mem_singleton] at hx
      cases hx with
      | inl h => have := i.alloc x h; omega
      | inr h => omega
    · intro x hx
      simp only [List.mem_append, List.mem_singleton] at hx
      cases hx with
      | inl h => exact Or.inl h
      | inr h => exact Or.inr (by omega)
    · intro x hx; exact Or.inl (List.mem_append_left _ hx)
    · intro a b _ _ _ hab
      exact mem_aft_append a b _ _ hab
  · subst h
    refine ⟨⟨i.nodup, fun x hx => by show x < s2.heap.length; have := i.alloc x hx; omega⟩, hext', ?_, ?_, ?_⟩
    · intro x hx; exact Or.inl hx
    · intro x hx; exact Or.inl hx
    · intro a b _ _ _ h; exact h

theorem g2_setListOf_ne (st : St) (t : WType) (l : List Nat) (h : t ≠ .signal) : G2 st (setListOf st t l) := by
  cases t <;> first | exact G2.of_eq rfl rfl | exact absurd rfl h

theorem live_of_g2_dead {st st' : St} (g : G2 st st') (x : Nat) (hx : x < st.heap.length) (h : st.live x = false) :
    st'.live x = false := g.ext.dead x hx h

theorem live_free_false (st : St) (a : Nat) : (st.free a).live a = false := by
  cases h : st.live a
  · unfold St.free; rw [h]; simp only [Bool.false_eq_true, if_false]; rw [St.live_fail]; exact h
  · exact St.live_free_self st a h

/-- `tickit_watch_cancel` once the watch is found: it leaves its list and is freed. -/
theorem step_cancelFound (st : St) (a : Nat) (w : Watch) (l : List Nat) (hl : l = listOf st w.type) (ha : a ∈ l) :
    SigStep st (cancelFound st a w l) := by
  unfold cancelFound
  by_cases ht : w.type = .signal
  · intro i
    rw [ht] at hl ⊢
    have hl' : l = st.signals := hl
    subst hl'
    -- heap: only the tail of the composition matters
    have g : G2 { st with signals := st.signals.erase a }
        (cancelRest ((cancelHook (cancelNotify { st with signals := st.signals.erase a } a w) WType.signal w.evi).free a)
          (List.drop 1 (List.dropWhile (fun x => decide (x ≠ a)) st.signals))) :=
      (((g2_cancelNotify _ a w).trans (g2_cancelHook _ _ _)).trans (g2_free _ a)).trans (g2_cancelRest _ _)
    show SigFacts st (cancelRest ((cancelHook (cancelNotify { st with signals := st.signals.erase a } a w) WType.signal w.evi).free a)
          (List.drop 1 (List.dropWhile (fun x => decide (x ≠ a)) st.signals)))
    have halt : a < st.heap.length := i.alloc a ha
    have hdead : (cancelRest ((cancelHook (cancelNotify { st with signals := st.signals.erase a } a w) WType.signal w.evi).free a)
          (List.drop 1 (List.dropWhile (fun x => decide (x ≠ a)) st.signals))).live a = false := by
      have h1 : ((cancelHook (cancelNotify { st with signals := st.signals.erase a } a w) WType.signal w.evi).free a).live a = false :=
        live_free_false _ a
      have hlt : a < ((cancelHook (cancelNotify { st with signals := st.signals.erase a } a w) WType.signal w.evi).free a).heap.length :=
        Nat.lt_of_lt_of_le halt (((g2_cancelNotify { st with signals := st.signals.erase a } a w).trans (g2_cancelHook _ _ _)).trans (g2_free _ a)).ext.len
      exact (g2_cancelRest _ _).ext.dead a hlt h1
    generalize (cancelRest ((cancelHook (cancelNotify { st with signals := st.signals.erase a } a w) WType.signal w.evi).free a)
          (List.drop 1 (List.dropWhile (fun x => decide (x ≠ a)) st.signals))) = s' at g hdead ⊢
    have hs : s'.signals = st.signals.erase a := g.sigs
    have hext : HExt2 st s' := (HExt2.of_heap_eq rfl : HExt2 st { st with signals := st.signals.erase a }).trans g.ext
    have hne : ∀ x, x ∈ st.signals.erase a → x ≠ a := by
      intro x hx h; subst h
      exact (List.Nodup.mem_erase_iff i.nodup).mp hx |>.1 rfl
    refine ⟨⟨by rw [hs]; exact i.nodup.sublist List.erase_sublist, ?_⟩, hext, ?_, ?_, ?_⟩
    · intro x hx; rw [hs] at hx
      exact Nat.lt_of_lt_of_le (i.alloc x (List.erase_sublist.subset hx)) hext.len
    · intro x hx; rw [hs] at hx; exact Or.inl (List.erase_sublist.subset hx)
    · intro x hx
      by_cases hxa : x = a
      · subst hxa; exact Or.inr hdead
      · left; rw [hs]; exact (List.mem_erase_of_ne hxa).mpr hx
    · intro x y _ hx' hy' hxy
      rw [hs] at hx' hy' ⊢
      exact mem_aft_erase x y a (Ne.symm (hne x hx')) (Ne.symm (hne y hy')) _ hxy
  · exact (((((g2_setListOf_ne st w.type _ ht).trans (g2_cancelNotify _ a w)).trans (g2_cancelHook _ _ _)).trans (g2_free _ a)).trans
      (g2_cancelRest _ _)).step

theorem g2_cancelDetached (st : St) (a : Nat) : G2 st (cancelDetached st a) := by
  unfold cancelDetached
  exact (g2_cancelNotify st a _).trans (g2_setTypeNone _ a)

theorem g2_laterPre (st : St) (a : Nat) : G2 st (laterPre st a) := by
  unfold laterPre
  split
  · exact g2_setW _ a _ rfl rfl id
  · exact G2.refl _

theorem step_watchCancel0 (st : St) (a : Nat) : SigStep st (watchCancel0 st a) := by
  unfold watchCancel0
  split
  · exact SigStep.refl st
  · split
    · exact (g2_fail st _).step
    · split
      · exact SigStep.refl st
      · split
        · exact (g2_fail st _).step
        · split
          · split
            · exact (g2_cancelDetached st a).step
            · exact SigStep.refl st
          · rename_i hc
            have : a ∈ listOf st (st.getW a).type := by
              simpa using hc
            exact step_cancelFound st a _ _ rfl this

theorem step_watchCancel (st : St) (a : Nat) : SigStep st (watchCancel st a) := by
  unfold watchCancel
  split
  · split
    · exact (step_watchCancel0 st a).trans (step_watchCancel0 _ _)
    · exact step_watchCancel0 st a
  · exact step_watchCancel0 st a

theorem step_doRegister (st : St) (k : Int) (reg : St → St × Nat) (h : ∀ s, SigStep s (reg s).1) :
    SigStep st (doRegister st k reg) := by
  unfold doRegister
  split
  · exact (g2_emit _ _).step
  · split
    · exact (g2_emit _ _).step
    · exact (h st).trans (g2_with_slots _ _).step

theorem g2_with_cancelReq (st : St) (l : List Int) : G2 st { st with cancelReq := l } := G2.of_eq rfl rfl

theorem step_doCancel (st : St) (k : Int) : SigStep st (doCancel st k) := by
  unfold doCancel
  split
  · exact (g2_emit _ _).step
  · exact (g2_with_cancelReq _ _).step.trans (step_watchCancel _ _)

theorem g2_with_sigchldwatch (st : St) (x : Option Nat) : G2 st { st with sigchldwatch := x } := G2.of_eq rfl rfl

theorem step_ensureSigchld (st : St) : SigStep st (ensureSigchld st) := by
  unfold ensureSigchld
  split
  · exact SigStep.refl _
  · exact (step_watchSignal _ _ _ _).trans (g2_with_sigchldwatch _ _).step

theorem g2_setNotify (st : St) (a : Nat) (n : Option Nat) : G2 st (setNotify st a n) := by
  unfold setNotify
  exact g2_setW st a { st.getW a with notify := n } rfl rfl id

theorem g2_linkNotified (r : St × Nat) (a : Nat) (flags : Nat) : G2 r.1 (linkNotified r a flags) := by
  unfold linkNotified
  exact ((g2_setNotify r.1 a (some r.2)).trans (g2_insertWatch _ _ _ _)).trans (g2_with_procs _ _)

theorem g2_clearNotify (st : St) (a : Nat) : G2 st (clearNotify st a) := by
  unfold clearNotify
  split
  · exact g2_setNotify st a none
  · exact G2.refl _

theorem g2_linkProcess (st : St) (a : Nat) (pid : Int) (flags : Nat) : G2 st (linkProcess st a pid flags) := by
  unfold linkProcess
  simp only []
  split
  · split
    · exact (((g2_waitpid _ _).trans (g2_setWstatus _ _ _)).trans (g2_watchLater _ _ _ _)).trans (g2_linkNotified _ _ _)
    · exact ((g2_waitpid _ _).trans (g2_setWstatus _ _ _)).trans (g2_watchLater _ _ _ _)
  · exact ((g2_waitpid _ _).trans (g2_insertWatch _ _ _ _)).trans (g2_with_procs _ _)

theorem step_watchProcess (st : St) (pid : Int) (flags : Nat) (slot : Int) : SigStep st (watchProcess st pid flags slot).1 := by
  unfold watchProcess
  exact ((g2_alloc st _).step.trans (step_ensureSigchld _)).trans (g2_linkProcess _ _ _ _).step

/-- Everything a callback can do respects the list of signal watches. -/
theorem step_runAct (st : St) (act : Act) : SigStep st (runAct st act) := by
  unfold runAct
  split
  · exact SigStep.refl _
  · split
    · split
      · exact step_doRegister _ _ _ (fun s => (g2_watchTimerAfterMsec s _ _ _).step)
      · exact SigStep.refl _
    · split
      · exact step_doRegister _ _ _ (fun s => (g2_watchTimerAt s _ _ _).step)
      · exact SigStep.refl _
    · exact step_doRegister _ _ _ (fun s => (g2_watchLater s _ _ _).step)
    · exact step_doRegister _ _ _ (fun s => (g2_watchIo s _ _ _ _).step)
    · split
      · exact step_doRegister _ _ _ (fun s => step_watchSignal s _ _ _)
      · exact SigStep.refl _
    · split
      · exact step_doRegister _ _ _ (fun s => step_watchProcess s _ _ _)
      · exact SigStep.refl _
    · exact step_doCancel _ _
    · exact (g2_with_errno _ _).step
    · split
      · exact (g2_raiseSig _ _).step
      · exact SigStep.refl _
    · split
      · split
        · exact SigStep.refl _
        · exact (g2_with_children _ _).step
      · exact SigStep.refl _
    · exact (g2_with_stillRunning _ _).step
    · exact SigStep.refl _

theorem step_runActs (acts : List Act) : ∀ st : St,
    SigStep st (acts.foldl (fun st act => if st.isOk then runAct (st.emit .a) act else st) st) := by
  induction acts with
  | nil => intro st; exact SigStep.refl st
  | cons a rest ih =>
    intro st
    simp only [List.foldl_cons]
    refine SigStep.trans ?_ (ih _)
    split
    · exact (g2_emit _ _).step.trans (step_runAct _ _)
    · exact SigStep.refl _

theorem step_fireUser (st : St) (k : Int) (flags : Nat) (info : Info) : SigStep st (fireUser st k flags info) := by
  unfold fireUser
  simp only []
  split
  · exact (g2_emit _ _).step
  · split
    · exact (g2_emit _ _).step.trans (g2_with_slots _ _).step
    · exact ((g2_emit _ _).step.trans (g2_with_slots _ _).step).trans (step_runActs _ _)

theorem g2_unlinkOneshot (st : St) (a : Nat) : G2 st (unlinkOneshot st a) := by
  unfold unlinkOneshot
  split
  · exact g2_fail _ _
  · split
    · exact G2.refl _
    · rename_i hty
      have hns : (st.getW a).type ≠ .signal := by
        intro h; apply hty; simp [h]
      split
      · exact g2_fail _ _
      · split
        · exact G2.refl _
        · refine ((g2_setListOf_ne st _ _ hns).trans (g2_setW _ a _ ?_ ?_ ?_)).trans (g2_free _ a)
          · rw [getW_setListOf]
          · rw [getW_setListOf]
          · rw [getW_setListOf]; exact id

theorem g2_unlinkOneshotSaved (st : St) (a : Nat) (t : WType) : G2 st (unlinkOneshotSaved st a t) := by
  unfold unlinkOneshotSaved
  split
  · exact G2.refl _
  · rename_i hty
    have hns : t ≠ .signal := by
      intro h; apply hty; simp [h]
    split
    · exact g2_fail _ _
    · split
      · exact G2.refl _
      · refine ((g2_setListOf_ne st _ _ hns).trans (g2_setW _ a _ ?_ ?_ ?_)).trans (g2_free _ a)
        · rw [getW_setListOf]
        · rw [getW_setListOf]
        · rw [getW_setListOf]; exact id

theorem step_fireIf (st : St) (c : Prop) [Decidable c] (k : Int) (flags : Nat) (info : Info) :
    SigStep st (if c then fireUser st k flags info else st) := by
  split
  · exact step_fireUser _ _ _ _
  · exact SigStep.refl _

theorem step_invokeWatch (st : St) (a : Nat) (flags : Nat) (info : Info) : SigStep st (invokeWatch st a flags info) := by
  unfold invokeWatch
  have hf := step_fireIf st ((st.getW a).slot ≥ 0) (st.getW a).slot flags info
  generalize (if (st.getW a).slot ≥ 0 then fireUser st (st.getW a).slot flags info else st) = s1 at hf ⊢
  split
  · exact SigStep.refl _
  · split
    · exact (g2_fail _ _).step
    · split
      · exact hf
      · split
        · exact hf.trans (g2_unlinkOneshotSaved _ a _).step
        · exact hf.trans (g2_unlinkOneshot _ a).step

theorem step_procStep (st : St) (a : Nat) : SigStep st (procStep st a) := by
  unfold procStep
  split
  · exact (g2_waitpidV _ _).step
  · exact (g2_waitpidV _ _).step.trans (step_invokeWatch _ _ _ _)

theorem step_outOfFuel (st : St) : SigStep st (if st.isOk then { st with status := .outOfFuel } else st) := by
  split
  · exact (g2_with_status _ _).step
  · exact SigStep.refl _

theorem step_onSigchld (fuel : Nat) : ∀ (st : St) (this : Option Nat), SigStep st (onSigchld fuel st this) := by
  induction fuel with
  | zero => intro st this; unfold onSigchld; exact step_outOfFuel st
  | succ n ih =>
    intro st this
    unfold onSigchld
    split
    · exact SigStep.refl _
    · split
      · exact SigStep.refl _
      · split
        · exact (g2_fail _ _).step
        · exact (step_procStep _ _).trans (ih _ _)

theorem step_procSnapLoop (l : List Nat) : ∀ st : St, SigStep st (procSnapLoop st l) := by
  induction l with
  | nil => intro st; exact SigStep.refl st
  | cons a rest ih =>
    intro st
    unfold procSnapLoop
    split
    · exact SigStep.refl _
    · split
      · exact (g2_fail _ _).step
      · split
        · exact ih _
        · split
          · exact (g2_fail _ _).step
          · exact (step_procStep _ _).trans (ih _)

theorem step_onSigchldAny (fuel : Nat) (st : St) : SigStep st (onSigchldAny fuel st) := by
  unfold onSigchldAny
  split
  · split
    · exact (g2_fail _ _).step
    · exact step_procSnapLoop _ _
  · exact step_onSigchld _ _ _

/-- The callback of a signal watch (the harness's, `on_sigchld`, or `on_sigwinch`). -/
theorem step_sigCb (fuel : Nat) (st : St) (a : Nat) (s : Int) : SigStep st (sigCb fuel st a s) := by
  unfold sigCb
  split
  · split
    · exact step_fireUser _ _ _ _
    · split
      · exact step_onSigchldAny _ _
      · split
        · exact (g2_with_stillRunning _ _).step
        · exact SigStep.refl _
  · exact SigStep.refl _

theorem step_sigwatchLoopT (fuel : Nat) : ∀ (st : St) (s : Int) (this : Option Nat), SigStep st (sigwatchLoopT fuel st s this).1 := by
  induction fuel with
  | zero => intro st s this; unfold sigwatchLoopT; exact step_outOfFuel st
  | succ n ih =>
    intro st s this
    unfold sigwatchLoopT
    split
    · exact SigStep.refl _
    · split
      · exact SigStep.refl _
      · split
        · exact (g2_fail _ _).step
        · split
          · exact step_sigCb _ _ _ _
          · split
            · exact (step_sigCb _ _ _ _).trans (g2_fail _ _).step
            · exact (step_sigCb _ _ _ _).trans (ih _ _ _)

/-! ### the invariant `SInv` holds in every reachable state -/

theorem step_processNotify (st : St) (a : Nat) : SigStep st (processNotify st a) := by
  unfold processNotify
  split
  · exact (g2_fail _ _).step
  · exact (g2_clearNotify _ _).step.trans (step_invokeWatch _ _ _ _)

theorem step_laterCb (st : St) (a : Nat) : SigStep st (laterCb st a) := by
  unfold laterCb
  split
  · exact step_fireUser _ _ _ _
  · split
    · exact step_processNotify _ _
    · exact SigStep.refl _

theorem step_laterLoopT (l : List Nat) : ∀ st : St, SigStep st (laterLoopT st l).1 := by
  induction l with
  | nil => intro st; exact SigStep.refl st
  | cons a rest ih =>
    intro st
    unfold laterLoopT
    split
    · exact SigStep.refl _
    · split
      · exact (g2_fail _ _).step
      · split
        · exact (g2_free _ a).step.trans (ih _)
        · split
          · exact (g2_laterPre st a).step.trans (step_laterCb _ a)
          · split
            · exact ((g2_laterPre st a).step.trans (step_laterCb _ a)).trans (g2_fail _ _).step
            · exact (((g2_laterPre st a).step.trans (step_laterCb _ a)).trans (g2_free _ a).step).trans (ih _)

theorem step_laterLoop (l : List Nat) (st : St) : SigStep st (laterLoop st l) := step_laterLoopT l st

theorem step_timerLoopT (fuel : Nat) : ∀ (st : St) (now : TV) (this : Option Nat), SigStep st (timerLoopT fuel st now this).1 := by
  induction fuel with
  | zero => intro st now this; unfold timerLoopT; exact step_outOfFuel st
  | succ n ih =>
    intro st now this
    unfold timerLoopT
    split
    · exact SigStep.refl _
    · split
      · exact SigStep.refl _
      · rename_i a
        split
        · exact (g2_fail _ _).step
        · split
          · exact SigStep.refl _
          · simp only []
            split
            · exact step_fireUser _ _ _ _
            · split
              · exact (step_fireUser _ _ _ _).trans (g2_fail _ _).step
              · exact ((step_fireUser _ _ _ _).trans (g2_free _ a).step).trans (ih _ _ _)

theorem step_timerLoopPopT (fuel : Nat) : ∀ (st : St) (now : TV), SigStep st (timerLoopPopT fuel st now).1 := by
  induction fuel with
  | zero => intro st now; unfold timerLoopPopT; exact step_outOfFuel st
  | succ n ih =>
    intro st now
    unfold timerLoopPopT
    split
    · exact SigStep.refl _
    · split
      · exact SigStep.refl _
      · rename_i a rest hq
        split
        · exact (g2_fail _ _).step
        · split
          · exact SigStep.refl _
          · have h1 := (g2_with_timers st rest).step.trans (step_fireUser { st with timers := rest } (st.getW a).slot (EV_FIRE ||| EV_UNBIND) .none)
            simp only []
            split
            · exact h1
            · split
              · exact h1.trans (g2_fail _ _).step
              · exact (h1.trans (g2_free _ a).step).trans (ih _ _)

theorem step_timerPhaseShipped (fuel : Nat) (st : St) (now : TV) : SigStep st (timerPhaseShipped fuel st now) := by
  unfold timerPhaseShipped timerLoop
  simp only []
  split
  · exact (step_timerLoopT _ _ _ _).trans (g2_with_timers _ _).step
  · exact step_timerLoopT _ _ _ _

theorem step_timerPhase (fuel : Nat) (st : St) : SigStep st (timerPhase fuel st) := by
  unfold timerPhase
  split
  · exact SigStep.refl _
  · split
    · exact (g2_emit _ _).step.trans (step_timerLoopPopT _ _ _)
    · exact (g2_emit _ _).step.trans (step_timerPhaseShipped _ _ _)

theorem step_invokeTimers (fuel : Nat) (st : St) : SigStep st (invokeTimers fuel st) := by
  unfold invokeTimers
  split
  · exact SigStep.refl _
  · exact ((g2_with_laters st []).step.trans (step_timerPhase _ _)).trans (step_laterLoop _ _)

/-- The loop of the repaired walk, for any body `cb` that respects the list of signal watches. -/
theorem stepG_sigSnapLoop (cb : St → Nat → St) (hcb : ∀ st a, SigStep st (cb st a)) (l : List Nat) :
    ∀ st : St, SigStep st (sigSnapLoopG cb st l).1 := by
  induction l with
  | nil => intro st; exact SigStep.refl st
  | cons a rest ih =>
    intro st
    unfold sigSnapLoopG
    split
    · exact SigStep.refl _
    · split
      · exact (g2_fail _ _).step
      · split
        · exact ih _
        · split
          · exact (g2_fail _ _).step
          · exact (hcb _ _).trans (ih _)

/-- The repaired walk of this configuration is the shared loop run with `sigCb`. -/
theorem sigSnapLoopT_eq_G (fuel : Nat) (s : Int) (l : List Nat) :
    ∀ st : St, sigSnapLoopT fuel st s l = sigSnapLoopG (fun st a => sigCb fuel st a s) st l := by
  induction l with
  | nil => intro st; rfl
  | cons a rest ih =>
    intro st
    unfold sigSnapLoopT sigSnapLoopG
    simp only [ih]

theorem step_sigSnapLoopT (fuel : Nat) (s : Int) (l : List Nat) : ∀ st : St, SigStep st (sigSnapLoopT fuel st s l).1 := by
  intro st
  rw [sigSnapLoopT_eq_G]
  exact stepG_sigSnapLoop _ (fun st a => step_sigCb fuel st a s) l st

theorem step_sigDispatch (fuel : Nat) (st : St) (s : Int) : SigStep st (sigDispatch fuel st s) := by
  unfold sigDispatch
  split
  · split
    · exact (g2_fail _ _).step
    · exact step_sigSnapLoopT _ _ _ _
  · exact step_sigwatchLoopT _ _ _ _

theorem step_dispatchLoop (fuel : Nat) (pending : List Int) (l : List Int) : ∀ st : St, SigStep st (dispatchLoop fuel st pending l) := by
  induction l with
  | nil => intro st; exact SigStep.refl st
  | cons s rest ih =>
    intro st
    unfold dispatchLoop
    refine SigStep.trans ?_ (ih _)
    split
    · exact step_sigDispatch _ _ _
    · exact SigStep.refl _

theorem g2_with_pendingSig (st : St) (l : List Int) : G2 st { st with pendingSig := l } := G2.of_eq rfl rfl

theorem step_dispatchSignals (fuel : Nat) (st : St) : SigStep st (dispatchSignals fuel st) := by
  unfold dispatchSignals
  exact (g2_with_pendingSig st []).step.trans (step_dispatchLoop _ _ _ _)

theorem step_ioCb (st : St) (s : PollSlot) : SigStep st (ioCb st s) := by
  unfold ioCb
  split
  · split
    · exact (g2_fail _ _).step
    · exact step_invokeWatch _ _ _ _
  · exact SigStep.refl _

theorem step_ioLoopT (fuel : Nat) : ∀ (st : St) (idx : Nat), SigStep st (ioLoopT fuel st idx).1 := by
  induction fuel with
  | zero => intro st idx; unfold ioLoopT; exact step_outOfFuel st
  | succ n ih =>
    intro st idx
    unfold ioLoopT
    split
    · exact SigStep.refl _
    · split
      · exact SigStep.refl _
      · split
        · exact ih _ _
        · split
          · exact ih _ _
          · exact (step_ioCb _ _).trans (ih _ _)

theorem step_ioLoop (fuel : Nat) (st : St) (idx : Nat) : SigStep st (ioLoop fuel st idx) := step_ioLoopT fuel st idx

theorem g2_foldl_raiseSig (l : List Int) : ∀ st : St, G2 st (l.foldl raiseSig st) := by
  induction l with
  | nil => intro st; exact G2.refl st
  | cons s rest ih => intro st; exact (g2_raiseSig st s).trans (ih _)

theorem g2_pollScan (st : St) : G2 st (pollScan st) := G2.of_eq rfl rfl
theorem g2_with_inpoll (st : St) (l : List Int) : G2 st { st with inpoll := l } := G2.of_eq rfl rfl

theorem g2_pollRaise (st : St) : G2 st (pollRaise st) := by
  unfold pollRaise
  exact (g2_with_inpoll st []).trans (g2_foldl_raiseSig _ _)

theorem g2_pollTimeout (st : St) (t : Option Int) : G2 st (pollTimeout st t) := by
  unfold pollTimeout
  split
  · exact G2.of_eq rfl rfl
  · exact G2.refl _

theorem g2_deliverPending (st : St) : G2 st (deliverPending st) := by
  unfold deliverPending
  split <;> exact G2.of_eq rfl rfl

theorem g2_ppoll (st : St) (t : Option Int) : G2 st (ppoll st t).1 := by
  unfold ppoll
  split
  · exact (g2_pollScan st).trans (g2_pollRaise _)
  · split
    · exact ((g2_pollScan st).trans (g2_pollRaise _)).trans (g2_emit _ _)
    · split
      · exact ((((g2_pollScan st).trans (g2_pollRaise _)).trans (g2_deliverPending _)).trans (g2_with_errno _ _)).trans (g2_emit _ _)
      · exact (((g2_pollScan st).trans (g2_pollRaise _)).trans (g2_pollTimeout _ _)).trans (g2_emit _ _)

theorem g2_nextTimerMsec (st : St) : G2 st (nextTimerMsec st).1 := by
  unfold nextTimerMsec
  split
  · exact G2.refl _
  · split
    · exact G2.refl _
    · split
      · exact (g2_emit _ _).trans (g2_fail _ _)
      · exact g2_emit _ _

theorem step_tickAfterPoll (fuel : Nat) (st : St) (ret : Option Nat) : SigStep st (tickAfterPoll fuel st ret) := by
  unfold tickAfterPoll
  split
  · exact step_invokeTimers _ _
  · split
    · split
      · exact (step_invokeTimers _ _).trans (step_ioLoop _ _ _)
      · exact step_invokeTimers _ _
    · split
      · exact (step_invokeTimers _ _).trans (step_dispatchSignals _ _)
      · exact step_invokeTimers _ _

theorem step_tick (fuel : Nat) (st : St) (nohang : Bool) : SigStep st (tick fuel st nohang) := by
  unfold tick
  split
  · exact SigStep.refl _
  · split
    · exact (g2_nextTimerMsec _).step
    · split
      · exact ((g2_nextTimerMsec _).trans (g2_ppoll _ _)).step
      · exact ((g2_nextTimerMsec _).trans (g2_ppoll _ _)).step.trans (step_tickAfterPoll _ _ _)

theorem g2_ppollRun (st : St) (t : Option Int) : G2 st (ppollRun st t).1 := by
  unfold ppollRun
  split
  · exact g2_ppoll _ _
  · split
    · exact ((g2_ppoll st t).trans (G2.of_eq rfl rfl : G2 (ppoll st t).1
        { (ppoll st t).1 with runPolls := (ppoll st t).1.runPolls + 1, stillRunning := false })).trans (g2_emit _ _)
    · exact (g2_ppoll st t).trans (G2.of_eq rfl rfl : G2 (ppoll st t).1
        { (ppoll st t).1 with runPolls := (ppoll st t).1.runPolls + 1 })

theorem step_runIter (fuel : Nat) (st : St) : SigStep st (runIter fuel st) := by
  unfold runIter
  split
  · exact SigStep.refl _
  · split
    · exact (g2_nextTimerMsec _).step
    · split
      · exact ((g2_nextTimerMsec _).trans (g2_ppollRun _ _)).step
      · exact ((g2_nextTimerMsec _).trans (g2_ppollRun _ _)).step.trans (step_tickAfterPoll _ _ _)

theorem step_runLoop (fuel : Nat) (n : Nat) : ∀ st : St, SigStep st (runLoop fuel n st) := by
  induction n with
  | zero => intro st; unfold runLoop; exact step_outOfFuel st
  | succ k ih =>
    intro st
    unfold runLoop
    split
    · exact SigStep.refl _
    · split
      · exact SigStep.refl _
      · exact (step_runIter _ _).trans (ih _)

theorem step_run (fuel : Nat) (st : St) : SigStep st (run fuel st) := by
  have h0 : SigStep st { (watchSignal st 2 0 (-5)).1 with stillRunning := true, inRun := true, runPolls := 0 } :=
    (step_watchSignal st 2 0 (-5)).trans (g2_run_flags _).step
  unfold run
  split
  · exact SigStep.refl _
  · split
    · exact h0.trans (step_runLoop _ _ _)
    · exact ((h0.trans (step_runLoop _ _ _)).trans (g2_with_inRun _ _).step).trans (step_watchCancel _ _)

theorem g2_destroyNotify (st : St) (a : Nat) : G2 st (destroyNotify st a) := by
  unfold destroyNotify
  split
  · exact g2_notify _ _ _
  · exact G2.refl _

theorem g2_destroyList (t : WType) (l : List Nat) : ∀ st : St, G2 st (destroyList st t l) := by
  induction l with
  | nil => intro st; exact G2.refl st
  | cons a rest ih =>
    intro st
    unfold destroyList
    split
    · exact G2.refl _
    · split
      · exact g2_fail _ _
      · exact (((g2_destroyNotify _ _).trans (g2_cancelHook _ _ _)).trans (g2_free _ a)).trans (ih _)

/-- `SInv` only (destruction empties the lists while the watches in them have been freed one by one). -/
theorem sinv_destroy (st : St) (i : SInv st) : SInv (destroy st) := by
  unfold destroy
  split
  · exact i
  · have hc : SigStep st (cancelSigchld st) := by
      unfold cancelSigchld
      split
      · exact step_watchCancel _ _
      · exact SigStep.refl _
    have hd : ∀ (t : WType) (s : St), SigStep s (destroyOf t s) := fun t s => (g2_destroyList t _ s).step
    have h5 := ((((hc.trans (hd .io _)).trans (hd .timer _)).trans (hd .later _)).trans (hd .signal _)).trans (hd .process _)
    have i5 := (h5 i).inv
    unfold destroyFinish
    split
    · exact ⟨List.nodup_nil, fun x hx => by cases hx⟩
    · exact i5

theorem SInv.of_same {st st' : St} (h1 : st'.heap = st.heap) (h2 : st'.signals = st.signals) (i : SInv st) : SInv st' :=
  ⟨by rw [h2]; exact i.nodup, fun x hx => by rw [h2] at hx; rw [h1]; exact i.alloc x hx⟩

theorem sinv_applyOp (st : St) (op : Op) (i : SInv st) : SInv (applyOp st op) := by
  unfold applyOp
  have i0 : SInv { st with log := [] } := ((G2.of_eq rfl rfl : G2 st { st with log := [] }).step i).inv
  generalize ({ st with log := [] } : St) = s0 at i0 ⊢
  unfold applyOp'
  split
  · exact i0
  · split
    · exact i0
    · exact i0
    · exact i0
    · split
      · exact i0
      · split
        · exact SInv.of_same (st := s0) rfl rfl i0
        · exact (step_runAct _ _ i0).inv
        · exact SInv.of_same (st := s0) rfl rfl i0
        · exact SInv.of_same (st := s0) rfl rfl i0
        · exact SInv.of_same (st := s0) rfl rfl i0
        · exact (((g2_with_stillRunning s0 true).step.trans (step_tick _ _ _)) i0).inv
        · exact (((g2_with_stillRunning s0 true).step.trans (step_tick _ _ _)) i0).inv
        · exact (step_run _ _ i0).inv
        · exact sinv_destroy _ i0
        · exact i0

theorem g2_with_log (st : St) (l : List Ev) : G2 st { st with log := l } := G2.of_eq rfl rfl

theorem sinv_build (cfg : Config) : SInv (build cfg) := by
  have h0 : SInv (build0 cfg) := ⟨List.nodup_nil, fun x hx => (by cases hx)⟩
  unfold build
  exact (((g2_watchIo _ _ _ _ _).step.trans (step_watchSignal _ _ _ _)).trans (g2_with_log _ _).step h0).inv

/-- In every reachable state, under any variant of the source, the list of signal watches holds
    distinct allocated watches. -/
theorem sinv_runOps (cfg : Config) (ops : List Op) : SInv (runOps cfg ops) := by
  unfold runOps
  have : ∀ (l : List Op) (st : St), SInv st → SInv (l.foldl applyOp st) := by
    intro l
    induction l with
    | nil => intro st h; exact h
    | cons o rest ih => intro st h; exact ih _ (sinv_applyOp st o h)
  exact this ops _ (sinv_build cfg)

/-! ### nothing is skipped -/

/-- A walk of `tickit_evloop_invoke_sigwatches` that returns normally has visited every watch that
    was in the list at or behind its starting point and is still in the list when it returns —
    whatever the callbacks it ran registered or cancelled. -/
theorem sigwalk_complete (fuel : Nat) : ∀ (st : St) (s : Int) (this : Option Nat), SInv st →
    (sigwatchLoopT fuel st s this).1.status = .ok →
    ∀ b, b ∈ (sigwatchLoopT fuel st s this).1.signals →
      (∃ a, this = some a ∧ a ∈ st.signals ∧ (b = a ∨ b ∈ aft a st.signals)) →
      b ∈ (sigwatchLoopT fuel st s this).2 := by
  induction fuel with
  | zero =>
    intro st s this _ hok
    unfold sigwatchLoopT at hok
    simp only [] at hok
    split at hok
    · cases hok
    · rename_i h; exact absurd ((St.isOk_iff st).mpr hok) h
  | succ n ih =>
    intro st s this i
    unfold sigwatchLoopT
    split
    · rename_i h; intro hok; exact St.not_ok_absurd h hok
    · split
      · intro _ b _ ⟨a, ha, _⟩; cases ha
      · rename_i a
        split
        · intro hok; exact absurd hok (St.status_fail_ne _ _)
        · split
          · rename_i hbad; intro hok; exact St.not_ok_absurd hbad hok
          · split
            · intro hok; exact absurd hok (St.status_fail_ne _ _)
            · rename_i hlive0 hok1 hlive1
              intro hok b hbfin ⟨a', ha', hain, hb⟩
              simp only [Option.some.injEq] at ha'
              subst ha'
              cases hb with
              | inl h => subst h; exact List.mem_cons_self
              | inr hb =>
                apply List.mem_cons_of_mem
                -- facts about the callback and about the rest of the walk
                have f1 := step_sigCb n st a s i
                have i1 := f1.inv
                have f2 := step_sigwatchLoopT n (sigCb n st a s) s (succOf a (sigCb n st a s).signals) i1
                have hbst : b ∈ st.signals := mem_of_mem_aft hb
                have hblt : b < st.heap.length := i.alloc b hbst
                -- b is still in the list after the callback
                have hb1 : b ∈ (sigCb n st a s).signals := by
                  cases f2.fresh b hbfin with
                  | inl h => exact h
                  | inr h => have := f1.ext.len; omega
                -- and so is a (it is live)
                have ha1 : a ∈ (sigCb n st a s).signals := by
                  cases f1.leave a hain with
                  | inl h => exact h
                  | inr h =>
                    have : (sigCb n st a s).live a = true := by simpa using hlive1
                    rw [h] at this; cases this
                have hb2 : b ∈ aft a (sigCb n st a s).signals := f1.fwd a b hain ha1 hb1 hb
                -- the walk continues with the head of what follows a
                cases hq : aft a (sigCb n st a s).signals with
                | nil => rw [hq] at hb2; cases hb2
                | cons nx t =>
                  have hnext : succOf a (sigCb n st a s).signals = some nx := by
                    rw [succOf_eq_head_aft, hq]; rfl
                  have hnx : nx ∈ (sigCb n st a s).signals := mem_of_mem_aft (by rw [hq]; exact List.mem_cons_self)
                  rw [hnext] at hok hbfin ⊢
                  apply ih _ s (some nx) i1 hok b hbfin
                  refine ⟨nx, rfl, hnx, ?_⟩
                  rw [hq] at hb2
                  simp only [List.mem_cons] at hb2
                  cases hb2 with
                  | inl h => exact Or.inl h
                  | inr h =>
                    right
                    rw [aft_of_aft_cons a nx _ t i1.nodup hq]
                    exact h

/-! ### the repaired walk (snapshot) -/

/-- The repaired walk visits a sub-sequence of the snapshot, in snapshot order (any body). -/
theorem sigsnapG_sublist (cb : St → Nat → St) (l : List Nat) : ∀ st : St, (sigSnapLoopG cb st l).2.Sublist l := by
  induction l with
  | nil => intro st; simp [sigSnapLoopG]
  | cons a rest ih =>
    intro st
    unfold sigSnapLoopG
    split
    · exact List.nil_sublist _
    · split
      · exact List.nil_sublist _
      · split
        · exact (ih _).trans (List.sublist_cons_self a rest)
        · split
          · exact List.nil_sublist _
          · exact (ih _).cons₂ a

/-- … and skips nobody: a watch of the snapshot that is still in the list when the walk returns normally
    has been visited, whatever the callbacks registered or cancelled (their own watch included) — for any
    body `cb` that respects the list of signal watches. -/
theorem sigsnapG_complete (cb : St → Nat → St) (hcb : ∀ st a, SigStep st (cb st a)) (l : List Nat) : ∀ st : St, SInv st →
    (sigSnapLoopG cb st l).1.status = .ok →
    ∀ b ∈ l, b < st.heap.length → b ∈ (sigSnapLoopG cb st l).1.signals → b ∈ (sigSnapLoopG cb st l).2 := by
  induction l with
  | nil => intro st _ _ b hb; cases hb
  | cons a rest ih =>
    intro st i
    have hstep := stepG_sigSnapLoop cb hcb (a :: rest) st i
    unfold sigSnapLoopG at hstep ⊢
    split
    · rename_i h; intro hok; exact St.not_ok_absurd h hok
    · split
      · intro hok; exact absurd hok (St.status_fail_ne _ _)
      · rename_i hnok hlive
        split
        · rename_i hnot
          rw [if_neg hnok, if_neg hlive, if_pos hnot] at hstep
          intro hok b hb hblt hbfin
          simp only [List.mem_cons] at hb
          cases hb with
          | inl h =>
            subst h
            -- b is not in the list now, it is old, so it cannot be in the list at the end
            exfalso
            cases hstep.fresh b hbfin with
            | inl h => simp at hnot; exact hnot h
            | inr h => omega
          | inr h => exact ih st i hok b h hblt hbfin
        · split
          · intro hok; exact absurd hok (St.status_fail_ne _ _)
          · intro hok b hb hblt hbfin
            simp only [List.mem_cons] at hb
            cases hb with
            | inl h => subst h; exact List.mem_cons_self
            | inr h =>
              apply List.mem_cons_of_mem
              have f1 := hcb st a i
              exact ih _ f1.inv hok b h (Nat.lt_of_lt_of_le hblt f1.ext.len) hbfin

/-- The repaired walk visits a sub-sequence of the snapshot, in snapshot order. -/
theorem sigsnap_sublist (fuel : Nat) (s : Int) (l : List Nat) : ∀ st : St, (sigSnapLoopT fuel st s l).2.Sublist l := by
  intro st
  rw [sigSnapLoopT_eq_G]
  exact sigsnapG_sublist _ l st

/-- … and skips nobody: a watch of the snapshot that is still in the list when the walk returns normally
    has been visited, whatever the callbacks registered or cancelled (their own watch included). -/
theorem sigsnap_complete (fuel : Nat) (s : Int) (l : List Nat) : ∀ st : St, SInv st →
    (sigSnapLoopT fuel st s l).1.status = .ok →
    ∀ b ∈ l, b < st.heap.length → b ∈ (sigSnapLoopT fuel st s l).1.signals → b ∈ (sigSnapLoopT fuel st s l).2 := by
  intro st
  rw [sigSnapLoopT_eq_G]
  exact sigsnapG_complete _ (fun st a => step_sigCb fuel st a s) l st

/-! ### in list order -/

theorem aft_total (x y : Nat) : ∀ l : List Nat, x ∈ l → y ∈ l → x ≠ y → y ∈ aft x l ∨ x ∈ aft y l := by
  intro l
  induction l with
  | nil => intro h; cases h
  | cons z rest ih =>
    intro hx hy hne
    simp only [List.mem_cons] at hx hy
    by_cases hzx : z = x
    · subst hzx
      left
      rw [aft_cons_self]
      cases hy with
      | inl h => exact absurd h.symm hne
      | inr h => exact h
    · by_cases hzy : z = y
      · subst hzy
        right
        rw [aft_cons_self]
        cases hx with
        | inl h => exact absurd h hne
        | inr h => exact h
      · rw [aft_cons_ne _ hzx, aft_cons_ne _ hzy]
        cases hx with
        | inl h => exact absurd h.symm hzx
        | inr hx =>
          cases hy with
          | inl h => exact absurd h.symm hzy
          | inr hy => exact ih hx hy hne

theorem aft_antisymm (x y : Nat) : ∀ l : List Nat, l.Nodup → y ∈ aft x l → x ∉ aft y l := by
  intro l
  induction l with
  | nil => intro _ h; simp [aft] at h
  | cons z rest ih =>
    intro hnd hy hx
    rw [List.nodup_cons] at hnd
    by_cases hzx : z = x
    · subst hzx
      rw [aft_cons_self] at hy
      by_cases hzy : z = y
      · subst hzy; exact hnd.1 hy
      · rw [aft_cons_ne _ hzy] at hx
        exact hnd.1 (mem_of_mem_aft hx)
    · rw [aft_cons_ne _ hzx] at hy
      by_cases hzy : z = y
      · subst hzy; exact hnd.1 (mem_of_mem_aft hy)
      · rw [aft_cons_ne _ hzy] at hx
        exact ih hnd.2 hy hx

/-- Survivors keep their order — the other way round. -/
theorem SigFacts.bwd {st st' : St} (f : SigFacts st st') (i : SInv st) (x y : Nat)
    (hx : x ∈ st.signals) (hy : y ∈ st.signals) (hx' : x ∈ st'.signals) (hy' : y ∈ st'.signals)
    (h : y ∈ aft x st'.signals) : y ∈ aft x st.signals := by
  have hne : x ≠ y := by
    intro hh; subst hh; exact not_mem_aft_self x _ f.inv.nodup h
  cases aft_total x y st.signals hx hy hne with
  | inl h1 => exact h1
  | inr h1 =>
    have := f.fwd y x hy hy' hx' h1
    exact absurd this (aft_antisymm x y _ f.inv.nodup h)

/-- The watches a walk visits, relative to the list `st.signals` at its start: each is the starting
    point, a watch of that list, or one allocated later; watches of the list are visited in list
    order, all of them behind the starting point. -/
theorem sigwalk_ordered (fuel : Nat) : ∀ (st : St) (s : Int) (this : Option Nat), SInv st →
    (∀ a, this = some a → a ∈ st.signals) →
    (∀ v ∈ (sigwatchLoopT fuel st s this).2, v ∈ st.signals ∨ st.heap.length ≤ v) ∧
    (∀ v ∈ (sigwatchLoopT fuel st s this).2, ∀ a, this = some a → v = a ∨ (v ∈ st.signals → v ∈ aft a st.signals)) ∧
    (sigwatchLoopT fuel st s this).2.Pairwise (fun x y => x ∈ st.signals → y ∈ st.signals → y ∈ aft x st.signals) := by
  induction fuel with
  | zero => intro st s this _ _; simp [sigwatchLoopT]
  | succ n ih =>
    intro st s this i hthis
    unfold sigwatchLoopT
    split
    · simp
    · split
      · simp
      · rename_i a
        have hain : a ∈ st.signals := hthis a rfl
        have hsingle : (∀ v ∈ [a], v ∈ st.signals ∨ st.heap.length ≤ v) ∧
            (∀ v ∈ [a], ∀ a', some a = some a' → v = a' ∨ (v ∈ st.signals → v ∈ aft a' st.signals)) ∧
            [a].Pairwise (fun x y => x ∈ st.signals → y ∈ st.signals → y ∈ aft x st.signals) := by
          refine ⟨?_, ?_, List.pairwise_singleton _ _⟩
          · intro v hv; simp only [List.mem_singleton] at hv; subst hv; exact Or.inl hain
          · intro v hv a' ha'
            simp only [List.mem_singleton] at hv
            simp only [Option.some.injEq] at ha'
            subst hv ha'; exact Or.inl rfl
        split
        · simp
        · split
          · exact hsingle
          · split
            · exact hsingle
            · rename_i hlive0 hok1 hlive1
              have f1 := step_sigCb n st a s i
              have i1 := f1.inv
              generalize hst1 : sigCb n st a s = st1 at f1 i1 hlive1 hok1 ⊢
              have ha1 : a ∈ st1.signals := by
                cases f1.leave a hain with
                | inl h => exact h
                | inr h =>
                  have : st1.live a = true := by simpa using hlive1
                  rw [h] at this; cases this
              have hnext : ∀ b, succOf a st1.signals = some b → b ∈ st1.signals := by
                intro b hb
                rw [succOf_eq_head_aft] at hb
                exact mem_of_mem_aft (List.mem_of_mem_head? hb)
              obtain ⟨h0, h1, h2⟩ := ih st1 s (succOf a st1.signals) i1 hnext
              -- an old watch visited by the rest of the walk is in the list after the callback, behind `a`
              have hold : ∀ v ∈ (sigwatchLoopT n st1 s (succOf a st1.signals)).2, v ∈ st.signals →
                  v ∈ st1.signals ∧ v ∈ aft a st1.signals := by
                intro v hv hvst
                have hvlt : v < st.heap.length := i.alloc v hvst
                have hv1 : v ∈ st1.signals := by
                  cases h0 v hv with
                  | inl h => exact h
                  | inr h => have := f1.ext.len; omega
                refine ⟨hv1, ?_⟩
                cases hq : aft a st1.signals with
                | nil =>
                  -- the rest of the walk visits nothing
                  have hnone : succOf a st1.signals = none := by rw [succOf_eq_head_aft, hq]; rfl
                  rw [hnone] at hv
                  cases n with
                  | zero => simp [sigwatchLoopT] at hv
                  | succ m =>
                    unfold sigwatchLoopT at hv
                    split at hv
                    · cases hv
                    · cases hv
                | cons nx t =>
                  have hsome : succOf a st1.signals = some nx := by rw [succOf_eq_head_aft, hq]; rfl
                  cases h1 v hv nx hsome with
                  | inl h => subst h; exact List.mem_cons_self
                  | inr h =>
                    have := h hv1
                    rw [aft_of_aft_cons a nx _ t i1.nodup hq] at this
                    exact List.mem_cons_of_mem _ this
              refine ⟨?_, ?_, ?_⟩
              · intro v hv
                simp only [List.mem_cons] at hv
                cases hv with
                | inl h => subst h; exact Or.inl hain
                | inr h =>
                  cases h0 v h with
                  | inl h' => exact f1.fresh v h'
                  | inr h' => exact Or.inr (Nat.le_trans f1.ext.len h')
              · intro v hv a' ha'
                simp only [Option.some.injEq] at ha'
                subst ha'
                simp only [List.mem_cons] at hv
                cases hv with
                | inl h => exact Or.inl h
                | inr h =>
                  right
                  intro hvst
                  obtain ⟨hv1, hv2⟩ := hold v h hvst
                  exact f1.bwd i a v hain hvst ha1 hv1 hv2
              · rw [List.pairwise_cons]
                refine ⟨?_, ?_⟩
                · intro y hy _ hyst
                  obtain ⟨hy1, hy2⟩ := hold y hy hyst
                  exact f1.bwd i a y hain hyst ha1 hy1 hy2
                · refine List.Pairwise.imp_of_mem ?_ h2
                  intro x y hx hy hxy hxst hyst
                  obtain ⟨hx1, _⟩ := hold x hx hxst
                  obtain ⟨hy1, _⟩ := hold y hy hyst
                  exact f1.bwd i x y hxst hyst hx1 hy1 (hxy hx1 hy1)

end Tickit.EvLoop
